(* Proofs/HeapProofs.v -- packets as objects (Model/Heap.v): allocation builds fresh trees, every operation keeps the world
   well formed and tree shaped up to the objects the user put in two places, hence live packets are separated over all
   histories; locality of the operations.  Statements: notes/stmts/S12_heap.v.
   One statement is changed: `w_step_separated` needs the extra hypothesis `tree_like w` (`separated` alone is not
   inductive: a path below a shared object can be cut by an assignment; counterexample `cut_world` at the end). *)
From Coq Require Import ZArith List Bool Lia.
From Bisturi Require Import Base.Bytes Model.Value Model.Decl Model.Unpack Model.Pack Model.Init Model.Codegen Model.Canon Model.Heap.
Import ListNotations. Open Scope Z_scope.
(* the black boxes inside w_step are never unfolded *)
Local Opaque complete unpack_any pack_any_top FUEL RFUEL.

(* every cell lives below `next`; every reference inside a cell, and every live packet, points to a cell *)
Definition h_valid (h : heap) : Prop :=
  0 <= next h /\ (forall a o, h_get h a = Some o -> 0 <= a < next h) /\
  (forall a x b, child h a x -> x = HRef b -> exists o, h_get h b = Some o).
Definition w_valid (w : world) : Prop :=
  h_valid (hp w) /\ (forall r a, root_get (roots w) r = Some a -> exists o, h_get (hp w) a = Some o) /\
  (forall s, In s (shared w) -> exists o, h_get (hp w) s = Some o).

(* two live packets have in common only what hangs below an object the user put in two places *)
Definition separated (w : world) : Prop :=
  forall r1 r2 a1 a2 b, r1 <> r2 -> root_get (roots w) r1 = Some a1 -> root_get (roots w) r2 = Some a2 ->
    reach (hp w) (HRef a1) b -> reach (hp w) (HRef a2) b ->
    exists s, In s (shared w) /\ reach (hp w) (HRef s) b.

(* ------------------------------------------------------------------------------------------------------------------ *)
(* 1. cells, children, reachability                                                                                    *)
(* ------------------------------------------------------------------------------------------------------------------ *)
Definition allocd (h : heap) (a : addr) : Prop := exists o, h_get h a = Some o.

Lemma h_get_put h a o b : h_get (h_put h a o) b = if b =? a then Some o else h_get h b.
Proof. reflexivity. Qed.
Lemma h_get_alloc h o b : h_get (snd (h_alloc h o)) b = if b =? next h then Some o else h_get h b.
Proof. reflexivity. Qed.
Lemma next_alloc h o : next (snd (h_alloc h o)) = next h + 1.
Proof. reflexivity. Qed.

Lemma valid_lt h a : h_valid h -> allocd h a -> 0 <= a < next h.
Proof. intros (_ & V & _) [o E]. eapply V; eauto. Qed.
Lemma valid_none h a : h_valid h -> next h <= a -> h_get h a = None.
Proof.
  intros V L. destruct (h_get h a) eqn:E; [|reflexivity].
  assert (0 <= a < next h) by (apply valid_lt; [assumption|eexists; eauto]). lia.
Qed.

(* the references a cell holds *)
Definition kids (o : hobj) : list hval := match o with HList l => l | HPkt _ s => map snd s end.
Lemma child_iff h a x : child h a x <-> exists o, h_get h a = Some o /\ In x (kids o).
Proof.
  split.
  - intros [a' l x' H I | a' c s f x' H I]; eexists; (split; [exact H|]); cbn.
    + exact I.
    + apply in_map_iff. exists (f, x'); auto.
  - intros [o [H I]]. destruct o as [l | c s]; cbn in I.
    + eapply ChList; eauto.
    + apply in_map_iff in I. destruct I as [[f y] [E I]]. cbn in E; subst. eapply ChPkt; eauto.
Qed.
Lemma child_agree h h' a x : h_get h' a = h_get h a -> child h a x -> child h' a x.
Proof. intros E C. apply child_iff in C. apply child_iff. rewrite E. exact C. Qed.
Lemma child_allocd h a x : child h a x -> allocd h a.
Proof. intros C. apply child_iff in C. destruct C as [o [E _]]. exists o; exact E. Qed.
Lemma valid_child h a b : h_valid h -> child h a (HRef b) -> allocd h b.
Proof. intros (_ & _ & V) C. eapply V; eauto. Qed.

Lemma reach_src h x b : reach h x b -> exists a, x = HRef a.
Proof. intros R; destruct R; eauto. Qed.
Lemma reach_snoc h x p b : reach h x p -> child h p (HRef b) -> reach h x b.
Proof.
  intros R C. induction R as [a | a y b' C' R IH].
  - eapply RStep; [exact C | constructor].
  - eapply RStep; [exact C' | auto].
Qed.
Lemma reach_trans h x p b : reach h x p -> reach h (HRef p) b -> reach h x b.
Proof.
  intros R1 R2. induction R1 as [a | a y b' C' R IH].
  - exact R2.
  - eapply RStep; [exact C' | auto].
Qed.
Lemma reach_last h x b : reach h x b -> x = HRef b \/ exists p, reach h x p /\ child h p (HRef b).
Proof.
  intros R. induction R as [a | a y b C R IH].
  - left; reflexivity.
  - right. destruct IH as [E | [p [Rp Cp]]].
    + subst y. exists a. split; [constructor | exact C].
    + exists p. split; [eapply RStep; eauto | exact Cp].
Qed.
Lemma reach_allocd h x c : h_valid h -> reach h x c -> (forall a, x = HRef a -> allocd h a) -> allocd h c.
Proof.
  intros V R. induction R as [a | a y b C R IH]; intros A.
  - apply A; reflexivity.
  - apply IH. intros a' E. subst y. eapply valid_child; eauto.
Qed.

(* frame: what is reachable from x, and the tree x denotes, depend only on the cells reachable from x *)
Lemma reach_frame h h' x b :
  reach h' x b -> (forall c, reach h x c -> h_get h' c = h_get h c) -> reach h x b.
Proof.
  intros R. induction R as [a | a y b C R IH]; intros A.
  - constructor.
  - assert (C' : child h a y).
    { apply child_agree with h'; [symmetry; apply A; constructor | exact C]. }
    eapply RStep; [exact C'|]. apply IH. intros c Rc. apply A. eapply RStep; eauto.
Qed.
Lemma reach_frame2 h h' x b :
  reach h x b -> (forall c, reach h x c -> h_get h' c = h_get h c) -> reach h' x b.
Proof.
  intros R. induction R as [a | a y b C R IH]; intros A.
  - constructor.
  - assert (C' : child h' a y).
    { apply child_agree with h; [apply A; constructor | exact C]. }
    eapply RStep; [exact C'|]. apply IH. intros c Rc. apply A. eapply RStep; eauto.
Qed.

Lemma map_opt_ext {A B} (f g : A -> option B) l : (forall x, In x l -> f x = g x) -> map_opt f l = map_opt g l.
Proof.
  induction l as [|a r IH]; intros E; [reflexivity|]. cbn.
  rewrite (E a (or_introl eq_refl)), IH; [reflexivity|]. intros x I; apply E; right; exact I.
Qed.

Lemma read_tree_frame h h' : forall n x,
  (forall c, reach h x c -> h_get h' c = h_get h c) -> read_tree n h' x = read_tree n h x.
Proof.
  induction n as [|k IH]; intros x A; destruct x as [v | a]; try reflexivity.
  cbn [read_tree]. rewrite (A a (RHere _ _)).
  destruct (h_get h a) as [[l | c s]|] eqn:E; [| |reflexivity].
  - rewrite (map_opt_ext (read_tree k h') (read_tree k h) l); [reflexivity|].
    intros x I. apply IH. intros c R. apply A. eapply RStep; [eapply ChList; eauto | exact R].
  - match goal with |- match map_opt ?f s with _ => _ end = match map_opt ?g s with _ => _ end =>
      rewrite (map_opt_ext f g s) end; [reflexivity|].
    intros [f x] I. cbn [snd fst]. rewrite IH; [reflexivity|].
    intros c' R. apply A. eapply RStep; [eapply ChPkt; eauto | exact R].
Qed.

(* ------------------------------------------------------------------------------------------------------------------ *)
(* 2. allocation of a tree                                                                                             *)
(* ------------------------------------------------------------------------------------------------------------------ *)
Fixpoint alloc_list (l : list value) (h : heap) {struct l} : list hval * heap :=
  match l with
  | [] => ([], h)
  | a :: r => let '(x, h1) := alloc_tree a h in let '(xs, h2) := alloc_list r h1 in (x :: xs, h2)
  end.
Fixpoint alloc_slots (s : list (fname * value)) (h : heap) {struct s} : list (fname * hval) * heap :=
  match s with
  | [] => ([], h)
  | (f, a) :: r => let '(x, h1) := alloc_tree a h in let '(xs, h2) := alloc_slots r h1 in ((f, x) :: xs, h2)
  end.
Lemma alloc_tree_list l h :
  alloc_tree (VList l) h = let '(xs, h1) := alloc_list l h in (HRef (next h1), snd (h_alloc h1 (HList xs))).
Proof. cbn [alloc_tree]. change (fix go (l : list value) (h : heap) {struct l} : list hval * heap :=
           match l with
           | [] => ([], h)
           | a :: r => let '(x, h1) := alloc_tree a h in let '(xs, h2) := go r h1 in (x :: xs, h2)
           end) with alloc_list. destruct (alloc_list l h); reflexivity. Qed.
Lemma alloc_tree_pkt c s h :
  alloc_tree (VPkt c s) h = let '(xs, h1) := alloc_slots s h in (HRef (next h1), snd (h_alloc h1 (HPkt c xs))).
Proof. cbn [alloc_tree]. change (fix go (s : list (fname * value)) (h : heap) {struct s} : list (fname * hval) * heap :=
           match s with
           | [] => ([], h)
           | (f, a) :: r => let '(x, h1) := alloc_tree a h in let '(xs, h2) := go r h1 in ((f, x) :: xs, h2)
           end) with alloc_slots. destruct (alloc_slots s h); reflexivity. Qed.
Lemma alloc_tree_leaf v h :
  match v with VList _ | VPkt _ _ => False | _ => True end -> alloc_tree v h = (HImm v, h).
Proof. destruct v; intros H; try contradiction; reflexivity. Qed.
Lemma alloc_list_cons a r h :
  alloc_list (a :: r) h = let '(x, h1) := alloc_tree a h in let '(xs, h2) := alloc_list r h1 in (x :: xs, h2).
Proof. reflexivity. Qed.
Lemma alloc_slots_cons f a r h :
  alloc_slots ((f, a) :: r) h = let '(x, h1) := alloc_tree a h in let '(xs, h2) := alloc_slots r h1 in ((f, x) :: xs, h2).
Proof. reflexivity. Qed.

Lemma value_ind_h (P : value -> Prop) :
  (forall v, match v with VList _ | VPkt _ _ => False | _ => True end -> P v) ->
  (forall l, Forall P l -> P (VList l)) ->
  (forall c s, Forall (fun p => P (snd p)) s -> P (VPkt c s)) -> forall v, P v.
Proof.
  intros H0 HL HP. fix IH 1. intros v.
  destruct v as [z|b|b| |l|l|k l|c s|c s|lf]; try (apply H0; exact I).
  - apply HL. exact ((fix go (l : list value) : Forall P l :=
                        match l with [] => Forall_nil _ | a :: r => Forall_cons _ (IH a) (go r) end) l).
  - apply HP. exact ((fix go (s : list (fname * value)) : Forall (fun p => P (snd p)) s :=
                        match s with
                        | [] => Forall_nil _
                        | (f, a) :: r => Forall_cons (f, a) (IH a : P (snd (f, a))) (go r)
                        end) s).
Qed.

(* what an allocation guarantees about the references xs it returns (the heap h before, h' after) *)
Record lok (h : heap) (xs : list hval) (h' : heap) : Prop := {
  ok_valid : h_valid h';
  ok_next : next h <= next h';
  ok_old : forall a, a < next h -> h_get h' a = h_get h a;
  ok_top : forall b, In (HRef b) xs -> next h <= b /\ allocd h' b;
  ok_down : forall p c, next h <= p -> child h' p (HRef c) -> next h <= c;      (* new cells point to new cells *)
  ok_uniq : forall p1 p2 c, next h <= c -> child h' p1 (HRef c) -> child h' p2 (HRef c) -> p1 = p2;
  ok_noparent : forall p c, In (HRef c) xs -> ~ child h' p (HRef c) }.

Lemma lok_refl h xs : h_valid h -> (forall b, ~ In (HRef b) xs) -> lok h xs h.
Proof.
  intros V N. split; auto.
  - lia.
  - intros b I. destruct (N b I).
  - intros p c L C. apply child_allocd in C. apply (valid_lt _ _ V) in C. lia.
  - intros p1 p2 c L C _. apply (valid_child _ _ _ V) in C. apply (valid_lt _ _ V) in C. lia.
  - intros p c I. destruct (N c I).
Qed.

Lemma child_old h h' n p x : (forall a, a < n -> h_get h' a = h_get h a) -> p < n -> child h' p x -> child h p x.
Proof. intros A L C. apply child_agree with h'; [symmetry; apply A; exact L | exact C]. Qed.

Lemma lok_app h xs1 h1 xs2 h2 : lok h xs1 h1 -> lok h1 xs2 h2 -> lok h (xs1 ++ xs2) h2.
Proof.
  intros K1 K2.
  assert (N1 := ok_next _ _ _ K1). assert (N2 := ok_next _ _ _ K2).
  assert (LOW : forall p c, child h2 p (HRef c) -> c < next h1 -> p < next h1).
  { intros p c C L. destruct (Z_lt_ge_dec p (next h1)) as [Hp|Hp]; [exact Hp|].
    assert (next h1 <= c) by (eapply (ok_down _ _ _ K2); [|exact C]; lia). lia. }
  split.
  - exact (ok_valid _ _ _ K2).
  - lia.
  - intros a L. rewrite (ok_old _ _ _ K2) by lia. apply (ok_old _ _ _ K1); exact L.
  - intros b I. apply in_app_or in I. destruct I as [I|I].
    + destruct (ok_top _ _ _ K1 b I) as [L [o E]]. split; [exact L|].
      exists o. rewrite (ok_old _ _ _ K2); [exact E|].
      assert (0 <= b < next h1) by (apply valid_lt; [exact (ok_valid _ _ _ K1) | exists o; exact E]). lia.
    + destruct (ok_top _ _ _ K2 b I) as [L A]. split; [lia | exact A].
  - intros p c L C. destruct (Z_lt_ge_dec p (next h1)) as [Hp|Hp].
    + eapply (ok_down _ _ _ K1); [exact L|]. eapply child_old; [exact (ok_old _ _ _ K2) | exact Hp | exact C].
    + assert (next h1 <= c) by (eapply (ok_down _ _ _ K2); [|exact C]; lia). lia.
  - intros p1 p2 c L C1 C2. destruct (Z_lt_ge_dec c (next h1)) as [Hc|Hc].
    + assert (P1 := LOW _ _ C1 Hc). assert (P2 := LOW _ _ C2 Hc).
      eapply (ok_uniq _ _ _ K1); [exact L | |]; (eapply child_old; [exact (ok_old _ _ _ K2) | | eassumption]); assumption.
    + eapply (ok_uniq _ _ _ K2); [|exact C1|exact C2]. lia.
  - intros p c I C. apply in_app_or in I. destruct I as [I|I].
    + destruct (ok_top _ _ _ K1 c I) as [L A].
      assert (Hc : 0 <= c < next h1) by (apply valid_lt; [exact (ok_valid _ _ _ K1) | exact A]).
      assert (P := LOW _ _ C (proj2 Hc)).
      eapply (ok_noparent _ _ _ K1); [exact I|]. eapply child_old; [exact (ok_old _ _ _ K2) | exact P | exact C].
    + eapply (ok_noparent _ _ _ K2); eauto.
Qed.

(* a new cell holding the references just allocated *)
Lemma lok_node h xs h1 o : lok h xs h1 -> kids o = xs -> lok h [HRef (next h1)] (snd (h_alloc h1 o)).
Proof.
  intros K Eo. set (h2 := snd (h_alloc h1 o)).
  assert (V1 := ok_valid _ _ _ K). assert (N1 := ok_next _ _ _ K).
  assert (G : forall b, h_get h2 b = if b =? next h1 then Some o else h_get h1 b) by (intros; apply h_get_alloc).
  assert (CH : forall p y, child h2 p y -> (p = next h1 /\ In y xs) \/ (p <> next h1 /\ child h1 p y)).
  { intros p y C. apply child_iff in C. destruct C as [o' [E I]]. rewrite G in E.
    destruct (Z.eqb_spec p (next h1)) as [Ep|Ep].
    - left. inversion E; subst o'. rewrite Eo in I. auto.
    - right. split; [exact Ep|]. apply child_iff. exists o'; auto. }
  assert (AL : forall b, allocd h1 b -> allocd h2 b).
  { intros b [o' E]. unfold allocd. rewrite G. destruct (b =? next h1); eauto. }
  split.
  - split; [|split].
    + unfold h2. rewrite next_alloc. destruct V1 as (? & _). lia.
    + intros a o' E. rewrite G in E. unfold h2; rewrite next_alloc. destruct (Z.eqb_spec a (next h1)) as [Ea|Ea].
      * destruct V1 as (? & _). lia.
      * assert (0 <= a < next h1) by (apply valid_lt; [exact V1 | exists o'; exact E]). lia.
    + intros a x b C Ex. subst x. apply AL. destruct (CH _ _ C) as [[_ I] | [_ C1]].
      * apply (ok_top _ _ _ K b I).
      * eapply valid_child; eauto.
  - unfold h2. rewrite next_alloc. lia.
  - intros a L. rewrite G. destruct (Z.eqb_spec a (next h1)); [lia|]. apply (ok_old _ _ _ K); exact L.
  - intros b [E|[]]. inversion E; subst b. split; [lia|]. exists o. rewrite G, Z.eqb_refl. reflexivity.
  - intros p c L C. destruct (CH _ _ C) as [[_ I] | [_ C1]].
    + apply (ok_top _ _ _ K c I).
    + eapply (ok_down _ _ _ K); eauto.
  - intros p1 p2 c L C1 C2. destruct (CH _ _ C1) as [[E1 I1] | [E1 D1]]; destruct (CH _ _ C2) as [[E2 I2] | [E2 D2]].
    + congruence.
    + destruct (ok_noparent _ _ _ K _ _ I1 D2).
    + destruct (ok_noparent _ _ _ K _ _ I2 D1).
    + eapply (ok_uniq _ _ _ K); eauto.
  - intros p c [E|[]] C. inversion E; subst c.
    assert (A : allocd h1 (next h1)).
    { destruct (CH _ _ C) as [[_ I] | [_ C1]]; [apply (ok_top _ _ _ K _ I) | eapply valid_child; eauto]. }
    apply (valid_lt _ _ V1) in A. lia.
Qed.

Lemma alloc_ok : forall v h x h', h_valid h -> alloc_tree v h = (x, h') -> lok h [x] h'.
Proof.
  induction v as [v Hv | l IH | c s IH] using value_ind_h; intros h x h' V E.
  - rewrite (alloc_tree_leaf v h Hv) in E. inversion E; subst. apply lok_refl; [exact V|].
    intros b [I|[]]; discriminate.
  - rewrite alloc_tree_list in E.
    assert (L : forall h xs h', h_valid h -> alloc_list l h = (xs, h') -> lok h xs h').
    { clear h x h' V E. induction IH as [|a r Ha Hr IHr]; intros h xs h' V E.
      - inversion E; subst. apply lok_refl; [exact V | intros b []].
      - rewrite alloc_list_cons in E. destruct (alloc_tree a h) as [x h1] eqn:E1.
        destruct (alloc_list r h1) as [xs' h2] eqn:E2. inversion E; subst.
        assert (K1 := Ha _ _ _ V E1). assert (K2 := IHr _ _ _ (ok_valid _ _ _ K1) E2).
        exact (lok_app _ _ _ _ _ K1 K2). }
    destruct (alloc_list l h) as [xs h1] eqn:E1. inversion E; subst.
    eapply lok_node; [apply (L _ _ _ V E1) | reflexivity].
  - rewrite alloc_tree_pkt in E.
    assert (L : forall h xs h', h_valid h -> alloc_slots s h = (xs, h') -> lok h (map snd xs) h').
    { clear h x h' V E. induction IH as [|[f a] r Ha Hr IHr]; intros h xs h' V E.
      - inversion E; subst. apply lok_refl; [exact V | intros b []].
      - rewrite alloc_slots_cons in E. destruct (alloc_tree a h) as [x h1] eqn:E1.
        destruct (alloc_slots r h1) as [xs' h2] eqn:E2. inversion E; subst.
        assert (K1 := Ha _ _ _ V E1). assert (K2 := IHr _ _ _ (ok_valid _ _ _ K1) E2).
        exact (lok_app _ _ _ _ _ K1 K2). }
    destruct (alloc_slots s h) as [xs h1] eqn:E1. inversion E; subst.
    eapply lok_node; [apply (L _ _ _ V E1) | reflexivity].
Qed.

Lemma alloc_list_ok : forall l h xs h', h_valid h -> alloc_list l h = (xs, h') -> lok h xs h'.
Proof.
  induction l as [|a r IH]; intros h xs h' V E.
  - inversion E; subst. apply lok_refl; [exact V | intros b []].
  - rewrite alloc_list_cons in E. destruct (alloc_tree a h) as [x h1] eqn:E1.
    destruct (alloc_list r h1) as [xs' h2] eqn:E2. inversion E; subst.
    assert (K1 := alloc_ok _ _ _ _ V E1). assert (K2 := IH _ _ _ (ok_valid _ _ _ K1) E2).
    exact (lok_app _ _ _ _ _ K1 K2).
Qed.
Lemma alloc_slots_ok : forall s h xs h', h_valid h -> alloc_slots s h = (xs, h') -> lok h (map snd xs) h'.
Proof.
  induction s as [|[f a] r IH]; intros h xs h' V E.
  - inversion E; subst. apply lok_refl; [exact V | intros b []].
  - rewrite alloc_slots_cons in E. destruct (alloc_tree a h) as [x h1] eqn:E1.
    destruct (alloc_slots r h1) as [xs' h2] eqn:E2. inversion E; subst.
    assert (K1 := alloc_ok _ _ _ _ V E1). assert (K2 := IH _ _ _ (ok_valid _ _ _ K1) E2).
    exact (lok_app _ _ _ _ _ K1 K2).
Qed.

(* everything reachable from a returned reference is new *)
Lemma reach_low h' lo : (forall p c, lo <= p -> child h' p (HRef c) -> lo <= c) ->
  forall x b, reach h' x b -> (forall a, x = HRef a -> lo <= a) -> lo <= b.
Proof.
  intros D x b R. induction R as [a | a y b C R IH]; intros A.
  - apply A; reflexivity.
  - apply IH. intros a' E. subst y. eapply D; [|exact C]. apply A; reflexivity.
Qed.
Lemma lok_reach h xs h' x b : lok h xs h' -> In x xs -> reach h' x b -> next h <= b < next h'.
Proof.
  intros K I R. destruct (reach_src _ _ _ R) as [a Ea]. subst x.
  destruct (ok_top _ _ _ K a I) as [La Aa]. split.
  - eapply reach_low; [exact (ok_down _ _ _ K) | exact R |]. intros a' E. inversion E; subst a'. exact La.
  - assert (A : allocd h' b).
    { eapply reach_allocd; [exact (ok_valid _ _ _ K) | exact R |]. intros a' E. inversion E; subst a'. exact Aa. }
    apply (valid_lt _ _ (ok_valid _ _ _ K)) in A. lia.
Qed.

(* (1) allocation of a tree: only fresh cells, nothing old is touched *)
Theorem alloc_tree_fresh : forall v h x h',
  h_valid h -> alloc_tree v h = (x, h') ->
  h_valid h' /\ next h <= next h' /\
  (forall a, a < next h -> h_get h' a = h_get h a) /\
  (forall b, reach h' x b -> next h <= b < next h').
Proof.
  intros v h x h' V E. assert (K := alloc_ok _ _ _ _ V E).
  split; [exact (ok_valid _ _ _ K)|]. split; [exact (ok_next _ _ _ K)|]. split; [exact (ok_old _ _ _ K)|].
  intros b R. eapply lok_reach; [exact K | left; reflexivity | exact R].
Qed.

(* later allocations do not change what an earlier reference denotes *)
Lemma read_tree_later h xs h1 h2 x n :
  lok h xs h1 -> In x xs -> (forall a, a < next h1 -> h_get h2 a = h_get h1 a) -> read_tree n h2 x = read_tree n h1 x.
Proof.
  intros K I O. apply read_tree_frame. intros c R. apply O. apply (lok_reach _ _ _ _ _ K I R).
Qed.

(* ... and it denotes the tree it was made from *)
Theorem alloc_tree_read : forall v h x h',
  h_valid h -> alloc_tree v h = (x, h') -> exists k, forall n, (k <= n)%nat -> read_tree n h' x = Some v.
Proof.
  induction v as [v Hv | l IH | c s IH] using value_ind_h; intros h x h' V E.
  - rewrite (alloc_tree_leaf v h Hv) in E. inversion E; subst. exists O. intros n _. destruct n; reflexivity.
  - rewrite alloc_tree_list in E.
    assert (L : forall h xs h', h_valid h -> alloc_list l h = (xs, h') ->
                exists k, forall n, (k <= n)%nat -> map_opt (read_tree n h') xs = Some l).
    { clear h x h' V E. induction IH as [|a r Ha Hr IHr]; intros h xs h' V E.
      - inversion E; subst. exists O. reflexivity.
      - rewrite alloc_list_cons in E. destruct (alloc_tree a h) as [x h1] eqn:E1.
        destruct (alloc_list r h1) as [xs' h2] eqn:E2. inversion E; subst.
        assert (K1 := alloc_ok _ _ _ _ V E1). assert (K2 := alloc_list_ok _ _ _ _ (ok_valid _ _ _ K1) E2).
        destruct (Ha _ _ _ V E1) as [k1 R1]. destruct (IHr _ _ _ (ok_valid _ _ _ K1) E2) as [k2 R2].
        exists (Nat.max k1 k2). intros n Ln. cbn [map_opt].
        rewrite (read_tree_later h [x] h1 h' x n K1 (or_introl eq_refl) (ok_old _ _ _ K2)).
        rewrite R1 by lia. rewrite R2 by lia. reflexivity. }
    destruct (alloc_list l h) as [xs h1] eqn:E1. inversion E; subst.
    assert (K := alloc_list_ok _ _ _ _ V E1). destruct (L _ _ _ V E1) as [k R].
    exists (S k). intros n Ln. destruct n as [|n]; [lia|]. cbn [read_tree].
    change {| cells := (next h1, HList xs) :: cells h1; next := next h1 + 1 |} with (snd (h_alloc h1 (HList xs))).
    rewrite h_get_alloc, Z.eqb_refl.
    rewrite (map_opt_ext (read_tree n (snd (h_alloc h1 (HList xs)))) (read_tree n h1) xs).
    + rewrite R by lia. reflexivity.
    + intros y I. apply (read_tree_later h xs h1 _ y n K I).
      intros a La. rewrite h_get_alloc. destruct (Z.eqb_spec a (next h1)); [lia | reflexivity].
  - rewrite alloc_tree_pkt in E.
    assert (L : forall h xs h', h_valid h -> alloc_slots s h = (xs, h') ->
                exists k, forall n, (k <= n)%nat ->
                  map_opt (fun p => match read_tree n h' (snd p) with Some v => Some (fst p, v) | None => None end) xs = Some s).
    { clear h x h' V E. induction IH as [|[f a] r Ha Hr IHr]; intros h xs h' V E.
      - inversion E; subst. exists O. reflexivity.
      - rewrite alloc_slots_cons in E. destruct (alloc_tree a h) as [x h1] eqn:E1.
        destruct (alloc_slots r h1) as [xs' h2] eqn:E2. inversion E; subst.
        assert (K1 := alloc_ok _ _ _ _ V E1). assert (K2 := alloc_slots_ok _ _ _ _ (ok_valid _ _ _ K1) E2).
        destruct (Ha _ _ _ V E1) as [k1 R1]. destruct (IHr _ _ _ (ok_valid _ _ _ K1) E2) as [k2 R2].
        exists (Nat.max k1 k2). intros n Ln. cbn [map_opt snd fst].
        rewrite (read_tree_later h [x] h1 h' x n K1 (or_introl eq_refl) (ok_old _ _ _ K2)).
        cbn [snd] in R1. rewrite R1 by lia. rewrite R2 by lia. reflexivity. }
    destruct (alloc_slots s h) as [xs h1] eqn:E1. inversion E; subst.
    assert (K := alloc_slots_ok _ _ _ _ V E1). destruct (L _ _ _ V E1) as [k R].
    exists (S k). intros n Ln. destruct n as [|n]; [lia|]. cbn [read_tree].
    change {| cells := (next h1, HPkt c xs) :: cells h1; next := next h1 + 1 |} with (snd (h_alloc h1 (HPkt c xs))).
    rewrite h_get_alloc, Z.eqb_refl.
    match goal with |- match map_opt ?f xs with _ => _ end = _ =>
      rewrite (map_opt_ext f (fun p => match read_tree n h1 (snd p) with Some v => Some (fst p, v) | None => None end) xs) end.
    + rewrite R by lia. reflexivity.
    + intros [f y] I. cbn [snd fst].
      rewrite (read_tree_later h (map snd xs) h1 _ y n K); [reflexivity | |].
      * apply in_map_iff. exists (f, y); auto.
      * intros a La. rewrite h_get_alloc. destruct (Z.eqb_spec a (next h1)); [lia | reflexivity].
Qed.

(* ------------------------------------------------------------------------------------------------------------------ *)
(* 3. tree shape up to the shared objects: the inductive invariant behind `separated`                                  *)
(* ------------------------------------------------------------------------------------------------------------------ *)
(* an object that is not in `shared` has at most one parent cell; a live packet that is somebody's child is in `shared`;
   two names for one object: it is in `shared` *)
Definition tree_like (w : world) : Prop :=
  (forall p1 p2 c, child (hp w) p1 (HRef c) -> child (hp w) p2 (HRef c) -> p1 = p2 \/ In c (shared w)) /\
  (forall r a p, root_get (roots w) r = Some a -> child (hp w) p (HRef a) -> In a (shared w)) /\
  (forall r1 r2 a, root_get (roots w) r1 = Some a -> root_get (roots w) r2 = Some a -> r1 = r2 \/ In a (shared w)).

(* reachability, built from the far end *)
Inductive reachR (h : heap) (a : addr) : addr -> Prop :=
| RR0 : reachR h a a
| RRS : forall p b, reachR h a p -> child h p (HRef b) -> reachR h a b.
Lemma reachR_of_reach h x b : reach h x b -> forall a0 a, x = HRef a -> reachR h a0 a -> reachR h a0 b.
Proof.
  intros R. induction R as [a' | a' y b C R IH]; intros a0 a E RR.
  - inversion E; subst; exact RR.
  - inversion E; subst a'. destruct (reach_src _ _ _ R) as [c Ec]. subst y.
    eapply IH; [reflexivity|]. eapply RRS; eauto.
Qed.
Lemma reach_of_reachR h a b : reachR h a b -> reach h (HRef a) b.
Proof. intros R. induction R as [|p b R IH C]; [constructor | eapply reach_snoc; eauto]. Qed.

(* the ancestors of an object form a chain, up to the first shared object *)
Lemma tree_chain h sh :
  (forall p1 p2 c, child h p1 (HRef c) -> child h p2 (HRef c) -> p1 = p2 \/ In c sh) ->
  forall a1 b, reachR h a1 b -> forall a2, reachR h a2 b ->
    reach h (HRef a1) a2 \/ reach h (HRef a2) a1 \/ exists s, In s sh /\ reach h (HRef s) b.
Proof.
  intros U a1 b R1. induction R1 as [| p b R1 IH C1]; intros a2 R2.
  - right; left. apply reach_of_reachR; exact R2.
  - inversion R2 as [| p' b' R2' C2]; subst.
    + left. eapply reach_snoc; [apply reach_of_reachR; exact R1 | exact C1].
    + destruct (U _ _ _ C1 C2) as [E | I].
      * subst p'. destruct (IH _ R2') as [H | [H | [s [Is Rs]]]]; auto.
        right; right. exists s. split; [exact Is | eapply reach_snoc; eauto].
      * right; right. exists b. split; [exact I | constructor].
Qed.

Theorem tree_like_separated : forall w, tree_like w -> separated w.
Proof.
  intros w (U & RT & RD) r1 r2 a1 a2 b Nr G1 G2 R1 R2.
  destruct (Z.eq_dec a1 a2) as [E | NE].
  - subst a2. destruct (RD _ _ _ G1 G2) as [E | I]; [contradiction|]. exists a1; auto.
  - assert (Q1 : reachR (hp w) a1 b) by (eapply reachR_of_reach; [exact R1 | reflexivity | constructor]).
    assert (Q2 : reachR (hp w) a2 b) by (eapply reachR_of_reach; [exact R2 | reflexivity | constructor]).
    destruct (tree_chain _ _ U _ _ Q1 _ Q2) as [H | [H | H]].
    + destruct (reach_last _ _ _ H) as [E | [p [_ C]]]; [congruence|].
      exists a2. split; [eapply RT; eauto | exact R2].
    + destruct (reach_last _ _ _ H) as [E | [p [_ C]]]; [congruence|].
      exists a1. split; [eapply RT; eauto | exact R1].
    + exact H.
Qed.

(* ------------------------------------------------------------------------------------------------------------------ *)
(* 4. the shape of one operation                                                                                       *)
(* ------------------------------------------------------------------------------------------------------------------ *)
Lemma root_get_filter rs r q : q <> r -> root_get (filter (fun p => negb (fst p =? r)) rs) q = root_get rs q.
Proof.
  intros N. induction rs as [|[q' a'] t IH]; [reflexivity|]. cbn [filter fst].
  destruct (Z.eqb_spec q' r) as [E|E]; cbn [negb root_get].
  - subst q'. destruct (Z.eqb_spec q r); [contradiction | exact IH].
  - rewrite IH. reflexivity.
Qed.
Lemma root_get_set rs r a q : root_get (root_set rs r a) q = if q =? r then Some a else root_get rs q.
Proof.
  unfold root_set. cbn [root_get]. destruct (Z.eqb_spec q r) as [E|E]; [reflexivity|]. apply root_get_filter; exact E.
Qed.

Lemma hslot_get_in s f x : hslot_get s f = Some x -> In x (map snd s).
Proof.
  induction s as [|[g y] r IH]; cbn; [discriminate|]. destruct (fname_eqb f g).
  - intros E; inversion E; auto.
  - intros E; right; auto.
Qed.
Lemma step_get_child h a st y : step_get h (HRef a) st = Some y -> child h a y.
Proof.
  cbn. destruct (h_get h a) as [[l | c s]|] eqn:E; [| |discriminate]; destruct st as [f | i]; try discriminate.
  - destruct (i <? 0); [discriminate|]. intros N. apply child_iff. exists (HList l). split; [exact E|].
    cbn. eapply nth_error_In; eauto.
  - intros G. apply child_iff. exists (HPkt c s). split; [exact E|]. cbn. eapply hslot_get_in; eauto.
Qed.
Lemma path_get_reach h : forall p x b, path_get h x p = Some (HRef b) -> reach h x b.
Proof.
  induction p as [|st r IH]; intros x b E; cbn in E.
  - inversion E; constructor.
  - destruct (step_get h x st) as [y|] eqn:S; [|discriminate]. destruct x as [v | a]; [discriminate|].
    eapply RStep; [eapply step_get_child; eauto | apply IH; exact E].
Qed.

Lemma kids_hslot_set s f y z : In z (map snd (hslot_set s f y)) -> In z (map snd s) \/ z = y.
Proof.
  induction s as [|[g x] r IH]; cbn.
  - intros [E|[]]; auto.
  - destruct (fname_eqb f g); cbn; intros [E|I]; auto. destruct (IH I); auto.
Qed.
Lemma kids_list_set : forall l i y l' z, list_set l i y = Some l' -> In z l' -> In z l \/ z = y.
Proof.
  induction l as [|a r IH]; intros i y l' z E I; cbn in E; [discriminate|]. destruct i as [|k].
  - inversion E; subst. destruct I as [I|I]; auto. left; right; exact I.
  - destruct (list_set r k y) as [r'|] eqn:E'; [|discriminate]. inversion E; subst. destruct I as [I|I].
    + left; left; exact I.
    + destruct (IH _ _ _ _ E' I); auto. left; right; assumption.
Qed.

Definition op_bind (o : wop) : option Z :=
  match o with WNew r _ | WParse r _ _ _ | WReparse r _ => Some r | _ => None end.

Inductive step_shape (ct : ctab) (w : world) : wop -> world -> Prop :=
| SS_bind : forall o r v a h1, op_bind o = Some r -> alloc_tree v (hp w) = (HRef a, h1) ->
    step_shape ct w o {| hp := h1; roots := root_set (roots w) r a; shared := shared w |}
| SS_put : forall o x b y h1 sh ob ob',
    match o with WSet _ _ _ x' | WAppend _ _ x' => x' = x | _ => False end ->
    (match o with
     | WSet r p _ _ | WAppend r p _ =>
         match root_get (roots w) r with
         | Some a => match path_get (hp w) (HRef a) p with Some (HRef b) => Some b | _ => None end
         | None => None
         end
     | _ => None
     end) = Some b ->
    resolve_src ct w x = Some (y, h1, sh) -> h_get h1 b = Some ob ->
    (forall z, In z (kids ob') -> In z (kids ob) \/ z = y) ->
    step_shape ct w o {| hp := h_put h1 b ob'; roots := roots w; shared := sh |}
| SS_pack : forall r, step_shape ct w (WPack r) w.

Lemma bind_shape ct w o r v w' : op_bind o = Some r ->
  match alloc_tree v (hp w) with
  | (HRef a, h1) => Some {| hp := h1; roots := root_set (roots w) r a; shared := shared w |}
  | _ => None
  end = Some w' -> step_shape ct w o w'.
Proof.
  intros B E. destruct (alloc_tree v (hp w)) as [[u | a] h1] eqn:Ea; [discriminate|].
  inversion E; subst. eapply SS_bind; eauto.
Qed.

Lemma w_step_shape host ct w o w' : w_step host ct w o = Some w' -> step_shape ct w o w'.
Proof.
  intros H. destruct o as [r v | r c raw off | r r0 | r p last x | r p x | r]; unfold w_step in H.
  - destruct (complete FUEL ct v) as [v'|] eqn:Ec; [|discriminate]. destruct v'; try discriminate.
    eapply bind_shape; [reflexivity | exact H].
  - destruct (unpack_any FUEL host ct raw c off); try discriminate.
    eapply bind_shape; [reflexivity | exact H].
  - destruct (root_get (roots w) r0) as [a0|]; [|discriminate].
    destruct (read_tree RFUEL (hp w) (HRef a0)) as [v0|]; [|discriminate]. destruct v0; try discriminate.
    destruct (pack_any_top FUEL host no_delims ct c slots); try discriminate.
    destruct (unpack_any FUEL host ct _ c 0); try discriminate.
    eapply bind_shape; [reflexivity | exact H].
  - destruct (root_get (roots w) r) as [a|] eqn:Er; [|discriminate].
    destruct (path_get (hp w) (HRef a) p) as [[u | b]|] eqn:Ep; try discriminate.
    destruct (resolve_src ct w x) as [[[y h1] sh]|] eqn:Ex; [|discriminate].
    destruct (h_get h1 b) as [[l | c s]|] eqn:Eb; [| |discriminate]; destruct last as [f | i]; try discriminate.
    + destruct (i <? 0); [discriminate|]. destruct (list_set l (Z.to_nat i) y) as [l'|] eqn:El; [|discriminate].
      inversion H; subst.
      eapply SS_put with (x := x) (ob := HList l); [reflexivity | rewrite Er, Ep; reflexivity | exact Ex | exact Eb |].
      cbn. intros z I. eapply kids_list_set; eauto.
    + inversion H; subst.
      eapply SS_put with (x := x) (ob := HPkt c s); [reflexivity | rewrite Er, Ep; reflexivity | exact Ex | exact Eb |].
      cbn. intros z I. eapply kids_hslot_set; eauto.
  - destruct (root_get (roots w) r) as [a|] eqn:Er; [|discriminate].
    destruct (path_get (hp w) (HRef a) p) as [[u | b]|] eqn:Ep; try discriminate.
    destruct (resolve_src ct w x) as [[[y h1] sh]|] eqn:Ex; [|discriminate].
    destruct (h_get h1 b) as [[l | c s]|] eqn:Eb; try discriminate.
    inversion H; subst.
    eapply SS_put with (x := x) (ob := HList l); [reflexivity | rewrite Er, Ep; reflexivity | exact Ex | exact Eb |].
    cbn. intros z I. apply in_app_or in I. destruct I as [I | [I | []]]; auto.
  - destruct (root_get (roots w) r) as [a|]; [|discriminate].
    destruct (read_tree RFUEL (hp w) (HRef a)) as [v0|]; [|discriminate]. destruct v0; try discriminate.
    destruct (pack_any_top FUEL host no_delims ct c slots); try discriminate.
    inversion H; subst. constructor.
Qed.

(* ------------------------------------------------------------------------------------------------------------------ *)
(* 5. every operation keeps the world well formed and tree shaped                                                      *)
(* ------------------------------------------------------------------------------------------------------------------ *)
Lemma resolve_src_cases ct w x y h1 sh : resolve_src ct w x = Some (y, h1, sh) ->
  (exists v, alloc_tree v (hp w) = (y, h1) /\ sh = shared w) \/
  (h1 = hp w /\ (((exists v, y = HImm v) /\ sh = shared w) \/
                 exists r a p b, root_get (roots w) r = Some a /\ path_get (hp w) (HRef a) p = Some (HRef b) /\
                                 y = HRef b /\ sh = b :: shared w)).
Proof.
  intros H. destruct x as [v | r p]; unfold resolve_src in H.
  - destruct (complete FUEL ct v) as [v'|]; [|discriminate].
    destruct (alloc_tree v' (hp w)) as [y' h'] eqn:Ea. inversion H; subst. left. exists v'; auto.
  - destruct (root_get (roots w) r) as [a|] eqn:Er; [|discriminate].
    destruct (path_get (hp w) (HRef a) p) as [[v | b]|] eqn:Ep; [| |discriminate]; inversion H; subst; right; split; auto.
    + left; eauto.
    + right. exists r, a, p, b; auto.
Qed.

Lemma old_allocd h xs h1 a : h_valid h -> lok h xs h1 -> allocd h a -> allocd h1 a.
Proof.
  intros V K A. assert (L := valid_lt _ _ V A). destruct A as [o E]. exists o.
  rewrite (ok_old _ _ _ K); [exact E | lia].
Qed.

Lemma alloc_world_valid w xs h1 : w_valid w -> lok (hp w) xs h1 ->
  w_valid {| hp := h1; roots := roots w; shared := shared w |}.
Proof.
  intros (V & VR & VS) K. split; [|split]; cbn [hp roots shared].
  - exact (ok_valid _ _ _ K).
  - intros r a G. eapply old_allocd; eauto. apply (VR _ _ G).
  - intros s I. eapply old_allocd; eauto. apply (VS _ I).
Qed.

(* an edge of the new heap into an old cell is an old edge *)
Lemma lok_low h xs h1 p c : lok h xs h1 -> child h1 p (HRef c) -> c < next h -> child h p (HRef c).
Proof.
  intros K C L. assert (P : p < next h).
  { destruct (Z_lt_ge_dec p (next h)) as [Hp|Hp]; [exact Hp|].
    assert (next h <= c) by (eapply (ok_down _ _ _ K); [|exact C]; lia). lia. }
  eapply child_old; [exact (ok_old _ _ _ K) | exact P | exact C].
Qed.

Lemma alloc_world_tree w xs h1 : w_valid w -> tree_like w -> lok (hp w) xs h1 ->
  tree_like {| hp := h1; roots := roots w; shared := shared w |}.
Proof.
  intros (V & VR & VS) (U & RT & RD) K. split; [|split]; cbn [hp roots shared].
  - intros p1 p2 c C1 C2. destruct (Z_lt_ge_dec c (next (hp w))) as [Hc|Hc].
    + eapply U; eapply lok_low; eauto.
    + left. eapply (ok_uniq _ _ _ K); eauto. lia.
  - intros r a p G C. eapply RT; [exact G|]. eapply lok_low; eauto. apply (valid_lt _ _ V (VR _ _ G)).
  - exact RD.
Qed.

Lemma bind_valid w a h1 r : w_valid w -> lok (hp w) [HRef a] h1 ->
  w_valid {| hp := h1; roots := root_set (roots w) r a; shared := shared w |}.
Proof.
  intros W K. destruct (alloc_world_valid _ _ _ W K) as (V1 & VR1 & VS1). cbn [hp roots shared] in *.
  split; [|split]; cbn [hp roots shared]; auto.
  intros q a' G. rewrite root_get_set in G. destruct (q =? r).
  - inversion G; subst a'. apply (ok_top _ _ _ K a (or_introl eq_refl)).
  - eapply VR1; eauto.
Qed.

Lemma bind_tree w a h1 r : w_valid w -> tree_like w -> lok (hp w) [HRef a] h1 ->
  tree_like {| hp := h1; roots := root_set (roots w) r a; shared := shared w |}.
Proof.
  intros W T K. destruct (alloc_world_tree _ _ _ W T K) as (U1 & RT1 & RD1). cbn [hp roots shared] in *.
  destruct W as (V & VR & VS).
  assert (FR : forall q, root_get (roots w) q = Some a -> False).
  { intros q G. assert (L := valid_lt _ _ V (VR _ _ G)). destruct (ok_top _ _ _ K a (or_introl eq_refl)). lia. }
  split; [|split]; cbn [hp roots shared]; auto.
  - intros q a' p G C. rewrite root_get_set in G. destruct (q =? r).
    + inversion G; subst a'. destruct (ok_noparent _ _ _ K p a (or_introl eq_refl) C).
    + eapply RT1; eauto.
  - intros q1 q2 a' G1 G2. rewrite root_get_set in G1, G2.
    destruct (Z.eqb_spec q1 r) as [E1|E1]; destruct (Z.eqb_spec q2 r) as [E2|E2].
    + left; congruence.
    + inversion G1; subst a'. destruct (FR _ G2).
    + inversion G2; subst a'. destruct (FR _ G1).
    + eapply RD1; eauto.
Qed.

(* writing one cell: the new object holds the old references and y *)
Section Put.
Variables (h : heap) (b : addr) (ob ob' : hobj) (y : hval).
Hypothesis Hb : h_get h b = Some ob.
Hypothesis Hk : forall z, In z (kids ob') -> In z (kids ob) \/ z = y.

Lemma put_child p x : child (h_put h b ob') p x -> child h p x \/ (p = b /\ x = y).
Proof.
  intros C. apply child_iff in C. destruct C as [o [E I]]. rewrite h_get_put in E.
  destruct (Z.eqb_spec p b) as [Ep|Ep].
  - inversion E; subst o p. destruct (Hk _ I) as [I' | Ey]; [left | right; auto].
    apply child_iff. exists ob; auto.
  - left. apply child_iff. exists o; auto.
Qed.
Lemma put_allocd c : allocd (h_put h b ob') c <-> allocd h c.
Proof.
  unfold allocd. rewrite h_get_put. destruct (Z.eqb_spec c b) as [E|E]; [|tauto]. subst c. split; eauto.
Qed.
Lemma put_valid : h_valid h -> (forall c, y = HRef c -> allocd h c) -> h_valid (h_put h b ob').
Proof.
  intros V Y. split; [|split].
  - destruct V as (? & _). exact H.
  - intros a o E. change (next (h_put h b ob')) with (next h). apply (valid_lt _ _ V). apply put_allocd. exists o; exact E.
  - intros a x c C Ex. subst x. apply put_allocd. destruct (put_child _ _ C) as [C' | [_ Ey]].
    + eapply valid_child; eauto.
    + apply Y; auto.
Qed.
End Put.

Lemma put_world_valid w1 b ob ob' y : w_valid w1 -> h_get (hp w1) b = Some ob ->
  (forall z, In z (kids ob') -> In z (kids ob) \/ z = y) -> (forall c, y = HRef c -> allocd (hp w1) c) ->
  w_valid {| hp := h_put (hp w1) b ob'; roots := roots w1; shared := shared w1 |}.
Proof.
  intros (V & VR & VS) Hb Hk Y. split; [|split]; cbn [hp roots shared].
  - eapply put_valid; eauto.
  - intros r a G. eapply put_allocd; eauto. apply (VR _ _ G).
  - intros s I. eapply put_allocd; eauto. apply (VS _ I).
Qed.

Lemma put_world_tree w1 b ob ob' y : tree_like w1 -> h_get (hp w1) b = Some ob ->
  (forall z, In z (kids ob') -> In z (kids ob) \/ z = y) ->
  (forall p c, y = HRef c -> child (hp w1) p (HRef c) -> In c (shared w1)) ->
  (forall r c, y = HRef c -> root_get (roots w1) r = Some c -> In c (shared w1)) ->
  tree_like {| hp := h_put (hp w1) b ob'; roots := roots w1; shared := shared w1 |}.
Proof.
  intros (U & RT & RD) Hb Hk Y1 Y2. split; [|split]; cbn [hp roots shared].
  - intros p1 p2 c C1 C2.
    destruct (put_child _ _ _ _ _ Hb Hk _ _ C1) as [D1 | [E1 F1]];
    destruct (put_child _ _ _ _ _ Hb Hk _ _ C2) as [D2 | [E2 F2]].
    + eapply U; eauto.
    + right. eapply Y1; eauto.
    + right. eapply Y1; eauto.
    + left; congruence.
  - intros r a p G C. destruct (put_child _ _ _ _ _ Hb Hk _ _ C) as [D | [E F]].
    + eapply RT; eauto.
    + eapply Y2; eauto.
  - exact RD.
Qed.

Lemma resolve_src_valid ct w x y h1 sh : w_valid w -> resolve_src ct w x = Some (y, h1, sh) ->
  w_valid {| hp := h1; roots := roots w; shared := sh |} /\
  (forall a, a < next (hp w) -> h_get h1 a = h_get (hp w) a) /\
  (forall c, y = HRef c -> allocd h1 c).
Proof.
  intros W H. destruct (resolve_src_cases _ _ _ _ _ _ H) as [[v [Ea Es]] | [Eh [[[v Ey] Es] | (r & a & p & b & Er & Ep & Ey & Es)]]]; subst.
  - assert (K := alloc_ok _ _ _ _ (proj1 W) Ea). split; [|split].
    + eapply alloc_world_valid; eauto.
    + exact (ok_old _ _ _ K).
    + intros c E. apply (ok_top _ _ _ K c). left; exact E.
  - split; [destruct w; exact W | split; [intros; reflexivity | intros c E; discriminate]].
  - assert (A : allocd (hp w) b).
    { destruct W as (V & VR & _). eapply reach_allocd; [exact V | eapply path_get_reach; eauto |].
      intros a' E; inversion E; subst a'. apply (VR _ _ Er). }
    destruct W as (V & VR & VS). split; [|split].
    + split; [exact V | split; [exact VR |]]; cbn [hp roots shared]. intros s [E | I]; [subst s; exact A | auto].
    + intros; reflexivity.
    + intros c E. inversion E; subst c. exact A.
Qed.

Lemma resolve_src_tree ct w x y h1 sh : w_valid w -> tree_like w -> resolve_src ct w x = Some (y, h1, sh) ->
  tree_like {| hp := h1; roots := roots w; shared := sh |} /\
  (forall p c, y = HRef c -> child h1 p (HRef c) -> In c sh) /\
  (forall r c, y = HRef c -> root_get (roots w) r = Some c -> In c sh).
Proof.
  intros W T H. destruct (resolve_src_cases _ _ _ _ _ _ H) as [[v [Ea Es]] | [Eh [[[v Ey] Es] | (r & a & p & b & Er & Ep & Ey & Es)]]]; subst.
  - assert (K := alloc_ok _ _ _ _ (proj1 W) Ea). split; [|split].
    + eapply alloc_world_tree; eauto.
    + intros p c E C. destruct (ok_noparent _ _ _ K p c (or_introl E) C).
    + intros r c E G. destruct W as (V & VR & _). assert (L := valid_lt _ _ V (VR _ _ G)).
      destruct (ok_top _ _ _ K c (or_introl E)). lia.
  - split; [|split]; try (intros; discriminate). destruct w; exact T.
  - destruct T as (U & RT & RD). split; [|split].
    + split; [|split]; cbn [hp roots shared].
      * intros p1 p2 c C1 C2. destruct (U _ _ _ C1 C2); [left | right; right]; auto.
      * intros r' a' p' G C. right. eapply RT; eauto.
      * intros r1 r2 a' G1 G2. destruct (RD _ _ _ G1 G2); [left | right; right]; auto.
    + intros p' c E _. inversion E; left; auto.
    + intros r' c E _. inversion E; left; auto.
Qed.

(* (2) every operation keeps the world well formed *)
Theorem w_step_valid : forall host ct w o w', w_valid w -> w_step host ct w o = Some w' -> w_valid w'.
Proof.
  intros host ct w o w' W H. apply w_step_shape in H.
  destruct H as [o r v a h1 B Ea | o x b y h1 sh ob ob' Ho Hw Hx Hb Hk | r].
  - eapply bind_valid; [exact W | eapply alloc_ok; [exact (proj1 W) | exact Ea]].
  - destruct (resolve_src_valid _ _ _ _ _ _ W Hx) as (W1 & _ & Y).
    exact (put_world_valid {| hp := h1; roots := roots w; shared := sh |} b ob ob' y W1 Hb Hk Y).
  - exact W.
Qed.

Theorem w_step_tree_like : forall host ct w o w',
  w_valid w -> tree_like w -> w_step host ct w o = Some w' -> tree_like w'.
Proof.
  intros host ct w o w' W T H. apply w_step_shape in H.
  destruct H as [o r v a h1 B Ea | o x b y h1 sh ob ob' Ho Hw Hx Hb Hk | r].
  - eapply bind_tree; [exact W | exact T | eapply alloc_ok; [exact (proj1 W) | exact Ea]].
  - destruct (resolve_src_tree _ _ _ _ _ _ W T Hx) as (T1 & Y1 & Y2).
    exact (put_world_tree {| hp := h1; roots := roots w; shared := sh |} b ob ob' y T1 Hb Hk Y1 Y2).
  - exact T.
Qed.

(* `separated` alone is not inductive (see `cut_world` below); with the tree shape it is *)
Theorem w_step_separated : forall host ct w o w',
  w_valid w -> tree_like w -> separated w -> w_step host ct w o = Some w' -> separated w'.
Proof.
  intros host ct w o w' W T _ H. apply tree_like_separated. eapply w_step_tree_like; eauto.
Qed.

Definition op_no_share (o : wop) : bool :=
  match o with WSet _ _ _ (SrcObj _ _) | WAppend _ _ (SrcObj _ _) => false | _ => true end.
Theorem w_step_shared : forall host ct w o w',
  op_no_share o = true -> w_step host ct w o = Some w' -> shared w' = shared w.
Proof.
  intros host ct w o w' N H. apply w_step_shape in H.
  destruct H as [o r v a h1 B Ea | o x b y h1 sh ob ob' Ho Hw Hx Hb Hk | r]; try reflexivity.
  cbn [shared]. destruct (resolve_src_cases _ _ _ _ _ _ Hx) as [[v [Ea Es]] | [Eh [[[v Ey] Es] | (r & a & p & b' & Er & Ep & Ey & Es)]]]; auto.
  destruct o as [| | | r0 p0 last x0 | r0 p0 x0 |]; try contradiction; subst x0;
    (destruct x as [v | q pq]; [|discriminate]); unfold resolve_src in Hx;
    destruct (complete FUEL ct v); try discriminate; destruct (alloc_tree v0 (hp w)); inversion Hx; reflexivity.
Qed.

(* ------------------------------------------------------------------------------------------------------------------ *)
(* 6. histories                                                                                                        *)
(* ------------------------------------------------------------------------------------------------------------------ *)
Lemma w_empty_valid : w_valid w_empty.
Proof.
  split; [|split]; cbn.
  - split; [|split]; cbn.
    + lia.
    + intros a o E; discriminate.
    + intros a x b C _. apply child_allocd in C. destruct C as [o E]; discriminate.
  - intros r a E; discriminate.
  - intros s [].
Qed.
Lemma w_empty_tree : tree_like w_empty.
Proof.
  split; [|split]; cbn.
  - intros p1 p2 c C _. apply child_allocd in C. destruct C as [o E]; discriminate.
  - intros r a p E; discriminate.
  - intros r1 r2 a E; discriminate.
Qed.

Lemma history_inv host ct : forall ops w, w_valid w -> tree_like w ->
  w_valid (fold_left (w_run1 host ct) ops w) /\ tree_like (fold_left (w_run1 host ct) ops w).
Proof.
  induction ops as [|o r IH]; intros w W T; [auto|]. cbn [fold_left]. unfold w_run1 at 2 4.
  destruct (w_step host ct w o) as [w'|] eqn:E.
  - apply IH; [eapply w_step_valid | eapply w_step_tree_like]; eauto.
  - apply IH; assumption.
Qed.

(* for every history from the empty world *)
Theorem history_tree_like : forall host ct ops, tree_like (fold_left (w_run1 host ct) ops w_empty).
Proof. intros. apply history_inv; [exact w_empty_valid | exact w_empty_tree]. Qed.
Theorem history_separated : forall host ct ops,
  let w := fold_left (w_run1 host ct) ops w_empty in w_valid w /\ separated w.
Proof.
  intros host ct ops. cbv zeta. destruct (history_inv host ct ops w_empty w_empty_valid w_empty_tree) as [W T].
  split; [exact W | apply tree_like_separated; exact T].
Qed.

Lemma history_shared host ct : forall ops w, forallb op_no_share ops = true ->
  shared (fold_left (w_run1 host ct) ops w) = shared w.
Proof.
  induction ops as [|o r IH]; intros w N; [reflexivity|]. cbn [forallb] in N. apply andb_prop in N. destruct N as [No Nr].
  cbn [fold_left]. rewrite (IH _ Nr). unfold w_run1. destruct (w_step host ct w o) as [w'|] eqn:E; [|reflexivity].
  eapply w_step_shared; eauto.
Qed.

(* a history in which the user never hands over an object of a live packet: no two live packets have anything in common *)
Theorem history_disjoint : forall host ct ops,
  forallb op_no_share ops = true ->
  let w := fold_left (w_run1 host ct) ops w_empty in
  forall r1 r2 a1 a2 b, r1 <> r2 -> root_get (roots w) r1 = Some a1 -> root_get (roots w) r2 = Some a2 ->
    reach (hp w) (HRef a1) b -> reach (hp w) (HRef a2) b -> False.
Proof.
  intros host ct ops N w r1 r2 a1 a2 b Nr G1 G2 R1 R2.
  destruct (history_separated host ct ops) as [_ S]. fold w in S.
  destruct (S _ _ _ _ _ Nr G1 G2 R1 R2) as [s [I _]].
  unfold w in I. rewrite (history_shared host ct ops w_empty N) in I. exact I.
Qed.

(* ------------------------------------------------------------------------------------------------------------------ *)
(* 7. locality                                                                                                         *)
(* ------------------------------------------------------------------------------------------------------------------ *)
Definition written_cell (w : world) (o : wop) : option addr :=
  match o with
  | WSet r p _ _ | WAppend r p _ =>
      match root_get (roots w) r with
      | Some a => match path_get (hp w) (HRef a) p with Some (HRef b) => Some b | _ => None end
      | None => None
      end
  | _ => None
  end.

(* (3) an operation on one packet changes another packet only through an object the user put in both *)
Theorem step_local : forall host ct w o w' r2 a2 fuel,
  w_valid w -> w_step host ct w o = Some w' ->
  root_get (roots w) r2 = Some a2 ->
  (match o with WNew r _ | WParse r _ _ _ | WReparse r _ => r <> r2 | _ => True end) ->
  (forall b, written_cell w o = Some b -> ~ reach (hp w) (HRef a2) b) ->
  root_get (roots w') r2 = Some a2 /\ read_tree fuel (hp w') (HRef a2) = read_tree fuel (hp w) (HRef a2).
Proof.
  intros host ct w o w' r2 a2 fuel W H G Nr Nw. apply w_step_shape in H.
  assert (LT : forall c, reach (hp w) (HRef a2) c -> c < next (hp w)).
  { intros c R. destruct W as (V & VR & _). apply (valid_lt _ _ V).
    eapply reach_allocd; [exact V | exact R |]. intros a' E; inversion E; subst a'. apply (VR _ _ G). }
  destruct H as [o r v a h1 B Ea | o x b y h1 sh ob ob' Ho Hw Hx Hb Hk | r]; cbn [hp roots].
  - assert (K := alloc_ok _ _ _ _ (proj1 W) Ea). split.
    + rewrite root_get_set. destruct (Z.eqb_spec r2 r) as [E|E]; [|exact G].
      subst r2. destruct o; try discriminate; inversion B; subst; contradiction.
    + apply read_tree_frame. intros c R. apply (ok_old _ _ _ K). apply LT; exact R.
  - split; [exact G|]. destruct (resolve_src_valid _ _ _ _ _ _ W Hx) as (_ & O & _).
    apply read_tree_frame. intros c R. rewrite h_get_put. destruct (Z.eqb_spec c b) as [E|E].
    + subst c. destruct (Nw b Hw R).
    + apply O. apply LT; exact R.
  - auto.
Qed.

(* with separation: writing into packet r (not below a shared object) leaves every other live packet as it was *)
Theorem set_changes_only_its_packet : forall host ct w r p last x w' r2 a2 b fuel,
  w_valid w -> separated w -> w_step host ct w (WSet r p last x) = Some w' ->
  r2 <> r -> root_get (roots w) r2 = Some a2 ->
  written_cell w (WSet r p last x) = Some b ->
  (forall s, In s (shared w) -> ~ reach (hp w) (HRef s) b) ->
  read_tree fuel (hp w') (HRef a2) = read_tree fuel (hp w) (HRef a2).
Proof.
  intros host ct w r p last x w' r2 a2 b fuel W S H Nr G Hw NS.
  eapply (step_local host ct w (WSet r p last x) w' r2 a2 fuel W H G I).
  intros b' Hw' R2. rewrite Hw in Hw'. inversion Hw'; subst b'.
  cbn [written_cell] in Hw. destruct (root_get (roots w) r) as [a|] eqn:Er; [|discriminate].
  destruct (path_get (hp w) (HRef a) p) as [[u | b0]|] eqn:Ep; try discriminate. inversion Hw; subst b0.
  assert (R1 : reach (hp w) (HRef a) b) by (eapply path_get_reach; eauto).
  destruct (S r2 r a2 a b Nr G Er R2 R1) as [s [Is Rs]]. exact (NS s Is Rs).
Qed.

(* (4) serializing writes no cell *)
Theorem pack_writes_nothing : forall host ct w r w', w_step host ct w (WPack r) = Some w' -> w' = w.
Proof.
  intros host ct w r w' H. apply w_step_shape in H. inversion H; subst; try discriminate; try contradiction. reflexivity.
Qed.


(* ------------------------------------------------------------------------------------------------------------------ *)
(* 8. examples: the theorems are not vacuous; `separated` alone is not inductive                                       *)
(* ------------------------------------------------------------------------------------------------------------------ *)
Lemma reach_inv h a b : reach h (HRef a) b ->
  a = b \/ exists o x, h_get h a = Some o /\ In x (kids o) /\ reach h x b.
Proof.
  intros R. inversion R as [a' | a' x b' C R']; subst; [left; reflexivity | right].
  apply child_iff in C. destruct C as [o [E I]]. exists o, x; auto.
Qed.
Lemma reach_imm h v b : ~ reach h (HImm v) b.
Proof. intros R. destruct (reach_src _ _ _ R); discriminate. Qed.
Lemma h_get_in h a o : h_get h a = Some o -> In (a, o) (cells h).
Proof.
  unfold h_get. induction (cells h) as [|[b o'] r IH]; cbn; [discriminate|].
  destruct (Z.eqb_spec a b); intros E; [inversion E; subst; auto | right; auto].
Qed.
(* everything reachable in a concrete heap *)
Ltac reach_enum :=
  repeat match goal with
  | R : reach _ (HImm _) _ |- _ => exfalso; exact (reach_imm _ _ _ R)
  | R : reach _ (HRef _) _ |- _ =>
      let o := fresh "o" in let x := fresh "x" in let E := fresh "E" in let I := fresh "I" in
      apply reach_inv in R; destruct R as [R | (o & x & E & I & R)];
      [ | vm_compute in E; first [discriminate E | inversion E; clear E; subst o; cbn [kids map snd In] in I] ]
  | I : _ \/ _ |- _ => destruct I as [I|I]
  | I : False |- _ => destruct I
  | I : HRef _ = ?x |- _ => subst x
  | I : HImm _ = ?x |- _ => subst x
  end.
Ltac reach_go x := eapply (RStep _ _ x); [apply child_iff; eexists; split; [reflexivity | cbn; auto 10] |].

(* two packets; the user puts the list of packet 1 into packet 2, appends a literal to it, and gives packet 1 a literal *)
Definition ex_ops : list wop :=
  [ WNew 1 (VPkt 7 [(FN 0, VList [VInt 1]); (FN 1, VInt 5)]);
    WNew 2 (VPkt 7 [(FN 0, VNone)]);
    WSet 2 [] (SField (FN 0)) (SrcObj 1 [SField (FN 0)]);
    WAppend 1 [SField (FN 0)] (SrcLit (VList [VInt 9]));
    WSet 1 [] (SField (FN 1)) (SrcLit (VList [])) ].
Definition ex_world : world := fold_left (w_run1 true []) ex_ops w_empty.
Definition ex_final : world :=
  {| hp := {| cells := [(1, HPkt 7 [(FN 0, HRef 0); (FN 1, HRef 4)]); (4, HList []); (0, HList [HImm (VInt 1); HRef 3]);
                        (3, HList [HImm (VInt 9)]); (2, HPkt 7 [(FN 0, HRef 0)]); (2, HPkt 7 [(FN 0, HImm VNone)]);
                        (1, HPkt 7 [(FN 0, HRef 0); (FN 1, HImm (VInt 5))]); (0, HList [HImm (VInt 1)])];
              next := 5 |};
     roots := [(2, 2); (1, 1)]; shared := [0] |}.
Lemma ex_world_eq : ex_world = ex_final.
Proof. vm_compute. reflexivity. Qed.
Example ex_history :
  (* no operation raises *)
  (forall n, (n < 5)%nat ->
     w_step true [] (fold_left (w_run1 true []) (firstn n ex_ops) w_empty) (nth n ex_ops (WPack 0)) <> None) /\
  w_valid ex_world /\ separated ex_world /\ shared ex_world = [0] /\
  root_get (roots ex_world) 1 = Some 1 /\ root_get (roots ex_world) 2 = Some 2 /\
  (* the shared list (cell 0) and the literal appended to it (cell 3) belong to both packets ... *)
  reach (hp ex_world) (HRef 1) 3 /\ reach (hp ex_world) (HRef 2) 3 /\ reach (hp ex_world) (HRef 0) 3 /\
  read_tree 10 (hp ex_world) (HRef 2) = Some (VPkt 7 [(FN 0, VList [VInt 1; VList [VInt 9]])]) /\
  (* ... the literal given to packet 1 (cell 4) to packet 1 only *)
  reach (hp ex_world) (HRef 1) 4 /\ ~ reach (hp ex_world) (HRef 2) 4.
Proof.
  destruct (history_separated true [] ex_ops) as [W S]. fold ex_world in W, S.
  split; [|split; [exact W | split; [exact S |]]].
  - intros n L. do 5 (destruct n as [|n]; [vm_compute; discriminate|]). lia.
  - clear W S. rewrite ex_world_eq. cbn [hp roots shared ex_final].
    split; [reflexivity|]. split; [reflexivity|]. split; [reflexivity|].
    split; [reach_go (HRef 0); reach_go (HRef 3); apply RHere|].
    split; [reach_go (HRef 0); reach_go (HRef 3); apply RHere|].
    split; [reach_go (HRef 3); apply RHere|].
    split; [vm_compute; reflexivity|].
    split; [reach_go (HRef 4); apply RHere|].
    intros R. reach_enum; discriminate.
Qed.

(* `separated` is not preserved without the tree shape: cells 0 = packet 1 {L; M}, 1 = packet 2 {L'}, 2 = L = [M],
   3 = L' = [M], 4 = M = []; shared = [L].  M is common to both packets and below the shared L; after L[0] = 0 it is still
   common to both, but below no shared object.  (Not a world a history can produce: M has three parents.) *)
Definition cut_heap : heap :=
  {| cells := [(0, HPkt 1 [(FN 0, HRef 2); (FN 1, HRef 4)]); (1, HPkt 1 [(FN 0, HRef 3)]);
               (2, HList [HRef 4]); (3, HList [HRef 4]); (4, HList [])]; next := 5 |}.
Definition cut_world : world := {| hp := cut_heap; roots := [(1, 0); (2, 1)]; shared := [2] |}.
Definition cut_op : wop := WSet 1 [SField (FN 0)] (SIndex 0) (SrcLit (VInt 0)).
Definition cut_world' : world := {| hp := h_put cut_heap 2 (HList [HImm (VInt 0)]); roots := [(1, 0); (2, 1)]; shared := [2] |}.

Lemma cut_roots r a : root_get (roots cut_world) r = Some a -> (r = 1 /\ a = 0) \/ (r = 2 /\ a = 1).
Proof.
  cbn. destruct (Z.eqb_spec r 1); [intros E; inversion E; auto|].
  destruct (Z.eqb_spec r 2); [intros E; inversion E; auto | discriminate].
Qed.

Example cut_counterexample :
  w_valid cut_world /\ separated cut_world /\ w_step true [] cut_world cut_op = Some cut_world' /\
  ~ separated cut_world' /\ ~ tree_like cut_world.
Proof.
  split; [|split; [|split; [|split]]].
  - split; [|split].
    + split; [|split].
      * cbn; lia.
      * intros a o E. apply h_get_in in E. cbn in E.
        repeat (destruct E as [E|E]; [inversion E; subst; cbn; lia|]). destruct E.
      * intros a x b C Ex. subst x. apply child_iff in C. destruct C as [o [E I]]. apply h_get_in in E. cbn in E.
        repeat (destruct E as [E|E];
                [inversion E; subst; cbn in I; repeat (destruct I as [I|I]; [inversion I; subst; eexists; vm_compute; reflexivity|]);
                 destruct I|]).
        destruct E.
    + intros r a G. destruct (cut_roots _ _ G) as [[_ E] | [_ E]]; subst a; eexists; vm_compute; reflexivity.
    + intros s [E | []]. subst s. eexists; vm_compute; reflexivity.
  - intros r1 r2 a1 a2 b Nr G1 G2 R1 R2. exists 2. split; [left; reflexivity|].
    destruct (cut_roots _ _ G1) as [[E1 F1] | [E1 F1]]; destruct (cut_roots _ _ G2) as [[E2 F2] | [E2 F2]];
      subst; try congruence; cbn [hp cut_world] in *; reach_enum; subst; try discriminate; (reach_go (HRef 4); apply RHere).
  - vm_compute; reflexivity.
  - intros S. destruct (S 1 2 0 1 4) as [s [I R]]; try (vm_compute; reflexivity); try discriminate; try (cbn [hp cut_world']; first [reach_go (HRef 4); apply RHere | reach_go (HRef 3); reach_go (HRef 4); apply RHere]).
    destruct I as [E | []]. subst s. cbn [hp cut_world'] in R. reach_enum; discriminate.
  - intros (U & _ & _). destruct (U 0 3 4) as [E | I]; try (apply child_iff; eexists; split; [vm_compute; reflexivity | cbn; auto]).
    + discriminate.
    + destruct I as [E | []]; discriminate.
Qed.

Print Assumptions alloc_tree_fresh.
Print Assumptions alloc_tree_read.
Print Assumptions w_step_valid.
Print Assumptions w_step_tree_like.
Print Assumptions tree_like_separated.
Print Assumptions w_step_separated.
Print Assumptions w_step_shared.
Print Assumptions history_tree_like.
Print Assumptions history_separated.
Print Assumptions history_disjoint.
Print Assumptions step_local.
Print Assumptions set_changes_only_its_packet.
Print Assumptions pack_writes_nothing.
Print Assumptions ex_history.
Print Assumptions cut_counterexample.
