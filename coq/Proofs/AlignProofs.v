(* Proofs/AlignProofs.v -- properties of the positioning arithmetic (Kernel/Align.v): alignment
   reaches the least aligned position at or after the cursor; pack and unpack compute the same
   position; positions are invariant under a shift of the packet start except for the
   start-of-data reference (finding D10).  Stdlib only, no axioms. *)
From Coq Require Import ZArith List Bool Lia ZifyBool.
From Bisturi Require Import Kernel.Align.
Import ListNotations.
Open Scope Z_scope.

Lemma move_pack_is_move_unpack : forall al r mv c ipp,
  move_pack al r mv c ipp = move_unpack al r mv c ipp.
Proof. reflexivity. Qed.

(* ------------------------------------------------------------------------------------------ *)
(* alignment                                                                                  *)
(* ------------------------------------------------------------------------------------------ *)

Lemma pymod_pos : forall x m, 0 < m -> pymod x m = Some (x mod m).
Proof.
  intros x m Hm. unfold pymod. destruct (Z.eqb_spec m 0); [lia | reflexivity].
Qed.

(* the padding (a - x mod a) mod a *)
Lemma pad_cases : forall a x, 0 < a ->
  let d := (a - x mod a) mod a in
  (x mod a = 0 /\ d = 0) \/ (0 < x mod a < a /\ d = a - x mod a).
Proof.
  intros a x Ha. cbn zeta.
  pose proof (Z.mod_pos_bound x a Ha) as Hr.
  destruct (Z.eq_dec (x mod a) 0) as [E|E].
  - left. split; [exact E|]. rewrite E, Z.sub_0_r. apply Z.mod_same; lia.
  - right. split; [lia|]. apply Z.mod_small; lia.
Qed.

Lemma add_mod_zero : forall a x d, 0 < a -> 0 <= d ->
  ((x + d) mod a = 0 <-> (x mod a + d) mod a = 0).
Proof.
  intros a x d Ha Hd.
  rewrite (Z.add_mod x d a) by lia. rewrite (Z.add_mod (x mod a) d a) by lia.
  rewrite Z.mod_mod by lia. reflexivity.
Qed.

Lemma pad_min : forall a x, 0 < a ->
  let d := (a - x mod a) mod a in
  0 <= d < a /\ (x + d) mod a = 0 /\ forall d', 0 <= d' -> (x + d') mod a = 0 -> d <= d'.
Proof.
  intros a x Ha. cbn zeta.
  pose proof (Z.mod_pos_bound x a Ha) as Hr.
  destruct (pad_cases a x Ha) as [[E ->]|[E ->]].
  - split; [lia|]. split.
    + rewrite Z.add_0_r. exact E.
    + intros d' Hd' _. exact Hd'.
  - split; [lia|]. split.
    + apply add_mod_zero; [lia | lia|].
      replace (x mod a + (a - x mod a)) with a by lia. apply Z.mod_same; lia.
    + intros d' Hd' H.
      destruct (Z.le_gt_cases (a - x mod a) d') as [Hle|Hgt]; [exact Hle|exfalso].
      apply add_mod_zero in H; [|lia|lia].
      rewrite Z.mod_small in H by lia. lia.
Qed.

Lemma align_to_pos : forall a c start, 0 < a ->
  align_to a c start = Some (c + (a - (c - start) mod a) mod a).
Proof.
  intros a c start Ha. unfold align_to. rewrite !pymod_pos by lia. reflexivity.
Qed.

Lemma align_to_min : forall a c start, 0 < a ->
  exists d, align_to a c start = Some (c + d) /\ 0 <= d < a /\ (c + d - start) mod a = 0 /\
            forall d', 0 <= d' -> (c + d' - start) mod a = 0 -> d <= d'.
Proof.
  intros a c start Ha.
  exists ((a - (c - start) mod a) mod a).
  split; [apply align_to_pos; exact Ha|].
  destruct (pad_min a (c - start) Ha) as (Hr & Hz & Hmin).
  split; [exact Hr|]. split.
  - replace (c + (a - (c - start) mod a) mod a - start)
      with (c - start + (a - (c - start) mod a) mod a) by lia. exact Hz.
  - intros d' Hd' H. apply Hmin; [exact Hd'|].
    replace (c - start + d') with (c + d' - start) by lia. exact H.
Qed.

Lemma align_to_zero : forall c start, align_to 0 c start = None.
Proof. reflexivity. Qed.

Lemma seq_align_is_align_to : forall a c, seq_align a c = align_to a c 0.
Proof.
  intros a c. unfold seq_align, align_to. rewrite Z.sub_0_r. reflexivity.
Qed.

Lemma seq_align_min : forall a c, 0 < a ->
  exists d, seq_align a c = Some (c + d) /\ 0 <= d < a /\ (c + d) mod a = 0 /\
            forall d', 0 <= d' -> (c + d') mod a = 0 -> d <= d'.
Proof.
  intros a c Ha. rewrite seq_align_is_align_to.
  destruct (align_to_min a c 0 Ha) as (d & E & Hr & Hz & Hmin).
  exists d. split; [exact E|]. split; [exact Hr|]. split.
  - rewrite Z.sub_0_r in Hz. exact Hz.
  - intros d' Hd' H. apply Hmin; [exact Hd'|]. rewrite Z.sub_0_r. exact H.
Qed.

Lemma sub_mod_multiple : forall a x b, 0 < a -> b mod a = 0 -> (x - b) mod a = x mod a.
Proof.
  intros a x b Ha Hb.
  rewrite Zminus_mod, Hb, Z.sub_0_r, Z.mod_mod by lia. reflexivity.
Qed.

Lemma align_to_shift_start0 : forall a c b, 0 < a -> b mod a = 0 ->
  align_to a (c - b) 0 = option_map (fun o => o - b) (align_to a c 0).
Proof.
  intros a c b Ha Hb. rewrite !align_to_pos by lia. cbn [option_map].
  rewrite !Z.sub_0_r, (sub_mod_multiple a c b Ha Hb). f_equal. lia.
Qed.

Lemma seq_align_shift : forall a c b, 0 < a -> b mod a = 0 ->
  seq_align a (c - b) = option_map (fun o => o - b) (seq_align a c).
Proof.
  intros a c b Ha Hb. rewrite !seq_align_is_align_to. apply align_to_shift_start0; assumption.
Qed.

(* alignment relative to a reference that moves with the packet *)
Lemma align_to_shift_both : forall a c start b, 0 < a ->
  align_to a (c - b) (start - b) = option_map (fun o => o - b) (align_to a c start).
Proof.
  intros a c start b Ha. rewrite !align_to_pos by lia. cbn [option_map].
  replace (c - b - (start - b)) with (c - start) by lia. f_equal. lia.
Qed.

(* ------------------------------------------------------------------------------------------ *)
(* moves                                                                                      *)
(* ------------------------------------------------------------------------------------------ *)

(* the position before the sign check *)
Definition move_raw (al : bool) (r : reference) (mv c ipp : Z) : option Z :=
  if al then align_to mv c (align_start r c ipp) else Some (jump_to r mv c ipp).

Lemma move_unpack_raw : forall al r mv c ipp o,
  move_unpack al r mv c ipp = Some o <-> (move_raw al r mv c ipp = Some o /\ 0 <= o).
Proof.
  intros al r mv c ipp o. unfold move_unpack. fold (move_raw al r mv c ipp).
  destruct (move_raw al r mv c ipp) as [o'|].
  - destruct (Z.ltb_spec o' 0) as [H|H]; split.
    + discriminate.
    + intros [E Ho]. injection E as ->. lia.
    + intros E. injection E as ->. split; [reflexivity | exact H].
    + intros [E _]. exact E.
  - split; [discriminate | intros [E _]; discriminate].
Qed.

Lemma move_nonneg : forall al r mv c ipp o, move_unpack al r mv c ipp = Some o -> 0 <= o.
Proof.
  intros al r mv c ipp o H. apply move_unpack_raw in H. apply H.
Qed.

(* the raw position of a packet whose start is shifted by b *)
Lemma move_raw_shift : forall al r mv c ipp b,
  (al = true -> 0 < mv) ->
  (r = RBegins -> if al then b mod mv = 0 else b = 0) ->
  move_raw al r mv (c - b) (ipp - b) = option_map (fun o => o - b) (move_raw al r mv c ipp).
Proof.
  intros al r mv c ipp b Hmv Hbeg. unfold move_raw.
  destruct al.
  - specialize (Hmv eq_refl).
    destruct r; cbn [align_start].
    + apply align_to_shift_both; exact Hmv.
    + apply align_to_shift_start0; [exact Hmv | exact (Hbeg eq_refl)].
    + apply align_to_shift_both; exact Hmv.
  - cbn [option_map]. destruct r; cbn [jump_to]; f_equal; try lia.
    specialize (Hbeg eq_refl). cbn in Hbeg. lia.
Qed.

Lemma move_shift_unpack_to_pack : forall al r mv c ipp b o,
  0 <= b -> (al = true -> 0 < mv) ->
  (r = RBegins -> if al then b mod mv = 0 else b = 0) ->
  move_unpack al r mv c ipp = Some o -> b <= o ->
  move_pack al r mv (c - b) (ipp - b) = Some (o - b).
Proof.
  intros al r mv c ipp b o Hb Hmv Hbeg H Hbo.
  rewrite move_pack_is_move_unpack.
  apply move_unpack_raw in H as [Hraw Ho].
  apply move_unpack_raw. split; [|lia].
  rewrite (move_raw_shift al r mv c ipp b Hmv Hbeg), Hraw. reflexivity.
Qed.

Lemma move_shift_pack_to_unpack : forall al r mv c ipp b o,
  0 <= b -> (al = true -> 0 < mv) ->
  (r = RBegins -> if al then b mod mv = 0 else b = 0) ->
  move_pack al r mv (c - b) (ipp - b) = Some o ->
  move_unpack al r mv c ipp = Some (o + b).
Proof.
  intros al r mv c ipp b o Hb Hmv Hbeg H.
  rewrite move_pack_is_move_unpack in H.
  apply move_unpack_raw in H as [Hraw Ho].
  apply move_unpack_raw. split; [|lia].
  rewrite (move_raw_shift al r mv c ipp b Hmv Hbeg) in Hraw.
  destruct (move_raw al r mv c ipp) as [o'|]; [|discriminate].
  cbn [option_map] in Hraw. injection Hraw as Hraw. f_equal. lia.
Qed.

(* D10: at(n, 'begins') is not invariant under a shift of the packet start: parsed at offset 1 the
   field sits at absolute position 5 = relative position 4, serialised alone it sits at 5 *)
Lemma move_begins_refuted : exists mv c ipp b o,
  0 < b /\ move_unpack false RBegins mv c ipp = Some o /\ b <= o /\
  move_pack false RBegins mv (c - b) (ipp - b) <> Some (o - b).
Proof.
  exists 5, 1, 1, 1, 5. vm_compute. repeat split; try discriminate; reflexivity.
Qed.

(* the same failure for alignment when the alignment does not divide the start offset *)
Example align_begins_refuted : exists mv c ipp b o,
  0 < b /\ move_unpack true RBegins mv c ipp = Some o /\ b <= o /\
  move_pack true RBegins mv (c - b) (ipp - b) <> Some (o - b).
Proof.
  exists 4, 3, 1, 1, 4. vm_compute. repeat split; try discriminate; reflexivity.
Qed.

Example align_instances :
  align_to 4 5 0 = Some 8 /\ align_to 4 8 0 = Some 8 /\ align_to 4 6 1 = Some 9 /\
  seq_align 8 17 = Some 24 /\ seq_align 0 17 = None /\
  move_unpack false RCur (-3) 2 0 = None /\ move_unpack false RInner 3 7 2 = Some 5.
Proof. vm_compute. repeat split; reflexivity. Qed.

Print Assumptions align_to_min.
Print Assumptions seq_align_min.
Print Assumptions seq_align_shift.
Print Assumptions move_shift_unpack_to_pack.
Print Assumptions move_shift_pack_to_unpack.
Print Assumptions move_begins_refuted.
Print Assumptions move_nonneg.
