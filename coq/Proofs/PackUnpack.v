(* Proofs/PackUnpack.v -- C02 for the sequential sublanguage (Model/Consistent.v): a value that satisfies its own
   declaration serializes (generic loop) to a well-formed string that parses back to a packet with the same
   visible part, consuming exactly that string; bytes appended after it do not matter.  Stdlib only, no axioms.

   One hypothesis was added to the statement of notes/stmts/S7_pack_unpack.v: [ct_plain ct = true].  It says
   (a) every marker that is not kept in the value is a well-formed byte string, and
   (b) the size / count / when expressions do not use EAttr (getattr on a packet valued expression), nor the
       offset / raw length arguments (the latter already follows from expr_local, which `consistent` checks).
   Both parts are forced by a counterexample: see "refutations" at the end of the file. *)
From Coq Require Import ZArith List Bool Lia.
From Bisturi Require Import Base.Bytes Kernel.IntCodec Kernel.Align Kernel.BitsK Kernel.DataK Kernel.Frag
  Model.Value Model.Decl Model.Unpack Model.Pack Model.Init Model.Canon Model.Wf Model.Consistent
  Proofs.FragProofs Proofs.IntCodecProofs Proofs.DataProofs Proofs.RoundTrip.
Import ListNotations. Open Scope Z_scope.

(* the value restricted to the attributes the class declares: what unpack returns is compared on these *)
Definition visible (ct : ctab) (v : value) : cval := canon ct v.

(* ------------------------------------------------------------------------------------------ *)
(** * The added side condition                                                                 *)
(* ------------------------------------------------------------------------------------------ *)

(* no getattr on a computed packet, no offset, no raw length *)
Fixpoint expr_plain (e : expr) {struct e} : bool :=
  match e with
  | ELit _ => true
  | EField _ => true
  | EUn _ a => expr_plain a
  | EBin _ l r => expr_plain l && expr_plain r
  | EChoose s opts => expr_plain s && (fix go (l : list expr) : bool := match l with [] => true | a :: r => expr_plain a && go r end) opts
  | EChooseD s _ opts => expr_plain s && (fix go (l : list expr) : bool := match l with [] => true | a :: r => expr_plain a && go r end) opts
  | EIte c a b => expr_plain c && expr_plain a && expr_plain b
  | EAttr _ _ => false
  | EOffset | ERawLen => false
  end.
Definition leaf_plain (l : leaf) : bool :=
  match l with
  | LDataSized size _ _ => expr_plain size
  | LDataMarker m incl _ => incl || wf_bytesb m
  | _ => true
  end.
Definition elem_plain (e : elem) : bool := match e with ELeafE l => leaf_plain l | _ => true end.
Definition cfield_plain (f : cfield) : bool :=
  match f with
  | CElem _ e => elem_plain e
  | CSeq _ e count _ _ _ _ => elem_plain e && match count with Some ce => expr_plain ce | None => true end
  | COpt _ e w _ => elem_plain e && expr_plain w
  | _ => true
  end.
Definition class_plain (k : cclass) : bool := forallb cfield_plain (cc_fields k).
Definition ct_plain (ct : ctab) : bool := forallb (fun ck => class_plain (snd ck)) ct.

(* ------------------------------------------------------------------------------------------ *)
(** * Values up to the slots of the packets they contain                                       *)
(* ------------------------------------------------------------------------------------------ *)

(* forget what packets hold: a plain expression cannot look inside them *)
Fixpoint er (v : value) {struct v} : value :=
  match v with
  | VList l => VList ((fix go (l : list value) : list value := match l with [] => [] | a :: r => er a :: go r end) l)
  | VTuple l => VTuple ((fix go (l : list value) : list value := match l with [] => [] | a :: r => er a :: go r end) l)
  | VDict k l => VDict k ((fix go (l : list value) : list value := match l with [] => [] | a :: r => er a :: go r end) l)
  | VPkt c _ => VPkt c []
  | _ => v
  end.

Lemma er_list (l : list value) : er (VList l) = VList (map er l).
Proof. reflexivity. Qed.
Lemma er_tuple (l : list value) : er (VTuple l) = VTuple (map er l).
Proof. reflexivity. Qed.
Lemma er_dict (k l : list value) : er (VDict k l) = VDict k (map er l).
Proof. reflexivity. Qed.

Lemma value_ind_l (P : value -> Prop) :
  (forall v, match v with VList _ | VTuple _ | VDict _ _ => False | _ => True end -> P v) ->
  (forall l, Forall P l -> P (VList l)) -> (forall l, Forall P l -> P (VTuple l)) ->
  (forall k l, Forall P l -> P (VDict k l)) -> forall v, P v.
Proof.
  intros H0 HL HT HD. fix IH 1. intros v.
  destruct v as [z|b|b| |l|l|k l|c s|c s|lf].
  - apply H0; exact I.
  - apply H0; exact I.
  - apply H0; exact I.
  - apply H0; exact I.
  - apply HL. exact ((fix go (l : list value) : Forall P l :=
                        match l with [] => Forall_nil _ | a :: r => Forall_cons _ (IH a) (go r) end) l).
  - apply HT. exact ((fix go (l : list value) : Forall P l :=
                        match l with [] => Forall_nil _ | a :: r => Forall_cons _ (IH a) (go r) end) l).
  - apply HD. exact ((fix go (l : list value) : Forall P l :=
                        match l with [] => Forall_nil _ | a :: r => Forall_cons _ (IH a) (go r) end) l).
  - apply H0; exact I.
  - apply H0; exact I.
  - apply H0; exact I.
Qed.

Lemma as_int_er (a : value) : as_int (er a) = as_int a.
Proof. destruct a; reflexivity. Qed.
Lemma truth_er (a : value) : truth (er a) = truth a.
Proof.
  destruct a as [z|b|b| |l|l|k l|c s|c s|lf]; try reflexivity.
  - rewrite er_list. destruct l; reflexivity.
  - rewrite er_tuple. destruct l; reflexivity.
Qed.

Lemma veq_list_cons (a b : value) (x y : list value) :
  value_eqb (VList (a :: x)) (VList (b :: y)) = value_eqb a b && value_eqb (VList x) (VList y).
Proof. reflexivity. Qed.
Lemma veq_tuple_cons (a b : value) (x y : list value) :
  value_eqb (VTuple (a :: x)) (VTuple (b :: y)) = value_eqb a b && value_eqb (VTuple x) (VTuple y).
Proof. reflexivity. Qed.

Lemma value_eqb_er (a : value) : forall b, value_eqb a b = value_eqb (er a) (er b).
Proof.
  induction a as [a Ha|l IH|l IH|k l IH] using value_ind_l; intros b.
  - destruct a as [z|bo|by_| |l|l|k l|c s|c s|lf]; try contradiction.
    + change (er (VInt z)) with (VInt z). cbn [value_eqb]. rewrite as_int_er. destruct b; reflexivity.
    + change (er (VBool bo)) with (VBool bo). cbn [value_eqb]. rewrite as_int_er. destruct b; reflexivity.
    + destruct b; reflexivity.
    + destruct b; reflexivity.
    + destruct b; reflexivity.
    + destruct b; reflexivity.
    + destruct b; reflexivity.
  - destruct b as [z|bo|by_| |l'|l'|k' l'|c s|c s|lf]; try reflexivity.
    rewrite !er_list. revert l'. induction IH as [|a r Ha Hr IHr]; intros l'.
    + destruct l'; reflexivity.
    + destruct l' as [|b l']; [reflexivity|]. cbn [map]. rewrite !veq_list_cons, (Ha b), (IHr l'). reflexivity.
  - destruct b as [z|bo|by_| |l'|l'|k' l'|c s|c s|lf]; try reflexivity.
    rewrite !er_tuple. revert l'. induction IH as [|a r Ha Hr IHr]; intros l'.
    + destruct l'; reflexivity.
    + destruct l' as [|b l']; [reflexivity|]. cbn [map]. rewrite !veq_tuple_cons, (Ha b), (IHr l'). reflexivity.
  - rewrite er_dict. destruct b; reflexivity.
Qed.

Lemma value_eqb_sim (a a' b b' : value) : er a' = er a -> er b' = er b -> value_eqb a' b' = value_eqb a b.
Proof. intros Ea Eb. rewrite (value_eqb_er a' b'), (value_eqb_er a b), Ea, Eb. reflexivity. Qed.

Lemma apply_uop_er (o : uop) (a : value) : apply_uop o (er a) = apply_uop o a.
Proof.
  destruct o; cbn [apply_uop].
  - rewrite as_int_er. reflexivity.
  - rewrite as_int_er. reflexivity.
  - rewrite truth_er. reflexivity.
  - destruct a as [z|b|b| |l|l|k l|c s|c s|lf]; try reflexivity.
    + rewrite er_list, map_length. reflexivity.
    + rewrite er_tuple, map_length. reflexivity.
Qed.

Lemma apply_uop_sim (o : uop) (a a' : value) : er a' = er a -> apply_uop o a' = apply_uop o a.
Proof. intros E. rewrite <- (apply_uop_er o a'), <- (apply_uop_er o a), E. reflexivity. Qed.

Lemma py_index_sim (l l' : list value) (i : Z) (v : value) :
  map er l' = map er l -> py_index l i = Some v -> exists v', py_index l' i = Some v' /\ er v' = er v.
Proof.
  intros E. unfold py_index.
  assert (EL : length l' = length l). { rewrite <- (map_length er l'), E, map_length. reflexivity. }
  rewrite EL. destruct (_ && _); [|discriminate]. intros H.
  pose proof (nth_error_map er (Z.to_nat (if i <? 0 then i + Z.of_nat (length l) else i)) l') as M.
  rewrite E, nth_error_map, H in M. cbn [option_map] in M.
  destruct (nth_error l' _) as [v'|]; [|discriminate]. cbn [option_map] in M. injection M as M.
  exists v'. split; [reflexivity|congruence].
Qed.

Lemma dict_lookup_sim (ks : list value) : forall (vs vs' : list value) (k k' v : value),
  map er vs' = map er vs -> er k' = er k -> dict_lookup ks vs k = Some v ->
  exists v', dict_lookup ks vs' k' = Some v' /\ er v' = er v.
Proof.
  induction ks as [|k0 kr IH]; intros vs vs' k k' v E Ek; cbn [dict_lookup]; [discriminate|].
  destruct vs as [|w vr]; [discriminate|]. destruct vs' as [|w' vr']; [discriminate|].
  cbn [map] in E. injection E as Ew Er.
  rewrite (value_eqb_sim k k' k0 k0 Ek eq_refl). destruct (value_eqb k k0).
  - intros H. injection H as <-. exists w'. split; [reflexivity|exact Ew].
  - intros H. exact (IH vr vr' k k' v Er Ek H).
Qed.

Lemma getitem_sim (a a' b b' r : value) : er a' = er a -> er b' = er b ->
  apply_bop GetItem a b = Ok r -> exists r', apply_bop GetItem a' b' = Ok r' /\ er r' = er r.
Proof.
  intros Ea Eb. cbn [apply_bop].
  assert (Ei : as_int b' = as_int b). { rewrite <- (as_int_er b'), Eb, as_int_er. reflexivity. }
  destruct a as [z|bo|by_| |l|l|k l|c s|c s|lf]; try discriminate.
  - destruct a'; try discriminate Ea. cbn [er] in Ea. injection Ea as ->. rewrite Ei.
    destruct (as_int b); [|discriminate]. destruct (py_index by_ z); [|discriminate].
    intros H. injection H as <-. eexists. split; reflexivity.
  - destruct a' as [z|bo|by_| |l'|l'|k' l'|c s|c s|lf]; try discriminate Ea.
    rewrite !er_list in Ea. injection Ea as Ea. rewrite Ei.
    destruct (as_int b); [|discriminate]. destruct (py_index l z) as [w|] eqn:P; [|discriminate].
    intros H. injection H as <-. destruct (py_index_sim l l' z w Ea P) as (w' & P' & Ew).
    rewrite P'. exists w'. split; [reflexivity|exact Ew].
  - destruct a' as [z|bo|by_| |l'|l'|k' l'|c s|c s|lf]; try discriminate Ea.
    rewrite !er_tuple in Ea. injection Ea as Ea. rewrite Ei.
    destruct (as_int b); [|discriminate]. destruct (py_index l z) as [w|] eqn:P; [|discriminate].
    intros H. injection H as <-. destruct (py_index_sim l l' z w Ea P) as (w' & P' & Ew).
    rewrite P'. exists w'. split; [reflexivity|exact Ew].
  - destruct a' as [z|bo|by_| |l'|l'|k' l'|c s|c s|lf]; try discriminate Ea.
    rewrite !er_dict in Ea. injection Ea as -> Ea.
    destruct (dict_lookup k l b) as [w|] eqn:D; [|discriminate].
    intros H. injection H as <-. destruct (dict_lookup_sim k l l' b b' w Ea Eb D) as (w' & D' & Ew).
    rewrite D'. exists w'. split; [reflexivity|exact Ew].
Qed.

(* every other operator returns an integer or a boolean computed from integers, booleans and == *)
Lemma arith_er (o : bop) (a b : value) : o <> GetItem -> apply_bop o (er a) (er b) = apply_bop o a b.
Proof.
  intros Ho. destruct o; try congruence;
    try (cbn [apply_bop]; rewrite <- value_eqb_er; reflexivity);
    (destruct a; destruct b; reflexivity).
Qed.

Lemma apply_bop_sim (o : bop) (a a' b b' r : value) : er a' = er a -> er b' = er b ->
  apply_bop o a b = Ok r -> exists r', apply_bop o a' b' = Ok r' /\ er r' = er r.
Proof.
  intros Ea Eb H. destruct (match o with GetItem => true | _ => false end) eqn:G.
  - destruct o; try discriminate. exact (getitem_sim a a' b b' r Ea Eb H).
  - assert (Ho : o <> GetItem) by (intros ->; discriminate).
    exists r. split; [|reflexivity].
    rewrite <- (arith_er o a' b' Ho), Ea, Eb, (arith_er o a b Ho). exact H.
Qed.

(* ------------------------------------------------------------------------------------------ *)
(** * Parsed slots against the slots `consistent` walked                                        *)
(* ------------------------------------------------------------------------------------------ *)

(* the parsed value v' against the original v: same visible part, same up to the slots of packets *)
Definition vrel (ct : ctab) (v' v : value) : Prop := canon ct v' = canon ct v /\ er v' = er v.
Lemma vrel_refl (ct : ctab) (v : value) : vrel ct v v.
Proof. split; reflexivity. Qed.
(* every attribute sb defines is defined by su, with a related value *)
Definition ext (ct : ctab) (sb su : slots) : Prop :=
  forall f v, slot_get sb f = Some v -> exists v', slot_get su f = Some v' /\ vrel ct v' v.

Lemma ext_nil (ct : ctab) (su : slots) : ext ct [] su.
Proof. intros f v H. discriminate H. Qed.
Lemma ext_set (ct : ctab) (sb su : slots) (f : fname) (v v' : value) :
  ext ct sb su -> vrel ct v' v -> ext ct (slot_set sb f v) (slot_set su f v').
Proof.
  intros H Hv g w. rewrite !slot_get_set. destruct (fname_eqb g f).
  - intros E. injection E as <-. exists v'. split; [reflexivity|exact Hv].
  - apply H.
Qed.
(* the parser wrote only attributes sb does not define *)
Lemma ext_frame (ct : ctab) (sb su su' : slots) :
  ext ct sb su -> (forall f, slot_get sb f <> None -> slot_get su' f = slot_get su f) -> ext ct sb su'.
Proof.
  intros H Hf g w E. rewrite Hf by congruence. exact (H g w E).
Qed.

Lemma eval_sim (ct : ctab) (cx1 cx2 : ectx) : ext ct (e_slots cx1) (e_slots cx2) ->
  forall e v, expr_plain e = true -> eval cx1 e = Ok v -> exists v', eval cx2 e = Ok v' /\ er v' = er v.
Proof.
  intros Hx. fix IH 1. intros e. destruct e as [w|f|o a|o l r|sel opts|sel keys opts|c a b|a f| |]; intros v Hs He.
  - exists v. split; [exact He|reflexivity].
  - cbn [eval] in *. destruct (slot_get (e_slots cx1) f) as [x|] eqn:G; [|discriminate].
    injection He as <-. destruct (Hx f x G) as (x' & G' & _ & Ex). rewrite G'. exists x'. split; [reflexivity|exact Ex].
  - cbn [expr_plain] in Hs. cbn [eval] in *.
    destruct (eval cx1 a) as [x|] eqn:E1; [|discriminate]. cbn [bind] in He.
    destruct (IH a x Hs E1) as (x' & E1' & Ex). rewrite E1'. cbn [bind].
    exists v. split; [|reflexivity]. rewrite (apply_uop_sim o x x' Ex). exact He.
  - cbn [expr_plain] in Hs. apply andb_true_iff in Hs as [Hs1 Hs2]. cbn [eval] in *.
    destruct (eval cx1 l) as [x|] eqn:E1; [|discriminate]. cbn [bind] in He.
    destruct (eval cx1 r) as [y|] eqn:E2; [|discriminate]. cbn [bind] in He.
    destruct (IH l x Hs1 E1) as (x' & E1' & Ex). destruct (IH r y Hs2 E2) as (y' & E2' & Ey).
    rewrite E1'. cbn [bind]. rewrite E2'. cbn [bind]. exact (apply_bop_sim o x x' y y' v Ex Ey He).
  - cbn [expr_plain] in Hs. apply andb_true_iff in Hs as [Hs1 Hs2]. cbn [eval] in *.
    destruct (eval cx1 sel) as [x|] eqn:E1; [|discriminate]. cbn [bind] in He.
    destruct (IH sel x Hs1 E1) as (x' & E1' & Ex). rewrite E1'. cbn [bind].
    match type of He with bind ?G _ = _ => destruct G as [vs|] eqn:E2; [|discriminate] end. cbn [bind] in He.
    match goal with |- exists _, bind ?G _ = _ /\ _ => assert (E3 : exists vs', G = Ok vs' /\ map er vs' = map er vs) end.
    { clear He. revert vs Hs2 E2. induction opts as [|a r IHr]; intros vs Hs2 E2.
      - injection E2 as <-. exists []. split; reflexivity.
      - apply andb_true_iff in Hs2 as [Ha Hr].
        destruct (eval cx1 a) as [y|] eqn:Ea; [|discriminate]. cbn [bind] in E2.
        match type of E2 with bind ?G _ = _ => destruct G as [ys|] eqn:Er; [|discriminate] end.
        cbn [bind] in E2. injection E2 as <-.
        destruct (IH a y Ha Ea) as (y' & Ea' & Ey). destruct (IHr ys Hr eq_refl) as (ys' & Er' & Eys).
        rewrite Ea'. cbn [bind]. rewrite Er'. cbn [bind]. exists (y' :: ys'). split; [reflexivity|].
        cbn [map]. rewrite Ey, Eys. reflexivity. }
    destruct E3 as (vs' & E3 & Evs). rewrite E3. cbn [bind].
    apply (apply_bop_sim GetItem (VTuple vs) (VTuple vs') x x' v); [|exact Ex|exact He].
    rewrite !er_tuple, Evs. reflexivity.
  - cbn [expr_plain] in Hs. apply andb_true_iff in Hs as [Hs1 Hs2]. cbn [eval] in *.
    destruct (eval cx1 sel) as [x|] eqn:E1; [|discriminate]. cbn [bind] in He.
    destruct (IH sel x Hs1 E1) as (x' & E1' & Ex). rewrite E1'. cbn [bind].
    match type of He with bind ?G _ = _ => destruct G as [vs|] eqn:E2; [|discriminate] end. cbn [bind] in He.
    match goal with |- exists _, bind ?G _ = _ /\ _ => assert (E3 : exists vs', G = Ok vs' /\ map er vs' = map er vs) end.
    { clear He. revert vs Hs2 E2. induction opts as [|a r IHr]; intros vs Hs2 E2.
      - injection E2 as <-. exists []. split; reflexivity.
      - apply andb_true_iff in Hs2 as [Ha Hr].
        destruct (eval cx1 a) as [y|] eqn:Ea; [|discriminate]. cbn [bind] in E2.
        match type of E2 with bind ?G _ = _ => destruct G as [ys|] eqn:Er; [|discriminate] end.
        cbn [bind] in E2. injection E2 as <-.
        destruct (IH a y Ha Ea) as (y' & Ea' & Ey). destruct (IHr ys Hr eq_refl) as (ys' & Er' & Eys).
        rewrite Ea'. cbn [bind]. rewrite Er'. cbn [bind]. exists (y' :: ys'). split; [reflexivity|].
        cbn [map]. rewrite Ey, Eys. reflexivity. }
    destruct E3 as (vs' & E3 & Evs). rewrite E3. cbn [bind].
    apply (apply_bop_sim GetItem (VDict keys vs) (VDict keys vs') x x' v); [|exact Ex|exact He].
    rewrite !er_dict, Evs. reflexivity.
  - cbn [expr_plain] in Hs. apply andb_true_iff in Hs as [Hs12 Hs3]. apply andb_true_iff in Hs12 as [Hs1 Hs2].
    cbn [eval] in *.
    destruct (eval cx1 c) as [x|] eqn:E1; [|discriminate]. cbn [bind] in He.
    destruct (eval cx1 a) as [y|] eqn:E2; [|discriminate]. cbn [bind] in He.
    destruct (eval cx1 b) as [z|] eqn:E3; [|discriminate]. cbn [bind] in He. injection He as <-.
    destruct (IH c x Hs1 E1) as (x' & E1' & Ex). destruct (IH a y Hs2 E2) as (y' & E2' & Ey).
    destruct (IH b z Hs3 E3) as (z' & E3' & Ez).
    rewrite E1'. cbn [bind]. rewrite E2'. cbn [bind]. rewrite E3'. cbn [bind].
    eexists. split; [reflexivity|].
    rewrite <- (truth_er x'), Ex, truth_er. destruct (truth x); assumption.
  - discriminate.
  - discriminate.
  - discriminate.
Qed.

Lemma eval_int_sim (ct : ctab) (cx1 cx2 : ectx) (e : expr) (z : Z) : ext ct (e_slots cx1) (e_slots cx2) ->
  expr_plain e = true -> eval_int cx1 e = Ok z -> eval_int cx2 e = Ok z.
Proof.
  intros Hx Hp. unfold eval_int. destruct (eval cx1 e) as [v|] eqn:E; [|discriminate]. cbn [bind].
  destruct (eval_sim ct cx1 cx2 Hx e v Hp E) as (v' & E' & Ev). rewrite E'. cbn [bind].
  rewrite <- (as_int_er v'), Ev, as_int_er. intros H; exact H.
Qed.
Lemma eval_truth_sim (ct : ctab) (cx1 cx2 : ectx) (e : expr) (v : value) : ext ct (e_slots cx1) (e_slots cx2) ->
  expr_plain e = true -> eval cx1 e = Ok v -> exists v', eval cx2 e = Ok v' /\ truth v' = truth v.
Proof.
  intros Hx Hp E. destruct (eval_sim ct cx1 cx2 Hx e v Hp E) as (v' & E' & Ev). exists v'. split; [exact E'|].
  rewrite <- (truth_er v'), Ev, truth_er. reflexivity.
Qed.

(* ------------------------------------------------------------------------------------------ *)
(** * The output buffer when every write is an append: a contiguous block                       *)
(* ------------------------------------------------------------------------------------------ *)

Definition block (fr : frs) (B : bytes) : Prop :=
  Inv fr /\ NonNeg fr /\ cur fr = blen B /\ extent (frags fr) = blen B /\
  forall q, cell (frags fr) q = if (0 <=? q) && (q <? blen B) then nth_error B (Z.to_nat q) else None.

Lemma block_empty : block empty [].
Proof.
  destruct inv_empty as [HI HN]. split; [exact HI|]. split; [exact HN|]. split; [reflexivity|]. split; [reflexivity|].
  intros q. cbn [empty frags cell]. rewrite DataProofs.blen_nil.
  destruct (Z.leb_spec 0 q), (Z.ltb_spec q 0); cbn [andb]; try reflexivity. lia.
Qed.

Lemma block_append (fr : frs) (B b : bytes) : block fr B ->
  exists fr', append fr b = Frag.Ok fr' /\ block fr' (B ++ b).
Proof.
  intros (HI & HN & Hcur & Hext & Hcell). unfold append.
  pose proof (DataProofs.blen_nonneg B) as HB. pose proof (DataProofs.blen_nonneg b) as Hb.
  destruct (insert fr (cur fr) b) as [fr'| |] eqn:E.
  - exists fr'. split; [reflexivity|].
    destruct (insert_ok fr (cur fr) b fr' HI E) as (HI' & Hcur' & Hcell' & Hext').
    split; [exact HI'|]. split; [apply (insert_nonneg fr (cur fr) b fr' HN); [lia|exact E]|].
    rewrite DataProofs.blen_app. split; [lia|]. split; [lia|].
    intros q. rewrite Hcell', Hcell, Hcur.
    destruct (Z.leb_spec (blen B) q), (Z.ltb_spec q (blen B + blen b)), (Z.leb_spec 0 q), (Z.ltb_spec q (blen B)),
      (Z.ltb_spec q (blen B + blen b)); cbn [andb]; try lia; try reflexivity.
    + rewrite nth_error_app2 by (unfold blen in *; lia). f_equal. unfold blen in *. lia.
    + rewrite nth_error_app1 by (unfold blen in *; lia). reflexivity.
  - exfalso. assert (Hne : b <> []). { intros ->. rewrite insert_empty_eq in E. discriminate. }
    apply (insert_collision_iff fr (cur fr) b HI Hne) in E. destruct E as (q & Hq & Hc).
    apply Hc. rewrite Hcell. destruct (Z.leb_spec 0 q), (Z.ltb_spec q (blen B)); cbn [andb]; try reflexivity. lia.
  - exfalso. exact (insert_no_crash fr (cur fr) b HI E).
Qed.

Lemma nth_error_ext_eq {A : Type} : forall l1 l2 : list A, length l1 = length l2 ->
  (forall n, (n < length l1)%nat -> nth_error l1 n = nth_error l2 n) -> l1 = l2.
Proof.
  induction l1 as [|a l1 IH]; intros [|b l2] HL H; try discriminate HL; [reflexivity|].
  cbn [length] in *. f_equal.
  - assert (H0 := H 0%nat ltac:(lia)). cbn [nth_error] in H0. congruence.
  - apply IH; [lia|]. intros n Hn. exact (H (S n) ltac:(lia)).
Qed.

Lemma block_tobytes (fr : frs) (B : bytes) : block fr B -> tobytes fr = B.
Proof.
  intros (HI & HN & Hcur & Hext & Hcell). destruct (tobytes_spec fr HI HN) as [HL Hn].
  apply nth_error_ext_eq.
  - unfold blen in *. lia.
  - intros n Hl. assert (Hq : 0 <= Z.of_nat n < extent (frags fr)) by (unfold blen in *; lia).
    pose proof (Hn (Z.of_nat n) Hq) as Hq'. rewrite Nat2Z.id in Hq'. rewrite Hq', Hcell.
    destruct (Z.leb_spec 0 (Z.of_nat n)), (Z.ltb_spec (Z.of_nat n) (blen B)); cbn [andb]; try lia.
    rewrite Nat2Z.id. destruct (nth_error B n) eqn:G; [reflexivity|].
    apply nth_error_None in G. unfold blen in *. lia.
Qed.

Lemma set_cur_same (fr : frs) : set_cur fr (cur fr) = fr.
Proof. destruct fr; reflexivity. Qed.
Lemma seq_align_1 (o : Z) : seq_align 1 o = Some o.
Proof. unfold seq_align, pymod. cbn [Z.eqb]. rewrite Z.mod_1_r. cbn [Z.sub Z.opp Z.add Z.pos_sub]. rewrite Z.mod_1_r, Z.add_0_r. reflexivity. Qed.

Lemma emit_block (sp : slots) (fr : frs) (B b : bytes) : block fr B ->
  exists fr', emit sp fr b = KOk sp fr' /\ block fr' (B ++ b).
Proof.
  intros H. destruct (block_append fr B b H) as (fr' & E & H'). exists fr'. unfold emit. rewrite E. split; [reflexivity|exact H'].
Qed.

(* ------------------------------------------------------------------------------------------ *)
(** * Slices of a string with a known middle                                                   *)
(* ------------------------------------------------------------------------------------------ *)

Lemma slice_from_mid (pre x : bytes) : slice_from (pre ++ x) (blen pre) = x.
Proof. unfold slice_from, blen. rewrite Nat2Z.id. apply skipn_len_app. Qed.
Lemma slice_mid (pre x post : bytes) : slice (pre ++ x ++ post) (blen pre) (blen pre + blen x) = x.
Proof.
  unfold slice. replace (Z.to_nat (blen pre)) with (length pre) by (unfold blen; lia).
  replace (Z.to_nat (blen pre + blen x - blen pre)) with (length x) by (unfold blen; lia).
  rewrite skipn_len_app. apply firstn_len_app.
Qed.

Lemma wf_bytesb_ok (b : bytes) : wf_bytesb b = true -> wf_bytes b.
Proof.
  unfold wf_bytesb, wf_bytes. rewrite forallb_forall, Forall_forall. intros H x Hx. specialize (H x Hx).
  unfold wf_byteb in H. apply andb_true_iff in H as [A C]. unfold wf_byte. lia.
Qed.

(* the marker, first found at the end of the body, is still first found there when more bytes follow *)
Lemma find_excl_ext (b m post : bytes) : find (b ++ m) m = Some (blen b) -> find (b ++ m ++ post) m = Some (blen b).
Proof.
  intros F. destruct (find_least _ _ _ F) as [_ Hmin].
  destruct (find_complete (b ++ m ++ post) m (blen b) (occurs_at_mid m b post)) as (i & Fi & Hi).
  rewrite Fi. f_equal. destruct (find_least _ _ _ Fi) as [Ho _].
  destruct (Z_lt_ge_dec i (blen b)) as [Hlt|Hge]; [|lia]. exfalso.
  assert (H0 : 0 <= i) by (destruct Ho; lia).
  apply (Hmin i); [lia|]. rewrite app_assoc in Ho. apply (occurs_at_app_l m (b ++ m) post i Ho).
  rewrite DataProofs.blen_app. lia.
Qed.
Lemma find_incl_ext (b m post : bytes) (c : Z) : find b m = Some c -> find (b ++ post) m = Some c.
Proof.
  intros F. destruct (find_least _ _ _ F) as [Hoc Hmin].
  destruct (find_complete (b ++ post) m c (occurs_at_app_r m b post c Hoc)) as (i & Fi & Hi).
  rewrite Fi. f_equal. destruct (find_least _ _ _ Fi) as [Ho _].
  destruct (Z_lt_ge_dec i c) as [Hlt|Hge]; [|lia]. exfalso.
  assert (H0 : 0 <= i) by (destruct Ho; lia).
  apply (Hmin i); [lia|]. apply (occurs_at_app_l m b post i Ho). destruct Hoc as (_ & Hc & _). lia.
Qed.
