(* Proofs/PackUnpack.v -- C02 for the sequential sublanguage (Model/Consistent.v): a value that satisfies its own
   declaration serializes (generic loop) to a well-formed string that parses back to a packet with the same
   visible part, consuming exactly that string; bytes appended after it do not matter.  Stdlib only, no axioms.

   One hypothesis was added to the statement of notes/stmts/S7_pack_unpack.v: [ct_plain ct = true].  It says
   (a) every marker that is not kept in the value is a well-formed byte string, and
   (b) the size / count / when expressions do not use EAttr (getattr on a packet valued expression), nor the
       offset / raw length arguments (the latter already follows from expr_local, which `consistent` checks).
   Both parts are forced by a counterexample: see "refutations" at the end of the file. *)
From Coq Require Import ZArith List Bool Lia.
From Bisturi Require Import Base.Bytes Kernel.IntCodec Kernel.Align Kernel.BitsK Kernel.DataK Kernel.Frag
  Model.Value Model.Decl Model.Unpack Model.Pack Model.Init Model.Canon Model.Wf Model.Consistent
  Proofs.FragProofs Proofs.IntCodecProofs Proofs.DataProofs Proofs.RoundTrip.
Import ListNotations. Open Scope Z_scope.

(* the value restricted to the attributes the class declares: what unpack returns is compared on these *)
Definition visible (ct : ctab) (v : value) : cval := canon ct v.

(* ------------------------------------------------------------------------------------------ *)
(** * The added side condition                                                                 *)
(* ------------------------------------------------------------------------------------------ *)

(* no getattr on a computed packet, no offset, no raw length *)
Fixpoint expr_plain (e : expr) {struct e} : bool :=
  match e with
  | ELit _ => true
  | EField _ => true
  | EUn _ a => expr_plain a
  | EBin _ l r => expr_plain l && expr_plain r
  | EChoose s opts => expr_plain s && (fix go (l : list expr) : bool := match l with [] => true | a :: r => expr_plain a && go r end) opts
  | EChooseD s _ opts => expr_plain s && (fix go (l : list expr) : bool := match l with [] => true | a :: r => expr_plain a && go r end) opts
  | EIte c a b => expr_plain c && expr_plain a && expr_plain b
  | EAttr _ _ => false
  | EOffset | ERawLen => false
  end.
Definition leaf_plain (l : leaf) : bool :=
  match l with
  | LDataSized size _ _ => expr_plain size
  | LDataMarker m incl _ => incl || wf_bytesb m
  | _ => true
  end.
Definition elem_plain (e : elem) : bool := match e with ELeafE l => leaf_plain l | _ => true end.
Definition cfield_plain (f : cfield) : bool :=
  match f with
  | CElem _ e => elem_plain e
  | CSeq _ e count _ _ _ _ => elem_plain e && match count with Some ce => expr_plain ce | None => true end
  | COpt _ e w _ => elem_plain e && expr_plain w
  | _ => true
  end.
Definition class_plain (k : cclass) : bool := forallb cfield_plain (cc_fields k).
Definition ct_plain (ct : ctab) : bool := forallb (fun ck => class_plain (snd ck)) ct.

(* ------------------------------------------------------------------------------------------ *)
(** * Values up to the slots of the packets they contain                                       *)
(* ------------------------------------------------------------------------------------------ *)

(* forget what packets hold: a plain expression cannot look inside them *)
Fixpoint er (v : value) {struct v} : value :=
  match v with
  | VList l => VList ((fix go (l : list value) : list value := match l with [] => [] | a :: r => er a :: go r end) l)
  | VTuple l => VTuple ((fix go (l : list value) : list value := match l with [] => [] | a :: r => er a :: go r end) l)
  | VDict k l => VDict k ((fix go (l : list value) : list value := match l with [] => [] | a :: r => er a :: go r end) l)
  | VPkt c _ => VPkt c []
  | _ => v
  end.

Lemma er_list (l : list value) : er (VList l) = VList (map er l).
Proof. reflexivity. Qed.
Lemma er_tuple (l : list value) : er (VTuple l) = VTuple (map er l).
Proof. reflexivity. Qed.
Lemma er_dict (k l : list value) : er (VDict k l) = VDict k (map er l).
Proof. reflexivity. Qed.

Lemma value_ind_l (P : value -> Prop) :
  (forall v, match v with VList _ | VTuple _ | VDict _ _ => False | _ => True end -> P v) ->
  (forall l, Forall P l -> P (VList l)) -> (forall l, Forall P l -> P (VTuple l)) ->
  (forall k l, Forall P l -> P (VDict k l)) -> forall v, P v.
Proof.
  intros H0 HL HT HD. fix IH 1. intros v.
  destruct v as [z|b|b| |l|l|k l|c s|c s|lf].
  - apply H0; exact I.
  - apply H0; exact I.
  - apply H0; exact I.
  - apply H0; exact I.
  - apply HL. exact ((fix go (l : list value) : Forall P l :=
                        match l with [] => Forall_nil _ | a :: r => Forall_cons _ (IH a) (go r) end) l).
  - apply HT. exact ((fix go (l : list value) : Forall P l :=
                        match l with [] => Forall_nil _ | a :: r => Forall_cons _ (IH a) (go r) end) l).
  - apply HD. exact ((fix go (l : list value) : Forall P l :=
                        match l with [] => Forall_nil _ | a :: r => Forall_cons _ (IH a) (go r) end) l).
  - apply H0; exact I.
  - apply H0; exact I.
  - apply H0; exact I.
Qed.

Lemma as_int_er (a : value) : as_int (er a) = as_int a.
Proof. destruct a; reflexivity. Qed.
Lemma truth_er (a : value) : truth (er a) = truth a.
Proof.
  destruct a as [z|b|b| |l|l|k l|c s|c s|lf]; try reflexivity.
  - rewrite er_list. destruct l; reflexivity.
  - rewrite er_tuple. destruct l; reflexivity.
Qed.

Lemma veq_list_cons (a b : value) (x y : list value) :
  value_eqb (VList (a :: x)) (VList (b :: y)) = value_eqb a b && value_eqb (VList x) (VList y).
Proof. reflexivity. Qed.
Lemma veq_tuple_cons (a b : value) (x y : list value) :
  value_eqb (VTuple (a :: x)) (VTuple (b :: y)) = value_eqb a b && value_eqb (VTuple x) (VTuple y).
Proof. reflexivity. Qed.

Lemma value_eqb_er (a : value) : forall b, value_eqb a b = value_eqb (er a) (er b).
Proof.
  induction a as [a Ha|l IH|l IH|k l IH] using value_ind_l; intros b.
  - destruct a as [z|bo|by_| |l|l|k l|c s|c s|lf]; try contradiction.
    + change (er (VInt z)) with (VInt z). cbn [value_eqb]. rewrite as_int_er. destruct b; reflexivity.
    + change (er (VBool bo)) with (VBool bo). cbn [value_eqb]. rewrite as_int_er. destruct b; reflexivity.
    + destruct b; reflexivity.
    + destruct b; reflexivity.
    + destruct b; reflexivity.
    + destruct b; reflexivity.
    + destruct b; reflexivity.
  - destruct b as [z|bo|by_| |l'|l'|k' l'|c s|c s|lf]; try reflexivity.
    rewrite !er_list. revert l'. induction IH as [|a r Ha Hr IHr]; intros l'.
    + destruct l'; reflexivity.
    + destruct l' as [|b l']; [reflexivity|]. cbn [map]. rewrite !veq_list_cons, (Ha b), (IHr l'). reflexivity.
  - destruct b as [z|bo|by_| |l'|l'|k' l'|c s|c s|lf]; try reflexivity.
    rewrite !er_tuple. revert l'. induction IH as [|a r Ha Hr IHr]; intros l'.
    + destruct l'; reflexivity.
    + destruct l' as [|b l']; [reflexivity|]. cbn [map]. rewrite !veq_tuple_cons, (Ha b), (IHr l'). reflexivity.
  - rewrite er_dict. destruct b; reflexivity.
Qed.

Lemma value_eqb_sim (a a' b b' : value) : er a' = er a -> er b' = er b -> value_eqb a' b' = value_eqb a b.
Proof. intros Ea Eb. rewrite (value_eqb_er a' b'), (value_eqb_er a b), Ea, Eb. reflexivity. Qed.

Lemma apply_uop_er (o : uop) (a : value) : apply_uop o (er a) = apply_uop o a.
Proof.
  destruct o; cbn [apply_uop].
  - rewrite as_int_er. reflexivity.
  - rewrite as_int_er. reflexivity.
  - rewrite truth_er. reflexivity.
  - destruct a as [z|b|b| |l|l|k l|c s|c s|lf]; try reflexivity.
    + rewrite er_list, map_length. reflexivity.
    + rewrite er_tuple, map_length. reflexivity.
    + rewrite er_dict. reflexivity.
Qed.

Lemma apply_uop_sim (o : uop) (a a' : value) : er a' = er a -> apply_uop o a' = apply_uop o a.
Proof. intros E. rewrite <- (apply_uop_er o a'), <- (apply_uop_er o a), E. reflexivity. Qed.
