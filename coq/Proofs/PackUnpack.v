(* Proofs/PackUnpack.v -- C02 for the sequential sublanguage (Model/Consistent.v): a value that satisfies its own
   declaration serializes (generic loop) to a well-formed string that parses back to a packet with the same
   visible part, consuming exactly that string; bytes appended after it do not matter.  Stdlib only, no axioms.

   One hypothesis was added to the statement of notes/stmts/S7_pack_unpack.v: [ct_plain ct = true].  It says
   (a) every marker that is not kept in the value is a well-formed byte string, and
   (b) the size / count / when expressions do not use EAttr (getattr on a packet valued expression), nor the
       offset / raw length arguments (the latter already follows from expr_local, which `consistent` checks).
   Both parts are forced by a counterexample: see "refutations" at the end of the file. *)
From Coq Require Import ZArith List Bool Lia.
From Bisturi Require Import Base.Bytes Kernel.IntCodec Kernel.Align Kernel.BitsK Kernel.DataK Kernel.Frag
  Model.Value Model.Decl Model.Unpack Model.Pack Model.Init Model.Canon Model.Wf Model.Consistent
  Proofs.FragProofs Proofs.IntCodecProofs Proofs.DataProofs Proofs.RoundTrip.
Import ListNotations. Open Scope Z_scope.

(* the value restricted to the attributes the class declares: what unpack returns is compared on these *)
Definition visible (ct : ctab) (v : value) : cval := canon ct v.

(* ------------------------------------------------------------------------------------------ *)
(** * The added side condition                                                                 *)
(* ------------------------------------------------------------------------------------------ *)

(* no getattr on a computed packet, no offset, no raw length *)
Fixpoint expr_plain (e : expr) {struct e} : bool :=
  match e with
  | ELit _ => true
  | EField _ => true
  | EUn _ a => expr_plain a
  | EBin _ l r => expr_plain l && expr_plain r
  | EChoose s opts => expr_plain s && (fix go (l : list expr) : bool := match l with [] => true | a :: r => expr_plain a && go r end) opts
  | EChooseD s _ opts => expr_plain s && (fix go (l : list expr) : bool := match l with [] => true | a :: r => expr_plain a && go r end) opts
  | EIte c a b => expr_plain c && expr_plain a && expr_plain b
  | EAttr _ _ => false
  | EOffset | ERawLen => false
  end.
Definition leaf_plain (l : leaf) : bool :=
  match l with
  | LDataSized size _ _ => expr_plain size
  | LDataMarker m incl _ => incl || wf_bytesb m
  | _ => true
  end.
Definition elem_plain (e : elem) : bool := match e with ELeafE l => leaf_plain l | _ => true end.
Definition cfield_plain (f : cfield) : bool :=
  match f with
  | CElem _ e => elem_plain e
  | CSeq _ e count _ _ _ _ => elem_plain e && match count with Some ce => expr_plain ce | None => true end
  | COpt _ e w _ => elem_plain e && expr_plain w
  | _ => true
  end.
Definition class_plain (k : cclass) : bool := forallb cfield_plain (cc_fields k).
Definition ct_plain (ct : ctab) : bool := forallb (fun ck => class_plain (snd ck)) ct.

(* ------------------------------------------------------------------------------------------ *)
(** * Values up to the slots of the packets they contain                                       *)
(* ------------------------------------------------------------------------------------------ *)

(* forget what packets hold: a plain expression cannot look inside them *)
Fixpoint er (v : value) {struct v} : value :=
  match v with
  | VList l => VList ((fix go (l : list value) : list value := match l with [] => [] | a :: r => er a :: go r end) l)
  | VTuple l => VTuple ((fix go (l : list value) : list value := match l with [] => [] | a :: r => er a :: go r end) l)
  | VDict k l => VDict k ((fix go (l : list value) : list value := match l with [] => [] | a :: r => er a :: go r end) l)
  | VPkt c _ => VPkt c []
  | _ => v
  end.

Lemma er_list (l : list value) : er (VList l) = VList (map er l).
Proof. reflexivity. Qed.
Lemma er_tuple (l : list value) : er (VTuple l) = VTuple (map er l).
Proof. reflexivity. Qed.
Lemma er_dict (k l : list value) : er (VDict k l) = VDict k (map er l).
Proof. reflexivity. Qed.

Lemma value_ind_l (P : value -> Prop) :
  (forall v, match v with VList _ | VTuple _ | VDict _ _ => False | _ => True end -> P v) ->
  (forall l, Forall P l -> P (VList l)) -> (forall l, Forall P l -> P (VTuple l)) ->
  (forall k l, Forall P l -> P (VDict k l)) -> forall v, P v.
Proof.
  intros H0 HL HT HD. fix IH 1. intros v.
  destruct v as [z|b|b| |l|l|k l|c s|c s|lf].
  - apply H0; exact I.
  - apply H0; exact I.
  - apply H0; exact I.
  - apply H0; exact I.
  - apply HL. exact ((fix go (l : list value) : Forall P l :=
                        match l with [] => Forall_nil _ | a :: r => Forall_cons _ (IH a) (go r) end) l).
  - apply HT. exact ((fix go (l : list value) : Forall P l :=
                        match l with [] => Forall_nil _ | a :: r => Forall_cons _ (IH a) (go r) end) l).
  - apply HD. exact ((fix go (l : list value) : Forall P l :=
                        match l with [] => Forall_nil _ | a :: r => Forall_cons _ (IH a) (go r) end) l).
  - apply H0; exact I.
  - apply H0; exact I.
  - apply H0; exact I.
Qed.

Lemma as_int_er (a : value) : as_int (er a) = as_int a.
Proof. destruct a; reflexivity. Qed.
Lemma truth_er (a : value) : truth (er a) = truth a.
Proof.
  destruct a as [z|b|b| |l|l|k l|c s|c s|lf]; try reflexivity.
  - rewrite er_list. destruct l; reflexivity.
  - rewrite er_tuple. destruct l; reflexivity.
Qed.

Lemma veq_list_cons (a b : value) (x y : list value) :
  value_eqb (VList (a :: x)) (VList (b :: y)) = value_eqb a b && value_eqb (VList x) (VList y).
Proof. reflexivity. Qed.
Lemma veq_tuple_cons (a b : value) (x y : list value) :
  value_eqb (VTuple (a :: x)) (VTuple (b :: y)) = value_eqb a b && value_eqb (VTuple x) (VTuple y).
Proof. reflexivity. Qed.

Lemma value_eqb_er (a : value) : forall b, value_eqb a b = value_eqb (er a) (er b).
Proof.
  induction a as [a Ha|l IH|l IH|k l IH] using value_ind_l; intros b.
  - destruct a as [z|bo|by_| |l|l|k l|c s|c s|lf]; try contradiction.
    + change (er (VInt z)) with (VInt z). cbn [value_eqb]. rewrite as_int_er. destruct b; reflexivity.
    + change (er (VBool bo)) with (VBool bo). cbn [value_eqb]. rewrite as_int_er. destruct b; reflexivity.
    + destruct b; reflexivity.
    + destruct b; reflexivity.
    + destruct b; reflexivity.
    + destruct b; reflexivity.
    + destruct b; reflexivity.
  - destruct b as [z|bo|by_| |l'|l'|k' l'|c s|c s|lf]; try reflexivity.
    rewrite !er_list. revert l'. induction IH as [|a r Ha Hr IHr]; intros l'.
    + destruct l'; reflexivity.
    + destruct l' as [|b l']; [reflexivity|]. cbn [map]. rewrite !veq_list_cons, (Ha b), (IHr l'). reflexivity.
  - destruct b as [z|bo|by_| |l'|l'|k' l'|c s|c s|lf]; try reflexivity.
    rewrite !er_tuple. revert l'. induction IH as [|a r Ha Hr IHr]; intros l'.
    + destruct l'; reflexivity.
    + destruct l' as [|b l']; [reflexivity|]. cbn [map]. rewrite !veq_tuple_cons, (Ha b), (IHr l'). reflexivity.
  - rewrite er_dict. destruct b; reflexivity.
Qed.

Lemma value_eqb_sim (a a' b b' : value) : er a' = er a -> er b' = er b -> value_eqb a' b' = value_eqb a b.
Proof. intros Ea Eb. rewrite (value_eqb_er a' b'), (value_eqb_er a b), Ea, Eb. reflexivity. Qed.

Lemma apply_uop_er (o : uop) (a : value) : apply_uop o (er a) = apply_uop o a.
Proof.
  destruct o; cbn [apply_uop].
  - rewrite as_int_er. reflexivity.
  - rewrite as_int_er. reflexivity.
  - rewrite truth_er. reflexivity.
  - destruct a as [z|b|b| |l|l|k l|c s|c s|lf]; try reflexivity.
    + rewrite er_list, map_length. reflexivity.
    + rewrite er_tuple, map_length. reflexivity.
Qed.

Lemma apply_uop_sim (o : uop) (a a' : value) : er a' = er a -> apply_uop o a' = apply_uop o a.
Proof. intros E. rewrite <- (apply_uop_er o a'), <- (apply_uop_er o a), E. reflexivity. Qed.

Lemma py_index_sim (l l' : list value) (i : Z) (v : value) :
  map er l' = map er l -> py_index l i = Some v -> exists v', py_index l' i = Some v' /\ er v' = er v.
Proof.
  intros E. unfold py_index.
  assert (EL : length l' = length l). { rewrite <- (map_length er l'), E, map_length. reflexivity. }
  rewrite EL. destruct (_ && _); [|discriminate]. intros H.
  pose proof (nth_error_map er (Z.to_nat (if i <? 0 then i + Z.of_nat (length l) else i)) l') as M.
  rewrite E, nth_error_map, H in M. cbn [option_map] in M.
  destruct (nth_error l' _) as [v'|]; [|discriminate]. cbn [option_map] in M. injection M as M.
  exists v'. split; [reflexivity|congruence].
Qed.

Lemma dict_lookup_sim (ks : list value) : forall (vs vs' : list value) (k k' v : value),
  map er vs' = map er vs -> er k' = er k -> dict_lookup ks vs k = Some v ->
  exists v', dict_lookup ks vs' k' = Some v' /\ er v' = er v.
Proof.
  induction ks as [|k0 kr IH]; intros vs vs' k k' v E Ek; cbn [dict_lookup]; [discriminate|].
  destruct vs as [|w vr]; [discriminate|]. destruct vs' as [|w' vr']; [discriminate|].
  cbn [map] in E. injection E as Ew Er.
  rewrite (value_eqb_sim k k' k0 k0 Ek eq_refl). destruct (value_eqb k k0).
  - intros H. injection H as <-. exists w'. split; [reflexivity|exact Ew].
  - intros H. exact (IH vr vr' k k' v Er Ek H).
Qed.

Lemma getitem_sim (a a' b b' r : value) : er a' = er a -> er b' = er b ->
  apply_bop GetItem a b = Ok r -> exists r', apply_bop GetItem a' b' = Ok r' /\ er r' = er r.
Proof.
  intros Ea Eb. cbn [apply_bop].
  assert (Ei : as_int b' = as_int b). { rewrite <- (as_int_er b'), Eb, as_int_er. reflexivity. }
  destruct a as [z|bo|by_| |l|l|k l|c s|c s|lf]; try discriminate.
  - destruct a'; try discriminate Ea. cbn [er] in Ea. injection Ea as ->. rewrite Ei.
    destruct (as_int b); [|discriminate]. destruct (py_index by_ z); [|discriminate].
    intros H. injection H as <-. eexists. split; reflexivity.
  - destruct a' as [z|bo|by_| |l'|l'|k' l'|c s|c s|lf]; try discriminate Ea.
    rewrite !er_list in Ea. injection Ea as Ea. rewrite Ei.
    destruct (as_int b); [|discriminate]. destruct (py_index l z) as [w|] eqn:P; [|discriminate].
    intros H. injection H as <-. destruct (py_index_sim l l' z w Ea P) as (w' & P' & Ew).
    rewrite P'. exists w'. split; [reflexivity|exact Ew].
  - destruct a' as [z|bo|by_| |l'|l'|k' l'|c s|c s|lf]; try discriminate Ea.
    rewrite !er_tuple in Ea. injection Ea as Ea. rewrite Ei.
    destruct (as_int b); [|discriminate]. destruct (py_index l z) as [w|] eqn:P; [|discriminate].
    intros H. injection H as <-. destruct (py_index_sim l l' z w Ea P) as (w' & P' & Ew).
    rewrite P'. exists w'. split; [reflexivity|exact Ew].
  - destruct a' as [z|bo|by_| |l'|l'|k' l'|c s|c s|lf]; try discriminate Ea.
    rewrite !er_dict in Ea. injection Ea as -> Ea.
    destruct (dict_lookup k l b) as [w|] eqn:D; [|discriminate].
    intros H. injection H as <-. destruct (dict_lookup_sim k l l' b b' w Ea Eb D) as (w' & D' & Ew).
    rewrite D'. exists w'. split; [reflexivity|exact Ew].
Qed.

(* every other operator returns an integer or a boolean computed from integers, booleans and == *)
Lemma arith_er (o : bop) (a b : value) : o <> GetItem -> apply_bop o (er a) (er b) = apply_bop o a b.
Proof.
  intros Ho. destruct o; try congruence;
    try (cbn [apply_bop]; rewrite <- value_eqb_er; reflexivity);
    (destruct a; destruct b; reflexivity).
Qed.

Lemma apply_bop_sim (o : bop) (a a' b b' r : value) : er a' = er a -> er b' = er b ->
  apply_bop o a b = Ok r -> exists r', apply_bop o a' b' = Ok r' /\ er r' = er r.
Proof.
  intros Ea Eb H. destruct (match o with GetItem => true | _ => false end) eqn:G.
  - destruct o; try discriminate. exact (getitem_sim a a' b b' r Ea Eb H).
  - assert (Ho : o <> GetItem) by (intros ->; discriminate).
    exists r. split; [|reflexivity].
    rewrite <- (arith_er o a' b' Ho), Ea, Eb, (arith_er o a b Ho). exact H.
Qed.

(* ------------------------------------------------------------------------------------------ *)
(** * Parsed slots against the slots `consistent` walked                                        *)
(* ------------------------------------------------------------------------------------------ *)

(* the parsed value v' against the original v: same visible part, same up to the slots of packets *)
Definition vrel (ct : ctab) (v' v : value) : Prop := canon ct v' = canon ct v /\ er v' = er v.
Lemma vrel_refl (ct : ctab) (v : value) : vrel ct v v.
Proof. split; reflexivity. Qed.
(* every attribute sb defines is defined by su, with a related value *)
Definition ext (ct : ctab) (sb su : slots) : Prop :=
  forall f v, slot_get sb f = Some v -> exists v', slot_get su f = Some v' /\ vrel ct v' v.

Lemma ext_nil (ct : ctab) (su : slots) : ext ct [] su.
Proof. intros f v H. discriminate H. Qed.
Lemma ext_set (ct : ctab) (sb su : slots) (f : fname) (v v' : value) :
  ext ct sb su -> vrel ct v' v -> ext ct (slot_set sb f v) (slot_set su f v').
Proof.
  intros H Hv g w. rewrite !slot_get_set. destruct (fname_eqb g f).
  - intros E. injection E as <-. exists v'. split; [reflexivity|exact Hv].
  - apply H.
Qed.
(* the parser wrote only attributes sb does not define *)
Lemma ext_frame (ct : ctab) (sb su su' : slots) :
  ext ct sb su -> (forall f, slot_get sb f <> None -> slot_get su' f = slot_get su f) -> ext ct sb su'.
Proof.
  intros H Hf g w E. rewrite Hf by congruence. exact (H g w E).
Qed.

Lemma eval_sim (ct : ctab) (cx1 cx2 : ectx) : ext ct (e_slots cx1) (e_slots cx2) ->
  forall e v, expr_plain e = true -> eval cx1 e = Ok v -> exists v', eval cx2 e = Ok v' /\ er v' = er v.
Proof.
  intros Hx. fix IH 1. intros e. destruct e as [w|f|o a|o l r|sel opts|sel keys opts|c a b|a f| |]; intros v Hs He.
  - exists v. split; [exact He|reflexivity].
  - cbn [eval] in *. destruct (slot_get (e_slots cx1) f) as [x|] eqn:G; [|discriminate].
    injection He as <-. destruct (Hx f x G) as (x' & G' & _ & Ex). rewrite G'. exists x'. split; [reflexivity|exact Ex].
  - cbn [expr_plain] in Hs. cbn [eval] in *.
    destruct (eval cx1 a) as [x|] eqn:E1; [|discriminate]. cbn [bind] in He.
    destruct (IH a x Hs E1) as (x' & E1' & Ex). rewrite E1'. cbn [bind].
    exists v. split; [|reflexivity]. rewrite (apply_uop_sim o x x' Ex). exact He.
  - cbn [expr_plain] in Hs. apply andb_true_iff in Hs as [Hs1 Hs2]. cbn [eval] in *.
    destruct (eval cx1 l) as [x|] eqn:E1; [|discriminate]. cbn [bind] in He.
    destruct (eval cx1 r) as [y|] eqn:E2; [|discriminate]. cbn [bind] in He.
    destruct (IH l x Hs1 E1) as (x' & E1' & Ex). destruct (IH r y Hs2 E2) as (y' & E2' & Ey).
    rewrite E1'. cbn [bind]. rewrite E2'. cbn [bind]. exact (apply_bop_sim o x x' y y' v Ex Ey He).
  - cbn [expr_plain] in Hs. apply andb_true_iff in Hs as [Hs1 Hs2]. cbn [eval] in *.
    destruct (eval cx1 sel) as [x|] eqn:E1; [|discriminate]. cbn [bind] in He.
    destruct (IH sel x Hs1 E1) as (x' & E1' & Ex). rewrite E1'. cbn [bind].
    match type of He with bind ?G _ = _ => destruct G as [vs|] eqn:E2; [|discriminate] end. cbn [bind] in He.
    match goal with |- exists _, bind ?G _ = _ /\ _ => assert (E3 : exists vs', G = Ok vs' /\ map er vs' = map er vs) end.
    { clear He. revert vs Hs2 E2. induction opts as [|a r IHr]; intros vs Hs2 E2.
      - injection E2 as <-. exists []. split; reflexivity.
      - apply andb_true_iff in Hs2 as [Ha Hr].
        destruct (eval cx1 a) as [y|] eqn:Ea; [|discriminate]. cbn [bind] in E2.
        match type of E2 with bind ?G _ = _ => destruct G as [ys|] eqn:Er; [|discriminate] end.
        cbn [bind] in E2. injection E2 as <-.
        destruct (IH a y Ha Ea) as (y' & Ea' & Ey). destruct (IHr ys Hr eq_refl) as (ys' & Er' & Eys).
        rewrite Ea'. cbn [bind]. rewrite Er'. cbn [bind]. exists (y' :: ys'). split; [reflexivity|].
        cbn [map]. rewrite Ey, Eys. reflexivity. }
    destruct E3 as (vs' & E3 & Evs). rewrite E3. cbn [bind].
    apply (apply_bop_sim GetItem (VTuple vs) (VTuple vs') x x' v); [|exact Ex|exact He].
    rewrite !er_tuple, Evs. reflexivity.
  - cbn [expr_plain] in Hs. apply andb_true_iff in Hs as [Hs1 Hs2]. cbn [eval] in *.
    destruct (eval cx1 sel) as [x|] eqn:E1; [|discriminate]. cbn [bind] in He.
    destruct (IH sel x Hs1 E1) as (x' & E1' & Ex). rewrite E1'. cbn [bind].
    match type of He with bind ?G _ = _ => destruct G as [vs|] eqn:E2; [|discriminate] end. cbn [bind] in He.
    match goal with |- exists _, bind ?G _ = _ /\ _ => assert (E3 : exists vs', G = Ok vs' /\ map er vs' = map er vs) end.
    { clear He. revert vs Hs2 E2. induction opts as [|a r IHr]; intros vs Hs2 E2.
      - injection E2 as <-. exists []. split; reflexivity.
      - apply andb_true_iff in Hs2 as [Ha Hr].
        destruct (eval cx1 a) as [y|] eqn:Ea; [|discriminate]. cbn [bind] in E2.
        match type of E2 with bind ?G _ = _ => destruct G as [ys|] eqn:Er; [|discriminate] end.
        cbn [bind] in E2. injection E2 as <-.
        destruct (IH a y Ha Ea) as (y' & Ea' & Ey). destruct (IHr ys Hr eq_refl) as (ys' & Er' & Eys).
        rewrite Ea'. cbn [bind]. rewrite Er'. cbn [bind]. exists (y' :: ys'). split; [reflexivity|].
        cbn [map]. rewrite Ey, Eys. reflexivity. }
    destruct E3 as (vs' & E3 & Evs). rewrite E3. cbn [bind].
    apply (apply_bop_sim GetItem (VDict keys vs) (VDict keys vs') x x' v); [|exact Ex|exact He].
    rewrite !er_dict, Evs. reflexivity.
  - cbn [expr_plain] in Hs. apply andb_true_iff in Hs as [Hs12 Hs3]. apply andb_true_iff in Hs12 as [Hs1 Hs2].
    cbn [eval] in *.
    destruct (eval cx1 c) as [x|] eqn:E1; [|discriminate]. cbn [bind] in He.
    destruct (eval cx1 a) as [y|] eqn:E2; [|discriminate]. cbn [bind] in He.
    destruct (eval cx1 b) as [z|] eqn:E3; [|discriminate]. cbn [bind] in He. injection He as <-.
    destruct (IH c x Hs1 E1) as (x' & E1' & Ex). destruct (IH a y Hs2 E2) as (y' & E2' & Ey).
    destruct (IH b z Hs3 E3) as (z' & E3' & Ez).
    rewrite E1'. cbn [bind]. rewrite E2'. cbn [bind]. rewrite E3'. cbn [bind].
    eexists. split; [reflexivity|].
    rewrite <- (truth_er x'), Ex, truth_er. destruct (truth x); assumption.
  - discriminate.
  - discriminate.
  - discriminate.
Qed.

Lemma eval_int_sim (ct : ctab) (cx1 cx2 : ectx) (e : expr) (z : Z) : ext ct (e_slots cx1) (e_slots cx2) ->
  expr_plain e = true -> eval_int cx1 e = Ok z -> eval_int cx2 e = Ok z.
Proof.
  intros Hx Hp. unfold eval_int. destruct (eval cx1 e) as [v|] eqn:E; [|discriminate]. cbn [bind].
  destruct (eval_sim ct cx1 cx2 Hx e v Hp E) as (v' & E' & Ev). rewrite E'. cbn [bind].
  rewrite <- (as_int_er v'), Ev, as_int_er. intros H; exact H.
Qed.
Lemma eval_truth_sim (ct : ctab) (cx1 cx2 : ectx) (e : expr) (v : value) : ext ct (e_slots cx1) (e_slots cx2) ->
  expr_plain e = true -> eval cx1 e = Ok v -> exists v', eval cx2 e = Ok v' /\ truth v' = truth v.
Proof.
  intros Hx Hp E. destruct (eval_sim ct cx1 cx2 Hx e v Hp E) as (v' & E' & Ev). exists v'. split; [exact E'|].
  rewrite <- (truth_er v'), Ev, truth_er. reflexivity.
Qed.

(* ------------------------------------------------------------------------------------------ *)
(** * The output buffer when every write is an append: a contiguous block                       *)
(* ------------------------------------------------------------------------------------------ *)

Definition block (fr : frs) (B : bytes) : Prop :=
  Inv fr /\ NonNeg fr /\ cur fr = blen B /\ extent (frags fr) = blen B /\
  forall q, cell (frags fr) q = if (0 <=? q) && (q <? blen B) then nth_error B (Z.to_nat q) else None.

Lemma block_empty : block empty [].
Proof.
  destruct inv_empty as [HI HN]. split; [exact HI|]. split; [exact HN|]. split; [reflexivity|]. split; [reflexivity|].
  intros q. cbn [empty frags cell]. rewrite DataProofs.blen_nil.
  destruct (Z.leb_spec 0 q), (Z.ltb_spec q 0); cbn [andb]; try reflexivity. lia.
Qed.

Lemma block_append (fr : frs) (B b : bytes) : block fr B ->
  exists fr', append fr b = Frag.Ok fr' /\ block fr' (B ++ b).
Proof.
  intros (HI & HN & Hcur & Hext & Hcell). unfold append.
  pose proof (DataProofs.blen_nonneg B) as HB. pose proof (DataProofs.blen_nonneg b) as Hb.
  destruct (insert fr (cur fr) b) as [fr'| |] eqn:E.
  - exists fr'. split; [reflexivity|].
    destruct (insert_ok fr (cur fr) b fr' HI E) as (HI' & Hcur' & Hcell' & Hext').
    split; [exact HI'|]. split; [apply (insert_nonneg fr (cur fr) b fr' HN); [lia|exact E]|].
    rewrite DataProofs.blen_app. split; [lia|]. split; [lia|].
    intros q. rewrite Hcell', Hcell, Hcur.
    destruct (Z.leb_spec (blen B) q), (Z.ltb_spec q (blen B + blen b)), (Z.leb_spec 0 q), (Z.ltb_spec q (blen B)),
      (Z.ltb_spec q (blen B + blen b)); cbn [andb]; try lia; try reflexivity.
    + rewrite nth_error_app2 by (unfold blen in *; lia). f_equal. unfold blen in *. lia.
    + rewrite nth_error_app1 by (unfold blen in *; lia). reflexivity.
  - exfalso. assert (Hne : b <> []). { intros ->. rewrite insert_empty_eq in E. discriminate. }
    apply (insert_collision_iff fr (cur fr) b HI Hne) in E. destruct E as (q & Hq & Hc).
    apply Hc. rewrite Hcell. destruct (Z.leb_spec 0 q), (Z.ltb_spec q (blen B)); cbn [andb]; try reflexivity. lia.
  - exfalso. exact (insert_no_crash fr (cur fr) b HI E).
Qed.

Lemma nth_error_ext_eq {A : Type} : forall l1 l2 : list A, length l1 = length l2 ->
  (forall n, (n < length l1)%nat -> nth_error l1 n = nth_error l2 n) -> l1 = l2.
Proof.
  induction l1 as [|a l1 IH]; intros [|b l2] HL H; try discriminate HL; [reflexivity|].
  cbn [length] in *. f_equal.
  - assert (H0 := H 0%nat ltac:(lia)). cbn [nth_error] in H0. congruence.
  - apply IH; [lia|]. intros n Hn. exact (H (S n) ltac:(lia)).
Qed.

Lemma block_tobytes (fr : frs) (B : bytes) : block fr B -> tobytes fr = B.
Proof.
  intros (HI & HN & Hcur & Hext & Hcell). destruct (tobytes_spec fr HI HN) as [HL Hn].
  apply nth_error_ext_eq.
  - unfold blen in *. lia.
  - intros n Hl. assert (Hq : 0 <= Z.of_nat n < extent (frags fr)) by (unfold blen in *; lia).
    pose proof (Hn (Z.of_nat n) Hq) as Hq'. rewrite Nat2Z.id in Hq'. rewrite Hq', Hcell.
    destruct (Z.leb_spec 0 (Z.of_nat n)), (Z.ltb_spec (Z.of_nat n) (blen B)); cbn [andb]; try lia.
    rewrite Nat2Z.id. destruct (nth_error B n) eqn:G; [reflexivity|].
    apply nth_error_None in G. unfold blen in *. lia.
Qed.

Lemma set_cur_same (fr : frs) : set_cur fr (cur fr) = fr.
Proof. destruct fr; reflexivity. Qed.
Lemma seq_align_1 (o : Z) : seq_align 1 o = Some o.
Proof. unfold seq_align, pymod. change (1 =? 0) with false. cbv iota. rewrite !Z.mod_1_r. f_equal. lia. Qed.

Lemma emit_block (sp : slots) (fr : frs) (B b : bytes) : block fr B ->
  exists fr', emit sp fr b = KOk sp fr' /\ block fr' (B ++ b).
Proof.
  intros H. destruct (block_append fr B b H) as (fr' & E & H'). exists fr'. unfold emit. rewrite E. split; [reflexivity|exact H'].
Qed.

(* ------------------------------------------------------------------------------------------ *)
(** * Slices of a string with a known middle                                                   *)
(* ------------------------------------------------------------------------------------------ *)

Lemma slice_from_mid (pre x : bytes) : slice_from (pre ++ x) (blen pre) = x.
Proof. unfold slice_from, blen. rewrite Nat2Z.id. apply skipn_len_app. Qed.
Lemma slice_mid (pre x post : bytes) : slice (pre ++ x ++ post) (blen pre) (blen pre + blen x) = x.
Proof.
  unfold slice. replace (Z.to_nat (blen pre)) with (length pre) by (unfold blen; lia).
  replace (Z.to_nat (blen pre + blen x - blen pre)) with (length x) by (unfold blen; lia).
  rewrite skipn_len_app. apply firstn_len_app.
Qed.

Lemma wf_bytesb_ok (b : bytes) : wf_bytesb b = true -> wf_bytes b.
Proof.
  unfold wf_bytesb, wf_bytes. rewrite forallb_forall, Forall_forall. intros H x Hx. specialize (H x Hx).
  unfold wf_byteb in H. apply andb_true_iff in H as [A C]. unfold wf_byte. lia.
Qed.

(* the marker, first found at the end of the body, is still first found there when more bytes follow *)
Lemma find_excl_ext (b m post : bytes) : find (b ++ m) m = Some (blen b) -> find (b ++ m ++ post) m = Some (blen b).
Proof.
  intros F. destruct (find_least _ _ _ F) as [_ Hmin].
  destruct (find_complete (b ++ m ++ post) m (blen b) (occurs_at_mid m b post)) as (i & Fi & Hi).
  rewrite Fi. f_equal. destruct (find_least _ _ _ Fi) as [Ho _].
  destruct (Z_lt_ge_dec i (blen b)) as [Hlt|Hge]; [|lia]. exfalso.
  assert (H0 : 0 <= i) by (destruct Ho; lia).
  apply (Hmin i); [lia|]. rewrite app_assoc in Ho. apply (occurs_at_app_l m (b ++ m) post i Ho).
  rewrite DataProofs.blen_app. lia.
Qed.
Lemma find_incl_ext (b m post : bytes) (c : Z) : find b m = Some c -> find (b ++ post) m = Some c.
Proof.
  intros F. destruct (find_least _ _ _ F) as [Hoc Hmin].
  destruct (find_complete (b ++ post) m c (occurs_at_app_r m b post c Hoc)) as (i & Fi & Hi).
  rewrite Fi. f_equal. destruct (find_least _ _ _ Fi) as [Ho _].
  destruct (Z_lt_ge_dec i c) as [Hlt|Hge]; [|lia]. exfalso.
  assert (H0 : 0 <= i) by (destruct Ho; lia).
  apply (Hmin i); [lia|]. apply (occurs_at_app_l m b post i Ho). destruct Hoc as (_ & Hc & _). lia.
Qed.

(* ------------------------------------------------------------------------------------------ *)
(** * Leaves                                                                                   *)
(* ------------------------------------------------------------------------------------------ *)

Lemma window_all (raw : bytes) (off : Z) (sbl : option Z) :
  match sbl with Some l => l =? 0 | None => true end = true -> window raw off sbl = slice_from raw off.
Proof. unfold window. destruct sbl as [l|]; [|reflexivity]. intros ->. reflexivity. Qed.

Section Leaf.
Variables (host : bool) (dl : dstate) (ct : ctab).

(* what a consistent piece of a value does: `enc` is appended by pack, and parsed back in any context *)
Lemma leaf_ok (cf : lconf) (c : cid) (name : fname) (l : leaf) (before : slots) (v : value) :
  leaf_seq_ok l = true -> leaf_plain l = true -> leaf_consistent cf l before v = true ->
  exists enc, wf_bytes enc /\
    (forall sp fr B, slot_get sp name = Some v -> block fr B ->
       exists fr', pack_leaf host dl cf c name l sp fr = KOk sp fr' /\ block fr' (B ++ enc)) /\
    (forall pre rest su, ext ct before su ->
       exists t, unpack_leaf host (pre ++ enc ++ rest) cf c name l su (blen pre) = Ok (v, blen pre + blen enc, t)).
Proof.
  intros Hok Hpl Hc. destruct l as [n signed fe d|size ic d|m incl d|r incl d|d]; cbn [leaf_seq_ok] in Hok; try discriminate.
  - (* Int *)
    destruct v as [z| | | | | | | | |]; cbn [leaf_consistent] in Hc; try discriminate.
    apply andb_true_iff in Hc as [H1 H2]. apply Z.leb_le in Hok, H1. apply Z.ltb_lt in H2.
    destruct (decode_encode n signed (is_bigendian (resolve_endianness fe (lc_endianness cf)) host) z Hok (conj H1 H2))
      as (bs & Eenc & Hlen & Hwf & Edec).
    exists bs. split; [exact Hwf|]. split.
    + intros sp fr B Hs Hb. unfold pack_leaf. rewrite Hs. cbn [as_int]. rewrite Eenc. exact (emit_block sp fr B bs Hb).
    + intros pre rest su _. cbn [unpack_leaf]. unfold int_unpack. subst n. rewrite slice_mid, Edec.
      eexists. reflexivity.
  - (* sized Data *)
    destruct v as [| |b| | | | | | |]; cbn [leaf_consistent] in Hc; try discriminate.
    apply andb_true_iff in Hc as [Hwf Hn]. apply wf_bytesb_ok in Hwf.
    destruct (eval_int (cctx before) size) as [n|] eqn:En; [|discriminate]. apply Z.eqb_eq in Hn. subst n.
    exists b. split; [exact Hwf|]. split.
    + intros sp fr B Hs Hb. unfold pack_leaf. rewrite Hs. unfold data_pack. rewrite app_nil_r. exact (emit_block sp fr B b Hb).
    + intros pre rest su Hx. cbn [unpack_leaf]. cbn [leaf_plain] in Hpl.
      rewrite (eval_int_sim ct (cctx before) (mkctx (pre ++ b ++ rest) su (blen pre)) size (blen b) Hx Hpl En). cbn [bind].
      pose proof (DataProofs.blen_nonneg pre). pose proof (DataProofs.blen_nonneg b). pose proof (DataProofs.blen_nonneg rest).
      rewrite data_sized_complete by (rewrite ?DataProofs.blen_app; lia). rewrite slice_mid. eexists. reflexivity.
  - (* marker delimited Data *)
    destruct v as [| |b| | | | | | |]; cbn [leaf_consistent] in Hc; try discriminate.
    apply andb_true_iff in Hc as [Hc Hf]. apply andb_true_iff in Hc as [Hwf Hsbl]. apply wf_bytesb_ok in Hwf.
    destruct incl.
    + destruct (find b m) as [c0|] eqn:F; [|discriminate]. apply Z.eqb_eq in Hf.
      exists b. split; [exact Hwf|]. split.
      * intros sp fr B Hs Hb. unfold pack_leaf. rewrite Hs. unfold data_pack. rewrite app_nil_r. exact (emit_block sp fr B b Hb).
      * intros pre rest su _. cbn [unpack_leaf].
        assert (Fw : find (window (pre ++ b ++ rest) (blen pre) (lc_sbl cf)) m = Some c0).
        { rewrite (window_all _ _ _ Hsbl), slice_from_mid. exact (find_incl_ext b m rest c0 F). }
        rewrite (data_marker_complete _ _ _ m true c0 Fw).
        replace (blen pre + (c0 + blen m)) with (blen pre + blen b) by lia.
        replace (blen pre + c0 + blen m) with (blen pre + blen b) by lia.
        rewrite slice_mid. eexists. reflexivity.
    + destruct (find (b ++ m) m) as [c0|] eqn:F; [|discriminate]. apply Z.eqb_eq in Hf. subst c0.
      cbn [leaf_plain orb] in Hpl. apply wf_bytesb_ok in Hpl.
      exists (b ++ m). split; [apply Forall_app; split; assumption|]. split.
      * intros sp fr B Hs Hb. unfold pack_leaf. rewrite Hs. unfold data_pack. exact (emit_block sp fr B (b ++ m) Hb).
      * intros pre rest su _. cbn [unpack_leaf]. rewrite <- (app_assoc b m rest).
        assert (Fw : find (window (pre ++ b ++ m ++ rest) (blen pre) (lc_sbl cf)) m = Some (blen b)).
        { rewrite (window_all _ _ _ Hsbl), slice_from_mid. exact (find_excl_ext b m rest F). }
        rewrite (data_marker_complete _ _ _ m false (blen b) Fw). rewrite slice_mid.
        rewrite DataProofs.blen_app. replace (blen pre + blen b + blen m) with (blen pre + (blen b + blen m)) by lia.
        eexists. reflexivity.
Qed.
End Leaf.

(* ------------------------------------------------------------------------------------------ *)
(** * canon on packets and lists                                                               *)
(* ------------------------------------------------------------------------------------------ *)

Lemma canon_list (ct : ctab) (l : list value) : canon ct (VList l) = CList (map (canon ct) l).
Proof. reflexivity. Qed.

Lemma canon_pkt (ct : ctab) (c : cid) (s : slots) (k : cclass) : ct_get ct c = Some k ->
  canon ct (VPkt c s) = CPkt c (map (fun f => (f, option_map (canon ct) (slot_get s f))) (field_names k)).
Proof.
  intros H. cbn [canon]. rewrite H. f_equal. apply map_ext. intros f. f_equal.
  induction s as [|[g x] r IH]; [reflexivity|]. cbn [cslot_get slot_get].
  destruct (fname_eqb f g); [reflexivity|exact IH].
Qed.

Lemma canon_pkt_eq (ct : ctab) (c : cid) (s s' : slots) (k : cclass) : ct_get ct c = Some k ->
  (forall f, In f (field_names k) -> exists v v', slot_get s f = Some v /\ slot_get s' f = Some v' /\ canon ct v' = canon ct v) ->
  canon ct (VPkt c s') = canon ct (VPkt c s).
Proof.
  intros H Hf. rewrite (canon_pkt ct c s k H), (canon_pkt ct c s' k H). f_equal. apply map_ext_in. intros f Hin.
  destruct (Hf f Hin) as (v & v' & E & E' & Ec). rewrite E, E'. cbn [option_map]. rewrite Ec. reflexivity.
Qed.

Lemma vrel_list (ct : ctab) (l' l : list value) : Forall2 (vrel ct) l' l -> vrel ct (VList l') (VList l).
Proof.
  intros H. split.
  - rewrite !canon_list. f_equal. induction H as [|a b x y [Hc _] _ IH]; [reflexivity|]. cbn [map]. rewrite Hc, IH. reflexivity.
  - rewrite !er_list. f_equal. induction H as [|a b x y [_ He] _ IH]; [reflexivity|]. cbn [map]. rewrite He, IH. reflexivity.
Qed.

Definition only_fn (s : slots) : Prop := forall f v, slot_get s f = Some v -> exists j, f = FN j.
Definition sub (sb s : slots) : Prop := forall f v, slot_get sb f = Some v -> slot_get s f = Some v.

Lemma only_fn_set (s : slots) (i : Z) (v : value) : only_fn s -> only_fn (slot_set s (FN i) v).
Proof.
  intros H f w. rewrite slot_get_set. destruct (fname_eqb_spec f (FN i)) as [->|_]; [intros _; exists i; reflexivity|apply H].
Qed.
Lemma sub_set (sb s : slots) (f : fname) (v : value) : sub sb s -> slot_get s f = Some v -> sub (slot_set sb f v) s.
Proof.
  intros H Hv g w. rewrite slot_get_set. destruct (fname_eqb_spec g f) as [->|_]; [intros E; injection E as <-; exact Hv|apply H].
Qed.

(* the parser set attribute FN i to v' and otherwise touched only hidden attributes and FN i *)
Lemma ext_update (ct : ctab) (sb su su' : slots) (i : Z) (v v' : value) :
  ext ct sb su -> only_fn sb -> (forall j, j <> i -> slot_get su' (FN j) = slot_get su (FN j)) ->
  slot_get su' (FN i) = Some v' -> vrel ct v' v -> ext ct (slot_set sb (FN i) v) su'.
Proof.
  intros Hx Hfn Hfr Hi Hv f w. rewrite slot_get_set. destruct (fname_eqb_spec f (FN i)) as [->|Hne].
  - intros E. injection E as <-. exists v'. split; [exact Hi|exact Hv].
  - intros E. destruct (Hfn f w E) as [j ->]. rewrite Hfr by congruence. exact (Hx (FN j) w E).
Qed.

Lemma elem_static_before (rc : cid -> slots -> bool) (cf : lconf) (e : elem) (b1 b2 : slots) (v : value) :
  elem_static e = true -> elem_consistent rc cf e b1 v = elem_consistent rc cf e b2 v.
Proof.
  destruct e as [l|c' p|sel d]; cbn [elem_static]; try discriminate; [|reflexivity].
  destruct l as [n sg fe d|size ic d|m incl d|r incl d|d]; try discriminate; try reflexivity.
  destruct size as [w| | | | | | | | |]; try discriminate. destruct w; try discriminate. reflexivity.
Qed.

(* ------------------------------------------------------------------------------------------ *)
(** * One level of nesting, the levels below being given                                       *)
(* ------------------------------------------------------------------------------------------ *)

(* a packet value of class c' : it has an encoding that pack appends and the parser reads back *)
Definition pkt_ok (ct : ctab) (rec_pack : cid -> slots -> frs -> qres) (rec_unpack : bytes -> cid -> Z -> pres)
                  (c' : cid) (s' : slots) : Prop :=
  exists enc, wf_bytes enc /\
    (forall fr B, block fr B -> exists v fr', rec_pack c' s' fr = QOk v fr' /\ block fr' (B ++ enc)) /\
    (forall pre rest, exists s'' t,
       rec_unpack (pre ++ enc ++ rest) c' (blen pre) = POk (VPkt c' s'') (blen pre + blen enc) t /\
       canon ct (VPkt c' s'') = canon ct (VPkt c' s')).

Section Level.
Variables (host : bool) (dl : dstate) (ct : ctab).
Variable rec_pack : cid -> slots -> frs -> qres.
Variable rec_unpack : bytes -> cid -> Z -> pres.
Variable rec_cons : cid -> slots -> bool.
Variable lf : nat.
Hypothesis HREC : forall c' s', rec_cons c' s' = true -> pkt_ok ct rec_pack rec_unpack c' s'.

Lemma elem_ok (cf : lconf) (c : cid) (name : fname) (e : elem) (before : slots) (v : value) :
  elem_plain e = true -> elem_consistent rec_cons cf e before v = true ->
  exists enc, wf_bytes enc /\
    (forall sp fr B, slot_get sp name = Some v -> block fr B ->
       exists fr', pack_elem host dl rec_pack cf c name e sp fr = KOk sp fr' /\ block fr' (B ++ enc)) /\
    (forall pre rest su, ext ct before su ->
       exists v' t, unpack_elem host (pre ++ enc ++ rest) (rec_unpack (pre ++ enc ++ rest)) cf c name e su (blen pre)
                    = FOk (slot_set su name v') (blen pre + blen enc) t /\ vrel ct v' v).
Proof.
  intros Hpl Hc. destruct e as [l|c' proto|sel d].
  - cbn [elem_consistent] in Hc. apply andb_true_iff in Hc as [Hok Hc].
    destruct (leaf_ok host dl ct cf c name l before v Hok Hpl Hc) as (enc & Hwf & Hp & Hu).
    exists enc. split; [exact Hwf|]. split.
    + intros sp fr B Hs Hb. cbn [pack_elem]. exact (Hp sp fr B Hs Hb).
    + intros pre rest su Hx. destruct (Hu pre rest su Hx) as (t & E). cbn [unpack_elem]. rewrite E.
      exists v, t. split; [reflexivity|apply vrel_refl].
  - destruct v as [| | | | | | |c'' s'| |]; cbn [elem_consistent] in Hc; try discriminate.
    apply andb_true_iff in Hc as [Hcc Hc]. apply Z.eqb_eq in Hcc. subst c''.
    destruct (HREC c' s' Hc) as (enc & Hwf & Hp & Hu).
    exists enc. split; [exact Hwf|]. split.
    + intros sp fr B Hs Hb. cbn [pack_elem]. rewrite Hs. destruct (Hp fr B Hb) as (v & fr' & E & Hb'). rewrite E.
      exists fr'. split; [reflexivity|exact Hb'].
    + intros pre rest su _. destruct (Hu pre rest) as (s'' & t & E & Hcan). cbn [unpack_elem]. rewrite E.
      exists (VPkt c' s''), t. split; [reflexivity|]. split; [exact Hcan|reflexivity].
  - destruct v; discriminate Hc.
Qed.

Lemma seq_ok (cf : lconf) (c : cid) (i : Z) (e : elem) : elem_plain e = true -> forall l : list value,
  forallb (elem_consistent rec_cons cf e []) l = true ->
  exists enc, wf_bytes enc /\
    (forall sp fr B, block fr B ->
       exists sp' fr', pack_seq host dl rec_pack cf c i e 1 l sp fr = KOk sp' fr' /\ block fr' (B ++ enc) /\
                       (forall j, slot_get sp' (FN j) = slot_get sp (FN j))) /\
    (forall pre rest su l0 t0, slot_get su (FN i) = Some (VList l0) ->
       exists su' l' t,
         unpack_count host (pre ++ enc ++ rest) (rec_unpack (pre ++ enc ++ rest)) cf c i e 1 (length l) su (blen pre) t0
         = FOk su' (blen pre + blen enc) t /\
         slot_get su' (FN i) = Some (VList (l0 ++ l')) /\ Forall2 (vrel ct) l' l /\
         (forall j, j <> i -> slot_get su' (FN j) = slot_get su (FN j))).
Proof.
  intros Hpl. induction l as [|v r IH]; intros Hall.
  - exists []. split; [constructor|]. split.
    + intros sp fr B Hb. exists sp, fr. cbn [pack_seq]. rewrite app_nil_r. auto.
    + intros pre rest su l0 t0 Hl. exists su, [], t0. cbn [unpack_count length]. rewrite DataProofs.blen_nil, Z.add_0_r, app_nil_r.
      split; [reflexivity|]. split; [exact Hl|]. split; [constructor|reflexivity].
  - cbn [forallb] in Hall. apply andb_true_iff in Hall as [Hv Hr].
    destruct (elem_ok cf c (FSeqElem i) e [] v Hpl Hv) as (e1 & Hwf1 & Hp1 & Hu1).
    destruct (IH Hr) as (e2 & Hwf2 & Hp2 & Hu2).
    exists (e1 ++ e2). split; [apply Forall_app; split; assumption|]. split.
    + intros sp fr B Hb. cbn [pack_seq]. rewrite seq_align_1, set_cur_same.
      destruct (Hp1 (slot_set sp (FSeqElem i) v) fr B (slot_get_set_same _ _ _) Hb) as (fr1 & E1 & Hb1). rewrite E1.
      destruct (Hp2 (slot_set sp (FSeqElem i) v) fr1 (B ++ e1) Hb1) as (sp' & fr2 & E2 & Hb2 & Hfn). rewrite E2.
      exists sp', fr2. split; [reflexivity|]. split; [rewrite app_assoc; exact Hb2|].
      intros j. rewrite Hfn. apply slot_get_set_other. discriminate.
    + intros pre rest su l0 t0 Hl. cbn [unpack_count length]. rewrite seq_align_1.
      rewrite <- (app_assoc e1 e2 rest).
      destruct (Hu1 pre (e2 ++ rest) su (ext_nil ct su)) as (v' & t1 & E1 & Hv'). rewrite E1.
      assert (Hev : elem_value (slot_set su (FSeqElem i) v') (FSeqElem i) = v').
      { unfold elem_value. rewrite slot_get_set_same. reflexivity. }
      rewrite Hev. unfold append_to at 1. rewrite slot_get_set_other by discriminate. rewrite Hl.
      set (su2 := slot_set (slot_set su (FSeqElem i) v') (FN i) (VList (l0 ++ [v']))).
      assert (Hl2 : slot_get su2 (FN i) = Some (VList (l0 ++ [v']))) by apply slot_get_set_same.
      destruct (Hu2 (pre ++ e1) rest su2 (l0 ++ [v']) (t0 ++ t1) Hl2) as (su' & l' & t & E2 & Hl' & Hrel & Hfr).
      rewrite <- (app_assoc pre e1 (e2 ++ rest)) in E2. rewrite DataProofs.blen_app in E2. rewrite E2.
      exists su', (v' :: l'), t. split; [rewrite DataProofs.blen_app; f_equal; lia|].
      split; [rewrite Hl', <- app_assoc; reflexivity|]. split; [constructor; assumption|].
      intros j Hj. rewrite (Hfr j Hj). unfold su2. rewrite slot_get_set_other by congruence.
      apply slot_get_set_other. discriminate.
Qed.

Lemma pack_opt_some (cf : lconf) (c : cid) (i : Z) (e : elem) (w : expr) (d : value) (sp : slots) (fr : frs)
      (ipp : Z) (v : value) :
  slot_get sp (FN i) = Some v -> v <> VNone ->
  pack_field host dl rec_pack cf c (COpt i e w d) sp fr ipp =
  pack_elem host dl rec_pack cf c (FOptElem i) e (slot_set sp (FOptElem i) v) fr.
Proof.
  intros G Hv. cbn [pack_field]. rewrite G. destruct v; try reflexivity. congruence.
Qed.

Lemma field_ok (cf : lconf) (c : cid) (f : cfield) (before s : slots) (v : value) :
  cfield_plain f = true -> field_consistent rec_cons cf f before s = true -> slot_get s (cf_name f) = Some v ->
  (exists i, cf_name f = FN i) /\
  exists enc, wf_bytes enc /\
    (forall sp fr B ipp, (forall j, slot_get sp (FN j) = slot_get s (FN j)) -> block fr B ->
       exists sp' fr', pack_field host dl rec_pack cf c f sp fr ipp = KOk sp' fr' /\ block fr' (B ++ enc) /\
                       (forall j, slot_get sp' (FN j) = slot_get sp (FN j))) /\
    (forall pre rest su ipp, ext ct before su -> only_fn before ->
       exists su' t,
         unpack_field host (pre ++ enc ++ rest) (rec_unpack (pre ++ enc ++ rest)) lf cf c f su (blen pre) ipp
         = FOk su' (blen pre + blen enc) t /\ ext ct (slot_set before (cf_name f) v) su').
Proof.
  intros Hpl Hc Hv. destruct f as [i arg rf al|i e|i fi la r0 sh mk nb d|i e count until when d al|i e w d|i];
    cbn [field_consistent] in Hc; try discriminate; cbn [cf_name] in *.
  - (* one element *)
    split; [exists i; reflexivity|]. rewrite Hv in Hc. cbn [cfield_plain] in Hpl.
    destruct (elem_ok cf c (FN i) e before v Hpl Hc) as (enc & Hwf & Hp & Hu).
    exists enc. split; [exact Hwf|]. split.
    + intros sp fr B ipp Hag Hb. cbn [pack_field]. rewrite <- (Hag i) in Hv.
      destruct (Hp sp fr B Hv Hb) as (fr' & E & Hb'). exists sp, fr'. auto.
    + intros pre rest su ipp Hx _. cbn [unpack_field]. destruct (Hu pre rest su Hx) as (v' & t & E & Hv').
      exists (slot_set su (FN i) v'), t. split; [exact E|]. apply ext_set; assumption.
  - (* counted sequence *)
    split; [exists i; reflexivity|].
    destruct count as [ce|]; [|discriminate]. destruct until; [discriminate|]. destruct when; [discriminate|].
    apply andb_true_iff in Hc as [Hc Hm]. apply andb_true_iff in Hc as [Hc Hst]. apply andb_true_iff in Hc as [Hal Hloc].
    apply Z.eqb_eq in Hal. subst al. rewrite Hv in Hm.
    destruct v as [| | | |l| | | | |]; try discriminate.
    destruct (eval_int (cctx (slot_set before (FN i) (VList []))) ce) as [n|] eqn:En; [|discriminate].
    apply andb_true_iff in Hm as [Hlen Hall]. apply Z.eqb_eq in Hlen.
    cbn [cfield_plain] in Hpl. apply andb_true_iff in Hpl as [Hple Hplc].
    assert (Hall0 : forallb (elem_consistent rec_cons cf e []) l = true).
    { rewrite forallb_forall in *. intros x Hx. rewrite (elem_static_before rec_cons cf e [] before x Hst). exact (Hall x Hx). }
    destruct (seq_ok cf c i e Hple l Hall0) as (enc & Hwf & Hp & Hu).
    exists enc. split; [exact Hwf|]. split.
    + intros sp fr B ipp Hag Hb. cbn [pack_field]. rewrite (Hag i), Hv. exact (Hp sp fr B Hb).
    + intros pre rest su ipp Hx Hfn.
      assert (Hx0 : ext ct (slot_set before (FN i) (VList [])) (slot_set su (FN i) (VList []))).
      { apply ext_set; [exact Hx|apply vrel_refl]. }
      assert (En' : eval_int (mkctx (pre ++ enc ++ rest) (slot_set su (FN i) (VList [])) (blen pre)) ce = Ok n).
      { exact (eval_int_sim ct (cctx (slot_set before (FN i) (VList [])))
               (mkctx (pre ++ enc ++ rest) (slot_set su (FN i) (VList [])) (blen pre)) ce n Hx0 Hplc En). }
      cbn [unpack_field]. rewrite En'.
      replace (Z.to_nat n) with (length l) by lia.
      destruct (Hu pre rest (slot_set su (FN i) (VList [])) [] [] (slot_get_set_same _ _ _)) as (su' & l' & t & E & Hl' & Hrel & Hfr).
      rewrite E. exists su', t. split; [reflexivity|].
      apply (ext_update ct before su su' i (VList l) (VList l') Hx Hfn).
      * intros j Hj. rewrite (Hfr j Hj). apply slot_get_set_other. congruence.
      * exact Hl'.
      * apply vrel_list. exact Hrel.
  - (* optional *)
    split; [exists i; reflexivity|].
    apply andb_true_iff in Hc as [Hloc Hm]. rewrite Hv in Hm.
    cbn [cfield_plain] in Hpl. apply andb_true_iff in Hpl as [Hple Hplw].
    destruct (eval (cctx before) w) as [cv|] eqn:Ew; [|destruct v; discriminate].
    assert (Hcase : (v = VNone /\ truth cv = false) \/
                    (v <> VNone /\ truth cv = true /\ elem_consistent rec_cons cf e before v = true)).
    { destruct v; try (right; apply andb_true_iff in Hm as [A C]; split; [discriminate|split; assumption]).
      left. split; [reflexivity|]. apply negb_true_iff. exact Hm. }
    destruct Hcase as [[-> Htr]|(Hne & Htr & He)].
    + exists []. split; [constructor|]. split.
      * intros sp fr B ipp Hag Hb. cbn [pack_field]. rewrite (Hag i), Hv. exists sp, fr. rewrite app_nil_r. auto.
      * intros pre rest su ipp Hx Hfn. cbn [unpack_field].
        destruct (eval_truth_sim ct (cctx before) (mkctx (pre ++ [] ++ rest) su (blen pre)) w cv Hx Hplw Ew) as (cv' & Ew' & Ht).
        rewrite Ew', Ht, Htr. exists (slot_set su (FN i) VNone), []. rewrite DataProofs.blen_nil, Z.add_0_r.
        split; [reflexivity|]. apply ext_set; [exact Hx|apply vrel_refl].
    + destruct (elem_ok cf c (FOptElem i) e before v Hple He) as (enc & Hwf & Hp & Hu).
      exists enc. split; [exact Hwf|]. split.
      * intros sp fr B ipp Hag Hb. rewrite <- (Hag i) in Hv. rewrite (pack_opt_some cf c i e w d sp fr ipp v Hv Hne).
        destruct (Hp (slot_set sp (FOptElem i) v) fr B (slot_get_set_same _ _ _) Hb) as (fr' & E & Hb').
        exists (slot_set sp (FOptElem i) v), fr'. split; [exact E|]. split; [exact Hb'|].
        intros j. apply slot_get_set_other. discriminate.
      * intros pre rest su ipp Hx Hfn. cbn [unpack_field].
        destruct (eval_truth_sim ct (cctx before) (mkctx (pre ++ enc ++ rest) su (blen pre)) w cv Hx Hplw Ew) as (cv' & Ew' & Ht).
        rewrite Ew', Ht, Htr. destruct (Hu pre rest su Hx) as (v' & t & E & Hv'). rewrite E.
        unfold elem_value. rewrite slot_get_set_same.
        eexists. exists t. split; [reflexivity|].
        apply (ext_update ct before su _ i v v' Hx Hfn).
        -- intros j Hj. rewrite slot_get_set_other by congruence. apply slot_get_set_other. discriminate.
        -- apply slot_get_set_same.
        -- exact Hv'.
Qed.

Lemma fields_ok (cf : lconf) (c : cid) : forall (fs : list cfield) (before s : slots),
  forallb cfield_plain fs = true -> fields_consistent rec_cons cf fs before s = true -> only_fn before -> sub before s ->
  exists enc, wf_bytes enc /\
    (forall sp fr B ipp, (forall j, slot_get sp (FN j) = slot_get s (FN j)) -> block fr B ->
       exists v fr', pack_fields host dl rec_pack cf c fs sp fr ipp = QOk v fr' /\ block fr' (B ++ enc)) /\
    (forall pre rest su ipp t0, ext ct before su ->
       exists su' t,
         unpack_fields host (pre ++ enc ++ rest) (rec_unpack (pre ++ enc ++ rest)) lf cf c fs su (blen pre) ipp t0
         = POk (VPkt c su') (blen pre + blen enc) t /\ ext ct before su' /\
         forall f, In f (map cf_name fs) -> exists v v', slot_get s f = Some v /\ slot_get su' f = Some v' /\ vrel ct v' v).
Proof.
  induction fs as [|f r IH]; intros before s Hpl Hc Hfn Hsub.
  - exists []. split; [constructor|]. split.
    + intros sp fr B ipp _ Hb. cbn [pack_fields]. exists (VPkt c sp), fr. rewrite app_nil_r. auto.
    + intros pre rest su ipp t0 Hx. cbn [unpack_fields]. exists su, t0. rewrite DataProofs.blen_nil, Z.add_0_r.
      split; [reflexivity|]. split; [exact Hx|]. intros f [].
  - cbn [forallb] in Hpl. apply andb_true_iff in Hpl as [Hplf Hplr].
    cbn [fields_consistent] in Hc. apply andb_true_iff in Hc as [Hcf Hcr].
    destruct (slot_get s (cf_name f)) as [v|] eqn:Hv; [|discriminate].
    destruct (field_ok cf c f before s v Hplf Hcf Hv) as ([i Hname] & e1 & Hwf1 & Hp1 & Hu1).
    assert (Hfn1 : only_fn (slot_set before (cf_name f) v)). { rewrite Hname. apply only_fn_set. exact Hfn. }
    assert (Hsub1 : sub (slot_set before (cf_name f) v) s). { apply sub_set; assumption. }
    destruct (IH (slot_set before (cf_name f) v) s Hplr Hcr Hfn1 Hsub1) as (e2 & Hwf2 & Hp2 & Hu2).
    exists (e1 ++ e2). split; [apply Forall_app; split; assumption|]. split.
    + intros sp fr B ipp Hag Hb. cbn [pack_fields].
      destruct (Hp1 sp fr B ipp Hag Hb) as (sp1 & fr1 & E1 & Hb1 & Hk). rewrite E1.
      assert (Hag1 : forall j, slot_get sp1 (FN j) = slot_get s (FN j)). { intros j. rewrite Hk. apply Hag. }
      destruct (Hp2 sp1 fr1 (B ++ e1) ipp Hag1 Hb1) as (v2 & fr2 & E2 & Hb2). rewrite E2.
      exists v2, fr2. split; [reflexivity|]. rewrite app_assoc. exact Hb2.
    + intros pre rest su ipp t0 Hx. cbn [unpack_fields]. rewrite <- (app_assoc e1 e2 rest).
      destruct (Hu1 pre (e2 ++ rest) su ipp Hx Hfn) as (su1 & t1 & E1 & Hx1). rewrite E1.
      destruct (Hu2 (pre ++ e1) rest su1 ipp (t0 ++ t1) Hx1) as (su' & t & E2 & Hx2 & Hall).
      rewrite <- (app_assoc pre e1 (e2 ++ rest)) in E2. rewrite DataProofs.blen_app in E2. rewrite E2.
      exists su', t. split; [rewrite DataProofs.blen_app; f_equal; lia|].
      assert (Hxb : ext ct before su').
      { intros g w Eg. apply (Hx2 g w). rewrite slot_get_set. destruct (fname_eqb_spec g (cf_name f)) as [->|_]; [|exact Eg].
        pose proof (Hsub _ _ Eg) as Es. congruence. }
      split; [exact Hxb|].
      intros g [<-|Hin]; [|exact (Hall g Hin)].
      destruct (Hx2 (cf_name f) v (slot_get_set_same _ _ _)) as (v' & Ev' & Hrel). exists v, v'. auto.
Qed.
End Level.

(* ------------------------------------------------------------------------------------------ *)
(** * All levels: induction on the fuel                                                        *)
(* ------------------------------------------------------------------------------------------ *)

Theorem pkt_all (host : bool) (dl : dstate) (ct : ctab) : ct_plain ct = true -> forall fuel c s,
  consistent fuel ct c s = true ->
  pkt_ok ct (pack_pkt fuel host dl ct) (fun raw => unpack_pkt fuel host ct raw) c s.
Proof.
  intros Hpl. induction fuel as [|fuel IH]; intros c s Hc; [discriminate|].
  cbn [consistent] in Hc. destruct (ct_get ct c) as [k|] eqn:Hk; [|discriminate].
  pose proof (ct_get_forallb class_plain ct c k Hpl Hk) as Hkp. unfold class_plain in Hkp.
  assert (Hfn0 : only_fn []). { intros f v E. discriminate E. }
  assert (Hsub0 : sub [] s). { intros f v E. discriminate E. }
  destruct (fields_ok host dl ct (pack_pkt fuel host dl ct) (fun raw => unpack_pkt fuel host ct raw) (consistent fuel ct) fuel IH
              (cc_conf k) c (cc_fields k) [] s Hkp Hc Hfn0 Hsub0) as (enc & Hwf & Hp & Hu).
  exists enc. split; [exact Hwf|]. split.
  - intros fr B Hb. cbn [pack_pkt]. rewrite Hk. exact (Hp s fr B (cur fr) (fun j => eq_refl) Hb).
  - intros pre rest. cbn [unpack_pkt]. rewrite Hk.
    destruct (Hu pre rest [] (blen pre) [] (ext_nil ct [])) as (su' & t & E & _ & Hall).
    exists su', t. split; [exact E|]. apply (canon_pkt_eq ct c s su' k Hk).
    intros f Hin. destruct (Hall f Hin) as (v & v' & A & B & Hc' & _). exists v, v'. auto.
Qed.

(* ------------------------------------------------------------------------------------------ *)
(** * C02 for the sequential sublanguage                                                       *)
(* ------------------------------------------------------------------------------------------ *)

(* the statement of notes/stmts/S7_pack_unpack.v with the added hypothesis ct_plain (see the refutations below);
   ct_distinct and wf_bytes rest are kept from the statement although the proof does not need them *)
Theorem pack_unpack_sequential : forall fuel host dl ct c s rest,
  ct_distinct ct = true -> ct_plain ct = true -> consistent fuel ct c s = true -> wf_bytes rest ->
  exists out v', pack_top fuel host dl ct c s = PBytes out v' /\ wf_bytes out /\
    exists s' t, unpack_pkt fuel host ct (out ++ rest) c 0 = POk (VPkt c s') (blen out) t /\
                 visible ct (VPkt c s') = visible ct (VPkt c s).
Proof.
  intros fuel host dl ct c s rest _ Hpl Hc _.
  destruct (pkt_all host dl ct Hpl fuel c s Hc) as (enc & Hwf & Hp & Hu).
  destruct (Hp empty [] block_empty) as (v' & fr' & E & Hb). cbn [app] in Hb.
  exists enc, v'. split.
  - unfold pack_top. rewrite E. rewrite (block_tobytes fr' enc Hb). reflexivity.
  - split; [exact Hwf|]. destruct (Hu [] rest) as (s' & t & E' & Hcan). cbn [app] in E'.
    rewrite DataProofs.blen_nil, Z.add_0_l in E'. exists s', t. split; [exact E'|exact Hcan].
Qed.

(* ------------------------------------------------------------------------------------------ *)
(** * Refutations: the statement without ct_plain is false                                     *)
(* ------------------------------------------------------------------------------------------ *)

Definition S7_as_stated : Prop := forall fuel host dl ct c s rest,
  ct_distinct ct = true -> consistent fuel ct c s = true -> wf_bytes rest ->
  exists out v', pack_top fuel host dl ct c s = PBytes out v' /\ wf_bytes out /\
    exists s' t, unpack_pkt fuel host ct (out ++ rest) c 0 = POk (VPkt c s') (blen out) t /\
                 visible ct (VPkt c s') = visible ct (VPkt c s).

Definition pu_mk (fs : list cfield) : cclass :=
  {| cc_conf := empty_conf; cc_gen_pack := false; cc_gen_unpack := false; cc_vectorize := false; cc_fields := fs |}.

(* (a) leaf_consistent never looks at the bytes of a marker that is not kept: the output is not a byte string *)
Definition pu_ct1 : ctab := [(0, pu_mk [CElem 0 (ELeafE (LDataMarker [300] false VNone))])].
Definition pu_s1 : slots := [(FN 0, VBytes [])].
Example refute_marker : ct_plain pu_ct1 = false /\ ~ S7_as_stated.
Proof.
  split; [reflexivity|]. intros H.
  destruct (H 3%nat true no_delims pu_ct1 0 pu_s1 [] eq_refl eq_refl (Forall_nil _)) as (out & v' & E & Hwf & _).
  vm_compute in E. injection E as <- _. inversion Hwf as [|x l Hx _]. unfold wf_byte in Hx. lia.
Qed.

(* (b) EAttr reads an attribute of the nested packet value that its class does not declare: the re-parsed nested
   packet does not have it (the same happens with the hidden attributes, which only some packet values hold) *)
Definition pu_ct2 : ctab :=
  [(0, pu_mk [CElem 0 (ERefPkt 1 []); CElem 1 (ELeafE (LDataSized (EAttr (EField (FN 0)) (FN 7)) false VNone))]);
   (1, pu_mk [CElem 0 (ELeafE (LInt 1 false None VNone))])].
Definition pu_s2 : slots := [(FN 0, VPkt 1 [(FN 0, VInt 1); (FN 7, VInt 2)]); (FN 1, VBytes [65; 66])].
Example refute_attr : ct_plain pu_ct2 = false /\ ~ S7_as_stated.
Proof.
  split; [reflexivity|]. intros H.
  destruct (H 3%nat true no_delims pu_ct2 0 pu_s2 [] eq_refl eq_refl (Forall_nil _)) as (out & v' & E & _ & s' & t & E' & _).
  vm_compute in E. injection E as <- _. vm_compute in E'. discriminate E'.
Qed.

(* ------------------------------------------------------------------------------------------ *)
(** * Non-vacuity: a declaration and a value with every construct of the sublanguage           *)
(* ------------------------------------------------------------------------------------------ *)

Definition pu_ct3 : ctab :=
  [(0, pu_mk [CElem 0 (ELeafE (LInt 1 false None VNone));
              CElem 1 (ELeafE (LDataSized (EField (FN 0)) false VNone));
              CSeq 2 (ERefPkt 1 []) (Some (EField (FN 0))) None None (VList []) 1;
              COpt 3 (ELeafE (LInt 2 true (Some ELittle) VNone)) (EBin Gt (EUn Len (EField (FN 2))) (ELit (VInt 1))) VNone;
              COpt 4 (ELeafE (LInt 1 false None VNone)) (EBin Eq (EField (FN 0)) (ELit (VInt 0))) VNone;
              CElem 5 (ELeafE (LDataMarker [13; 10] true VNone));
              CElem 6 (ERefPkt 1 [])]);
   (1, pu_mk [CElem 0 (ELeafE (LInt 1 false None VNone));
              CElem 1 (ELeafE (LDataMarker [0] false VNone))])].
Definition pu_inner (a : Z) (b : bytes) : value := VPkt 1 [(FN 1, VBytes b); (FN 0, VInt a); (FOptElem 9, VNone)].
Definition pu_s3 : slots :=
  [(FN 0, VInt 2); (FN 1, VBytes [7; 8]); (FN 2, VList [pu_inner 1 [65]; pu_inner 2 []]); (FN 3, VInt (-2));
   (FN 4, VNone); (FN 5, VBytes [72; 13; 10]); (FN 6, pu_inner 3 [66; 67])].
Example pu_ex_hyps : ct_distinct pu_ct3 = true /\ ct_plain pu_ct3 = true /\ consistent 3 pu_ct3 0 pu_s3 = true.
Proof. repeat split; reflexivity. Qed.
Example pu_ex_run :
  pack_top 3 true no_delims pu_ct3 0 pu_s3
  = PBytes [2; 7; 8; 1; 65; 0; 2; 0; 254; 255; 72; 13; 10; 3; 66; 67; 0]
           (VPkt 0 (pu_s3 ++ [(FSeqElem 2, pu_inner 2 []); (FOptElem 3, VInt (-2))])) /\
  match unpack_pkt 3 true pu_ct3 ([2; 7; 8; 1; 65; 0; 2; 0; 254; 255; 72; 13; 10; 3; 66; 67; 0] ++ [9; 9]) 0 0 with
  | POk v o _ => o = 17 /\ visible pu_ct3 v = visible pu_ct3 (VPkt 0 pu_s3) /\ v <> VPkt 0 pu_s3
  | _ => False
  end.
Proof. split; [vm_compute; reflexivity|]. vm_compute. repeat split. discriminate. Qed.

Print Assumptions pack_unpack_sequential.
Print Assumptions refute_marker.
Print Assumptions refute_attr.
