(* Proofs/WorldProofs.v -- what packets could share (C13, Model/World.v): for declarations whose regex delimiters
   are kept in the value, parsing never writes the class-level delimiter state and serializing never reads it;
   serializing leaves every declared field as it was; serializing twice gives the same bytes (for declarations
   whose pack-time expressions read declared fields only: the statement without that restriction is refuted
   below).  Stdlib only, no axioms. *)
From Coq Require Import ZArith List Bool Lia.
From Bisturi Require Import Base.Bytes Kernel.IntCodec Kernel.Align Kernel.BitsK Kernel.DataK Kernel.Frag
  Model.Value Model.Decl Model.Unpack Model.Pack Model.Codegen Model.World.
From Bisturi Require Proofs.CodegenEquiv.
Import ListNotations. Open Scope Z_scope.

Definition slots_keep (s : slots) : Prop := forallb (fun p => value_keeps (snd p)) s = true.

(* ------------------------------------------------------------------------------------------ *)
(** * Values whose Field literals keep their delimiter                                         *)
(* ------------------------------------------------------------------------------------------ *)

Notation vk := value_keeps.
Notation fn_same := CodegenEquiv.fn_same.

Lemma vk_list_iff (l : list value) : vk (VList l) = true <-> Forall (fun a => vk a = true) l.
Proof.
  induction l as [|a r IH].
  - split; [constructor|reflexivity].
  - change (vk (VList (a :: r))) with (vk a && vk (VList r)). rewrite andb_true_iff, IH. split.
    + intros [A B]. constructor; assumption.
    + intros H. inversion H. split; assumption.
Qed.
Lemma vk_tuple_iff (l : list value) : vk (VTuple l) = true <-> Forall (fun a => vk a = true) l.
Proof.
  induction l as [|a r IH].
  - split; [constructor|reflexivity].
  - change (vk (VTuple (a :: r))) with (vk a && vk (VTuple r)). rewrite andb_true_iff, IH. split.
    + intros [A B]. constructor; assumption.
    + intros H. inversion H. split; assumption.
Qed.
Lemma vk_dict_iff (k l : list value) : vk (VDict k l) = true <-> Forall (fun a => vk a = true) l.
Proof.
  induction l as [|a r IH].
  - split; [constructor|reflexivity].
  - change (vk (VDict k (a :: r))) with (vk a && vk (VDict k r)). rewrite andb_true_iff, IH. split.
    + intros [A B]. constructor; assumption.
    + intros H. inversion H. split; assumption.
Qed.
Lemma vk_pkt_iff (c : cid) (s : slots) : vk (VPkt c s) = true <-> slots_keep s.
Proof.
  unfold slots_keep. induction s as [|[f a] r IH].
  - split; reflexivity.
  - change (vk (VPkt c ((f, a) :: r))) with (vk a && vk (VPkt c r)). cbn [forallb snd].
    rewrite !andb_true_iff, IH. tauto.
Qed.
Lemma vk_leaf (l : leaf) : vk (VLeaf l) = true -> leaf_keeps l = true.
Proof. destruct l; intros H; exact H. Qed.

Lemma slots_keep_nil : slots_keep [].
Proof. reflexivity. Qed.
Lemma slots_keep_get (s : slots) (f : fname) (v : value) : slots_keep s -> slot_get s f = Some v -> vk v = true.
Proof.
  unfold slots_keep. induction s as [|[g w] r IH]; cbn [slot_get forallb snd]; intros H E; [discriminate|].
  apply andb_true_iff in H as [Hw Hr]. destruct (fname_eqb f g).
  - injection E as <-. exact Hw.
  - exact (IH Hr E).
Qed.
Lemma slots_keep_set (s : slots) (f : fname) (v : value) : slots_keep s -> vk v = true -> slots_keep (slot_set s f v).
Proof.
  unfold slots_keep. induction s as [|[g w] r IH]; cbn [slot_set forallb snd]; intros H Hv.
  - rewrite Hv. reflexivity.
  - apply andb_true_iff in H as [Hw Hr]. destruct (fname_eqb f g); cbn [forallb snd]; apply andb_true_iff; auto.
Qed.

Lemma int_bop_vk (o : bop) (x y : Z) (v : value) : int_bop o x y = Ok v -> vk v = true.
Proof.
  destruct o; cbn [int_bop]; try (intros H; injection H as <-; reflexivity); try discriminate.
  - destruct (y =? 0); [discriminate|]. intros H; injection H as <-; reflexivity.
  - destruct (y =? 0); [discriminate|]. intros H; injection H as <-; reflexivity.
  - destruct (y <? 0); [discriminate|]. intros H; injection H as <-; reflexivity.
  - destruct (y <? 0); [discriminate|]. intros H; injection H as <-; reflexivity.
Qed.

Lemma py_index_in {A : Type} (l : list A) (i : Z) (v : A) : py_index l i = Some v -> In v l.
Proof. unfold py_index. destruct (_ && _); [|discriminate]. apply nth_error_In. Qed.
Lemma dict_lookup_in (ks vs : list value) (k v : value) : dict_lookup ks vs k = Some v -> In v vs.
Proof.
  revert vs. induction ks as [|k' kr IH]; intros vs; cbn [dict_lookup]; [discriminate|].
  destruct vs as [|w vr]; [discriminate|]. destruct (value_eqb k k').
  - intros H; injection H as <-. left; reflexivity.
  - intros H. right. exact (IH vr H).
Qed.

Lemma getitem_vk (a b v : value) : vk a = true -> apply_bop GetItem a b = Ok v -> vk v = true.
Proof.
  intros Ha. cbn [apply_bop]. destruct a as [| |l| |l|l|ks vs| | |]; try discriminate.
  - destruct (as_int b); [|discriminate]. destruct (py_index l z); [|discriminate].
    intros H; injection H as <-; reflexivity.
  - destruct (as_int b); [|discriminate]. destruct (py_index l z) as [w|] eqn:E; [|discriminate].
    intros H; injection H as <-. apply vk_list_iff in Ha. rewrite Forall_forall in Ha.
    apply Ha. exact (py_index_in _ _ _ E).
  - destruct (as_int b); [|discriminate]. destruct (py_index l z) as [w|] eqn:E; [|discriminate].
    intros H; injection H as <-. apply vk_tuple_iff in Ha. rewrite Forall_forall in Ha.
    apply Ha. exact (py_index_in _ _ _ E).
  - destruct (dict_lookup ks vs b) as [w|] eqn:E; [|discriminate].
    intros H; injection H as <-. apply vk_dict_iff in Ha. rewrite Forall_forall in Ha.
    apply Ha. exact (dict_lookup_in _ _ _ _ E).
Qed.

Lemma apply_bop_vk (o : bop) (a b v : value) : vk a = true -> apply_bop o a b = Ok v -> vk v = true.
Proof.
  intros Ha. destruct o; try exact (getitem_vk a b v Ha);
    try (cbn [apply_bop]; intros H; injection H as <-; reflexivity);
    cbn [apply_bop];
    (destruct a, b; cbn [as_int bool_bop];
     try discriminate; try apply int_bop_vk; try (intros H; injection H as <-; reflexivity)).
Qed.

Lemma apply_uop_vk (o : uop) (a v : value) : apply_uop o a = Ok v -> vk v = true.
Proof.
  destruct o; cbn [apply_uop].
  - destruct (as_int a); [|discriminate]. intros H; injection H as <-; reflexivity.
  - destruct (as_int a); [|discriminate]. intros H; injection H as <-; reflexivity.
  - intros H; injection H as <-; reflexivity.
  - destruct a; try discriminate; intros H; injection H as <-; reflexivity.
Qed.

(* the analogue of RoundTrip.eval_vlr *)
Lemma eval_keeps (cx : ectx) : slots_keep (e_slots cx) ->
  forall e v, expr_keeps e = true -> eval cx e = Ok v -> vk v = true.
Proof.
  intros Hall. fix IH 1. intros e. destruct e as [w|f|o a|o l r|sel opts|sel keys opts|c a b|a f| |]; intros v Hs He.
  - cbn [eval] in He. injection He as <-. exact Hs.
  - cbn [eval] in He. destruct (slot_get (e_slots cx) f) as [x|] eqn:G; [|discriminate].
    injection He as <-. exact (slots_keep_get _ _ _ Hall G).
  - cbn [eval] in He. destruct (eval cx a) as [x|]; [|discriminate]. exact (apply_uop_vk _ _ _ He).
  - cbn [expr_keeps] in Hs. apply andb_true_iff in Hs as [Hs1 Hs2]. cbn [eval] in He.
    destruct (eval cx l) as [x|] eqn:E1; [|discriminate]. cbn [bind] in He.
    destruct (eval cx r) as [y|] eqn:E2; [|discriminate]. cbn [bind] in He.
    exact (apply_bop_vk _ _ _ _ (IH l x Hs1 E1) He).
  - cbn [expr_keeps] in Hs. apply andb_true_iff in Hs as [Hs1 Hs2]. cbn [eval] in He.
    destruct (eval cx sel) as [x|] eqn:E1; [|discriminate]. cbn [bind] in He.
    match type of He with bind ?G _ = _ => destruct G as [vs|] eqn:E2; [|discriminate] end.
    cbn [bind] in He. refine (getitem_vk _ _ _ _ He). apply vk_tuple_iff.
    clear He. revert vs Hs2 E2. induction opts as [|a r IHr]; intros vs Hs2 E2.
    + injection E2 as <-. constructor.
    + apply andb_true_iff in Hs2 as [Ha Hr].
      destruct (eval cx a) as [y|] eqn:Ea; [|discriminate]. cbn [bind] in E2.
      match type of E2 with bind ?G _ = _ => destruct G as [ys|] eqn:Er; [|discriminate] end.
      cbn [bind] in E2. injection E2 as <-. constructor; [exact (IH a y Ha Ea)|exact (IHr ys Hr eq_refl)].
  - cbn [expr_keeps] in Hs. apply andb_true_iff in Hs as [Hs1 Hs2]. cbn [eval] in He.
    destruct (eval cx sel) as [x|] eqn:E1; [|discriminate]. cbn [bind] in He.
    match type of He with bind ?G _ = _ => destruct G as [vs|] eqn:E2; [|discriminate] end.
    cbn [bind] in He. refine (getitem_vk _ _ _ _ He). apply vk_dict_iff.
    clear He. revert vs Hs2 E2. induction opts as [|a r IHr]; intros vs Hs2 E2.
    + injection E2 as <-. constructor.
    + apply andb_true_iff in Hs2 as [Ha Hr].
      destruct (eval cx a) as [y|] eqn:Ea; [|discriminate]. cbn [bind] in E2.
      match type of E2 with bind ?G _ = _ => destruct G as [ys|] eqn:Er; [|discriminate] end.
      cbn [bind] in E2. injection E2 as <-. constructor; [exact (IH a y Ha Ea)|exact (IHr ys Hr eq_refl)].
  - cbn [expr_keeps] in Hs. apply andb_true_iff in Hs as [Hs12 Hs3]. apply andb_true_iff in Hs12 as [Hs1 Hs2].
    cbn [eval] in He.
    destruct (eval cx c) as [x|] eqn:E1; [|discriminate]. cbn [bind] in He.
    destruct (eval cx a) as [y|] eqn:E2; [|discriminate]. cbn [bind] in He.
    destruct (eval cx b) as [z|] eqn:E3; [|discriminate]. cbn [bind] in He. injection He as <-.
    destruct (truth x); [exact (IH a y Hs2 E2)|exact (IH b z Hs3 E3)].
  - cbn [expr_keeps] in Hs. cbn [eval] in He.
    destruct (eval cx a) as [x|] eqn:E1; [|discriminate]. cbn [bind] in He.
    pose proof (IH a x Hs E1) as Hx. destruct x; try discriminate.
    destruct (slot_get slots f) as [w|] eqn:G; [|discriminate]. injection He as <-.
    apply vk_pkt_iff in Hx. exact (slots_keep_get _ _ _ Hx G).
  - cbn [eval] in He. destruct (e_offset cx); [|discriminate]. injection He as <-. reflexivity.
  - cbn [eval] in He. destruct (e_rawlen cx); [|discriminate]. injection He as <-. reflexivity.
Qed.

(* ------------------------------------------------------------------------------------------ *)
(** * Class tables and generated blocks                                                        *)
(* ------------------------------------------------------------------------------------------ *)

Lemma ct_get_fields (Q : cfield -> bool) : forall (ct : ctab) (c : cid) (k : cclass),
  forallb (fun ck => forallb Q (cc_fields (snd ck))) ct = true -> ct_get ct c = Some k ->
  forallb Q (cc_fields k) = true.
Proof.
  induction ct as [|[c' k'] r IH]; intros c k H E; cbn [ct_get] in E; [discriminate|].
  cbn [forallb snd] in H. apply andb_true_iff in H as [H1 H2]. destruct (c =? c').
  - injection E as <-. exact H1.
  - exact (IH c k H2 E).
Qed.

Definition loops_sat (Q : cfield -> bool) (b : block) : Prop :=
  match b with BLoop f => Q f = true | BStruct _ _ => True end.

Lemma gen_blocks_loops (Q : cfield -> bool) (hb : bool) (cf : lconf) (vec : bool) : forall fs cur,
  forallb Q fs = true -> Forall (loops_sat Q) (gen_blocks hb cf vec fs cur).
Proof.
  induction fs as [|f r IH]; intros cur H; cbn [gen_blocks].
  - destruct cur as [[b ms]|]; repeat constructor.
  - cbn [forallb] in H. apply andb_true_iff in H as [Hf Hr].
    assert (Hflush : Forall (loops_sat Q) (match cur with Some (b, ms) => [BStruct b (rev ms)] | None => [] end)).
    { destruct cur as [[b ms]|]; repeat constructor. }
    destruct (fixity_of hb cf f) as [m| |].
    + destruct cur as [[b ms]|].
      * destruct (vec && Bool.eqb b (sm_big m)); [apply IH; exact Hr|].
        apply Forall_app. split; [exact Hflush|apply IH; exact Hr].
      * apply IH; exact Hr.
    + apply Forall_app. split; [exact Hflush|]. constructor; [exact Hf|apply IH; exact Hr].
    + apply Forall_app. split; [exact Hflush|]. constructor; [exact Hf|apply IH; exact Hr].
Qed.

(* ------------------------------------------------------------------------------------------ *)
(** * Unpack logs no TDelim                                                                    *)
(* ------------------------------------------------------------------------------------------ *)

Lemma no_delim_nil : no_delim [].
Proof. constructor. Qed.
Lemma no_delim_app (a b : trace) : no_delim a -> no_delim b -> no_delim (a ++ b).
Proof. intros A B. apply Forall_app. split; assumption. Qed.
Lemma no_delim_chunk (o : Z) (b : bytes) : no_delim [TChunk o b].
Proof. constructor; [exact I|constructor]. Qed.

Section UnpackWrites.
Variable host : bool.
Variable raw : bytes.
Variable rec_unpack : cid -> Z -> pres.
Variable lf : nat.
Hypothesis Hrec : forall c o v e t, rec_unpack c o = POk v e t -> vk v = true /\ no_delim t.

Lemma unpack_leaf_nd (cf : lconf) (c : cid) (name : fname) (l : leaf) (s : slots) (off : Z) (v : value) (o' : Z) (t : trace) :
  leaf_keeps l = true -> unpack_leaf host raw cf c name l s off = Ok (v, o', t) -> vk v = true /\ no_delim t.
Proof.
  intros Hl. destruct l as [n sg fe d|size ic d|m incl d|r incl d|d]; cbn [unpack_leaf].
  - destruct (int_unpack _ _ _ _ _) as [[x o1]|]; [|discriminate]. intros H. injection H as <- _ <-.
    split; [reflexivity|apply no_delim_chunk].
  - destruct (eval_int _ _) as [bc|]; [|discriminate]. cbn [bind].
    destruct (data_sized raw off bc) as [[x o1]|]; [|discriminate]. intros H. injection H as <- _ <-.
    split; [reflexivity|apply no_delim_chunk].
  - destruct (data_marker _ _ _ _ _) as [[x o1]|]; [|discriminate]. intros H. injection H as <- _ <-.
    split; [reflexivity|apply no_delim_chunk].
  - cbn [leaf_keeps] in Hl. subst incl.
    destruct (data_regex _ _ _ _ _) as [[[x o1] dd]|]; [|discriminate]. intros H. injection H as <- _ <-.
    split; [reflexivity|apply no_delim_chunk].
  - destruct (data_eos raw off) as [x o1]. intros H. injection H as <- _ <-.
    split; [reflexivity|apply no_delim_chunk].
Qed.

Lemma rec_nd (c' : cid) (s : slots) (name : fname) (off : Z) (s' : slots) (o' : Z) (t : trace) :
  slots_keep s ->
  match rec_unpack c' off with POk v o1 t1 => FOk (slot_set s name v) o1 t1 | PFail st => FFail st | PFuel => FFuel end
    = FOk s' o' t -> slots_keep s' /\ no_delim t.
Proof.
  intros Hs. destruct (rec_unpack c' off) as [v o1 t1| |] eqn:E; try discriminate.
  destruct (Hrec _ _ _ _ _ E) as [Hv Ht]. intros H. injection H as <- _ <-.
  split; [apply slots_keep_set; assumption|exact Ht].
Qed.

Lemma leaf_store_nd (cf : lconf) (c : cid) (name : fname) (l : leaf) (s : slots) (off : Z) (s' : slots) (o' : Z) (t : trace) :
  slots_keep s -> leaf_keeps l = true ->
  match unpack_leaf host raw cf c name l s off with Ok (v, o1, t1) => FOk (slot_set s name v) o1 t1 | Exn x => FExn x end
    = FOk s' o' t -> slots_keep s' /\ no_delim t.
Proof.
  intros Hs Hl. destruct (unpack_leaf host raw cf c name l s off) as [[[v o1] t1]|] eqn:E; [|discriminate].
  destruct (unpack_leaf_nd _ _ _ _ _ _ _ _ _ Hl E) as [Hv Ht]. intros H. injection H as <- _ <-.
  split; [apply slots_keep_set; assumption|exact Ht].
Qed.

Lemma unpack_elem_nd (cf : lconf) (c : cid) (name : fname) (e : elem) (s : slots) (off : Z) (s' : slots) (o' : Z) (t : trace) :
  slots_keep s -> elem_keeps e = true ->
  unpack_elem host raw rec_unpack cf c name e s off = FOk s' o' t -> slots_keep s' /\ no_delim t.
Proof.
  intros Hs He. destruct e as [l|c' pr|sel d]; cbn [unpack_elem].
  - apply leaf_store_nd; assumption.
  - apply rec_nd; assumption.
  - cbn [elem_keeps] in He. destruct (eval (mkctx raw s off) sel) as [x|] eqn:Ev; [|discriminate].
    assert (Hx : vk x = true) by exact (eval_keeps (mkctx raw s off) Hs sel x He Ev).
    destruct x; try discriminate; try (apply rec_nd; assumption).
    apply leaf_store_nd; [assumption|exact (vk_leaf _ Hx)].
Qed.

Lemma elem_value_keeps (s : slots) (n : fname) : slots_keep s -> vk (elem_value s n) = true.
Proof.
  intros Hs. unfold elem_value. destruct (slot_get s n) as [v|] eqn:E; [|reflexivity].
  exact (slots_keep_get _ _ _ Hs E).
Qed.
Lemma append_to_keeps (s : slots) (n : fname) (v : value) : slots_keep s -> vk v = true -> slots_keep (append_to s n v).
Proof.
  intros Hs Hv. unfold append_to. destruct (slot_get s n) as [w|] eqn:E; [|exact Hs].
  destruct w; try exact Hs. apply slots_keep_set; [exact Hs|].
  apply vk_list_iff. apply Forall_app. split.
  - apply vk_list_iff. exact (slots_keep_get _ _ _ Hs E).
  - constructor; [exact Hv|constructor].
Qed.

Lemma unpack_count_nd (cf : lconf) (c : cid) (i : Z) (e : elem) (al : Z) : elem_keeps e = true ->
  forall (k : nat) (s : slots) (off : Z) (t : trace) (s' : slots) (o' : Z) (t' : trace),
  slots_keep s -> no_delim t ->
  unpack_count host raw rec_unpack cf c i e al k s off t = FOk s' o' t' -> slots_keep s' /\ no_delim t'.
Proof.
  intros He. induction k as [|k IH]; intros s off t s' o' t' Hs Ht; cbn [unpack_count].
  - intros H. injection H as <- _ <-. split; assumption.
  - destruct (seq_align al off) as [o1|]; [|discriminate].
    destruct (unpack_elem host raw rec_unpack cf c (FSeqElem i) e s o1) as [s1 o2 t1| | |] eqn:E; try discriminate.
    destruct (unpack_elem_nd _ _ _ _ _ _ _ _ _ Hs He E) as [Hs1 Ht1].
    apply IH.
    + apply append_to_keeps; [exact Hs1|apply elem_value_keeps; exact Hs1].
    + apply no_delim_app; assumption.
Qed.

Lemma unpack_until_nd (cf : lconf) (c : cid) (i : Z) (e : elem) (al : Z) (u : expr) : elem_keeps e = true ->
  forall (fuel : nat) (s : slots) (off : Z) (t : trace) (s' : slots) (o' : Z) (t' : trace),
  slots_keep s -> no_delim t ->
  unpack_until host raw rec_unpack fuel cf c i e al u s off t = FOk s' o' t' -> slots_keep s' /\ no_delim t'.
Proof.
  intros He. induction fuel as [|fuel IH]; intros s off t s' o' t' Hs Ht; cbn [unpack_until];
    (destruct (eval (mkctx raw s off) u) as [v|]; [|discriminate]); destruct (truth v).
  - intros H. injection H as <- _ <-. split; assumption.
  - discriminate.
  - intros H. injection H as <- _ <-. split; assumption.
  - destruct (seq_align al off) as [o1|]; [|discriminate].
    destruct (unpack_elem host raw rec_unpack cf c (FSeqElem i) e s o1) as [s1 o2 t1| | |] eqn:E; try discriminate.
    destruct (unpack_elem_nd _ _ _ _ _ _ _ _ _ Hs He E) as [Hs1 Ht1].
    apply IH.
    + apply append_to_keeps; [exact Hs1|apply elem_value_keeps; exact Hs1].
    + apply no_delim_app; assumption.
Qed.

Lemma unpack_field_nd (cf : lconf) (c : cid) (f : cfield) (s : slots) (off ipp : Z) (s' : slots) (o' : Z) (t : trace) :
  slots_keep s -> cfield_keeps f = true ->
  unpack_field host raw rec_unpack lf cf c f s off ipp = FOk s' o' t -> slots_keep s' /\ no_delim t.
Proof.
  intros Hs Hf.
  destruct f as [i arg rf al|i e|i first last run0 shift mask nbytes d|i e cnt unt whn d al|i e whn d|i];
    cbn [unpack_field]; cbn [cfield_keeps] in Hf.
  - destruct (match arg with MConst z => Ok z | MField g => _ | MFun e => _ end) as [z|x]; [|discriminate].
    destruct (al && (z =? 0)); [discriminate|].
    destruct (move_unpack al rf z off ipp) as [o1|]; [|discriminate].
    intros H. injection H as <- _ <-. split; [exact Hs|]. constructor; [exact I|constructor].
  - apply unpack_elem_nd; assumption.
  - destruct first.
    + destruct (int_unpack nbytes false true raw off) as [[v o1]|]; [|discriminate].
      rewrite CodegenEquiv.slot_get_set, CodegenEquiv.fname_eqb_refl.
      intros H. injection H as <- _ <-.
      split; [|apply no_delim_chunk]. apply slots_keep_set; [|reflexivity]. apply slots_keep_set; [exact Hs|reflexivity].
    + destruct (slot_get s (FBitsI run0)) as [[]|]; try discriminate.
      intros H. injection H as <- _ <-. split; [|apply no_delim_nil]. apply slots_keep_set; [exact Hs|reflexivity].
  - cbv zeta.
    assert (Hs0 : slots_keep (slot_set s (FN i) (VList []))) by (apply slots_keep_set; [exact Hs|reflexivity]).
    destruct (match cnt with Some ce => _ | None => Ok 1 end) as [n|]; [|discriminate].
    destruct (match whn with None => Ok false | Some w => _ end) as [[|]|]; try discriminate.
    + intros H. injection H as <- _ <-. split; [exact Hs0|apply no_delim_nil].
    + destruct (unpack_count host raw rec_unpack cf c i e al (Z.to_nat n) _ off []) as [s1 o1 t1| | |] eqn:E; try discriminate.
      destruct (unpack_count_nd cf c i e al Hf _ _ _ _ _ _ _ Hs0 no_delim_nil E) as [Hs1 Ht1].
      destruct unt as [u|].
      * apply unpack_until_nd; assumption.
      * intros H. injection H as <- _ <-. split; assumption.
  - destruct (eval (mkctx raw s off) whn) as [v|]; [|discriminate]. destruct (truth v).
    + destruct (unpack_elem host raw rec_unpack cf c (FOptElem i) e s off) as [s1 o1 t1| | |] eqn:E; try discriminate.
      destruct (unpack_elem_nd _ _ _ _ _ _ _ _ _ Hs Hf E) as [Hs1 Ht1].
      intros H. injection H as <- _ <-. split; [|exact Ht1].
      apply slots_keep_set; [exact Hs1|apply elem_value_keeps; exact Hs1].
    + intros H. injection H as <- _ <-. split; [|apply no_delim_nil]. apply slots_keep_set; [exact Hs|reflexivity].
  - intros H. injection H as <- _ <-. split; [exact Hs|apply no_delim_chunk].
Qed.

Lemma unpack_fields_nd (cf : lconf) (c : cid) (ipp : Z) : forall (fs : list cfield) (s : slots) (off : Z) (t : trace) v e t',
  forallb cfield_keeps fs = true -> slots_keep s -> no_delim t ->
  unpack_fields host raw rec_unpack lf cf c fs s off ipp t = POk v e t' -> vk v = true /\ no_delim t'.
Proof.
  induction fs as [|f r IH]; intros s off t v e t' Hfs Hs Ht; cbn [unpack_fields].
  - intros H. injection H as <- _ <-. split; [apply vk_pkt_iff; exact Hs|exact Ht].
  - cbn [forallb] in Hfs. apply andb_true_iff in Hfs as [Hf Hr].
    destruct (unpack_field host raw rec_unpack lf cf c f s off ipp) as [s1 o1 t1| | |] eqn:E; try discriminate.
    destruct (unpack_field_nd _ _ _ _ _ _ _ _ _ Hs Hf E) as [Hs1 Ht1].
    apply IH; [exact Hr|exact Hs1|apply no_delim_app; assumption].
Qed.

Lemma struct_unpack_nd : forall (ms : list smember) (chunk : bytes) (off : Z) (s s' : slots) (t : trace),
  slots_keep s -> struct_unpack ms chunk off s = (s', t) -> slots_keep s' /\ no_delim t.
Proof.
  induction ms as [|m r IH]; intros chunk off s s' t Hs; cbn [struct_unpack]; cbv zeta.
  - intros H. injection H as <- <-. split; [exact Hs|apply no_delim_nil].
  - destruct (struct_unpack r _ _ _) as [s1 t1] eqn:E. intros H. injection H as <- <-.
    apply IH in E.
    + destruct E as [A B]. split; [exact A|]. constructor; [exact I|exact B].
    + apply slots_keep_set; [exact Hs|]. destruct m as [j n sg big|j n]; [|reflexivity].
      destruct (decode _ _ _ _); reflexivity.
Qed.

Lemma unpack_blocks_nd (cf : lconf) (c : cid) (ipp : Z) : forall (bs : list block) (s : slots) (off : Z) (t : trace) v e t',
  Forall (loops_sat cfield_keeps) bs -> slots_keep s -> no_delim t ->
  unpack_blocks host raw rec_unpack lf cf c bs s off ipp t = POk v e t' -> vk v = true /\ no_delim t'.
Proof.
  induction bs as [|b r IH]; intros s off t v e t' Hbs Hs Ht; cbn [unpack_blocks].
  - intros H. injection H as <- _ <-. split; [apply vk_pkt_iff; exact Hs|exact Ht].
  - inversion Hbs as [|? ? Hb Hr]; subst. destruct b as [big ms|f]; cbv zeta.
    + destruct (blen _ =? run_size ms); [|discriminate].
      destruct (struct_unpack ms _ off s) as [s1 t1] eqn:E.
      destruct (struct_unpack_nd _ _ _ _ _ _ Hs E) as [Hs1 Ht1].
      apply IH; [exact Hr|exact Hs1|apply no_delim_app; assumption].
    + cbn [loops_sat] in Hb.
      destruct (unpack_field host raw rec_unpack lf cf c f s off ipp) as [s1 o1 t1| | |] eqn:E; try discriminate.
      destruct (unpack_field_nd _ _ _ _ _ _ _ _ _ Hs Hb E) as [Hs1 Ht1].
      apply IH; [exact Hr|exact Hs1|apply no_delim_app; assumption].
Qed.
End UnpackWrites.

Lemma unpack_any_keeps : forall fuel host ct raw c off v e t,
  ct_keeps ct = true ->
  unpack_any fuel host ct raw c off = POk v e t -> vk v = true /\ no_delim t.
Proof.
  induction fuel as [|fuel IH]; intros host ct raw c off v e t Hct; cbn [unpack_any]; [discriminate|].
  destruct (ct_get ct c) as [k|] eqn:Ek; [|discriminate].
  pose proof (ct_get_fields cfield_keeps ct c k Hct Ek) as Hk.
  assert (Hrec : forall c o v e t, unpack_any fuel host ct raw c o = POk v e t -> vk v = true /\ no_delim t).
  { intros c0 o v0 e0 t0. apply IH. exact Hct. }
  destruct (cc_gen_unpack k).
  - apply (unpack_blocks_nd host raw _ fuel Hrec); [|apply slots_keep_nil|apply no_delim_nil].
    apply gen_blocks_loops. exact Hk.
  - apply (unpack_fields_nd host raw _ fuel Hrec); [exact Hk|apply slots_keep_nil|apply no_delim_nil].
Qed.

(* parsing never writes class-level state when every regex delimiter is kept in the value ... *)
Theorem unpack_writes_no_shared_state : forall fuel host ct raw c off v e t,
  ct_keeps ct = true ->
  unpack_any fuel host ct raw c off = POk v e t -> no_delim t.
Proof.
  intros fuel host ct raw c off v e t Hct H. exact (proj2 (unpack_any_keeps _ _ _ _ _ _ _ _ _ Hct H)).
Qed.
