(* Proofs/WorldProofs.v -- what packets could share (C13, Model/World.v): for declarations whose regex delimiters
   are kept in the value, parsing never writes the class-level delimiter state and serializing never reads it;
   serializing leaves every declared field as it was; serializing twice gives the same bytes (for declarations
   whose pack-time expressions read declared fields only: the statement without that restriction is refuted
   below).  Stdlib only, no axioms. *)
From Coq Require Import ZArith List Bool Lia.
From Bisturi Require Import Base.Bytes Kernel.IntCodec Kernel.Align Kernel.BitsK Kernel.DataK Kernel.Frag
  Model.Value Model.Decl Model.Unpack Model.Pack Model.Codegen Model.World.
From Bisturi Require Proofs.CodegenEquiv.
Import ListNotations. Open Scope Z_scope.

Definition slots_keep (s : slots) : Prop := forallb (fun p => value_keeps (snd p)) s = true.

(* ------------------------------------------------------------------------------------------ *)
(** * Values whose Field literals keep their delimiter                                         *)
(* ------------------------------------------------------------------------------------------ *)

Notation vk := value_keeps.
Notation fn_same := CodegenEquiv.fn_same.

Lemma vk_list_iff (l : list value) : vk (VList l) = true <-> Forall (fun a => vk a = true) l.
Proof.
  induction l as [|a r IH].
  - split; [constructor|reflexivity].
  - change (vk (VList (a :: r))) with (vk a && vk (VList r)). rewrite andb_true_iff, IH. split.
    + intros [A B]. constructor; assumption.
    + intros H. inversion H. split; assumption.
Qed.
Lemma vk_tuple_iff (l : list value) : vk (VTuple l) = true <-> Forall (fun a => vk a = true) l.
Proof.
  induction l as [|a r IH].
  - split; [constructor|reflexivity].
  - change (vk (VTuple (a :: r))) with (vk a && vk (VTuple r)). rewrite andb_true_iff, IH. split.
    + intros [A B]. constructor; assumption.
    + intros H. inversion H. split; assumption.
Qed.
Lemma vk_dict_iff (k l : list value) : vk (VDict k l) = true <-> Forall (fun a => vk a = true) l.
Proof.
  induction l as [|a r IH].
  - split; [constructor|reflexivity].
  - change (vk (VDict k (a :: r))) with (vk a && vk (VDict k r)). rewrite andb_true_iff, IH. split.
    + intros [A B]. constructor; assumption.
    + intros H. inversion H. split; assumption.
Qed.
Lemma vk_pkt_iff (c : cid) (s : slots) : vk (VPkt c s) = true <-> slots_keep s.
Proof.
  unfold slots_keep. induction s as [|[f a] r IH].
  - split; reflexivity.
  - change (vk (VPkt c ((f, a) :: r))) with (vk a && vk (VPkt c r)). cbn [forallb snd].
    rewrite !andb_true_iff, IH. tauto.
Qed.
Lemma vk_leaf (l : leaf) : vk (VLeaf l) = true -> leaf_keeps l = true.
Proof. destruct l; intros H; exact H. Qed.

Lemma slots_keep_nil : slots_keep [].
Proof. reflexivity. Qed.
Lemma slots_keep_get (s : slots) (f : fname) (v : value) : slots_keep s -> slot_get s f = Some v -> vk v = true.
Proof.
  unfold slots_keep. induction s as [|[g w] r IH]; cbn [slot_get forallb snd]; intros H E; [discriminate|].
  apply andb_true_iff in H as [Hw Hr]. destruct (fname_eqb f g).
  - injection E as <-. exact Hw.
  - exact (IH Hr E).
Qed.
Lemma slots_keep_set (s : slots) (f : fname) (v : value) : slots_keep s -> vk v = true -> slots_keep (slot_set s f v).
Proof.
  unfold slots_keep. induction s as [|[g w] r IH]; cbn [slot_set forallb snd]; intros H Hv.
  - rewrite Hv. reflexivity.
  - apply andb_true_iff in H as [Hw Hr]. destruct (fname_eqb f g); cbn [forallb snd]; apply andb_true_iff; auto.
Qed.

Lemma int_bop_vk (o : bop) (x y : Z) (v : value) : int_bop o x y = Ok v -> vk v = true.
Proof.
  destruct o; cbn [int_bop]; try (intros H; injection H as <-; reflexivity); try discriminate.
  - destruct (y =? 0); [discriminate|]. intros H; injection H as <-; reflexivity.
  - destruct (y =? 0); [discriminate|]. intros H; injection H as <-; reflexivity.
  - destruct (y <? 0); [discriminate|]. intros H; injection H as <-; reflexivity.
  - destruct (y <? 0); [discriminate|]. intros H; injection H as <-; reflexivity.
Qed.

Lemma py_index_in {A : Type} (l : list A) (i : Z) (v : A) : py_index l i = Some v -> In v l.
Proof. unfold py_index. destruct (_ && _); [|discriminate]. apply nth_error_In. Qed.
Lemma dict_lookup_in (ks vs : list value) (k v : value) : dict_lookup ks vs k = Some v -> In v vs.
Proof.
  revert vs. induction ks as [|k' kr IH]; intros vs; cbn [dict_lookup]; [discriminate|].
  destruct vs as [|w vr]; [discriminate|]. destruct (value_eqb k k').
  - intros H; injection H as <-. left; reflexivity.
  - intros H. right. exact (IH vr H).
Qed.

Lemma getitem_vk (a b v : value) : vk a = true -> apply_bop GetItem a b = Ok v -> vk v = true.
Proof.
  intros Ha. cbn [apply_bop]. destruct a as [| |l| |l|l|ks vs| | |]; try discriminate.
  - destruct (as_int b); [|discriminate]. destruct (py_index l z); [|discriminate].
    intros H; injection H as <-; reflexivity.
  - destruct (as_int b); [|discriminate]. destruct (py_index l z) as [w|] eqn:E; [|discriminate].
    intros H; injection H as <-. apply vk_list_iff in Ha. rewrite Forall_forall in Ha.
    apply Ha. exact (py_index_in _ _ _ E).
  - destruct (as_int b); [|discriminate]. destruct (py_index l z) as [w|] eqn:E; [|discriminate].
    intros H; injection H as <-. apply vk_tuple_iff in Ha. rewrite Forall_forall in Ha.
    apply Ha. exact (py_index_in _ _ _ E).
  - destruct (dict_lookup ks vs b) as [w|] eqn:E; [|discriminate].
    intros H; injection H as <-. apply vk_dict_iff in Ha. rewrite Forall_forall in Ha.
    apply Ha. exact (dict_lookup_in _ _ _ _ E).
Qed.

Lemma apply_bop_vk (o : bop) (a b v : value) : vk a = true -> apply_bop o a b = Ok v -> vk v = true.
Proof.
  intros Ha. destruct o; try exact (getitem_vk a b v Ha);
    try (cbn [apply_bop]; intros H; injection H as <-; reflexivity);
    cbn [apply_bop];
    (destruct a, b; cbn [as_int bool_bop];
     try discriminate; try apply int_bop_vk; try (intros H; injection H as <-; reflexivity)).
Qed.

Lemma apply_uop_vk (o : uop) (a v : value) : apply_uop o a = Ok v -> vk v = true.
Proof.
  destruct o; cbn [apply_uop].
  - destruct (as_int a); [|discriminate]. intros H; injection H as <-; reflexivity.
  - destruct (as_int a); [|discriminate]. intros H; injection H as <-; reflexivity.
  - intros H; injection H as <-; reflexivity.
  - destruct a; try discriminate; intros H; injection H as <-; reflexivity.
Qed.

(* the analogue of RoundTrip.eval_vlr *)
Lemma eval_keeps (cx : ectx) : slots_keep (e_slots cx) ->
  forall e v, expr_keeps e = true -> eval cx e = Ok v -> vk v = true.
Proof.
  intros Hall. fix IH 1. intros e. destruct e as [w|f|o a|o l r|sel opts|sel keys opts|c a b|a f| |]; intros v Hs He.
  - cbn [eval] in He. injection He as <-. exact Hs.
  - cbn [eval] in He. destruct (slot_get (e_slots cx) f) as [x|] eqn:G; [|discriminate].
    injection He as <-. exact (slots_keep_get _ _ _ Hall G).
  - cbn [eval] in He. destruct (eval cx a) as [x|]; [|discriminate]. exact (apply_uop_vk _ _ _ He).
  - cbn [expr_keeps] in Hs. apply andb_true_iff in Hs as [Hs1 Hs2]. cbn [eval] in He.
    destruct (eval cx l) as [x|] eqn:E1; [|discriminate]. cbn [bind] in He.
    destruct (eval cx r) as [y|] eqn:E2; [|discriminate]. cbn [bind] in He.
    exact (apply_bop_vk _ _ _ _ (IH l x Hs1 E1) He).
  - cbn [expr_keeps] in Hs. apply andb_true_iff in Hs as [Hs1 Hs2]. cbn [eval] in He.
    destruct (eval cx sel) as [x|] eqn:E1; [|discriminate]. cbn [bind] in He.
    match type of He with bind ?G _ = _ => destruct G as [vs|] eqn:E2; [|discriminate] end.
    cbn [bind] in He. refine (getitem_vk _ _ _ _ He). apply vk_tuple_iff.
    clear He. revert vs Hs2 E2. induction opts as [|a r IHr]; intros vs Hs2 E2.
    + injection E2 as <-. constructor.
    + apply andb_true_iff in Hs2 as [Ha Hr].
      destruct (eval cx a) as [y|] eqn:Ea; [|discriminate]. cbn [bind] in E2.
      match type of E2 with bind ?G _ = _ => destruct G as [ys|] eqn:Er; [|discriminate] end.
      cbn [bind] in E2. injection E2 as <-. constructor; [exact (IH a y Ha Ea)|exact (IHr ys Hr eq_refl)].
  - cbn [expr_keeps] in Hs. apply andb_true_iff in Hs as [Hs1 Hs2]. cbn [eval] in He.
    destruct (eval cx sel) as [x|] eqn:E1; [|discriminate]. cbn [bind] in He.
    match type of He with bind ?G _ = _ => destruct G as [vs|] eqn:E2; [|discriminate] end.
    cbn [bind] in He. refine (getitem_vk _ _ _ _ He). apply vk_dict_iff.
    clear He. revert vs Hs2 E2. induction opts as [|a r IHr]; intros vs Hs2 E2.
    + injection E2 as <-. constructor.
    + apply andb_true_iff in Hs2 as [Ha Hr].
      destruct (eval cx a) as [y|] eqn:Ea; [|discriminate]. cbn [bind] in E2.
      match type of E2 with bind ?G _ = _ => destruct G as [ys|] eqn:Er; [|discriminate] end.
      cbn [bind] in E2. injection E2 as <-. constructor; [exact (IH a y Ha Ea)|exact (IHr ys Hr eq_refl)].
  - cbn [expr_keeps] in Hs. apply andb_true_iff in Hs as [Hs12 Hs3]. apply andb_true_iff in Hs12 as [Hs1 Hs2].
    cbn [eval] in He.
    destruct (eval cx c) as [x|] eqn:E1; [|discriminate]. cbn [bind] in He.
    destruct (eval cx a) as [y|] eqn:E2; [|discriminate]. cbn [bind] in He.
    destruct (eval cx b) as [z|] eqn:E3; [|discriminate]. cbn [bind] in He. injection He as <-.
    destruct (truth x); [exact (IH a y Hs2 E2)|exact (IH b z Hs3 E3)].
  - cbn [expr_keeps] in Hs. cbn [eval] in He.
    destruct (eval cx a) as [x|] eqn:E1; [|discriminate]. cbn [bind] in He.
    pose proof (IH a x Hs E1) as Hx. destruct x; try discriminate.
    destruct (slot_get slots f) as [w|] eqn:G; [|discriminate]. injection He as <-.
    apply vk_pkt_iff in Hx. exact (slots_keep_get _ _ _ Hx G).
  - cbn [eval] in He. destruct (e_offset cx); [|discriminate]. injection He as <-. reflexivity.
  - cbn [eval] in He. destruct (e_rawlen cx); [|discriminate]. injection He as <-. reflexivity.
Qed.

(* ------------------------------------------------------------------------------------------ *)
(** * Class tables and generated blocks                                                        *)
(* ------------------------------------------------------------------------------------------ *)

Lemma ct_get_fields (Q : cfield -> bool) : forall (ct : ctab) (c : cid) (k : cclass),
  forallb (fun ck => forallb Q (cc_fields (snd ck))) ct = true -> ct_get ct c = Some k ->
  forallb Q (cc_fields k) = true.
Proof.
  induction ct as [|[c' k'] r IH]; intros c k H E; cbn [ct_get] in E; [discriminate|].
  cbn [forallb snd] in H. apply andb_true_iff in H as [H1 H2]. destruct (c =? c').
  - injection E as <-. exact H1.
  - exact (IH c k H2 E).
Qed.

Definition loops_sat (Q : cfield -> bool) (b : block) : Prop :=
  match b with BLoop f => Q f = true | BStruct _ _ => True end.

Lemma gen_blocks_loops (Q : cfield -> bool) (hb : bool) (cf : lconf) (vec : bool) : forall fs cur,
  forallb Q fs = true -> Forall (loops_sat Q) (gen_blocks hb cf vec fs cur).
Proof.
  induction fs as [|f r IH]; intros cur H; cbn [gen_blocks].
  - destruct cur as [[b ms]|]; repeat constructor.
  - cbn [forallb] in H. apply andb_true_iff in H as [Hf Hr].
    assert (Hflush : Forall (loops_sat Q) (match cur with Some (b, ms) => [BStruct b (rev ms)] | None => [] end)).
    { destruct cur as [[b ms]|]; repeat constructor. }
    destruct (fixity_of hb cf f) as [m| |].
    + destruct cur as [[b ms]|].
      * destruct (vec && Bool.eqb b (sm_big m)); [apply IH; exact Hr|].
        apply Forall_app. split; [exact Hflush|apply IH; exact Hr].
      * apply IH; exact Hr.
    + apply Forall_app. split; [exact Hflush|]. constructor; [exact Hf|apply IH; exact Hr].
    + apply Forall_app. split; [exact Hflush|]. constructor; [exact Hf|apply IH; exact Hr].
Qed.

(* ------------------------------------------------------------------------------------------ *)
(** * Unpack logs no TDelim                                                                    *)
(* ------------------------------------------------------------------------------------------ *)

Lemma no_delim_nil : no_delim [].
Proof. constructor. Qed.
Lemma no_delim_app (a b : trace) : no_delim a -> no_delim b -> no_delim (a ++ b).
Proof. intros A B. apply Forall_app. split; assumption. Qed.
Lemma no_delim_chunk (o : Z) (b : bytes) : no_delim [TChunk o b].
Proof. constructor; [exact I|constructor]. Qed.

Section UnpackWrites.
Variable host : bool.
Variable raw : bytes.
Variable rec_unpack : cid -> Z -> pres.
Variable lf : nat.
Hypothesis Hrec : forall c o v e t, rec_unpack c o = POk v e t -> vk v = true /\ no_delim t.

Lemma unpack_leaf_nd (cf : lconf) (c : cid) (name : fname) (l : leaf) (s : slots) (off : Z) (v : value) (o' : Z) (t : trace) :
  leaf_keeps l = true -> unpack_leaf host raw cf c name l s off = Ok (v, o', t) -> vk v = true /\ no_delim t.
Proof.
  intros Hl. destruct l as [n sg fe d|size ic d|m incl d|r incl d|d]; cbn [unpack_leaf].
  - destruct (int_unpack _ _ _ _ _) as [[x o1]|]; [|discriminate]. intros H. injection H as <- _ <-.
    split; [reflexivity|apply no_delim_chunk].
  - destruct (eval_int _ _) as [bc|]; [|discriminate]. cbn [bind].
    destruct (data_sized raw off bc) as [[x o1]|]; [|discriminate]. intros H. injection H as <- _ <-.
    split; [reflexivity|apply no_delim_chunk].
  - destruct (data_marker _ _ _ _ _) as [[x o1]|]; [|discriminate]. intros H. injection H as <- _ <-.
    split; [reflexivity|apply no_delim_chunk].
  - cbn [leaf_keeps] in Hl. subst incl.
    destruct (data_regex _ _ _ _ _) as [[[x o1] dd]|]; [|discriminate]. intros H. injection H as <- _ <-.
    split; [reflexivity|apply no_delim_chunk].
  - destruct (data_eos raw off) as [x o1]. intros H. injection H as <- _ <-.
    split; [reflexivity|apply no_delim_chunk].
Qed.

Lemma rec_nd (c' : cid) (s : slots) (name : fname) (off : Z) (s' : slots) (o' : Z) (t : trace) :
  slots_keep s ->
  match rec_unpack c' off with POk v o1 t1 => FOk (slot_set s name v) o1 t1 | PFail st => FFail st | PFuel => FFuel end
    = FOk s' o' t -> slots_keep s' /\ no_delim t.
Proof.
  intros Hs. destruct (rec_unpack c' off) as [v o1 t1| |] eqn:E; try discriminate.
  destruct (Hrec _ _ _ _ _ E) as [Hv Ht]. intros H. injection H as <- _ <-.
  split; [apply slots_keep_set; assumption|exact Ht].
Qed.

Lemma leaf_store_nd (cf : lconf) (c : cid) (name : fname) (l : leaf) (s : slots) (off : Z) (s' : slots) (o' : Z) (t : trace) :
  slots_keep s -> leaf_keeps l = true ->
  match unpack_leaf host raw cf c name l s off with Ok (v, o1, t1) => FOk (slot_set s name v) o1 t1 | Exn x => FExn x end
    = FOk s' o' t -> slots_keep s' /\ no_delim t.
Proof.
  intros Hs Hl. destruct (unpack_leaf host raw cf c name l s off) as [[[v o1] t1]|] eqn:E; [|discriminate].
  destruct (unpack_leaf_nd _ _ _ _ _ _ _ _ _ Hl E) as [Hv Ht]. intros H. injection H as <- _ <-.
  split; [apply slots_keep_set; assumption|exact Ht].
Qed.

Lemma unpack_elem_nd (cf : lconf) (c : cid) (name : fname) (e : elem) (s : slots) (off : Z) (s' : slots) (o' : Z) (t : trace) :
  slots_keep s -> elem_keeps e = true ->
  unpack_elem host raw rec_unpack cf c name e s off = FOk s' o' t -> slots_keep s' /\ no_delim t.
Proof.
  intros Hs He. destruct e as [l|c' pr|sel d]; cbn [unpack_elem].
  - apply leaf_store_nd; assumption.
  - apply rec_nd; assumption.
  - cbn [elem_keeps] in He. destruct (eval (mkctx raw s off) sel) as [x|] eqn:Ev; [|discriminate].
    assert (Hx : vk x = true) by exact (eval_keeps (mkctx raw s off) Hs sel x He Ev).
    destruct x; try discriminate; try (apply rec_nd; assumption).
    apply leaf_store_nd; [assumption|exact (vk_leaf _ Hx)].
Qed.

Lemma elem_value_keeps (s : slots) (n : fname) : slots_keep s -> vk (elem_value s n) = true.
Proof.
  intros Hs. unfold elem_value. destruct (slot_get s n) as [v|] eqn:E; [|reflexivity].
  exact (slots_keep_get _ _ _ Hs E).
Qed.
Lemma append_to_keeps (s : slots) (n : fname) (v : value) : slots_keep s -> vk v = true -> slots_keep (append_to s n v).
Proof.
  intros Hs Hv. unfold append_to. destruct (slot_get s n) as [w|] eqn:E; [|exact Hs].
  destruct w; try exact Hs. apply slots_keep_set; [exact Hs|].
  apply vk_list_iff. apply Forall_app. split.
  - apply vk_list_iff. exact (slots_keep_get _ _ _ Hs E).
  - constructor; [exact Hv|constructor].
Qed.

Lemma unpack_count_nd (cf : lconf) (c : cid) (i : Z) (e : elem) (al : Z) : elem_keeps e = true ->
  forall (k : nat) (s : slots) (off : Z) (t : trace) (s' : slots) (o' : Z) (t' : trace),
  slots_keep s -> no_delim t ->
  unpack_count host raw rec_unpack cf c i e al k s off t = FOk s' o' t' -> slots_keep s' /\ no_delim t'.
Proof.
  intros He. induction k as [|k IH]; intros s off t s' o' t' Hs Ht; cbn [unpack_count].
  - intros H. injection H as <- _ <-. split; assumption.
  - destruct (seq_align al off) as [o1|]; [|discriminate].
    destruct (unpack_elem host raw rec_unpack cf c (FSeqElem i) e s o1) as [s1 o2 t1| | |] eqn:E; try discriminate.
    destruct (unpack_elem_nd _ _ _ _ _ _ _ _ _ Hs He E) as [Hs1 Ht1].
    apply IH.
    + apply append_to_keeps; [exact Hs1|apply elem_value_keeps; exact Hs1].
    + apply no_delim_app; assumption.
Qed.

Lemma unpack_until_nd (cf : lconf) (c : cid) (i : Z) (e : elem) (al : Z) (u : expr) : elem_keeps e = true ->
  forall (fuel : nat) (s : slots) (off : Z) (t : trace) (s' : slots) (o' : Z) (t' : trace),
  slots_keep s -> no_delim t ->
  unpack_until host raw rec_unpack fuel cf c i e al u s off t = FOk s' o' t' -> slots_keep s' /\ no_delim t'.
Proof.
  intros He. induction fuel as [|fuel IH]; intros s off t s' o' t' Hs Ht; cbn [unpack_until];
    (destruct (eval (mkctx raw s off) u) as [v|]; [|discriminate]); destruct (truth v).
  - intros H. injection H as <- _ <-. split; assumption.
  - discriminate.
  - intros H. injection H as <- _ <-. split; assumption.
  - destruct (seq_align al off) as [o1|]; [|discriminate].
    destruct (unpack_elem host raw rec_unpack cf c (FSeqElem i) e s o1) as [s1 o2 t1| | |] eqn:E; try discriminate.
    destruct (unpack_elem_nd _ _ _ _ _ _ _ _ _ Hs He E) as [Hs1 Ht1].
    apply IH.
    + apply append_to_keeps; [exact Hs1|apply elem_value_keeps; exact Hs1].
    + apply no_delim_app; assumption.
Qed.

Lemma unpack_field_nd (cf : lconf) (c : cid) (f : cfield) (s : slots) (off ipp : Z) (s' : slots) (o' : Z) (t : trace) :
  slots_keep s -> cfield_keeps f = true ->
  unpack_field host raw rec_unpack lf cf c f s off ipp = FOk s' o' t -> slots_keep s' /\ no_delim t.
Proof.
  intros Hs Hf.
  destruct f as [i arg rf al|i e|i first last run0 shift mask nbytes d|i e cnt unt whn d al|i e whn d|i];
    cbn [unpack_field]; cbn [cfield_keeps] in Hf.
  - destruct (match arg with MConst z => Ok z | MField g => _ | MFun e => _ end) as [z|x]; [|discriminate].
    destruct (al && (z =? 0)); [discriminate|].
    destruct (move_unpack al rf z off ipp) as [o1|]; [|discriminate].
    intros H. injection H as <- _ <-. split; [exact Hs|]. constructor; [exact I|constructor].
  - apply unpack_elem_nd; assumption.
  - destruct first.
    + destruct (int_unpack nbytes false true raw off) as [[v o1]|]; [|discriminate].
      rewrite CodegenEquiv.slot_get_set, CodegenEquiv.fname_eqb_refl.
      intros H. injection H as <- _ <-.
      split; [|apply no_delim_chunk]. apply slots_keep_set; [|reflexivity]. apply slots_keep_set; [exact Hs|reflexivity].
    + destruct (slot_get s (FBitsI run0)) as [[]|]; try discriminate.
      intros H. injection H as <- _ <-. split; [|apply no_delim_nil]. apply slots_keep_set; [exact Hs|reflexivity].
  - cbv zeta.
    assert (Hs0 : slots_keep (slot_set s (FN i) (VList []))) by (apply slots_keep_set; [exact Hs|reflexivity]).
    destruct (match cnt with Some ce => _ | None => Ok 1 end) as [n|]; [|discriminate].
    destruct (match whn with None => Ok false | Some w => _ end) as [[|]|]; try discriminate.
    + intros H. injection H as <- _ <-. split; [exact Hs0|apply no_delim_nil].
    + destruct (unpack_count host raw rec_unpack cf c i e al (Z.to_nat n) _ off []) as [s1 o1 t1| | |] eqn:E; try discriminate.
      destruct (unpack_count_nd cf c i e al Hf _ _ _ _ _ _ _ Hs0 no_delim_nil E) as [Hs1 Ht1].
      destruct unt as [u|].
      * apply unpack_until_nd; assumption.
      * intros H. injection H as <- _ <-. split; assumption.
  - destruct (eval (mkctx raw s off) whn) as [v|]; [|discriminate]. destruct (truth v).
    + destruct (unpack_elem host raw rec_unpack cf c (FOptElem i) e s off) as [s1 o1 t1| | |] eqn:E; try discriminate.
      destruct (unpack_elem_nd _ _ _ _ _ _ _ _ _ Hs Hf E) as [Hs1 Ht1].
      intros H. injection H as <- _ <-. split; [|exact Ht1].
      apply slots_keep_set; [exact Hs1|apply elem_value_keeps; exact Hs1].
    + intros H. injection H as <- _ <-. split; [|apply no_delim_nil]. apply slots_keep_set; [exact Hs|reflexivity].
  - intros H. injection H as <- _ <-. split; [exact Hs|apply no_delim_chunk].
Qed.

Lemma unpack_fields_nd (cf : lconf) (c : cid) (ipp : Z) : forall (fs : list cfield) (s : slots) (off : Z) (t : trace) v e t',
  forallb cfield_keeps fs = true -> slots_keep s -> no_delim t ->
  unpack_fields host raw rec_unpack lf cf c fs s off ipp t = POk v e t' -> vk v = true /\ no_delim t'.
Proof.
  induction fs as [|f r IH]; intros s off t v e t' Hfs Hs Ht; cbn [unpack_fields].
  - intros H. injection H as <- _ <-. split; [apply vk_pkt_iff; exact Hs|exact Ht].
  - cbn [forallb] in Hfs. apply andb_true_iff in Hfs as [Hf Hr].
    destruct (unpack_field host raw rec_unpack lf cf c f s off ipp) as [s1 o1 t1| | |] eqn:E; try discriminate.
    destruct (unpack_field_nd _ _ _ _ _ _ _ _ _ Hs Hf E) as [Hs1 Ht1].
    apply IH; [exact Hr|exact Hs1|apply no_delim_app; assumption].
Qed.

Lemma struct_unpack_nd : forall (ms : list smember) (chunk : bytes) (off : Z) (s s' : slots) (t : trace),
  slots_keep s -> struct_unpack ms chunk off s = (s', t) -> slots_keep s' /\ no_delim t.
Proof.
  induction ms as [|m r IH]; intros chunk off s s' t Hs; cbn [struct_unpack]; cbv zeta.
  - intros H. injection H as <- <-. split; [exact Hs|apply no_delim_nil].
  - destruct (struct_unpack r _ _ _) as [s1 t1] eqn:E. intros H. injection H as <- <-.
    apply IH in E.
    + destruct E as [A B]. split; [exact A|]. constructor; [exact I|exact B].
    + apply slots_keep_set; [exact Hs|]. destruct m as [j n sg big|j n]; [|reflexivity].
      destruct (decode _ _ _ _); reflexivity.
Qed.

Lemma unpack_blocks_nd (cf : lconf) (c : cid) (ipp : Z) : forall (bs : list block) (s : slots) (off : Z) (t : trace) v e t',
  Forall (loops_sat cfield_keeps) bs -> slots_keep s -> no_delim t ->
  unpack_blocks host raw rec_unpack lf cf c bs s off ipp t = POk v e t' -> vk v = true /\ no_delim t'.
Proof.
  induction bs as [|b r IH]; intros s off t v e t' Hbs Hs Ht; cbn [unpack_blocks].
  - intros H. injection H as <- _ <-. split; [apply vk_pkt_iff; exact Hs|exact Ht].
  - inversion Hbs as [|? ? Hb Hr]; subst. destruct b as [big ms|f]; cbv zeta.
    + destruct (blen _ =? run_size ms); [|discriminate].
      destruct (struct_unpack ms _ off s) as [s1 t1] eqn:E.
      destruct (struct_unpack_nd _ _ _ _ _ _ Hs E) as [Hs1 Ht1].
      apply IH; [exact Hr|exact Hs1|apply no_delim_app; assumption].
    + cbn [loops_sat] in Hb.
      destruct (unpack_field host raw rec_unpack lf cf c f s off ipp) as [s1 o1 t1| | |] eqn:E; try discriminate.
      destruct (unpack_field_nd _ _ _ _ _ _ _ _ _ Hs Hb E) as [Hs1 Ht1].
      apply IH; [exact Hr|exact Hs1|apply no_delim_app; assumption].
Qed.
End UnpackWrites.

Lemma unpack_any_keeps : forall fuel host ct raw c off v e t,
  ct_keeps ct = true ->
  unpack_any fuel host ct raw c off = POk v e t -> vk v = true /\ no_delim t.
Proof.
  induction fuel as [|fuel IH]; intros host ct raw c off v e t Hct; cbn [unpack_any]; [discriminate|].
  destruct (ct_get ct c) as [k|] eqn:Ek; [|discriminate].
  pose proof (ct_get_fields cfield_keeps ct c k Hct Ek) as Hk.
  assert (Hrec : forall c o v e t, unpack_any fuel host ct raw c o = POk v e t -> vk v = true /\ no_delim t).
  { intros c0 o v0 e0 t0. apply IH. exact Hct. }
  destruct (cc_gen_unpack k).
  - apply (unpack_blocks_nd host raw _ fuel Hrec); [|apply slots_keep_nil|apply no_delim_nil].
    apply gen_blocks_loops. exact Hk.
  - apply (unpack_fields_nd host raw _ fuel Hrec); [exact Hk|apply slots_keep_nil|apply no_delim_nil].
Qed.

(* parsing never writes class-level state when every regex delimiter is kept in the value ... *)
Theorem unpack_writes_no_shared_state : forall fuel host ct raw c off v e t,
  ct_keeps ct = true ->
  unpack_any fuel host ct raw c off = POk v e t -> no_delim t.
Proof.
  intros fuel host ct raw c off v e t Hct H. exact (proj2 (unpack_any_keeps _ _ _ _ _ _ _ _ _ Hct H)).
Qed.

(* ------------------------------------------------------------------------------------------ *)
(** * Pack keeps the slots invariant                                                           *)
(* ------------------------------------------------------------------------------------------ *)

Lemma pack_seq_keeps (hb : bool) (dl : dstate) (rec : cid -> slots -> frs -> qres) (cf : lconf) (c : cid) (i : Z) (e : elem) (al : Z) :
  forall (vs : list value) (s : slots) (fr : frs) (s' : slots) (fr' : frs),
  slots_keep s -> Forall (fun a => vk a = true) vs ->
  pack_seq hb dl rec cf c i e al vs s fr = KOk s' fr' -> slots_keep s'.
Proof.
  induction vs as [|v r IH]; intros s fr s' fr' Hs Hvs; cbn [pack_seq]; cbv zeta.
  - intros H. injection H as <- _. exact Hs.
  - inversion Hvs as [|? ? Hv Hr]; subst.
    destruct (seq_align al (cur fr)) as [p|]; [|discriminate].
    destruct (pack_elem hb dl rec cf c (FSeqElem i) e (slot_set s (FSeqElem i) v) (set_cur fr p)) as [s2 fr2| | |] eqn:E;
      try discriminate.
    apply CodegenEquiv.pack_elem_slots in E. subst s2. apply IH; [|exact Hr]. apply slots_keep_set; assumption.
Qed.

Lemma pack_field_keeps (hb : bool) (dl : dstate) (rec : cid -> slots -> frs -> qres) (cf : lconf) (c : cid) (f : cfield)
      (s : slots) (fr : frs) (ipp : Z) (s1 : slots) (fr1 : frs) :
  slots_keep s -> pack_field hb dl rec cf c f s fr ipp = KOk s1 fr1 -> slots_keep s1.
Proof.
  intros Hs.
  destruct f as [i arg rf al|i e|i first last run0 shift mask nbytes d|i e cnt unt whn d al|i e whn d|i];
    cbn [pack_field].
  - destruct (match arg with MConst z => Ok z | MField g => _ | MFun e => _ end) as [z|x]; [|discriminate].
    destruct (move_pack al rf z (cur fr) ipp) as [p|]; [|discriminate].
    intros H. injection H as <- _. exact Hs.
  - intros H. apply CodegenEquiv.pack_elem_slots in H. subst s1. exact Hs.
  - destruct (slot_get s (FBitsI run0)) as [iv0|]; [|discriminate]. destruct (slot_get s (FN i)) as [v|]; [|discriminate].
    destruct (as_int iv0) as [iv|]; [|discriminate]. destruct (as_int v) as [z|]; [|discriminate]. cbv zeta.
    destruct last.
    + destruct (encode nbytes false true _) as [b|]; [|discriminate]. intros H. apply CodegenEquiv.emit_slots in H. subst s1.
      apply slots_keep_set; [exact Hs|reflexivity].
    + intros H. injection H as <- _. apply slots_keep_set; [exact Hs|reflexivity].
  - destruct (slot_get s (FN i)) as [v|] eqn:Es; [|discriminate]. destruct v; try discriminate.
    apply pack_seq_keeps; [exact Hs|]. apply vk_list_iff. exact (slots_keep_get _ _ _ Hs Es).
  - destruct (slot_get s (FN i)) as [v|] eqn:Es; [|discriminate].
    assert (Hgen : pack_elem hb dl rec cf c (FOptElem i) e (slot_set s (FOptElem i) v) fr = KOk s1 fr1 -> slots_keep s1).
    { intros H. apply CodegenEquiv.pack_elem_slots in H. subst s1. apply slots_keep_set; [exact Hs|].
      exact (slots_keep_get _ _ _ Hs Es). }
    destruct v; try exact Hgen. intros H. injection H as <- _. exact Hs.
  - intros H. apply CodegenEquiv.emit_slots in H. subst s1. exact Hs.
Qed.

(* ------------------------------------------------------------------------------------------ *)
(** * Pack does not read the delimiter state                                                   *)
(* ------------------------------------------------------------------------------------------ *)

Section PackReads.
Variable hb : bool.
Variables dl dl' : dstate.
Variables rec1 rec2 : cid -> slots -> frs -> qres.
Hypothesis Hrec : forall c ps fr, slots_keep ps -> rec1 c ps fr = rec2 c ps fr.

Lemma pack_leaf_dl (cf : lconf) (c : cid) (name : fname) (l : leaf) (s : slots) (fr : frs) :
  leaf_keeps l = true -> pack_leaf hb dl cf c name l s fr = pack_leaf hb dl' cf c name l s fr.
Proof.
  intros Hl. destruct l as [n sg fe d|size ic d|m incl d|r incl d|d]; try reflexivity.
  cbn [leaf_keeps] in Hl. subst incl. reflexivity.
Qed.

Lemma pack_elem_dl (cf : lconf) (c : cid) (name : fname) (e : elem) (s : slots) (fr : frs) :
  slots_keep s -> elem_keeps e = true ->
  pack_elem hb dl rec1 cf c name e s fr = pack_elem hb dl' rec2 cf c name e s fr.
Proof.
  intros Hs He. destruct e as [l|c' pr|sel d]; cbn [pack_elem].
  - apply pack_leaf_dl. exact He.
  - destruct (slot_get s name) as [v|] eqn:Es; [|reflexivity]. destruct v; try reflexivity.
    rewrite Hrec; [reflexivity|]. apply (vk_pkt_iff c0). exact (slots_keep_get _ _ _ Hs Es).
  - cbn [elem_keeps] in He. destruct (slot_get s name) as [v|] eqn:Es; [|reflexivity].
    assert (Hsel : match eval (pctx s) sel with
                   | Exn x => KExn x (cur fr)
                   | Ok (VLeaf l) => pack_leaf hb dl empty_conf c name l s fr
                   | Ok _ => KExn NotImplementedError (cur fr)
                   end =
                   match eval (pctx s) sel with
                   | Exn x => KExn x (cur fr)
                   | Ok (VLeaf l) => pack_leaf hb dl' empty_conf c name l s fr
                   | Ok _ => KExn NotImplementedError (cur fr)
                   end).
    { destruct (eval (pctx s) sel) as [x|] eqn:Ev; [|reflexivity].
      assert (Hx : vk x = true) by exact (eval_keeps (pctx s) Hs sel x He Ev).
      destruct x; try reflexivity. apply pack_leaf_dl. exact (vk_leaf _ Hx). }
    destruct v; try exact Hsel.
    rewrite Hrec; [reflexivity|]. apply (vk_pkt_iff c0). exact (slots_keep_get _ _ _ Hs Es).
Qed.

Lemma pack_seq_dl (cf : lconf) (c : cid) (i : Z) (e : elem) (al : Z) : elem_keeps e = true ->
  forall (vs : list value) (s : slots) (fr : frs), slots_keep s -> Forall (fun a => vk a = true) vs ->
  pack_seq hb dl rec1 cf c i e al vs s fr = pack_seq hb dl' rec2 cf c i e al vs s fr.
Proof.
  intros He. induction vs as [|v r IH]; intros s fr Hs Hvs; cbn [pack_seq]; cbv zeta; [reflexivity|].
  inversion Hvs as [|? ? Hv Hr]; subst.
  destruct (seq_align al (cur fr)) as [p|]; [|reflexivity].
  assert (Hs1 : slots_keep (slot_set s (FSeqElem i) v)) by (apply slots_keep_set; assumption).
  rewrite (pack_elem_dl cf c (FSeqElem i) e _ (set_cur fr p) Hs1 He).
  destruct (pack_elem hb dl' rec2 cf c (FSeqElem i) e _ (set_cur fr p)) as [s2 fr2| | |] eqn:E; try reflexivity.
  apply CodegenEquiv.pack_elem_slots in E. subst s2. apply IH; assumption.
Qed.

Lemma pack_field_dl (cf : lconf) (c : cid) (f : cfield) (s : slots) (fr : frs) (ipp : Z) :
  slots_keep s -> cfield_keeps f = true ->
  pack_field hb dl rec1 cf c f s fr ipp = pack_field hb dl' rec2 cf c f s fr ipp.
Proof.
  intros Hs Hf.
  destruct f as [i arg rf al|i e|i first last run0 shift mask nbytes d|i e cnt unt whn d al|i e whn d|i];
    cbn [pack_field]; cbn [cfield_keeps] in Hf; try reflexivity.
  - apply pack_elem_dl; assumption.
  - destruct (slot_get s (FN i)) as [v|] eqn:Es; [|reflexivity]. destruct v; try reflexivity.
    apply pack_seq_dl; [exact Hf|exact Hs|]. apply vk_list_iff. exact (slots_keep_get _ _ _ Hs Es).
  - destruct (slot_get s (FN i)) as [v|] eqn:Es; [|reflexivity].
    assert (Hgen : pack_elem hb dl rec1 cf c (FOptElem i) e (slot_set s (FOptElem i) v) fr
                 = pack_elem hb dl' rec2 cf c (FOptElem i) e (slot_set s (FOptElem i) v) fr).
    { apply pack_elem_dl; [|exact Hf]. apply slots_keep_set; [exact Hs|exact (slots_keep_get _ _ _ Hs Es)]. }
    destruct v; try exact Hgen. reflexivity.
Qed.

Lemma pack_fields_dl (cf : lconf) (c : cid) (ipp : Z) : forall (fs : list cfield) (s : slots) (fr : frs),
  forallb cfield_keeps fs = true -> slots_keep s ->
  pack_fields hb dl rec1 cf c fs s fr ipp = pack_fields hb dl' rec2 cf c fs s fr ipp.
Proof.
  induction fs as [|f r IH]; intros s fr Hfs Hs; cbn [pack_fields]; [reflexivity|].
  cbn [forallb] in Hfs. apply andb_true_iff in Hfs as [Hf Hr].
  rewrite (pack_field_dl cf c f s fr ipp Hs Hf).
  destruct (pack_field hb dl' rec2 cf c f s fr ipp) as [s1 fr1| | |] eqn:E; try reflexivity.
  apply IH; [exact Hr|]. exact (pack_field_keeps _ _ _ _ _ _ _ _ _ _ _ Hs E).
Qed.

Lemma pack_blocks_dl (cf : lconf) (c : cid) (ipp : Z) : forall (bs : list block) (s : slots) (fr : frs),
  Forall (loops_sat cfield_keeps) bs -> slots_keep s ->
  pack_blocks hb dl rec1 cf c bs s fr ipp = pack_blocks hb dl' rec2 cf c bs s fr ipp.
Proof.
  induction bs as [|b r IH]; intros s fr Hbs Hs; cbn [pack_blocks]; [reflexivity|].
  inversion Hbs as [|? ? Hb Hr]; subst. destruct b as [big ms|f].
  - destruct (struct_pack ms s) as [b|]; [|reflexivity]. destruct (append fr b) as [fr1| |]; try reflexivity.
    apply IH; assumption.
  - cbn [loops_sat] in Hb. rewrite (pack_field_dl cf c f s fr ipp Hs Hb).
    destruct (pack_field hb dl' rec2 cf c f s fr ipp) as [s1 fr1| | |] eqn:E; try reflexivity.
    apply IH; [exact Hr|]. exact (pack_field_keeps _ _ _ _ _ _ _ _ _ _ _ Hs E).
Qed.
End PackReads.

(* ... and serializing never reads it: the outcome is the same whatever other packets' parses left there *)
Theorem pack_reads_no_shared_state : forall fuel host dl dl' ct c s fr,
  ct_keeps ct = true -> slots_keep s ->
  pack_any fuel host dl ct c s fr = pack_any fuel host dl' ct c s fr.
Proof.
  induction fuel as [|fuel IH]; intros host dl dl' ct c s fr Hct Hs; cbn [pack_any]; [reflexivity|].
  destruct (ct_get ct c) as [k|] eqn:Ek; [|reflexivity].
  pose proof (ct_get_fields cfield_keeps ct c k Hct Ek) as Hk.
  assert (Hrec : forall c ps fr, slots_keep ps -> pack_any fuel host dl ct c ps fr = pack_any fuel host dl' ct c ps fr).
  { intros c0 ps fr0 Hps. apply IH; assumption. }
  destruct (cc_gen_pack k).
  - apply pack_blocks_dl; [exact Hrec| |exact Hs]. apply gen_blocks_loops. exact Hk.
  - apply pack_fields_dl; [exact Hrec|exact Hk|exact Hs].
Qed.

(* ------------------------------------------------------------------------------------------ *)
(** * Pack leaves the declared fields as they were                                             *)
(* ------------------------------------------------------------------------------------------ *)

Lemma pack_fields_fn (hb : bool) (dl : dstate) (rec : cid -> slots -> frs -> qres) (cf : lconf) (c : cid) (ipp : Z) :
  forall (fs : list cfield) (s : slots) (fr : frs) (v : value) (fr' : frs),
  pack_fields hb dl rec cf c fs s fr ipp = QOk v fr' -> exists s', v = VPkt c s' /\ fn_same s s'.
Proof.
  induction fs as [|f r IH]; intros s fr v fr'; cbn [pack_fields].
  - intros H. injection H as <- _. exists s. split; [reflexivity|apply CodegenEquiv.fn_same_refl].
  - destruct (pack_field hb dl rec cf c f s fr ipp) as [s1 fr1| | |] eqn:E; try discriminate.
    apply CodegenEquiv.field_fn in E. intros H. destruct (IH _ _ _ _ H) as (s' & -> & Hs').
    exists s'. split; [reflexivity|]. exact (CodegenEquiv.fn_same_trans _ _ _ E Hs').
Qed.

Lemma pack_blocks_fn (hb : bool) (dl : dstate) (rec : cid -> slots -> frs -> qres) (cf : lconf) (c : cid) (ipp : Z) :
  forall (bs : list block) (s : slots) (fr : frs) (v : value) (fr' : frs),
  pack_blocks hb dl rec cf c bs s fr ipp = QOk v fr' -> exists s', v = VPkt c s' /\ fn_same s s'.
Proof.
  induction bs as [|b r IH]; intros s fr v fr'; cbn [pack_blocks].
  - intros H. injection H as <- _. exists s. split; [reflexivity|apply CodegenEquiv.fn_same_refl].
  - destruct b as [big ms|f].
    + destruct (struct_pack ms s) as [b|]; [|discriminate]. destruct (append fr b) as [fr1| |]; try discriminate.
      apply IH.
    + destruct (pack_field hb dl rec cf c f s fr ipp) as [s1 fr1| | |] eqn:E; try discriminate.
      apply CodegenEquiv.field_fn in E. intros H. destruct (IH _ _ _ _ H) as (s' & -> & Hs').
      exists s'. split; [reflexivity|]. exact (CodegenEquiv.fn_same_trans _ _ _ E Hs').
Qed.

(* serializing leaves every declared field of the packet as it was (only scratch slots are written) *)
Theorem pack_preserves_fields : forall fuel host dl ct c s fr v fr',
  pack_any fuel host dl ct c s fr = QOk v fr' ->
  exists s', v = VPkt c s' /\ forall i, slot_get s' (FN i) = slot_get s (FN i).
Proof.
  intros [|fuel] host dl ct c s fr v fr'; cbn [pack_any]; [discriminate|].
  destruct (ct_get ct c) as [k|]; [|discriminate].
  destruct (cc_gen_pack k); [apply pack_blocks_fn|apply pack_fields_fn].
Qed.

(* ------------------------------------------------------------------------------------------ *)
(** * Packing twice                                                                            *)
(* ------------------------------------------------------------------------------------------ *)

(* The statement without a restriction on what pack-time expressions read is false: a Move argument (or a Ref
   selector) that mentions a scratch slot reads it before the pack rewrites it; the first pack sees the value
   the caller left there, the second one the value the first pack left. *)
Definition cex_class : cclass :=
  {| cc_conf := empty_conf; cc_gen_pack := false; cc_gen_unpack := false; cc_vectorize := false;
     cc_fields := [CMove 0 (MField (FSeqElem 1)) RBegins false;
                   CSeq 1 (ELeafE (LInt 1 false None (VInt 0))) None None None (VList []) 1] |}.
Example pack_twice_refuted_hidden_read :
  ~ (forall fuel host dl ct c s b s',
       ct_no_bits ct = true ->
       pack_any_top fuel host dl ct c s = PBytes b (VPkt c s') ->
       exists s'', pack_any_top fuel host dl ct c s' = PBytes b (VPkt c s'')).
Proof.
  intros H.
  specialize (H 3%nat false (fun _ _ => []) [(0, cex_class)] 0 [(FN 1, VList [VInt 5]); (FSeqElem 1, VInt 0)]
                [5] [(FN 1, VList [VInt 5]); (FSeqElem 1, VInt 5)] eq_refl eq_refl).
  destruct H as [s'' H]. vm_compute in H. discriminate H.
Qed.

(* the names a pack-time expression reads from the packet being packed (attributes of nested packets, EAttr, are
   not restricted: pack does not change a nested packet value) *)
Fixpoint expr_reads (N : fname -> bool) (e : expr) {struct e} : bool :=
  match e with
  | ELit _ | EOffset | ERawLen => true
  | EField f => N f
  | EUn _ a => expr_reads N a
  | EBin _ l r => expr_reads N l && expr_reads N r
  | EChoose s opts =>
      expr_reads N s && (fix go (l : list expr) : bool := match l with [] => true | a :: r => expr_reads N a && go r end) opts
  | EChooseD s _ opts =>
      expr_reads N s && (fix go (l : list expr) : bool := match l with [] => true | a :: r => expr_reads N a && go r end) opts
  | EIte c a b => expr_reads N c && expr_reads N a && expr_reads N b
  | EAttr a _ => expr_reads N a
  end.
Definition marg_reads (N : fname -> bool) (m : marg) : bool :=
  match m with MConst _ => true | MField g => N g | MFun e => expr_reads N e end.
Definition elem_reads (N : fname -> bool) (e : elem) : bool :=
  match e with ERefSel sel _ => expr_reads N sel | _ => true end.
(* what pack_field reads before writing it (count / until / when / sizes are not evaluated by pack) *)
Definition cfield_reads (N : fname -> bool) (f : cfield) : bool :=
  match f with
  | CMove _ arg _ _ => marg_reads N arg
  | CElem _ e | CSeq _ e _ _ _ _ _ | COpt _ e _ _ => elem_reads N e
  | CBits _ _ _ run0 _ _ _ _ => N (FBitsI run0)
  | CEm _ => true
  end.
Definition ct_reads (N : fname -> bool) (ct : ctab) : bool :=
  forallb (fun ck => forallb (cfield_reads N) (cc_fields (snd ck))) ct.

Definition is_fn (f : fname) : bool := match f with FN _ => true | _ => false end.
(* every Move argument and every Ref selector mentions declared fields only (what the declaration language can say) *)
Definition cfield_pack_fn (f : cfield) : bool := is_bits f || cfield_reads is_fn f.
Definition ct_pack_exprs_fn (ct : ctab) : bool :=
  forallb (fun ck => forallb cfield_pack_fn (cc_fields (snd ck))) ct.

Section PackMono.
Variable hb : bool.
Variable dl : dstate.
Variable rec : cid -> slots -> frs -> qres.
Variable N : fname -> bool.
Hypothesis HN : forall i, N (FN i) = true.

(* s2 has every N-slot of s1, with the same value *)
Definition sub (s1 s2 : slots) : Prop := forall f v, N f = true -> slot_get s1 f = Some v -> slot_get s2 f = Some v.

Lemma sub_set (s1 s2 : slots) (h : fname) (v : value) : sub s1 s2 -> sub (slot_set s1 h v) (slot_set s2 h v).
Proof.
  intros H f w Hf. rewrite !CodegenEquiv.slot_get_set. destruct (fname_eqb f h); [auto|]. apply H. exact Hf.
Qed.
Lemma get_set_same (s1 s2 : slots) (h : fname) (v : value) :
  forall x, slot_get (slot_set s1 h v) h = Some x -> slot_get (slot_set s2 h v) h = Some x.
Proof. intros x. rewrite !CodegenEquiv.slot_get_set, CodegenEquiv.fname_eqb_refl. auto. Qed.

Lemma eval_sub (s1 s2 : slots) : sub s1 s2 ->
  forall e v, expr_reads N e = true -> eval (pctx s1) e = Ok v -> eval (pctx s2) e = Ok v.
Proof.
  intros Hsub. fix IH 1. intros e. destruct e as [w|f|o a|o l r|sel opts|sel keys opts|c a b|a f| |]; intros v Hs He.
  - exact He.
  - cbn [expr_reads] in Hs. cbn [eval pctx e_slots] in *.
    destruct (slot_get s1 f) as [x|] eqn:G; [|discriminate].
    rewrite (Hsub f x Hs G). exact He.
  - cbn [expr_reads] in Hs. cbn [eval] in *.
    destruct (eval (pctx s1) a) as [x|] eqn:E1; [|discriminate].
    rewrite (IH a x Hs E1). exact He.
  - cbn [expr_reads] in Hs. apply andb_true_iff in Hs as [Hs1 Hs2]. cbn [eval] in *.
    destruct (eval (pctx s1) l) as [x|] eqn:E1; [|discriminate]. cbn [bind] in He.
    destruct (eval (pctx s1) r) as [y|] eqn:E2; [|discriminate].
    rewrite (IH l x Hs1 E1). cbn [bind]. rewrite (IH r y Hs2 E2). exact He.
  - cbn [expr_reads] in Hs. apply andb_true_iff in Hs as [Hs1 Hs2]. cbn [eval] in *.
    destruct (eval (pctx s1) sel) as [x|] eqn:E1; [|discriminate]. cbn [bind] in He.
    rewrite (IH sel x Hs1 E1). cbn [bind].
    match type of He with bind ?G _ = _ => destruct G as [vs|] eqn:E2; [|discriminate] end.
    match goal with |- bind ?G _ = _ => assert (E3 : G = Ok vs) end.
    { clear He. revert vs Hs2 E2. induction opts as [|a r IHr]; intros vs Hs2 E2.
      - exact E2.
      - apply andb_true_iff in Hs2 as [Ha Hr].
        destruct (eval (pctx s1) a) as [y|] eqn:Ea; [|discriminate]. cbn [bind] in E2.
        rewrite (IH a y Ha Ea). cbn [bind].
        match type of E2 with bind ?G _ = _ => destruct G as [ys|] eqn:Er; [|discriminate] end.
        rewrite (IHr ys Hr eq_refl). exact E2. }
    rewrite E3. exact He.
  - cbn [expr_reads] in Hs. apply andb_true_iff in Hs as [Hs1 Hs2]. cbn [eval] in *.
    destruct (eval (pctx s1) sel) as [x|] eqn:E1; [|discriminate]. cbn [bind] in He.
    rewrite (IH sel x Hs1 E1). cbn [bind].
    match type of He with bind ?G _ = _ => destruct G as [vs|] eqn:E2; [|discriminate] end.
    match goal with |- bind ?G _ = _ => assert (E3 : G = Ok vs) end.
    { clear He. revert vs Hs2 E2. induction opts as [|a r IHr]; intros vs Hs2 E2.
      - exact E2.
      - apply andb_true_iff in Hs2 as [Ha Hr].
        destruct (eval (pctx s1) a) as [y|] eqn:Ea; [|discriminate]. cbn [bind] in E2.
        rewrite (IH a y Ha Ea). cbn [bind].
        match type of E2 with bind ?G _ = _ => destruct G as [ys|] eqn:Er; [|discriminate] end.
        rewrite (IHr ys Hr eq_refl). exact E2. }
    rewrite E3. exact He.
  - cbn [expr_reads] in Hs. apply andb_true_iff in Hs as [Hs12 Hs3]. apply andb_true_iff in Hs12 as [Hs1 Hs2].
    cbn [eval] in *.
    destruct (eval (pctx s1) c) as [x|] eqn:E1; [|discriminate]. cbn [bind] in He.
    destruct (eval (pctx s1) a) as [y|] eqn:E2; [|discriminate]. cbn [bind] in He.
    destruct (eval (pctx s1) b) as [z|] eqn:E3; [|discriminate].
    rewrite (IH c x Hs1 E1). cbn [bind]. rewrite (IH a y Hs2 E2). cbn [bind]. rewrite (IH b z Hs3 E3). exact He.
  - cbn [expr_reads] in Hs. cbn [eval] in *.
    destruct (eval (pctx s1) a) as [x|] eqn:E1; [|discriminate].
    rewrite (IH a x Hs E1). exact He.
  - exact He.
  - exact He.
Qed.

Lemma emit_sub (s1 s2 : slots) (fr : frs) (b : bytes) (s1' : slots) (fr' : frs) :
  emit s1 fr b = KOk s1' fr' -> emit s2 fr b = KOk s2 fr'.
Proof. unfold emit. destruct (append fr b); intros H; try discriminate H. injection H as _ <-. reflexivity. Qed.

Lemma pack_leaf_sub (cf : lconf) (c : cid) (name : fname) (l : leaf) (s1 s2 : slots) (fr : frs) (s1' : slots) (fr' : frs) :
  (forall x, slot_get s1 name = Some x -> slot_get s2 name = Some x) ->
  pack_leaf hb dl cf c name l s1 fr = KOk s1' fr' -> pack_leaf hb dl cf c name l s2 fr = KOk s2 fr'.
Proof.
  intros Hn. unfold pack_leaf. destruct (slot_get s1 name) as [v|]; [|discriminate]. rewrite (Hn v eq_refl).
  destruct l as [n sg fe d|size ic d|m incl d|r incl d|d].
  - destruct (as_int v) as [z|]; [|discriminate]. destruct (encode n sg _ z) as [b|]; [|discriminate]. apply emit_sub.
  - destruct v; try discriminate. apply emit_sub.
  - destruct v; try discriminate. apply emit_sub.
  - destruct v; try discriminate. apply emit_sub.
  - destruct v; try discriminate. apply emit_sub.
Qed.

Lemma pack_elem_sub (cf : lconf) (c : cid) (name : fname) (e : elem) (s1 s2 : slots) (fr : frs) (s1' : slots) (fr' : frs) :
  sub s1 s2 -> (forall x, slot_get s1 name = Some x -> slot_get s2 name = Some x) -> elem_reads N e = true ->
  pack_elem hb dl rec cf c name e s1 fr = KOk s1' fr' -> pack_elem hb dl rec cf c name e s2 fr = KOk s2 fr'.
Proof.
  intros Hsub Hn He. destruct e as [l|c' pr|sel d]; cbn [pack_elem].
  - apply pack_leaf_sub. exact Hn.
  - destruct (slot_get s1 name) as [v|]; [|discriminate]. rewrite (Hn v eq_refl).
    destruct v; try discriminate. destruct (rec c0 slots fr); intros H; try discriminate H.
    injection H as _ <-. reflexivity.
  - cbn [elem_reads] in He. destruct (slot_get s1 name) as [v|] eqn:Es; [|discriminate]. rewrite (Hn v eq_refl).
    assert (Hsel : match eval (pctx s1) sel with
                   | Exn x => KExn x (cur fr)
                   | Ok (VLeaf l) => pack_leaf hb dl empty_conf c name l s1 fr
                   | Ok _ => KExn NotImplementedError (cur fr)
                   end = KOk s1' fr' ->
                   match eval (pctx s2) sel with
                   | Exn x => KExn x (cur fr)
                   | Ok (VLeaf l) => pack_leaf hb dl empty_conf c name l s2 fr
                   | Ok _ => KExn NotImplementedError (cur fr)
                   end = KOk s2 fr').
    { destruct (eval (pctx s1) sel) as [x|] eqn:Ev; [|discriminate].
      rewrite (eval_sub s1 s2 Hsub sel x He Ev). destruct x; try discriminate.
      apply pack_leaf_sub. intros y Hy. apply Hn. rewrite <- Hy. symmetry. exact Es. }
    destruct v; try exact Hsel.
    destruct (rec c0 slots fr); intros H; try discriminate H. injection H as _ <-. reflexivity.
Qed.

Lemma pack_seq_sub (cf : lconf) (c : cid) (i : Z) (e : elem) (al : Z) : elem_reads N e = true ->
  forall (vs : list value) (s1 s2 : slots) (fr : frs) (s1' : slots) (fr' : frs), sub s1 s2 ->
  pack_seq hb dl rec cf c i e al vs s1 fr = KOk s1' fr' ->
  exists s2', pack_seq hb dl rec cf c i e al vs s2 fr = KOk s2' fr' /\ sub s1' s2'.
Proof.
  intros He. induction vs as [|v r IH]; intros s1 s2 fr s1' fr' Hsub; cbn [pack_seq]; cbv zeta.
  - intros H. injection H as <- <-. exists s2. split; [reflexivity|exact Hsub].
  - destruct (seq_align al (cur fr)) as [p|]; [|discriminate].
    destruct (pack_elem hb dl rec cf c (FSeqElem i) e (slot_set s1 (FSeqElem i) v) (set_cur fr p)) as [sa fra| | |] eqn:E;
      try discriminate.
    pose proof (CodegenEquiv.pack_elem_slots _ _ _ _ _ _ _ _ _ _ _ E) as Hsa. subst sa.
    rewrite (pack_elem_sub cf c (FSeqElem i) e _ (slot_set s2 (FSeqElem i) v) _ _ _
               (sub_set _ _ _ _ Hsub) (get_set_same _ _ _ _) He E).
    apply IH. apply sub_set. exact Hsub.
Qed.

Lemma pack_field_sub (cf : lconf) (c : cid) (f : cfield) (s1 s2 : slots) (fr : frs) (ipp : Z) (s1' : slots) (fr' : frs) :
  sub s1 s2 -> cfield_reads N f = true ->
  pack_field hb dl rec cf c f s1 fr ipp = KOk s1' fr' ->
  exists s2', pack_field hb dl rec cf c f s2 fr ipp = KOk s2' fr' /\ sub s1' s2'.
Proof.
  intros Hsub Hf.
  destruct f as [i arg rf al|i e|i first last run0 shift mask nbytes d|i e cnt unt whn d al|i e whn d|i];
    cbn [pack_field]; cbn [cfield_reads] in Hf.
  - assert (Hmv : forall z,
      match arg with
      | MConst z => Ok z
      | MField g => match slot_get s1 g with
                    | Some v => match as_int v with Some z => Ok z | None => Exn TypeError end
                    | None => Exn AttributeError
                    end
      | MFun e => eval_int (pctx s1) e
      end = Ok z ->
      match arg with
      | MConst z => Ok z
      | MField g => match slot_get s2 g with
                    | Some v => match as_int v with Some z => Ok z | None => Exn TypeError end
                    | None => Exn AttributeError
                    end
      | MFun e => eval_int (pctx s2) e
      end = Ok z).
    { intros z. destruct arg as [z0|g|e]; cbn [marg_reads] in Hf.
      - auto.
      - destruct (slot_get s1 g) as [v|] eqn:G; [|discriminate]. rewrite (Hsub g v Hf G). auto.
      - unfold eval_int. destruct (eval (pctx s1) e) as [v|] eqn:Ev; [|discriminate].
        rewrite (eval_sub s1 s2 Hsub e v Hf Ev). auto. }
    destruct (match arg with MConst z => Ok z | MField g => _ | MFun e => _ end) as [z|x] eqn:Em; [|discriminate].
    rewrite (Hmv z eq_refl).
    destruct (move_pack al rf z (cur fr) ipp) as [p|]; [|discriminate].
    intros H. injection H as <- <-. exists s2. split; [reflexivity|exact Hsub].
  - intros H. pose proof (CodegenEquiv.pack_elem_slots _ _ _ _ _ _ _ _ _ _ _ H) as Hs. subst s1'.
    exists s2. split; [|exact Hsub].
    apply (pack_elem_sub cf c (FN i) e s1 s2 fr s1 fr' Hsub); [|exact Hf|exact H].
    intros x. apply Hsub. apply HN.
  - destruct (slot_get s1 (FBitsI run0)) as [iv0|] eqn:G0; [|discriminate]. rewrite (Hsub _ _ Hf G0).
    destruct (slot_get s1 (FN i)) as [v|] eqn:G1; [|discriminate]. rewrite (Hsub _ _ (HN i) G1).
    destruct (as_int iv0) as [iv|]; [|discriminate]. destruct (as_int v) as [z|]; [|discriminate]. cbv zeta.
    destruct last.
    + destruct (encode nbytes false true _) as [b|]; [|discriminate]. intros H.
      pose proof (CodegenEquiv.emit_slots _ _ _ _ _ H) as Hs. subst s1'.
      eexists. split; [exact (emit_sub _ _ _ _ _ _ H)|]. apply sub_set. exact Hsub.
    + intros H. injection H as <- <-. eexists. split; [reflexivity|]. apply sub_set. exact Hsub.
  - destruct (slot_get s1 (FN i)) as [v|] eqn:G1; [|discriminate]. rewrite (Hsub _ _ (HN i) G1).
    destruct v; try discriminate. apply pack_seq_sub; assumption.
  - destruct (slot_get s1 (FN i)) as [v|] eqn:G1; [|discriminate]. rewrite (Hsub _ _ (HN i) G1).
    assert (Hgen : pack_elem hb dl rec cf c (FOptElem i) e (slot_set s1 (FOptElem i) v) fr = KOk s1' fr' ->
                   exists s2', pack_elem hb dl rec cf c (FOptElem i) e (slot_set s2 (FOptElem i) v) fr = KOk s2' fr' /\
                               sub s1' s2').
    { intros H. pose proof (CodegenEquiv.pack_elem_slots _ _ _ _ _ _ _ _ _ _ _ H) as Hs. subst s1'.
      eexists. split; [|apply sub_set; exact Hsub].
      exact (pack_elem_sub cf c (FOptElem i) e _ (slot_set s2 (FOptElem i) v) _ _ _
               (sub_set _ _ _ _ Hsub) (get_set_same _ _ _ _) Hf H). }
    destruct v; try exact Hgen. intros H. injection H as <- <-. exists s2. split; [reflexivity|exact Hsub].
  - intros H. pose proof (CodegenEquiv.emit_slots _ _ _ _ _ H) as Hs. subst s1'.
    exists s2. split; [exact (emit_sub _ _ _ _ _ _ H)|exact Hsub].
Qed.

Lemma pack_fields_sub (cf : lconf) (c : cid) (ipp : Z) : forall (fs : list cfield) (s1 s2 : slots) (fr : frs) v fr',
  forallb (cfield_reads N) fs = true -> sub s1 s2 ->
  pack_fields hb dl rec cf c fs s1 fr ipp = QOk v fr' ->
  exists s2', pack_fields hb dl rec cf c fs s2 fr ipp = QOk (VPkt c s2') fr'.
Proof.
  induction fs as [|f r IH]; intros s1 s2 fr v fr' Hfs Hsub; cbn [pack_fields].
  - intros H. injection H as _ <-. exists s2. reflexivity.
  - cbn [forallb] in Hfs. apply andb_true_iff in Hfs as [Hf Hr].
    destruct (pack_field hb dl rec cf c f s1 fr ipp) as [sa fra| | |] eqn:E; try discriminate.
    destruct (pack_field_sub cf c f s1 s2 fr ipp sa fra Hsub Hf E) as (sb & -> & Hsb).
    apply IH; assumption.
Qed.

Lemma struct_pack_sub (s1 s2 : slots) : sub s1 s2 -> forall ms b, struct_pack ms s1 = Ok b -> struct_pack ms s2 = Ok b.
Proof.
  intros Hsub. induction ms as [|m r IH]; intros b; cbn [struct_pack]; [auto|].
  destruct (slot_get s1 (FN (sm_index m))) as [v|] eqn:G; [|discriminate]. rewrite (Hsub _ _ (HN _) G).
  match goal with |- bind ?X _ = _ -> _ => destruct X as [b0|]; [|discriminate] end. cbn [bind].
  destruct (struct_pack r s1) as [rest|]; [|discriminate]. rewrite (IH rest eq_refl). auto.
Qed.

Lemma pack_blocks_sub (cf : lconf) (c : cid) (ipp : Z) : forall (bs : list block) (s1 s2 : slots) (fr : frs) v fr',
  Forall (loops_sat (cfield_reads N)) bs -> sub s1 s2 ->
  pack_blocks hb dl rec cf c bs s1 fr ipp = QOk v fr' ->
  exists s2', pack_blocks hb dl rec cf c bs s2 fr ipp = QOk (VPkt c s2') fr'.
Proof.
  induction bs as [|b r IH]; intros s1 s2 fr v fr' Hbs Hsub; cbn [pack_blocks].
  - intros H. injection H as _ <-. exists s2. reflexivity.
  - inversion Hbs as [|? ? Hb Hr]; subst. destruct b as [big ms|f].
    + destruct (struct_pack ms s1) as [b|] eqn:E; [|discriminate]. rewrite (struct_pack_sub s1 s2 Hsub ms b E).
      destruct (append fr b) as [fr1| |]; try discriminate. apply IH; assumption.
    + cbn [loops_sat] in Hb.
      destruct (pack_field hb dl rec cf c f s1 fr ipp) as [sa fra| | |] eqn:E; try discriminate.
      destruct (pack_field_sub cf c f s1 s2 fr ipp sa fra Hsub Hb E) as (sb & -> & Hsb).
      apply IH; assumption.
Qed.
End PackMono.

Lemma pack_any_sub (N : fname -> bool) : (forall i, N (FN i) = true) ->
  forall fuel host dl ct c s1 s2 fr v fr',
  ct_reads N ct = true -> sub N s1 s2 ->
  pack_any fuel host dl ct c s1 fr = QOk v fr' ->
  exists s2', pack_any fuel host dl ct c s2 fr = QOk (VPkt c s2') fr'.
Proof.
  intros HN [|fuel] host dl ct c s1 s2 fr v fr' Hct Hsub; cbn [pack_any]; [discriminate|].
  destruct (ct_get ct c) as [k|] eqn:Ek; [|discriminate].
  pose proof (ct_get_fields (cfield_reads N) ct c k Hct Ek) as Hk.
  destruct (cc_gen_pack k).
  - apply (pack_blocks_sub host dl _ N HN); [|exact Hsub]. apply gen_blocks_loops. exact Hk.
  - apply (pack_fields_sub host dl _ N HN); [exact Hk|exact Hsub].
Qed.

(* the general form: N is any set of names containing the declared ones; the pack-time expressions read N only
   and the packet given to the first pack has no scratch slot in N *)
Theorem pack_twice_same_bytes_gen (N : fname -> bool) : forall fuel host dl ct c s b s',
  (forall i, N (FN i) = true) ->
  ct_reads N ct = true ->
  (forall f, N f = true -> is_fn f = true \/ slot_get s f = None) ->
  pack_any_top fuel host dl ct c s = PBytes b (VPkt c s') ->
  exists s'', pack_any_top fuel host dl ct c s' = PBytes b (VPkt c s'').
Proof.
  intros fuel host dl ct c s b s' HN Hct Hs. unfold pack_any_top.
  destruct (pack_any fuel host dl ct c s empty) as [v fr| |] eqn:E; try discriminate.
  intros H. injection H as <- ->.
  destruct (pack_preserves_fields _ _ _ _ _ _ _ _ _ E) as (s0 & E0 & Hfn). injection E0 as <-.
  assert (Hsub : sub N s s').
  { intros f v Hf G. destruct (Hs f Hf) as [Hfn'|Hnone]; [|rewrite Hnone in G; discriminate].
    destruct f; try discriminate. rewrite Hfn. exact G. }
  destruct (pack_any_sub N HN _ _ _ _ _ _ _ _ _ _ Hct Hsub E) as (s2' & ->).
  exists s2'. reflexivity.
Qed.

Lemma ct_reads_fn (ct : ctab) : ct_no_bits ct = true -> ct_pack_exprs_fn ct = true -> ct_reads is_fn ct = true.
Proof.
  unfold ct_no_bits, ct_pack_exprs_fn, ct_reads. induction ct as [|[c k] r IH]; cbn [forallb snd]; [reflexivity|].
  intros H1 H2. apply andb_true_iff in H1 as [A1 B1]. apply andb_true_iff in H2 as [A2 B2].
  apply andb_true_iff. split; [|exact (IH B1 B2)].
  clear - A1 A2. induction (cc_fields k) as [|f fs IHf]; cbn [forallb] in *; [reflexivity|].
  apply andb_true_iff in A1 as [a1 b1]. apply andb_true_iff in A2 as [a2 b2].
  apply andb_true_iff. split; [|exact (IHf b1 b2)].
  unfold cfield_pack_fn in a2. destruct (is_bits f); [discriminate|exact a2].
Qed.

(* and serializing again returns the same bytes (declarations without bit runs; for bit runs see
   C07_pack_stale_irrelevant) -- CHANGED with respect to notes/stmts/S8_world.v: the hypothesis ct_pack_exprs_fn is
   new (pack_twice_refuted_hidden_read above shows that the statement without it is false) *)
Theorem pack_twice_same_bytes : forall fuel host dl ct c s b s',
  ct_no_bits ct = true ->
  ct_pack_exprs_fn ct = true ->
  pack_any_top fuel host dl ct c s = PBytes b (VPkt c s') ->
  exists s'', pack_any_top fuel host dl ct c s' = PBytes b (VPkt c s'').
Proof.
  intros fuel host dl ct c s b s' Hnb Hfn.
  apply (pack_twice_same_bytes_gen is_fn); [reflexivity|exact (ct_reads_fn ct Hnb Hfn)|].
  intros f Hf. left. exact Hf.
Qed.

(* variant: any declarations (bit runs too), but a packet with declared names only (as a constructor builds it) *)
Lemma expr_reads_all : forall e, expr_reads (fun _ => true) e = true.
Proof.
  fix IH 1. intros e. destruct e as [w|f|o a|o l r|sel opts|sel keys opts|c a b|a f| |]; cbn [expr_reads]; try reflexivity.
  - apply IH.
  - rewrite (IH l), (IH r). reflexivity.
  - rewrite (IH sel). cbn [andb]. induction opts as [|a r IHr]; [reflexivity|]. rewrite (IH a). exact IHr.
  - rewrite (IH sel). cbn [andb]. induction opts as [|a r IHr]; [reflexivity|]. rewrite (IH a). exact IHr.
  - rewrite (IH c), (IH a), (IH b). reflexivity.
  - apply IH.
Qed.
Lemma ct_reads_all (ct : ctab) : ct_reads (fun _ => true) ct = true.
Proof.
  unfold ct_reads. apply forallb_forall. intros [c k] _. apply forallb_forall. intros f _.
  destruct f as [i arg rf al|i e|i first last run0 shift mask nbytes d|i e cnt unt whn d al|i e whn d|i];
    cbn [cfield_reads]; try reflexivity;
    try (destruct e as [l|c' pr|sel d']; cbn [elem_reads]; [reflexivity|reflexivity|apply expr_reads_all]).
  destruct arg; cbn [marg_reads]; [reflexivity|reflexivity|apply expr_reads_all].
Qed.

Theorem pack_twice_same_bytes_fresh : forall fuel host dl ct c s b s',
  (forall f v, slot_get s f = Some v -> exists i, f = FN i) ->
  pack_any_top fuel host dl ct c s = PBytes b (VPkt c s') ->
  exists s'', pack_any_top fuel host dl ct c s' = PBytes b (VPkt c s'').
Proof.
  intros fuel host dl ct c s b s' Hs.
  apply (pack_twice_same_bytes_gen (fun _ => true)); [reflexivity|apply ct_reads_all|].
  intros f _. destruct (slot_get s f) as [v|] eqn:G; [|right; reflexivity].
  destruct (Hs f v G) as [i ->]. left. reflexivity.
Qed.

Print Assumptions unpack_writes_no_shared_state.
Print Assumptions pack_reads_no_shared_state.
Print Assumptions pack_preserves_fields.
Print Assumptions pack_twice_same_bytes.
Print Assumptions pack_twice_same_bytes_gen.
Print Assumptions pack_twice_same_bytes_fresh.
Print Assumptions pack_twice_refuted_hidden_read.
