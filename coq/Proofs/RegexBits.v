(* Proofs/RegexBits.v -- soundness of the regexp pre-filter (Model/Pattern.v) for flat declarations WITH bit runs:
   the glue between the per-byte character class (RegexProofs.byte_class_sound) and the field loop. *)
From Coq Require Import ZArith List Bool Lia.
From Bisturi Require Import Base.Bytes Kernel.IntCodec Kernel.BitsK Kernel.DataK Kernel.Regex
  Model.Value Model.Decl Model.Unpack Model.Pattern Model.WfBits
  Proofs.IntCodecProofs Proofs.BitsProofs Proofs.DataProofs Proofs.StrictProofs Proofs.RoundTrip Proofs.RegexProofs.
Import ListNotations. Open Scope Z_scope.

Definition flat_field (f : cfield) : bool :=
  match f with CElem _ (ELeafE l) => flat_leaf l | CBits _ _ _ _ _ _ _ _ => true | _ => false end.

(* ------------------------------------------------------------------------------------------ *)
(** * Chunks of eight                                                                          *)
(* ------------------------------------------------------------------------------------------ *)

Fixpoint chunks_n (n : nat) (l : list (option bool)) : list (list (option bool)) :=
  match n with
  | O => []
  | S k => firstn 8 l :: chunks_n k (skipn 8 l)
  end.

Lemma chunks8_n : forall n fuel l, length l = (8 * n)%nat -> (n <= fuel)%nat -> chunks8 l fuel = chunks_n n l.
Proof.
  induction n as [|n IH]; intros fuel l Hl Hf.
  - destruct l; [|cbn [length] in Hl; lia]. destruct fuel; reflexivity.
  - destruct fuel as [|fuel]; [lia|].
    destruct l as [|a l']; [cbn [length] in Hl; lia|].
    cbn [chunks8 chunks_n]. f_equal. apply IH; [|lia].
    rewrite skipn_length. lia.
Qed.

Lemma nth_error_firstn' {A} : forall n (l : list A) p, (p < n)%nat -> nth_error (firstn n l) p = nth_error l p.
Proof.
  induction n as [|n IH]; intros l p Hp; [lia|].
  destruct l as [|a l]; [destruct p; reflexivity|].
  destruct p as [|p]; cbn [firstn nth_error]; [reflexivity|]. apply IH. lia.
Qed.

Lemma nth_error_skipn' {A} : forall n (l : list A) p, nth_error (skipn n l) p = nth_error l (n + p).
Proof.
  induction n as [|n IH]; intros l p; [reflexivity|].
  destruct l as [|a l]; [destruct p; reflexivity|].
  cbn [skipn plus nth_error]. apply IH.
Qed.

(* ------------------------------------------------------------------------------------------ *)
(** * One byte against eight option bits                                                       *)
(* ------------------------------------------------------------------------------------------ *)

Lemma byte_matches_intro : forall l x, length l = 8%nat ->
  (forall r bb, nth_error l r = Some (Some bb) -> bb = Z.testbit x (Z.of_nat (7 - r))) ->
  byte_matches l x = true.
Proof.
  intros l x Hl H.
  destruct l as [|a0 [|a1 [|a2 [|a3 [|a4 [|a5 [|a6 [|a7 [|a8 l]]]]]]]]]; try discriminate Hl.
  unfold byte_matches. cbn [seq map combine forallb fst snd].
  pose proof (H 0%nat) as H0. pose proof (H 1%nat) as H1. pose proof (H 2%nat) as H2. pose proof (H 3%nat) as H3.
  pose proof (H 4%nat) as H4. pose proof (H 5%nat) as H5. pose proof (H 6%nat) as H6. pose proof (H 7%nat) as H7.
  cbn [nth_error] in H0, H1, H2, H3, H4, H5, H6, H7.
  repeat (apply andb_true_iff; split); try reflexivity;
    match goal with
    | |- match ?a with Some _ => _ | None => _ end = true =>
        destruct a as [bb|]; [|reflexivity]
    end.
  - rewrite (H0 bb eq_refl). apply Bool.eqb_reflx.
  - rewrite (H1 bb eq_refl). apply Bool.eqb_reflx.
  - rewrite (H2 bb eq_refl). apply Bool.eqb_reflx.
  - rewrite (H3 bb eq_refl). apply Bool.eqb_reflx.
  - rewrite (H4 bb eq_refl). apply Bool.eqb_reflx.
  - rewrite (H5 bb eq_refl). apply Bool.eqb_reflx.
  - rewrite (H6 bb eq_refl). apply Bool.eqb_reflx.
  - rewrite (H7 bb eq_refl). apply Bool.eqb_reflx.
Qed.

(* ------------------------------------------------------------------------------------------ *)
(** * The bits of a big-endian integer                                                         *)
(* ------------------------------------------------------------------------------------------ *)

Lemma testbit_split_high : forall x low k j, 0 <= k -> 0 <= low < 2 ^ k -> 0 <= j ->
  Z.testbit (x * 2 ^ k + low) (j + k) = Z.testbit x j.
Proof.
  intros x low k j Hk Hlow Hj. rewrite <- Z.div_pow2_bits by lia. f_equal.
  assert (0 < 2 ^ k) as Hp by (apply Z.pow_pos_nonneg; lia).
  rewrite Z.div_add_l by lia. rewrite Z.div_small by lia. lia.
Qed.

Lemma testbit_split_low : forall x low k j, 0 <= k -> 0 <= low < 2 ^ k -> 0 <= j < k ->
  Z.testbit (x * 2 ^ k + low) j = Z.testbit low j.
Proof.
  intros x low k j Hk Hlow Hj. rewrite <- (Z.mod_pow2_bits_low (x * 2 ^ k + low) k j) by lia. f_equal.
  assert (0 < 2 ^ k) as Hp by (apply Z.pow_pos_nonneg; lia).
  rewrite Z.add_comm, Z.mod_add by lia. apply Z.mod_small. lia.
Qed.

Lemma be_val_cons : forall x B, wf_bytes B ->
  be_val 0 (x :: B) = x * 2 ^ (8 * Z.of_nat (length B)) + be_val 0 B /\
  0 <= be_val 0 B < 2 ^ (8 * Z.of_nat (length B)).
Proof.
  intros x B HB. pose proof (unsigned_val_big_cons x B) as H. unfold unsigned_val in H.
  pose proof (be_val_bound B HB) as Hb. rewrite pow256 in H, Hb. split; [exact H|exact Hb].
Qed.

(* a list of fixed / free bits (most significant first) of which every fixed one is the bit of I at that place,
   counting from bit W - 1 down *)
Definition agrees (L : list (option bool)) (I W : Z) : Prop :=
  forall p b, nth_error L p = Some (Some b) -> b = Z.testbit I (W - 1 - Z.of_nat p).

(* the classes of the chunks match the bytes whose big-endian value the bits agree with *)
Lemma chunks_sound : forall B L, wf_bytes B -> length L = (8 * length B)%nat ->
  agrees L (be_val 0 B) (8 * Z.of_nat (length B)) ->
  forall b ws rest, matches_seq b ws rest ->
    matches_seq (map byte_class (chunks_n (length B) L) ++ b) (B ++ ws) rest.
Proof.
  induction B as [|x B IH]; intros L HB HL Hag b ws rest Hb.
  - cbn [length chunks_n map app]. exact Hb.
  - pose proof (Forall_inv HB) as Hx. pose proof (Forall_inv_tail HB) as HB'. unfold wf_byte in Hx.
    destruct (be_val_cons x B HB') as (Hv & Hlow).
    cbn [length] in HL, Hag. cbn [length chunks_n map app].
    change (x :: B ++ ws) with ([x] ++ (B ++ ws)).
    set (k := 8 * Z.of_nat (length B)) in *.
    assert (0 <= k) as Hk by lia.
    apply MSCons.
    + apply byte_class_sound; [rewrite firstn_length; lia|exact Hx|].
      apply byte_matches_intro; [rewrite firstn_length; lia|].
      intros r bb Hr.
      assert (r < 8)%nat as Hr8.
      { assert (nth_error (firstn 8 L) r <> None) as Hn by congruence.
        apply nth_error_Some in Hn. rewrite firstn_length in Hn. lia. }
      rewrite nth_error_firstn' in Hr by exact Hr8.
      rewrite (Hag r bb Hr), Hv.
      replace (8 * Z.of_nat (S (length B)) - 1 - Z.of_nat r) with (Z.of_nat (7 - r) + k) by lia.
      apply testbit_split_high; lia.
    + apply IH; [exact HB'|rewrite skipn_length; lia| |exact Hb].
      intros p bb Hp. fold k.
      assert (p < 8 * length B)%nat as Hp8.
      { assert (nth_error (skipn 8 L) p <> None) as Hn by congruence.
        apply nth_error_Some in Hn. rewrite skipn_length in Hn. lia. }
      rewrite nth_error_skipn' in Hp.
      rewrite (Hag (8 + p)%nat bb Hp), Hv.
      replace (8 * Z.of_nat (S (length B)) - 1 - Z.of_nat (8 + p)) with (k - 1 - Z.of_nat p) by lia.
      apply testbit_split_low; lia.
Qed.

(* ------------------------------------------------------------------------------------------ *)
(** * The bits of one member                                                                   *)
(* ------------------------------------------------------------------------------------------ *)

Lemma bits_of_length : forall w z, length (bits_of w z) = w.
Proof. induction w as [|w IH]; intros z; cbn [bits_of length]; [reflexivity|]. rewrite IH. reflexivity. Qed.

Lemma nth_bits_of : forall w z p, (p < w)%nat ->
  nth_error (bits_of w z) p = Some (Some (Z.testbit z (Z.of_nat (w - 1 - p)))).
Proof.
  induction w as [|w IH]; intros z p Hp; [lia|].
  cbn [bits_of]. destruct p as [|p]; cbn [nth_error].
  - do 3 f_equal. lia.
  - rewrite IH by lia. do 3 f_equal. lia.
Qed.

Lemma nth_repeat_none : forall n p (b : bool), nth_error (repeat (@None bool) n) p <> Some (Some b).
Proof.
  intros n p b H. apply nth_error_In in H. apply repeat_spec in H. discriminate H.
Qed.

(* ------------------------------------------------------------------------------------------ *)
(** * What run_ok says, member by member                                                       *)
(* ------------------------------------------------------------------------------------------ *)

Definition fwidth (f : cfield) : Z :=
  match f with CBits _ _ _ _ shift mask _ _ => bits_width shift mask | _ => 0 end.

(* the members of (a suffix of) a run: flags, shared slot, byte count, and the layout "shift = total width of the
   members after me, mask = (2^w - 1) << shift" *)
Fixpoint run_spec (i0 nbytes : Z) (isfirst : bool) (ms : list cfield) : Prop :=
  match ms with
  | [] => True
  | CBits i first last r0 shift mask nb _ :: r =>
      first = isfirst /\ last = (match r with [] => true | _ => false end) /\ r0 = i0 /\ nb = nbytes /\
      shift = zsum (map fwidth r) /\ mask = mask_of (bits_width shift mask) shift /\
      0 <= shift /\ 1 <= bits_width shift mask /\
      run_spec i0 nbytes false r
  | _ => False
  end.

Lemma members_spec (i0 nbytes : Z) (n : nat) : forall ms k, (k + length ms = n)%nat ->
  forallb (fun p => member_ok i0 nbytes n (fst (fst p)) (snd (fst p)) (snd p))
          (combine (combine (seq k (length ms)) ms) (layout (map fwidth ms))) = true ->
  run_spec i0 nbytes (Nat.eqb k 0) ms.
Proof.
  induction ms as [|f r IH]; intros k Hk H; [exact I|].
  cbn [length seq map layout combine forallb fst snd] in H.
  apply andb_true_iff in H as [Hm H].
  destruct f as [ | |i first last r0 shift mask nb d| | | ]; try discriminate Hm.
  cbn [member_ok fst snd] in Hm.
  apply andb_true_iff in Hm as [Hm Hc0]. apply andb_true_iff in Hm as [Hm Hc1].
  apply andb_true_iff in Hm as [Hm Hc2]. apply andb_true_iff in Hm as [Hm Hc3].
  apply andb_true_iff in Hm as [Hm Hc4]. apply andb_true_iff in Hm as [Hm Hc5].
  apply andb_true_iff in Hm as [Hm Hc6].
  apply Bool.eqb_prop in Hm. apply Bool.eqb_prop in Hc6.
  apply Z.eqb_eq in Hc5, Hc4, Hc3, Hc2. apply Z.leb_le in Hc1, Hc0.
  cbn [run_spec]. cbn [length] in Hk.
  split; [exact Hm|]. split.
  { rewrite Hc6. destruct r as [|f' r']; cbn [length] in Hk.
    - apply Nat.eqb_eq. lia.
    - apply Nat.eqb_neq. lia. }
  split; [exact Hc5|]. split; [exact Hc4|]. split; [exact Hc3|].
  split; [cbn [fwidth] in Hc2; rewrite <- Hc3 in Hc2; exact Hc2|].
  split; [exact Hc1|]. split; [exact Hc0|].
  apply (IH (S k)); [lia|exact H].
Qed.

Lemma run_ok_spec : forall i0 first last r0 shift mask nbytes d tl,
  run_ok (CBits i0 first last r0 shift mask nbytes d :: tl) = true ->
  run_spec i0 nbytes true (CBits i0 first last r0 shift mask nbytes d :: tl) /\
  zsum (map fwidth (CBits i0 first last r0 shift mask nbytes d :: tl)) = 8 * nbytes.
Proof.
  intros i0 first last r0 shift mask nbytes d tl H.
  set (run := CBits i0 first last r0 shift mask nbytes d :: tl) in *.
  unfold run_ok in H. change run with (CBits i0 first last r0 shift mask nbytes d :: tl) in H at 1.
  cbv beta iota zeta in H. change (map _ run) with (map fwidth run) in H.
  destruct (bits_compile (map fwidth run)) as [[sm nb]|] eqn:Hc; [|discriminate H].
  apply bits_compile_inv in Hc as [-> Hz].
  apply andb_true_iff in H as [H Hm]. apply andb_true_iff in H as [Hnb _]. apply Z.eqb_eq in Hnb. subst nb.
  split; [|exact Hz].
  exact (members_spec i0 nbytes (length run) run 0 eq_refl Hm).
Qed.

Lemma run_spec_nonneg : forall i0 nbytes fi ms, run_spec i0 nbytes fi ms -> 0 <= zsum (map fwidth ms).
Proof.
  intros i0 nbytes fi ms. revert fi. induction ms as [|f r IH]; intros fi H; cbn [map zsum]; [lia|].
  destruct f as [ | |i first last r0 shift mask nb d| | | ]; try contradiction.
  cbn [run_spec] in H. destruct H as (_ & _ & _ & _ & _ & _ & _ & Hw & Hr).
  specialize (IH false Hr). cbn [fwidth]. lia.
Qed.

(* the leading run of a list that starts with a bit field *)
Lemma take_run_app : forall fs run rest, take_run fs = (run, rest) -> fs = run ++ rest.
Proof.
  induction fs as [|f r IH]; intros run rest H; cbn [take_run] in H.
  - injection H as <- <-. reflexivity.
  - destruct f; try (injection H as <- <-; reflexivity).
    destruct (take_run r) as [run' rest'] eqn:E. injection H as <- <-.
    cbn [app]. f_equal. apply IH. reflexivity.
Qed.

(* ------------------------------------------------------------------------------------------ *)
(** * A size expression evaluated again on the pattern packet (the packet may have more slots)  *)
(* ------------------------------------------------------------------------------------------ *)

(* RegexProofs.eval_weak asks that the second packet has every attribute of the first; a parsed packet with bit
   runs has the hidden shared integers, which no pattern has.  Agreement where both are defined is enough. *)
Lemma eval_weak2 (raw : bytes) (s : slots) (off : Z) (s' : slots) :
  (forall g v w, slot_get s g = Some v -> slot_get s' g = Some w -> w = v) ->
  forall e v w, eval (mkctx raw s off) e = Ok v -> eval (nctx s') e = Ok w -> w = v.
Proof.
  intros Hag. fix IH 1. intros e.
  destruct e as [u|f|o a|o l r|sel opts|sel keys opts|c a b|a f| |]; intros v w He Hw.
  - cbn [eval] in *. congruence.
  - cbn [eval mkctx nctx e_slots] in *.
    destruct (slot_get s f) as [x|] eqn:G; [|discriminate He].
    destruct (slot_get s' f) as [x'|] eqn:G'; [|discriminate Hw].
    rewrite (Hag f x x' G G') in Hw. congruence.
  - cbn [eval] in *.
    destruct (eval (mkctx raw s off) a) as [x|] eqn:E1; [|discriminate He].
    destruct (eval (nctx s') a) as [x'|] eqn:E1'; [|discriminate Hw].
    rewrite (IH a x x' E1 E1') in Hw. cbn [bind] in *. congruence.
  - cbn [eval] in *.
    destruct (eval (mkctx raw s off) l) as [x|] eqn:E1; [|discriminate He].
    destruct (eval (nctx s') l) as [x'|] eqn:E1'; [|discriminate Hw]. cbn [bind] in He, Hw.
    destruct (eval (mkctx raw s off) r) as [y|] eqn:E2; [|discriminate He].
    destruct (eval (nctx s') r) as [y'|] eqn:E2'; [|discriminate Hw]. cbn [bind] in He, Hw.
    rewrite (IH l x x' E1 E1'), (IH r y y' E2 E2') in Hw. congruence.
  - cbn [eval] in *.
    destruct (eval (mkctx raw s off) sel) as [x|] eqn:E1; [|discriminate He].
    destruct (eval (nctx s') sel) as [x'|] eqn:E1'; [|discriminate Hw]. cbn [bind] in He, Hw.
    match type of He with bind ?G _ = _ => destruct G as [vs|] eqn:E2; [|discriminate He] end.
    match type of Hw with bind ?G _ = _ => destruct G as [ws|] eqn:E2'; [|discriminate Hw] end.
    cbn [bind] in He, Hw.
    assert (ws = vs) as ->.
    { clear He Hw. revert vs ws E2 E2'. induction opts as [|a r IHr]; intros vs ws E2 E2'.
      - congruence.
      - destruct (eval (mkctx raw s off) a) as [y|] eqn:Ea; [|discriminate E2].
        destruct (eval (nctx s') a) as [y'|] eqn:Ea'; [|discriminate E2']. cbn [bind] in E2, E2'.
        match type of E2 with bind ?G _ = _ => destruct G as [ys|] eqn:Er; [|discriminate E2] end.
        match type of E2' with bind ?G _ = _ => destruct G as [ys'|] eqn:Er'; [|discriminate E2'] end.
        cbn [bind] in E2, E2'. rewrite (IH a y y' Ea Ea'), (IHr ys ys' eq_refl eq_refl) in E2'. congruence. }
    rewrite (IH sel x x' E1 E1') in Hw. congruence.
  - cbn [eval] in *.
    destruct (eval (mkctx raw s off) sel) as [x|] eqn:E1; [|discriminate He].
    destruct (eval (nctx s') sel) as [x'|] eqn:E1'; [|discriminate Hw]. cbn [bind] in He, Hw.
    match type of He with bind ?G _ = _ => destruct G as [vs|] eqn:E2; [|discriminate He] end.
    match type of Hw with bind ?G _ = _ => destruct G as [ws|] eqn:E2'; [|discriminate Hw] end.
    cbn [bind] in He, Hw.
    assert (ws = vs) as ->.
    { clear He Hw. revert vs ws E2 E2'. induction opts as [|a r IHr]; intros vs ws E2 E2'.
      - congruence.
      - destruct (eval (mkctx raw s off) a) as [y|] eqn:Ea; [|discriminate E2].
        destruct (eval (nctx s') a) as [y'|] eqn:Ea'; [|discriminate E2']. cbn [bind] in E2, E2'.
        match type of E2 with bind ?G _ = _ => destruct G as [ys|] eqn:Er; [|discriminate E2] end.
        match type of E2' with bind ?G _ = _ => destruct G as [ys'|] eqn:Er'; [|discriminate E2'] end.
        cbn [bind] in E2, E2'. rewrite (IH a y y' Ea Ea'), (IHr ys ys' eq_refl eq_refl) in E2'. congruence. }
    rewrite (IH sel x x' E1 E1') in Hw. congruence.
  - cbn [eval] in *.
    destruct (eval (mkctx raw s off) c) as [x|] eqn:E1; [|discriminate He].
    destruct (eval (nctx s') c) as [x'|] eqn:E1'; [|discriminate Hw]. cbn [bind] in He, Hw.
    destruct (eval (mkctx raw s off) a) as [y|] eqn:E2; [|discriminate He].
    destruct (eval (nctx s') a) as [y'|] eqn:E2'; [|discriminate Hw]. cbn [bind] in He, Hw.
    destruct (eval (mkctx raw s off) b) as [z|] eqn:E3; [|discriminate He].
    destruct (eval (nctx s') b) as [z'|] eqn:E3'; [|discriminate Hw]. cbn [bind] in He, Hw.
    rewrite (IH c x x' E1 E1'), (IH a y y' E2 E2'), (IH b z z' E3 E3') in Hw. congruence.
  - cbn [eval] in *.
    destruct (eval (mkctx raw s off) a) as [x|] eqn:E1; [|discriminate He].
    destruct (eval (nctx s') a) as [x'|] eqn:E1'; [|discriminate Hw]. cbn [bind] in He, Hw.
    rewrite (IH a x x' E1 E1') in Hw. congruence.
  - cbn [eval nctx e_offset] in Hw. discriminate Hw.
  - cbn [eval nctx e_rawlen] in Hw. discriminate Hw.
Qed.

Lemma eval_int_weak2 (raw : bytes) (s : slots) (off : Z) (s' : slots) (e : expr) (z z' : Z) :
  (forall g v w, slot_get s g = Some v -> slot_get s' g = Some w -> w = v) ->
  eval_int (mkctx raw s off) e = Ok z -> eval_int (nctx s') e = Ok z' -> z' = z.
Proof.
  intros Hag. unfold eval_int.
  destruct (eval (mkctx raw s off) e) as [v|] eqn:E; [|discriminate].
  destruct (eval (nctx s') e) as [v'|] eqn:E'; [|discriminate]. cbn [bind].
  rewrite (eval_weak2 raw s off s' Hag e v v' E E'). congruence.
Qed.

Lemma lit_slots_get : forall ps g x, NoDup (map fst ps) ->
  slot_get (lit_slots ps) g = Some x -> pslot_get ps g = Some (PLit x).
Proof.
  induction ps as [|[g' q] r IH]; intros g x Hnd H; cbn [lit_slots] in H; [discriminate H|].
  cbn [map fst] in Hnd. inversion Hnd as [|a l Hni Hnd']; subst a l.
  cbn [pslot_get]. destruct q as [y|].
  - cbn [slot_get] in H. destruct (fname_eqb_spec g g') as [->|N]; [congruence|]. apply IH; assumption.
  - destruct (fname_eqb_spec g g') as [->|N]; [|apply IH; assumption].
    exfalso. apply Hni. apply (IH g' x Hnd') in H. apply pslot_get_in in H.
    apply (in_map fst) in H. exact H.
Qed.

(* ------------------------------------------------------------------------------------------ *)
(** * One leaf, when the packet has slots the pattern does not know                            *)
(* ------------------------------------------------------------------------------------------ *)

(* where the pattern fixes an attribute the packet has so far, it fixes it to this very value *)
Definition knows2 (ps : pslots) (s : slots) : Prop :=
  forall g w x, slot_get s g = Some w -> pslot_get ps g = Some (PLit x) -> x = w.

Section Leaf2.
Variables (host : bool) (raw : bytes) (cf : lconf) (c : cid) (name : fname) (ps : pslots).
Hypothesis Hraw : wf_bytes raw.
Hypothesis Hps : NoDup (map fst ps).

Lemma sized_regex_sound2 (size : expr) (isc : bool) (d : value) (s : slots) (off : Z)
      (v : value) (o' : Z) (t : trace) (p : pval) (a : list rx) :
  0 <= off <= blen raw ->
  unpack_leaf host raw cf c name (LDataSized size isc d) s off = Ok (v, o', t) ->
  pslot_get ps name = Some p -> (forall x, p = PLit x -> x = v) ->
  knows2 ps s ->
  leaf_regex host cf name (LDataSized size isc d) ps = Some a ->
  off <= o' <= blen raw /\ leaf_sound raw off o' a.
Proof.
  intros Ho H Hp Hv Hk Hr. cbn [unpack_leaf] in H. unfold bind in H.
  destruct (eval_int (mkctx raw s off) size) as [bc|ex] eqn:Ev; [|discriminate H].
  destruct (data_sized raw off bc) as [[b o1]|] eqn:E; [|discriminate H].
  injection H as <- <- <-. apply data_sized_ok in E; [|lia].
  destruct E as (Hbc & -> & Hl & Hb & Hin).
  assert (off + bc <= blen raw) as Hle.
  { destruct (Z.eq_dec bc 0) as [->|N]; [lia|apply Hin; lia]. }
  split; [lia|].
  destruct p as [y|].
  - unfold leaf_regex in Hr. rewrite Hp in Hr. rewrite (Hv y eq_refl) in Hr. injection Hr as <-.
    apply sound_one. intros rest. rewrite <- Hb. apply MLit.
  - clear Hv. destruct (sized_any_cases host cf name size isc d ps a Hp Hr) as [(n & -> & ->)|[(g & -> & Hg)|Hg]].
    + apply sound_one. intros rest. rewrite <- Hb. apply MAny.
      unfold eval_int in Ev. cbn [eval bind as_int] in Ev. congruence.
    + unfold eval_int in Ev. cbn [eval mkctx e_slots] in Ev.
      destruct (slot_get s g) as [w|] eqn:G; [|discriminate Ev]. cbn [bind] in Ev.
      destruct (pslot_get ps g) as [[y|]|] eqn:Hq.
      * rewrite (Hk g w y G Hq) in Hg. destruct (as_int w) as [z|]; [|discriminate Hg].
        injection Hg as <-. injection Ev as ->.
        apply sound_one. intros rest. rewrite <- Hb. apply MAny. exact Hl.
      * injection Hg as <-. apply sound_one. intros rest. apply MStar.
      * injection Hg as <-. apply sound_one. intros rest. apply MStar.
    + unfold sized_generic in Hg. destruct (other_any ps name) eqn:Oa.
      * injection Hg as <-. apply sound_one. intros rest. apply MStar.
      * destruct (eval_int (nctx (lit_slots ps)) size) as [z|ex] eqn:Ev'.
        -- injection Hg as <-.
           assert (z = bc) as ->.
           { apply (eval_int_weak2 raw s off (lit_slots ps) size bc z); [|exact Ev|exact Ev'].
             intros g w x G G'. apply (lit_slots_get ps g x Hps) in G'. exact (Hk g w x G G'). }
           apply sound_one. intros rest. rewrite <- Hb. apply MAny. exact Hl.
        -- injection Hg as <-. apply sound_one. intros rest. apply MStar.
Qed.

Lemma leaf_regex_sound2 (l : leaf) (s : slots) (off : Z) (v : value) (o' : Z) (t : trace) (p : pval) (a : list rx) :
  0 <= off <= blen raw -> flat_leaf l = true ->
  unpack_leaf host raw cf c name l s off = Ok (v, o', t) ->
  pslot_get ps name = Some p -> (forall x, p = PLit x -> x = v) ->
  knows2 ps s ->
  leaf_regex host cf name l ps = Some a ->
  off <= o' <= blen raw /\ leaf_sound raw off o' a.
Proof.
  intros Ho Hf H Hp Hv Hk Hr. destruct l as [n sg fe d|size isc d|m incl d|r incl d|d]; cbn [flat_leaf] in Hf.
  - apply Z.leb_le in Hf. exact (int_regex_sound host raw cf c name ps Hraw n sg fe d s off v o' t p a Ho Hf H Hp Hv Hr).
  - exact (sized_regex_sound2 size isc d s off v o' t p a Ho H Hp Hv Hk Hr).
  - exact (marker_regex_sound host raw cf c name ps m incl d s off v o' t p a Ho H Hp Hv Hr).
  - subst incl. exact (regexd_regex_sound host raw cf c name ps r d s off v o' t p a Ho H Hp Hv Hr).
  - exact (eos_regex_sound host raw cf c name ps d s off v o' t p a Ho H Hp Hv Hr).
Qed.
End Leaf2.

(* ------------------------------------------------------------------------------------------ *)
(** * The field loop with bit runs                                                             *)
(* ------------------------------------------------------------------------------------------ *)

(* the attributes a field may write *)
Definition wnames (f : cfield) : list fname :=
  match f with
  | CElem i _ => [FN i]
  | CBits i _ _ r0 _ _ _ _ => [FN i; FBitsI r0]
  | _ => []
  end.

Lemma wnames_fidxs : forall fs f j, In f fs -> In (FN j) (wnames f) -> In j (fidxs fs).
Proof.
  intros fs f j Hin Hw. unfold fidxs. apply in_flat_map. exists f. split; [exact Hin|].
  destruct f; cbn [wnames In] in Hw; cbn [fidx In]; try contradiction.
  - destruct Hw as [E|[]]. injection E as ->. left. reflexivity.
  - destruct Hw as [E|[E|[]]]; [|discriminate E]. injection E as ->. left. reflexivity.
Qed.

Lemma pattern_is_incl : forall fs fs' ps s, (forall f, In f fs' -> In f fs) ->
  pattern_is fs ps s -> pattern_is fs' ps s.
Proof. intros fs fs' ps s Hi H f Hin. apply H, Hi, Hin. Qed.

Lemma NoDup_app_r {A} : forall (a b : list A), NoDup (a ++ b) -> NoDup b.
Proof.
  induction a as [|x a IH]; intros b H; [exact H|].
  cbn [app] in H. inversion H as [|y l _ H']; subst y l. apply IH. exact H'.
Qed.

Section Loop2.
Variables (host : bool) (raw : bytes) (rec_unpack : cid -> Z -> pres) (loop_fuel : nat) (ps : pslots)
          (cf : lconf) (c : cid).
Hypothesis Hraw : wf_bytes raw.
Hypothesis Hps : NoDup (map fst ps).
(* the pattern fixes no hidden shared integer *)
Hypothesis Hhid : forall j x, pslot_get ps (FBitsI j) <> Some (PLit x).

(* what a bit member does when it succeeds *)
Lemma unpack_bits_ok : forall i first last r0 shift mask nb d s off ipp s2 o2 t2,
  unpack_field host raw rec_unpack loop_fuel cf c (CBits i first last r0 shift mask nb d) s off ipp = FOk s2 o2 t2 ->
  exists s1 iv, slot_get s1 (FBitsI r0) = Some (VInt iv) /\
                s2 = slot_set s1 (FN i) (VInt (bits_get iv mask shift)) /\
                if first then int_unpack nb false true raw off = Some (iv, o2) /\ s1 = slot_set s (FBitsI r0) (VInt iv)
                else s1 = s /\ o2 = off.
Proof.
  intros i first last r0 shift mask nb d s off ipp s2 o2 t2 H. cbn [unpack_field] in H. destruct first.
  - destruct (int_unpack nb false true raw off) as [[v o']|] eqn:E; [|discriminate H].
    rewrite slot_get_set_same in H. injection H as <- <- _.
    exists (slot_set s (FBitsI r0) (VInt v)), v. rewrite slot_get_set_same. auto.
  - destruct (slot_get s (FBitsI r0)) as [[iv| | | | | | | | | ]|] eqn:G; try discriminate H.
    injection H as <- <- _. exists s, iv. auto.
Qed.

(* attributes are only ever added: what the packet has is kept unless a later field writes that very name *)
Lemma fields_keep2 : forall fs s off ipp t c' sf e t',
  forallb flat_field fs = true ->
  unpack_fields host raw rec_unpack loop_fuel cf c fs s off ipp t = POk (VPkt c' sf) e t' ->
  forall g w, (forall f, In f fs -> ~ In g (wnames f)) -> slot_get s g = Some w -> slot_get sf g = Some w.
Proof.
  induction fs as [|f r IH]; intros s off ipp t c' sf e t' Hflat H g w Hg G.
  - cbn [unpack_fields] in H. injection H as _ <- _ _. exact G.
  - cbn [forallb] in Hflat. apply andb_true_iff in Hflat as [Hf Hflat].
    assert (forall f', In f' r -> ~ In g (wnames f')) as Hg' by (intros f' Hin; apply Hg; right; exact Hin).
    pose proof (Hg f (or_introl eq_refl)) as Hgf.
    cbn [unpack_fields] in H.
    destruct (unpack_field host raw rec_unpack loop_fuel cf c f s off ipp) as [s2 o2 t2| | |] eqn:EF; try discriminate H.
    apply (IH _ _ _ _ _ _ _ _ Hflat H g w Hg').
    destruct f as [ | i [l| |] |i first last r0 shift mask nb d | | | ]; try discriminate Hf.
    + cbn [unpack_field unpack_elem] in EF.
      destruct (unpack_leaf host raw cf c (FN i) l s off) as [[[v o1] t1]|x] eqn:EL; [|discriminate EF].
      injection EF as <- _ _. rewrite slot_get_set_other; [exact G|].
      intros ->. apply Hgf. left. reflexivity.
    + apply unpack_bits_ok in EF. destruct EF as (s1 & iv & _ & -> & Hc).
      cbn [wnames In] in Hgf.
      rewrite slot_get_set_other by (intros ->; apply Hgf; left; reflexivity).
      destruct first.
      * destruct Hc as [_ ->]. rewrite slot_get_set_other; [exact G|].
        intros ->. apply Hgf. right. left. reflexivity.
      * destruct Hc as [-> _]. exact G.
Qed.

(* after a field stored v in its attribute: this is the value the finished packet has, hence the one the pattern
   fixes if it fixes any; the invariants of the loop are kept *)
Lemma member_step : forall i more s0 v off ipp t c' sf e t',
  forallb flat_field more = true -> ~ In i (fidxs more) ->
  unpack_fields host raw rec_unpack loop_fuel cf c more (slot_set s0 (FN i) v) off ipp t = POk (VPkt c' sf) e t' ->
  (exists p v', pslot_get ps (FN i) = Some p /\ slot_get sf (FN i) = Some v' /\
                match p with PAny => True | PLit x => x = v' end) ->
  knows2 ps s0 ->
  (forall j, In j (fidxs more) -> slot_get s0 (FN j) = None) ->
  (exists p, pslot_get ps (FN i) = Some p /\ forall x, p = PLit x -> x = v) /\
  knows2 ps (slot_set s0 (FN i) v) /\
  (forall j, In j (fidxs more) -> slot_get (slot_set s0 (FN i) v) (FN j) = None).
Proof.
  intros i more s0 v off ipp t c' sf e t' Hflat Hni H Hpat Hk Hnone.
  assert (slot_get sf (FN i) = Some v) as Hfin.
  { apply (fields_keep2 more _ _ _ _ _ _ _ _ Hflat H (FN i) v); [|apply slot_get_set_same].
    intros f Hin Hw. apply Hni. exact (wnames_fidxs more f i Hin Hw). }
  destruct Hpat as (p & v' & Hp & Hv' & Hpv). rewrite Hfin in Hv'. injection Hv' as <-.
  assert (forall x, p = PLit x -> x = v) as Hpv' by (intros x ->; exact Hpv).
  split; [exists p; split; [exact Hp|exact Hpv']|]. split.
  - intros g w x G Hq. rewrite slot_get_set in G. destruct (fname_eqb_spec g (FN i)) as [->|N].
    + injection G as <-. apply Hpv'. congruence.
    + exact (Hk g w x G Hq).
  - intros j Hj. rewrite slot_get_set_other; [apply Hnone; exact Hj|].
    intros E. injection E as ->. contradiction.
Qed.

(* ---- the expression of a run ---- *)
Fixpoint run_bits (ms : list cfield) : option (list (option bool)) :=
  match ms with
  | [] => Some []
  | CBits i _ _ _ shift mask _ _ :: r =>
      match pslot_get ps (FN i) with
      | None => None
      | Some p => match member_bits (bits_width shift mask) p, run_bits r with
                  | Some bs, Some L => Some (bs ++ L)
                  | _, _ => None
                  end
      end
  | _ => None
  end.

Lemma regex_run : forall i0 nbytes rest ms fi acc rs, ms <> [] -> run_spec i0 nbytes fi ms ->
  fields_regex host cf (ms ++ rest) ps acc = Some rs ->
  exists L b, run_bits ms = Some L /\ fields_regex host cf rest ps [] = Some b /\
              rs = map byte_class (chunks8 (acc ++ L) (length (acc ++ L))) ++ b.
Proof.
  intros i0 nbytes rest. induction ms as [|f r IH]; intros fi acc rs Hne Hs Hr; [congruence|].
  destruct f as [ | |i first last r0 shift mask nb d| | | ]; try contradiction.
  cbn [run_spec] in Hs. destruct Hs as (_ & Hlast & _ & _ & _ & _ & _ & _ & Hs').
  cbn [app fields_regex] in Hr. cbn [run_bits].
  change (Z.log2 (Z.shiftr mask shift + 1)) with (bits_width shift mask) in Hr.
  destruct (pslot_get ps (FN i)) as [p|]; [|discriminate Hr].
  destruct (member_bits (bits_width shift mask) p) as [bs|]; [|discriminate Hr].
  destruct r as [|f' r']; subst last.
  - cbn [app] in Hr. destruct (fields_regex host cf rest ps []) as [b|]; [|discriminate Hr].
    injection Hr as <-. exists (bs ++ []), b. cbn [run_bits]. rewrite app_nil_r. auto.
  - destruct (IH false (acc ++ bs) rs ltac:(discriminate) Hs' Hr) as (L & b & HL & Hb & ->).
    rewrite HL. exists (bs ++ L), b. rewrite app_assoc. auto.
Qed.

Definition member_agrees (I : Z) (f : cfield) : Prop :=
  match f with
  | CBits i _ _ _ shift mask _ _ => forall x, pslot_get ps (FN i) = Some (PLit x) -> x = VInt (bits_get I mask shift)
  | _ => True
  end.

(* the accumulated bits of the members, all of whose literals are the values parsed out of I *)
Lemma run_bits_agree : forall I i0 nbytes ms fi L, run_spec i0 nbytes fi ms -> run_bits ms = Some L ->
  Forall (member_agrees I) ms ->
  length L = Z.to_nat (zsum (map fwidth ms)) /\ agrees L I (zsum (map fwidth ms)).
Proof.
  intros I i0 nbytes. induction ms as [|f r IH]; intros fi L Hs HL Hag.
  - cbn [run_bits] in HL. injection HL as <-. split; [reflexivity|].
    intros p b Hp. destruct p; discriminate Hp.
  - destruct f as [ | |i first last r0 shift mask nb d| | | ]; try contradiction.
    cbn [run_spec] in Hs. destruct Hs as (_ & _ & _ & _ & Hsh & Hmask & Hs0 & Hw & Hs').
    cbn [run_bits] in HL.
    destruct (pslot_get ps (FN i)) as [p|] eqn:Hp; [|discriminate HL].
    destruct (member_bits (bits_width shift mask) p) as [bs|] eqn:Hb; [|discriminate HL].
    destruct (run_bits r) as [L'|] eqn:HL'; [|discriminate HL]. injection HL as <-.
    inversion Hag as [|f0 r0' Ha Hag']; subst f0 r0'. cbn [member_agrees] in Ha.
    destruct (IH false L' Hs' eq_refl Hag') as (Hlen & Hagr).
    cbn [map zsum fwidth].
    remember (bits_width shift mask) as w eqn:Hwdef.
    remember (zsum (map fwidth r)) as R' eqn:HR'.
    assert (length bs = Z.to_nat w /\
            forall q b, nth_error bs q = Some (Some b) -> b = Z.testbit I (w - 1 - Z.of_nat q + shift)) as (Hbl & Hbits).
    { unfold member_bits in Hb. destruct p as [x|].
      - rewrite (Ha x Hp) in Hb. cbn [as_int] in Hb.
        destruct ((0 <=? bits_get I mask shift) && (bits_get I mask shift <? 2 ^ w)); [|discriminate Hb].
        injection Hb as <-. split; [apply bits_of_length|]. intros q b Hn.
        assert (q < Z.to_nat w)%nat as Hq.
        { assert (nth_error (bits_of (Z.to_nat w) (bits_get I mask shift)) q <> None) as Hnn by congruence.
          apply nth_error_Some in Hnn. rewrite bits_of_length in Hnn. exact Hnn. }
        rewrite nth_bits_of in Hn by exact Hq. injection Hn as <-.
        rewrite Hmask. rewrite get_testbit by lia.
        replace (Z.of_nat (Z.to_nat w - 1 - q) <? w) with true by (symmetry; apply Z.ltb_lt; lia).
        cbn [andb]. f_equal. lia.
      - injection Hb as <-. split; [apply repeat_length|]. intros q b Hn.
        exfalso. exact (nth_repeat_none _ _ _ Hn). }
    split.
    + rewrite app_length, Hlen, Hbl. lia.
    + intros q b Hn. destruct (Nat.ltb_spec q (length bs)) as [Hlt|Hge].
      * rewrite nth_error_app1 in Hn by exact Hlt. rewrite (Hbits q b Hn). f_equal. lia.
      * rewrite nth_error_app2 in Hn by exact Hge. rewrite (Hagr _ b Hn). f_equal. lia.
Qed.

(* ---- the members after the first: each reads the shared integer ---- *)
Lemma run_tail : forall I i0 nbytes rest tl s off ipp t c' sf e t',
  run_spec i0 nbytes false tl ->
  forallb flat_field (tl ++ rest) = true -> NoDup (fidxs (tl ++ rest)) ->
  slot_get s (FBitsI i0) = Some (VInt I) ->
  knows2 ps s -> (forall j, In j (fidxs (tl ++ rest)) -> slot_get s (FN j) = None) ->
  pattern_is (tl ++ rest) ps sf ->
  unpack_fields host raw rec_unpack loop_fuel cf c (tl ++ rest) s off ipp t = POk (VPkt c' sf) e t' ->
  Forall (member_agrees I) tl /\
  exists s2 t2, unpack_fields host raw rec_unpack loop_fuel cf c rest s2 off ipp t2 = POk (VPkt c' sf) e t' /\
                knows2 ps s2 /\ (forall j, In j (fidxs rest) -> slot_get s2 (FN j) = None).
Proof.
  intros I i0 nbytes rest. induction tl as [|f r IH]; intros s off ipp t c' sf e t' Hs Hflat Hnd G Hk Hnone Hpat H.
  - split; [constructor|]. exists s, t. auto.
  - destruct f as [ | |i first last r0 shift mask nb d| | | ]; try contradiction.
    cbn [run_spec] in Hs. destruct Hs as (Hfi & _ & Hr0 & _ & _ & _ & _ & _ & Hs'). subst first r0.
    cbn [app forallb] in Hflat. apply andb_true_iff in Hflat as [_ Hflat].
    cbn [app unpack_fields] in H.
    destruct (unpack_field host raw rec_unpack loop_fuel cf c _ s off ipp) as [s2 o2 t2| | |] eqn:EF; try discriminate H.
    apply unpack_bits_ok in EF. destruct EF as (s1 & iv & G1 & -> & -> & ->).
    rewrite G in G1. injection G1 as <-.
    change (fidxs ((CBits i false last i0 shift mask nb d :: r) ++ rest)) with (i :: fidxs (r ++ rest)) in Hnd, Hnone.
    inversion Hnd as [|i' r' Hni Hnd']; subst i' r'.
    pose proof (Hpat _ (or_introl eq_refl)) as Hp. cbn beta iota in Hp.
    destruct (member_step i (r ++ rest) s _ off ipp _ c' sf e t' Hflat Hni H Hp Hk
                (fun j Hj => Hnone j (or_intror Hj))) as ((p & Hpp & Hpv) & Hk1 & Hn1).
    assert (pattern_is (r ++ rest) ps sf) as Hpat1 by (intros f Hin; apply Hpat; right; exact Hin).
    assert (slot_get (slot_set s (FN i) (VInt (bits_get I mask shift))) (FBitsI i0) = Some (VInt I)) as G2
      by (rewrite slot_get_set_other by discriminate; exact G).
    destruct (IH _ _ _ _ _ _ _ _ Hs' Hflat Hnd' G2 Hk1 Hn1 Hpat1 H) as (Hag & Hrest).
    split; [|exact Hrest]. constructor; [|exact Hag].
    cbn [member_agrees]. intros x Hx. apply Hpv. congruence.
Qed.

Lemma fields_sound2 : forall fuel fs, runs_ok fuel fs = true ->
  forall s off ipp t c' sf e t' rs,
  forallb flat_field fs = true -> NoDup (fidxs fs) ->
  (forall j, In j (fidxs fs) -> slot_get s (FN j) = None) ->
  0 <= off <= blen raw -> knows2 ps s -> pattern_is fs ps sf ->
  unpack_fields host raw rec_unpack loop_fuel cf c fs s off ipp t = POk (VPkt c' sf) e t' ->
  fields_regex host cf fs ps [] = Some rs ->
  off <= e <= blen raw /\ matches_seq rs (slice raw off e) (slice_from raw e).
Proof.
  assert (forall s off ipp t c' sf e t' rs, 0 <= off <= blen raw ->
            unpack_fields host raw rec_unpack loop_fuel cf c [] s off ipp t = POk (VPkt c' sf) e t' ->
            fields_regex host cf [] ps [] = Some rs ->
            off <= e <= blen raw /\ matches_seq rs (slice raw off e) (slice_from raw e)) as Hnil.
  { intros s off ipp t c' sf e t' rs Ho H Hr.
    cbn [unpack_fields] in H. injection H as _ _ <- _. cbn [fields_regex] in Hr. injection Hr as <-.
    split; [lia|]. rewrite slice_same. apply MSNil. }
  induction fuel as [|fuel IH]; intros fs Hruns s off ipp t c' sf e t' rs Hflat Hnd Hnone Ho Hk Hpat H Hr.
  - destruct fs; [|discriminate Hruns]. exact (Hnil _ _ _ _ _ _ _ _ _ Ho H Hr).
  - destruct fs as [|f r]; [exact (Hnil _ _ _ _ _ _ _ _ _ Ho H Hr)|].
    cbn [forallb] in Hflat. apply andb_true_iff in Hflat as [Hf Hflat].
    destruct f as [ | i [l| |] |i0 first last r0 shift mask nb d | | | ]; try discriminate Hf.
    + (* a leaf *)
      cbn [flat_field] in Hf. cbn [runs_ok] in Hruns.
      cbn [unpack_fields unpack_field unpack_elem] in H.
      destruct (unpack_leaf host raw cf c (FN i) l s off) as [[[v o1] t1]|x] eqn:EL; [|discriminate H].
      change (fidxs (CElem i (ELeafE l) :: r)) with (i :: fidxs r) in Hnd, Hnone.
      inversion Hnd as [|i' r' Hni Hnd']; subst i' r'.
      cbn [fields_regex] in Hr.
      destruct (leaf_regex host cf (FN i) l ps) as [a|] eqn:LR; [|discriminate Hr].
      destruct (fields_regex host cf r ps []) as [b|] eqn:FR; [|discriminate Hr]. injection Hr as <-.
      pose proof (Hpat _ (or_introl eq_refl)) as Hp. cbn beta iota in Hp.
      destruct (member_step i r s v o1 ipp _ c' sf e t' Hflat Hni H Hp Hk
                  (fun j Hj => Hnone j (or_intror Hj))) as ((p & Hpp & Hpv) & Hk1 & Hn1).
      destruct (leaf_regex_sound2 host raw cf c (FN i) ps Hraw Hps l s off v o1 t1 p a Ho Hf EL Hpp Hpv Hk LR)
        as (Ho1 & Hls).
      assert (pattern_is r ps sf) as Hpat1 by (intros f Hin; apply Hpat; right; exact Hin).
      assert (0 <= o1 <= blen raw) as Ho1' by lia.
      destruct (IH r Hruns _ _ _ _ _ _ _ _ _ Hflat Hnd' Hn1 Ho1' Hk1 Hpat1 H FR) as (He & Hms).
      split; [lia|].
      rewrite (RoundTrip.slice_split raw off o1 e) by lia.
      apply Hls; [|exact Hms]. apply slice_from_split. lia.
    + (* a run of bit fields *)
      cbn [runs_ok] in Hruns.
      destruct (take_run (CBits i0 first last r0 shift mask nb d :: r)) as [run rest0] eqn:Etr.
      apply andb_true_iff in Hruns as [Hrun Hruns].
      cbn [take_run] in Etr. destruct (take_run r) as [tl rest] eqn:E2. injection Etr as <- <-.
      apply take_run_app in E2. subst r.
      apply run_ok_spec in Hrun. destruct Hrun as (Hspec & Hz).
      pose proof Hspec as Hspec0.
      cbn [run_spec] in Hspec. destruct Hspec as (Hfi & _ & Hr0 & _ & _ & _ & Hs0 & Hw & Hs'). subst first r0.
      pose proof (run_spec_nonneg _ _ _ _ Hs') as Hztl.
      assert (1 <= nb) as Hnb by (cbn [map zsum fwidth] in Hz; lia).
      (* the first member reads the shared integer *)
      cbn [unpack_fields] in H.
      destruct (unpack_field host raw rec_unpack loop_fuel cf c _ s off ipp) as [s2 o2 t2| | |] eqn:EF; try discriminate H.
      apply unpack_bits_ok in EF. destruct EF as (s1 & iv & G1 & -> & EI & ->).
      apply int_unpack_strict in EI; [|lia|exact Hnb].
      destruct EI as (-> & Hle & Hd & Hl).
      rewrite (decode_unsigned nb true _ Hl) in Hd. injection Hd as Hiv. unfold unsigned_val in Hiv.
      set (B := slice raw off (off + nb)) in *.
      change (fidxs (CBits i0 true last i0 shift mask nb d :: tl ++ rest)) with (i0 :: fidxs (tl ++ rest)) in Hnd, Hnone.
      inversion Hnd as [|i' r' Hni Hnd']; subst i' r'.
      assert (knows2 ps (slot_set s (FBitsI i0) (VInt iv))) as Hk0.
      { intros g w x G Hq. rewrite slot_get_set in G. destruct (fname_eqb_spec g (FBitsI i0)) as [->|N].
        - exfalso. exact (Hhid i0 x Hq).
        - exact (Hk g w x G Hq). }
      assert (forall j, In j (fidxs (tl ++ rest)) -> slot_get (slot_set s (FBitsI i0) (VInt iv)) (FN j) = None) as Hn0.
      { intros j Hj. rewrite slot_get_set_other by discriminate. apply Hnone. right. exact Hj. }
      pose proof (Hpat _ (or_introl eq_refl)) as Hp. cbn beta iota in Hp.
      destruct (member_step i0 (tl ++ rest) _ _ _ ipp _ c' sf e t' Hflat Hni H Hp Hk0 Hn0)
        as ((p & Hpp & Hpv) & Hk1 & Hn1).
      assert (pattern_is (tl ++ rest) ps sf) as Hpat1 by (intros f Hin; apply Hpat; right; exact Hin).
      assert (slot_get (slot_set (slot_set s (FBitsI i0) (VInt iv)) (FN i0) (VInt (bits_get iv mask shift))) (FBitsI i0)
              = Some (VInt iv)) as G2
        by (rewrite slot_get_set_other by discriminate; apply slot_get_set_same).
      destruct (run_tail iv i0 nb rest tl _ _ _ _ _ _ _ _ Hs' Hflat Hnd' G2 Hk1 Hn1 Hpat1 H)
        as (Hag & s3 & t3 & H3 & Hk3 & Hn3).
      assert (Forall (member_agrees iv) (CBits i0 true last i0 shift mask nb d :: tl)) as Hag0.
      { constructor; [|exact Hag]. cbn [member_agrees]. intros x Hx. apply Hpv. congruence. }
      (* the expression of the run *)
      change (CBits i0 true last i0 shift mask nb d :: tl ++ rest)
        with ((CBits i0 true last i0 shift mask nb d :: tl) ++ rest) in Hr.
      destruct (regex_run i0 nb rest (CBits i0 true last i0 shift mask nb d :: tl) true [] rs ltac:(discriminate) Hspec0 Hr) as (L & b & HL & Hb & ->).
      cbn [app].
      destruct (run_bits_agree iv i0 nb _ true L Hspec0 HL Hag0) as (HLlen & HLag).
      rewrite Hz in HLlen, HLag.
      (* the rest of the fields *)
      assert (NoDup (fidxs rest)) as Hnd3.
      { unfold fidxs in Hnd'. rewrite flat_map_app in Hnd'. apply NoDup_app_r in Hnd'. exact Hnd'. }
      assert (forallb flat_field rest = true) as Hflat3.
      { rewrite forallb_app in Hflat. apply andb_true_iff in Hflat as [_ Hflat]. exact Hflat. }
      assert (pattern_is rest ps sf) as Hpat3.
      { intros f Hin. apply Hpat1. apply in_or_app. right. exact Hin. }
      assert (0 <= off + nb <= blen raw) as Ho3 by lia.
      destruct (IH rest Hruns _ _ _ _ _ _ _ _ _ Hflat3 Hnd3 Hn3 Ho3 Hk3 Hpat3 H3 Hb) as (He & Hms).
      split; [lia|].
      rewrite (RoundTrip.slice_split raw off (off + nb) e) by lia. fold B.
      assert (length B = Z.to_nat nb) as HBlen by (unfold blen in Hl; lia).
      rewrite (chunks8_n (length B) (length L) L) by lia.
      apply chunks_sound; [apply wf_bytes_slice; exact Hraw|lia| |exact Hms].
      rewrite Hiv. replace (8 * Z.of_nat (length B)) with (8 * nb) by lia. exact HLag.
Qed.
End Loop2.

(* ------------------------------------------------------------------------------------------ *)
(** * The theorem                                                                              *)
(* ------------------------------------------------------------------------------------------ *)

(* a pattern packet only carries declared attributes *)
Definition ps_visible (ps : pslots) : bool :=
  forallb (fun p => match fst p with FN _ => true | _ => false end) ps.

Lemma ps_visible_hidden : forall ps, ps_visible ps = true -> forall j x, pslot_get ps (FBitsI j) <> Some (PLit x).
Proof.
  intros ps H j x Hq. apply pslot_get_in in Hq. unfold ps_visible in H. rewrite forallb_forall in H.
  specialize (H _ Hq). cbn [fst] in H. discriminate H.
Qed.

(* the general form: the pattern may name hidden slots, as long as it fixes no shared integer of a bit run *)
Theorem regex_sound_hidden : forall fuel host ct c k raw s e t ps rs,
  ct_get ct c = Some k -> forallb flat_field (cc_fields k) = true -> class_bits_ok k = true ->
  nodupb (fidxs (cc_fields k)) = true ->
  NoDup (map fst ps) -> (forall j x, pslot_get ps (FBitsI j) <> Some (PLit x)) -> wf_bytes raw ->
  unpack_pkt fuel host ct raw c 0 = POk (VPkt c s) e t ->
  pattern_is (cc_fields k) ps s ->
  regex_of host k ps = Some rs ->
  prefix_match rs raw.
Proof.
  intros fuel host ct c k raw s e t ps rs Hk Hflat Hbits Hnd Hps Hhid Hraw H Hpat Hr.
  destruct fuel as [|fuel]; cbn [unpack_pkt] in H; [discriminate H|]. rewrite Hk in H.
  pose proof (blen_nonneg raw) as Hlen.
  assert (0 <= 0 <= blen raw) as H0 by lia.
  assert (knows2 ps []) as Hk0 by (intros g w x G; discriminate G).
  destruct (fields_sound2 host raw (unpack_pkt fuel host ct raw) fuel ps (cc_conf k) c Hraw Hps Hhid
              (length (cc_fields k)) (cc_fields k) Hbits [] 0 0 [] c s e t rs Hflat (nodupb_NoDup _ Hnd)
              (fun j _ => eq_refl) H0 Hk0 Hpat H Hr) as (He & Hms).
  exists (slice raw 0 e), (slice_from raw e). split; [|exact Hms].
  rewrite <- (slice_from_split raw 0 e) by lia. symmetry. apply slice_from_0.
Qed.

(* S10, with the added hypothesis ps_visible (without it the statement is false: regex_sound_needs_visible below) *)
Theorem regex_sound : forall fuel host ct c k raw s e t ps rs,
  ct_get ct c = Some k -> forallb flat_field (cc_fields k) = true -> class_bits_ok k = true ->
  nodupb (fidxs (cc_fields k)) = true ->
  NoDup (map fst ps) -> ps_visible ps = true -> wf_bytes raw ->
  unpack_pkt fuel host ct raw c 0 = POk (VPkt c s) e t ->
  pattern_is (cc_fields k) ps s ->
  regex_of host k ps = Some rs ->
  prefix_match rs raw.
Proof.
  intros fuel host ct c k raw s e t ps rs Hk Hflat Hbits Hnd Hps Hvis.
  exact (regex_sound_hidden fuel host ct c k raw s e t ps rs Hk Hflat Hbits Hnd Hps (ps_visible_hidden ps Hvis)).
Qed.

(* ------------------------------------------------------------------------------------------ *)
(** * Without ps_visible the statement is false                                                *)
(* ------------------------------------------------------------------------------------------ *)

(* a Data field sized by the hidden shared integer of the run, and a pattern that fixes that hidden slot to another
   value: every hypothesis of S10 as first stated holds, and the expression matches no prefix of raw *)
Definition rb_cx_k : cclass :=
  {| cc_conf := empty_conf; cc_gen_pack := false; cc_gen_unpack := false; cc_vectorize := false;
     cc_fields := [CBits 0 true true 0 0 255 1 VNone;
                   CElem 1 (ELeafE (LDataSized (EField (FBitsI 0)) false VNone))] |}.
Definition rb_cx_raw : bytes := [2; 65; 66].
Definition rb_cx_slots : slots := [(FBitsI 0, VInt 2); (FN 0, VInt 2); (FN 1, VBytes [65; 66])].
Definition rb_cx_ps : pslots := [(FN 0, PAny); (FN 1, PAny); (FBitsI 0, PLit (VInt 3))].

Example regex_sound_needs_visible :
  ct_get [(0, rb_cx_k)] 0 = Some rb_cx_k /\
  forallb flat_field (cc_fields rb_cx_k) = true /\ class_bits_ok rb_cx_k = true /\
  nodupb (fidxs (cc_fields rb_cx_k)) = true /\
  NoDup (map fst rb_cx_ps) /\ wf_bytes rb_cx_raw /\
  (exists t, unpack_pkt 1 true [(0, rb_cx_k)] rb_cx_raw 0 0 = POk (VPkt 0 rb_cx_slots) 3 t) /\
  pattern_is (cc_fields rb_cx_k) rb_cx_ps rb_cx_slots /\
  regex_of true rb_cx_k rb_cx_ps = Some [RAny 1; RAny 3] /\
  ~ prefix_match [RAny 1; RAny 3] rb_cx_raw /\
  ps_visible rb_cx_ps = false.
Proof.
  split; [reflexivity|]. split; [reflexivity|]. split; [vm_compute; reflexivity|]. split; [reflexivity|].
  split.
  { cbn [map fst rb_cx_ps].
    repeat (constructor; [cbn [In]; intros H; repeat (destruct H as [H|H]; [discriminate H|]); exact H|]).
    constructor. }
  split; [unfold wf_bytes, rb_cx_raw, wf_byte; repeat constructor; lia|].
  split; [eexists; vm_compute; reflexivity|].
  split.
  { intros f Hin. cbn [cc_fields rb_cx_k In] in Hin.
    repeat (destruct Hin as [<-|Hin]; [eexists; eexists; vm_compute; repeat split|]). destruct Hin. }
  split; [vm_compute; reflexivity|].
  split; [|reflexivity].
  intros (w & rest & Hw & Hm).
  inversion Hm as [|r1 rs1 w1 ws1 rest1 Hm1 Hs1]; subst.
  inversion Hm1 as [|n1 w1' rest1' Hl1| | | | |]; subst.
  inversion Hs1 as [|r2 rs2 w2 ws2 rest2 Hm2 Hs2]; subst.
  inversion Hm2 as [|n2 w2' rest2' Hl2| | | | |]; subst.
  apply (f_equal (@length Z)) in Hw. rewrite !app_length in Hw. unfold blen in Hl1, Hl2.
  cbn [rb_cx_raw length] in Hw. lia.
Qed.

(* ------------------------------------------------------------------------------------------ *)
(** * The hypotheses are satisfiable: a run of 3 + 5 + 8 bits between an Int and a Data         *)
(* ------------------------------------------------------------------------------------------ *)

Definition rb_ex_k : cclass :=
  {| cc_conf := empty_conf; cc_gen_pack := false; cc_gen_unpack := false; cc_vectorize := false;
     cc_fields := [CElem 0 (ELeafE (LInt 1 false None VNone));
                   CBits 1 true false 1 13 57344 2 VNone;
                   CBits 2 false false 1 8 7936 2 VNone;
                   CBits 3 false true 1 0 255 2 VNone;
                   CElem 4 (ELeafE (LDataSized (EField (FN 2)) false VNone))] |}.
(* 163 = 101 00011, 90: the members are 5, 3 and 90; the Data is sized by the second member *)
Definition rb_ex_raw : bytes := [7; 163; 90; 65; 66; 67; 99].
Definition rb_ex_slots : slots :=
  [(FN 0, VInt 7); (FBitsI 1, VInt 41818); (FN 1, VInt 5); (FN 2, VInt 3); (FN 3, VInt 90);
   (FN 4, VBytes [65; 66; 67])].
(* the 3-bit and the 8-bit members fixed, the 5-bit one Any: a range for the first byte *)
Definition rb_ex_ps0 : pslots :=
  [(FN 0, PLit (VInt 7)); (FN 1, PLit (VInt 5)); (FN 2, PAny); (FN 3, PLit (VInt 90)); (FN 4, PAny)].
(* only the 5-bit member fixed: a set for the first byte, any second byte *)
Definition rb_ex_ps1 : pslots :=
  [(FN 0, PAny); (FN 1, PAny); (FN 2, PLit (VInt 3)); (FN 3, PAny); (FN 4, PLit (VBytes [65; 66; 67]))].

Lemma rb_ex_pattern_is (ps : pslots) : ps = rb_ex_ps0 \/ ps = rb_ex_ps1 -> pattern_is (cc_fields rb_ex_k) ps rb_ex_slots.
Proof.
  intros Hps f Hin. cbn [cc_fields rb_ex_k In] in Hin.
  destruct Hps as [-> | ->];
    repeat (destruct Hin as [<-|Hin]; [eexists; eexists; vm_compute; repeat split|]); destruct Hin.
Qed.

Example regex_sound_bits_nonvacuous :
  ct_get [(0, rb_ex_k)] 0 = Some rb_ex_k /\
  forallb flat_field (cc_fields rb_ex_k) = true /\ class_bits_ok rb_ex_k = true /\
  nodupb (fidxs (cc_fields rb_ex_k)) = true /\
  wf_bytes rb_ex_raw /\
  (exists t, unpack_pkt 1 true [(0, rb_ex_k)] rb_ex_raw 0 0 = POk (VPkt 0 rb_ex_slots) 6 t) /\
  pattern_is (cc_fields rb_ex_k) rb_ex_ps0 rb_ex_slots /\ NoDup (map fst rb_ex_ps0) /\ ps_visible rb_ex_ps0 = true /\
  regex_of true rb_ex_k rb_ex_ps0 = Some [RLit [7]; RRange 160 191; RLit [90]; RStar] /\
  pattern_is (cc_fields rb_ex_k) rb_ex_ps1 rb_ex_slots /\ NoDup (map fst rb_ex_ps1) /\ ps_visible rb_ex_ps1 = true /\
  regex_of true rb_ex_k rb_ex_ps1 =
    Some [RAny 1; RSet [3; 35; 67; 99; 131; 163; 195; 227]; RAny 1; RLit [65; 66; 67]].
Proof.
  assert (forall ps : pslots, ps = rb_ex_ps0 \/ ps = rb_ex_ps1 -> NoDup (map fst ps)) as Hnd.
  { intros ps [-> | ->]; cbn [map fst rb_ex_ps0 rb_ex_ps1];
      repeat (constructor; [cbn [In]; intros H; repeat (destruct H as [H|H]; [discriminate H|]); exact H|]);
      constructor. }
  split; [reflexivity|]. split; [reflexivity|]. split; [vm_compute; reflexivity|]. split; [reflexivity|].
  split; [unfold wf_bytes, rb_ex_raw, wf_byte; repeat constructor; lia|].
  split; [eexists; vm_compute; reflexivity|].
  split; [apply rb_ex_pattern_is; left; reflexivity|].
  split; [apply Hnd; left; reflexivity|]. split; [reflexivity|].
  split; [vm_compute; reflexivity|].
  split; [apply rb_ex_pattern_is; right; reflexivity|].
  split; [apply Hnd; right; reflexivity|]. split; [reflexivity|].
  vm_compute. reflexivity.
Qed.

(* the theorem applied to the example *)
Example regex_sound_bits_applied :
  prefix_match [RLit [7]; RRange 160 191; RLit [90]; RStar] rb_ex_raw /\
  prefix_match [RAny 1; RSet [3; 35; 67; 99; 131; 163; 195; 227]; RAny 1; RLit [65; 66; 67]] rb_ex_raw.
Proof.
  destruct regex_sound_bits_nonvacuous
    as (Hk & Hf & Hb & Hn & Hw & (t & Hu) & Hp0 & Hd0 & Hv0 & Hr0 & Hp1 & Hd1 & Hv1 & Hr1).
  split.
  - exact (regex_sound 1 true _ 0 rb_ex_k rb_ex_raw _ _ _ rb_ex_ps0 _ Hk Hf Hb Hn Hd0 Hv0 Hw Hu Hp0 Hr0).
  - exact (regex_sound 1 true _ 0 rb_ex_k rb_ex_raw _ _ _ rb_ex_ps1 _ Hk Hf Hb Hn Hd1 Hv1 Hw Hu Hp1 Hr1).
Qed.

Print Assumptions chunks_sound.
Print Assumptions fields_sound2.
Print Assumptions regex_sound_hidden.
Print Assumptions regex_sound.
Print Assumptions regex_sound_needs_visible.
Print Assumptions regex_sound_bits_nonvacuous.
Print Assumptions regex_sound_bits_applied.
