(* Proofs/RoundTripFull.v -- C01 for the whole declaration language: the round trip of Proofs/RoundTrip.v
   extended to bit-field runs, and lifted from the generic field loops to the code a class really runs
   (unpack_any / pack_any_top: generated or generic code, whatever the options).  Stdlib only, no axioms. *)
From Coq Require Import ZArith List Bool Lia.
From Bisturi Require Import Base.Bytes Kernel.IntCodec Kernel.Align Kernel.BitsK Kernel.DataK Kernel.Frag
  Model.Value Model.Decl Model.Unpack Model.Pack Model.Init Model.Codegen Model.Wf Model.Wf2 Model.Wf3 Model.WfBits
  Proofs.FragProofs Proofs.IntCodecProofs Proofs.DataProofs Proofs.BitsProofs Proofs.RoundTrip Proofs.CodegenEquiv.
Import ListNotations. Open Scope Z_scope.

(* the round-trip side conditions of Model/Wf3.v, with bit runs allowed *)
Definition cfield_rtb (base : Z) (f : cfield) : bool :=
  match f with CBits _ _ _ _ _ _ _ _ => true | _ => cfield_rt base f end.
Definition ct_rtb (base : Z) (ct : ctab) : bool := forallb (fun ck => forallb (cfield_rtb base) (cc_fields (snd ck))) ct.

(* ------------------------------------------------------------------------------------------ *)
(** * Bit arithmetic: writing back the slice just read changes nothing                          *)
(* ------------------------------------------------------------------------------------------ *)

Lemma bits_put_get_id (I x s : Z) : 0 <= s ->
  bits_put I (bits_get I (Z.shiftl x s) s) (Z.shiftl x s) s = I.
Proof.
  intros Hs. unfold bits_put, bits_get. apply Z.bits_inj'. intros n Hn.
  rewrite Z.lor_spec, !Z.land_spec, Z.lnot_spec by lia.
  destruct (Z.ltb_spec n s) as [Hlt|Hge].
  - rewrite (Z.shiftl_spec_low x s n) by lia. rewrite andb_false_r. cbn [orb negb]. apply andb_true_r.
  - rewrite (Z.shiftl_spec _ s n) by lia. rewrite Z.shiftr_spec by lia.
    replace (n - s + s) with n by lia. rewrite Z.land_spec.
    destruct (Z.testbit I n), (Z.testbit (Z.shiftl x s) n); reflexivity.
Qed.

Lemma slot_set_same_val (s : slots) (f : fname) (v : value) : slot_get s f = Some v -> slot_set s f v = s.
Proof.
  induction s as [|[g w] r IH]; cbn [slot_get slot_set]; [discriminate|].
  destruct (fname_eqb f g).
  - intros H. injection H as ->. reflexivity.
  - intros H. rewrite (IH H). reflexivity.
Qed.

(* ------------------------------------------------------------------------------------------ *)
(** * What run_ok says of the members of a run                                                 *)
(* ------------------------------------------------------------------------------------------ *)

Definition isb (f : cfield) : bool := match f with CBits _ _ _ _ _ _ _ _ => true | _ => false end.

(* the members of (a suffix of) a run: flags, shared slot, byte count, and a mask with no bit under the shift *)
Fixpoint mem_ok (run0 nb : Z) (first : bool) (ms : list cfield) : Prop :=
  match ms with
  | [] => True
  | CBits i bf bl r0 sh mk nbv d :: r =>
      bf = first /\ bl = (match r with [] => true | _ => false end) /\ r0 = run0 /\ nbv = nb /\ 0 <= sh /\
      (exists x, mk = Z.shiftl x sh) /\ mem_ok run0 nb false r
  | _ => False
  end.

Definition cf_width (f : cfield) : Z :=
  match f with CBits _ _ _ _ shift mask _ _ => bits_width shift mask | _ => 0 end.

Lemma layout_shifted (ws : list Z) : Forall (fun p => exists x, snd p = Z.shiftl x (fst p)) (layout ws).
Proof.
  induction ws as [|w r IH]; cbn [layout]; constructor; [|exact IH].
  cbn [fst snd]. exists (2 ^ w - 1). reflexivity.
Qed.

Lemma members_aux (i0 nb : Z) (n : nat) : forall run' k sm',
  length sm' = length run' -> (k + length run' = n)%nat ->
  Forall (fun p => exists x, snd p = Z.shiftl x (fst p)) sm' ->
  forallb (fun p => member_ok i0 nb n (fst (fst p)) (snd (fst p)) (snd p))
          (combine (combine (seq k (length run')) run') sm') = true ->
  mem_ok i0 nb (Nat.eqb k 0) run' /\ Forall (fun f => 1 <= cf_width f) run'.
Proof.
  induction run' as [|f r IH]; intros k sm' Hlen Hk Hsh H.
  - split; [exact I|constructor].
  - destruct sm' as [|p sm'']; [discriminate Hlen|].
    cbn [length seq combine forallb fst snd] in H. apply andb_true_iff in H as [Hm Hr].
    pose proof (Forall_inv Hsh) as Hp. pose proof (Forall_inv_tail Hsh) as Hsh'. cbv beta in Hp.
    cbn [length] in Hlen, Hk. injection Hlen as Hlen.
    destruct (IH (S k) sm'' Hlen ltac:(lia) Hsh' Hr) as [IH1 IH2].
    destruct f as [| |i bf bl r0 sh mk nbv d| | |]; cbn [member_ok] in Hm; try discriminate.
    repeat (apply andb_true_iff in Hm as [Hm ?]).
    split.
    + cbn [mem_ok]. split; [apply eqb_prop; assumption|]. split.
      { match goal with H : Bool.eqb bl _ = true |- _ => apply eqb_prop in H; rewrite H end.
        destruct r as [|f' r'].
        - cbn [length] in Hk. apply Nat.eqb_eq. lia.
        - cbn [length] in Hk. apply Nat.eqb_neq. lia. }
      split; [apply Z.eqb_eq; assumption|]. split; [apply Z.eqb_eq; assumption|].
      split; [apply Z.leb_le; assumption|]. split; [|exact IH1].
      destruct Hp as [x Hx]. exists x.
      match goal with H : (mk =? snd p) = true |- _ => apply Z.eqb_eq in H; rewrite H end.
      match goal with H : (sh =? fst p) = true |- _ => apply Z.eqb_eq in H; rewrite H end.
      exact Hx.
    + constructor; [|exact IH2]. cbn [cf_width]. apply Z.leb_le. assumption.
Qed.

Lemma zsum_ge1 (ws : list Z) : Forall (fun w => 1 <= w) ws -> ws <> [] -> 1 <= zsum ws.
Proof.
  intros H Hne. destruct ws as [|w r]; [congruence|]. inversion H as [|? ? Hw Hr]; subst. cbn [zsum].
  assert (0 <= zsum r); [|lia]. clear -Hr. induction Hr as [|x l Hx Hl IH]; cbn [zsum]; lia.
Qed.

Lemma run_ok_mem (i0 : Z) (f0 l0 : bool) (r0 sh0 mk0 nb : Z) (d0 : value) (r : list cfield) :
  run_ok (CBits i0 f0 l0 r0 sh0 mk0 nb d0 :: r) = true ->
  mem_ok i0 nb true (CBits i0 f0 l0 r0 sh0 mk0 nb d0 :: r) /\ 1 <= nb.
Proof.
  set (run := CBits i0 f0 l0 r0 sh0 mk0 nb d0 :: r). intros H. unfold run_ok in H. fold run in H.
  cbv zeta in H.
  change (map (fun f => match f with CBits _ _ _ _ shift mask _ _ => bits_width shift mask | _ => 0 end) run)
    with (map cf_width run) in H.
  destruct (bits_compile (map cf_width run)) as [[sm nb']|] eqn:Ec; [|discriminate].
  apply bits_compile_inv in Ec as [-> Hz].
  apply andb_true_iff in H as [H Hall]. apply andb_true_iff in H as [Hnb Hlen].
  apply Z.eqb_eq in Hnb. subst nb'. apply Z.eqb_eq in Hlen. apply Nat2Z.inj in Hlen.
  destruct (members_aux i0 nb (length run) run 0%nat (layout (map cf_width run)) Hlen eq_refl
              (layout_shifted _) Hall) as [Hm Hw].
  split; [exact Hm|].
  assert (1 <= zsum (map cf_width run)); [|lia].
  apply zsum_ge1; [|discriminate]. apply Forall_forall. intros w Hin. apply in_map_iff in Hin as (f & <- & Hf).
  rewrite Forall_forall in Hw. exact (Hw f Hf).
Qed.

Lemma take_run_spec : forall fs run rest, take_run fs = (run, rest) ->
  fs = run ++ rest /\ Forall (fun f => isb f = true) run.
Proof.
  induction fs as [|f r IH]; intros run rest H.
  - injection H as <- <-. split; [reflexivity|constructor].
  - destruct f; cbn [take_run] in H; try (injection H as <- <-; split; [reflexivity|constructor]).
    destruct (take_run r) as [run' rest'] eqn:Et. injection H as <- <-.
    destruct (IH run' rest' eq_refl) as [-> Hb]. split; [reflexivity|]. constructor; [reflexivity|exact Hb].
Qed.

(* ------------------------------------------------------------------------------------------ *)
(** * The members of a run, field by field                                                     *)
(* ------------------------------------------------------------------------------------------ *)

(* what parsing the members ms writes, the shared integer being I *)
Fixpoint set_members (I : Z) (ms : list cfield) (s : slots) : slots :=
  match ms with
  | [] => s
  | CBits i _ _ _ sh mk _ _ :: r => set_members I r (slot_set s (FN i) (VInt (bits_get I mk sh)))
  | _ :: r => set_members I r s
  end.
(* the declared attribute of a member holds the slice of I it parsed *)
Definition mslot (I : Z) (sp : slots) (f : cfield) : Prop :=
  match f with CBits i _ _ _ sh mk _ _ => slot_get sp (FN i) = Some (VInt (bits_get I mk sh)) | _ => True end.

Lemma set_members_other (I : Z) : forall ms s g, (forall j, In j (fidxs ms) -> g <> FN j) ->
  slot_get (set_members I ms s) g = slot_get s g.
Proof.
  induction ms as [|f r IH]; intros s g Hg; cbn [set_members]; [reflexivity|].
  assert (Hr : forall j, In j (fidxs r) -> g <> FN j).
  { intros j Hj. apply Hg. unfold fidxs. cbn [flat_map]. apply in_or_app. right. exact Hj. }
  destruct f as [| |i bf bl r0 sh mk nbv d| | |]; try (apply IH; exact Hr).
  rewrite (IH _ _ Hr). apply slot_get_set_other. apply Hg. left. reflexivity.
Qed.

Lemma set_members_get (I : Z) : forall ms s, NoDup (fidxs ms) -> Forall (fun f => isb f = true) ms ->
  Forall (mslot I (set_members I ms s)) ms.
Proof.
  induction ms as [|f r IH]; intros s Hnd Hb; [constructor|].
  pose proof (Forall_inv Hb) as Hbf. pose proof (Forall_inv_tail Hb) as Hbr.
  destruct f as [| |i bf bl r0 sh mk nbv d| | |]; try discriminate Hbf.
  unfold fidxs in Hnd. cbn [flat_map fidx app] in Hnd. fold (fidxs r) in Hnd.
  inversion Hnd as [|? ? Hni Hndr]; subst.
  cbn [set_members]. constructor; [|exact (IH _ Hndr Hbr)].
  cbn [mslot]. rewrite set_members_other; [apply slot_get_set_same|].
  intros j Hj E. injection E as ->. exact (Hni Hj).
Qed.

Lemma set_members_all (I : Z) : forall ms s, slots_all s -> slots_all (set_members I ms s).
Proof.
  induction ms as [|f r IH]; intros s Hs; cbn [set_members]; [exact Hs|].
  destruct f; try (apply IH; exact Hs). apply IH. apply slots_all_set; [exact Hs|reflexivity].
Qed.

Section RTB.
Variables (host : bool) (raw : bytes) (rec_unpack : cid -> Z -> pres) (loop_fuel : nat)
          (dl : dstate) (rec_pack : cid -> slots -> frs -> qres) (base : Z).
Hypothesis Hraw : wf_bytes raw.
Hypothesis Hbase : 0 <= base.
Hypothesis HREC : rt_inv base raw rec_unpack rec_pack.

Lemma unpack_bits_first (cf : lconf) (c : cid) (i : Z) (bl : bool) (run0 sh mk nb : Z) (d : value) (s : slots) (off ipp : Z) :
  unpack_field host raw rec_unpack loop_fuel cf c (CBits i true bl run0 sh mk nb d) s off ipp =
  match int_unpack nb false true raw off with
  | Some (v, o') => FOk (slot_set (slot_set s (FBitsI run0) (VInt v)) (FN i) (VInt (bits_get v mk sh))) o'
                        [TChunk off (slice raw off o')]
  | None => FExn (if has_struct_code nb then StructError else GenericError)
  end.
Proof.
  cbn [unpack_field]. destruct (int_unpack nb false true raw off) as [[v o']|]; [|reflexivity].
  rewrite slot_get_set_same. reflexivity.
Qed.

Lemma unpack_bits_next (cf : lconf) (c : cid) (i : Z) (bl : bool) (run0 sh mk nb : Z) (d : value) (s : slots) (off ipp I : Z) :
  slot_get s (FBitsI run0) = Some (VInt I) ->
  unpack_field host raw rec_unpack loop_fuel cf c (CBits i false bl run0 sh mk nb d) s off ipp =
  FOk (slot_set s (FN i) (VInt (bits_get I mk sh))) off [].
Proof. intros G. cbn [unpack_field]. rewrite G. reflexivity. Qed.

Lemma unpack_tail (cf : lconf) (c : cid) (run0 nb I : Z) (rest : list cfield) (off ipp : Z) : forall ms s t,
  mem_ok run0 nb false ms -> slot_get s (FBitsI run0) = Some (VInt I) ->
  unpack_fields host raw rec_unpack loop_fuel cf c (ms ++ rest) s off ipp t =
  unpack_fields host raw rec_unpack loop_fuel cf c rest (set_members I ms s) off ipp t.
Proof.
  induction ms as [|f r IH]; intros s t Hm G; [reflexivity|].
  destruct f as [| |i bf bl r0 sh mk nbv d| | |]; try contradiction.
  cbn [mem_ok] in Hm. destruct Hm as (-> & _ & -> & -> & _ & _ & Hr).
  cbn [app unpack_fields set_members]. rewrite (unpack_bits_next cf c i bl run0 sh mk nb d s off ipp I G).
  rewrite app_nil_r. apply IH; [exact Hr|]. rewrite slot_get_set_other by discriminate. exact G.
Qed.

Lemma pack_member (cf : lconf) (c : cid) (i : Z) (bf bl : bool) (run0 sh mk nb : Z) (d : value) (sp : slots) (fr : frs)
      (ipp I x : Z) :
  0 <= sh -> mk = Z.shiftl x sh -> slot_get sp (FBitsI run0) = Some (VInt I) ->
  slot_get sp (FN i) = Some (VInt (bits_get I mk sh)) ->
  pack_field host dl rec_pack cf c (CBits i bf bl run0 sh mk nb d) sp fr ipp =
  if bl then match encode nb false true I with Some b => emit sp fr b | None => KExn OverflowError (cur fr) end
  else KOk sp fr.
Proof.
  intros Hsh -> G Gi. cbn [pack_field]. rewrite G, Gi. cbn [as_int]. cbv zeta.
  rewrite (bits_put_get_id I x sh Hsh). rewrite (slot_set_same_val sp _ _ G). reflexivity.
Qed.

(* on the pack side the whole run behaves as its last member alone *)
Lemma pack_run (cf : lconf) (c : cid) (run0 nb I : Z) (rest : list cfield) (sp : slots) (fr : frs) (ipp : Z) :
  slot_get sp (FBitsI run0) = Some (VInt I) ->
  forall ms bf0, ms <> [] -> mem_ok run0 nb bf0 ms -> Forall (mslot I sp) ms ->
  exists nm,
  pack_fields host dl rec_pack cf c (ms ++ rest) sp fr ipp =
  match (match encode nb false true I with Some b => emit sp fr b | None => KExn OverflowError (cur fr) end) with
  | KOk s1 fr1 => pack_fields host dl rec_pack cf c rest s1 fr1 ipp
  | KExn _ at_cur => QFail [(at_cur, nm, c)]
  | KFail st => QFail (st ++ [(match st with (o, _, _) :: _ => o | [] => cur fr end, nm, c)])
  | KFuel => QFuel
  end.
Proof.
  intros G. induction ms as [|f r IH]; intros bf0 Hne Hm Hs; [congruence|].
  destruct f as [| |i bf bl r0 sh mk nbv d| | |]; try contradiction.
  cbn [mem_ok] in Hm. destruct Hm as (_ & Hbl & -> & -> & Hsh & (x & Hx) & Hr).
  pose proof (Forall_inv Hs) as Hsf. pose proof (Forall_inv_tail Hs) as Hsr. cbn [mslot] in Hsf.
  cbn [app pack_fields]. rewrite (pack_member cf c i bf bl run0 sh mk nb d sp fr ipp I x Hsh Hx G Hsf).
  destruct r as [|f' r'].
  - subst bl. exists (cf_name (CBits i bf true run0 sh mk nb d)). reflexivity.
  - subst bl. apply (IH false); [discriminate|exact Hr|exact Hsr].
Qed.

(* ---- frames: which slots a field can write ---- *)
Definition fr_ok (f : cfield) (g : fname) : Prop :=
  match g with
  | FN j | FSeqElem j | FOptElem j => ~ In j (fidx f)
  | FBitsI _ => isb f = false
  | _ => True
  end.

Lemma fr_ok_names (f : cfield) (i : Z) (g : fname) : fr_ok f g -> In i (fidx f) ->
  g <> FN i /\ g <> FSeqElem i /\ g <> FOptElem i.
Proof.
  intros H Hi. repeat split; intros ->; cbn [fr_ok] in H; exact (H Hi).
Qed.

Lemma unpack_elem_set (cf : lconf) (c : cid) (name : fname) (e : elem) (s : slots) (off : Z) (s1 : slots) (o1 : Z) (t1 : trace) :
  unpack_elem host raw rec_unpack cf c name e s off = FOk s1 o1 t1 -> exists v, s1 = slot_set s name v.
Proof.
  destruct e as [l|c' proto|sel d]; cbn [unpack_elem].
  - destruct (unpack_leaf host raw cf c name l s off) as [[[v o'] t]|]; [|discriminate].
    intros H. injection H as <- _ _. eexists; reflexivity.
  - destruct (rec_unpack c' off) as [v o' t| |]; try discriminate.
    intros H. injection H as <- _ _. eexists; reflexivity.
  - destruct (eval (mkctx raw s off) sel) as [w|]; [|discriminate].
    destruct w as [| | | | | | |c' ps|c' kw|l]; try discriminate.
    + destruct (rec_unpack c' off) as [v o' t| |]; try discriminate.
      intros H. injection H as <- _ _. eexists; reflexivity.
    + destruct (rec_unpack c' off) as [v o' t| |]; try discriminate.
      intros H. injection H as <- _ _. eexists; reflexivity.
    + destruct (unpack_leaf host raw empty_conf c name l s off) as [[[v o'] t]|]; [|discriminate].
      intros H. injection H as <- _ _. eexists; reflexivity.
Qed.

Lemma append_to_other (s : slots) (name : fname) (v : value) (g : fname) : g <> name ->
  slot_get (append_to s name v) g = slot_get s g.
Proof.
  intros Hg. unfold append_to. destruct (slot_get s name) as [[]|]; try reflexivity.
  apply slot_get_set_other. exact Hg.
Qed.

Lemma unpack_count_frame (cf : lconf) (c : cid) (i : Z) (e : elem) (al : Z) (g : fname) :
  g <> FN i -> g <> FSeqElem i -> forall k s off t s' o' t',
  unpack_count host raw rec_unpack cf c i e al k s off t = FOk s' o' t' -> slot_get s' g = slot_get s g.
Proof.
  intros H1 H2. induction k as [|k IH]; intros s off t s' o' t' H; cbn [unpack_count] in H.
  - injection H as <- _ _. reflexivity.
  - destruct (seq_align al off) as [o1|]; [|discriminate].
    destruct (unpack_elem host raw rec_unpack cf c (FSeqElem i) e s o1) as [s1 o2 t1| | |] eqn:Ee; try discriminate.
    destruct (unpack_elem_set _ _ _ _ _ _ _ _ _ Ee) as [v ->].
    rewrite (IH _ _ _ _ _ _ H), append_to_other by exact H1. apply slot_get_set_other. exact H2.
Qed.

Lemma unpack_until_frame (cf : lconf) (c : cid) (i : Z) (e : elem) (al : Z) (u : expr) (g : fname) :
  g <> FN i -> g <> FSeqElem i -> forall fuel s off t s' o' t',
  unpack_until host raw rec_unpack fuel cf c i e al u s off t = FOk s' o' t' -> slot_get s' g = slot_get s g.
Proof.
  intros H1 H2. induction fuel as [|fuel IH]; intros s off t s' o' t' H; cbn [unpack_until] in H.
  - destruct (eval (mkctx raw s off) u) as [w|]; [|discriminate].
    destruct (truth w); [|discriminate]. injection H as <- _ _. reflexivity.
  - destruct (eval (mkctx raw s off) u) as [w|]; [|discriminate].
    destruct (truth w); [injection H as <- _ _; reflexivity|].
    destruct (seq_align al off) as [o1|]; [|discriminate].
    destruct (unpack_elem host raw rec_unpack cf c (FSeqElem i) e s o1) as [s1 o2 t1| | |] eqn:Ee; try discriminate.
    destruct (unpack_elem_set _ _ _ _ _ _ _ _ _ Ee) as [v ->].
    rewrite (IH _ _ _ _ _ _ H), append_to_other by exact H1. apply slot_get_set_other. exact H2.
Qed.

Lemma unpack_field_frame (cf : lconf) (c : cid) (f : cfield) (s : slots) (off ipp : Z) (s1 : slots) (o1 : Z) (t1 : trace)
      (g : fname) :
  unpack_field host raw rec_unpack loop_fuel cf c f s off ipp = FOk s1 o1 t1 -> fr_ok f g ->
  slot_get s1 g = slot_get s g.
Proof.
  intros H Hg.
  destruct f as [i arg rf al|i e|i bf bl run0 sh mk nb d|i e count until when d al|i e when d|i].
  - rewrite unpack_move_eq in H. destruct (mv_u raw arg s off) as [z|]; [|discriminate].
    destruct (al && (z =? 0)); [discriminate|]. destruct (move_unpack al rf z off ipp); [|discriminate].
    injection H as <- _ _. reflexivity.
  - destruct (fr_ok_names _ i g Hg (or_introl eq_refl)) as (G1 & _ & _).
    cbn [unpack_field] in H. destruct (unpack_elem_set _ _ _ _ _ _ _ _ _ H) as [v ->].
    apply slot_get_set_other. exact G1.
  - destruct (fr_ok_names _ i g Hg (or_introl eq_refl)) as (G1 & _ & _).
    assert (G2 : g <> FBitsI run0) by (intros ->; discriminate Hg).
    cbn [unpack_field] in H. destruct bf.
    + destruct (int_unpack nb false true raw off) as [[v o']|]; [|discriminate].
      rewrite slot_get_set_same in H. injection H as <- _ _.
      rewrite !slot_get_set_other by assumption. reflexivity.
    + destruct (slot_get s (FBitsI run0)) as [[]|]; try discriminate. injection H as <- _ _.
      apply slot_get_set_other. exact G1.
  - destruct (fr_ok_names _ i g Hg (or_introl eq_refl)) as (G1 & G2 & _).
    cbn [unpack_field] in H.
    match type of H with match ?X with _ => _ end = _ => destruct X as [n|]; [|discriminate] end.
    match type of H with match ?X with _ => _ end = _ => destruct X as [[|]|]; try discriminate end.
    + injection H as <- _ _. apply slot_get_set_other. exact G1.
    + destruct (unpack_count host raw rec_unpack cf c i e al (Z.to_nat n) _ off []) as [sa oa ta| | |] eqn:Ec;
        try discriminate.
      pose proof (unpack_count_frame cf c i e al g G1 G2 _ _ _ _ _ _ _ Ec) as Fc.
      rewrite slot_get_set_other in Fc by exact G1.
      destruct until as [u|].
      * rewrite (unpack_until_frame cf c i e al u g G1 G2 _ _ _ _ _ _ _ H). exact Fc.
      * injection H as <- _ _. exact Fc.
  - destruct (fr_ok_names _ i g Hg (or_introl eq_refl)) as (G1 & _ & G3).
    cbn [unpack_field] in H. destruct (eval (mkctx raw s off) when) as [w|]; [|discriminate].
    destruct (truth w).
    + destruct (unpack_elem host raw rec_unpack cf c (FOptElem i) e s off) as [sa oa ta| | |] eqn:Ee; try discriminate.
      destruct (unpack_elem_set _ _ _ _ _ _ _ _ _ Ee) as [v ->]. injection H as <- _ _.
      rewrite !slot_get_set_other by assumption. reflexivity.
    + injection H as <- _ _. apply slot_get_set_other. exact G1.
  - cbn [unpack_field] in H. injection H as <- _ _. reflexivity.
Qed.

(* packing a field that is not a bit-run member leaves the shared integers alone *)
Lemma pack_seq_bi (cf : lconf) (c : cid) (i : Z) (e : elem) (al : Z) (j : Z) : forall vs sp fr s1 fr1,
  pack_seq host dl rec_pack cf c i e al vs sp fr = KOk s1 fr1 -> slot_get s1 (FBitsI j) = slot_get sp (FBitsI j).
Proof.
  induction vs as [|v r IH]; intros sp fr s1 fr1; cbn [pack_seq]; cbv zeta.
  - intros H. injection H as <- _. reflexivity.
  - destruct (seq_align al (cur fr)) as [p|]; [|discriminate].
    destruct (pack_elem host dl rec_pack cf c (FSeqElem i) e (slot_set sp (FSeqElem i) v) (set_cur fr p))
      as [s2 fr2| | |] eqn:E; try discriminate.
    apply pack_elem_slots in E. subst s2. intros H. rewrite (IH _ _ _ _ H).
    apply slot_get_set_other. discriminate.
Qed.

Lemma pack_field_bi (cf : lconf) (c : cid) (f : cfield) (sp : slots) (fr : frs) (ipp : Z) (s1 : slots) (fr1 : frs) (j : Z) :
  isb f = false -> pack_field host dl rec_pack cf c f sp fr ipp = KOk s1 fr1 ->
  slot_get s1 (FBitsI j) = slot_get sp (FBitsI j).
Proof.
  intros Hb. destruct f as [i arg rf al|i e|i bf bl run0 sh mk nb d|i e cnt unt whn d al|i e whn d|i];
    try discriminate Hb; cbn [pack_field].
  - destruct (match arg with MConst z => Ok z | MField g => _ | MFun e => _ end) as [z|x]; [|discriminate].
    destruct (move_pack al rf z (cur fr) ipp) as [p|]; [|discriminate].
    intros H. injection H as <- _. reflexivity.
  - intros H. apply pack_elem_slots in H. subst s1. reflexivity.
  - destruct (slot_get sp (FN i)) as [v|]; [|discriminate]. destruct v; try discriminate. apply pack_seq_bi.
  - destruct (slot_get sp (FN i)) as [v|]; [|discriminate].
    assert (Hgen : pack_elem host dl rec_pack cf c (FOptElem i) e (slot_set sp (FOptElem i) v) fr = KOk s1 fr1 ->
                   slot_get s1 (FBitsI j) = slot_get sp (FBitsI j)).
    { intros H. apply pack_elem_slots in H. subst s1. apply slot_get_set_other. discriminate. }
    destruct v; try exact Hgen. intros H. injection H as <- _. reflexivity.
  - intros H. apply emit_slots in H. subst s1. reflexivity.
Qed.

Lemma kspec_strengthen (t : trace) (fr : frs) (o1 : Z) (r : kres) (P Q : slots -> Prop) :
  (forall sp' fr', r = KOk sp' fr' -> P sp' -> Q sp') -> kspec base t fr o1 r P -> kspec base t fr o1 r Q.
Proof.
  intros HPQ H. unfold kspec in *. destruct (ins_trace base t fr); try exact H.
  destruct H as (sp' & fr2 & E & Hc & Hcur & HP). exists sp', fr2. split; [exact E|]. split; [exact Hc|].
  split; [exact Hcur|]. exact (HPQ sp' fr2 E HP).
Qed.

(* ---- the field loop, run by run ---- *)
Definition keeps2 (sf sp : slots) : Prop :=
  forall j, slot_get sp (FN j) = slot_get sf (FN j) /\ slot_get sp (FBitsI j) = slot_get sf (FBitsI j).

Lemma runs_ok_nonbits (n : nat) (f : cfield) (r : list cfield) : isb f = false -> runs_ok (S n) (f :: r) = runs_ok n r.
Proof. destruct f; try discriminate; reflexivity. Qed.

Lemma nodup_app_l {A : Type} (a b : list A) : NoDup (a ++ b) -> NoDup a.
Proof.
  induction a as [|x a IH]; cbn [app]; intros H; [constructor|].
  inversion H as [|? ? Hn Hr]; subst. constructor; [|exact (IH Hr)].
  intros Hin. apply Hn. apply in_or_app. left. exact Hin.
Qed.

Lemma mslot_transfer (I : Z) (s sp : slots) : forall ms,
  (forall j, In j (fidxs ms) -> slot_get sp (FN j) = slot_get s (FN j)) ->
  Forall (mslot I s) ms -> Forall (mslot I sp) ms.
Proof.
  induction ms as [|f r IH]; intros Hj H; [constructor|].
  pose proof (Forall_inv H) as Hf. pose proof (Forall_inv_tail H) as Hr.
  constructor.
  - destruct f as [| |i bf bl r0 sh mk nbv d| | |]; try exact Logic.I. cbn [mslot] in *.
    rewrite Hj; [exact Hf|]. unfold fidxs. cbn [flat_map fidx app]. left. reflexivity.
  - apply IH; [|exact Hr]. intros j Hin. apply Hj. unfold fidxs. cbn [flat_map]. apply in_or_app. right. exact Hin.
Qed.

Lemma rt_fields_b (cf : lconf) (c : cid) : forall n fs s off ipp v e tq,
  runs_ok n fs = true -> forallb (cfield_rtb base) fs = true -> NoDup (fidxs fs) ->
  (forall j, In j (fidxs fs) -> slot_get s (FN j) = None) -> slots_all s -> base <= off ->
  unpack_fields host raw rec_unpack loop_fuel cf c fs s off ipp [] = POk v e tq -> tr_ok base raw tq ->
  exists sf, v = VPkt c sf /\ slots_all sf /\
    (forall j, ~ In j (fidxs fs) -> slot_get sf (FN j) = slot_get s (FN j)) /\
    (forall j, ~ In j (fidxs fs) -> slot_get sf (FBitsI j) = slot_get s (FBitsI j)) /\ base <= e /\
    forall sp fr, keeps2 sf sp -> cur fr = off - base ->
      qspec base tq fr e (pack_fields host dl rec_pack cf c fs sp fr (ipp - base)).
Proof.
  assert (Hnil : forall s off ipp v e tq, slots_all s -> base <= off ->
    unpack_fields host raw rec_unpack loop_fuel cf c [] s off ipp [] = POk v e tq ->
    exists sf, v = VPkt c sf /\ slots_all sf /\
      (forall j, ~ In j (fidxs []) -> slot_get sf (FN j) = slot_get s (FN j)) /\
      (forall j, ~ In j (fidxs []) -> slot_get sf (FBitsI j) = slot_get s (FBitsI j)) /\ base <= e /\
      forall sp fr, keeps2 sf sp -> cur fr = off - base ->
        qspec base tq fr e (pack_fields host dl rec_pack cf c [] sp fr (ipp - base))).
  { intros s off ipp v e tq Hall Hb H. cbn [unpack_fields] in H. injection H as <- <- <-.
    exists s. split; [reflexivity|]. split; [exact Hall|]. split; [reflexivity|]. split; [reflexivity|].
    split; [exact Hb|].
    intros sp fr _ Hcur. cbn [pack_fields]. unfold qspec. cbn [ins_trace].
    exists (VPkt c sp), fr. split; [reflexivity|]. split; [apply same_content_refl|exact Hcur]. }
  induction n as [|n IH]; intros fs s off ipp v e tq Hro Hrt Hnd Hfresh Hall Hb H Htr.
  { destruct fs; [|discriminate Hro]. exact (Hnil s off ipp v e tq Hall Hb H). }
  destruct fs as [|f r]; [exact (Hnil s off ipp v e tq Hall Hb H)|].
  destruct (isb f) eqn:Eb.
  - (* a bit run *)
    destruct f as [| |i0 bf0 bl0 r0 sh0 mk0 nb d0| | |]; try discriminate Eb.
    cbn [runs_ok take_run] in Hro. destruct (take_run r) as [run' rest] eqn:Et. cbv beta iota zeta in Hro.
    apply andb_true_iff in Hro as [Hrun Hrest].
    destruct (take_run_spec r run' rest Et) as [-> Hbr'].
    destruct (run_ok_mem _ _ _ _ _ _ _ _ _ Hrun) as [Hm Hnb].
    pose proof Hm as Hmfull. cbn [mem_ok] in Hm. destruct Hm as (-> & _ & -> & _ & Hsh0 & Hx0 & Hm').
    set (f := CBits i0 true bl0 i0 sh0 mk0 nb d0) in *. set (run := f :: run') in *.
    assert (Hbrun : Forall (fun f => isb f = true) run) by (constructor; [reflexivity|exact Hbr']).
    assert (Hfx : fidxs (f :: run' ++ rest) = fidxs run ++ fidxs rest).
    { unfold fidxs. rewrite <- flat_map_app. reflexivity. }
    rewrite Hfx in Hnd, Hfresh. rewrite Hfx.
    destruct (nodup_app_disj _ _ Hnd) as [Hndr Hdisj]. pose proof (nodup_app_l _ _ Hnd) as Hndrun.
    assert (Hi0 : In i0 (fidxs run)) by (unfold fidxs; cbn [run flat_map f fidx app]; left; reflexivity).
    change (f :: run' ++ rest) with (run ++ rest) in Hrt. rewrite forallb_app in Hrt.
    apply andb_true_iff in Hrt as [_ Hrtr].
    (* the parse *)
    cbn [unpack_fields] in H. unfold f in H at 1. rewrite unpack_bits_first in H.
    destruct (int_unpack nb false true raw off) as [[I o']|] eqn:Ei; [|discriminate].
    cbn [app] in H.
    rewrite (unpack_tail cf c i0 nb I rest o' ipp run' _ _ Hm') in H
      by (rewrite slot_get_set_other by discriminate; apply slot_get_set_same).
    change (set_members I run' (slot_set (slot_set s (FBitsI i0) (VInt I)) (FN i0) (VInt (bits_get I mk0 sh0))))
      with (set_members I run (slot_set s (FBitsI i0) (VInt I))) in H.
    set (s0 := slot_set s (FBitsI i0) (VInt I)) in *. set (s' := set_members I run s0) in *.
    rewrite (unpack_fields_acc host raw rec_unpack loop_fuel) in H.
    destruct (unpack_fields host raw rec_unpack loop_fuel cf c rest s' o' ipp []) as [v2 e2 t2| |] eqn:Er;
      try discriminate.
    injection H as <- <- <-.
    change (tr_ok base raw ([TChunk off (slice raw off o')] ++ t2)) in Htr. apply tr_ok_app in Htr as [Htr1 Htr2].
    destruct (int_unpack_strict nb false true raw off I o' ltac:(lia) Hnb Ei) as (-> & Hinr & Hdec & Hlen).
    destruct (encode_decode nb false true (slice raw off (off + nb)) Hnb Hlen (wf_bytes_slice _ _ _ Hraw))
      as (z' & Hdec' & _ & Henc).
    assert (z' = I) as -> by congruence.
    assert (Hfresh' : forall j, In j (fidxs rest) -> slot_get s' (FN j) = None).
    { intros j Hj. unfold s'. rewrite set_members_other.
      - unfold s0. rewrite slot_get_set_other by discriminate. apply Hfresh. apply in_or_app. right. exact Hj.
      - intros k Hk E. injection E as ->. exact (Hdisj k Hk Hj). }
    assert (Hall' : slots_all s').
    { apply set_members_all. apply slots_all_set; [exact Hall|reflexivity]. }
    destruct (IH rest s' (off + nb) ipp v2 e2 t2 Hrest Hrtr Hndr Hfresh' Hall' ltac:(lia) Er Htr2)
      as (sf & -> & Hallf & Hfrf & Hbif & He & Hq).
    assert (Hms' : Forall (mslot I s') run) by (apply set_members_get; assumption).
    assert (Hbi' : slot_get s' (FBitsI i0) = Some (VInt I)).
    { unfold s'. rewrite set_members_other by (intros; discriminate). apply slot_get_set_same. }
    exists sf. split; [reflexivity|]. split; [exact Hallf|]. split.
    { intros j Hj. rewrite Hfrf by (intros Hin; apply Hj; apply in_or_app; right; exact Hin).
      unfold s'. rewrite set_members_other.
      - unfold s0. apply slot_get_set_other. discriminate.
      - intros k Hk E. injection E as ->. apply Hj. apply in_or_app. left. exact Hk. }
    split.
    { intros j Hj. rewrite Hbif by (intros Hin; apply Hj; apply in_or_app; right; exact Hin).
      unfold s'. rewrite set_members_other by (intros; discriminate).
      unfold s0. apply slot_get_set_other. intros E. injection E as ->. apply Hj. apply in_or_app. left. exact Hi0. }
    split; [exact He|].
    intros sp fr Hsp Hcur.
    assert (Gsp : slot_get sp (FBitsI i0) = Some (VInt I)).
    { rewrite (proj2 (Hsp i0)), Hbif; [exact Hbi'|]. exact (Hdisj i0 Hi0). }
    assert (Hmsp : Forall (mslot I sp) run).
    { apply (mslot_transfer I s' sp run); [|exact Hms'].
      intros j Hj. rewrite (proj1 (Hsp j)). apply Hfrf. exact (Hdisj j Hj). }
    destruct (pack_run cf c i0 nb I rest sp fr (ipp - base) Gsp run true ltac:(discriminate) Hmfull Hmsp) as [nm Ep].
    change (f :: run' ++ rest) with (run ++ rest). rewrite Ep, Henc.
    refine (kq_seq base [TChunk off (slice raw off (off + nb))] t2 fr (off + nb) e2 _
              (fun a b => pack_fields host dl rec_pack cf c rest a b (ipp - base))
              (fun at_cur => [(at_cur, nm, c)])
              (fun st => st ++ [(match st with (o, _, _) :: _ => o | [] => cur fr end, nm, c)])
              (fun sp' => sp' = sp) _ _).
    + pose proof (emit_spec base off (slice raw off (off + nb)) fr sp Hcur) as E. rewrite Hlen in E. exact E.
    + intros sp' fr2 -> Hc. apply Hq; assumption.
  - (* any other field: Proofs/RoundTrip.rt_field *)
    rewrite (runs_ok_nonbits n f r Eb) in Hro.
    cbn [forallb] in Hrt. apply andb_true_iff in Hrt as [Hrtf Hrtr].
    assert (Hrtf' : cfield_rt base f = true) by (destruct f; try discriminate Eb; exact Hrtf).
    unfold fidxs in Hnd, Hfresh. cbn [flat_map] in Hnd, Hfresh. fold (fidxs r) in Hnd, Hfresh.
    destruct (nodup_app_disj _ _ Hnd) as [Hndr Hdisj].
    cbn [unpack_fields] in H.
    destruct (unpack_field host raw rec_unpack loop_fuel cf c f s off ipp) as [s1 o1 t1| | |] eqn:Ef;
      try discriminate.
    rewrite (unpack_fields_acc host raw rec_unpack loop_fuel) in H. cbn [app] in H.
    destruct (unpack_fields host raw rec_unpack loop_fuel cf c r s1 o1 ipp []) as [v2 e2 t2| |] eqn:Er;
      try discriminate.
    injection H as <- <- <-. apply tr_ok_app in Htr as [Htr1 Htr2].
    destruct (rt_field host raw rec_unpack loop_fuel dl rec_pack base Hraw Hbase HREC cf c f s off ipp s1 o1 t1
                Hrtf' Hall Hb Ef Htr1) as (Hall1 & Hfr1 & Ho1 & Hk).
    assert (Hfresh1 : forall j, In j (fidxs r) -> slot_get s1 (FN j) = None).
    { intros j Hj. rewrite Hfr1.
      - apply Hfresh. apply in_or_app. right. exact Hj.
      - intros Hin. exact (Hdisj j Hin Hj). }
    destruct (IH r s1 o1 ipp v2 e2 t2 Hro Hrtr Hndr Hfresh1 Hall1 Ho1 Er Htr2)
      as (sf & -> & Hallf & Hfrf & Hbif & He & Hq).
    exists sf. split; [reflexivity|]. split; [exact Hallf|]. unfold fidxs. cbn [flat_map]. fold (fidxs r). split.
    { intros j Hj. rewrite Hfrf, Hfr1; [reflexivity| |]; intros Hin; apply Hj; apply in_or_app; auto. }
    split.
    { intros j Hj. rewrite Hbif by (intros Hin; apply Hj; apply in_or_app; auto).
      apply (unpack_field_frame cf c f s off ipp s1 o1 t1 (FBitsI j) Ef). exact Eb. }
    split; [exact He|].
    intros sp fr Hsp Hcur. cbn [pack_fields].
    refine (kq_seq base t1 t2 fr o1 e2 _ (fun a b => pack_fields host dl rec_pack cf c r a b (ipp - base))
              (fun at_cur => [(at_cur, cf_name f, c)])
              (fun st => st ++ [(match st with (o, _, _) :: _ => o | [] => cur fr end, cf_name f, c)])
              (keeps2 sf) _ _).
    + apply (kspec_strengthen t1 fr o1 _ (keeps_fn sp)).
      * intros sp' fr' E Hkeep j. split.
        -- rewrite (Hkeep j). apply Hsp.
        -- rewrite (pack_field_bi cf c f sp fr (ipp - base) sp' fr' j Eb E). apply Hsp.
      * apply Hk; [| |exact Hcur].
        -- intros j x Hj G. rewrite (proj1 (Hsp j)).
           assert (Hnin : ~ In j (fidx f ++ fidxs r)).
           { intros Hin. rewrite (Hfresh j Hin) in G. discriminate. }
           rewrite Hfrf, Hfr1; [exact G| |]; intros Hin; apply Hnin; apply in_or_app; auto.
        -- intros j Hj. rewrite (proj1 (Hsp j)). apply Hfrf. exact (Hdisj j Hj).
    + intros sp' fr2 Hkeep Hc. apply Hq; assumption.
Qed.
End RTB.

(* ------------------------------------------------------------------------------------------ *)
(** * Closing the recursion on fuel                                                            *)
(* ------------------------------------------------------------------------------------------ *)

Theorem rt_all_b (host : bool) (dl : dstate) (ct : ctab) (raw : bytes) (base : Z) :
  wf_bytes raw -> 0 <= base -> ct_rtb base ct = true -> ct_bits_ok ct = true -> ct_distinct ct = true ->
  forall fuel, rt_inv base raw (unpack_pkt fuel host ct raw) (pack_pkt fuel host dl ct).
Proof.
  intros Hraw Hbase Hrt Hbits Hdis. induction fuel as [|fuel IH]; intros c o v e t H Hbo Htr; cbn [unpack_pkt] in H.
  - discriminate.
  - destruct (ct_get ct c) as [k|] eqn:Ec; [|discriminate].
    pose proof (ct_get_forallb (fun k => forallb (cfield_rtb base) (cc_fields k)) ct c k Hrt Ec) as Hk1.
    pose proof (ct_get_forallb (fun k => nodupb (fidxs (cc_fields k))) ct c k Hdis Ec) as Hk2.
    pose proof (ct_get_forallb class_bits_ok ct c k Hbits Ec) as Hk3.
    cbv beta in Hk1, Hk2. apply nodupb_NoDup in Hk2. unfold class_bits_ok in Hk3.
    destruct (rt_fields_b host raw (unpack_pkt fuel host ct raw) fuel dl (pack_pkt fuel host dl ct) base
                Hraw Hbase IH (cc_conf k) c (length (cc_fields k)) (cc_fields k) [] o o v e t Hk3 Hk1 Hk2
                ltac:(intros; reflexivity) ltac:(constructor) Hbo H Htr)
      as (sf & -> & Hallf & _ & _ & He & Hq).
    exists sf. split; [reflexivity|]. split; [exact Hallf|]. split; [exact He|].
    intros fr Hcur. cbn [pack_pkt]. rewrite Ec, Hcur. apply Hq; [intros j; split; reflexivity|exact Hcur].
Qed.

Theorem roundtrip_trace_bits : forall fuel host dl ct raw c off base v e t fr,
  wf_bytes raw -> ct_distinct ct = true -> ct_rtb base ct = true -> ct_bits_ok ct = true ->
  0 <= base <= off -> cur fr = off - base ->
  unpack_pkt fuel host ct raw c off = POk v e t -> trace_from base t -> trace_in raw t ->
  exists s, v = VPkt c s /\
    match ins_trace base t fr with
    | Frag.Ok fr1 => exists v' fr2, pack_pkt fuel host dl ct c s fr = QOk v' fr2 /\ same_content fr2 fr1 /\ cur fr2 = e - base
    | _ => exists st, pack_pkt fuel host dl ct c s fr = QFail st
    end.
Proof.
  intros fuel host dl ct raw c off base v e t fr Hraw Hdis Hrt Hbits [Hb0 Hb1] Hcur H Htf Hti.
  destruct (rt_all_b host dl ct raw base Hraw Hb0 Hrt Hbits Hdis fuel c off v e t H Hb1 (conj Htf Hti))
    as (s & -> & _ & _ & Hq).
  exists s. split; [reflexivity|]. exact (Hq fr Hcur).
Qed.

(* C01 for the whole declaration language, bit runs included (generic field loop) *)
Theorem roundtrip_bytes_bits : forall fuel host dl ct raw c off s e t,
  wf_bytes raw -> ct_distinct ct = true -> ct_rtb off ct = true -> ct_bits_ok ct = true -> 0 <= off ->
  unpack_pkt fuel host ct raw c off = POk (VPkt c s) e t -> trace_from off t -> trace_in raw t ->
  match fold_a aempty (chunk_ops off t) with
  | Some a => exists v', pack_top fuel host dl ct c s = PBytes (a_tobytes a) v'
  | None => exists st, pack_top fuel host dl ct c s = PErr st
  end.
Proof.
  intros fuel host dl ct raw c off s e t Hraw Hdis Hrt Hbits Hoff H Htf Hti.
  destruct (roundtrip_trace_bits fuel host dl ct raw c off off (VPkt c s) e t empty Hraw Hdis Hrt Hbits ltac:(lia)
              ltac:(cbn [cur empty]; lia) H Htf Hti) as (s0 & Es & Hp).
  injection Es as <-.
  pose proof (history_refines (chunk_ops off t) empty aempty R_empty (chunk_ops_nonneg off t Htf) 0) as Hh.
  rewrite ins_trace_run_ops in Hh. unfold pack_top.
  destruct (ins_trace off t empty) as [fr1| |].
  - destruct Hh as (a' & -> & HR). destruct Hp as (v' & fr2 & -> & [Hfr _] & _).
    exists v'. f_equal. rewrite <- (tobytes_refines fr1 a' HR). unfold tobytes. rewrite Hfr. reflexivity.
  - rewrite Hh. destruct Hp as (st & ->). exists st. reflexivity.
  - contradiction.
Qed.

Print Assumptions roundtrip_bytes_bits.

(* ------------------------------------------------------------------------------------------ *)
(** * Values a parse produces: every Data(n) field of every packet inside holds n bytes         *)
(* ------------------------------------------------------------------------------------------ *)

(* Model/Wf2.lens_ok without its fuel (a parse with fuel n can nest lists of packets 2n deep in lens_ok's
   measure), looking only at the declared attributes: what CodegenEquiv.prun_equiv asks of a packet value *)
Inductive LVp (ct : ctab) : value -> Prop :=
| LVp_pkt (c : cid) (s : slots) (k : cclass) :
    ct_get ct c = Some k -> (forall j v, slot_get s (FN j) = Some v -> LVp ct v) ->
    Forall (dcond s) (cc_fields k) -> LVp ct (VPkt c s)
| LVp_list (l : list value) : (forall v, In v l -> LVp ct v) -> LVp ct (VList l)
| LVp_atom (v : value) : match v with VPkt _ _ | VList _ => False | _ => True end -> LVp ct v.

Lemma LVp_list_inv (ct : ctab) (l : list value) (v : value) : LVp ct (VList l) -> In v l -> LVp ct v.
Proof. intros H. inversion H as [| ? Hl |? Hf]; subst; [exact (Hl v)|contradiction]. Qed.

(* the code a class runs when packing agrees with the generic loop on such values *)
Theorem pack_any_generic : forall fuel host dl ct c s fr fr',
  LVp ct (VPkt c s) -> good fr -> good fr' -> feq fr fr' ->
  qres_equiv (pack_any fuel host dl ct c s fr) (pack_pkt fuel host dl ct c s fr').
Proof.
  induction fuel as [|fuel IH]; intros host dl ct c s fr fr' HL G G' F.
  - cbn. auto.
  - rewrite pack_any_prun. cbn [pack_pkt].
    inversion HL as [c0 s0 k Gk Hfn Hd| |? Hf]; subst; [|contradiction].
    rewrite Gk.
    assert (Hc : cur fr' = cur fr) by (symmetry; apply F).
    change (pack_fields host dl (pack_pkt fuel host dl ct) (cc_conf k) c (cc_fields k) s fr' (cur fr'))
      with (prun host dl (pack_pkt fuel host dl ct) false false (cc_conf k) c (cc_fields k) s fr').
    apply (prun_equiv host dl (pack_any fuel host dl ct) (pack_pkt fuel host dl ct) (LVp ct)).
    + intros l v. apply LVp_list_inv.
    + intros c0 ps a b HL0 Ga Gb Fab. apply IH; assumption.
    + split; [exact Hfn|exact Hd].
    + exact G.
    + exact G'.
    + exact F.
Qed.

Section ULV.
Variables (host : bool) (raw : bytes) (rec_unpack : cid -> Z -> pres) (loop_fuel : nat) (ct : ctab).
Hypothesis HLV : forall c o v e t, rec_unpack c o = POk v e t -> LVp ct v.

Definition fnLV (s : slots) : Prop := forall j v, slot_get s (FN j) = Some v -> LVp ct v.

Lemma fnLV_set (s : slots) (name : fname) (v : value) : fnLV s -> LVp ct v -> fnLV (slot_set s name v).
Proof.
  intros Hs Hv j w G. rewrite RoundTrip.slot_get_set in G. destruct (fname_eqb (FN j) name).
  - injection G as <-. exact Hv.
  - exact (Hs j w G).
Qed.

Lemma fnLV_append (s : slots) (i : Z) (x : value) : fnLV s -> LVp ct x -> fnLV (append_to s (FN i) x).
Proof.
  intros Hs Hx. unfold append_to. destruct (slot_get s (FN i)) as [w|] eqn:G; [|exact Hs].
  destruct w; try exact Hs. apply fnLV_set; [exact Hs|]. apply LVp_list. intros v Hin.
  apply in_app_or in Hin as [Hin|[<-|[]]]; [|exact Hx].
  exact (LVp_list_inv ct l v (Hs i _ G) Hin).
Qed.

Lemma unpack_leaf_LV (cf : lconf) (c : cid) (name : fname) (l : leaf) (s : slots) (off : Z) (v : value) (o' : Z) (t : trace) :
  unpack_leaf host raw cf c name l s off = Ok (v, o', t) ->
  LVp ct v /\ forall n ic d, l = LDataSized (ELit (VInt n)) ic d -> exists b, v = VBytes b /\ blen b = n.
Proof.
  intros H. destruct l as [n sg fe d|size ic d|m incl d|r incl d|d]; cbn [unpack_leaf] in H.
  - destruct (int_unpack n sg _ raw off) as [[z o1]|]; [|discriminate]. injection H as <- _ _.
    split; [apply LVp_atom; exact I|]. intros; discriminate.
  - destruct (eval_int (mkctx raw s off) size) as [bc|] eqn:Es; [|discriminate]. cbn [bind] in H.
    destruct (data_sized raw off bc) as [[x o1]|] eqn:E; [|discriminate]. injection H as <- _ _.
    split; [apply LVp_atom; exact I|]. intros n ic' d' El. injection El as -> _ _.
    cbn in Es. injection Es as <-. exists x. split; [reflexivity|].
    unfold data_sized in E. destruct (data_short _ n) eqn:Eh; [discriminate|]. injection E as <- _.
    unfold data_short in Eh. apply negb_false_iff in Eh. apply Z.eqb_eq. exact Eh.
  - destruct (data_marker raw off (lc_sbl cf) m incl) as [[x o1]|]; [|discriminate]. injection H as <- _ _.
    split; [apply LVp_atom; exact I|]. intros; discriminate.
  - destruct (data_regex raw off (lc_sbl cf) r incl) as [[[x o1] dd]|]; [|discriminate]. injection H as <- _ _.
    split; [apply LVp_atom; exact I|]. intros; discriminate.
  - unfold data_eos in H. injection H as <- _ _. split; [apply LVp_atom; exact I|]. intros; discriminate.
Qed.

Lemma unpack_elem_LV (cf : lconf) (c : cid) (name : fname) (e : elem) (s : slots) (off : Z) (s1 : slots) (o1 : Z) (t1 : trace) :
  unpack_elem host raw rec_unpack cf c name e s off = FOk s1 o1 t1 ->
  exists v, s1 = slot_set s name v /\ LVp ct v /\
    forall n ic d, e = ELeafE (LDataSized (ELit (VInt n)) ic d) -> exists b, v = VBytes b /\ blen b = n.
Proof.
  destruct e as [l|c' proto|sel d]; cbn [unpack_elem].
  - destruct (unpack_leaf host raw cf c name l s off) as [[[v o'] t]|] eqn:El; [|discriminate].
    intros H. injection H as <- _ _. destruct (unpack_leaf_LV _ _ _ _ _ _ _ _ _ El) as [Hv Hd].
    exists v. split; [reflexivity|]. split; [exact Hv|]. intros n ic d E. injection E as ->. exact (Hd n ic d eq_refl).
  - destruct (rec_unpack c' off) as [v o' t| |] eqn:Er; try discriminate.
    intros H. injection H as <- _ _. exists v. split; [reflexivity|]. split; [exact (HLV _ _ _ _ _ Er)|].
    intros; discriminate.
  - destruct (eval (mkctx raw s off) sel) as [w|]; [|discriminate].
    destruct w as [| | | | | | |c' ps|c' kw|l]; try discriminate.
    + destruct (rec_unpack c' off) as [v o' t| |] eqn:Er; try discriminate.
      intros H. injection H as <- _ _. exists v. split; [reflexivity|]. split; [exact (HLV _ _ _ _ _ Er)|].
      intros; discriminate.
    + destruct (rec_unpack c' off) as [v o' t| |] eqn:Er; try discriminate.
      intros H. injection H as <- _ _. exists v. split; [reflexivity|]. split; [exact (HLV _ _ _ _ _ Er)|].
      intros; discriminate.
    + destruct (unpack_leaf host raw empty_conf c name l s off) as [[[v o'] t]|] eqn:El; [|discriminate].
      intros H. injection H as <- _ _. destruct (unpack_leaf_LV _ _ _ _ _ _ _ _ _ El) as [Hv _].
      exists v. split; [reflexivity|]. split; [exact Hv|]. intros; discriminate.
Qed.

Lemma seq_step_LV (cf : lconf) (c : cid) (i : Z) (e : elem) (s : slots) (o1 : Z) (s1 : slots) (o2 : Z) (t1 : trace) :
  fnLV s -> unpack_elem host raw rec_unpack cf c (FSeqElem i) e s o1 = FOk s1 o2 t1 ->
  fnLV (append_to s1 (FN i) (elem_value s1 (FSeqElem i))).
Proof.
  intros Hs Ee. destruct (unpack_elem_LV _ _ _ _ _ _ _ _ _ Ee) as (v & -> & Hv & _).
  unfold elem_value. rewrite slot_get_set_same. apply fnLV_append; [|exact Hv]. apply fnLV_set; assumption.
Qed.

Lemma unpack_count_LV (cf : lconf) (c : cid) (i : Z) (e : elem) (al : Z) : forall k s off t s' o' t',
  fnLV s -> unpack_count host raw rec_unpack cf c i e al k s off t = FOk s' o' t' -> fnLV s'.
Proof.
  induction k as [|k IH]; intros s off t s' o' t' Hs H; cbn [unpack_count] in H.
  - injection H as <- _ _. exact Hs.
  - destruct (seq_align al off) as [o1|]; [|discriminate].
    destruct (unpack_elem host raw rec_unpack cf c (FSeqElem i) e s o1) as [s1 o2 t1| | |] eqn:Ee; try discriminate.
    exact (IH _ _ _ _ _ _ (seq_step_LV cf c i e s o1 s1 o2 t1 Hs Ee) H).
Qed.

Lemma unpack_until_LV (cf : lconf) (c : cid) (i : Z) (e : elem) (al : Z) (u : expr) : forall fuel s off t s' o' t',
  fnLV s -> unpack_until host raw rec_unpack fuel cf c i e al u s off t = FOk s' o' t' -> fnLV s'.
Proof.
  induction fuel as [|fuel IH]; intros s off t s' o' t' Hs H; cbn [unpack_until] in H.
  - destruct (eval (mkctx raw s off) u) as [w|]; [|discriminate].
    destruct (truth w); [|discriminate]. injection H as <- _ _. exact Hs.
  - destruct (eval (mkctx raw s off) u) as [w|]; [|discriminate].
    destruct (truth w); [injection H as <- _ _; exact Hs|].
    destruct (seq_align al off) as [o1|]; [|discriminate].
    destruct (unpack_elem host raw rec_unpack cf c (FSeqElem i) e s o1) as [s1 o2 t1| | |] eqn:Ee; try discriminate.
    exact (IH _ _ _ _ _ _ (seq_step_LV cf c i e s o1 s1 o2 t1 Hs Ee) H).
Qed.

Lemma dcond_other (s : slots) (f : cfield) : (forall i e, f <> CElem i e) -> dcond s f.
Proof. intros Hf i n d b E. exfalso. exact (Hf _ _ E). Qed.

Lemma unpack_field_LV (cf : lconf) (c : cid) (f : cfield) (s : slots) (off ipp : Z) (s1 : slots) (o1 : Z) (t1 : trace) :
  fnLV s -> unpack_field host raw rec_unpack loop_fuel cf c f s off ipp = FOk s1 o1 t1 -> fnLV s1 /\ dcond s1 f.
Proof.
  intros Hs H.
  destruct f as [i arg rf al|i e|i bf bl run0 sh mk nb d|i e count until when d al|i e when d|i];
    (split; [|try (apply dcond_other; intros; discriminate)]).
  - rewrite unpack_move_eq in H. destruct (mv_u raw arg s off) as [z|]; [|discriminate].
    destruct (al && (z =? 0)); [discriminate|]. destruct (move_unpack al rf z off ipp); [|discriminate].
    injection H as <- _ _. exact Hs.
  - cbn [unpack_field] in H. destruct (unpack_elem_LV _ _ _ _ _ _ _ _ _ H) as (v & -> & Hv & _).
    apply fnLV_set; assumption.
  - cbn [unpack_field] in H. destruct (unpack_elem_LV _ _ _ _ _ _ _ _ _ H) as (v & -> & _ & Hd).
    intros i' n d' b E G. injection E as <- ->. rewrite slot_get_set_same in G. injection G as ->.
    destruct (Hd n true d' eq_refl) as (b0 & Eb & Hl). injection Eb as ->. exact Hl.
  - cbn [unpack_field] in H. destruct bf.
    + destruct (int_unpack nb false true raw off) as [[v o']|]; [|discriminate].
      rewrite slot_get_set_same in H. injection H as <- _ _.
      apply fnLV_set; [apply fnLV_set; [exact Hs|]|]; apply LVp_atom; exact I.
    + destruct (slot_get s (FBitsI run0)) as [[]|]; try discriminate. injection H as <- _ _.
      apply fnLV_set; [exact Hs|]. apply LVp_atom; exact I.
  - cbn [unpack_field] in H.
    assert (Hs0 : fnLV (slot_set s (FN i) (VList []))).
    { apply fnLV_set; [exact Hs|]. apply LVp_list. intros v []. }
    match type of H with match ?X with _ => _ end = _ => destruct X as [n|]; [|discriminate] end.
    match type of H with match ?X with _ => _ end = _ => destruct X as [[|]|]; try discriminate end.
    + injection H as <- _ _. exact Hs0.
    + destruct (unpack_count host raw rec_unpack cf c i e al (Z.to_nat n) _ off []) as [sa oa ta| | |] eqn:Ec;
        try discriminate.
      pose proof (unpack_count_LV cf c i e al _ _ _ _ _ _ _ Hs0 Ec) as Hsa.
      destruct until as [u|].
      * exact (unpack_until_LV cf c i e al u _ _ _ _ _ _ _ Hsa H).
      * injection H as <- _ _. exact Hsa.
  - cbn [unpack_field] in H. destruct (eval (mkctx raw s off) when) as [w|]; [|discriminate].
    destruct (truth w).
    + destruct (unpack_elem host raw rec_unpack cf c (FOptElem i) e s off) as [sa oa ta| | |] eqn:Ee; try discriminate.
      destruct (unpack_elem_LV _ _ _ _ _ _ _ _ _ Ee) as (v & -> & Hv & _). injection H as <- _ _.
      unfold elem_value. rewrite slot_get_set_same. apply fnLV_set; [apply fnLV_set|]; assumption.
    + injection H as <- _ _. apply fnLV_set; [exact Hs|]. apply LVp_atom. exact I.
  - cbn [unpack_field] in H. injection H as <- _ _. exact Hs.
Qed.

Lemma unpack_fields_LV (cf : lconf) (c : cid) : forall fs s off ipp t v e tq,
  NoDup (fidxs fs) -> fnLV s ->
  unpack_fields host raw rec_unpack loop_fuel cf c fs s off ipp t = POk v e tq ->
  exists sf, v = VPkt c sf /\ fnLV sf /\ Forall (dcond sf) fs /\
    forall j, ~ In j (fidxs fs) -> slot_get sf (FN j) = slot_get s (FN j).
Proof.
  induction fs as [|f r IH]; intros s off ipp t v e tq Hnd Hs H; cbn [unpack_fields] in H.
  - injection H as <- _ _. exists s. split; [reflexivity|]. split; [exact Hs|]. split; [constructor|reflexivity].
  - unfold fidxs in Hnd. cbn [flat_map] in Hnd. fold (fidxs r) in Hnd.
    destruct (nodup_app_disj _ _ Hnd) as [Hndr Hdisj].
    destruct (unpack_field host raw rec_unpack loop_fuel cf c f s off ipp) as [s1 o1 t1| | |] eqn:Ef;
      try discriminate.
    destruct (unpack_field_LV cf c f s off ipp s1 o1 t1 Hs Ef) as [Hs1 Hd1].
    destruct (IH s1 o1 ipp _ v e tq Hndr Hs1 H) as (sf & -> & Hsf & Hdf & Hfrf).
    exists sf. split; [reflexivity|]. split; [exact Hsf|]. split.
    + constructor; [|exact Hdf]. intros i n d b E G. subst f.
      rewrite Hfrf in G by (apply Hdisj; left; reflexivity). exact (Hd1 i n d b eq_refl G).
    + intros j Hj. unfold fidxs in Hj. cbn [flat_map] in Hj. fold (fidxs r) in Hj.
      rewrite Hfrf by (intros Hin; apply Hj; apply in_or_app; right; exact Hin).
      apply (unpack_field_frame host raw rec_unpack loop_fuel cf c f s off ipp s1 o1 t1 (FN j) Ef).
      cbn [fr_ok]. intros Hin. apply Hj. apply in_or_app. left. exact Hin.
Qed.
End ULV.

Lemma unpack_pkt_LV (host : bool) (ct : ctab) (raw : bytes) : ct_distinct ct = true ->
  forall fuel c off v e t, unpack_pkt fuel host ct raw c off = POk v e t -> LVp ct v.
Proof.
  intros Hdis. induction fuel as [|fuel IH]; intros c off v e t H; cbn [unpack_pkt] in H; [discriminate|].
  destruct (ct_get ct c) as [k|] eqn:Ec; [|discriminate].
  pose proof (ct_get_forallb (fun k => nodupb (fidxs (cc_fields k))) ct c k Hdis Ec) as Hk2.
  cbv beta in Hk2. apply nodupb_NoDup in Hk2.
  destruct (unpack_fields_LV host raw (unpack_pkt fuel host ct raw) fuel ct IH (cc_conf k) c (cc_fields k)
              [] off off [] v e t Hk2 ltac:(intros j w G; discriminate G) H) as (sf & -> & Hsf & Hdf & _).
  exact (LVp_pkt ct c sf k Ec Hsf Hdf).
Qed.

(* and for the code a class really runs: generated or generic, whatever the options *)
Theorem roundtrip_bytes_any : forall fuel host dl ct raw c off s e t,
  wf_bytes raw -> ct_distinct ct = true -> ct_rtb off ct = true -> ct_bits_ok ct = true ->
  ct_wf ct = true -> ct_sizes_ok ct = true -> 0 <= off ->
  unpack_any fuel host ct raw c off = POk (VPkt c s) e t -> trace_from off t -> trace_in raw t ->
  match fold_a aempty (chunk_ops off t) with
  | Some a => exists v', pack_any_top fuel host dl ct c s = PBytes (a_tobytes a) v'
  | None => exists st, pack_any_top fuel host dl ct c s = PErr st
  end.
Proof.
  intros fuel host dl ct raw c off s e t Hraw Hdis Hrt Hbits _ Hsz Hoff H Htf Hti.
  pose proof (unpack_any_generic fuel host ct raw c off Hsz Hoff) as Hu. rewrite H in Hu.
  destruct (unpack_pkt fuel host ct raw c off) as [v1 e1 t1| |] eqn:Hp; cbn [pres_equiv] in Hu; try contradiction.
  destruct Hu as (<- & <- & <-).
  pose proof (roundtrip_bytes_bits fuel host dl ct raw c off s e t Hraw Hdis Hrt Hbits Hoff Hp Htf Hti) as Hrb.
  pose proof (unpack_pkt_LV host ct raw Hdis fuel c off _ _ _ Hp) as HL.
  pose proof (pack_any_generic fuel host dl ct c s empty empty HL good_empty good_empty (feq_refl empty)) as Hq.
  unfold pack_any_top. unfold pack_top in Hrb.
  destruct (pack_any fuel host dl ct c s empty) as [va fa| |], (pack_pkt fuel host dl ct c s empty) as [vb fb| |];
    cbn [qres_equiv] in Hq; try contradiction.
  - destruct Hq as (<- & F & Ga & Gb). rewrite (feq_tobytes fa fb Ga Gb F).
    destruct (fold_a aempty (chunk_ops off t)) as [a|].
    + destruct Hrb as [v' Hv]. exists v'. exact Hv.
    + destruct Hrb as [st Hst]. discriminate Hst.
  - destruct (fold_a aempty (chunk_ops off t)) as [a|].
    + destruct Hrb as [v' Hv]. discriminate Hv.
    + eexists. reflexivity.
  - destruct (fold_a aempty (chunk_ops off t)) as [a|].
    + destruct Hrb as [v' Hv]. discriminate Hv.
    + destruct Hrb as [st Hst]. discriminate Hst.
Qed.

Print Assumptions roundtrip_bytes_any.

(* ------------------------------------------------------------------------------------------ *)
(** * Every table built by the metaclass has well-formed bit runs (widths >= 1)                 *)
(* ------------------------------------------------------------------------------------------ *)

(* ---- the width of a member is recovered from its mask ---- *)
Lemma db_bits_width_mask : forall w s, 0 <= w -> 0 <= s -> bits_width s (mask_of w s) = w.
Proof.
  intros w s Hw Hs. unfold bits_width, mask_of.
  rewrite Z.shiftr_shiftl_l by lia. rewrite Z.sub_diag, Z.shiftl_0_r.
  replace (2 ^ w - 1 + 1) with (2 ^ w) by lia. apply Z.log2_pow2; lia.
Qed.

Lemma db_skipn_nth : forall (A : Type) (l : list A) k x,
  nth_error l k = Some x -> skipn k l = x :: skipn (S k) l.
Proof.
  induction l as [|a l IH]; intros k x H; destruct k as [|k]; cbn [nth_error] in H; try discriminate.
  - injection H as ->. reflexivity.
  - cbn [skipn]. cbn [skipn] in IH. apply IH, H.
Qed.

(* ---- take_run / fuel ---- *)
Lemma db_take_run_len : forall l, (length (snd (take_run l)) <= length l)%nat.
Proof.
  induction l as [|f r IH]; [cbn; lia|].
  destruct f; cbn [take_run snd length]; try lia.
  destruct (take_run r) as [a b]; cbn [snd] in *; lia.
Qed.

Lemma db_runs_ok_fuel : forall n m l, (length l <= n)%nat -> (length l <= m)%nat ->
  runs_ok n l = runs_ok m l.
Proof.
  induction n as [|n IH]; intros m l Hn Hm.
  - destruct l; [|cbn in Hn; lia]. destruct m; reflexivity.
  - destruct m as [|m]. { destruct l; [reflexivity | cbn in Hm; lia]. }
    destruct l as [|f r]; [reflexivity|]. cbn [length] in Hn, Hm.
    destruct f; cbn [runs_ok]; try (apply IH; lia).
    cbn [take_run]. pose proof (db_take_run_len r) as Hl.
    destruct (take_run r) as [a b]. cbn [snd] in Hl.
    f_equal. apply IH; lia.
Qed.

(* ---- what the compiled members of one run look like ---- *)
Definition db_bw (f : cfield) : Z :=
  match f with CBits _ _ _ _ shift mask _ _ => bits_width shift mask | _ => 0 end.

Definition db_member (run : list (Z * Z)) (k : nat) (f : cfield) : Prop :=
  exists i w d, nth_error run k = Some (i, w) /\
    f = CBits i (Nat.eqb k 0) (Nat.eqb (S k) (length run)) (fst (hd (0, 0) run))
              (suffix_sum (map snd run) k) (mask_of w (suffix_sum (map snd run) k))
              (zsum (map snd run) / 8) d.

Definition db_run_good (run : list (Z * Z)) : Prop :=
  Forall (fun w => 1 <= w) (map snd run) /\
  bits_compile (map snd run) = Some (layout (map snd run), zsum (map snd run) / 8).

Fixpoint db_members (run : list (Z * Z)) (k : nat) (cbs : list cfield) : Prop :=
  match cbs with
  | [] => True
  | f :: r => db_member run k f /\ db_run_good run /\ db_members run (S k) r
  end.

Lemma db_pos_nonneg : forall ws, Forall (fun w => 1 <= w) ws -> nonneg_all ws.
Proof.
  intros ws H. unfold nonneg_all. eapply Forall_impl; [|exact H]. cbn. intros; lia.
Qed.

Lemma db_pos_nth : forall ws k w, Forall (fun w => 1 <= w) ws -> nth_error ws k = Some w -> 1 <= w.
Proof.
  intros ws k w H Hn. rewrite Forall_forall in H. apply H. eapply nth_error_In; exact Hn.
Qed.

Lemma db_map_width : forall run cbs k, db_members run k cbs ->
  (length cbs + k = length run)%nat -> map db_bw cbs = skipn k (map snd run).
Proof.
  intros run. induction cbs as [|f r IH]; intros k HM HL.
  - cbn [length] in HL. cbn [map]. symmetry. apply skipn_all2. rewrite map_length. lia.
  - destruct HM as [(i & w & d & Hn & Hf) [[Hpos Hbc] HM']].
    assert (Hnw : nth_error (map snd run) k = Some w).
    { rewrite (map_nth_error snd _ _ Hn). reflexivity. }
    rewrite (db_skipn_nth _ _ _ _ Hnw). cbn [map]. f_equal.
    + subst f. cbn [db_bw]. apply db_bits_width_mask.
      * pose proof (db_pos_nth _ _ _ Hpos Hnw). lia.
      * apply suffix_sum_nonneg, db_pos_nonneg, Hpos.
    + apply IH; [exact HM' | cbn [length] in HL; lia].
Qed.

Lemma db_members_forallb : forall run n cbs k, n = length run -> db_members run k cbs ->
  forallb (fun p => member_ok (fst (hd (0, 0) run)) (zsum (map snd run) / 8) n
                              (fst (fst p)) (snd (fst p)) (snd p))
    (combine (combine (seq k (length cbs)) cbs) (skipn k (layout (map snd run)))) = true.
Proof.
  intros run n cbs k Hn0. subst n. revert k. induction cbs as [|f r IH]; intros k HM.
  - reflexivity.
  - destruct HM as [(i & w & d & Hn & Hf) [[Hpos Hbc] HM']].
    assert (Hnw : nth_error (map snd run) k = Some w).
    { rewrite (map_nth_error snd _ _ Hn). reflexivity. }
    pose proof (layout_nth _ _ _ Hnw) as Hlay.
    rewrite (db_skipn_nth _ _ _ _ Hlay).
    cbn [length seq combine forallb]. rewrite (IH (S k) HM'), andb_true_r.
    subst f. unfold member_ok. cbn [fst snd].
    rewrite !Bool.eqb_reflx, !Z.eqb_refl. cbn [andb].
    rewrite db_bits_width_mask.
    + apply andb_true_intro. split; apply Z.leb_le.
      * apply suffix_sum_nonneg, db_pos_nonneg, Hpos.
      * apply (db_pos_nth _ _ _ Hpos Hnw).
    + pose proof (db_pos_nth _ _ _ Hpos Hnw). lia.
    + apply suffix_sum_nonneg, db_pos_nonneg, Hpos.
Qed.

Lemma db_run_ok_unfold : forall i a b c s m nb d r,
  run_ok (CBits i a b c s m nb d :: r) =
  match bits_compile (map db_bw (CBits i a b c s m nb d :: r)) with
  | Some (sm, nb') =>
      (nb' =? nb) && (Z.of_nat (length sm) =? Z.of_nat (length (CBits i a b c s m nb d :: r))) &&
      forallb (fun p => member_ok i nb (length (CBits i a b c s m nb d :: r))
                                  (fst (fst p)) (snd (fst p)) (snd p))
              (combine (combine (seq 0 (length (CBits i a b c s m nb d :: r)))
                                (CBits i a b c s m nb d :: r)) sm)
  | None => false
  end.
Proof. reflexivity. Qed.

Lemma db_run_ok : forall run cbs, db_members run 0 cbs -> length cbs = length run ->
  run_ok cbs = true.
Proof.
  intros run cbs HM HL. destruct cbs as [|f r]; [reflexivity|].
  assert (HW : map db_bw (f :: r) = map snd run).
  { rewrite (db_map_width run (f :: r) 0%nat HM) by lia. reflexivity. }
  pose proof (db_members_forallb run (length (f :: r)) (f :: r) 0%nat HL HM) as HF.
  cbn [skipn] in HF.
  destruct HM as [(i & w & d & Hn & Hf) [[Hpos Hbc] HM']].
  assert (Hi : fst (hd (0, 0) run) = i).
  { destruct run as [|[i0 w0] t]; cbn [nth_error] in Hn; [discriminate|].
    injection Hn as -> ->. reflexivity. }
  rewrite Hi in *. clear Hi.
  subst f. rewrite db_run_ok_unfold. rewrite HW, Hbc.
  apply andb_true_intro. split; [apply andb_true_intro; split|].
  - apply Z.eqb_refl.
  - rewrite layout_length, map_length, HL. apply Z.eqb_refl.
  - exact HF.
Qed.

Lemma db_finish : forall run l cbs l', take_run l = (cbs, l') -> length cbs = length run ->
  db_members run 0 cbs -> runs_ok (length l') l' = true -> runs_ok (length l) l = true.
Proof.
  intros run l cbs l' HT HL HM HR.
  destruct l as [|f r]; [reflexivity|].
  destruct f; cbn [take_run] in HT; try (injection HT as <- <-; exact HR).
  cbn [length runs_ok take_run].
  pose proof (db_take_run_len r) as Hlen.
  destruct (take_run r) as [a b]. cbn [snd] in Hlen. injection HT as <- <-.
  rewrite (db_run_ok run _ HM HL). cbn [andb].
  rewrite (db_runs_ok_fuel (length r) (length b) b) by lia. exact HR.
Qed.

(* ---- positivity of the widths ---- *)
Definition db_pos (d : dfield) : Prop :=
  match d with DBody _ (SBits w _) => 1 <= w | _ => True end.

Lemma db_pos_run_back : forall ds, Forall db_pos ds -> Forall (fun w => 1 <= w) (map snd (run_back ds)).
Proof.
  induction 1 as [|d r Hd Hr IH]; cbn [run_back map]; [constructor|].
  destruct d as [| i b]; cbn [is_bits map]; [constructor|].
  destruct b; cbn [map]; try constructor; [exact Hd | exact IH].
Qed.

Lemma db_pos_run_fwd : forall ds, Forall db_pos ds -> Forall (fun w => 1 <= w) (map snd (run_fwd ds)).
Proof.
  induction 1 as [|d r Hd Hr IH]; cbn [run_fwd map]; [constructor|].
  destruct d as [| i b]; cbn [is_bits map]; [constructor|].
  destruct b; cbn [map]; try constructor; [exact Hd | exact IH].
Qed.

Definition db_is_cbits (f : cfield) : bool :=
  match f with CBits _ _ _ _ _ _ _ _ => true | _ => false end.

(* a non-bits head: one step *)
Lemma db_step_nonbits : forall cf l2 run cbs l',
  db_is_cbits cf = false ->
  take_run l2 = (cbs, l') -> length cbs = length run -> db_members run 0 cbs ->
  runs_ok (length l') l' = true ->
  take_run (cf :: l2) = ([], cf :: l2) /\ runs_ok (length (cf :: l2)) (cf :: l2) = true.
Proof.
  intros cf l2 run cbs l' Hcf HT HL HM HR.
  pose proof (db_finish run l2 cbs l' HT HL HM HR) as H2.
  destruct cf; cbn [db_is_cbits] in Hcf; try discriminate; (split; [reflexivity | exact H2]).
Qed.

Lemma db_compile_inv : forall al ds before l,
  Forall db_pos before -> Forall db_pos ds -> compile_fields al before ds = Some l ->
  exists cbs l', take_run l = (cbs, l') /\ length cbs = length (run_fwd ds) /\
    db_members (rev (run_back before) ++ run_fwd ds) (length (run_back before)) cbs /\
    runs_ok (length l') l' = true.
Proof.
  intros al. induction ds as [|d rest IH]; intros before l Hb Hds H.
  - cbn [compile_fields] in H. injection H as <-. exists [], []. repeat split.
  - assert (Hd : db_pos d) by (inversion Hds; assumption).
    assert (Hrest : Forall db_pos rest) by (inversion Hds; assumption).
    assert (Hb' : Forall db_pos (d :: before)) by (constructor; assumption).
    assert (NB : forall cf, db_is_cbits cf = false -> is_bits d = None ->
              match compile_fields al (d :: before) rest with
              | Some l0 => Some (cf :: l0) | None => None end = Some l ->
              exists cbs l', take_run l = (cbs, l') /\ length cbs = length (run_fwd (d :: rest)) /\
                db_members (rev (run_back before) ++ run_fwd (d :: rest)) (length (run_back before)) cbs /\
                runs_ok (length l') l' = true).
    { intros cf Hcf Hnb H0.
      destruct (compile_fields al (d :: before) rest) as [l2|] eqn:Ecf; [|discriminate].
      injection H0 as <-.
      destruct (IH (d :: before) l2 Hb' Hrest Ecf) as (cbs2 & l2' & HT & HL & HM & HR).
      cbn [run_back] in HM. rewrite Hnb in HM. cbn [rev app length] in HM.
      destruct (db_step_nonbits cf l2 _ _ _ Hcf HT HL HM HR) as [HT' HR'].
      exists [], (cf :: l2). cbn [run_fwd]. rewrite Hnb.
      repeat split; assumption. }
    destruct d as [i arg rf a | i b].
    + cbn [compile_fields] in H. eapply NB; [| reflexivity | exact H]. reflexivity.
    + destruct b as [e | w dflt | e cnt unt whn dflt a | e whn dflt | ].
      * cbn [compile_fields] in H. eapply NB; [| reflexivity | exact H]. reflexivity.
      * clear NB. cbn [compile_fields] in H. cbn [db_pos] in Hd.
        remember (rev (run_back before) ++ (i, w) :: run_fwd rest) as run eqn:Erun.
        destruct (bits_compile (map snd run)) as [[sm nb]|] eqn:Ebc; [|discriminate].
        destruct (nth_error sm (length (run_back before))) as [[shift mask]|] eqn:Enth; [|discriminate].
        destruct (compile_fields al (DBody i (SBits w dflt) :: before) rest) as [l2|] eqn:Ecf; [|discriminate].
        injection H as <-.
        destruct (IH _ l2 Hb' Hrest Ecf) as (cbs2 & l2' & HT & HL & HM & HR).
        cbn [run_back is_bits rev length] in HM. rewrite <- app_assoc in HM. cbn [app] in HM.
        rewrite <- Erun in HM.
        destruct (bits_compile_inv _ _ _ Ebc) as [Hsm Hz].
        assert (Hnr : nth_error run (length (run_back before)) = Some (i, w)).
        { rewrite Erun. rewrite nth_error_app2 by (rewrite rev_length; lia).
          rewrite rev_length, Nat.sub_diag. reflexivity. }
        assert (Hnw : nth_error (map snd run) (length (run_back before)) = Some w).
        { rewrite (map_nth_error snd _ _ Hnr). reflexivity. }
        assert (Hlen : length run = (length (run_back before) + S (length (run_fwd rest)))%nat).
        { rewrite Erun, app_length, rev_length. reflexivity. }
        assert (Hnb : zsum (map snd run) / 8 = nb).
        { rewrite Hz, Z.mul_comm, Z.div_mul by lia. reflexivity. }
        eexists (_ :: cbs2), l2'. split; [cbn [take_run]; rewrite HT; reflexivity|].
        split; [cbn [run_fwd is_bits length]; rewrite HL; reflexivity|].
        split; [|exact HR].
        cbn [run_fwd is_bits]. rewrite <- Erun. cbn [db_members].
        split; [|split; [|exact HM]].
        -- exists i, w, dflt. split; [exact Hnr|].
           rewrite Hsm, (layout_nth _ _ _ Hnw) in Enth. injection Enth as <- <-.
           rewrite Hnb. f_equal.
           ++ destruct (run_back before); reflexivity.
           ++ rewrite Hlen. destruct (run_fwd rest); cbn [length].
              ** symmetry. apply Nat.eqb_eq. lia.
              ** symmetry. apply Nat.eqb_neq. lia.
           ++ destruct run as [|[i0 w0] t]; [|reflexivity].
              destruct (length (run_back before)); discriminate.
        -- split.
           ++ rewrite Erun, map_app, map_cons. apply Forall_app. split.
              ** rewrite map_rev. apply Forall_rev. apply db_pos_run_back, Hb.
              ** constructor; [exact Hd | apply db_pos_run_fwd, Hrest].
           ++ rewrite Ebc, Hsm, Hnb. reflexivity.
      * cbn [compile_fields] in H. eapply NB; [| reflexivity | exact H]. reflexivity.
      * cbn [compile_fields] in H. eapply NB; [| reflexivity | exact H]. reflexivity.
      * cbn [compile_fields] in H. eapply NB; [| reflexivity | exact H]. reflexivity.
Qed.

(* ---- describe_fields keeps the widths positive ---- *)
Definition pclass_bits_pos (p : pclass) : bool :=
  forallb (fun f => match fd_body f with SBits w _ => 1 <=? w | _ => true end) (pc_fields p).

Lemma db_describe_fields_pos : forall al fs i,
  forallb (fun f => match fd_body f with SBits w _ => 1 <=? w | _ => true end) fs = true ->
  Forall db_pos (describe_fields al fs i).
Proof.
  intros al. induction fs as [|f r IH]; intros i H; cbn [describe_fields]; [constructor|].
  cbn [forallb] in H. apply andb_prop in H. destruct H as [Hf Hr].
  assert (Hp : db_pos (DBody i (fd_body f))).
  { cbn [db_pos]. destruct (fd_body f); try exact I. apply Z.leb_le, Hf. }
  apply Forall_app. split; [|apply IH, Hr].
  destruct (fd_move f) as [[[arg rf] a]|].
  - constructor; [exact I|]. constructor; [exact Hp | constructor].
  - destruct al as [a|].
    + constructor; [exact I|]. constructor; [exact Hp | constructor].
    + constructor; [exact Hp | constructor].
Qed.

Theorem describe_bits_ok : forall p k,
  pclass_bits_pos p = true -> describe p = Some k -> class_bits_ok k = true.
Proof.
  intros p k Hpos H. unfold describe in H.
  destruct (compile_fields (pc_align p) [] (describe_fields (pc_align p) (pc_fields p) 0))
    as [l|] eqn:Ecf; [|discriminate].
  injection H as <-. unfold class_bits_ok. cbn [cc_fields].
  destruct (db_compile_inv _ _ _ _ (Forall_nil _) (db_describe_fields_pos _ _ _ Hpos) Ecf)
    as (cbs & l' & HT & HL & HM & HR).
  cbn [run_back rev app length] in HM.
  exact (db_finish _ _ _ _ HT HL HM HR).
Qed.


Print Assumptions describe_bits_ok.

(* ------------------------------------------------------------------------------------------ *)
(** * Refutation of describe_bits_ok without positive widths; a non-vacuity instance           *)
(* ------------------------------------------------------------------------------------------ *)

Definition rtf_pc (fs : list sfield) : pclass :=
  {| pc_endianness := None; pc_align := None; pc_sbl := None; pc_gen_pack := true; pc_gen_unpack := true;
     pc_vectorize := true; pc_fields := map (fun b => {| fd_move := None; fd_body := b |}) fs |}.

(* Bits(8), Bits(0): the class can be defined, but the second member has an empty mask *)
Example refute_describe_bits_ok_without_pos :
  exists k, describe (rtf_pc [SBits 8 VNone; SBits 0 VNone]) = Some k /\ class_bits_ok k = false.
Proof. eexists. split; vm_compute; reflexivity. Qed.

(* the fuel of Model/Wf2.lens_ok does not follow the fuel of the parse: one Int field, fuel 1 *)
Example lens_ok_fuel_mismatch :
  let ct := [(0, rt_mk [CElem 0 rt_u8])] in
  unpack_pkt 1 true ct [7] 0 0 = POk (VPkt 0 [(FN 0, VInt 7)]) 1 [TChunk 0 [7]] /\
  lens_ok 1 ct (VPkt 0 [(FN 0, VInt 7)]) = false.
Proof. split; vm_compute; reflexivity. Qed.

(* a described class: a run 3+5 bits, an Int, a run 4+12 bits, a Data(2), generated code on both sides *)
Definition rtf_ex_pc : pclass :=
  rtf_pc [SBits 3 VNone; SBits 5 VNone; SElem rt_u8; SBits 4 VNone; SBits 12 VNone;
          SElem (ELeafE (LDataSized (ELit (VInt 2)) true VNone))].
Definition rtf_ex_raw : bytes := [9; 9; 171; 7; 18; 52; 1; 2; 99].

Example roundtrip_any_nonvacuous :
  exists k s e t,
    describe rtf_ex_pc = Some k /\ pclass_bits_pos rtf_ex_pc = true /\
    let ct := [(0, k)] in
    unpack_any 3 true ct rtf_ex_raw 0 2 = POk (VPkt 0 s) e t /\
    slot_get s (FN 0) = Some (VInt 5) /\ slot_get s (FN 1) = Some (VInt 11) /\
    slot_get s (FN 3) = Some (VInt 1) /\ slot_get s (FN 4) = Some (VInt 564) /\
    ct_rtb 2 ct = true /\ ct_bits_ok ct = true /\ ct_distinct ct = true /\ ct_wf ct = true /\
    ct_sizes_ok ct = true /\ wf_bytes rtf_ex_raw /\ trace_from 2 t /\ trace_in rtf_ex_raw t /\
    pack_any_top 3 true rt_dl0 ct 0 s = PBytes [171; 7; 18; 52; 1; 2] (VPkt 0 s).
Proof.
  eexists _, _, _, _. split; [vm_compute; reflexivity|]. split; [vm_compute; reflexivity|]. cbv zeta.
  split; [vm_compute; reflexivity|].
  split; [vm_compute; reflexivity|]. split; [vm_compute; reflexivity|].
  split; [vm_compute; reflexivity|]. split; [vm_compute; reflexivity|].
  split; [vm_compute; reflexivity|]. split; [vm_compute; reflexivity|].
  split; [vm_compute; reflexivity|]. split; [vm_compute; reflexivity|]. split; [vm_compute; reflexivity|].
  split; [repeat constructor; unfold wf_byte; lia|].
  split; [repeat constructor; lia|]. split; [repeat constructor; vm_compute; discriminate|].
  vm_compute. reflexivity.
Qed.

Print Assumptions roundtrip_any_nonvacuous.
