(* Proofs/RoundTrip.v -- C01: serializing a parsed packet replays, chunk by chunk, the bytes the parse
   consumed, at their positions relative to the start offset.  Stdlib only, no axioms.

   Three hypotheses were added to the statements of notes/stmts/S2_roundtrip.v, each forced by a
   counterexample (section "refutations" at the end of the file):
   - wf_bytes raw        (an Int field decodes the ill-formed byte 300 but cannot encode it back),
   - ct_distinct ct      (two fields with the same index share one attribute: the first value is lost),
   - trace_in raw t      (a read-to-end field past the end of the data moves the parse cursor backwards). *)
From Coq Require Import ZArith List Bool Lia.
From Bisturi Require Import Base.Bytes Kernel.IntCodec Kernel.Align Kernel.BitsK Kernel.DataK Kernel.Frag
  Model.Value Model.Decl Model.Unpack Model.Pack Model.Init Model.Codegen Model.Wf Model.Wf3
  Proofs.FragProofs Proofs.IntCodecProofs Proofs.DataProofs Proofs.AlignProofs.
Import ListNotations. Open Scope Z_scope.

(* ------------------------------------------------------------------------------------------ *)
(** * Statement vocabulary                                                                     *)
(* ------------------------------------------------------------------------------------------ *)

Definition same_content (a b : frs) : Prop := frags a = frags b /\ begins a = begins b.
(* insert every consumed chunk, in order, at its position relative to `base` *)
Fixpoint ins_trace (base : Z) (t : trace) (fr : frs) : Frag.res :=
  match t with
  | [] => Frag.Ok fr
  | TChunk p b :: r => match insert fr (p - base) b with Frag.Ok fr' => ins_trace base r fr' | x => x end
  | _ :: r => ins_trace base r fr
  end.
(* the parse never went before `base` *)
Definition trace_from (base : Z) (t : trace) : Prop :=
  Forall (fun x => match x with TChunk p _ => base <= p | TMove p => base <= p | TDelim _ _ _ => True end) t.
(* every chunk starts inside the data (added hypothesis) *)
Definition trace_in (raw : bytes) (t : trace) : Prop :=
  Forall (fun x => match x with TChunk p _ => p <= blen raw | _ => True end) t.

(* the indices of the attributes a compiled field list defines (Move pseudo-fields define none) *)
Definition fidx (f : cfield) : list Z :=
  match f with
  | CMove _ _ _ _ => []
  | CElem i _ | CBits i _ _ _ _ _ _ _ | CSeq i _ _ _ _ _ _ | COpt i _ _ _ | CEm i => [i]
  end.
Definition fidxs (fs : list cfield) : list Z := flat_map fidx fs.
Fixpoint nodupb (l : list Z) : bool :=
  match l with
  | [] => true
  | a :: r => negb (existsb (Z.eqb a) r) && nodupb r
  end.
(* in every class the declared fields have pairwise distinct indices (added hypothesis) *)
Definition ct_distinct (ct : ctab) : bool := forallb (fun ck => nodupb (fidxs (cc_fields (snd ck)))) ct.

Definition chunk_ops (base : Z) (t : trace) : list op :=
  flat_map (fun x => match x with TChunk p b => [OInsert (p - base) b] | _ => [] end) t.

(* ------------------------------------------------------------------------------------------ *)
(** * Names and slots                                                                          *)
(* ------------------------------------------------------------------------------------------ *)

Lemma fname_eqb_spec (a b : fname) : reflect (a = b) (fname_eqb a b).
Proof.
  destruct a, b; cbn [fname_eqb]; try (constructor; discriminate);
    try (destruct (Z.eqb_spec i i0); constructor; congruence).
  destruct (Z.eqb_spec i i0), (Z.eqb_spec j j0); cbn [andb]; constructor; congruence.
Qed.

Lemma slot_get_set (s : slots) (f : fname) (v : value) (g : fname) :
  slot_get (slot_set s f v) g = if fname_eqb g f then Some v else slot_get s g.
Proof.
  induction s as [|[h w] r IH]; cbn [slot_set slot_get].
  - reflexivity.
  - destruct (fname_eqb_spec f h) as [->|Hfh]; cbn [slot_get].
    + destruct (fname_eqb_spec g h); reflexivity.
    + rewrite IH. destruct (fname_eqb_spec g h) as [->|Hgh]; [|reflexivity].
      destruct (fname_eqb_spec h f); [congruence|reflexivity].
Qed.
Lemma slot_get_set_same (s : slots) (f : fname) (v : value) : slot_get (slot_set s f v) f = Some v.
Proof. rewrite slot_get_set. destruct (fname_eqb_spec f f); congruence. Qed.
Lemma slot_get_set_other (s : slots) (f : fname) (v : value) (g : fname) :
  g <> f -> slot_get (slot_set s f v) g = slot_get s g.
Proof. intros H. rewrite slot_get_set. destruct (fname_eqb_spec g f); congruence. Qed.

(* ------------------------------------------------------------------------------------------ *)
(** * Values that only contain round-trippable Field literals                                  *)
(* ------------------------------------------------------------------------------------------ *)

Notation vlr := value_leaves_rt.
Definition slots_all (s : slots) : Prop := Forall (fun p => vlr (snd p) = true) s.

Lemma vlr_list_iff (l : list value) : vlr (VList l) = true <-> Forall (fun a => vlr a = true) l.
Proof.
  induction l as [|a r IH].
  - split; [constructor|reflexivity].
  - change (vlr (VList (a :: r))) with (vlr a && vlr (VList r)). rewrite andb_true_iff, IH. split.
    + intros [A B]. constructor; assumption.
    + intros H. inversion H. split; assumption.
Qed.
Lemma vlr_tuple_iff (l : list value) : vlr (VTuple l) = true <-> Forall (fun a => vlr a = true) l.
Proof.
  induction l as [|a r IH].
  - split; [constructor|reflexivity].
  - change (vlr (VTuple (a :: r))) with (vlr a && vlr (VTuple r)). rewrite andb_true_iff, IH. split.
    + intros [A B]. constructor; assumption.
    + intros H. inversion H. split; assumption.
Qed.
Lemma vlr_dict_iff (k l : list value) : vlr (VDict k l) = true <-> Forall (fun a => vlr a = true) l.
Proof.
  induction l as [|a r IH].
  - split; [constructor|reflexivity].
  - change (vlr (VDict k (a :: r))) with (vlr a && vlr (VDict k r)). rewrite andb_true_iff, IH. split.
    + intros [A B]. constructor; assumption.
    + intros H. inversion H. split; assumption.
Qed.
Lemma vlr_pkt_iff (c : cid) (s : slots) : vlr (VPkt c s) = true <-> slots_all s.
Proof.
  unfold slots_all. induction s as [|[f a] r IH].
  - split; [constructor|reflexivity].
  - change (vlr (VPkt c ((f, a) :: r))) with (vlr a && vlr (VPkt c r)). rewrite andb_true_iff, IH. split.
    + intros [A B]. constructor; assumption.
    + intros H. inversion H. split; assumption.
Qed.

Lemma slots_all_get (s : slots) (f : fname) (v : value) : slots_all s -> slot_get s f = Some v -> vlr v = true.
Proof.
  unfold slots_all. induction s as [|[g w] r IH]; cbn [slot_get]; intros H E; [discriminate|].
  inversion H as [|? ? Hw Hr]; subst. destruct (fname_eqb f g).
  - injection E as <-. exact Hw.
  - exact (IH Hr E).
Qed.
Lemma slots_all_set (s : slots) (f : fname) (v : value) : slots_all s -> vlr v = true -> slots_all (slot_set s f v).
Proof.
  unfold slots_all. induction s as [|[g w] r IH]; cbn [slot_set]; intros H Hv.
  - constructor; [exact Hv|constructor].
  - inversion H as [|? ? Hw Hr]; subst. destruct (fname_eqb f g); constructor; auto.
Qed.

(* ------------------------------------------------------------------------------------------ *)
(** * The fragment buffer: an insert only looks at the content, not at the cursor              *)
(* ------------------------------------------------------------------------------------------ *)

Lemma same_content_refl (a : frs) : same_content a a.
Proof. split; reflexivity. Qed.
Lemma same_content_sym (a b : frs) : same_content a b -> same_content b a.
Proof. intros [A B]. split; congruence. Qed.
Lemma same_content_trans (a b c : frs) : same_content a b -> same_content b c -> same_content a c.
Proof. intros [A B] [C D]. split; congruence. Qed.
Lemma same_content_set_cur (fr : frs) (p : Z) : same_content (set_cur fr p) fr.
Proof. split; reflexivity. Qed.

Lemma insert_cur (fr : frs) (p : Z) (b : bytes) (fr' : frs) :
  insert fr p b = Frag.Ok fr' -> cur fr' = p + blen b.
Proof.
  destruct b as [|x b].
  - rewrite insert_empty_eq. intros H. injection H as <-. cbn [cur]. rewrite FragProofs.blen_nil. lia.
  - rewrite insert_nonempty_eq by discriminate.
    destruct (chk_all (begins fr) (frags fr) p (blen (x :: b))) as [[|]|]; try discriminate.
    intros H. injection H as <-. reflexivity.
Qed.

Definition rsim (r1 r2 : Frag.res) : Prop :=
  match r1, r2 with
  | Frag.Ok a, Frag.Ok b => same_content a b
  | Collision, Collision => True
  | Crash, Crash => True
  | _, _ => False
  end.

Lemma insert_rsim (a b : frs) (p : Z) (x : bytes) : same_content a b -> rsim (insert a p x) (insert b p x).
Proof.
  destruct a as [fa ba ca], b as [fb bb cb]. intros [A B]. cbn [frags begins] in A, B. subst fb bb.
  assert (E : insert {| frags := fa; begins := ba; cur := ca |} p x
            = match insert {| frags := fa; begins := ba; cur := cb |} p x with
              | Frag.Ok r => Frag.Ok {| frags := frags r; begins := begins r; cur := cur r |}
              | e => e
              end).
  { destruct x as [|y x].
    - rewrite !insert_empty_eq. reflexivity.
    - rewrite !insert_nonempty_eq by discriminate. cbn [frags begins].
      destruct (chk_all ba fa p (blen (y :: x))) as [[|]|]; reflexivity. }
  rewrite E. destruct (insert {| frags := fa; begins := ba; cur := cb |} p x); cbn [rsim]; auto.
  split; reflexivity.
Qed.

Lemma ins_trace_rsim (base : Z) (t : trace) : forall a b, same_content a b ->
  rsim (ins_trace base t a) (ins_trace base t b).
Proof.
  induction t as [|x t IH]; intros a b H; cbn [ins_trace].
  - exact H.
  - destruct x as [p y| |]; try (apply IH; exact H).
    pose proof (insert_rsim a b (p - base) y H) as S.
    destruct (insert a (p - base) y), (insert b (p - base) y); cbn [rsim] in S; try contradiction.
    + apply IH; exact S.
    + exact I.
    + exact I.
Qed.

Lemma ins_trace_app (base : Z) (t1 t2 : trace) : forall fr,
  ins_trace base (t1 ++ t2) fr =
  match ins_trace base t1 fr with Frag.Ok fr' => ins_trace base t2 fr' | x => x end.
Proof.
  induction t1 as [|x t1 IH]; intros fr; cbn [ins_trace app].
  - reflexivity.
  - destruct x as [p y| |]; try apply IH.
    destruct (insert fr (p - base) y); try reflexivity. apply IH.
Qed.

(* trace hypotheses *)
Definition tr_ok (base : Z) (raw : bytes) (t : trace) : Prop := trace_from base t /\ trace_in raw t.
Lemma tr_ok_app (base : Z) (raw : bytes) (a b : trace) :
  tr_ok base raw (a ++ b) <-> tr_ok base raw a /\ tr_ok base raw b.
Proof.
  unfold tr_ok, trace_from, trace_in. rewrite !Forall_app. tauto.
Qed.
Lemma tr_ok_nil (base : Z) (raw : bytes) : tr_ok base raw [].
Proof. split; constructor. Qed.
Lemma tr_ok_chunk (base : Z) (raw : bytes) (p : Z) (b : bytes) (r : trace) :
  tr_ok base raw (TChunk p b :: r) -> base <= p <= blen raw.
Proof. intros [A B]. inversion A; inversion B; subst. lia. Qed.
Lemma tr_ok_move (base : Z) (raw : bytes) (p : Z) (r : trace) :
  tr_ok base raw (TMove p :: r) -> base <= p.
Proof. intros [A B]. inversion A; subst. assumption. Qed.

(* ------------------------------------------------------------------------------------------ *)
(** * What "pack replays the trace" means for a field (kres) and for a packet (qres)           *)
(* ------------------------------------------------------------------------------------------ *)

Definition kfails (r : kres) : Prop := match r with KExn _ _ | KFail _ => True | _ => False end.
Definition kspec (base : Z) (t : trace) (fr : frs) (o1 : Z) (r : kres) (P : slots -> Prop) : Prop :=
  match ins_trace base t fr with
  | Frag.Ok fr1 => exists sp' fr2, r = KOk sp' fr2 /\ same_content fr2 fr1 /\ cur fr2 = o1 - base /\ P sp'
  | _ => kfails r
  end.
Definition qspec (base : Z) (t : trace) (fr : frs) (e : Z) (r : qres) : Prop :=
  match ins_trace base t fr with
  | Frag.Ok fr1 => exists v' fr2, r = QOk v' fr2 /\ same_content fr2 fr1 /\ cur fr2 = e - base
  | _ => exists st, r = QFail st
  end.

Lemma kspec_sc (base : Z) (t : trace) (fr fra : frs) (o1 : Z) (r : kres) (P : slots -> Prop) :
  same_content fra fr -> kspec base t fra o1 r P -> kspec base t fr o1 r P.
Proof.
  intros Hsc H. unfold kspec in *. pose proof (ins_trace_rsim base t fra fr Hsc) as S.
  destruct (ins_trace base t fra), (ins_trace base t fr); cbn [rsim] in S; try contradiction; try exact H.
  destruct H as (sp' & fr2 & E & Hc & Hcur & HP). exists sp', fr2.
  split; [exact E|]. split; [eapply same_content_trans; eassumption|]. split; assumption.
Qed.

Lemma kspec_weaken (base : Z) (t : trace) (fr : frs) (o1 : Z) (r : kres) (P Q : slots -> Prop) :
  (forall s, P s -> Q s) -> kspec base t fr o1 r P -> kspec base t fr o1 r Q.
Proof.
  intros HPQ H. unfold kspec in *. destruct (ins_trace base t fr); try exact H.
  destruct H as (sp' & fr2 & E & Hc & Hcur & HP). exists sp', fr2. auto.
Qed.

Lemma kspec_seq (base : Z) (t1 t2 : trace) (fr : frs) (o1 o2 : Z) (r1 : kres) (k : slots -> frs -> kres)
      (P Q : slots -> Prop) :
  kspec base t1 fr o1 r1 P ->
  (forall sp' fr2, P sp' -> cur fr2 = o1 - base -> kspec base t2 fr2 o2 (k sp' fr2) Q) ->
  kspec base (t1 ++ t2) fr o2
    (match r1 with KOk a b => k a b | KExn x c => KExn x c | KFail st => KFail st | KFuel => KFuel end) Q.
Proof.
  intros H1 H2. unfold kspec in *. rewrite ins_trace_app.
  destruct (ins_trace base t1 fr) as [fr1| |].
  - destruct H1 as (sp' & fr2 & -> & Hsc & Hcur & HP). specialize (H2 sp' fr2 HP Hcur).
    pose proof (ins_trace_rsim base t2 fr2 fr1 Hsc) as S.
    destruct (ins_trace base t2 fr2), (ins_trace base t2 fr1); cbn [rsim] in S; try contradiction; try exact H2.
    destruct H2 as (sp'' & fr3 & E & Hc3 & Hcur3 & HQ). exists sp'', fr3.
    split; [exact E|]. split; [eapply same_content_trans; eassumption|]. split; assumption.
  - destruct r1; cbn [kfails] in *; try contradiction; exact I.
  - destruct r1; cbn [kfails] in *; try contradiction; exact I.
Qed.

Lemma kq_seq (base : Z) (t1 t2 : trace) (fr : frs) (o1 e : Z) (r1 : kres) (k : slots -> frs -> qres)
      (g1 : Z -> stack) (g2 : stack -> stack) (P : slots -> Prop) :
  kspec base t1 fr o1 r1 P ->
  (forall sp' fr2, P sp' -> cur fr2 = o1 - base -> qspec base t2 fr2 e (k sp' fr2)) ->
  qspec base (t1 ++ t2) fr e
    (match r1 with KOk a b => k a b | KExn _ c => QFail (g1 c) | KFail st => QFail (g2 st) | KFuel => QFuel end).
Proof.
  intros H1 H2. unfold kspec, qspec in *. rewrite ins_trace_app.
  destruct (ins_trace base t1 fr) as [fr1| |].
  - destruct H1 as (sp' & fr2 & -> & Hsc & Hcur & HP). specialize (H2 sp' fr2 HP Hcur).
    pose proof (ins_trace_rsim base t2 fr2 fr1 Hsc) as S.
    destruct (ins_trace base t2 fr2), (ins_trace base t2 fr1); cbn [rsim] in S; try contradiction; try exact H2.
    destruct H2 as (v' & fr3 & E & Hc3 & Hcur3). exists v', fr3.
    split; [exact E|]. split; [eapply same_content_trans; eassumption|exact Hcur3].
  - destruct r1; cbn [kfails] in *; try contradiction; eexists; reflexivity.
  - destruct r1; cbn [kfails] in *; try contradiction; eexists; reflexivity.
Qed.

Lemma kspec_nil (base : Z) (fr : frs) (o : Z) (sp : slots) (fr' : frs) (P : slots -> Prop) :
  same_content fr' fr -> cur fr' = o - base -> P sp -> kspec base [] fr o (KOk sp fr') P.
Proof. intros A B C. unfold kspec. cbn [ins_trace]. exists sp, fr'. auto. Qed.

Lemma emit_spec (base off : Z) (b : bytes) (fr : frs) (sp : slots) :
  cur fr = off - base ->
  kspec base [TChunk off b] fr (off + blen b) (emit sp fr b) (fun sp' => sp' = sp).
Proof.
  intros Hcur. unfold kspec, emit, append. cbn [ins_trace]. rewrite Hcur.
  destruct (insert fr (off - base) b) as [fr'| |] eqn:E; cbn [kfails]; try exact I.
  exists sp, fr'. split; [reflexivity|]. split; [apply same_content_refl|].
  split; [|reflexivity]. rewrite (insert_cur _ _ _ _ E). lia.
Qed.

(* ------------------------------------------------------------------------------------------ *)
(** * Expressions: evaluated again when packing, on the finished packet                        *)
(* ------------------------------------------------------------------------------------------ *)

(* sp agrees with s on every declared attribute other than i that s already has *)
Definition agree (i : Z) (s sp : slots) : Prop :=
  forall j x, j <> i -> slot_get s (FN j) = Some x -> slot_get sp (FN j) = Some x.

Lemma eval_mono (raw : bytes) (s : slots) (off : Z) (sp : slots) (i : Z) : agree i s sp ->
  forall e v, expr_scoped i e = true -> eval (mkctx raw s off) e = Ok v -> eval (pctx sp) e = Ok v.
Proof.
  intros Hag. fix IH 1. intros e. destruct e as [w|f|o a|o l r|sel opts|sel keys opts|c a b|a f| |]; intros v Hs He.
  - exact He.
  - cbn [expr_scoped] in Hs. destruct f as [j| | | | |]; try discriminate.
    cbn [eval mkctx pctx e_slots] in *.
    destruct (slot_get s (FN j)) as [x|] eqn:G; [|discriminate].
    rewrite (Hag j x); [exact He| |exact G].
    intros ->. rewrite Z.eqb_refl in Hs. discriminate.
  - cbn [expr_scoped] in Hs. cbn [eval] in *.
    destruct (eval (mkctx raw s off) a) as [x|] eqn:E1; [|discriminate].
    rewrite (IH a x Hs E1). exact He.
  - cbn [expr_scoped] in Hs. apply andb_true_iff in Hs as [Hs1 Hs2]. cbn [eval] in *.
    destruct (eval (mkctx raw s off) l) as [x|] eqn:E1; [|discriminate]. cbn [bind] in He.
    destruct (eval (mkctx raw s off) r) as [y|] eqn:E2; [|discriminate].
    rewrite (IH l x Hs1 E1). cbn [bind]. rewrite (IH r y Hs2 E2). exact He.
  - cbn [expr_scoped] in Hs. apply andb_true_iff in Hs as [Hs1 Hs2]. cbn [eval] in *.
    destruct (eval (mkctx raw s off) sel) as [x|] eqn:E1; [|discriminate]. cbn [bind] in He.
    rewrite (IH sel x Hs1 E1). cbn [bind].
    match type of He with bind ?G _ = _ => destruct G as [vs|] eqn:E2; [|discriminate] end.
    match goal with |- bind ?G _ = _ => assert (E3 : G = Ok vs) end.
    { clear He. revert vs Hs2 E2. induction opts as [|a r IHr]; intros vs Hs2 E2.
      - exact E2.
      - apply andb_true_iff in Hs2 as [Ha Hr].
        destruct (eval (mkctx raw s off) a) as [y|] eqn:Ea; [|discriminate]. cbn [bind] in E2.
        rewrite (IH a y Ha Ea). cbn [bind].
        match type of E2 with bind ?G _ = _ => destruct G as [ys|] eqn:Er; [|discriminate] end.
        rewrite (IHr ys Hr eq_refl). exact E2. }
    rewrite E3. exact He.
  - cbn [expr_scoped] in Hs. apply andb_true_iff in Hs as [Hs1 Hs2]. cbn [eval] in *.
    destruct (eval (mkctx raw s off) sel) as [x|] eqn:E1; [|discriminate]. cbn [bind] in He.
    rewrite (IH sel x Hs1 E1). cbn [bind].
    match type of He with bind ?G _ = _ => destruct G as [vs|] eqn:E2; [|discriminate] end.
    match goal with |- bind ?G _ = _ => assert (E3 : G = Ok vs) end.
    { clear He. revert vs Hs2 E2. induction opts as [|a r IHr]; intros vs Hs2 E2.
      - exact E2.
      - apply andb_true_iff in Hs2 as [Ha Hr].
        destruct (eval (mkctx raw s off) a) as [y|] eqn:Ea; [|discriminate]. cbn [bind] in E2.
        rewrite (IH a y Ha Ea). cbn [bind].
        match type of E2 with bind ?G _ = _ => destruct G as [ys|] eqn:Er; [|discriminate] end.
        rewrite (IHr ys Hr eq_refl). exact E2. }
    rewrite E3. exact He.
  - cbn [expr_scoped] in Hs. apply andb_true_iff in Hs as [Hs12 Hs3]. apply andb_true_iff in Hs12 as [Hs1 Hs2].
    cbn [eval] in *.
    destruct (eval (mkctx raw s off) c) as [x|] eqn:E1; [|discriminate]. cbn [bind] in He.
    destruct (eval (mkctx raw s off) a) as [y|] eqn:E2; [|discriminate]. cbn [bind] in He.
    destruct (eval (mkctx raw s off) b) as [z|] eqn:E3; [|discriminate].
    rewrite (IH c x Hs1 E1). cbn [bind]. rewrite (IH a y Hs2 E2). cbn [bind]. rewrite (IH b z Hs3 E3). exact He.
  - cbn [expr_scoped] in Hs. cbn [eval] in *.
    destruct (eval (mkctx raw s off) a) as [x|] eqn:E1; [|discriminate].
    rewrite (IH a x Hs E1). exact He.
  - discriminate.
  - discriminate.
Qed.

Lemma eval_int_mono (raw : bytes) (s : slots) (off : Z) (sp : slots) (i : Z) (e : expr) (z : Z) :
  agree i s sp -> expr_scoped i e = true ->
  eval_int (mkctx raw s off) e = Ok z -> eval_int (pctx sp) e = Ok z.
Proof.
  intros Hag Hs. unfold eval_int.
  destruct (eval (mkctx raw s off) e) as [v|] eqn:E; [|discriminate].
  rewrite (eval_mono raw s off sp i Hag e v Hs E). intros H. exact H.
Qed.

(* every Field literal a value computed from good slots can contain is round-trippable *)
Lemma int_bop_vlr (o : bop) (x y : Z) (v : value) : int_bop o x y = Ok v -> vlr v = true.
Proof.
  destruct o; cbn [int_bop]; try (intros H; injection H as <-; reflexivity); try discriminate.
  - destruct (y =? 0); [discriminate|]. intros H; injection H as <-; reflexivity.
  - destruct (y =? 0); [discriminate|]. intros H; injection H as <-; reflexivity.
  - destruct (y <? 0); [discriminate|]. intros H; injection H as <-; reflexivity.
  - destruct (y <? 0); [discriminate|]. intros H; injection H as <-; reflexivity.
Qed.

Lemma py_index_in {A : Type} (l : list A) (i : Z) (v : A) : py_index l i = Some v -> In v l.
Proof.
  unfold py_index. destruct (_ && _); [|discriminate]. apply nth_error_In.
Qed.
Lemma dict_lookup_in (ks vs : list value) (k v : value) : dict_lookup ks vs k = Some v -> In v vs.
Proof.
  revert vs. induction ks as [|k' kr IH]; intros vs; cbn [dict_lookup]; [discriminate|].
  destruct vs as [|w vr]; [discriminate|]. destruct (value_eqb k k').
  - intros H; injection H as <-. left; reflexivity.
  - intros H. right. exact (IH vr H).
Qed.

Lemma getitem_vlr (a b v : value) : vlr a = true -> apply_bop GetItem a b = Ok v -> vlr v = true.
Proof.
  intros Ha. cbn [apply_bop]. destruct a as [| |l| |l|l|ks vs| | |]; try discriminate.
  - destruct (as_int b); [|discriminate]. destruct (py_index l z); [|discriminate].
    intros H; injection H as <-; reflexivity.
  - destruct (as_int b); [|discriminate]. destruct (py_index l z) as [w|] eqn:E; [|discriminate].
    intros H; injection H as <-. apply vlr_list_iff in Ha. rewrite Forall_forall in Ha.
    apply Ha. exact (py_index_in _ _ _ E).
  - destruct (as_int b); [|discriminate]. destruct (py_index l z) as [w|] eqn:E; [|discriminate].
    intros H; injection H as <-. apply vlr_tuple_iff in Ha. rewrite Forall_forall in Ha.
    apply Ha. exact (py_index_in _ _ _ E).
  - destruct (dict_lookup ks vs b) as [w|] eqn:E; [|discriminate].
    intros H; injection H as <-. apply vlr_dict_iff in Ha. rewrite Forall_forall in Ha.
    apply Ha. exact (dict_lookup_in _ _ _ _ E).
Qed.

Lemma apply_bop_vlr (o : bop) (a b v : value) : vlr a = true -> apply_bop o a b = Ok v -> vlr v = true.
Proof.
  intros Ha. destruct o; try exact (getitem_vlr a b v Ha);
    try (cbn [apply_bop]; intros H; injection H as <-; reflexivity);
    cbn [apply_bop];
    (destruct a, b; cbn [as_int bool_bop];
     try discriminate; try apply int_bop_vlr; try (intros H; injection H as <-; reflexivity)).
Qed.

Lemma apply_uop_vlr (o : uop) (a v : value) : apply_uop o a = Ok v -> vlr v = true.
Proof.
  destruct o; cbn [apply_uop].
  - destruct (as_int a); [|discriminate]. intros H; injection H as <-; reflexivity.
  - destruct (as_int a); [|discriminate]. intros H; injection H as <-; reflexivity.
  - intros H; injection H as <-; reflexivity.
  - destruct a; try discriminate; intros H; injection H as <-; reflexivity.
Qed.

Lemma eval_vlr (cx : ectx) : slots_all (e_slots cx) ->
  forall e v, expr_leaves_rt e = true -> eval cx e = Ok v -> vlr v = true.
Proof.
  intros Hall. fix IH 1. intros e. destruct e as [w|f|o a|o l r|sel opts|sel keys opts|c a b|a f| |]; intros v Hs He.
  - cbn [eval] in He. injection He as <-. exact Hs.
  - cbn [eval] in He. destruct (slot_get (e_slots cx) f) as [x|] eqn:G; [|discriminate].
    injection He as <-. exact (slots_all_get _ _ _ Hall G).
  - cbn [eval] in He. destruct (eval cx a) as [x|]; [|discriminate]. exact (apply_uop_vlr _ _ _ He).
  - cbn [expr_leaves_rt] in Hs. apply andb_true_iff in Hs as [Hs1 Hs2]. cbn [eval] in He.
    destruct (eval cx l) as [x|] eqn:E1; [|discriminate]. cbn [bind] in He.
    destruct (eval cx r) as [y|] eqn:E2; [|discriminate]. cbn [bind] in He.
    exact (apply_bop_vlr _ _ _ _ (IH l x Hs1 E1) He).
  - cbn [expr_leaves_rt] in Hs. apply andb_true_iff in Hs as [Hs1 Hs2]. cbn [eval] in He.
    destruct (eval cx sel) as [x|] eqn:E1; [|discriminate]. cbn [bind] in He.
    match type of He with bind ?G _ = _ => destruct G as [vs|] eqn:E2; [|discriminate] end.
    cbn [bind] in He. refine (getitem_vlr _ _ _ _ He). apply vlr_tuple_iff.
    clear He. revert vs Hs2 E2. induction opts as [|a r IHr]; intros vs Hs2 E2.
    + injection E2 as <-. constructor.
    + apply andb_true_iff in Hs2 as [Ha Hr].
      destruct (eval cx a) as [y|] eqn:Ea; [|discriminate]. cbn [bind] in E2.
      match type of E2 with bind ?G _ = _ => destruct G as [ys|] eqn:Er; [|discriminate] end.
      cbn [bind] in E2. injection E2 as <-. constructor; [exact (IH a y Ha Ea)|exact (IHr ys Hr eq_refl)].
  - cbn [expr_leaves_rt] in Hs. apply andb_true_iff in Hs as [Hs1 Hs2]. cbn [eval] in He.
    destruct (eval cx sel) as [x|] eqn:E1; [|discriminate]. cbn [bind] in He.
    match type of He with bind ?G _ = _ => destruct G as [vs|] eqn:E2; [|discriminate] end.
    cbn [bind] in He. refine (getitem_vlr _ _ _ _ He). apply vlr_dict_iff.
    clear He. revert vs Hs2 E2. induction opts as [|a r IHr]; intros vs Hs2 E2.
    + injection E2 as <-. constructor.
    + apply andb_true_iff in Hs2 as [Ha Hr].
      destruct (eval cx a) as [y|] eqn:Ea; [|discriminate]. cbn [bind] in E2.
      match type of E2 with bind ?G _ = _ => destruct G as [ys|] eqn:Er; [|discriminate] end.
      cbn [bind] in E2. injection E2 as <-. constructor; [exact (IH a y Ha Ea)|exact (IHr ys Hr eq_refl)].
  - cbn [expr_leaves_rt] in Hs. apply andb_true_iff in Hs as [Hs12 Hs3]. apply andb_true_iff in Hs12 as [Hs1 Hs2].
    cbn [eval] in He.
    destruct (eval cx c) as [x|] eqn:E1; [|discriminate]. cbn [bind] in He.
    destruct (eval cx a) as [y|] eqn:E2; [|discriminate]. cbn [bind] in He.
    destruct (eval cx b) as [z|] eqn:E3; [|discriminate]. cbn [bind] in He. injection He as <-.
    destruct (truth x); [exact (IH a y Hs2 E2)|exact (IH b z Hs3 E3)].
  - cbn [expr_leaves_rt] in Hs. cbn [eval] in He.
    destruct (eval cx a) as [x|] eqn:E1; [|discriminate]. cbn [bind] in He.
    pose proof (IH a x Hs E1) as Hx. destruct x; try discriminate.
    destruct (slot_get slots f) as [w|] eqn:G; [|discriminate]. injection He as <-.
    apply vlr_pkt_iff in Hx. exact (slots_all_get _ _ _ Hx G).
  - cbn [eval] in He. destruct (e_offset cx); [|discriminate]. injection He as <-. reflexivity.
  - cbn [eval] in He. destruct (e_rawlen cx); [|discriminate]. injection He as <-. reflexivity.
Qed.

(* ------------------------------------------------------------------------------------------ *)
(** * Slices                                                                                   *)
(* ------------------------------------------------------------------------------------------ *)

Lemma Forall_firstn' {A : Type} (P : A -> Prop) (n : nat) : forall l, Forall P l -> Forall P (firstn n l).
Proof.
  induction n as [|n IH]; intros l H; [constructor|].
  destruct l as [|a l]; [constructor|]. inversion H; subst. cbn [firstn]. constructor; auto.
Qed.
Lemma Forall_skipn' {A : Type} (P : A -> Prop) (n : nat) : forall l, Forall P l -> Forall P (skipn n l).
Proof.
  induction n as [|n IH]; intros l H; [exact H|].
  destruct l as [|a l]; [constructor|]. inversion H; subst. cbn [skipn]. auto.
Qed.
Lemma wf_bytes_slice (raw : bytes) (a b : Z) : wf_bytes raw -> wf_bytes (slice raw a b).
Proof. intros H. unfold slice. apply Forall_firstn', Forall_skipn'. exact H. Qed.

Lemma firstn_add {A : Type} (n m : nat) : forall l : list A,
  firstn (n + m) l = firstn n l ++ firstn m (skipn n l).
Proof.
  induction n as [|n IH]; intros l; [reflexivity|].
  destruct l as [|a l]; cbn [firstn skipn Nat.add app].
  - rewrite firstn_nil. reflexivity.
  - rewrite IH. reflexivity.
Qed.
Lemma skipn_add {A : Type} (n m : nat) : forall l : list A, skipn (n + m) l = skipn m (skipn n l).
Proof.
  induction n as [|n IH]; intros l; [reflexivity|].
  destruct l as [|a l]; cbn [skipn Nat.add].
  - rewrite skipn_nil. reflexivity.
  - apply IH.
Qed.
Lemma slice_split (l : bytes) (a b c : Z) : 0 <= a <= b -> b <= c ->
  slice l a c = slice l a b ++ slice l b c.
Proof.
  intros Hab Hbc. unfold slice.
  replace (Z.to_nat (c - a)) with (Z.to_nat (b - a) + Z.to_nat (c - b))%nat by lia.
  rewrite firstn_add. f_equal. f_equal.
  replace (Z.to_nat b) with (Z.to_nat a + Z.to_nat (b - a))%nat by lia. rewrite skipn_add. reflexivity.
Qed.

(* a prefix of the search window is a full-length slice of the data *)
Lemma window_prefix_len (raw : bytes) (off : Z) (sbl : option Z) (n : Z) :
  0 <= off -> 0 <= n -> n <= blen (window raw off sbl) -> blen (slice raw off (off + n)) = n.
Proof.
  intros Ho Hn Hle. rewrite <- (window_prefix raw off sbl n Ho Hn Hle).
  rewrite blen_slice by lia. lia.
Qed.

(* ------------------------------------------------------------------------------------------ *)
(** * Leaves                                                                                   *)
(* ------------------------------------------------------------------------------------------ *)

Lemma rt_leaf (host : bool) (raw : bytes) (cf : lconf) (c : cid) (name : fname) (l : leaf) (s : slots)
      (off : Z) (v : value) (o' : Z) (t : trace) :
  wf_bytes raw -> 0 <= off -> leaf_rt l = true ->
  unpack_leaf host raw cf c name l s off = Ok (v, o', t) ->
  exists b, t = [TChunk off b] /\ (off <= blen raw -> o' = off + blen b) /\
    ((exists z, v = VInt z) \/ (exists x, v = VBytes x)) /\
    forall dl sp fr, slot_get sp name = Some v -> pack_leaf host dl cf c name l sp fr = emit sp fr b.
Proof.
  intros Hraw Hoff Hrt H. destruct l as [n sg fe d|size ic d|m incl d|r incl d|d]; cbn [unpack_leaf leaf_rt] in *.
  - apply Z.leb_le in Hrt.
    set (big := is_bigendian (resolve_endianness fe (lc_endianness cf)) host) in *.
    destruct (int_unpack n sg big raw off) as [[z o1]|] eqn:E; [|discriminate].
    injection H as <- <- <-.
    destruct (int_unpack_strict n sg big raw off z o1 Hoff Hrt E) as (-> & Hin & Hdec & Hlen).
    destruct (encode_decode n sg big (slice raw off (off + n)) Hrt Hlen (wf_bytes_slice _ _ _ Hraw))
      as (z' & Hdec' & _ & Henc).
    assert (z' = z) as -> by congruence.
    exists (slice raw off (off + n)). split; [reflexivity|]. split; [intros _; lia|].
    split; [left; eexists; reflexivity|].
    intros dl sp fr G. unfold pack_leaf. rewrite G. cbn [as_int]. fold big. rewrite Henc. reflexivity.
  - destruct (eval_int (mkctx raw s off) size) as [bc|]; [|discriminate]. cbn [bind] in H.
    destruct (data_sized raw off bc) as [[x o1]|] eqn:E; [|discriminate].
    injection H as <- <- <-.
    destruct (data_sized_ok raw off bc x o1 Hoff E) as (_ & -> & Hlen & _ & _).
    exists x. split; [reflexivity|]. split; [intros _; lia|].
    split; [right; eexists; reflexivity|].
    intros dl sp fr G. unfold pack_leaf. rewrite G. unfold data_pack. rewrite app_nil_r. reflexivity.
  - destruct (data_marker raw off (lc_sbl cf) m incl) as [[x o1]|] eqn:E; [|discriminate].
    injection H as <- <- <-.
    destruct (data_marker_ok raw off (lc_sbl cf) m incl x o1 Hoff E) as (k & Hf & -> & Hx).
    destruct (find_least _ _ _ Hf) as ((Hk0 & Hkl & Hsl) & _).
    pose proof (DataProofs.blen_nonneg m) as Hm.
    assert (Hlen : blen (slice raw off (off + (k + blen m))) = k + blen m)
      by (apply (window_prefix_len raw off (lc_sbl cf)); lia).
    replace (off + k + blen m) with (off + (k + blen m)) by lia.
    exists (slice raw off (off + (k + blen m))). split; [reflexivity|]. split; [intros _; lia|].
    split; [right; eexists; reflexivity|].
    intros dl sp fr G. unfold pack_leaf. rewrite G. unfold data_pack. f_equal.
    destruct incl.
    + rewrite app_nil_r. exact Hx.
    + rewrite Hx.
      rewrite <- (window_prefix raw off (lc_sbl cf) (k + blen m)) by lia.
      rewrite <- (window_prefix raw off (lc_sbl cf) k) by lia.
      rewrite (slice_split (window raw off (lc_sbl cf)) 0 k (k + blen m)) by lia.
      rewrite Hsl. reflexivity.
  - subst incl.
    destruct (data_regex raw off (lc_sbl cf) r true) as [[[x o1] dd]|] eqn:E; [|discriminate].
    injection H as <- <- <-.
    destruct (data_regex_ok raw off (lc_sbl cf) r true x o1 dd Hoff E) as (st & en & Hs & -> & Hx & _).
    destruct (re_search_bounds _ _ _ _ Hs) as (Hb1 & Hb2).
    assert (Hlen : blen (slice raw off (off + en)) = en)
      by (apply (window_prefix_len raw off (lc_sbl cf)); lia).
    exists (slice raw off (off + en)). split; [reflexivity|]. split; [intros _; lia|].
    split; [right; eexists; reflexivity|].
    intros dl sp fr G. unfold pack_leaf. rewrite G. unfold data_pack. rewrite app_nil_r, Hx. reflexivity.
  - unfold data_eos in H. injection H as <- <- <-.
    exists (slice raw off (off + (blen raw - off))). split; [reflexivity|]. split.
    + intros Hle. rewrite blen_slice by lia. lia.
    + split; [right; eexists; reflexivity|].
      intros dl sp fr G. unfold pack_leaf. rewrite G. unfold data_pack. rewrite app_nil_r. reflexivity.
Qed.

(* ------------------------------------------------------------------------------------------ *)
(** * The invariant relating a packet parser and a packet serializer                           *)
(* ------------------------------------------------------------------------------------------ *)

Definition rt_inv (base : Z) (raw : bytes) (U : cid -> Z -> pres) (P : cid -> slots -> frs -> qres) : Prop :=
  forall c o v e t, U c o = POk v e t -> base <= o -> tr_ok base raw t ->
    exists s, v = VPkt c s /\ slots_all s /\ base <= e /\
      forall fr, cur fr = o - base -> qspec base t fr e (P c s fr).

Definition cf_idx (f : cfield) : Z :=
  match f with
  | CMove i _ _ _ | CElem i _ | CBits i _ _ _ _ _ _ _ | CSeq i _ _ _ _ _ _ | COpt i _ _ _ | CEm i => i
  end.

Lemma nodup_app_disj {A : Type} (a b : list A) : NoDup (a ++ b) ->
  NoDup b /\ forall x, In x a -> ~ In x b.
Proof.
  induction a as [|y a IH]; cbn [app]; intros H.
  - split; [exact H|]. intros x [].
  - inversion H as [|? ? Hn Hr]; subst. destruct (IH Hr) as [Hb Hd]. split; [exact Hb|].
    intros x [->|Hx]; [|exact (Hd x Hx)]. intros Hin. apply Hn. apply in_or_app. right. exact Hin.
Qed.

Section RT.
Variables (host : bool) (raw : bytes) (rec_unpack : cid -> Z -> pres) (loop_fuel : nat)
          (dl : dstate) (rec_pack : cid -> slots -> frs -> qres) (base : Z).
Hypothesis Hraw : wf_bytes raw.
Hypothesis Hbase : 0 <= base.
Hypothesis HREC : rt_inv base raw rec_unpack rec_pack.

Lemma rt_nested (c' : cid) (off : Z) (v : value) (o' : Z) (t : trace) :
  rec_unpack c' off = POk v o' t -> base <= off -> tr_ok base raw t ->
  exists s', v = VPkt c' s' /\ slots_all s' /\ base <= o' /\
    forall sp fr, cur fr = off - base ->
      kspec base t fr o'
        (match rec_pack c' s' fr with QOk _ fr' => KOk sp fr' | QFail st => KFail st | QFuel => KFuel end)
        (fun sp' => sp' = sp).
Proof.
  intros H Hb Htr. destruct (HREC c' off v o' t H Hb Htr) as (s' & -> & Hall & Ho & Hq).
  exists s'. split; [reflexivity|]. split; [exact Hall|]. split; [exact Ho|].
  intros sp fr Hcur. specialize (Hq fr Hcur). unfold qspec in Hq. unfold kspec.
  destruct (ins_trace base t fr).
  - destruct Hq as (v' & fr2 & -> & Hsc & Hc). exists sp, fr2. auto.
  - destruct Hq as (st & ->). exact I.
  - destruct Hq as (st & ->). exact I.
Qed.

Lemma rt_leaf_k (cf : lconf) (c : cid) (name : fname) (l : leaf) (s : slots) (off : Z)
      (v : value) (o' : Z) (t : trace) :
  leaf_rt l = true -> base <= off ->
  unpack_leaf host raw cf c name l s off = Ok (v, o', t) -> tr_ok base raw t ->
  vlr v = true /\ ((exists z, v = VInt z) \/ (exists x, v = VBytes x)) /\ base <= o' /\
  forall sp fr, slot_get sp name = Some v -> cur fr = off - base ->
    kspec base t fr o' (pack_leaf host dl cf c name l sp fr) (fun sp' => sp' = sp).
Proof.
  intros Hrt Hb H Htr.
  destruct (rt_leaf host raw cf c name l s off v o' t Hraw ltac:(lia) Hrt H) as (b & -> & Ho & Hv & Hp).
  pose proof (tr_ok_chunk _ _ _ _ _ Htr) as Hoff. specialize (Ho ltac:(lia)). subst o'.
  pose proof (DataProofs.blen_nonneg b) as Hlen.
  split; [destruct Hv as [[z ->]|[x ->]]; reflexivity|]. split; [exact Hv|]. split; [lia|].
  intros sp fr G Hcur. rewrite (Hp dl sp fr G). apply emit_spec. exact Hcur.
Qed.

Lemma rt_elem (cf : lconf) (c : cid) (name : fname) (i : Z) (e : elem) (s : slots) (off : Z)
      (s1 : slots) (o1 : Z) (t1 : trace) :
  elem_rt i e = true -> slots_all s -> base <= off ->
  unpack_elem host raw rec_unpack cf c name e s off = FOk s1 o1 t1 -> tr_ok base raw t1 ->
  exists v, s1 = slot_set s name v /\ vlr v = true /\ v <> VNone /\ base <= o1 /\
    forall sp fr, slot_get sp name = Some v -> agree i s sp -> cur fr = off - base ->
      kspec base t1 fr o1 (pack_elem host dl rec_pack cf c name e sp fr) (fun sp' => sp' = sp).
Proof.
  intros Hrt Hall Hb H Htr. destruct e as [l|c' proto|sel d]; cbn [unpack_elem elem_rt] in *.
  - destruct (unpack_leaf host raw cf c name l s off) as [[[v o'] t]|] eqn:E; [|discriminate].
    injection H as <- <- <-.
    destruct (rt_leaf_k cf c name l s off v o' t Hrt Hb E Htr) as (Hv & Hsh & Ho & Hk).
    exists v. split; [reflexivity|]. split; [exact Hv|].
    split; [destruct Hsh as [[z ->]|[x ->]]; discriminate|]. split; [exact Ho|].
    intros sp fr G _ Hcur. cbn [pack_elem]. exact (Hk sp fr G Hcur).
  - destruct (rec_unpack c' off) as [v o' t| |] eqn:E; try discriminate.
    injection H as <- <- <-.
    destruct (rt_nested c' off v o' t E Hb Htr) as (s' & -> & Hall' & Ho & Hk).
    exists (VPkt c' s'). split; [reflexivity|]. split; [apply vlr_pkt_iff; exact Hall'|].
    split; [discriminate|]. split; [exact Ho|].
    intros sp fr G _ Hcur. cbn [pack_elem]. rewrite G. exact (Hk sp fr Hcur).
  - apply andb_true_iff in Hrt as [Hsc Hlr].
    destruct (eval (mkctx raw s off) sel) as [w|] eqn:Ev; [|discriminate].
    destruct w as [| | | | | | |c' ps|c' kw|l]; try discriminate.
    + destruct (rec_unpack c' off) as [v o' t| |] eqn:E; try discriminate.
      injection H as <- <- <-.
      destruct (rt_nested c' off v o' t E Hb Htr) as (s' & -> & Hall' & Ho & Hk).
      exists (VPkt c' s'). split; [reflexivity|]. split; [apply vlr_pkt_iff; exact Hall'|].
      split; [discriminate|]. split; [exact Ho|].
      intros sp fr G _ Hcur. cbn [pack_elem]. rewrite G. exact (Hk sp fr Hcur).
    + destruct (rec_unpack c' off) as [v o' t| |] eqn:E; try discriminate.
      injection H as <- <- <-.
      destruct (rt_nested c' off v o' t E Hb Htr) as (s' & -> & Hall' & Ho & Hk).
      exists (VPkt c' s'). split; [reflexivity|]. split; [apply vlr_pkt_iff; exact Hall'|].
      split; [discriminate|]. split; [exact Ho|].
      intros sp fr G _ Hcur. cbn [pack_elem]. rewrite G. exact (Hk sp fr Hcur).
    + assert (Hl : leaf_rt l = true).
      { exact (eval_vlr (mkctx raw s off) Hall sel (VLeaf l) Hlr Ev). }
      destruct (unpack_leaf host raw empty_conf c name l s off) as [[[v o'] t]|] eqn:E; [|discriminate].
      injection H as <- <- <-.
      destruct (rt_leaf_k empty_conf c name l s off v o' t Hl Hb E Htr) as (Hv & Hsh & Ho & Hk).
      exists v. split; [reflexivity|]. split; [exact Hv|].
      split; [destruct Hsh as [[z ->]|[x ->]]; discriminate|]. split; [exact Ho|].
      intros sp fr G Hag Hcur. cbn [pack_elem]. rewrite G.
      pose proof (eval_mono raw s off sp i Hag sel (VLeaf l) Hsc Ev) as Ev'.
      destruct Hsh as [[z ->]|[x ->]]; rewrite Ev'; exact (Hk sp fr G Hcur).
Qed.

(* ---- the accumulated trace is a prefix of the result ---- *)
Lemma unpack_count_acc (cf : lconf) (c : cid) (i : Z) (e : elem) (al : Z) (k : nat) : forall s off t,
  unpack_count host raw rec_unpack cf c i e al k s off t =
  match unpack_count host raw rec_unpack cf c i e al k s off [] with
  | FOk s' o' tq => FOk s' o' (t ++ tq)
  | r => r
  end.
Proof.
  induction k as [|k IH]; intros s off t; cbn [unpack_count].
  - rewrite app_nil_r. reflexivity.
  - destruct (seq_align al off) as [o1|]; [|reflexivity].
    destruct (unpack_elem host raw rec_unpack cf c (FSeqElem i) e s o1) as [s1 o2 t1| | |]; try reflexivity.
    rewrite (IH _ _ (t ++ t1)), (IH _ _ ([] ++ t1)). cbn [app].
    destruct (unpack_count host raw rec_unpack cf c i e al k _ o2 []); try reflexivity.
    rewrite app_assoc. reflexivity.
Qed.

Lemma unpack_until_acc (cf : lconf) (c : cid) (i : Z) (e : elem) (al : Z) (u : expr) (fuel : nat) :
  forall s off t,
  unpack_until host raw rec_unpack fuel cf c i e al u s off t =
  match unpack_until host raw rec_unpack fuel cf c i e al u s off [] with
  | FOk s' o' tq => FOk s' o' (t ++ tq)
  | r => r
  end.
Proof.
  induction fuel as [|fuel IH]; intros s off t; cbn [unpack_until].
  - destruct (eval (mkctx raw s off) u) as [v|]; [|reflexivity].
    destruct (truth v); [|reflexivity]. rewrite app_nil_r. reflexivity.
  - destruct (eval (mkctx raw s off) u) as [v|]; [|reflexivity].
    destruct (truth v); [rewrite app_nil_r; reflexivity|].
    destruct (seq_align al off) as [o1|]; [|reflexivity].
    destruct (unpack_elem host raw rec_unpack cf c (FSeqElem i) e s o1) as [s1 o2 t1| | |]; try reflexivity.
    rewrite (IH _ _ (t ++ t1)), (IH _ _ ([] ++ t1)). cbn [app].
    destruct (unpack_until host raw rec_unpack fuel cf c i e al u _ o2 []); try reflexivity.
    rewrite app_assoc. reflexivity.
Qed.

Lemma unpack_fields_acc (cf : lconf) (c : cid) (fs : list cfield) : forall s off ipp t,
  unpack_fields host raw rec_unpack loop_fuel cf c fs s off ipp t =
  match unpack_fields host raw rec_unpack loop_fuel cf c fs s off ipp [] with
  | POk v e tq => POk v e (t ++ tq)
  | r => r
  end.
Proof.
  induction fs as [|f r IH]; intros s off ipp t; cbn [unpack_fields].
  - rewrite app_nil_r. reflexivity.
  - destruct (unpack_field host raw rec_unpack loop_fuel cf c f s off ipp) as [s1 o1 t1| | |]; try reflexivity.
    rewrite (IH _ _ _ (t ++ t1)), (IH _ _ _ ([] ++ t1)). cbn [app].
    destruct (unpack_fields host raw rec_unpack loop_fuel cf c r s1 o1 ipp []); try reflexivity.
    rewrite app_assoc. reflexivity.
Qed.

(* ---- sequences ---- *)
Definition keeps_fn (sp : slots) : slots -> Prop := fun sp' => forall j, slot_get sp' (FN j) = slot_get sp (FN j).

Lemma rt_seq_step (cf : lconf) (c : cid) (i : Z) (e : elem) (al : Z) (s : slots) (off : Z) (l : list value)
      (o1 : Z) (s1 : slots) (o2 : Z) (t1 : trace) :
  elem_rt i e = true -> 0 < al -> base mod al = 0 -> slots_all s -> base <= off ->
  slot_get s (FN i) = Some (VList l) -> seq_align al off = Some o1 ->
  unpack_elem host raw rec_unpack cf c (FSeqElem i) e s o1 = FOk s1 o2 t1 -> tr_ok base raw t1 ->
  exists v s2, append_to s1 (FN i) (elem_value s1 (FSeqElem i)) = s2 /\
    slot_get s2 (FN i) = Some (VList (l ++ [v])) /\
    (forall j, j <> i -> slot_get s2 (FN j) = slot_get s (FN j)) /\ slots_all s2 /\ base <= o2 /\
    forall rest sp fr t2 o3 (Q : slots -> Prop), agree i s sp -> cur fr = off - base ->
      (forall sp1 fr2, keeps_fn sp sp1 -> cur fr2 = o2 - base ->
         kspec base t2 fr2 o3 (pack_seq host dl rec_pack cf c i e al rest sp1 fr2) Q) ->
      kspec base (t1 ++ t2) fr o3 (pack_seq host dl rec_pack cf c i e al (v :: rest) sp fr) Q.
Proof.
  intros Hrt Hal Hmod Hall Hb Hl Ha He Htr.
  destruct (seq_align_min al off Hal) as (dd & Ha' & Hd & _). rewrite Ha in Ha'. injection Ha' as ->.
  destruct (rt_elem cf c (FSeqElem i) i e s (off + dd) s1 o2 t1 Hrt Hall ltac:(lia) He Htr)
    as (v & -> & Hv & _ & Ho2 & Hk).
  assert (Hne : FN i <> FSeqElem i) by discriminate.
  assert (Hl1 : slot_get (slot_set s (FSeqElem i) v) (FN i) = Some (VList l))
    by (rewrite slot_get_set_other by exact Hne; exact Hl).
  exists v, (slot_set (slot_set s (FSeqElem i) v) (FN i) (VList (l ++ [v]))).
  split.
  { unfold append_to, elem_value. rewrite slot_get_set_same, Hl1. reflexivity. }
  split; [apply slot_get_set_same|]. split.
  { intros j Hj. rewrite !slot_get_set_other by congruence. reflexivity. }
  split.
  { apply slots_all_set; [apply slots_all_set; assumption|].
    apply vlr_list_iff. apply Forall_app. split.
    - apply vlr_list_iff. exact (slots_all_get _ _ _ Hall Hl).
    - constructor; [exact Hv|constructor]. }
  split; [exact Ho2|].
  intros rest sp fr t2 o3 Q Hag Hcur Hrest. cbn [pack_seq].
  rewrite Hcur, (seq_align_shift al off base Hal Hmod), Ha. cbn [option_map].
  refine (kspec_seq base t1 t2 fr o2 o3 _ (fun a b => pack_seq host dl rec_pack cf c i e al rest a b)
            (fun sp' => sp' = slot_set sp (FSeqElem i) v) Q _ _).
  - apply (kspec_sc base t1 fr (set_cur fr (off + dd - base))); [apply same_content_set_cur|].
    apply Hk.
    + apply slot_get_set_same.
    + intros j x Hj G. rewrite slot_get_set_other by discriminate. exact (Hag j x Hj G).
    + reflexivity.
  - intros sp' fr2 -> Hc. apply Hrest; [|exact Hc].
    intros j. apply slot_get_set_other. discriminate.
Qed.

Lemma rt_count (cf : lconf) (c : cid) (i : Z) (e : elem) (al : Z) :
  elem_rt i e = true -> 0 < al -> base mod al = 0 ->
  forall k s off s' o' tq l,
  unpack_count host raw rec_unpack cf c i e al k s off [] = FOk s' o' tq ->
  slot_get s (FN i) = Some (VList l) -> slots_all s -> base <= off -> tr_ok base raw tq ->
  exists vs, slot_get s' (FN i) = Some (VList (l ++ vs)) /\
    (forall j, j <> i -> slot_get s' (FN j) = slot_get s (FN j)) /\ slots_all s' /\ base <= o' /\
    forall sp fr, agree i s sp -> cur fr = off - base ->
      kspec base tq fr o' (pack_seq host dl rec_pack cf c i e al vs sp fr) (keeps_fn sp).
Proof.
  intros Hrt Hal Hmod. induction k as [|k IH]; intros s off s' o' tq l H Hl Hall Hb Htr; cbn [unpack_count] in H.
  - injection H as <- <- <-. exists []. rewrite app_nil_r. split; [exact Hl|].
    split; [reflexivity|]. split; [exact Hall|]. split; [exact Hb|].
    intros sp fr _ Hcur. cbn [pack_seq]. apply kspec_nil; [apply same_content_refl|exact Hcur|intros j; reflexivity].
  - destruct (seq_align al off) as [o1|] eqn:Ea; [|discriminate].
    destruct (unpack_elem host raw rec_unpack cf c (FSeqElem i) e s o1) as [s1 o2 t1| | |] eqn:Ee; try discriminate.
    rewrite unpack_count_acc in H. cbn [app] in H.
    destruct (unpack_count host raw rec_unpack cf c i e al k _ o2 []) as [sa oa ta| | |] eqn:Ek; try discriminate.
    injection H as <- <- <-. apply tr_ok_app in Htr as [Htr1 Htr2].
    destruct (rt_seq_step cf c i e al s off l o1 s1 o2 t1 Hrt Hal Hmod Hall Hb Hl Ea Ee Htr1)
      as (v & s2 & Es2 & Hl2 & Hfr2 & Hall2 & Ho2 & Hstep).
    rewrite Es2 in Ek.
    destruct (IH s2 o2 sa oa ta (l ++ [v]) Ek Hl2 Hall2 Ho2 Htr2) as (vs & Hla & Hfra & Halla & Hoa & Hka).
    exists (v :: vs). split; [rewrite Hla, <- app_assoc; reflexivity|].
    split; [intros j Hj; rewrite (Hfra j Hj); exact (Hfr2 j Hj)|]. split; [exact Halla|]. split; [exact Hoa|].
    intros sp fr Hag Hcur. apply Hstep; [exact Hag|exact Hcur|].
    intros sp1 fr2 Hkeep Hc. apply (kspec_weaken base ta fr2 oa _ (keeps_fn sp1)).
    + intros sx Hx j. rewrite (Hx j). exact (Hkeep j).
    + apply Hka; [|exact Hc]. intros j x Hj G. rewrite (Hkeep j). apply (Hag j x Hj).
      rewrite <- (Hfr2 j Hj). exact G.
Qed.

Lemma rt_until (cf : lconf) (c : cid) (i : Z) (e : elem) (al : Z) (u : expr) :
  elem_rt i e = true -> 0 < al -> base mod al = 0 ->
  forall fuel s off s' o' tq l,
  unpack_until host raw rec_unpack fuel cf c i e al u s off [] = FOk s' o' tq ->
  slot_get s (FN i) = Some (VList l) -> slots_all s -> base <= off -> tr_ok base raw tq ->
  exists vs, slot_get s' (FN i) = Some (VList (l ++ vs)) /\
    (forall j, j <> i -> slot_get s' (FN j) = slot_get s (FN j)) /\ slots_all s' /\ base <= o' /\
    forall sp fr, agree i s sp -> cur fr = off - base ->
      kspec base tq fr o' (pack_seq host dl rec_pack cf c i e al vs sp fr) (keeps_fn sp).
Proof.
  intros Hrt Hal Hmod.
  assert (Hdone : forall s off l, slot_get s (FN i) = Some (VList l) -> slots_all s -> base <= off ->
    exists vs, slot_get s (FN i) = Some (VList (l ++ vs)) /\
      (forall j, j <> i -> slot_get s (FN j) = slot_get s (FN j)) /\ slots_all s /\ base <= off /\
      forall sp fr, agree i s sp -> cur fr = off - base ->
        kspec base [] fr off (pack_seq host dl rec_pack cf c i e al vs sp fr) (keeps_fn sp)).
  { intros s off l Hl Hall Hb. exists []. rewrite app_nil_r. split; [exact Hl|].
    split; [reflexivity|]. split; [exact Hall|]. split; [exact Hb|].
    intros sp fr _ Hcur. cbn [pack_seq]. apply kspec_nil; [apply same_content_refl|exact Hcur|intros j; reflexivity]. }
  induction fuel as [|fuel IH]; intros s off s' o' tq l H Hl Hall Hb Htr; cbn [unpack_until] in H.
  - destruct (eval (mkctx raw s off) u) as [w|]; [|discriminate].
    destruct (truth w); [|discriminate]. injection H as <- <- <-. exact (Hdone s off l Hl Hall Hb).
  - destruct (eval (mkctx raw s off) u) as [w|]; [|discriminate].
    destruct (truth w); [injection H as <- <- <-; exact (Hdone s off l Hl Hall Hb)|].
    destruct (seq_align al off) as [o1|] eqn:Ea; [|discriminate].
    destruct (unpack_elem host raw rec_unpack cf c (FSeqElem i) e s o1) as [s1 o2 t1| | |] eqn:Ee; try discriminate.
    rewrite unpack_until_acc in H. cbn [app] in H.
    destruct (unpack_until host raw rec_unpack fuel cf c i e al u _ o2 []) as [sa oa ta| | |] eqn:Ek; try discriminate.
    injection H as <- <- <-. apply tr_ok_app in Htr as [Htr1 Htr2].
    destruct (rt_seq_step cf c i e al s off l o1 s1 o2 t1 Hrt Hal Hmod Hall Hb Hl Ea Ee Htr1)
      as (v & s2 & Es2 & Hl2 & Hfr2 & Hall2 & Ho2 & Hstep).
    rewrite Es2 in Ek.
    destruct (IH s2 o2 sa oa ta (l ++ [v]) Ek Hl2 Hall2 Ho2 Htr2) as (vs & Hla & Hfra & Halla & Hoa & Hka).
    exists (v :: vs). split; [rewrite Hla, <- app_assoc; reflexivity|].
    split; [intros j Hj; rewrite (Hfra j Hj); exact (Hfr2 j Hj)|]. split; [exact Halla|]. split; [exact Hoa|].
    intros sp fr Hag Hcur. apply Hstep; [exact Hag|exact Hcur|].
    intros sp1 fr2 Hkeep Hc. apply (kspec_weaken base ta fr2 oa _ (keeps_fn sp1)).
    + intros sx Hx j. rewrite (Hx j). exact (Hkeep j).
    + apply Hka; [|exact Hc]. intros j x Hj G. rewrite (Hkeep j). apply (Hag j x Hj).
      rewrite <- (Hfr2 j Hj). exact G.
Qed.

Lemma pack_seq_app (cf : lconf) (c : cid) (i : Z) (e : elem) (al : Z) (v1 v2 : list value) : forall sp fr,
  pack_seq host dl rec_pack cf c i e al (v1 ++ v2) sp fr =
  match pack_seq host dl rec_pack cf c i e al v1 sp fr with
  | KOk s2 fr2 => pack_seq host dl rec_pack cf c i e al v2 s2 fr2
  | x => x
  end.
Proof.
  induction v1 as [|v r IH]; intros sp fr; cbn [app pack_seq]; [reflexivity|].
  destruct (seq_align al (cur fr)) as [p|]; [|reflexivity].
  destruct (pack_elem host dl rec_pack cf c (FSeqElem i) e (slot_set sp (FSeqElem i) v) (set_cur fr p));
    try reflexivity. apply IH.
Qed.
End RT.
