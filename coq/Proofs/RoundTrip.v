(* Proofs/RoundTrip.v -- C01: serializing a parsed packet replays, chunk by chunk, the bytes the parse
   consumed, at their positions relative to the start offset.  Stdlib only, no axioms.

   Three hypotheses were added to the statements of notes/stmts/S2_roundtrip.v, each forced by a
   counterexample (section "refutations" at the end of the file):
   - wf_bytes raw        (an Int field decodes the ill-formed byte 300 but cannot encode it back),
   - ct_distinct ct      (two fields with the same index share one attribute: the first value is lost),
   - trace_in raw t      (a read-to-end field past the end of the data moves the parse cursor backwards). *)
From Coq Require Import ZArith List Bool Lia.
From Bisturi Require Import Base.Bytes Kernel.IntCodec Kernel.Align Kernel.BitsK Kernel.DataK Kernel.Frag
  Model.Value Model.Decl Model.Unpack Model.Pack Model.Init Model.Codegen Model.Wf Model.Wf3
  Proofs.FragProofs Proofs.IntCodecProofs Proofs.DataProofs Proofs.AlignProofs.
Import ListNotations. Open Scope Z_scope.

(* ------------------------------------------------------------------------------------------ *)
(** * Statement vocabulary                                                                     *)
(* ------------------------------------------------------------------------------------------ *)

Definition same_content (a b : frs) : Prop := frags a = frags b /\ begins a = begins b.
(* insert every consumed chunk, in order, at its position relative to `base` *)
Fixpoint ins_trace (base : Z) (t : trace) (fr : frs) : Frag.res :=
  match t with
  | [] => Frag.Ok fr
  | TChunk p b :: r => match insert fr (p - base) b with Frag.Ok fr' => ins_trace base r fr' | x => x end
  | _ :: r => ins_trace base r fr
  end.
(* the parse never went before `base` *)
Definition trace_from (base : Z) (t : trace) : Prop :=
  Forall (fun x => match x with TChunk p _ => base <= p | TMove p => base <= p | TDelim _ _ _ => True end) t.
(* every chunk starts inside the data (added hypothesis) *)
Definition trace_in (raw : bytes) (t : trace) : Prop :=
  Forall (fun x => match x with TChunk p _ => p <= blen raw | _ => True end) t.

(* the indices of the attributes a compiled field list defines (Move pseudo-fields define none) *)
Definition fidx (f : cfield) : list Z :=
  match f with
  | CMove _ _ _ _ => []
  | CElem i _ | CBits i _ _ _ _ _ _ _ | CSeq i _ _ _ _ _ _ | COpt i _ _ _ | CEm i => [i]
  end.
Definition fidxs (fs : list cfield) : list Z := flat_map fidx fs.
Fixpoint nodupb (l : list Z) : bool :=
  match l with
  | [] => true
  | a :: r => negb (existsb (Z.eqb a) r) && nodupb r
  end.
(* in every class the declared fields have pairwise distinct indices (added hypothesis) *)
Definition ct_distinct (ct : ctab) : bool := forallb (fun ck => nodupb (fidxs (cc_fields (snd ck)))) ct.

Definition chunk_ops (base : Z) (t : trace) : list op :=
  flat_map (fun x => match x with TChunk p b => [OInsert (p - base) b] | _ => [] end) t.

(* ------------------------------------------------------------------------------------------ *)
(** * Names and slots                                                                          *)
(* ------------------------------------------------------------------------------------------ *)

Lemma fname_eqb_spec (a b : fname) : reflect (a = b) (fname_eqb a b).
Proof.
  destruct a, b; cbn [fname_eqb]; try (constructor; discriminate);
    try (destruct (Z.eqb_spec i i0); constructor; congruence).
  destruct (Z.eqb_spec i i0), (Z.eqb_spec j j0); cbn [andb]; constructor; congruence.
Qed.

Lemma slot_get_set (s : slots) (f : fname) (v : value) (g : fname) :
  slot_get (slot_set s f v) g = if fname_eqb g f then Some v else slot_get s g.
Proof.
  induction s as [|[h w] r IH]; cbn [slot_set slot_get].
  - reflexivity.
  - destruct (fname_eqb_spec f h) as [->|Hfh]; cbn [slot_get].
    + destruct (fname_eqb_spec g h); reflexivity.
    + rewrite IH. destruct (fname_eqb_spec g h) as [->|Hgh]; [|reflexivity].
      destruct (fname_eqb_spec h f); [congruence|reflexivity].
Qed.
Lemma slot_get_set_same (s : slots) (f : fname) (v : value) : slot_get (slot_set s f v) f = Some v.
Proof. rewrite slot_get_set. destruct (fname_eqb_spec f f); congruence. Qed.
Lemma slot_get_set_other (s : slots) (f : fname) (v : value) (g : fname) :
  g <> f -> slot_get (slot_set s f v) g = slot_get s g.
Proof. intros H. rewrite slot_get_set. destruct (fname_eqb_spec g f); congruence. Qed.

(* ------------------------------------------------------------------------------------------ *)
(** * Values that only contain round-trippable Field literals                                  *)
(* ------------------------------------------------------------------------------------------ *)

Notation vlr := value_leaves_rt.
Definition slots_all (s : slots) : Prop := Forall (fun p => vlr (snd p) = true) s.

Lemma vlr_list_iff (l : list value) : vlr (VList l) = true <-> Forall (fun a => vlr a = true) l.
Proof.
  induction l as [|a r IH].
  - split; [constructor|reflexivity].
  - change (vlr (VList (a :: r))) with (vlr a && vlr (VList r)). rewrite andb_true_iff, IH. split.
    + intros [A B]. constructor; assumption.
    + intros H. inversion H. split; assumption.
Qed.
Lemma vlr_tuple_iff (l : list value) : vlr (VTuple l) = true <-> Forall (fun a => vlr a = true) l.
Proof.
  induction l as [|a r IH].
  - split; [constructor|reflexivity].
  - change (vlr (VTuple (a :: r))) with (vlr a && vlr (VTuple r)). rewrite andb_true_iff, IH. split.
    + intros [A B]. constructor; assumption.
    + intros H. inversion H. split; assumption.
Qed.
Lemma vlr_dict_iff (k l : list value) : vlr (VDict k l) = true <-> Forall (fun a => vlr a = true) l.
Proof.
  induction l as [|a r IH].
  - split; [constructor|reflexivity].
  - change (vlr (VDict k (a :: r))) with (vlr a && vlr (VDict k r)). rewrite andb_true_iff, IH. split.
    + intros [A B]. constructor; assumption.
    + intros H. inversion H. split; assumption.
Qed.
Lemma vlr_pkt_iff (c : cid) (s : slots) : vlr (VPkt c s) = true <-> slots_all s.
Proof.
  unfold slots_all. induction s as [|[f a] r IH].
  - split; [constructor|reflexivity].
  - change (vlr (VPkt c ((f, a) :: r))) with (vlr a && vlr (VPkt c r)). rewrite andb_true_iff, IH. split.
    + intros [A B]. constructor; assumption.
    + intros H. inversion H. split; assumption.
Qed.

Lemma slots_all_get (s : slots) (f : fname) (v : value) : slots_all s -> slot_get s f = Some v -> vlr v = true.
Proof.
  unfold slots_all. induction s as [|[g w] r IH]; cbn [slot_get]; intros H E; [discriminate|].
  inversion H as [|? ? Hw Hr]; subst. destruct (fname_eqb f g).
  - injection E as <-. exact Hw.
  - exact (IH Hr E).
Qed.
Lemma slots_all_set (s : slots) (f : fname) (v : value) : slots_all s -> vlr v = true -> slots_all (slot_set s f v).
Proof.
  unfold slots_all. induction s as [|[g w] r IH]; cbn [slot_set]; intros H Hv.
  - constructor; [exact Hv|constructor].
  - inversion H as [|? ? Hw Hr]; subst. destruct (fname_eqb f g); constructor; auto.
Qed.

(* ------------------------------------------------------------------------------------------ *)
(** * The fragment buffer: an insert only looks at the content, not at the cursor              *)
(* ------------------------------------------------------------------------------------------ *)

Lemma same_content_refl (a : frs) : same_content a a.
Proof. split; reflexivity. Qed.
Lemma same_content_sym (a b : frs) : same_content a b -> same_content b a.
Proof. intros [A B]. split; congruence. Qed.
Lemma same_content_trans (a b c : frs) : same_content a b -> same_content b c -> same_content a c.
Proof. intros [A B] [C D]. split; congruence. Qed.
Lemma same_content_set_cur (fr : frs) (p : Z) : same_content (set_cur fr p) fr.
Proof. split; reflexivity. Qed.

Lemma insert_cur (fr : frs) (p : Z) (b : bytes) (fr' : frs) :
  insert fr p b = Frag.Ok fr' -> cur fr' = p + blen b.
Proof.
  destruct b as [|x b].
  - rewrite insert_empty_eq. intros H. injection H as <-. cbn [cur]. rewrite FragProofs.blen_nil. lia.
  - rewrite insert_nonempty_eq by discriminate.
    destruct (chk_all (begins fr) (frags fr) p (blen (x :: b))) as [[|]|]; try discriminate.
    intros H. injection H as <-. reflexivity.
Qed.

Definition rsim (r1 r2 : Frag.res) : Prop :=
  match r1, r2 with
  | Frag.Ok a, Frag.Ok b => same_content a b
  | Collision, Collision => True
  | Crash, Crash => True
  | _, _ => False
  end.

Lemma insert_rsim (a b : frs) (p : Z) (x : bytes) : same_content a b -> rsim (insert a p x) (insert b p x).
Proof.
  destruct a as [fa ba ca], b as [fb bb cb]. intros [A B]. cbn [frags begins] in A, B. subst fb bb.
  assert (E : insert {| frags := fa; begins := ba; cur := ca |} p x
            = match insert {| frags := fa; begins := ba; cur := cb |} p x with
              | Frag.Ok r => Frag.Ok {| frags := frags r; begins := begins r; cur := cur r |}
              | e => e
              end).
  { destruct x as [|y x].
    - rewrite !insert_empty_eq. reflexivity.
    - rewrite !insert_nonempty_eq by discriminate. cbn [frags begins].
      destruct (chk_all ba fa p (blen (y :: x))) as [[|]|]; reflexivity. }
  rewrite E. destruct (insert {| frags := fa; begins := ba; cur := cb |} p x); cbn [rsim]; auto.
  split; reflexivity.
Qed.

Lemma ins_trace_rsim (base : Z) (t : trace) : forall a b, same_content a b ->
  rsim (ins_trace base t a) (ins_trace base t b).
Proof.
  induction t as [|x t IH]; intros a b H; cbn [ins_trace].
  - exact H.
  - destruct x as [p y| |]; try (apply IH; exact H).
    pose proof (insert_rsim a b (p - base) y H) as S.
    destruct (insert a (p - base) y), (insert b (p - base) y); cbn [rsim] in S; try contradiction.
    + apply IH; exact S.
    + exact I.
    + exact I.
Qed.

Lemma ins_trace_app (base : Z) (t1 t2 : trace) : forall fr,
  ins_trace base (t1 ++ t2) fr =
  match ins_trace base t1 fr with Frag.Ok fr' => ins_trace base t2 fr' | x => x end.
Proof.
  induction t1 as [|x t1 IH]; intros fr; cbn [ins_trace app].
  - reflexivity.
  - destruct x as [p y| |]; try apply IH.
    destruct (insert fr (p - base) y); try reflexivity. apply IH.
Qed.

(* trace hypotheses *)
Definition tr_ok (base : Z) (raw : bytes) (t : trace) : Prop := trace_from base t /\ trace_in raw t.
Lemma tr_ok_app (base : Z) (raw : bytes) (a b : trace) :
  tr_ok base raw (a ++ b) <-> tr_ok base raw a /\ tr_ok base raw b.
Proof.
  unfold tr_ok, trace_from, trace_in. rewrite !Forall_app. tauto.
Qed.
Lemma tr_ok_nil (base : Z) (raw : bytes) : tr_ok base raw [].
Proof. split; constructor. Qed.
Lemma tr_ok_chunk (base : Z) (raw : bytes) (p : Z) (b : bytes) (r : trace) :
  tr_ok base raw (TChunk p b :: r) -> base <= p <= blen raw.
Proof. intros [A B]. inversion A; inversion B; subst. lia. Qed.
Lemma tr_ok_move (base : Z) (raw : bytes) (p : Z) (r : trace) :
  tr_ok base raw (TMove p :: r) -> base <= p.
Proof. intros [A B]. inversion A; subst. assumption. Qed.

(* ------------------------------------------------------------------------------------------ *)
(** * What "pack replays the trace" means for a field (kres) and for a packet (qres)           *)
(* ------------------------------------------------------------------------------------------ *)

Definition kfails (r : kres) : Prop := match r with KExn _ _ | KFail _ => True | _ => False end.
Definition kspec (base : Z) (t : trace) (fr : frs) (o1 : Z) (r : kres) (P : slots -> Prop) : Prop :=
  match ins_trace base t fr with
  | Frag.Ok fr1 => exists sp' fr2, r = KOk sp' fr2 /\ same_content fr2 fr1 /\ cur fr2 = o1 - base /\ P sp'
  | _ => kfails r
  end.
Definition qspec (base : Z) (t : trace) (fr : frs) (e : Z) (r : qres) : Prop :=
  match ins_trace base t fr with
  | Frag.Ok fr1 => exists v' fr2, r = QOk v' fr2 /\ same_content fr2 fr1 /\ cur fr2 = e - base
  | _ => exists st, r = QFail st
  end.

Lemma kspec_sc (base : Z) (t : trace) (fr fra : frs) (o1 : Z) (r : kres) (P : slots -> Prop) :
  same_content fra fr -> kspec base t fra o1 r P -> kspec base t fr o1 r P.
Proof.
  intros Hsc H. unfold kspec in *. pose proof (ins_trace_rsim base t fra fr Hsc) as S.
  destruct (ins_trace base t fra), (ins_trace base t fr); cbn [rsim] in S; try contradiction; try exact H.
  destruct H as (sp' & fr2 & E & Hc & Hcur & HP). exists sp', fr2.
  split; [exact E|]. split; [eapply same_content_trans; eassumption|]. split; assumption.
Qed.

Lemma kspec_weaken (base : Z) (t : trace) (fr : frs) (o1 : Z) (r : kres) (P Q : slots -> Prop) :
  (forall s, P s -> Q s) -> kspec base t fr o1 r P -> kspec base t fr o1 r Q.
Proof.
  intros HPQ H. unfold kspec in *. destruct (ins_trace base t fr); try exact H.
  destruct H as (sp' & fr2 & E & Hc & Hcur & HP). exists sp', fr2. auto.
Qed.

Lemma kspec_seq (base : Z) (t1 t2 : trace) (fr : frs) (o1 o2 : Z) (r1 : kres) (k : slots -> frs -> kres)
      (P Q : slots -> Prop) :
  kspec base t1 fr o1 r1 P ->
  (forall sp' fr2, P sp' -> cur fr2 = o1 - base -> kspec base t2 fr2 o2 (k sp' fr2) Q) ->
  kspec base (t1 ++ t2) fr o2
    (match r1 with KOk a b => k a b | KExn x c => KExn x c | KFail st => KFail st | KFuel => KFuel end) Q.
Proof.
  intros H1 H2. unfold kspec in *. rewrite ins_trace_app.
  destruct (ins_trace base t1 fr) as [fr1| |].
  - destruct H1 as (sp' & fr2 & -> & Hsc & Hcur & HP). specialize (H2 sp' fr2 HP Hcur).
    pose proof (ins_trace_rsim base t2 fr2 fr1 Hsc) as S.
    destruct (ins_trace base t2 fr2), (ins_trace base t2 fr1); cbn [rsim] in S; try contradiction; try exact H2.
    destruct H2 as (sp'' & fr3 & E & Hc3 & Hcur3 & HQ). exists sp'', fr3.
    split; [exact E|]. split; [eapply same_content_trans; eassumption|]. split; assumption.
  - destruct r1; cbn [kfails] in *; try contradiction; exact I.
  - destruct r1; cbn [kfails] in *; try contradiction; exact I.
Qed.

Lemma kq_seq (base : Z) (t1 t2 : trace) (fr : frs) (o1 e : Z) (r1 : kres) (k : slots -> frs -> qres)
      (g1 : Z -> stack) (g2 : stack -> stack) (P : slots -> Prop) :
  kspec base t1 fr o1 r1 P ->
  (forall sp' fr2, P sp' -> cur fr2 = o1 - base -> qspec base t2 fr2 e (k sp' fr2)) ->
  qspec base (t1 ++ t2) fr e
    (match r1 with KOk a b => k a b | KExn _ c => QFail (g1 c) | KFail st => QFail (g2 st) | KFuel => QFuel end).
Proof.
  intros H1 H2. unfold kspec, qspec in *. rewrite ins_trace_app.
  destruct (ins_trace base t1 fr) as [fr1| |].
  - destruct H1 as (sp' & fr2 & -> & Hsc & Hcur & HP). specialize (H2 sp' fr2 HP Hcur).
    pose proof (ins_trace_rsim base t2 fr2 fr1 Hsc) as S.
    destruct (ins_trace base t2 fr2), (ins_trace base t2 fr1); cbn [rsim] in S; try contradiction; try exact H2.
    destruct H2 as (v' & fr3 & E & Hc3 & Hcur3). exists v', fr3.
    split; [exact E|]. split; [eapply same_content_trans; eassumption|exact Hcur3].
  - destruct r1; cbn [kfails] in *; try contradiction; eexists; reflexivity.
  - destruct r1; cbn [kfails] in *; try contradiction; eexists; reflexivity.
Qed.

Lemma kspec_nil (base : Z) (fr : frs) (o : Z) (sp : slots) (fr' : frs) (P : slots -> Prop) :
  same_content fr' fr -> cur fr' = o - base -> P sp -> kspec base [] fr o (KOk sp fr') P.
Proof. intros A B C. unfold kspec. cbn [ins_trace]. exists sp, fr'. auto. Qed.

Lemma emit_spec (base off : Z) (b : bytes) (fr : frs) (sp : slots) :
  cur fr = off - base ->
  kspec base [TChunk off b] fr (off + blen b) (emit sp fr b) (fun sp' => sp' = sp).
Proof.
  intros Hcur. unfold kspec, emit, append. cbn [ins_trace]. rewrite Hcur.
  destruct (insert fr (off - base) b) as [fr'| |] eqn:E; cbn [kfails]; try exact I.
  exists sp, fr'. split; [reflexivity|]. split; [apply same_content_refl|].
  split; [|reflexivity]. rewrite (insert_cur _ _ _ _ E). lia.
Qed.

(* ------------------------------------------------------------------------------------------ *)
(** * Expressions: evaluated again when packing, on the finished packet                        *)
(* ------------------------------------------------------------------------------------------ *)

(* sp agrees with s on every declared attribute other than i that s already has *)
Definition agree (i : Z) (s sp : slots) : Prop :=
  forall j x, j <> i -> slot_get s (FN j) = Some x -> slot_get sp (FN j) = Some x.

Lemma eval_mono (raw : bytes) (s : slots) (off : Z) (sp : slots) (i : Z) : agree i s sp ->
  forall e v, expr_scoped i e = true -> eval (mkctx raw s off) e = Ok v -> eval (pctx sp) e = Ok v.
Proof.
  intros Hag. fix IH 1. intros e. destruct e as [w|f|o a|o l r|sel opts|sel keys opts|c a b|a f| |]; intros v Hs He.
  - exact He.
  - cbn [expr_scoped] in Hs. destruct f as [j| | | | |]; try discriminate.
    cbn [eval mkctx pctx e_slots] in *.
    destruct (slot_get s (FN j)) as [x|] eqn:G; [|discriminate].
    rewrite (Hag j x); [exact He| |exact G].
    intros ->. rewrite Z.eqb_refl in Hs. discriminate.
  - cbn [expr_scoped] in Hs. cbn [eval] in *.
    destruct (eval (mkctx raw s off) a) as [x|] eqn:E1; [|discriminate].
    rewrite (IH a x Hs E1). exact He.
  - cbn [expr_scoped] in Hs. apply andb_true_iff in Hs as [Hs1 Hs2]. cbn [eval] in *.
    destruct (eval (mkctx raw s off) l) as [x|] eqn:E1; [|discriminate]. cbn [bind] in He.
    destruct (eval (mkctx raw s off) r) as [y|] eqn:E2; [|discriminate].
    rewrite (IH l x Hs1 E1). cbn [bind]. rewrite (IH r y Hs2 E2). exact He.
  - cbn [expr_scoped] in Hs. apply andb_true_iff in Hs as [Hs1 Hs2]. cbn [eval] in *.
    destruct (eval (mkctx raw s off) sel) as [x|] eqn:E1; [|discriminate]. cbn [bind] in He.
    rewrite (IH sel x Hs1 E1). cbn [bind].
    match type of He with bind ?G _ = _ => destruct G as [vs|] eqn:E2; [|discriminate] end.
    match goal with |- bind ?G _ = _ => assert (E3 : G = Ok vs) end.
    { clear He. revert vs Hs2 E2. induction opts as [|a r IHr]; intros vs Hs2 E2.
      - exact E2.
      - apply andb_true_iff in Hs2 as [Ha Hr].
        destruct (eval (mkctx raw s off) a) as [y|] eqn:Ea; [|discriminate]. cbn [bind] in E2.
        rewrite (IH a y Ha Ea). cbn [bind].
        match type of E2 with bind ?G _ = _ => destruct G as [ys|] eqn:Er; [|discriminate] end.
        rewrite (IHr ys Hr eq_refl). exact E2. }
    rewrite E3. exact He.
  - cbn [expr_scoped] in Hs. apply andb_true_iff in Hs as [Hs1 Hs2]. cbn [eval] in *.
    destruct (eval (mkctx raw s off) sel) as [x|] eqn:E1; [|discriminate]. cbn [bind] in He.
    rewrite (IH sel x Hs1 E1). cbn [bind].
    match type of He with bind ?G _ = _ => destruct G as [vs|] eqn:E2; [|discriminate] end.
    match goal with |- bind ?G _ = _ => assert (E3 : G = Ok vs) end.
    { clear He. revert vs Hs2 E2. induction opts as [|a r IHr]; intros vs Hs2 E2.
      - exact E2.
      - apply andb_true_iff in Hs2 as [Ha Hr].
        destruct (eval (mkctx raw s off) a) as [y|] eqn:Ea; [|discriminate]. cbn [bind] in E2.
        rewrite (IH a y Ha Ea). cbn [bind].
        match type of E2 with bind ?G _ = _ => destruct G as [ys|] eqn:Er; [|discriminate] end.
        rewrite (IHr ys Hr eq_refl). exact E2. }
    rewrite E3. exact He.
  - cbn [expr_scoped] in Hs. apply andb_true_iff in Hs as [Hs12 Hs3]. apply andb_true_iff in Hs12 as [Hs1 Hs2].
    cbn [eval] in *.
    destruct (eval (mkctx raw s off) c) as [x|] eqn:E1; [|discriminate]. cbn [bind] in He.
    destruct (eval (mkctx raw s off) a) as [y|] eqn:E2; [|discriminate]. cbn [bind] in He.
    destruct (eval (mkctx raw s off) b) as [z|] eqn:E3; [|discriminate].
    rewrite (IH c x Hs1 E1). cbn [bind]. rewrite (IH a y Hs2 E2). cbn [bind]. rewrite (IH b z Hs3 E3). exact He.
  - cbn [expr_scoped] in Hs. cbn [eval] in *.
    destruct (eval (mkctx raw s off) a) as [x|] eqn:E1; [|discriminate].
    rewrite (IH a x Hs E1). exact He.
  - discriminate.
  - discriminate.
Qed.

Lemma eval_int_mono (raw : bytes) (s : slots) (off : Z) (sp : slots) (i : Z) (e : expr) (z : Z) :
  agree i s sp -> expr_scoped i e = true ->
  eval_int (mkctx raw s off) e = Ok z -> eval_int (pctx sp) e = Ok z.
Proof.
  intros Hag Hs. unfold eval_int.
  destruct (eval (mkctx raw s off) e) as [v|] eqn:E; [|discriminate].
  rewrite (eval_mono raw s off sp i Hag e v Hs E). intros H. exact H.
Qed.

(* every Field literal a value computed from good slots can contain is round-trippable *)
Lemma int_bop_vlr (o : bop) (x y : Z) (v : value) : int_bop o x y = Ok v -> vlr v = true.
Proof.
  destruct o; cbn [int_bop]; try (intros H; injection H as <-; reflexivity); try discriminate.
  - destruct (y =? 0); [discriminate|]. intros H; injection H as <-; reflexivity.
  - destruct (y =? 0); [discriminate|]. intros H; injection H as <-; reflexivity.
  - destruct (y <? 0); [discriminate|]. intros H; injection H as <-; reflexivity.
  - destruct (y <? 0); [discriminate|]. intros H; injection H as <-; reflexivity.
Qed.

Lemma py_index_in {A : Type} (l : list A) (i : Z) (v : A) : py_index l i = Some v -> In v l.
Proof.
  unfold py_index. destruct (_ && _); [|discriminate]. apply nth_error_In.
Qed.
Lemma dict_lookup_in (ks vs : list value) (k v : value) : dict_lookup ks vs k = Some v -> In v vs.
Proof.
  revert vs. induction ks as [|k' kr IH]; intros vs; cbn [dict_lookup]; [discriminate|].
  destruct vs as [|w vr]; [discriminate|]. destruct (value_eqb k k').
  - intros H; injection H as <-. left; reflexivity.
  - intros H. right. exact (IH vr H).
Qed.

Lemma getitem_vlr (a b v : value) : vlr a = true -> apply_bop GetItem a b = Ok v -> vlr v = true.
Proof.
  intros Ha. cbn [apply_bop]. destruct a as [| |l| |l|l|ks vs| | |]; try discriminate.
  - destruct (as_int b); [|discriminate]. destruct (py_index l z); [|discriminate].
    intros H; injection H as <-; reflexivity.
  - destruct (as_int b); [|discriminate]. destruct (py_index l z) as [w|] eqn:E; [|discriminate].
    intros H; injection H as <-. apply vlr_list_iff in Ha. rewrite Forall_forall in Ha.
    apply Ha. exact (py_index_in _ _ _ E).
  - destruct (as_int b); [|discriminate]. destruct (py_index l z) as [w|] eqn:E; [|discriminate].
    intros H; injection H as <-. apply vlr_tuple_iff in Ha. rewrite Forall_forall in Ha.
    apply Ha. exact (py_index_in _ _ _ E).
  - destruct (dict_lookup ks vs b) as [w|] eqn:E; [|discriminate].
    intros H; injection H as <-. apply vlr_dict_iff in Ha. rewrite Forall_forall in Ha.
    apply Ha. exact (dict_lookup_in _ _ _ _ E).
Qed.

Lemma apply_bop_vlr (o : bop) (a b v : value) : vlr a = true -> apply_bop o a b = Ok v -> vlr v = true.
Proof.
  intros Ha. destruct o; try exact (getitem_vlr a b v Ha);
    try (cbn [apply_bop]; intros H; injection H as <-; reflexivity);
    cbn [apply_bop];
    (destruct a, b; cbn [as_int bool_bop];
     try discriminate; try apply int_bop_vlr; try (intros H; injection H as <-; reflexivity)).
Qed.

Lemma apply_uop_vlr (o : uop) (a v : value) : apply_uop o a = Ok v -> vlr v = true.
Proof.
  destruct o; cbn [apply_uop].
  - destruct (as_int a); [|discriminate]. intros H; injection H as <-; reflexivity.
  - destruct (as_int a); [|discriminate]. intros H; injection H as <-; reflexivity.
  - intros H; injection H as <-; reflexivity.
  - destruct a; try discriminate; intros H; injection H as <-; reflexivity.
Qed.

Lemma eval_vlr (cx : ectx) : slots_all (e_slots cx) ->
  forall e v, expr_leaves_rt e = true -> eval cx e = Ok v -> vlr v = true.
Proof.
  intros Hall. fix IH 1. intros e. destruct e as [w|f|o a|o l r|sel opts|sel keys opts|c a b|a f| |]; intros v Hs He.
  - cbn [eval] in He. injection He as <-. exact Hs.
  - cbn [eval] in He. destruct (slot_get (e_slots cx) f) as [x|] eqn:G; [|discriminate].
    injection He as <-. exact (slots_all_get _ _ _ Hall G).
  - cbn [eval] in He. destruct (eval cx a) as [x|]; [|discriminate]. exact (apply_uop_vlr _ _ _ He).
  - cbn [expr_leaves_rt] in Hs. apply andb_true_iff in Hs as [Hs1 Hs2]. cbn [eval] in He.
    destruct (eval cx l) as [x|] eqn:E1; [|discriminate]. cbn [bind] in He.
    destruct (eval cx r) as [y|] eqn:E2; [|discriminate]. cbn [bind] in He.
    exact (apply_bop_vlr _ _ _ _ (IH l x Hs1 E1) He).
  - cbn [expr_leaves_rt] in Hs. apply andb_true_iff in Hs as [Hs1 Hs2]. cbn [eval] in He.
    destruct (eval cx sel) as [x|] eqn:E1; [|discriminate]. cbn [bind] in He.
    match type of He with bind ?G _ = _ => destruct G as [vs|] eqn:E2; [|discriminate] end.
    cbn [bind] in He. refine (getitem_vlr _ _ _ _ He). apply vlr_tuple_iff.
    clear He. revert vs Hs2 E2. induction opts as [|a r IHr]; intros vs Hs2 E2.
    + injection E2 as <-. constructor.
    + apply andb_true_iff in Hs2 as [Ha Hr].
      destruct (eval cx a) as [y|] eqn:Ea; [|discriminate]. cbn [bind] in E2.
      match type of E2 with bind ?G _ = _ => destruct G as [ys|] eqn:Er; [|discriminate] end.
      cbn [bind] in E2. injection E2 as <-. constructor; [exact (IH a y Ha Ea)|exact (IHr ys Hr eq_refl)].
  - cbn [expr_leaves_rt] in Hs. apply andb_true_iff in Hs as [Hs1 Hs2]. cbn [eval] in He.
    destruct (eval cx sel) as [x|] eqn:E1; [|discriminate]. cbn [bind] in He.
    match type of He with bind ?G _ = _ => destruct G as [vs|] eqn:E2; [|discriminate] end.
    cbn [bind] in He. refine (getitem_vlr _ _ _ _ He). apply vlr_dict_iff.
    clear He. revert vs Hs2 E2. induction opts as [|a r IHr]; intros vs Hs2 E2.
    + injection E2 as <-. constructor.
    + apply andb_true_iff in Hs2 as [Ha Hr].
      destruct (eval cx a) as [y|] eqn:Ea; [|discriminate]. cbn [bind] in E2.
      match type of E2 with bind ?G _ = _ => destruct G as [ys|] eqn:Er; [|discriminate] end.
      cbn [bind] in E2. injection E2 as <-. constructor; [exact (IH a y Ha Ea)|exact (IHr ys Hr eq_refl)].
  - cbn [expr_leaves_rt] in Hs. apply andb_true_iff in Hs as [Hs12 Hs3]. apply andb_true_iff in Hs12 as [Hs1 Hs2].
    cbn [eval] in He.
    destruct (eval cx c) as [x|] eqn:E1; [|discriminate]. cbn [bind] in He.
    destruct (eval cx a) as [y|] eqn:E2; [|discriminate]. cbn [bind] in He.
    destruct (eval cx b) as [z|] eqn:E3; [|discriminate]. cbn [bind] in He. injection He as <-.
    destruct (truth x); [exact (IH a y Hs2 E2)|exact (IH b z Hs3 E3)].
  - cbn [expr_leaves_rt] in Hs. cbn [eval] in He.
    destruct (eval cx a) as [x|] eqn:E1; [|discriminate]. cbn [bind] in He.
    pose proof (IH a x Hs E1) as Hx. destruct x; try discriminate.
    destruct (slot_get slots f) as [w|] eqn:G; [|discriminate]. injection He as <-.
    apply vlr_pkt_iff in Hx. exact (slots_all_get _ _ _ Hx G).
  - cbn [eval] in He. destruct (e_offset cx); [|discriminate]. injection He as <-. reflexivity.
  - cbn [eval] in He. destruct (e_rawlen cx); [|discriminate]. injection He as <-. reflexivity.
Qed.

(* ------------------------------------------------------------------------------------------ *)
(** * Slices                                                                                   *)
(* ------------------------------------------------------------------------------------------ *)

Lemma Forall_firstn' {A : Type} (P : A -> Prop) (n : nat) : forall l, Forall P l -> Forall P (firstn n l).
Proof.
  induction n as [|n IH]; intros l H; [constructor|].
  destruct l as [|a l]; [constructor|]. inversion H; subst. cbn [firstn]. constructor; auto.
Qed.
Lemma Forall_skipn' {A : Type} (P : A -> Prop) (n : nat) : forall l, Forall P l -> Forall P (skipn n l).
Proof.
  induction n as [|n IH]; intros l H; [exact H|].
  destruct l as [|a l]; [constructor|]. inversion H; subst. cbn [skipn]. auto.
Qed.
Lemma wf_bytes_slice (raw : bytes) (a b : Z) : wf_bytes raw -> wf_bytes (slice raw a b).
Proof. intros H. unfold slice. apply Forall_firstn', Forall_skipn'. exact H. Qed.

Lemma firstn_add {A : Type} (n m : nat) : forall l : list A,
  firstn (n + m) l = firstn n l ++ firstn m (skipn n l).
Proof.
  induction n as [|n IH]; intros l; [reflexivity|].
  destruct l as [|a l]; cbn [firstn skipn Nat.add app].
  - rewrite firstn_nil. reflexivity.
  - rewrite IH. reflexivity.
Qed.
Lemma skipn_add {A : Type} (n m : nat) : forall l : list A, skipn (n + m) l = skipn m (skipn n l).
Proof.
  induction n as [|n IH]; intros l; [reflexivity|].
  destruct l as [|a l]; cbn [skipn Nat.add].
  - rewrite skipn_nil. reflexivity.
  - apply IH.
Qed.
Lemma slice_split (l : bytes) (a b c : Z) : 0 <= a <= b -> b <= c ->
  slice l a c = slice l a b ++ slice l b c.
Proof.
  intros Hab Hbc. unfold slice.
  replace (Z.to_nat (c - a)) with (Z.to_nat (b - a) + Z.to_nat (c - b))%nat by lia.
  rewrite firstn_add. f_equal. f_equal.
  replace (Z.to_nat b) with (Z.to_nat a + Z.to_nat (b - a))%nat by lia. rewrite skipn_add. reflexivity.
Qed.

(* a prefix of the search window is a full-length slice of the data *)
Lemma window_prefix_len (raw : bytes) (off : Z) (sbl : option Z) (n : Z) :
  0 <= off -> 0 <= n -> n <= blen (window raw off sbl) -> blen (slice raw off (off + n)) = n.
Proof.
  intros Ho Hn Hle. rewrite <- (window_prefix raw off sbl n Ho Hn Hle).
  rewrite blen_slice by lia. lia.
Qed.

(* ------------------------------------------------------------------------------------------ *)
(** * Leaves                                                                                   *)
(* ------------------------------------------------------------------------------------------ *)

Lemma rt_leaf (host : bool) (raw : bytes) (cf : lconf) (c : cid) (name : fname) (l : leaf) (s : slots)
      (off : Z) (v : value) (o' : Z) (t : trace) :
  wf_bytes raw -> 0 <= off -> leaf_rt l = true ->
  unpack_leaf host raw cf c name l s off = Ok (v, o', t) ->
  exists b, t = [TChunk off b] /\ (off <= blen raw -> o' = off + blen b) /\
    ((exists z, v = VInt z) \/ (exists x, v = VBytes x)) /\
    forall dl sp fr, slot_get sp name = Some v -> pack_leaf host dl cf c name l sp fr = emit sp fr b.
Proof.
  intros Hraw Hoff Hrt H. destruct l as [n sg fe d|size ic d|m incl d|r incl d|d]; cbn [unpack_leaf leaf_rt] in *.
  - apply Z.leb_le in Hrt.
    set (big := is_bigendian (resolve_endianness fe (lc_endianness cf)) host) in *.
    destruct (int_unpack n sg big raw off) as [[z o1]|] eqn:E; [|discriminate].
    injection H as <- <- <-.
    destruct (int_unpack_strict n sg big raw off z o1 Hoff Hrt E) as (-> & Hin & Hdec & Hlen).
    destruct (encode_decode n sg big (slice raw off (off + n)) Hrt Hlen (wf_bytes_slice _ _ _ Hraw))
      as (z' & Hdec' & _ & Henc).
    assert (z' = z) as -> by congruence.
    exists (slice raw off (off + n)). split; [reflexivity|]. split; [intros _; lia|].
    split; [left; eexists; reflexivity|].
    intros dl sp fr G. unfold pack_leaf. rewrite G. cbn [as_int]. fold big. rewrite Henc. reflexivity.
  - destruct (eval_int (mkctx raw s off) size) as [bc|]; [|discriminate]. cbn [bind] in H.
    destruct (data_sized raw off bc) as [[x o1]|] eqn:E; [|discriminate].
    injection H as <- <- <-.
    destruct (data_sized_ok raw off bc x o1 Hoff E) as (_ & -> & Hlen & _ & _).
    exists x. split; [reflexivity|]. split; [intros _; lia|].
    split; [right; eexists; reflexivity|].
    intros dl sp fr G. unfold pack_leaf. rewrite G. unfold data_pack. rewrite app_nil_r. reflexivity.
  - destruct (data_marker raw off (lc_sbl cf) m incl) as [[x o1]|] eqn:E; [|discriminate].
    injection H as <- <- <-.
    destruct (data_marker_ok raw off (lc_sbl cf) m incl x o1 Hoff E) as (k & Hf & -> & Hx).
    destruct (find_least _ _ _ Hf) as ((Hk0 & Hkl & Hsl) & _).
    pose proof (DataProofs.blen_nonneg m) as Hm.
    assert (Hlen : blen (slice raw off (off + (k + blen m))) = k + blen m)
      by (apply (window_prefix_len raw off (lc_sbl cf)); lia).
    replace (off + k + blen m) with (off + (k + blen m)) by lia.
    exists (slice raw off (off + (k + blen m))). split; [reflexivity|]. split; [intros _; lia|].
    split; [right; eexists; reflexivity|].
    intros dl sp fr G. unfold pack_leaf. rewrite G. unfold data_pack. f_equal.
    destruct incl.
    + rewrite app_nil_r. exact Hx.
    + rewrite Hx.
      rewrite <- (window_prefix raw off (lc_sbl cf) (k + blen m)) by lia.
      rewrite <- (window_prefix raw off (lc_sbl cf) k) by lia.
      rewrite (slice_split (window raw off (lc_sbl cf)) 0 k (k + blen m)) by lia.
      rewrite Hsl. reflexivity.
  - subst incl.
    destruct (data_regex raw off (lc_sbl cf) r true) as [[[x o1] dd]|] eqn:E; [|discriminate].
    injection H as <- <- <-.
    destruct (data_regex_ok raw off (lc_sbl cf) r true x o1 dd Hoff E) as (st & en & Hs & -> & Hx & _).
    destruct (re_search_bounds _ _ _ _ Hs) as (Hb1 & Hb2).
    assert (Hlen : blen (slice raw off (off + en)) = en)
      by (apply (window_prefix_len raw off (lc_sbl cf)); lia).
    exists (slice raw off (off + en)). split; [reflexivity|]. split; [intros _; lia|].
    split; [right; eexists; reflexivity|].
    intros dl sp fr G. unfold pack_leaf. rewrite G. unfold data_pack. rewrite app_nil_r, Hx. reflexivity.
  - unfold data_eos in H. injection H as <- <- <-.
    exists (slice raw off (off + (blen raw - off))). split; [reflexivity|]. split.
    + intros Hle. rewrite blen_slice by lia. lia.
    + split; [right; eexists; reflexivity|].
      intros dl sp fr G. unfold pack_leaf. rewrite G. unfold data_pack. rewrite app_nil_r. reflexivity.
Qed.

(* ------------------------------------------------------------------------------------------ *)
(** * The invariant relating a packet parser and a packet serializer                           *)
(* ------------------------------------------------------------------------------------------ *)

Definition rt_inv (base : Z) (raw : bytes) (U : cid -> Z -> pres) (P : cid -> slots -> frs -> qres) : Prop :=
  forall c o v e t, U c o = POk v e t -> base <= o -> tr_ok base raw t ->
    exists s, v = VPkt c s /\ slots_all s /\ base <= e /\
      forall fr, cur fr = o - base -> qspec base t fr e (P c s fr).

Definition cf_idx (f : cfield) : Z :=
  match f with
  | CMove i _ _ _ | CElem i _ | CBits i _ _ _ _ _ _ _ | CSeq i _ _ _ _ _ _ | COpt i _ _ _ | CEm i => i
  end.

Lemma nodup_app_disj {A : Type} (a b : list A) : NoDup (a ++ b) ->
  NoDup b /\ forall x, In x a -> ~ In x b.
Proof.
  induction a as [|y a IH]; cbn [app]; intros H.
  - split; [exact H|]. intros x [].
  - inversion H as [|? ? Hn Hr]; subst. destruct (IH Hr) as [Hb Hd]. split; [exact Hb|].
    intros x [->|Hx]; [|exact (Hd x Hx)]. intros Hin. apply Hn. apply in_or_app. right. exact Hin.
Qed.

Section RT.
Variables (host : bool) (raw : bytes) (rec_unpack : cid -> Z -> pres) (loop_fuel : nat)
          (dl : dstate) (rec_pack : cid -> slots -> frs -> qres) (base : Z).
Hypothesis Hraw : wf_bytes raw.
Hypothesis Hbase : 0 <= base.
Hypothesis HREC : rt_inv base raw rec_unpack rec_pack.

Lemma rt_nested (c' : cid) (off : Z) (v : value) (o' : Z) (t : trace) :
  rec_unpack c' off = POk v o' t -> base <= off -> tr_ok base raw t ->
  exists s', v = VPkt c' s' /\ slots_all s' /\ base <= o' /\
    forall sp fr, cur fr = off - base ->
      kspec base t fr o'
        (match rec_pack c' s' fr with QOk _ fr' => KOk sp fr' | QFail st => KFail st | QFuel => KFuel end)
        (fun sp' => sp' = sp).
Proof.
  intros H Hb Htr. destruct (HREC c' off v o' t H Hb Htr) as (s' & -> & Hall & Ho & Hq).
  exists s'. split; [reflexivity|]. split; [exact Hall|]. split; [exact Ho|].
  intros sp fr Hcur. specialize (Hq fr Hcur). unfold qspec in Hq. unfold kspec.
  destruct (ins_trace base t fr).
  - destruct Hq as (v' & fr2 & -> & Hsc & Hc). exists sp, fr2. auto.
  - destruct Hq as (st & ->). exact I.
  - destruct Hq as (st & ->). exact I.
Qed.

Lemma rt_leaf_k (cf : lconf) (c : cid) (name : fname) (l : leaf) (s : slots) (off : Z)
      (v : value) (o' : Z) (t : trace) :
  leaf_rt l = true -> base <= off ->
  unpack_leaf host raw cf c name l s off = Ok (v, o', t) -> tr_ok base raw t ->
  vlr v = true /\ ((exists z, v = VInt z) \/ (exists x, v = VBytes x)) /\ base <= o' /\
  forall sp fr, slot_get sp name = Some v -> cur fr = off - base ->
    kspec base t fr o' (pack_leaf host dl cf c name l sp fr) (fun sp' => sp' = sp).
Proof.
  intros Hrt Hb H Htr.
  destruct (rt_leaf host raw cf c name l s off v o' t Hraw ltac:(lia) Hrt H) as (b & -> & Ho & Hv & Hp).
  pose proof (tr_ok_chunk _ _ _ _ _ Htr) as Hoff. specialize (Ho ltac:(lia)). subst o'.
  pose proof (DataProofs.blen_nonneg b) as Hlen.
  split; [destruct Hv as [[z ->]|[x ->]]; reflexivity|]. split; [exact Hv|]. split; [lia|].
  intros sp fr G Hcur. rewrite (Hp dl sp fr G). apply emit_spec. exact Hcur.
Qed.

Lemma rt_elem (cf : lconf) (c : cid) (name : fname) (i : Z) (e : elem) (s : slots) (off : Z)
      (s1 : slots) (o1 : Z) (t1 : trace) :
  elem_rt i e = true -> slots_all s -> base <= off ->
  unpack_elem host raw rec_unpack cf c name e s off = FOk s1 o1 t1 -> tr_ok base raw t1 ->
  exists v, s1 = slot_set s name v /\ vlr v = true /\ v <> VNone /\ base <= o1 /\
    forall sp fr, slot_get sp name = Some v -> agree i s sp -> cur fr = off - base ->
      kspec base t1 fr o1 (pack_elem host dl rec_pack cf c name e sp fr) (fun sp' => sp' = sp).
Proof.
  intros Hrt Hall Hb H Htr. destruct e as [l|c' proto|sel d]; cbn [unpack_elem elem_rt] in *.
  - destruct (unpack_leaf host raw cf c name l s off) as [[[v o'] t]|] eqn:E; [|discriminate].
    injection H as <- <- <-.
    destruct (rt_leaf_k cf c name l s off v o' t Hrt Hb E Htr) as (Hv & Hsh & Ho & Hk).
    exists v. split; [reflexivity|]. split; [exact Hv|].
    split; [destruct Hsh as [[z ->]|[x ->]]; discriminate|]. split; [exact Ho|].
    intros sp fr G _ Hcur. cbn [pack_elem]. exact (Hk sp fr G Hcur).
  - destruct (rec_unpack c' off) as [v o' t| |] eqn:E; try discriminate.
    injection H as <- <- <-.
    destruct (rt_nested c' off v o' t E Hb Htr) as (s' & -> & Hall' & Ho & Hk).
    exists (VPkt c' s'). split; [reflexivity|]. split; [apply vlr_pkt_iff; exact Hall'|].
    split; [discriminate|]. split; [exact Ho|].
    intros sp fr G _ Hcur. cbn [pack_elem]. rewrite G. exact (Hk sp fr Hcur).
  - apply andb_true_iff in Hrt as [Hsc Hlr].
    destruct (eval (mkctx raw s off) sel) as [w|] eqn:Ev; [|discriminate].
    destruct w as [| | | | | | |c' ps|c' kw|l]; try discriminate.
    + destruct (rec_unpack c' off) as [v o' t| |] eqn:E; try discriminate.
      injection H as <- <- <-.
      destruct (rt_nested c' off v o' t E Hb Htr) as (s' & -> & Hall' & Ho & Hk).
      exists (VPkt c' s'). split; [reflexivity|]. split; [apply vlr_pkt_iff; exact Hall'|].
      split; [discriminate|]. split; [exact Ho|].
      intros sp fr G _ Hcur. cbn [pack_elem]. rewrite G. exact (Hk sp fr Hcur).
    + destruct (rec_unpack c' off) as [v o' t| |] eqn:E; try discriminate.
      injection H as <- <- <-.
      destruct (rt_nested c' off v o' t E Hb Htr) as (s' & -> & Hall' & Ho & Hk).
      exists (VPkt c' s'). split; [reflexivity|]. split; [apply vlr_pkt_iff; exact Hall'|].
      split; [discriminate|]. split; [exact Ho|].
      intros sp fr G _ Hcur. cbn [pack_elem]. rewrite G. exact (Hk sp fr Hcur).
    + assert (Hl : leaf_rt l = true).
      { exact (eval_vlr (mkctx raw s off) Hall sel (VLeaf l) Hlr Ev). }
      destruct (unpack_leaf host raw empty_conf c name l s off) as [[[v o'] t]|] eqn:E; [|discriminate].
      injection H as <- <- <-.
      destruct (rt_leaf_k empty_conf c name l s off v o' t Hl Hb E Htr) as (Hv & Hsh & Ho & Hk).
      exists v. split; [reflexivity|]. split; [exact Hv|].
      split; [destruct Hsh as [[z ->]|[x ->]]; discriminate|]. split; [exact Ho|].
      intros sp fr G Hag Hcur. cbn [pack_elem]. rewrite G.
      pose proof (eval_mono raw s off sp i Hag sel (VLeaf l) Hsc Ev) as Ev'.
      destruct Hsh as [[z ->]|[x ->]]; rewrite Ev'; exact (Hk sp fr G Hcur).
Qed.

(* ---- the accumulated trace is a prefix of the result ---- *)
Lemma unpack_count_acc (cf : lconf) (c : cid) (i : Z) (e : elem) (al : Z) (k : nat) : forall s off t,
  unpack_count host raw rec_unpack cf c i e al k s off t =
  match unpack_count host raw rec_unpack cf c i e al k s off [] with
  | FOk s' o' tq => FOk s' o' (t ++ tq)
  | r => r
  end.
Proof.
  induction k as [|k IH]; intros s off t; cbn [unpack_count].
  - rewrite app_nil_r. reflexivity.
  - destruct (seq_align al off) as [o1|]; [|reflexivity].
    destruct (unpack_elem host raw rec_unpack cf c (FSeqElem i) e s o1) as [s1 o2 t1| | |]; try reflexivity.
    rewrite (IH _ _ (t ++ t1)), (IH _ _ ([] ++ t1)). cbn [app].
    destruct (unpack_count host raw rec_unpack cf c i e al k _ o2 []); try reflexivity.
    rewrite app_assoc. reflexivity.
Qed.

Lemma unpack_until_acc (cf : lconf) (c : cid) (i : Z) (e : elem) (al : Z) (u : expr) (fuel : nat) :
  forall s off t,
  unpack_until host raw rec_unpack fuel cf c i e al u s off t =
  match unpack_until host raw rec_unpack fuel cf c i e al u s off [] with
  | FOk s' o' tq => FOk s' o' (t ++ tq)
  | r => r
  end.
Proof.
  induction fuel as [|fuel IH]; intros s off t; cbn [unpack_until].
  - destruct (eval (mkctx raw s off) u) as [v|]; [|reflexivity].
    destruct (truth v); [|reflexivity]. rewrite app_nil_r. reflexivity.
  - destruct (eval (mkctx raw s off) u) as [v|]; [|reflexivity].
    destruct (truth v); [rewrite app_nil_r; reflexivity|].
    destruct (seq_align al off) as [o1|]; [|reflexivity].
    destruct (unpack_elem host raw rec_unpack cf c (FSeqElem i) e s o1) as [s1 o2 t1| | |]; try reflexivity.
    rewrite (IH _ _ (t ++ t1)), (IH _ _ ([] ++ t1)). cbn [app].
    destruct (unpack_until host raw rec_unpack fuel cf c i e al u _ o2 []); try reflexivity.
    rewrite app_assoc. reflexivity.
Qed.

Lemma unpack_fields_acc (cf : lconf) (c : cid) (fs : list cfield) : forall s off ipp t,
  unpack_fields host raw rec_unpack loop_fuel cf c fs s off ipp t =
  match unpack_fields host raw rec_unpack loop_fuel cf c fs s off ipp [] with
  | POk v e tq => POk v e (t ++ tq)
  | r => r
  end.
Proof.
  induction fs as [|f r IH]; intros s off ipp t; cbn [unpack_fields].
  - rewrite app_nil_r. reflexivity.
  - destruct (unpack_field host raw rec_unpack loop_fuel cf c f s off ipp) as [s1 o1 t1| | |]; try reflexivity.
    rewrite (IH _ _ _ (t ++ t1)), (IH _ _ _ ([] ++ t1)). cbn [app].
    destruct (unpack_fields host raw rec_unpack loop_fuel cf c r s1 o1 ipp []); try reflexivity.
    rewrite app_assoc. reflexivity.
Qed.

(* ---- sequences ---- *)
Definition keeps_fn (sp : slots) : slots -> Prop := fun sp' => forall j, slot_get sp' (FN j) = slot_get sp (FN j).

Lemma rt_seq_step (cf : lconf) (c : cid) (i : Z) (e : elem) (al : Z) (s : slots) (off : Z) (l : list value)
      (o1 : Z) (s1 : slots) (o2 : Z) (t1 : trace) :
  elem_rt i e = true -> 0 < al -> base mod al = 0 -> slots_all s -> base <= off ->
  slot_get s (FN i) = Some (VList l) -> seq_align al off = Some o1 ->
  unpack_elem host raw rec_unpack cf c (FSeqElem i) e s o1 = FOk s1 o2 t1 -> tr_ok base raw t1 ->
  exists v s2, append_to s1 (FN i) (elem_value s1 (FSeqElem i)) = s2 /\
    slot_get s2 (FN i) = Some (VList (l ++ [v])) /\
    (forall j, j <> i -> slot_get s2 (FN j) = slot_get s (FN j)) /\ slots_all s2 /\ base <= o2 /\
    forall rest sp fr t2 o3 (Q : slots -> Prop), agree i s sp -> cur fr = off - base ->
      (forall sp1 fr2, keeps_fn sp sp1 -> cur fr2 = o2 - base ->
         kspec base t2 fr2 o3 (pack_seq host dl rec_pack cf c i e al rest sp1 fr2) Q) ->
      kspec base (t1 ++ t2) fr o3 (pack_seq host dl rec_pack cf c i e al (v :: rest) sp fr) Q.
Proof.
  intros Hrt Hal Hmod Hall Hb Hl Ha He Htr.
  destruct (seq_align_min al off Hal) as (dd & Ha' & Hd & _). rewrite Ha in Ha'. injection Ha' as ->.
  destruct (rt_elem cf c (FSeqElem i) i e s (off + dd) s1 o2 t1 Hrt Hall ltac:(lia) He Htr)
    as (v & -> & Hv & _ & Ho2 & Hk).
  assert (Hne : FN i <> FSeqElem i) by discriminate.
  assert (Hl1 : slot_get (slot_set s (FSeqElem i) v) (FN i) = Some (VList l))
    by (rewrite slot_get_set_other by exact Hne; exact Hl).
  exists v, (slot_set (slot_set s (FSeqElem i) v) (FN i) (VList (l ++ [v]))).
  split.
  { unfold append_to, elem_value. rewrite slot_get_set_same, Hl1. reflexivity. }
  split; [apply slot_get_set_same|]. split.
  { intros j Hj. rewrite !slot_get_set_other by congruence. reflexivity. }
  split.
  { apply slots_all_set; [apply slots_all_set; assumption|].
    apply vlr_list_iff. apply Forall_app. split.
    - apply vlr_list_iff. exact (slots_all_get _ _ _ Hall Hl).
    - constructor; [exact Hv|constructor]. }
  split; [exact Ho2|].
  intros rest sp fr t2 o3 Q Hag Hcur Hrest. cbn [pack_seq].
  rewrite Hcur, (seq_align_shift al off base Hal Hmod), Ha. cbn [option_map].
  refine (kspec_seq base t1 t2 fr o2 o3 _ (fun a b => pack_seq host dl rec_pack cf c i e al rest a b)
            (fun sp' => sp' = slot_set sp (FSeqElem i) v) Q _ _).
  - apply (kspec_sc base t1 fr (set_cur fr (off + dd - base))); [apply same_content_set_cur|].
    apply Hk.
    + apply slot_get_set_same.
    + intros j x Hj G. rewrite slot_get_set_other by discriminate. exact (Hag j x Hj G).
    + reflexivity.
  - intros sp' fr2 -> Hc. apply Hrest; [|exact Hc].
    intros j. apply slot_get_set_other. discriminate.
Qed.

Lemma rt_count (cf : lconf) (c : cid) (i : Z) (e : elem) (al : Z) :
  elem_rt i e = true -> 0 < al -> base mod al = 0 ->
  forall k s off s' o' tq l,
  unpack_count host raw rec_unpack cf c i e al k s off [] = FOk s' o' tq ->
  slot_get s (FN i) = Some (VList l) -> slots_all s -> base <= off -> tr_ok base raw tq ->
  exists vs, slot_get s' (FN i) = Some (VList (l ++ vs)) /\
    (forall j, j <> i -> slot_get s' (FN j) = slot_get s (FN j)) /\ slots_all s' /\ base <= o' /\
    forall sp fr, agree i s sp -> cur fr = off - base ->
      kspec base tq fr o' (pack_seq host dl rec_pack cf c i e al vs sp fr) (keeps_fn sp).
Proof.
  intros Hrt Hal Hmod. induction k as [|k IH]; intros s off s' o' tq l H Hl Hall Hb Htr; cbn [unpack_count] in H.
  - injection H as <- <- <-. exists []. rewrite app_nil_r. split; [exact Hl|].
    split; [reflexivity|]. split; [exact Hall|]. split; [exact Hb|].
    intros sp fr _ Hcur. cbn [pack_seq]. apply kspec_nil; [apply same_content_refl|exact Hcur|intros j; reflexivity].
  - destruct (seq_align al off) as [o1|] eqn:Ea; [|discriminate].
    destruct (unpack_elem host raw rec_unpack cf c (FSeqElem i) e s o1) as [s1 o2 t1| | |] eqn:Ee; try discriminate.
    rewrite unpack_count_acc in H. cbn [app] in H.
    destruct (unpack_count host raw rec_unpack cf c i e al k _ o2 []) as [sa oa ta| | |] eqn:Ek; try discriminate.
    injection H as <- <- <-. apply tr_ok_app in Htr as [Htr1 Htr2].
    destruct (rt_seq_step cf c i e al s off l o1 s1 o2 t1 Hrt Hal Hmod Hall Hb Hl Ea Ee Htr1)
      as (v & s2 & Es2 & Hl2 & Hfr2 & Hall2 & Ho2 & Hstep).
    rewrite Es2 in Ek.
    destruct (IH s2 o2 sa oa ta (l ++ [v]) Ek Hl2 Hall2 Ho2 Htr2) as (vs & Hla & Hfra & Halla & Hoa & Hka).
    exists (v :: vs). split; [rewrite Hla, <- app_assoc; reflexivity|].
    split; [intros j Hj; rewrite (Hfra j Hj); exact (Hfr2 j Hj)|]. split; [exact Halla|]. split; [exact Hoa|].
    intros sp fr Hag Hcur. apply Hstep; [exact Hag|exact Hcur|].
    intros sp1 fr2 Hkeep Hc. apply (kspec_weaken base ta fr2 oa _ (keeps_fn sp1)).
    + intros sx Hx j. rewrite (Hx j). exact (Hkeep j).
    + apply Hka; [|exact Hc]. intros j x Hj G. rewrite (Hkeep j). apply (Hag j x Hj).
      rewrite <- (Hfr2 j Hj). exact G.
Qed.

Lemma rt_until (cf : lconf) (c : cid) (i : Z) (e : elem) (al : Z) (u : expr) :
  elem_rt i e = true -> 0 < al -> base mod al = 0 ->
  forall fuel s off s' o' tq l,
  unpack_until host raw rec_unpack fuel cf c i e al u s off [] = FOk s' o' tq ->
  slot_get s (FN i) = Some (VList l) -> slots_all s -> base <= off -> tr_ok base raw tq ->
  exists vs, slot_get s' (FN i) = Some (VList (l ++ vs)) /\
    (forall j, j <> i -> slot_get s' (FN j) = slot_get s (FN j)) /\ slots_all s' /\ base <= o' /\
    forall sp fr, agree i s sp -> cur fr = off - base ->
      kspec base tq fr o' (pack_seq host dl rec_pack cf c i e al vs sp fr) (keeps_fn sp).
Proof.
  intros Hrt Hal Hmod.
  assert (Hdone : forall s off l, slot_get s (FN i) = Some (VList l) -> slots_all s -> base <= off ->
    exists vs, slot_get s (FN i) = Some (VList (l ++ vs)) /\
      (forall j, j <> i -> slot_get s (FN j) = slot_get s (FN j)) /\ slots_all s /\ base <= off /\
      forall sp fr, agree i s sp -> cur fr = off - base ->
        kspec base [] fr off (pack_seq host dl rec_pack cf c i e al vs sp fr) (keeps_fn sp)).
  { intros s off l Hl Hall Hb. exists []. rewrite app_nil_r. split; [exact Hl|].
    split; [reflexivity|]. split; [exact Hall|]. split; [exact Hb|].
    intros sp fr _ Hcur. cbn [pack_seq]. apply kspec_nil; [apply same_content_refl|exact Hcur|intros j; reflexivity]. }
  induction fuel as [|fuel IH]; intros s off s' o' tq l H Hl Hall Hb Htr; cbn [unpack_until] in H.
  - destruct (eval (mkctx raw s off) u) as [w|]; [|discriminate].
    destruct (truth w); [|discriminate]. injection H as <- <- <-. exact (Hdone s off l Hl Hall Hb).
  - destruct (eval (mkctx raw s off) u) as [w|]; [|discriminate].
    destruct (truth w); [injection H as <- <- <-; exact (Hdone s off l Hl Hall Hb)|].
    destruct (seq_align al off) as [o1|] eqn:Ea; [|discriminate].
    destruct (unpack_elem host raw rec_unpack cf c (FSeqElem i) e s o1) as [s1 o2 t1| | |] eqn:Ee; try discriminate.
    rewrite unpack_until_acc in H. cbn [app] in H.
    destruct (unpack_until host raw rec_unpack fuel cf c i e al u _ o2 []) as [sa oa ta| | |] eqn:Ek; try discriminate.
    injection H as <- <- <-. apply tr_ok_app in Htr as [Htr1 Htr2].
    destruct (rt_seq_step cf c i e al s off l o1 s1 o2 t1 Hrt Hal Hmod Hall Hb Hl Ea Ee Htr1)
      as (v & s2 & Es2 & Hl2 & Hfr2 & Hall2 & Ho2 & Hstep).
    rewrite Es2 in Ek.
    destruct (IH s2 o2 sa oa ta (l ++ [v]) Ek Hl2 Hall2 Ho2 Htr2) as (vs & Hla & Hfra & Halla & Hoa & Hka).
    exists (v :: vs). split; [rewrite Hla, <- app_assoc; reflexivity|].
    split; [intros j Hj; rewrite (Hfra j Hj); exact (Hfr2 j Hj)|]. split; [exact Halla|]. split; [exact Hoa|].
    intros sp fr Hag Hcur. apply Hstep; [exact Hag|exact Hcur|].
    intros sp1 fr2 Hkeep Hc. apply (kspec_weaken base ta fr2 oa _ (keeps_fn sp1)).
    + intros sx Hx j. rewrite (Hx j). exact (Hkeep j).
    + apply Hka; [|exact Hc]. intros j x Hj G. rewrite (Hkeep j). apply (Hag j x Hj).
      rewrite <- (Hfr2 j Hj). exact G.
Qed.

Lemma pack_seq_app (cf : lconf) (c : cid) (i : Z) (e : elem) (al : Z) (v1 v2 : list value) : forall sp fr,
  pack_seq host dl rec_pack cf c i e al (v1 ++ v2) sp fr =
  match pack_seq host dl rec_pack cf c i e al v1 sp fr with
  | KOk s2 fr2 => pack_seq host dl rec_pack cf c i e al v2 s2 fr2
  | x => x
  end.
Proof.
  induction v1 as [|v r IH]; intros sp fr; cbn [app pack_seq]; [reflexivity|].
  destruct (seq_align al (cur fr)) as [p|]; [|reflexivity].
  destruct (pack_elem host dl rec_pack cf c (FSeqElem i) e (slot_set sp (FSeqElem i) v) (set_cur fr p));
    try reflexivity. apply IH.
Qed.
(* ---- moves ---- *)
Definition mv_u (arg : marg) (s : slots) (off : Z) : res Z :=
  match arg with
  | MConst z => Ok z
  | MField g => match slot_get s g with
                | Some v => match as_int v with Some z => Ok z | None => Exn TypeError end
                | None => Exn AttributeError
                end
  | MFun e => eval_int (mkctx raw s off) e
  end.
Definition mv_p (arg : marg) (s : slots) : res Z :=
  match arg with
  | MConst z => Ok z
  | MField g => match slot_get s g with
                | Some v => match as_int v with Some z => Ok z | None => Exn TypeError end
                | None => Exn AttributeError
                end
  | MFun e => eval_int (pctx s) e
  end.

Lemma unpack_move_eq (cf : lconf) (c : cid) (i : Z) (arg : marg) (rf : reference) (al : bool) (s : slots) (off ipp : Z) :
  unpack_field host raw rec_unpack loop_fuel cf c (CMove i arg rf al) s off ipp =
  match mv_u arg s off with
  | Exn x => FExn x
  | Ok z => if al && (z =? 0) then FExn ZeroDivisionError
            else match move_unpack al rf z off ipp with
                 | Some o' => FOk s o' [TMove o']
                 | None => FExn GenericError
                 end
  end.
Proof. reflexivity. Qed.
Lemma pack_move_eq (cf : lconf) (c : cid) (i : Z) (arg : marg) (rf : reference) (al : bool) (s : slots) (fr : frs) (ipp : Z) :
  pack_field host dl rec_pack cf c (CMove i arg rf al) s fr ipp =
  match mv_p arg s with
  | Exn x => KExn x (cur fr)
  | Ok z => match move_pack al rf z (cur fr) ipp with
            | Some p => KOk s (set_cur fr p)
            | None => KExn GenericError (cur fr)
            end
  end.
Proof. reflexivity. Qed.

Lemma rt_move_arg (i : Z) (arg : marg) (rf : reference) (al : bool) (s : slots) (off : Z) (sp : slots) (z : Z) :
  cfield_rt base (CMove i arg rf al) = true -> agree i s sp -> mv_u arg s off = Ok z ->
  mv_p arg sp = Ok z /\ (al = true -> 0 < z) /\ (rf = RBegins -> if al then base mod z = 0 else base = 0).
Proof.
  intros Hrt Hag H. cbn [cfield_rt] in Hrt. destruct arg as [z0|g|e]; cbn [mv_u mv_p] in *.
  - injection H as ->. apply andb_true_iff in Hrt as [H1 H2]. split; [reflexivity|]. split.
    + intros ->. apply Z.ltb_lt. exact H1.
    + intros ->. destruct al; [apply Z.eqb_eq|apply Z.eqb_eq]; exact H2.
  - destruct g as [j| | | | |]; try discriminate.
    apply andb_true_iff in Hrt as [H12 H3]. apply andb_true_iff in H12 as [H1 H2].
    apply negb_true_iff in H1. subst al. apply negb_true_iff in H2. apply Z.eqb_neq in H2.
    destruct (slot_get s (FN j)) as [v|] eqn:G; [|discriminate].
    rewrite (Hag j v H2 G). split; [exact H|]. split; [discriminate|].
    intros ->. apply Z.eqb_eq. exact H3.
  - apply andb_true_iff in Hrt as [H12 H3]. apply andb_true_iff in H12 as [H1 H2].
    apply negb_true_iff in H1. subst al.
    split; [exact (eval_int_mono raw s off sp i e z Hag H2 H)|]. split; [discriminate|].
    intros ->. apply Z.eqb_eq. exact H3.
Qed.

Lemma pack_opt_eq (cf : lconf) (c : cid) (i : Z) (e : elem) (w : expr) (d : value) (sp : slots) (fr : frs)
      (ipp : Z) (v : value) :
  slot_get sp (FN i) = Some v -> v <> VNone ->
  pack_field host dl rec_pack cf c (COpt i e w d) sp fr ipp =
  pack_elem host dl rec_pack cf c (FOptElem i) e (slot_set sp (FOptElem i) v) fr.
Proof.
  intros G Hv. cbn [pack_field]. rewrite G. destruct v; try reflexivity. congruence.
Qed.

(* ---- one field ---- *)
Lemma rt_field (cf : lconf) (c : cid) (f : cfield) (s : slots) (off ipp : Z) (s1 : slots) (o1 : Z) (t1 : trace) :
  cfield_rt base f = true -> slots_all s -> base <= off ->
  unpack_field host raw rec_unpack loop_fuel cf c f s off ipp = FOk s1 o1 t1 -> tr_ok base raw t1 ->
  slots_all s1 /\ (forall j, ~ In j (fidx f) -> slot_get s1 (FN j) = slot_get s (FN j)) /\ base <= o1 /\
  forall sp fr, agree (cf_idx f) s sp ->
    (forall j, In j (fidx f) -> slot_get sp (FN j) = slot_get s1 (FN j)) -> cur fr = off - base ->
    kspec base t1 fr o1 (pack_field host dl rec_pack cf c f sp fr (ipp - base)) (keeps_fn sp).
Proof.
  intros Hrt Hall Hb H Htr.
  destruct f as [i arg rf al|i e|i fst lst run0 sh mk nb d|i e count until when d al|i e when d|i].
  - (* Move *)
    rewrite unpack_move_eq in H. destruct (mv_u arg s off) as [z|] eqn:Emv; [|discriminate].
    destruct (al && (z =? 0)); [discriminate|].
    destruct (move_unpack al rf z off ipp) as [o'|] eqn:Em; [|discriminate].
    injection H as <- <- <-. pose proof (tr_ok_move _ _ _ _ Htr) as Ho'.
    split; [exact Hall|]. split; [reflexivity|]. split; [exact Ho'|].
    intros sp fr Hag _ Hcur. cbn [cf_idx] in Hag.
    destruct (rt_move_arg i arg rf al s off sp z Hrt Hag Emv) as (Ep & Hal & Hbeg).
    rewrite pack_move_eq, Ep, Hcur.
    rewrite (move_shift_unpack_to_pack al rf z off ipp base o' Hbase Hal Hbeg Em Ho').
    unfold kspec. cbn [ins_trace]. exists sp, (set_cur fr (o' - base)).
    split; [reflexivity|]. split; [apply same_content_set_cur|]. split; [reflexivity|]. intros j; reflexivity.
  - (* Elem *)
    cbn [unpack_field cfield_rt] in *.
    destruct (rt_elem cf c (FN i) i e s off s1 o1 t1 Hrt Hall Hb H Htr) as (v & -> & Hv & _ & Ho & Hk).
    split; [apply slots_all_set; assumption|]. split.
    { intros j Hj. apply slot_get_set_other. intros E. injection E as ->. apply Hj. left; reflexivity. }
    split; [exact Ho|].
    intros sp fr Hag Hsp Hcur. cbn [pack_field cf_idx] in *.
    apply (kspec_weaken base t1 fr o1 _ (fun sp' => sp' = sp)); [intros ? -> j; reflexivity|].
    apply Hk; [|exact Hag|exact Hcur]. rewrite (Hsp i ltac:(left; reflexivity)). apply slot_get_set_same.
  - discriminate.
  - (* Seq *)
    cbn [cfield_rt] in Hrt. apply andb_true_iff in Hrt as [Hrt12 Hmod]. apply andb_true_iff in Hrt12 as [Hrt Hal].
    apply Z.ltb_lt in Hal. apply Z.eqb_eq in Hmod.
    cbn [unpack_field] in H. set (s0 := slot_set s (FN i) (VList [])) in *.
    assert (Hall0 : slots_all s0) by (apply slots_all_set; [exact Hall|reflexivity]).
    assert (Hl0 : slot_get s0 (FN i) = Some (VList [])) by apply slot_get_set_same.
    assert (Hfr0 : forall j, j <> i -> slot_get s0 (FN j) = slot_get s (FN j))
      by (intros j Hj; apply slot_get_set_other; congruence).
    match type of H with match ?X with _ => _ end = _ => destruct X as [n|]; [|discriminate] end.
    match type of H with match ?X with _ => _ end = _ => destruct X as [[|]|]; try discriminate end.
    + injection H as <- <- <-. split; [exact Hall0|]. split.
      { intros j Hj. apply Hfr0. intros ->. apply Hj. left; reflexivity. }
      split; [exact Hb|].
      intros sp fr Hag Hsp Hcur. cbn [pack_field]. rewrite (Hsp i ltac:(left; reflexivity)), Hl0.
      cbn [pack_seq]. apply kspec_nil; [apply same_content_refl|exact Hcur|intros j; reflexivity].
    + destruct (unpack_count host raw rec_unpack cf c i e al (Z.to_nat n) s0 off []) as [sa oa ta| | |] eqn:Ec;
        try discriminate.
      assert (Hag0 : forall sp, agree i s sp -> agree i s0 sp).
      { intros sp Hag j x Hj G. apply (Hag j x Hj). rewrite <- (Hfr0 j Hj). exact G. }
      destruct until as [u|].
      * rewrite unpack_until_acc in H.
        destruct (unpack_until host raw rec_unpack loop_fuel cf c i e al u sa oa []) as [sb ob tb| | |] eqn:Eu;
          try discriminate.
        injection H as <- <- <-. apply tr_ok_app in Htr as [Htra Htrb].
        destruct (rt_count cf c i e al Hrt Hal Hmod _ _ _ _ _ _ _ Ec Hl0 Hall0 Hb Htra)
          as (vs1 & Hla & Hfra & Halla & Hoa & Hka).
        destruct (rt_until cf c i e al u Hrt Hal Hmod _ _ _ _ _ _ _ Eu Hla Halla Hoa Htrb)
          as (vs2 & Hlb & Hfrb & Hallb & Hob & Hkb).
        split; [exact Hallb|]. split.
        { intros j Hj. assert (j <> i) by (intros ->; apply Hj; left; reflexivity).
          rewrite Hfrb, Hfra, Hfr0 by assumption. reflexivity. }
        split; [exact Hob|].
        intros sp fr Hag Hsp Hcur. cbn [pack_field cf_idx] in *.
        rewrite (Hsp i ltac:(left; reflexivity)), Hlb. rewrite pack_seq_app.
        refine (kspec_seq base ta tb fr oa ob _ (fun a b => pack_seq host dl rec_pack cf c i e al vs2 a b)
                  (keeps_fn sp) (keeps_fn sp) _ _).
        -- apply Hka; [apply Hag0; exact Hag|exact Hcur].
        -- intros sp' fr2 Hkeep Hc. apply (kspec_weaken base tb fr2 ob _ (keeps_fn sp')).
           ++ intros sx Hx j. rewrite (Hx j). exact (Hkeep j).
           ++ apply Hkb; [|exact Hc]. intros j x Hj G. rewrite (Hkeep j). apply (Hag j x Hj).
              rewrite <- (Hfr0 j Hj), <- (Hfra j Hj). exact G.
      * injection H as <- <- <-.
        destruct (rt_count cf c i e al Hrt Hal Hmod _ _ _ _ _ _ _ Ec Hl0 Hall0 Hb Htr)
          as (vs1 & Hla & Hfra & Halla & Hoa & Hka).
        split; [exact Halla|]. split.
        { intros j Hj. assert (j <> i) by (intros ->; apply Hj; left; reflexivity).
          rewrite Hfra, Hfr0 by assumption. reflexivity. }
        split; [exact Hoa|].
        intros sp fr Hag Hsp Hcur. cbn [pack_field cf_idx] in *.
        rewrite (Hsp i ltac:(left; reflexivity)), Hla.
        apply Hka; [apply Hag0; exact Hag|exact Hcur].
  - (* Opt *)
    cbn [unpack_field cfield_rt] in *.
    destruct (eval (mkctx raw s off) when) as [w|]; [|discriminate].
    destruct (truth w).
    + destruct (unpack_elem host raw rec_unpack cf c (FOptElem i) e s off) as [sa oa ta| | |] eqn:Ee; try discriminate.
      injection H as <- <- <-.
      destruct (rt_elem cf c (FOptElem i) i e s off sa oa ta Hrt Hall Hb Ee Htr) as (v & -> & Hv & Hnn & Ho & Hk).
      assert (Hev : elem_value (slot_set s (FOptElem i) v) (FOptElem i) = v)
        by (unfold elem_value; rewrite slot_get_set_same; reflexivity).
      rewrite Hev.
      split; [apply slots_all_set; [apply slots_all_set|]; assumption|]. split.
      { intros j Hj. rewrite !slot_get_set_other; [reflexivity|discriminate|].
        intros E. injection E as ->. apply Hj. left; reflexivity. }
      split; [exact Ho|].
      intros sp fr Hag Hsp Hcur. cbn [cf_idx] in *.
      assert (G : slot_get sp (FN i) = Some v)
        by (rewrite (Hsp i ltac:(left; reflexivity)); apply slot_get_set_same).
      rewrite (pack_opt_eq cf c i e when d sp fr (ipp - base) v G Hnn).
      apply (kspec_weaken base ta fr oa _ (fun sp' => sp' = slot_set sp (FOptElem i) v)).
      { intros ? -> j. apply slot_get_set_other. discriminate. }
      apply Hk; [apply slot_get_set_same| |exact Hcur].
      intros j x Hj Gx. rewrite slot_get_set_other by discriminate. exact (Hag j x Hj Gx).
    + injection H as <- <- <-.
      split; [apply slots_all_set; [exact Hall|reflexivity]|]. split.
      { intros j Hj. apply slot_get_set_other. intros E. injection E as ->. apply Hj. left; reflexivity. }
      split; [exact Hb|].
      intros sp fr Hag Hsp Hcur. cbn [pack_field].
      rewrite (Hsp i ltac:(left; reflexivity)), slot_get_set_same.
      apply kspec_nil; [apply same_content_refl|exact Hcur|intros j; reflexivity].
  - (* Em *)
    cbn [unpack_field] in H. injection H as <- <- <-.
    split; [exact Hall|]. split; [reflexivity|]. split; [exact Hb|].
    intros sp fr _ _ Hcur. cbn [pack_field].
    apply (kspec_weaken base [TChunk off []] fr off _ (fun sp' => sp' = sp)); [intros ? -> j; reflexivity|].
    pose proof (emit_spec base off [] fr sp Hcur) as E. rewrite FragProofs.blen_nil, Z.add_0_r in E. exact E.
Qed.
(* ---- the field loop ---- *)
Lemma rt_fields (cf : lconf) (c : cid) : forall fs s off ipp v e tq,
  forallb (cfield_rt base) fs = true -> NoDup (fidxs fs) ->
  (forall j, In j (fidxs fs) -> slot_get s (FN j) = None) -> slots_all s -> base <= off ->
  unpack_fields host raw rec_unpack loop_fuel cf c fs s off ipp [] = POk v e tq -> tr_ok base raw tq ->
  exists sf, v = VPkt c sf /\ slots_all sf /\
    (forall j, ~ In j (fidxs fs) -> slot_get sf (FN j) = slot_get s (FN j)) /\ base <= e /\
    forall sp fr, keeps_fn sf sp -> cur fr = off - base ->
      qspec base tq fr e (pack_fields host dl rec_pack cf c fs sp fr (ipp - base)).
Proof.
  induction fs as [|f r IH]; intros s off ipp v e tq Hrt Hnd Hfresh Hall Hb H Htr; cbn [unpack_fields] in H.
  - injection H as <- <- <-. exists s. split; [reflexivity|]. split; [exact Hall|].
    split; [reflexivity|]. split; [exact Hb|].
    intros sp fr _ Hcur. cbn [pack_fields]. unfold qspec. cbn [ins_trace].
    exists (VPkt c sp), fr. split; [reflexivity|]. split; [apply same_content_refl|exact Hcur].
  - cbn [forallb] in Hrt. apply andb_true_iff in Hrt as [Hrtf Hrtr].
    unfold fidxs in Hnd, Hfresh. cbn [flat_map] in Hnd, Hfresh. fold (fidxs r) in Hnd, Hfresh.
    destruct (nodup_app_disj _ _ Hnd) as [Hndr Hdisj].
    destruct (unpack_field host raw rec_unpack loop_fuel cf c f s off ipp) as [s1 o1 t1| | |] eqn:Ef;
      try discriminate.
    rewrite unpack_fields_acc in H. cbn [app] in H.
    destruct (unpack_fields host raw rec_unpack loop_fuel cf c r s1 o1 ipp []) as [v2 e2 t2| |] eqn:Er;
      try discriminate.
    injection H as <- <- <-. apply tr_ok_app in Htr as [Htr1 Htr2].
    destruct (rt_field cf c f s off ipp s1 o1 t1 Hrtf Hall Hb Ef Htr1) as (Hall1 & Hfr1 & Ho1 & Hk).
    assert (Hfresh1 : forall j, In j (fidxs r) -> slot_get s1 (FN j) = None).
    { intros j Hj. rewrite Hfr1.
      - apply Hfresh. apply in_or_app. right. exact Hj.
      - intros Hin. exact (Hdisj j Hin Hj). }
    destruct (IH s1 o1 ipp v2 e2 t2 Hrtr Hndr Hfresh1 Hall1 Ho1 Er Htr2) as (sf & -> & Hallf & Hfrf & He & Hq).
    exists sf. split; [reflexivity|]. split; [exact Hallf|]. split.
    { intros j Hj. rewrite Hfrf, Hfr1; [reflexivity| |]; intros Hin; apply Hj; apply in_or_app; auto. }
    split; [exact He|].
    intros sp fr Hsp Hcur. cbn [pack_fields].
    refine (kq_seq base t1 t2 fr o1 e2 _ (fun a b => pack_fields host dl rec_pack cf c r a b (ipp - base))
              (fun at_cur => [(at_cur, cf_name f, c)])
              (fun st => st ++ [(match st with (o, _, _) :: _ => o | [] => cur fr end, cf_name f, c)])
              (keeps_fn sp) _ _).
    + apply Hk; [| |exact Hcur].
      * intros j x Hj G. rewrite (Hsp j).
        assert (Hnin : ~ In j (fidx f ++ fidxs r)).
        { intros Hin. rewrite (Hfresh j Hin) in G. discriminate. }
        rewrite Hfrf, Hfr1; [exact G| |]; intros Hin; apply Hnin; apply in_or_app; auto.
      * intros j Hj. rewrite (Hsp j). apply Hfrf. exact (Hdisj j Hj).
    + intros sp' fr2 Hkeep Hc. apply Hq; [|exact Hc].
      intros j. rewrite (Hkeep j). exact (Hsp j).
Qed.
End RT.

(* ------------------------------------------------------------------------------------------ *)
(** * Closing the recursion on fuel                                                            *)
(* ------------------------------------------------------------------------------------------ *)

Lemma nodupb_NoDup (l : list Z) : nodupb l = true -> NoDup l.
Proof.
  induction l as [|a r IH]; cbn [nodupb]; intros H; [constructor|].
  apply andb_true_iff in H as [H1 H2]. constructor; [|exact (IH H2)].
  intros Hin. apply negb_true_iff in H1.
  assert (E : existsb (Z.eqb a) r = true) by (apply existsb_exists; exists a; split; [exact Hin|apply Z.eqb_refl]).
  congruence.
Qed.

Lemma ct_get_forallb (P : cclass -> bool) (ct : ctab) (c : cid) (k : cclass) :
  forallb (fun ck => P (snd ck)) ct = true -> ct_get ct c = Some k -> P k = true.
Proof.
  induction ct as [|[c' k'] r IH]; cbn [forallb ct_get]; [discriminate|].
  intros H G. apply andb_true_iff in H as [H1 H2]. destruct (c =? c').
  - injection G as <-. exact H1.
  - exact (IH H2 G).
Qed.

Theorem rt_all (host : bool) (dl : dstate) (ct : ctab) (raw : bytes) (base : Z) :
  wf_bytes raw -> 0 <= base -> ct_rt base ct = true -> ct_distinct ct = true ->
  forall fuel, rt_inv base raw (unpack_pkt fuel host ct raw) (pack_pkt fuel host dl ct).
Proof.
  intros Hraw Hbase Hrt Hdis. induction fuel as [|fuel IH]; intros c o v e t H Hbo Htr; cbn [unpack_pkt] in H.
  - discriminate.
  - destruct (ct_get ct c) as [k|] eqn:Ec; [|discriminate].
    pose proof (ct_get_forallb (fun k => forallb (cfield_rt base) (cc_fields k)) ct c k Hrt Ec) as Hk1.
    pose proof (ct_get_forallb (fun k => nodupb (fidxs (cc_fields k))) ct c k Hdis Ec) as Hk2.
    cbv beta in Hk1, Hk2. apply nodupb_NoDup in Hk2.
    destruct (rt_fields host raw (unpack_pkt fuel host ct raw) fuel dl (pack_pkt fuel host dl ct) base
                Hraw Hbase IH (cc_conf k) c (cc_fields k) [] o o v e t Hk1 Hk2
                ltac:(intros; reflexivity) ltac:(constructor) Hbo H Htr)
      as (sf & -> & Hallf & _ & He & Hq).
    exists sf. split; [reflexivity|]. split; [exact Hallf|]. split; [exact He|].
    intros fr Hcur. cbn [pack_pkt]. rewrite Ec, Hcur. apply Hq; [intros j; reflexivity|exact Hcur].
Qed.

Theorem roundtrip_trace : forall fuel host dl ct raw c off base v e t fr,
  wf_bytes raw -> ct_distinct ct = true ->
  ct_rt base ct = true -> 0 <= base <= off -> cur fr = off - base ->
  unpack_pkt fuel host ct raw c off = POk v e t -> trace_from base t -> trace_in raw t ->
  exists s, v = VPkt c s /\
    match ins_trace base t fr with
    | Frag.Ok fr1 => exists v' fr2, pack_pkt fuel host dl ct c s fr = QOk v' fr2 /\ same_content fr2 fr1 /\ cur fr2 = e - base
    | _ => exists st, pack_pkt fuel host dl ct c s fr = QFail st
    end.
Proof.
  intros fuel host dl ct raw c off base v e t fr Hraw Hdis Hrt [Hb0 Hb1] Hcur H Htf Hti.
  destruct (rt_all host dl ct raw base Hraw Hb0 Hrt Hdis fuel c off v e t H Hb1 (conj Htf Hti))
    as (s & -> & _ & _ & Hq).
  exists s. split; [reflexivity|]. exact (Hq fr Hcur).
Qed.

(* ------------------------------------------------------------------------------------------ *)
(** * Packet.pack() of a parsed packet, against the sparse-array specification                 *)
(* ------------------------------------------------------------------------------------------ *)

Lemma ins_trace_run_ops (base : Z) (t : trace) : forall fr k,
  fst (run_ops fr (chunk_ops base t) k) = ins_trace base t fr.
Proof.
  induction t as [|x t IH]; intros fr k.
  - reflexivity.
  - destruct x as [p b| |]; unfold chunk_ops; cbn [flat_map app]; fold (chunk_ops base t); cbn [ins_trace].
    + cbn [run_ops apply_op]. destruct (insert fr (p - base) b); try reflexivity. apply IH.
    + apply IH.
    + apply IH.
Qed.

Lemma chunk_ops_nonneg (base : Z) (t : trace) : trace_from base t -> Forall op_nonneg (chunk_ops base t).
Proof.
  unfold trace_from. induction t as [|x t IH]; intros H.
  - constructor.
  - inversion H as [|? ? Hx Ht]; subst. unfold chunk_ops. cbn [flat_map]. fold (chunk_ops base t).
    destruct x as [p b| |]; cbn [app]; try exact (IH Ht).
    constructor; [cbn [op_nonneg]; lia|exact (IH Ht)].
Qed.

Theorem roundtrip_bytes : forall fuel host dl ct raw c off s e t,
  wf_bytes raw -> ct_distinct ct = true ->
  ct_rt off ct = true -> 0 <= off ->
  unpack_pkt fuel host ct raw c off = POk (VPkt c s) e t -> trace_from off t -> trace_in raw t ->
  match fold_a aempty (chunk_ops off t) with
  | Some a => exists v', pack_top fuel host dl ct c s = PBytes (a_tobytes a) v'
  | None => exists st, pack_top fuel host dl ct c s = PErr st
  end.
Proof.
  intros fuel host dl ct raw c off s e t Hraw Hdis Hrt Hoff H Htf Hti.
  destruct (roundtrip_trace fuel host dl ct raw c off off (VPkt c s) e t empty Hraw Hdis Hrt ltac:(lia)
              ltac:(cbn [cur empty]; lia) H Htf Hti) as (s0 & Es & Hp).
  injection Es as <-.
  pose proof (history_refines (chunk_ops off t) empty aempty R_empty (chunk_ops_nonneg off t Htf) 0) as Hh.
  rewrite ins_trace_run_ops in Hh. unfold pack_top.
  destruct (ins_trace off t empty) as [fr1| |].
  - destruct Hh as (a' & -> & HR). destruct Hp as (v' & fr2 & -> & [Hfr _] & _).
    exists v'. f_equal. rewrite <- (tobytes_refines fr1 a' HR). unfold tobytes. rewrite Hfr. reflexivity.
  - rewrite Hh. destruct Hp as (st & ->). exists st. reflexivity.
  - contradiction.
Qed.

Print Assumptions roundtrip_trace.
Print Assumptions roundtrip_bytes.

(* ------------------------------------------------------------------------------------------ *)
(** * Every class built by `describe` has distinct field indices                               *)
(* ------------------------------------------------------------------------------------------ *)

Definition didx (d : dfield) : list Z := match d with DMove _ _ _ _ => [] | DBody i _ => [i] end.
Fixpoint zseq (i : Z) (n : nat) : list Z := match n with O => [] | S n' => i :: zseq (i + 1) n' end.

Lemma compile_fields_idxs (al : option Z) : forall ds before l,
  compile_fields al before ds = Some l -> fidxs l = flat_map didx ds.
Proof.
  induction ds as [|d rest IH]; intros before l H; cbn [compile_fields] in H.
  - injection H as <-. reflexivity.
  - match type of H with match ?X with _ => _ end = _ => destruct X as [cf|] eqn:Et; [|discriminate] end.
    destruct (compile_fields al (d :: before) rest) as [l'|] eqn:Er; [|discriminate].
    injection H as <-. unfold fidxs. cbn [flat_map]. fold (fidxs l'). rewrite (IH _ _ Er). f_equal.
    destruct d as [i arg rf a|i b].
    + injection Et as <-. reflexivity.
    + destruct b as [e|w dflt|e cnt unt whn dflt a|e whn dflt|]; try (injection Et as <-; reflexivity).
      destruct (bits_compile _) as [[sm nbytes]|]; [|discriminate].
      destruct (nth_error sm _) as [[shift mask]|]; [|discriminate].
      injection Et as <-. reflexivity.
Qed.

Lemma describe_fields_idxs (al : option Z) : forall fs i,
  flat_map didx (describe_fields al fs i) = zseq i (length fs).
Proof.
  induction fs as [|f r IH]; intros i; cbn [describe_fields length zseq]; [reflexivity|].
  rewrite flat_map_app, IH.
  destruct (match fd_move f with Some m => Some m | None => _ end) as [[[arg rf] a]|]; reflexivity.
Qed.

Lemma zseq_ge (n : nat) : forall i x, In x (zseq i n) -> i <= x.
Proof.
  induction n as [|n IH]; intros i x; cbn [zseq]; [intros []|].
  intros [<-|H]; [lia|]. specialize (IH _ _ H). lia.
Qed.
Lemma zseq_nodup (n : nat) : forall i, NoDup (zseq i n).
Proof.
  induction n as [|n IH]; intros i; cbn [zseq]; constructor; [|apply IH].
  intros H. apply zseq_ge in H. lia.
Qed.
Lemma NoDup_nodupb (l : list Z) : NoDup l -> nodupb l = true.
Proof.
  induction l as [|a r IH]; intros H; [reflexivity|]. inversion H as [|? ? Hn Hr]; subst.
  cbn [nodupb]. rewrite (IH Hr), andb_true_r. apply negb_true_iff.
  destruct (existsb (Z.eqb a) r) eqn:E; [|reflexivity].
  apply existsb_exists in E as (x & Hx & Hax). apply Z.eqb_eq in Hax. subst x. contradiction.
Qed.

Theorem describe_distinct : forall p k, describe p = Some k -> nodupb (fidxs (cc_fields k)) = true.
Proof.
  intros p k H. unfold describe in H.
  destruct (compile_fields (pc_align p) [] (describe_fields (pc_align p) (pc_fields p) 0)) as [l|] eqn:E;
    [|discriminate].
  injection H as <-. cbn [cc_fields]. apply NoDup_nodupb.
  rewrite (compile_fields_idxs _ _ _ _ E), describe_fields_idxs. apply zseq_nodup.
Qed.

(* ------------------------------------------------------------------------------------------ *)
(** * Refutations: each added hypothesis is necessary; and a non-vacuity instance              *)
(* ------------------------------------------------------------------------------------------ *)

Definition rt_mk (fs : list cfield) : cclass :=
  {| cc_conf := empty_conf; cc_gen_pack := false; cc_gen_unpack := false; cc_vectorize := false; cc_fields := fs |}.
Definition rt_dl0 : dstate := fun _ _ => [].
Definition rt_u8 : elem := ELeafE (LInt 1 false None VNone).

(* without wf_bytes raw: the byte 300 is decoded, its re-encoding overflows *)
Example refute_without_wf_bytes :
  let ct := [(0, rt_mk [CElem 0 rt_u8])] in
  ct_rt 0 ct = true /\ ct_distinct ct = true /\
  unpack_pkt 3 true ct [300] 0 0 = POk (VPkt 0 [(FN 0, VInt 300)]) 1 [TChunk 0 [300]] /\
  trace_from 0 [TChunk 0 [300]] /\ trace_in [300] [TChunk 0 [300]] /\
  ins_trace 0 [TChunk 0 [300]] empty = Frag.Ok {| frags := [(0, [300])]; begins := [0]; cur := 1 |} /\
  pack_pkt 3 true rt_dl0 ct 0 [(FN 0, VInt 300)] empty = QFail [(0, FN 0, 0)].
Proof.
  cbv zeta. repeat split; try (vm_compute; reflexivity).
  - constructor; [lia|constructor].
  - constructor; [vm_compute; discriminate|constructor].
Qed.

(* without ct_distinct: two fields named 0, the second value overwrites the first *)
Example refute_without_distinct :
  let ct := [(0, rt_mk [CElem 0 rt_u8; CElem 0 rt_u8])] in
  let t := [TChunk 0 [1]; TChunk 1 [2]] in
  ct_rt 0 ct = true /\ wf_bytes [1; 2] /\
  unpack_pkt 3 true ct [1; 2] 0 0 = POk (VPkt 0 [(FN 0, VInt 2)]) 2 t /\
  trace_from 0 t /\ trace_in [1; 2] t /\
  option_map a_tobytes (fold_a aempty (chunk_ops 0 t)) = Some [1; 2] /\
  pack_top 3 true rt_dl0 ct 0 [(FN 0, VInt 2)] = PBytes [2; 2] (VPkt 0 [(FN 0, VInt 2)]).
Proof.
  cbv zeta. repeat split; try (vm_compute; reflexivity).
  - repeat constructor; unfold wf_byte; lia.
  - repeat constructor; lia.
  - repeat constructor; vm_compute; discriminate.
Qed.

(* without trace_in: a read-to-end field at offset 5 of an empty buffer sends the parse cursor back to 0 *)
Example refute_without_trace_in :
  let ct := [(0, rt_mk [CElem 0 (ELeafE (LDataEos VNone)); CMove 1 (MConst 8) RCur false; CEm 1])] in
  let t := [TChunk 5 []; TMove 8; TChunk 8 []] in
  ct_rt 5 ct = true /\ ct_distinct ct = true /\ wf_bytes [] /\
  unpack_pkt 3 true ct [] 0 5 = POk (VPkt 0 [(FN 0, VBytes [])]) 8 t /\
  trace_from 5 t /\
  option_map a_tobytes (fold_a aempty (chunk_ops 5 t)) = Some [46; 46; 46] /\
  pack_top 3 true rt_dl0 ct 0 [(FN 0, VBytes [])] =
    PBytes [46; 46; 46; 46; 46; 46; 46; 46] (VPkt 0 [(FN 0, VBytes [])]).
Proof.
  cbv zeta. repeat split; try (vm_compute; reflexivity).
  - constructor.
  - repeat constructor; lia.
Qed.

(* non-vacuity: a class with a move, a selector-chosen leaf, a sequence of nested packets and an optional
   field, parsed at offset 2 with base 2; all hypotheses hold and pack() returns the consumed bytes *)
Definition rt_ex_ct : ctab :=
  [(0, rt_mk [CElem 0 rt_u8;
              CMove 1 (MField (FN 0)) RInner false;
              CElem 1 (ERefSel (EChoose (EBin Sub (EField (FN 0)) (ELit (VInt 2)))
                                        [ELit (VLeaf (LInt 2 false (Some EBig) VNone));
                                         ELit (VLeaf (LDataMarker [0] false VNone))]) VNone);
              CSeq 2 (ERefPkt 1 []) (Some (ELit (VInt 2))) None None (VList []) 2;
              COpt 3 rt_u8 (EBin Eq (EField (FN 0)) (ELit (VInt 2))) VNone;
              CEm 4]);
   (1, rt_mk [CElem 0 rt_u8])].
Definition rt_ex_raw : bytes := [9; 9; 2; 7; 1; 2; 5; 7; 6; 8].

Example roundtrip_nonvacuous :
  exists s e t,
    unpack_pkt 5 true rt_ex_ct rt_ex_raw 0 2 = POk (VPkt 0 s) e t /\
    ct_rt 2 rt_ex_ct = true /\ ct_distinct rt_ex_ct = true /\ wf_bytes rt_ex_raw /\
    trace_from 2 t /\ trace_in rt_ex_raw t /\
    pack_top 5 true rt_dl0 rt_ex_ct 0 s = PBytes [2; 46; 1; 2; 5; 46; 6; 8] (VPkt 0 s).
Proof.
  eexists _, _, _. split; [vm_compute; reflexivity|].
  split; [vm_compute; reflexivity|]. split; [vm_compute; reflexivity|].
  split; [repeat constructor; unfold wf_byte; lia|].
  split; [repeat constructor; lia|]. split; [repeat constructor; vm_compute; discriminate|].
  vm_compute. reflexivity.
Qed.

Print Assumptions describe_distinct.
Print Assumptions roundtrip_nonvacuous.
