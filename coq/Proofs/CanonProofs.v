(* Proofs/CanonProofs.v -- the comparison glue of the correspondence check (Model/Canon.v) is sound: the boolean comparators
   decide equality, and the list of indices `check_group` returns is exactly the list of cases on which the model's outcome
   differs from the outcome reported for the implementation.  (What vm_compute prints is therefore the disagreement set; an
   empty list means every case agreed.) *)
From Coq Require Import ZArith List Bool Lia.
From Bisturi Require Import Base.Bytes Model.Value Model.Decl Model.Unpack Model.Pack Model.Init Model.Codegen Model.Canon.
Import ListNotations.
Open Scope Z_scope.

(* ---- auxiliary lemmas ---- *)
Lemma fname_eqb_iff : forall a b, fname_eqb a b = true <-> a = b.
Proof.
  intros a b. split.
  - destruct a, b; simpl; try discriminate;
      try (intros H; apply Z.eqb_eq in H; subst; reflexivity).
    intros H. apply andb_true_iff in H. destruct H as [H1 H2].
    apply Z.eqb_eq in H1. apply Z.eqb_eq in H2. subst. reflexivity.
  - intros <-. destruct a; simpl; rewrite ?Z.eqb_refl; reflexivity.
Qed.

Lemma combine_eqb_eq {A : Type} (f : A * A -> bool) :
  (forall x y, f (x, y) = true <-> x = y) ->
  forall a b, (Z.of_nat (length a) =? Z.of_nat (length b)) && forallb f (combine a b) = true <-> a = b.
Proof.
  intros Hf a b. rewrite andb_true_iff, Z.eqb_eq, Nat2Z.inj_iff. split.
  - intros [HL HF]. revert b HL HF.
    induction a as [|x a IH]; intros [|y b]; simpl; try discriminate; auto.
    intros HL HF. apply andb_true_iff in HF. destruct HF as [H1 H2].
    apply Hf in H1. subst. f_equal. apply IH; auto.
  - intros <-. split; auto. induction a as [|x a IH]; simpl; auto.
    rewrite IH, andb_true_r. apply Hf. reflexivity.
Qed.

(* nested induction principle for cval *)
Section CvalInd.
  Variable P : cval -> Prop.
  Definition Qopt (o : option cval) : Prop := match o with Some v => P v | None => True end.
  Hypothesis HInt : forall z, P (CInt z).
  Hypothesis HBytes : forall b, P (CBytes b).
  Hypothesis HNone : P CNone.
  Hypothesis HList : forall l, Forall P l -> P (CList l).
  Hypothesis HPkt : forall c fs, Forall (fun p : fname * option cval => Qopt (snd p)) fs -> P (CPkt c fs).
  Hypothesis HOther : P COther.

  Fixpoint cval_ind' (v : cval) : P v :=
    match v with
    | CInt z => HInt z
    | CBytes b => HBytes b
    | CNone => HNone
    | CList l =>
        HList l ((fix go (l : list cval) : Forall P l :=
                    match l with
                    | [] => Forall_nil _
                    | a :: r => Forall_cons a (cval_ind' a) (go r)
                    end) l)
    | CPkt c fs =>
        HPkt c fs
          ((fix go (fs : list (fname * option cval)) : Forall (fun p : fname * option cval => Qopt (snd p)) fs :=
              match fs with
              | [] => Forall_nil _
              | p :: r =>
                  @Forall_cons _ (fun p : fname * option cval => Qopt (snd p)) p r
                    (match snd p as o' return Qopt o' with
                     | Some v => cval_ind' v
                     | None => I
                     end)
                    (go r)
              end) fs)
    | COther => HOther
    end.
End CvalInd.

(* ---- the theorems ---- *)
Theorem bytes_eqb_eq : forall a b, bytes_eqb a b = true <-> a = b.
Proof.
  intros a b. unfold bytes_eqb, blen.
  apply (combine_eqb_eq (fun p : Z * Z => fst p =? snd p)).
  intros x y. simpl. apply Z.eqb_eq.
Qed.

Lemma cval_eqb_sound : forall a b, cval_eqb a b = true -> a = b.
Proof.
  induction a as [z|x| |l IH|c fs IH| ] using cval_ind'; intros b; destruct b as [z'|y| |l'|c' fs'| ];
    simpl; try discriminate; try reflexivity.
  - intros H. apply Z.eqb_eq in H. subst. reflexivity.
  - intros H. apply bytes_eqb_eq in H. subst. reflexivity.
  - intros H. f_equal. revert l' H.
    induction IH as [|a l Ha Hl IHl]; intros [|b l']; try discriminate; auto.
    intros H. apply andb_true_iff in H. destruct H as [H1 H2].
    apply Ha in H1. subst. f_equal. apply IHl. exact H2.
  - intros H. apply andb_true_iff in H. destruct H as [Hc H]. apply Z.eqb_eq in Hc. subst c'. f_equal.
    revert fs' H.
    induction IH as [|[f a] fs Ha Hl IHl]; intros [|[g b] fs']; try discriminate; auto.
    intros H. apply andb_true_iff in H. destruct H as [H H3].
    apply andb_true_iff in H. destruct H as [H1 H2].
    apply fname_eqb_iff in H1. subst g.
    assert (a = b) as ->.
    { unfold Qopt in Ha. simpl in Ha. destruct a as [a'|], b as [b'|]; try discriminate; auto.
      apply Ha in H2. subst. reflexivity. }
    f_equal. apply IHl. exact H3.
Qed.

(* STATEMENT FALSE AS GIVEN:
     Theorem cval_eqb_eq : forall a b, cval_eqb a b = true <-> a = b.
   Counterexample: a = b = COther.  cval_eqb has no (COther, COther) branch, so cval_eqb COther COther = false although
   COther = COther (the placeholder of "something the public API does not show" never compares equal, also when nested:
   cval_eqb (CList [COther]) (CList [COther]) = false).  The right-to-left direction holds exactly for the values
   free of COther (cclean below); the left-to-right direction holds for all values. *)
Lemma cval_eqb_eq_false : ~ (forall a b, cval_eqb a b = true <-> a = b).
Proof. intros H. specialize (H COther COther). destruct H as [_ H]. specialize (H eq_refl). discriminate H. Qed.

Fixpoint cclean (a : cval) : bool :=
  match a with
  | COther => false
  | CList l => forallb cclean l
  | CPkt _ fs => forallb (fun p : fname * option cval => match snd p with Some v => cclean v | None => true end) fs
  | _ => true
  end.

Lemma cval_eqb_clean : forall a b, cval_eqb a b = true -> cclean a = true.
Proof.
  induction a as [z|x| |l IH|c fs IH| ] using cval_ind'; intros b; destruct b as [z'|y| |l'|c' fs'| ];
    simpl; try discriminate; try reflexivity.
  - intros H. revert l' H.
    induction IH as [|a l Ha Hl IHl]; intros [|b l']; try discriminate; auto.
    intros H. apply andb_true_iff in H. destruct H as [H1 H2].
    cbn [forallb]. rewrite (Ha _ H1). simpl. apply (IHl l'). exact H2.
  - intros H. apply andb_true_iff in H. destruct H as [_ H].
    revert fs' H.
    induction IH as [|[f a] fs Ha Hl IHl]; intros [|[g b] fs']; try discriminate; auto.
    intros H. apply andb_true_iff in H. destruct H as [H H3].
    apply andb_true_iff in H. destruct H as [H1 H2].
    cbn [forallb snd]. rewrite (IHl fs' H3), andb_true_r.
    unfold Qopt in Ha. simpl in Ha. destruct a as [a'|], b as [b'|]; try discriminate; auto.
    apply (Ha b'). exact H2.
Qed.

Lemma cval_eqb_refl : forall a, cclean a = true -> cval_eqb a a = true.
Proof.
  induction a as [z|x| |l IH|c fs IH| ] using cval_ind'; simpl; intros Hc; try reflexivity.
  - apply Z.eqb_refl.
  - apply bytes_eqb_eq. reflexivity.
  - revert Hc. induction IH as [|a l Ha Hl IHl]; intros Hc; auto.
    cbn [forallb] in Hc. apply andb_true_iff in Hc. destruct Hc as [H1 H2].
    rewrite (Ha H1). simpl. exact (IHl H2).
  - rewrite Z.eqb_refl. simpl.
    revert Hc. induction IH as [|[f a] fs Ha Hl IHl]; intros Hc; auto.
    cbn [forallb snd] in Hc. apply andb_true_iff in Hc. destruct Hc as [H1 H2].
    rewrite (proj2 (fname_eqb_iff f f) eq_refl). simpl.
    rewrite (IHl H2), andb_true_r.
    unfold Qopt in Ha. simpl in Ha. destruct a as [a'|]; auto.
  - discriminate.
Qed.

Theorem cval_eqb_eq_weak : forall a b, cval_eqb a b = true <-> a = b /\ cclean a = true.
Proof.
  intros a b. split.
  - intros H. split; [apply cval_eqb_sound; exact H|apply (cval_eqb_clean a b); exact H].
  - intros [<- H]. apply cval_eqb_refl. exact H.
Qed.

Theorem stack_eqb_eq : forall a b, stack_eqb a b = true <-> a = b.
Proof.
  intros a b. unfold stack_eqb.
  apply (combine_eqb_eq
           (fun p : (Z * fname * cid) * (Z * fname * cid) =>
              let '((o1, f1, c1), (o2, f2, c2)) := p in (o1 =? o2) && fname_eqb f1 f2 && (c1 =? c2))).
  intros [[o1 f1] c1] [[o2 f2] c2].
  rewrite !andb_true_iff, !Z.eqb_eq, fname_eqb_iff. split.
  - intros [[-> ->] ->]. reflexivity.
  - intros E. injection E. auto.
Qed.

(* end offsets are compared only when both sides observed one *)
Fixpoint erase_end (o : outcome) : outcome :=
  match o with
  | OVal v _ => OVal v None
  | ORoundTrip v e p => ORoundTrip v e (erase_end p)
  | _ => o
  end.
Theorem outcome_eqb_sound : forall a b, outcome_eqb a b = true -> erase_end a = erase_end b.
Proof.
  induction a as [x e1|x|p s|x e1 p IH| ]; intros b; destruct b as [y e2|y|q t|y e2 q| ];
    simpl; try discriminate.
  - intros H. apply andb_true_iff in H. destruct H as [H _]. apply cval_eqb_sound in H. subst. reflexivity.
  - intros H. apply bytes_eqb_eq in H. subst. reflexivity.
  - intros H. apply andb_true_iff in H. destruct H as [H1 H2].
    apply Bool.eqb_prop in H1. apply stack_eqb_eq in H2. subst. reflexivity.
  - intros H. apply andb_true_iff in H. destruct H as [H H3].
    apply andb_true_iff in H. destruct H as [H1 H2].
    apply cval_eqb_sound in H1. apply Z.eqb_eq in H2. apply IH in H3. subst. rewrite H3. reflexivity.
Qed.
Theorem outcome_eqb_ends : forall x y p q, outcome_eqb (OVal x (Some p)) (OVal y (Some q)) = true -> x = y /\ p = q.
Proof.
  intros x y p q H. simpl in H. apply andb_true_iff in H. destruct H as [H1 H2].
  apply cval_eqb_sound in H1. apply Z.eqb_eq in H2. auto.
Qed.
Theorem outcome_eqb_other : forall a, outcome_eqb a OOther = false /\ outcome_eqb OOther a = false.
Proof. intros a. destruct a; split; reflexivity. Qed.
(* completeness on outcomes the model can produce: equal outcomes compare equal *)
Fixpoint no_other (o : outcome) : bool := match o with OOther => false | ORoundTrip _ _ p => no_other p | _ => true end.
(* STATEMENT FALSE AS GIVEN:
     Theorem outcome_eqb_refl : forall a, no_other a = true -> outcome_eqb a a = true.
   Counterexample: a = OVal COther None: no_other a = true, but outcome_eqb a a = cval_eqb COther COther && true = false
   (canon maps a packet of a class absent from the table, and every value outside int/bool/bytes/None/list/packet, to
   COther, so OVal COther _ is the shape such a result would take).  True when the values inside are free of COther. *)
Lemma outcome_eqb_refl_false : ~ (forall a, no_other a = true -> outcome_eqb a a = true).
Proof. intros H. specialize (H (OVal COther None) eq_refl). discriminate H. Qed.

Fixpoint oclean (o : outcome) : bool :=
  match o with
  | OVal v _ => cclean v
  | ORoundTrip v _ p => cclean v && oclean p
  | _ => true
  end.
Theorem outcome_eqb_refl_weak : forall a, no_other a = true -> oclean a = true -> outcome_eqb a a = true.
Proof.
  induction a as [x e1|x|p s|x e1 p IH| ]; simpl; intros H Hc.
  - rewrite (cval_eqb_refl x Hc). simpl. destruct e1; auto. apply Z.eqb_refl.
  - apply bytes_eqb_eq. reflexivity.
  - rewrite Bool.eqb_reflx. simpl. apply stack_eqb_eq. reflexivity.
  - apply andb_true_iff in Hc. destruct Hc as [H1 H2].
    rewrite (cval_eqb_refl x H1), Z.eqb_refl. simpl. apply IH; assumption.
  - discriminate.
Qed.
(* and conversely: an outcome that compares equal to anything is free of OOther and of COther *)
Theorem outcome_eqb_clean : forall a b, outcome_eqb a b = true -> no_other a = true /\ oclean a = true.
Proof.
  induction a as [x e1|x|p s|x e1 p IH| ]; intros b; destruct b as [y e2|y|q t|y e2 q| ];
    simpl; try discriminate; auto.
  - intros H. apply andb_true_iff in H. destruct H as [H _]. split; [reflexivity|]. apply (cval_eqb_clean x y H).
  - intros H. apply andb_true_iff in H. destruct H as [H H3].
    apply andb_true_iff in H. destruct H as [H1 _].
    destruct (IH q H3) as [A B]. split; [exact A|]. rewrite (cval_eqb_clean x y H1), B. reflexivity.
Qed.

Local Opaque unpack_any pack_any_top complete FUEL.

Lemma bad_cases_spec : forall host tbl ct cs base i,
  In i (bad_cases host tbl ct base cs) <->
  exists k x, nth_error cs k = Some x /\ i = base + Z.of_nat k /\ agrees host tbl ct x = false.
Proof.
  intros host tbl ct cs. induction cs as [|a cs IH]; intros base i.
  - cbn [bad_cases In]. split; [intros []|].
    intros (k & x & H & _). destruct k; discriminate.
  - cbn [bad_cases]. destruct (agrees host tbl ct a) eqn:E.
    + rewrite IH. split.
      * intros (k & x & H1 & H2 & H3). exists (S k), x. split; [exact H1|]. split; [lia|exact H3].
      * intros (k & x & H1 & H2 & H3). destruct k as [|k]; cbn [nth_error] in H1.
        { injection H1 as <-. congruence. }
        exists k, x. split; [exact H1|]. split; [lia|exact H3].
    + cbn [In]. rewrite IH. split.
      * intros [<-|(k & x & H1 & H2 & H3)].
        { exists 0%nat, a. split; [reflexivity|]. split; [simpl; lia|exact E]. }
        exists (S k), x. split; [exact H1|]. split; [lia|exact H3].
      * intros (k & x & H1 & H2 & H3). destruct k as [|k]; cbn [nth_error] in H1.
        { left. simpl in H2. lia. }
        right. exists k, x. split; [exact H1|]. split; [lia|exact H3].
Qed.

Lemma bad_cases_nil : forall host tbl ct cs base,
  bad_cases host tbl ct base cs = [] <-> Forall (fun x => agrees host tbl ct x = true) cs.
Proof.
  intros host tbl ct cs. induction cs as [|a cs IH]; intros base.
  - cbn [bad_cases]. split; auto.
  - cbn [bad_cases]. destruct (agrees host tbl ct a) eqn:E; split; intros H.
    + constructor; [exact E|]. apply (IH (base + 1)). exact H.
    + inversion H; subst. apply IH. assumption.
    + discriminate.
    + inversion H; subst. congruence.
Qed.

Lemma bad_cases_app : forall host tbl ct cs1 cs2 base,
  bad_cases host tbl ct base (cs1 ++ cs2) =
  bad_cases host tbl ct base cs1 ++ bad_cases host tbl ct (base + Z.of_nat (length cs1)) cs2.
Proof.
  intros host tbl ct cs1 cs2. induction cs1 as [|a cs1 IH]; intros base.
  - cbn [app bad_cases length]. rewrite Z.add_0_r. reflexivity.
  - cbn [app bad_cases]. rewrite IH.
    replace (base + 1 + Z.of_nat (length cs1)) with (base + Z.of_nat (length (a :: cs1)))
      by (cbn [length]; lia).
    destruct (agrees host tbl ct a); reflexivity.
Qed.

(* the printed list = the indices of the disagreeing cases, in order *)
Theorem check_group_spec : forall host base tbl cs i,
  In i (check_group host base tbl cs) <->
  exists k x, nth_error cs k = Some x /\ i = base + Z.of_nat k /\ agrees host tbl (mk_ctab tbl) x = false.
Proof. intros. unfold check_group. apply bad_cases_spec. Qed.
Theorem check_group_nil : forall host base tbl cs,
  check_group host base tbl cs = [] <-> Forall (fun x => agrees host tbl (mk_ctab tbl) x = true) cs.
Proof. intros. unfold check_group. apply bad_cases_nil. Qed.
Theorem check_group_app : forall host base tbl cs1 cs2,
  check_group host base tbl (cs1 ++ cs2) = check_group host base tbl cs1 ++ check_group host (base + Z.of_nat (length cs1)) tbl cs2.
Proof. intros. unfold check_group. apply bad_cases_app. Qed.

(* a case the implementation reports as "some other exception" / an undefined class placeholder never agrees *)
Theorem agrees_other : forall host tbl ct c raw off, agrees host tbl ct (CUnpack c raw off OOther) = false.
Proof. intros. unfold agrees. apply outcome_eqb_other. Qed.

Print Assumptions cval_eqb_eq_weak. Print Assumptions outcome_eqb_sound. Print Assumptions check_group_spec. Print Assumptions check_group_nil.
