(* Proofs/InitProofs.v -- Packet.__init__ (C19): the declared defaults per field kind; a constructed packet
   holds, for every value-bearing field, the keyword's value if the keyword names it and otherwise the
   declared default, independently of the other fields; keywords touch only the fields they name.
   Stdlib only, no axioms. *)
From Coq Require Import ZArith List Bool Lia.
From Bisturi Require Import Base.Bytes Kernel.IntCodec Kernel.Align Kernel.BitsK Kernel.DataK
  Model.Value Model.Decl Model.Init.
Import ListNotations. Open Scope Z_scope.

(* ------------------------------------------------------------------------------------------ *)
(* the declared defaults, per field kind                                                      *)
(* ------------------------------------------------------------------------------------------ *)

Theorem default_int : forall n s fe d, leaf_default (LInt n s fe d) = d.
Proof. reflexivity. Qed.

Theorem default_data_fixed_nul : forall n,
  leaf_default (LDataSized (ELit (VInt n)) true (VBytes [])) = VBytes (repeat 0 (Z.to_nat n)).
Proof. reflexivity. Qed.

Theorem default_data_given : forall size c b x,
  leaf_default (LDataSized size c (VBytes (x :: b))) = VBytes (x :: b).
Proof. reflexivity. Qed.

Theorem default_data_variable : forall size d, leaf_default (LDataSized size false d) = d.
Proof.
  intros size d. cbn [leaf_default].
  destruct d as [ | |b| | | | | | | ]; try reflexivity.
  destruct b; [|reflexivity]. destruct size as [v| | | | | | | | | ]; try reflexivity.
  destruct v; reflexivity.
Qed.

(* ------------------------------------------------------------------------------------------ *)
(* field names and slots                                                                      *)
(* ------------------------------------------------------------------------------------------ *)

Lemma fname_eqb_eq : forall a b, fname_eqb a b = true <-> a = b.
Proof.
  intros a b; split.
  - destruct a, b; cbn; intros H; try discriminate; try (apply Z.eqb_eq in H; subst; reflexivity).
    apply andb_true_iff in H. destruct H as [H1 H2]. apply Z.eqb_eq in H1. apply Z.eqb_eq in H2.
    subst. reflexivity.
  - intros ->. destruct b; cbn; rewrite ?Z.eqb_refl; reflexivity.
Qed.

Lemma fname_eqb_refl : forall a, fname_eqb a a = true.
Proof. intros a. apply fname_eqb_eq. reflexivity. Qed.

Lemma fname_eqb_neq : forall a b, a <> b -> fname_eqb a b = false.
Proof.
  intros a b H. destruct (fname_eqb a b) eqn:E; [|reflexivity]. apply fname_eqb_eq in E. contradiction.
Qed.

Lemma slot_get_set : forall s f v g,
  slot_get (slot_set s f v) g = if fname_eqb g f then Some v else slot_get s g.
Proof.
  induction s as [|[h w] r IH]; intros f v g; cbn [slot_set slot_get].
  - reflexivity.
  - destruct (fname_eqb f h) eqn:Efh; cbn [slot_get].
    + apply fname_eqb_eq in Efh. subst h. destruct (fname_eqb g f); reflexivity.
    + rewrite IH. destruct (fname_eqb g h) eqn:Egh; [|reflexivity].
      apply fname_eqb_eq in Egh. subst h. rewrite fname_eqb_neq; [reflexivity|].
      intros ->. rewrite fname_eqb_refl in Efh. discriminate.
Qed.

Lemma slot_get_set_same : forall s f v, slot_get (slot_set s f v) f = Some v.
Proof. intros. rewrite slot_get_set, fname_eqb_refl. reflexivity. Qed.

Lemma slot_get_set_other : forall s f v g, g <> f -> slot_get (slot_set s f v) g = slot_get s g.
Proof. intros. rewrite slot_get_set, fname_eqb_neq by assumption. reflexivity. Qed.

Lemma FN_neq : forall i j, i <> j -> FN j <> FN i.
Proof. intros i j H E. inversion E. subst. apply H. reflexivity. Qed.

(* ------------------------------------------------------------------------------------------ *)
(* indices of the compiled fields                                                             *)
(* ------------------------------------------------------------------------------------------ *)

Definition cf_index (f : cfield) : Z :=
  match f with CMove i _ _ _ | CElem i _ | CBits i _ _ _ _ _ _ _ | CSeq i _ _ _ _ _ _ | COpt i _ _ _ | CEm i => i end.
Definition is_move (f : cfield) : bool := match f with CMove _ _ _ _ => true | _ => false end.
(* the value-bearing fields of a class have pairwise distinct indices (describe numbers them 0, 1, 2, ..) *)
Definition distinct_fields (fs : list cfield) : Prop := NoDup (map cf_index (filter (fun f => negb (is_move f)) fs)).

Section I.
Variable rc : value -> option value.
(* what one field's init stores under its own name, in isolation *)
Definition own_init (f : cfield) (kw : slots) : option (option value) :=
  match f with
  | CMove _ _ _ _ | CEm _ => Some None
  | CElem i e => match slot_get kw (FN i) with
                 | Some v => Some (Some v)
                 | None => match elem_default rc e with Some d => Some (Some d) | None => None end
                 end
  | CBits i _ _ _ _ _ _ d | CSeq i _ _ _ _ d _ | COpt i _ _ d =>
      match slot_get kw (FN i) with
      | Some v => Some (Some v)
      | None => match rc d with Some x => Some (Some x) | None => None end
      end
  end.

(* one field's init writes its own name only (and, for the first member of a bit run, the hidden FBitsI slot) *)
Lemma init_field_other : forall f kw s s1 j,
  init_field rc f kw s = Some s1 -> (is_move f = false -> cf_index f <> j) ->
  slot_get s1 (FN j) = slot_get s (FN j).
Proof.
  intros f kw s s1 j H Hj.
  destruct f as [i a r al|i e|i first last run0 sh mk nb d|i e cn un wh d al|i e wh d|i];
    cbn [init_field is_move cf_index] in H, Hj; unfold kw_or in H.
  - inversion H. reflexivity.
  - specialize (Hj eq_refl).
    destruct (slot_get kw (FN i)); [|destruct (elem_default rc e); [|discriminate]];
      inversion H; apply slot_get_set_other, FN_neq; assumption.
  - specialize (Hj eq_refl).
    assert (Hb : slot_get (if first then slot_set s (FBitsI run0) (VInt 0) else s) (FN j) = slot_get s (FN j)).
    { destruct first; [|reflexivity]. apply slot_get_set_other. discriminate. }
    destruct (slot_get kw (FN i)); [|destruct (rc d); [|discriminate]];
      inversion H; rewrite slot_get_set_other by (apply FN_neq; assumption); exact Hb.
  - specialize (Hj eq_refl).
    destruct (slot_get kw (FN i)); [|destruct (rc d); [|discriminate]];
      inversion H; apply slot_get_set_other, FN_neq; assumption.
  - specialize (Hj eq_refl).
    destruct (slot_get kw (FN i)); [|destruct (rc d); [|discriminate]];
      inversion H; apply slot_get_set_other, FN_neq; assumption.
  - inversion H. reflexivity.
Qed.

(* what it leaves under its own name *)
Lemma init_field_own : forall f kw s s1,
  init_field rc f kw s = Some s1 ->
  exists ov, own_init f kw = Some ov /\
    slot_get s1 (FN (cf_index f)) = match ov with Some v => Some v | None => slot_get s (FN (cf_index f)) end.
Proof.
  intros f kw s s1 H.
  destruct f as [i a r al|i e|i first last run0 sh mk nb d|i e cn un wh d al|i e wh d|i];
    cbn [init_field own_init cf_index] in *; unfold kw_or in H.
  - inversion H. exists None. split; reflexivity.
  - destruct (slot_get kw (FN i)) as [v|]; [|destruct (elem_default rc e) as [v|]; [|discriminate]];
      inversion H; exists (Some v); (split; [reflexivity|apply slot_get_set_same]).
  - destruct (slot_get kw (FN i)) as [v|]; [|destruct (rc d) as [v|]; [|discriminate]];
      inversion H; exists (Some v); (split; [reflexivity|apply slot_get_set_same]).
  - destruct (slot_get kw (FN i)) as [v|]; [|destruct (rc d) as [v|]; [|discriminate]];
      inversion H; exists (Some v); (split; [reflexivity|apply slot_get_set_same]).
  - destruct (slot_get kw (FN i)) as [v|]; [|destruct (rc d) as [v|]; [|discriminate]];
      inversion H; exists (Some v); (split; [reflexivity|apply slot_get_set_same]).
  - inversion H. exists None. split; reflexivity.
Qed.

Lemma init_fields_other : forall fs kw s0 s j,
  init_fields rc fs kw s0 = Some s ->
  (forall f, In f fs -> is_move f = false -> cf_index f <> j) ->
  slot_get s (FN j) = slot_get s0 (FN j).
Proof.
  induction fs as [|g r IH]; intros kw s0 s j H Hj; cbn [init_fields] in H.
  - inversion H. reflexivity.
  - destruct (init_field rc g kw s0) as [s1|] eqn:Eg; [|discriminate].
    rewrite (IH _ _ _ _ H) by (intros f Hf; apply Hj; right; exact Hf).
    apply (init_field_other _ _ _ _ _ Eg). apply Hj. left. reflexivity.
Qed.

Lemma distinct_cons_inv : forall g r, distinct_fields (g :: r) ->
  distinct_fields r /\
  (is_move g = false -> forall f, In f r -> is_move f = false -> cf_index f <> cf_index g).
Proof.
  intros g r H. unfold distinct_fields in *. cbn [filter] in H.
  destruct (is_move g) eqn:Eg; cbn [negb map] in H.
  - split; [exact H|discriminate].
  - inversion H as [|x l Hnin Hnd]; subst. split; [exact Hnd|].
    intros _ f Hf Hm E. apply Hnin. rewrite <- E. apply in_map. apply filter_In. split; [exact Hf|].
    rewrite Hm. reflexivity.
Qed.

Lemma init_fields_slot_gen : forall fs kw s0 s f,
  distinct_fields fs -> init_fields rc fs kw s0 = Some s -> In f fs -> is_move f = false ->
  exists ov, own_init f kw = Some ov /\
    slot_get s (FN (cf_index f)) = match ov with Some v => Some v | None => slot_get s0 (FN (cf_index f)) end.
Proof.
  induction fs as [|g r IH]; intros kw s0 s f Hd H Hin Hm; [destruct Hin|].
  cbn [init_fields] in H. destruct (init_field rc g kw s0) as [s1|] eqn:Eg; [|discriminate].
  destruct (distinct_cons_inv _ _ Hd) as [Hdr Hg].
  destruct Hin as [->|Hin].
  - destruct (init_field_own _ _ _ _ Eg) as [ov [Ho Hs]]. exists ov. split; [exact Ho|].
    rewrite <- Hs. apply (init_fields_other _ _ _ _ _ H). apply Hg. exact Hm.
  - destruct (IH _ _ _ _ Hdr H Hin Hm) as [ov [Ho Hs]]. exists ov. split; [exact Ho|].
    rewrite Hs. destruct ov; [reflexivity|].
    apply (init_field_other _ _ _ _ _ Eg). intros Hgm E. exact (Hg Hgm f Hin Hm (eq_sym E)).
Qed.

(* every field ends up holding the keyword's value if named, else its declared default -- whatever the other
   fields and keywords are *)
Theorem init_fields_slot : forall fs kw s f,
  distinct_fields fs -> init_fields rc fs kw [] = Some s -> In f fs -> is_move f = false ->
  exists ov, own_init f kw = Some ov /\ slot_get s (FN (cf_index f)) = ov.
Proof.
  intros fs kw s f Hd H Hin Hm.
  destruct (init_fields_slot_gen _ _ _ _ _ Hd H Hin Hm) as [ov [Ho Hs]].
  exists ov. split; [exact Ho|]. rewrite Hs. destruct ov; reflexivity.
Qed.

(* a field not named by the keywords stores the same value with and without them *)
Lemma init_field_agree : forall f kw a b a1 b1 j,
  slot_get kw (FN j) = None ->
  init_field rc f kw a = Some a1 -> init_field rc f [] b = Some b1 ->
  slot_get a (FN j) = slot_get b (FN j) -> slot_get a1 (FN j) = slot_get b1 (FN j).
Proof.
  intros f kw a b a1 b1 j Hk Ha Hb Hab.
  destruct (is_move f) eqn:Em.
  { rewrite (init_field_other _ _ _ _ j Ha), (init_field_other _ _ _ _ j Hb) by (intros X; rewrite Em in X; discriminate X).
    exact Hab. }
  destruct (Z.eq_dec (cf_index f) j) as [E|E].
  2:{ rewrite (init_field_other _ _ _ _ j Ha), (init_field_other _ _ _ _ j Hb) by (intros _; exact E).
      exact Hab. }
  destruct f as [i x r al|i e|i first last run0 sh mk nb d|i e cn un wh d al|i e wh d|i];
    cbn [init_field cf_index] in *; unfold kw_or in *; subst; cbn [slot_get] in Hb; try rewrite Hk in Ha.
  - discriminate.
  - destruct (elem_default rc e); [|discriminate]. inversion Ha. inversion Hb.
    rewrite !slot_get_set_same. reflexivity.
  - destruct (rc d); [|discriminate]. inversion Ha. inversion Hb. rewrite !slot_get_set_same. reflexivity.
  - destruct (rc d); [|discriminate]. inversion Ha. inversion Hb. rewrite !slot_get_set_same. reflexivity.
  - destruct (rc d); [|discriminate]. inversion Ha. inversion Hb. rewrite !slot_get_set_same. reflexivity.
  - inversion Ha. inversion Hb. subst. exact Hab.
Qed.

Lemma init_fields_agree : forall fs kw a b a1 b1 j,
  slot_get kw (FN j) = None ->
  init_fields rc fs kw a = Some a1 -> init_fields rc fs [] b = Some b1 ->
  slot_get a (FN j) = slot_get b (FN j) -> slot_get a1 (FN j) = slot_get b1 (FN j).
Proof.
  induction fs as [|g r IH]; intros kw a b a1 b1 j Hk Ha Hb Hab; cbn [init_fields] in Ha, Hb.
  - inversion Ha. inversion Hb. subst. exact Hab.
  - destruct (init_field rc g kw a) as [a2|] eqn:Ea; [|discriminate].
    destruct (init_field rc g [] b) as [b2|] eqn:Eb; [|discriminate].
    apply (IH _ _ _ _ _ _ Hk Ha Hb). apply (init_field_agree _ _ _ _ _ _ _ Hk Ea Eb Hab).
Qed.

(* keyword arguments override exactly the fields they name *)
Theorem init_fields_kw_local : forall fs kw s s0 j,
  distinct_fields fs -> init_fields rc fs kw [] = Some s -> init_fields rc fs [] [] = Some s0 ->
  slot_get kw (FN j) = None -> slot_get s (FN j) = slot_get s0 (FN j).
Proof.
  intros fs kw s s0 j _ H H0 Hk. apply (init_fields_agree _ _ _ _ _ _ _ Hk H H0). reflexivity.
Qed.
End I.

Print Assumptions default_int.
Print Assumptions default_data_fixed_nul.
Print Assumptions default_data_given.
Print Assumptions default_data_variable.
Print Assumptions init_fields_slot.
Print Assumptions init_fields_kw_local.
