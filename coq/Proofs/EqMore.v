(* Proofs/EqMore.v -- C20, the rest of "structural and total": == is symmetric and transitive, and two packets parsed from
   the same bytes compare equal (the parse yields values == is reflexive on). *)
From Coq Require Import ZArith List Bool Lia.
From Bisturi Require Import Base.Bytes Model.Value Model.Decl Model.Unpack Model.Pack Model.Init Model.Codegen Model.Wf Proofs.EqProofs.
From Bisturi Require Import Kernel.IntCodec Kernel.Align Kernel.BitsK Kernel.DataK.
From Bisturi Require Proofs.ContextProofs.
Import ListNotations.
Open Scope Z_scope.

(* ------------------------------------------------------------------------------------------ *)
(* auxiliary: induction on values, pointwise comparison of two lists                          *)
(* ------------------------------------------------------------------------------------------ *)

(* induction on values with the elements of lists, of tuples and the slots of packets as sub-values *)
Lemma value_ind_ltp (P : value -> Prop) :
  (forall v, match v with VList _ | VTuple _ | VPkt _ _ => False | _ => True end -> P v) ->
  (forall l, Forall P l -> P (VList l)) -> (forall l, Forall P l -> P (VTuple l)) ->
  (forall c s, Forall (fun p => P (snd p)) s -> P (VPkt c s)) -> forall v, P v.
Proof.
  intros H0 HL HT HP. fix IH 1. intros v.
  destruct v as [z|b|b| |l|l|k l|c s|c s|lf]; try (apply H0; exact I).
  - apply HL. exact ((fix go (l : list value) : Forall P l :=
                        match l with [] => Forall_nil _ | a :: r => Forall_cons _ (IH a) (go r) end) l).
  - apply HT. exact ((fix go (l : list value) : Forall P l :=
                        match l with [] => Forall_nil _ | a :: r => Forall_cons _ (IH a) (go r) end) l).
  - apply HP. exact ((fix go (s : list (fname * value)) : Forall (fun p => P (snd p)) s :=
                        match s with
                        | [] => Forall_nil _
                        | (f, a) :: r => Forall_cons (f, a) (IH a : P (snd (f, a))) (go r)
                        end) s).
Qed.

Lemma forallb_ext_in {A : Type} (p q : A -> bool) : forall l, (forall a, In a l -> p a = q a) -> forallb p l = forallb q l.
Proof.
  induction l as [|a l IH]; intros H; cbn [forallb]; [reflexivity|].
  rewrite (H a (or_introl eq_refl)), IH; [reflexivity|]. intros b Hb. apply H. right. exact Hb.
Qed.

Lemma forallb_impl_in {A : Type} (p q : A -> bool) : forall l, (forall a, In a l -> p a = true -> q a = true) ->
  forallb p l = true -> forallb q l = true.
Proof.
  intros l H Hp. rewrite forallb_forall in *. intros a Ha. exact (H a Ha (Hp a Ha)).
Qed.

(* comparing x with y position by position is comparing y with x *)
Lemma fc_swap {A : Type} (p q : A -> A -> bool) : forall x, Forall (fun a => forall b, p a b = q b a) x ->
  forall y, forallb (fun r => p (fst r) (snd r)) (combine x y) = forallb (fun r => q (fst r) (snd r)) (combine y x).
Proof.
  intros x HF. induction HF as [|a x Ha _ IH]; intros y.
  - destruct y; reflexivity.
  - destruct y as [|b y]; [reflexivity|]. cbn [combine forallb fst snd]. rewrite (Ha b), (IH y). reflexivity.
Qed.

Lemma fc_trans {A : Type} (p : A -> A -> bool) : forall x,
  Forall (fun a => forall b c, p a b = true -> p b c = true -> p a c = true) x ->
  forall y z, length x = length y ->
  forallb (fun r => p (fst r) (snd r)) (combine x y) = true -> forallb (fun r => p (fst r) (snd r)) (combine y z) = true ->
  forallb (fun r => p (fst r) (snd r)) (combine x z) = true.
Proof.
  intros x HF. induction HF as [|a x Ha _ IH]; intros y z Hl H1 H2; [reflexivity|].
  destruct y as [|b y]; [discriminate Hl|]. destruct z as [|c z]; [reflexivity|].
  cbn [combine forallb fst snd] in *. apply andb_true_iff in H1. apply andb_true_iff in H2.
  destruct H1 as (H1 & H1'). destruct H2 as (H2 & H2'). injection Hl as Hl.
  rewrite (Ha b c H1 H2), (IH y z Hl H1' H2'). reflexivity.
Qed.

Lemma forall_all {A : Type} (P : A -> Prop) (l : list A) : (forall a, P a) -> Forall P l.
Proof. intros H. apply Forall_forall. intros a _. exact (H a). Qed.

(* ------------------------------------------------------------------------------------------ *)
(* python == on values is symmetric and transitive                                            *)
(* ------------------------------------------------------------------------------------------ *)

Lemma veq_list_cons (a b : value) (x y : list value) :
  value_eqb (VList (a :: x)) (VList (b :: y)) = value_eqb a b && value_eqb (VList x) (VList y).
Proof. reflexivity. Qed.
Lemma veq_tuple_cons (a b : value) (x y : list value) :
  value_eqb (VTuple (a :: x)) (VTuple (b :: y)) = value_eqb a b && value_eqb (VTuple x) (VTuple y).
Proof. reflexivity. Qed.
Lemma veq_bytes (x y : bytes) :
  value_eqb (VBytes x) (VBytes y) = (blen x =? blen y) && forallb (fun r => Z.eqb (fst r) (snd r)) (combine x y).
Proof. reflexivity. Qed.

Lemma value_eqb_sym : forall a b, value_eqb a b = value_eqb b a.
Proof.
  induction a as [a Ha|l IH|l IH|c s _] using value_ind_ltp; intros b.
  - destruct a as [z|bo|by_| |l|l|k l|c s|c s|lf]; try contradiction;
      destruct b as [z'|bo'|by'| |l'|l'|k' l'|c' s'|c' s'|lf']; try reflexivity; try apply Z.eqb_sym.
    rewrite !veq_bytes, (Z.eqb_sym (blen by_)). f_equal.
    apply (fc_swap Z.eqb Z.eqb). apply forall_all. intros x y. apply Z.eqb_sym.
  - destruct b as [z'|bo'|by'| |l'|l'|k' l'|c' s'|c' s'|lf']; try reflexivity.
    revert l'. induction IH as [|a r Ha _ IHr]; intros l'.
    + destruct l'; reflexivity.
    + destruct l' as [|b l']; [reflexivity|]. rewrite !veq_list_cons, (Ha b), (IHr l'). reflexivity.
  - destruct b as [z'|bo'|by'| |l'|l'|k' l'|c' s'|c' s'|lf']; try reflexivity.
    revert l'. induction IH as [|a r Ha _ IHr]; intros l'.
    + destruct l'; reflexivity.
    + destruct l' as [|b l']; [reflexivity|]. rewrite !veq_tuple_cons, (Ha b), (IHr l'). reflexivity.
  - destruct b; reflexivity.
Qed.

Lemma value_eqb_trans : forall a b c, value_eqb a b = true -> value_eqb b c = true -> value_eqb a c = true.
Proof.
  induction a as [a Ha|l IH|l IH|k s _] using value_ind_ltp; intros b c H1 H2.
  - destruct a as [z|bo|by_| |l|l|k l|k s|k s|lf]; try contradiction;
      destruct b as [z'|bo'|by'| |l'|l'|k' l'|k' s'|k' s'|lf']; try discriminate H1;
      destruct c as [z''|bo''|by''| |l''|l''|k'' l''|k'' s''|k'' s''|lf'']; try discriminate H2; try reflexivity;
      try (cbn [value_eqb as_int] in *; apply Z.eqb_eq in H1; apply Z.eqb_eq in H2; apply Z.eqb_eq; congruence).
    rewrite veq_bytes in *. apply andb_true_iff in H1. apply andb_true_iff in H2.
    destruct H1 as (L1 & H1). destruct H2 as (L2 & H2). apply Z.eqb_eq in L1. apply Z.eqb_eq in L2.
    apply andb_true_iff. split; [apply Z.eqb_eq; congruence|].
    apply (fc_trans Z.eqb by_) with (y := by'); [|unfold blen in L1; lia|exact H1|exact H2].
    apply forall_all. intros x y z E1 E2. apply Z.eqb_eq in E1. apply Z.eqb_eq in E2. apply Z.eqb_eq. congruence.
  - destruct b as [z'|bo'|by'| |l'|l'|k' l'|k' s'|k' s'|lf']; try discriminate H1.
    destruct c as [z''|bo''|by''| |l''|l''|k'' l''|k'' s''|k'' s''|lf'']; try discriminate H2.
    revert l' l'' H1 H2. induction IH as [|a r Ha _ IHr]; intros l' l'' H1 H2.
    + destruct l'; [|discriminate H1]. exact H2.
    + destruct l' as [|b l']; [discriminate H1|]. destruct l'' as [|c l'']; [discriminate H2|].
      rewrite veq_list_cons in *. apply andb_true_iff in H1. apply andb_true_iff in H2.
      rewrite (Ha b c (proj1 H1) (proj1 H2)), (IHr l' l'' (proj2 H1) (proj2 H2)). reflexivity.
  - destruct b as [z'|bo'|by'| |l'|l'|k' l'|k' s'|k' s'|lf']; try discriminate H1.
    destruct c as [z''|bo''|by''| |l''|l''|k'' l''|k'' s''|k'' s''|lf'']; try discriminate H2.
    revert l' l'' H1 H2. induction IH as [|a r Ha _ IHr]; intros l' l'' H1 H2.
    + destruct l'; [|discriminate H1]. exact H2.
    + destruct l' as [|b l']; [discriminate H1|]. destruct l'' as [|c l'']; [discriminate H2|].
      rewrite veq_tuple_cons in *. apply andb_true_iff in H1. apply andb_true_iff in H2.
      rewrite (Ha b c (proj1 H1) (proj1 H2)), (IHr l' l'' (proj2 H1) (proj2 H2)). reflexivity.
  - destruct b; discriminate H1.
Qed.

(* ------------------------------------------------------------------------------------------ *)
(* Packet.__eq__ is symmetric and transitive, and fuel only matters until it suffices         *)
(* ------------------------------------------------------------------------------------------ *)

Lemma pkt_eqb_pkt : forall fuel ct c1 s1 c2 s2,
  pkt_eqb (S fuel) ct (VPkt c1 s1) (VPkt c2 s2) =
  (c1 =? c2) && match ct_get ct c1 with
                | None => false
                | Some k => forallb (fun f => match slot_get s1 f, slot_get s2 f with
                                              | None, None => true
                                              | Some x, Some y => pkt_eqb fuel ct x y
                                              | _, _ => false
                                              end) (field_names k)
                end.
Proof. reflexivity. Qed.
Lemma pkt_eqb_list : forall fuel ct x y,
  pkt_eqb (S fuel) ct (VList x) (VList y) =
  (Z.of_nat (length x) =? Z.of_nat (length y)) && forallb (fun p => pkt_eqb fuel ct (fst p) (snd p)) (combine x y).
Proof. reflexivity. Qed.

Theorem pkt_eqb_sym : forall fuel ct a b, pkt_eqb fuel ct a b = pkt_eqb fuel ct b a.
Proof.
  induction fuel as [|fuel IH]; intros ct a b; [reflexivity|].
  destruct a as [z|bo|by_| |l|l|k l|c s|c s|lf]; destruct b as [z'|bo'|by'| |l'|l'|k' l'|c' s'|c' s'|lf'];
    try reflexivity; try (cbn [pkt_eqb]; apply value_eqb_sym).
  - rewrite !pkt_eqb_list, (Z.eqb_sym (Z.of_nat (length l))). f_equal.
    apply (fc_swap (pkt_eqb fuel ct) (pkt_eqb fuel ct)). apply forall_all. intros x y. apply IH.
  - rewrite !pkt_eqb_pkt. destruct (Z.eqb_spec c c') as [->|Hn].
    + rewrite Z.eqb_refl. cbn [andb]. destruct (ct_get ct c') as [k|]; [|reflexivity].
      apply forallb_ext_in. intros f _. destruct (slot_get s f), (slot_get s' f); try reflexivity. apply IH.
    + assert (c' =? c = false) as -> by (apply Z.eqb_neq; congruence). reflexivity.
Qed.

Theorem pkt_eqb_trans : forall fuel ct a b c,
  pkt_eqb fuel ct a b = true -> pkt_eqb fuel ct b c = true -> pkt_eqb fuel ct a c = true.
Proof.
  induction fuel as [|fuel IH]; intros ct a b c H1 H2; [discriminate H1|].
  destruct a as [z|bo|by_| |l|l|k l|k s|k s|lf]; destruct b as [z'|bo'|by'| |l'|l'|k' l'|k' s'|k' s'|lf'];
    try discriminate H1;
    destruct c as [z''|bo''|by''| |l''|l''|k'' l''|k'' s''|k'' s''|lf'']; try discriminate H2;
    try (cbn [pkt_eqb] in *; exact (value_eqb_trans _ _ _ H1 H2)).
  - rewrite pkt_eqb_list in *. apply andb_true_iff in H1. apply andb_true_iff in H2.
    destruct H1 as (L1 & H1). destruct H2 as (L2 & H2). apply Z.eqb_eq in L1. apply Z.eqb_eq in L2.
    apply andb_true_iff. split; [apply Z.eqb_eq; congruence|].
    apply (fc_trans (pkt_eqb fuel ct) l) with (y := l'); [|lia|exact H1|exact H2].
    apply forall_all. intros x y z. apply IH.
  - rewrite pkt_eqb_pkt in *. apply andb_true_iff in H1. apply andb_true_iff in H2.
    destruct H1 as (L1 & H1). destruct H2 as (L2 & H2). apply Z.eqb_eq in L1. apply Z.eqb_eq in L2. subst k' k''.
    rewrite Z.eqb_refl. cbn [andb]. destruct (ct_get ct k) as [kk|]; [|discriminate H1].
    rewrite forallb_forall in *. intros f Hf. specialize (H1 f Hf). specialize (H2 f Hf).
    destruct (slot_get s f), (slot_get s' f); try discriminate H1; destruct (slot_get s'' f); try discriminate H2;
      try reflexivity. exact (IH _ _ _ _ H1 H2).
Qed.

(* more fuel never changes a comparison that came out true *)
Theorem pkt_eqb_fuel : forall fuel ct a b, pkt_eqb fuel ct a b = true -> pkt_eqb (S fuel) ct a b = true.
Proof.
  induction fuel as [|fuel IH]; intros ct a b H; [discriminate H|].
  destruct a as [z|bo|by_| |l|l|k l|k s|k s|lf]; destruct b as [z'|bo'|by'| |l'|l'|k' l'|k' s'|k' s'|lf'];
    try discriminate H; try exact H.
  - rewrite pkt_eqb_list in *. apply andb_true_iff in H. destruct H as (L & H). rewrite L. cbn [andb].
    revert H. apply forallb_impl_in. intros p _. apply IH.
  - rewrite pkt_eqb_pkt in *. apply andb_true_iff in H. destruct H as (L & H). rewrite L. cbn [andb].
    destruct (ct_get ct k) as [kk|]; [|discriminate H]. revert H. apply forallb_impl_in. intros f _.
    destruct (slot_get s f), (slot_get s' f); try (intros H; exact H). apply IH.
Qed.

Lemma plain_S : forall fuel ct v,
  plain (S fuel) ct v =
  match v with
  | VInt _ | VBool _ | VBytes _ | VNone => true
  | VList l => forallb (plain fuel ct) l
  | VPkt c s => match ct_get ct c with Some _ => forallb (fun p => plain fuel ct (snd p)) s | None => false end
  | _ => false
  end.
Proof. reflexivity. Qed.

Theorem plain_fuel : forall fuel ct v, plain fuel ct v = true -> plain (S fuel) ct v = true.
Proof.
  induction fuel as [|fuel IH]; intros ct v H; [discriminate H|].
  rewrite plain_S in H. rewrite plain_S.
  destruct v as [z|bo|by_| |l|l|k l|c s|c s|lf]; try discriminate H; try reflexivity.
  - revert H. apply forallb_impl_in. intros a _. apply IH.
  - destruct (ct_get ct c); [|discriminate H]. revert H. apply forallb_impl_in. intros p _. apply IH.
Qed.

Lemma pkt_eqb_fuel_le : forall k k' ct a b, (k <= k')%nat -> pkt_eqb k ct a b = true -> pkt_eqb k' ct a b = true.
Proof.
  intros k k' ct a b Hle H. induction Hle as [|m _ IH]; [exact H|]. apply pkt_eqb_fuel. exact IH.
Qed.
Lemma plain_fuel_le : forall k k' ct v, (k <= k')%nat -> plain k ct v = true -> plain k' ct v = true.
Proof.
  intros k k' ct v Hle H. induction Hle as [|m _ IH]; [exact H|]. apply plain_fuel. exact IH.
Qed.

(* ------------------------------------------------------------------------------------------ *)
(* plain without fuel                                                                         *)
(* ------------------------------------------------------------------------------------------ *)

(* the same shape as `plain`, by recursion on the value itself *)
Fixpoint vplain (ct : ctab) (v : value) {struct v} : bool :=
  match v with
  | VInt _ | VBool _ | VBytes _ | VNone => true
  | VList l => forallb (vplain ct) l
  | VPkt c s => match ct_get ct c with Some _ => forallb (fun p => vplain ct (snd p)) s | None => false end
  | _ => false
  end.

Lemma plain_all_le {A : Type} (ct : ctab) (g : A -> value) : forall l : list A,
  Forall (fun a => exists k, plain k ct (g a) = true) l -> exists k, forallb (fun a => plain k ct (g a)) l = true.
Proof.
  intros l HF. induction HF as [|a l (k1 & H1) _ (k2 & H2)]; [exists O; reflexivity|].
  exists (Nat.max k1 k2). cbn [forallb]. rewrite (plain_fuel_le k1 _ ct (g a) (Nat.le_max_l k1 k2) H1). cbn [andb].
  revert H2. apply forallb_impl_in. intros b _. apply plain_fuel_le. apply Nat.le_max_r.
Qed.

Lemma Forall_mp_forallb {A : Type} (p : A -> bool) (Q : A -> Prop) : forall l,
  Forall (fun a => p a = true -> Q a) l -> forallb p l = true -> Forall Q l.
Proof.
  intros l HF. induction HF as [|a l Ha _ IH]; intros H; [constructor|].
  cbn [forallb] in H. apply andb_true_iff in H. constructor; [exact (Ha (proj1 H))|exact (IH (proj2 H))].
Qed.

Theorem vplain_plain : forall ct v, vplain ct v = true -> exists k, plain k ct v = true.
Proof.
  intros ct. induction v as [v Hv|l IH|l _|c s IH] using value_ind_ltp; intros H.
  - exists 1%nat. destruct v; try contradiction; try discriminate H; reflexivity.
  - cbn [vplain] in H. destruct (plain_all_le ct (fun a => a) l (Forall_mp_forallb _ _ l IH H)) as (k & Hk).
    exists (S k). rewrite plain_S. exact Hk.
  - discriminate H.
  - cbn [vplain] in H. destruct (ct_get ct c) as [kk|] eqn:G; [|discriminate H].
    destruct (plain_all_le ct (fun p : fname * value => snd p) s (Forall_mp_forallb _ _ s IH H)) as (k & Hk).
    exists (S k). rewrite plain_S, G. exact Hk.
Qed.

(* ------------------------------------------------------------------------------------------ *)
(* a parse that succeeded gives the same result with more fuel                                *)
(* ------------------------------------------------------------------------------------------ *)

Section Mono.
Variable host : bool.
Variable raw : bytes.
Variables rec1 rec2 : cid -> Z -> pres.
Hypothesis Hrec : forall c o v e t, rec1 c o = POk v e t -> rec2 c o = POk v e t.

Lemma unpack_elem_mono : forall cf c name e s off s' o' t,
  unpack_elem host raw rec1 cf c name e s off = FOk s' o' t -> unpack_elem host raw rec2 cf c name e s off = FOk s' o' t.
Proof.
  intros cf c name e s off s' o' t H.
  assert (forall c', match rec1 c' off with
                     | POk v o1 t1 => FOk (slot_set s name v) o1 t1
                     | PFail st => FFail st
                     | PFuel => FFuel
                     end = FOk s' o' t ->
                     match rec2 c' off with
                     | POk v o1 t1 => FOk (slot_set s name v) o1 t1
                     | PFail st => FFail st
                     | PFuel => FFuel
                     end = FOk s' o' t) as Hr.
  { intros c' Hx. destruct (rec1 c' off) as [v o1 t1| |] eqn:E; try discriminate Hx.
    rewrite (Hrec _ _ _ _ _ E). exact Hx. }
  destruct e as [l|c' proto|sel dflt]; cbn [unpack_elem] in *.
  - exact H.
  - exact (Hr _ H).
  - destruct (eval (mkctx raw s off) sel) as [v|x]; [|discriminate H].
    destruct v; try discriminate H; try exact H; exact (Hr _ H).
Qed.

Lemma unpack_count_mono : forall cf c i e al k s off t s' o' t',
  unpack_count host raw rec1 cf c i e al k s off t = FOk s' o' t' ->
  unpack_count host raw rec2 cf c i e al k s off t = FOk s' o' t'.
Proof.
  intros cf c i e al. induction k as [|k IH]; intros s off t s' o' t' H; cbn [unpack_count] in *; [exact H|].
  destruct (seq_align al off) as [o1|]; [|discriminate H].
  destruct (unpack_elem host raw rec1 cf c (FSeqElem i) e s o1) as [s1 o2 t1| | |] eqn:E; try discriminate H.
  rewrite (unpack_elem_mono _ _ _ _ _ _ _ _ _ E). exact (IH _ _ _ _ _ _ H).
Qed.

Lemma unpack_until_eq : forall rec fuel cf c i e al until s off t,
  unpack_until host raw rec fuel cf c i e al until s off t =
  match eval (mkctx raw s off) until with
  | Exn x => FExn x
  | Ok v =>
      if truth v then FOk s off t
      else match fuel with
           | O => FFuel
           | S fuel' =>
               match seq_align al off with
               | None => FExn ZeroDivisionError
               | Some o1 =>
                   match unpack_elem host raw rec cf c (FSeqElem i) e s o1 with
                   | FOk s1 o2 t1 =>
                       unpack_until host raw rec fuel' cf c i e al until
                                    (append_to s1 (FN i) (elem_value s1 (FSeqElem i))) o2 (t ++ t1)
                   | r => r
                   end
               end
           end
  end.
Proof. intros rec fuel. destruct fuel; reflexivity. Qed.

Lemma unpack_until_mono : forall cf c i e al until fuel s off t s' o' t',
  unpack_until host raw rec1 fuel cf c i e al until s off t = FOk s' o' t' ->
  unpack_until host raw rec2 (S fuel) cf c i e al until s off t = FOk s' o' t'.
Proof.
  intros cf c i e al until. induction fuel as [|fuel IH]; intros s off t s' o' t' H;
    rewrite unpack_until_eq in H; rewrite unpack_until_eq;
    (destruct (eval (mkctx raw s off) until) as [v|x]; [|discriminate H]);
    (destruct (truth v); [exact H|]); [discriminate H|].
  destruct (seq_align al off) as [o1|]; [|discriminate H].
  destruct (unpack_elem host raw rec1 cf c (FSeqElem i) e s o1) as [s1 o2 t1| | |] eqn:E; try discriminate H.
  rewrite (unpack_elem_mono _ _ _ _ _ _ _ _ _ E). exact (IH _ _ _ _ _ _ H).
Qed.

Lemma unpack_field_mono : forall lf cf c f s off ipp s' o' t,
  unpack_field host raw rec1 lf cf c f s off ipp = FOk s' o' t ->
  unpack_field host raw rec2 (S lf) cf c f s off ipp = FOk s' o' t.
Proof.
  intros lf cf c f s off ipp s' o' t H.
  destruct f as [i arg rf al|i e|i first last run0 shift mask nbytes dflt|i e count until when dflt al|i e when dflt|i];
    cbn [unpack_field] in *.
  - exact H.
  - exact (unpack_elem_mono _ _ _ _ _ _ _ _ _ H).
  - exact H.
  - match type of H with match ?m with Ok _ => _ | Exn _ => _ end = _ => destruct m as [n|x] end; [|discriminate H].
    match type of H with match ?m with Ok _ => _ | Exn _ => _ end = _ => destruct m as [[|]|x] end; [exact H| |discriminate H].
    destruct (unpack_count host raw rec1 cf c i e al (Z.to_nat n) _ off []) as [s1 o1 t1| | |] eqn:C; try discriminate H.
    rewrite (unpack_count_mono _ _ _ _ _ _ _ _ _ _ _ _ C).
    destruct until as [u|]; [|exact H]. exact (unpack_until_mono _ _ _ _ _ _ _ _ _ _ _ _ _ H).
  - destruct (eval (mkctx raw s off) when) as [v|x]; [|discriminate H].
    destruct (truth v); [|exact H].
    destruct (unpack_elem host raw rec1 cf c (FOptElem i) e s off) as [s1 o1 t1| | |] eqn:E; try discriminate H.
    rewrite (unpack_elem_mono _ _ _ _ _ _ _ _ _ E). exact H.
  - exact H.
Qed.

Lemma unpack_fields_mono : forall lf cf c fs s off ipp t v e t',
  unpack_fields host raw rec1 lf cf c fs s off ipp t = POk v e t' ->
  unpack_fields host raw rec2 (S lf) cf c fs s off ipp t = POk v e t'.
Proof.
  intros lf cf c. induction fs as [|f r IH]; intros s off ipp t v e t' H; cbn [unpack_fields] in *; [exact H|].
  destruct (unpack_field host raw rec1 lf cf c f s off ipp) as [s1 o1 t1| | |] eqn:E; try discriminate H.
  rewrite (unpack_field_mono _ _ _ _ _ _ _ _ _ _ E). exact (IH _ _ _ _ _ _ _ H).
Qed.

Lemma unpack_blocks_mono : forall lf cf c bs s off ipp t v e t',
  unpack_blocks host raw rec1 lf cf c bs s off ipp t = POk v e t' ->
  unpack_blocks host raw rec2 (S lf) cf c bs s off ipp t = POk v e t'.
Proof.
  intros lf cf c. induction bs as [|b r IH]; intros s off ipp t v e t' H; cbn [unpack_blocks] in *; [exact H|].
  destruct b as [big ms|f].
  - destruct (blen _ =? run_size ms); [|discriminate H].
    destruct (struct_unpack ms _ off s) as [s1 t1]. exact (IH _ _ _ _ _ _ _ H).
  - destruct (unpack_field host raw rec1 lf cf c f s off ipp) as [s1 o1 t1| | |] eqn:E; try discriminate H.
    rewrite (unpack_field_mono _ _ _ _ _ _ _ _ _ _ E). exact (IH _ _ _ _ _ _ _ H).
Qed.
End Mono.

Lemma unpack_any_S_eq : forall fuel host ct raw c off,
  unpack_any (S fuel) host ct raw c off =
  match ct_get ct c with
  | None => PFuel
  | Some k =>
      if cc_gen_unpack k
      then unpack_blocks host raw (unpack_any fuel host ct raw) fuel (cc_conf k) c
                         (gen_blocks host (cc_conf k) (cc_vectorize k) (cc_fields k) None) [] off off []
      else unpack_fields host raw (unpack_any fuel host ct raw) fuel (cc_conf k) c (cc_fields k) [] off off []
  end.
Proof. reflexivity. Qed.
Lemma unpack_pkt_S_eq : forall fuel host ct raw c off,
  unpack_pkt (S fuel) host ct raw c off =
  match ct_get ct c with
  | None => PFuel
  | Some k => unpack_fields host raw (unpack_pkt fuel host ct raw) fuel (cc_conf k) c (cc_fields k) [] off off []
  end.
Proof. reflexivity. Qed.

Theorem unpack_any_fuel : forall host ct raw fuel c off v e t,
  unpack_any fuel host ct raw c off = POk v e t -> unpack_any (S fuel) host ct raw c off = POk v e t.
Proof.
  intros host ct raw. induction fuel as [|fuel IH]; intros c off v e t H; [discriminate H|].
  rewrite unpack_any_S_eq in H. rewrite (unpack_any_S_eq (S fuel)).
  destruct (ct_get ct c) as [k|]; [|discriminate H]. destruct (cc_gen_unpack k).
  - exact (unpack_blocks_mono host raw _ _ IH _ _ _ _ _ _ _ _ _ _ _ H).
  - exact (unpack_fields_mono host raw _ _ IH _ _ _ _ _ _ _ _ _ _ _ H).
Qed.
Theorem unpack_pkt_fuel : forall host ct raw fuel c off v e t,
  unpack_pkt fuel host ct raw c off = POk v e t -> unpack_pkt (S fuel) host ct raw c off = POk v e t.
Proof.
  intros host ct raw. induction fuel as [|fuel IH]; intros c off v e t H; [discriminate H|].
  rewrite unpack_pkt_S_eq in H. rewrite (unpack_pkt_S_eq (S fuel)).
  destruct (ct_get ct c) as [k|]; [|discriminate H].
  exact (unpack_fields_mono host raw _ _ IH _ _ _ _ _ _ _ _ _ _ _ H).
Qed.

Theorem unpack_any_fuel_le : forall host ct raw f f' c off v e t, (f <= f')%nat ->
  unpack_any f host ct raw c off = POk v e t -> unpack_any f' host ct raw c off = POk v e t.
Proof.
  intros host ct raw f f' c off v e t Hle H. induction Hle as [|m _ IH]; [exact H|]. apply unpack_any_fuel. exact IH.
Qed.

(* two successful parses of the same input agree, whatever the fuel of each *)
Theorem unpack_any_deterministic : forall host ct raw f1 f2 c off v1 e1 t1 v2 e2 t2,
  unpack_any f1 host ct raw c off = POk v1 e1 t1 -> unpack_any f2 host ct raw c off = POk v2 e2 t2 ->
  v1 = v2 /\ e1 = e2 /\ t1 = t2.
Proof.
  intros host ct raw f1 f2 c off v1 e1 t1 v2 e2 t2 H1 H2.
  apply (unpack_any_fuel_le _ _ _ f1 (Nat.max f1 f2)) in H1; [|apply Nat.le_max_l].
  apply (unpack_any_fuel_le _ _ _ f2 (Nat.max f1 f2)) in H2; [|apply Nat.le_max_r].
  rewrite H1 in H2. injection H2 as -> -> ->. repeat split.
Qed.

(* ------------------------------------------------------------------------------------------ *)
(* the parse yields plain values                                                              *)
(* ------------------------------------------------------------------------------------------ *)

Theorem plain_vplain : forall k ct v, plain k ct v = true -> vplain ct v = true.
Proof.
  induction k as [|k IH]; intros ct v H; [discriminate H|].
  rewrite plain_S in H. destruct v as [z|bo|by_| |l|l|ks l|c s|c s|lf]; try discriminate H; try reflexivity; cbn [vplain].
  - revert H. apply forallb_impl_in. intros a _. apply IH.
  - destruct (ct_get ct c); [|discriminate H]. revert H. apply forallb_impl_in. intros p _. apply IH.
Qed.

Section ParsedPlain.
Variable ct : ctab.
Variable host : bool.
Variable raw : bytes.
Variable rec : cid -> Z -> pres.
Variable lf : nat.
Hypothesis Hrecv : forall c o v e t, rec c o = POk v e t -> vplain ct v = true.
Notation pslots_ok := (ContextProofs.slots_ok (vplain ct)).

Lemma field_pslots : forall cf c f s off ipp s' o' t, pslots_ok s ->
  unpack_field host raw rec lf cf c f s off ipp = FOk s' o' t -> pslots_ok s'.
Proof.
  exact (ContextProofs.unpack_field_slots (vplain ct) (fun _ => eq_refl) (fun _ => eq_refl) eq_refl (fun _ => eq_refl)
           host raw rec lf Hrecv).
Qed.

Lemma unpack_fields_vplain : forall cf c kk fs s off ipp t v e t', ct_get ct c = Some kk -> pslots_ok s ->
  unpack_fields host raw rec lf cf c fs s off ipp t = POk v e t' -> vplain ct v = true.
Proof.
  intros cf c kk. induction fs as [|f r IH]; intros s off ipp t v e t' G Hs H; cbn [unpack_fields] in H.
  - injection H as <- <- <-. cbn [vplain]. rewrite G. exact Hs.
  - destruct (unpack_field host raw rec lf cf c f s off ipp) as [s1 o1 t1| | |] eqn:E; try discriminate H.
    exact (IH _ _ _ _ _ _ _ G (field_pslots _ _ _ _ _ _ _ _ _ Hs E) H).
Qed.

Lemma unpack_blocks_vplain : forall cf c kk bs s off ipp t v e t', ct_get ct c = Some kk -> pslots_ok s ->
  unpack_blocks host raw rec lf cf c bs s off ipp t = POk v e t' -> vplain ct v = true.
Proof.
  intros cf c kk. induction bs as [|b r IH]; intros s off ipp t v e t' G Hs H; cbn [unpack_blocks] in H.
  - injection H as <- <- <-. cbn [vplain]. rewrite G. exact Hs.
  - destruct b as [big ms|f].
    + destruct (blen _ =? run_size ms); [|discriminate H].
      destruct (struct_unpack ms _ off s) as [s1 t1] eqn:S.
      refine (IH _ _ _ _ _ _ _ G _ H).
      exact (ContextProofs.struct_unpack_slots (vplain ct) (fun _ => eq_refl) (fun _ => eq_refl) eq_refl _ _ _ _ _ _ Hs S).
    + destruct (unpack_field host raw rec lf cf c f s off ipp) as [s1 o1 t1| | |] eqn:E; try discriminate H.
      exact (IH _ _ _ _ _ _ _ G (field_pslots _ _ _ _ _ _ _ _ _ Hs E) H).
Qed.
End ParsedPlain.

(* every value a parse returns is plain: it holds integers, bytes, None, lists and packets of classes of the table only.
   No declared default is involved: an absent Optional yields None, a sequence whose when-condition is false yields [],
   a run-time selected field or packet is parsed like a declared one (Model/Unpack.v never reads a `dflt` argument). *)
Theorem unpack_any_vplain : forall host ct raw fuel c off v e t,
  unpack_any fuel host ct raw c off = POk v e t -> vplain ct v = true.
Proof.
  intros host ct raw. induction fuel as [|fuel IH]; intros c off v e t H; [discriminate H|].
  rewrite unpack_any_S_eq in H. destruct (ct_get ct c) as [k|] eqn:G; [|discriminate H]. destruct (cc_gen_unpack k).
  - exact (unpack_blocks_vplain ct host raw _ _ IH _ _ _ _ [] _ _ _ _ _ _ G (eq_refl : ContextProofs.slots_ok (vplain ct) []) H).
  - exact (unpack_fields_vplain ct host raw _ _ IH _ _ _ _ [] _ _ _ _ _ _ G (eq_refl : ContextProofs.slots_ok (vplain ct) []) H).
Qed.
Theorem unpack_pkt_vplain : forall host ct raw fuel c off v e t,
  unpack_pkt fuel host ct raw c off = POk v e t -> vplain ct v = true.
Proof.
  intros host ct raw. induction fuel as [|fuel IH]; intros c off v e t H; [discriminate H|].
  rewrite unpack_pkt_S_eq in H. destruct (ct_get ct c) as [k|] eqn:G; [|discriminate H].
  exact (unpack_fields_vplain ct host raw _ _ IH _ _ _ _ [] _ _ _ _ _ _ G (eq_refl : ContextProofs.slots_ok (vplain ct) []) H).
Qed.

(* the unconditional forms *)
Theorem parsed_plain_any : forall fuel host ct raw c off v e t,
  unpack_any fuel host ct raw c off = POk v e t -> exists k, plain k ct v = true.
Proof. intros fuel host ct raw c off v e t H. exact (vplain_plain ct v (unpack_any_vplain _ _ _ _ _ _ _ _ _ H)). Qed.

Theorem parsed_twice_equal_any : forall f1 f2 host ct raw c off v1 e1 t1 v2 e2 t2,
  unpack_any f1 host ct raw c off = POk v1 e1 t1 -> unpack_any f2 host ct raw c off = POk v2 e2 t2 ->
  v1 = v2 /\ e1 = e2 /\ t1 = t2 /\
  exists k, forall k', (k <= k')%nat ->
    pkt_eqb k' ct v1 v2 = true /\ pkt_eqb k' ct v2 v1 = true /\ pkt_neb k' ct v1 v2 = false /\ pkt_neb k' ct v2 v1 = false.
Proof.
  intros f1 f2 host ct raw c off v1 e1 t1 v2 e2 t2 H1 H2.
  destruct (unpack_any_deterministic _ _ _ _ _ _ _ _ _ _ _ _ _ H1 H2) as (<- & <- & <-).
  split; [reflexivity|]. split; [reflexivity|]. split; [reflexivity|].
  destruct (parsed_plain_any _ _ _ _ _ _ _ _ _ H1) as (k & Hk). exists k. intros k' Hle.
  assert (pkt_eqb k' ct v1 v1 = true) as E by (apply pkt_eqb_refl; exact (plain_fuel_le k k' ct v1 Hle Hk)).
  unfold pkt_neb. rewrite E. repeat split.
Qed.

(* ------------------------------------------------------------------------------------------ *)
(* the declared defaults, and the theorems under the side condition on them                   *)
(* ------------------------------------------------------------------------------------------ *)

(* The declared defaults a parse could be suspected to hand out: the default of an Optional field (when it is absent), of a
   sequence (when its when-condition is false), of a run-time selected reference -- here, at the top of an element or inside
   a sequence / an optional.  ct_plain_defaults asks each of them to be plain (vplain: plain for some fuel, see
   vplain_plain / plain_vplain).  The theorems above show that the condition is not needed in this model: unpack_field
   never reads them (an absent Optional is None, a skipped sequence is []); parsed_plain and parsed_twice_equal below keep
   the hypothesis only because they were asked for in that form. *)
Definition elem_plain_default (ct : ctab) (e : elem) : bool :=
  match e with ERefSel _ d => vplain ct d | _ => true end.
Definition cfield_plain_defaults (ct : ctab) (f : cfield) : bool :=
  match f with
  | CElem _ e => elem_plain_default ct e
  | CSeq _ e _ _ _ d _ => elem_plain_default ct e && vplain ct d
  | COpt _ e _ d => elem_plain_default ct e && vplain ct d
  | _ => true
  end.
Definition ct_plain_defaults (ct : ctab) : bool :=
  forallb (fun ck => forallb (cfield_plain_defaults ct) (cc_fields (snd ck))) ct.

(* the parse yields plain values ... *)
Theorem parsed_plain : forall fuel host ct raw c off v e t,
  ct_plain_defaults ct = true -> unpack_any fuel host ct raw c off = POk v e t -> exists k, plain k ct v = true.
Proof. intros fuel host ct raw c off v e t _. apply parsed_plain_any. Qed.

(* ... so two packets parsed from the same bytes compare equal, in both directions, and != is false *)
Theorem parsed_twice_equal : forall f1 f2 host ct raw c off v1 e1 t1 v2 e2 t2,
  ct_plain_defaults ct = true ->
  unpack_any f1 host ct raw c off = POk v1 e1 t1 -> unpack_any f2 host ct raw c off = POk v2 e2 t2 ->
  exists k, forall k', (k <= k')%nat -> pkt_eqb k' ct v1 v2 = true /\ pkt_eqb k' ct v2 v1 = true /\ pkt_neb k' ct v1 v2 = false.
Proof.
  intros f1 f2 host ct raw c off v1 e1 t1 v2 e2 t2 _ H1 H2.
  destruct (parsed_twice_equal_any _ _ _ _ _ _ _ _ _ _ _ _ _ H1 H2) as (_ & _ & _ & k & Hk).
  exists k. intros k' Hle. destruct (Hk k' Hle) as (A & B & C & _). repeat split; assumption.
Qed.

(* ------------------------------------------------------------------------------------------ *)
(* non-vacuity                                                                                *)
(* ------------------------------------------------------------------------------------------ *)

(* class 0 (generated parser): n = Int(1); items = Ref(Inner).repeated(count=n); big = Int(2, little).when(len(items) > 1);
   none = Int(1).when(n == 0); sel = Ref(<selects Int(1)>, default=0); tail = Ref(Inner)
   class 1 (generic loop): a = Int(1); b = Data(until_marker=b'\0') *)
Definition eqm_class (gen : bool) (fs : list cfield) : cclass :=
  {| cc_conf := empty_conf; cc_gen_pack := false; cc_gen_unpack := gen; cc_vectorize := true; cc_fields := fs |}.
Definition eqm_ct : ctab :=
  [(0, eqm_class true
         [CElem 0 (ELeafE (LInt 1 false None (VInt 0)));
          CSeq 1 (ERefPkt 1 []) (Some (EField (FN 0))) None None (VList []) 1;
          COpt 2 (ELeafE (LInt 2 true (Some ELittle) (VInt 0))) (EBin Gt (EUn Len (EField (FN 1))) (ELit (VInt 1))) VNone;
          COpt 3 (ELeafE (LInt 1 false None (VInt 0))) (EBin Eq (EField (FN 0)) (ELit (VInt 0))) VNone;
          CElem 4 (ERefSel (ELit (VLeaf (LInt 1 false None (VInt 0)))) (VInt 0));
          CElem 5 (ERefPkt 1 [])]);
   (1, eqm_class false
         [CElem 0 (ELeafE (LInt 1 false None (VInt 0)));
          CElem 1 (ELeafE (LDataMarker [0] false (VBytes [])))])].
Definition eqm_raw : bytes := [2; 1; 65; 0; 2; 0; 254; 255; 7; 3; 66; 67; 0].

Definition eqm_inner (a : Z) (b : bytes) : value := VPkt 1 [(FN 0, VInt a); (FN 1, VBytes b)].
Definition eqm_v : value :=
  VPkt 0 [(FN 0, VInt 2); (FN 1, VList [eqm_inner 1 [65]; eqm_inner 2 []]); (FSeqElem 1, eqm_inner 2 []);
          (FOptElem 2, VInt (-2)); (FN 2, VInt (-2)); (FN 3, VNone); (FN 4, VInt 7); (FN 5, eqm_inner 3 [66; 67])].

(* an optional field that is present, one that is absent, a repeated nested packet, a run-time selected field: the table
   satisfies the side condition, the input parses (generated code for class 0, generic loop for class 1), with more fuel
   too, the value is plain and equal to itself *)
Example eqm_example :
  ct_plain_defaults eqm_ct = true /\
  unpack_any 3 true eqm_ct eqm_raw 0 0 =
    POk eqm_v 13 [TChunk 0 [2]; TChunk 1 [1]; TChunk 2 [65; 0]; TChunk 4 [2]; TChunk 5 [0]; TChunk 6 [254; 255];
                  TChunk 8 [7]; TChunk 9 [3]; TChunk 10 [66; 67; 0]] /\
  unpack_any 7 true eqm_ct eqm_raw 0 0 = unpack_any 3 true eqm_ct eqm_raw 0 0 /\
  unpack_any 1 true eqm_ct eqm_raw 0 0 = PFuel /\
  plain 4 eqm_ct eqm_v = true /\ plain 3 eqm_ct eqm_v = false /\
  pkt_eqb 4 eqm_ct eqm_v eqm_v = true /\ pkt_neb 4 eqm_ct eqm_v eqm_v = false.
Proof. vm_compute. repeat split; reflexivity. Qed.

(* the side condition is not necessary: an Optional whose declared default is a constructor call (not plain) fails it, and
   the parse of the absent field still yields None *)
Example eqm_defaults_not_read :
  let ct := [(0, eqm_class false [COpt 0 (ELeafE (LInt 1 false None (VInt 0))) (ELit (VBool false)) (VNew 0 [])])] in
  ct_plain_defaults ct = false /\
  unpack_any 1 true ct [] 0 0 = POk (VPkt 0 [(FN 0, VNone)]) 0 [] /\ plain 2 ct (VPkt 0 [(FN 0, VNone)]) = true.
Proof. vm_compute. repeat split; reflexivity. Qed.

Print Assumptions pkt_eqb_sym.
Print Assumptions pkt_eqb_trans.
Print Assumptions pkt_eqb_fuel.
Print Assumptions plain_fuel.
Print Assumptions unpack_any_fuel.
Print Assumptions unpack_any_deterministic.
Print Assumptions parsed_plain_any.
Print Assumptions parsed_twice_equal_any.
Print Assumptions parsed_plain.
Print Assumptions parsed_twice_equal.
