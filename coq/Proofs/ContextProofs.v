(* Proofs/ContextProofs.v -- context independence of the parsing interpreters: for "local" declarations
   parsing  pre ++ raw  at  blen pre + off  is parsing  raw  at  off  with every position shifted; appending
   bytes after the input never changes a successful parse of a "closed" declaration.
   Stdlib only, no axioms. *)
From Coq Require Import ZArith List Bool Lia.
From Bisturi Require Import Base.Bytes Kernel.IntCodec Kernel.Align Kernel.BitsK Kernel.DataK Kernel.Frag
  Model.Value Model.Decl Model.Unpack Model.Pack Model.Init Model.Codegen Model.Wf
  Proofs.IntCodecProofs Proofs.DataProofs Proofs.AlignProofs Proofs.StrictProofs.
Import ListNotations. Open Scope Z_scope.

Definition shift_item (d : Z) (x : titem) : titem :=
  match x with TChunk p b => TChunk (p + d) b | TMove p => TMove (p + d) | TDelim c f b => TDelim c f b end.
Definition shift_stack (d : Z) (st : stack) : stack := map (fun '(o, f, c) => (o + d, f, c)) st.
Definition shift_pres (d : Z) (r : pres) : pres :=
  match r with
  | POk v e t => POk v (e + d) (map (shift_item d) t)
  | PFail st => PFail (shift_stack d st)
  | PFuel => PFuel
  end.
Definition shift_fres (d : Z) (r : fres) : fres :=
  match r with
  | FOk s o t => FOk s (o + d) (map (shift_item d) t)
  | FExn x => FExn x
  | FFail st => FFail (shift_stack d st)
  | FFuel => FFuel
  end.

(* ------------------------------------------------------------------------------------------ *)
(* expressions: an induction principle that does not look inside literal values, eval unfolded *)
(* ------------------------------------------------------------------------------------------ *)

Section ExprInd.
Variable P : expr -> Prop.
Hypothesis HLit : forall v, P (ELit v).
Hypothesis HField : forall f, P (EField f).
Hypothesis HUn : forall o a, P a -> P (EUn o a).
Hypothesis HBin : forall o l r, P l -> P r -> P (EBin o l r).
Hypothesis HChoose : forall s opts, P s -> Forall P opts -> P (EChoose s opts).
Hypothesis HChooseD : forall s keys opts, P s -> Forall P opts -> P (EChooseD s keys opts).
Hypothesis HIte : forall c a b, P c -> P a -> P b -> P (EIte c a b).
Hypothesis HAttr : forall a f, P a -> P (EAttr a f).
Hypothesis HOff : P EOffset.
Hypothesis HRaw : P ERawLen.
Fixpoint expr_ind' (e : expr) : P e :=
  match e with
  | ELit v => HLit v
  | EField f => HField f
  | EUn o a => HUn o a (expr_ind' a)
  | EBin o l r => HBin o l r (expr_ind' l) (expr_ind' r)
  | EChoose s opts =>
      HChoose s opts (expr_ind' s)
        ((fix go (l : list expr) : Forall P l :=
            match l with [] => Forall_nil P | a :: r => Forall_cons a (expr_ind' a) (go r) end) opts)
  | EChooseD s keys opts =>
      HChooseD s keys opts (expr_ind' s)
        ((fix go (l : list expr) : Forall P l :=
            match l with [] => Forall_nil P | a :: r => Forall_cons a (expr_ind' a) (go r) end) opts)
  | EIte c a b => HIte c a b (expr_ind' c) (expr_ind' a) (expr_ind' b)
  | EAttr a f => HAttr a f (expr_ind' a)
  | EOffset => HOff
  | ERawLen => HRaw
  end.
End ExprInd.

Fixpoint eval_list (cx : ectx) (es : list expr) : res (list value) :=
  match es with
  | [] => Ok []
  | a :: r => match eval cx a with
              | Ok y => match eval_list cx r with Ok ys => Ok (y :: ys) | Exn x => Exn x end
              | Exn x => Exn x
              end
  end.

Lemma eval_list_fix (cx : ectx) (es : list expr) :
  (fix go (es : list expr) : res (list value) :=
     match es with
     | [] => Ok []
     | a :: r => do y <- eval cx a; do ys <- go r; Ok (y :: ys)
     end) es = eval_list cx es.
Proof.
  induction es as [|a r IH]; [reflexivity|]. cbn [eval_list]. rewrite <- IH.
  destruct (eval cx a); reflexivity.
Qed.

Lemma eval_choose (cx : ectx) (sel : expr) (opts : list expr) :
  eval cx (EChoose sel opts) =
  match eval cx sel with
  | Ok s => match eval_list cx opts with Ok vs => apply_bop GetItem (VTuple vs) s | Exn x => Exn x end
  | Exn x => Exn x
  end.
Proof.
  cbn [eval]. destruct (eval cx sel) as [s|x]; cbn [bind]; [|reflexivity].
  rewrite eval_list_fix. destruct (eval_list cx opts); reflexivity.
Qed.

Lemma eval_chooseD (cx : ectx) (sel : expr) (keys : list value) (opts : list expr) :
  eval cx (EChooseD sel keys opts) =
  match eval cx sel with
  | Ok s => match eval_list cx opts with Ok vs => apply_bop GetItem (VDict keys vs) s | Exn x => Exn x end
  | Exn x => Exn x
  end.
Proof.
  cbn [eval]. destruct (eval cx sel) as [s|x]; cbn [bind]; [|reflexivity].
  rewrite eval_list_fix. destruct (eval_list cx opts); reflexivity.
Qed.

Lemma slot_get_in : forall s f v, slot_get s f = Some v -> exists g, In (g, v) s.
Proof.
  induction s as [|[g w] r IH]; intros f v H; cbn [slot_get] in H; [discriminate H|].
  destruct (fname_eqb f g).
  - injection H as <-. exists g. left. reflexivity.
  - destruct (IH _ _ H) as (g' & Hin). exists g'. right. exact Hin.
Qed.

Lemma py_index_in {A : Type} : forall (l : list A) i v, py_index l i = Some v -> In v l.
Proof.
  intros l i v H. unfold py_index in H.
  destruct (_ && _); [|discriminate H]. exact (nth_error_In _ _ H).
Qed.

Lemma dict_lookup_in : forall ks vs k v, dict_lookup ks vs k = Some v -> In v vs.
Proof.
  induction ks as [|k' kr IH]; intros vs k v H; cbn [dict_lookup] in H; [discriminate H|].
  destruct vs as [|w vr]; [discriminate H|].
  destruct (value_eqb k k'); [injection H as <-; left; reflexivity|right; exact (IH _ _ _ H)].
Qed.

(* ------------------------------------------------------------------------------------------ *)
(* an abstract "deep" predicate on expressions / values / leaves: what expr_local and          *)
(* expr_closed have in common                                                                  *)
(* ------------------------------------------------------------------------------------------ *)

Section Deep.
Variable el : expr -> bool.
Variable vl : value -> bool.
Variable ll : leaf -> bool.
Hypothesis el_lit : forall v, el (ELit v) = vl v.
Hypothesis el_un : forall o a, el (EUn o a) = el a.
Hypothesis el_bin : forall o l r, el (EBin o l r) = el l && el r.
Hypothesis el_choose : forall s opts, el (EChoose s opts) = el s && forallb el opts.
Hypothesis el_chooseD : forall s keys opts, el (EChooseD s keys opts) = el s && forallb el opts.
Hypothesis el_ite : forall c a b, el (EIte c a b) = el c && el a && el b.
Hypothesis el_attr : forall a f, el (EAttr a f) = el a.
Hypothesis el_rawlen : el ERawLen = false.
Hypothesis vl_int : forall z, vl (VInt z) = true.
Hypothesis vl_bool : forall b, vl (VBool b) = true.
Hypothesis vl_bytes : forall b, vl (VBytes b) = true.
Hypothesis vl_none : vl VNone = true.
Hypothesis vl_list : forall l, vl (VList l) = forallb vl l.
Hypothesis vl_tuple : forall l, vl (VTuple l) = forallb vl l.
Hypothesis vl_dict : forall ks vs, vl (VDict ks vs) = forallb vl vs.
Hypothesis vl_pkt : forall c s, vl (VPkt c s) = forallb (fun p => vl (snd p)) s.
Hypothesis vl_leaf : forall l, vl (VLeaf l) = ll l.

Definition slots_ok (s : slots) : Prop := forallb (fun p => vl (snd p)) s = true.

(* -- evaluation only depends on what the predicate lets it see -- *)
Lemma eval_indep : forall cx cx', e_slots cx = e_slots cx' ->
  (el EOffset = true -> e_offset cx = e_offset cx') ->
  forall e, el e = true -> eval cx e = eval cx' e.
Proof.
  intros cx cx' Hs Ho.
  assert (forall opts, Forall (fun e => el e = true -> eval cx e = eval cx' e) opts -> forallb el opts = true ->
          eval_list cx opts = eval_list cx' opts) as Hlist.
  { induction opts as [|a r IH]; intros HF Hall; [reflexivity|].
    inversion HF as [|a' r' Ha Hr]; subst. cbn [forallb] in Hall. apply andb_true_iff in Hall.
    cbn [eval_list]. rewrite (Ha (proj1 Hall)), (IH Hr (proj2 Hall)). reflexivity. }
  induction e using expr_ind'; intros He.
  - reflexivity.
  - cbn [eval]. rewrite Hs. reflexivity.
  - rewrite el_un in He. cbn [eval]. rewrite (IHe He). reflexivity.
  - rewrite el_bin in He. apply andb_true_iff in He. cbn [eval]. rewrite (IHe1 (proj1 He)), (IHe2 (proj2 He)). reflexivity.
  - rewrite el_choose in He. apply andb_true_iff in He. rewrite !eval_choose.
    rewrite (IHe (proj1 He)), (Hlist _ H (proj2 He)). reflexivity.
  - rewrite el_chooseD in He. apply andb_true_iff in He. rewrite !eval_chooseD.
    rewrite (IHe (proj1 He)), (Hlist _ H (proj2 He)). reflexivity.
  - rewrite el_ite in He. apply andb_true_iff in He. destruct He as (He12 & He3).
    apply andb_true_iff in He12. cbn [eval]. rewrite (IHe1 (proj1 He12)), (IHe2 (proj2 He12)), (IHe3 He3). reflexivity.
  - rewrite el_attr in He. cbn [eval]. rewrite (IHe He). reflexivity.
  - cbn [eval]. rewrite (Ho He). reflexivity.
  - rewrite el_rawlen in He. discriminate He.
Qed.

Lemma eval_int_indep : forall cx cx' e, e_slots cx = e_slots cx' ->
  (el EOffset = true -> e_offset cx = e_offset cx') -> el e = true -> eval_int cx e = eval_int cx' e.
Proof. intros cx cx' e Hs Ho He. unfold eval_int. rewrite (eval_indep cx cx' Hs Ho e He). reflexivity. Qed.

(* -- values built by evaluation satisfy the predicate -- *)
Lemma slot_get_ok : forall s f v, slots_ok s -> slot_get s f = Some v -> vl v = true.
Proof.
  intros s f v Hs H. destruct (slot_get_in _ _ _ H) as (g & Hin).
  unfold slots_ok in Hs. rewrite forallb_forall in Hs. exact (Hs _ Hin).
Qed.

Lemma int_bop_ok : forall o x y v, int_bop o x y = Ok v -> vl v = true.
Proof.
  intros o x y v H. destruct o; cbn [int_bop] in H;
    repeat match type of H with (if ?c then _ else _) = _ => destruct c end;
    try discriminate H; injection H as <-; auto.
Qed.

Lemma apply_bop_ok : forall o a b v, vl a = true -> vl b = true -> apply_bop o a b = Ok v -> vl v = true.
Proof.
  intros o a b v Ha Hb H.
  assert (forall l, forallb vl l = true -> match as_int b with
                     | Some i => match py_index l i with Some v => Ok v | None => Exn IndexError end
                     | None => Exn TypeError end = Ok v -> vl v = true) as Hidx.
  { intros l Hl Hx. destruct (as_int b) as [i|]; [|discriminate Hx].
    destruct (py_index l i) as [w|] eqn:E; [|discriminate Hx]. injection Hx as <-.
    rewrite forallb_forall in Hl. exact (Hl _ (py_index_in _ _ _ E)). }
  assert (match a, b with
          | VBool x, VBool y => match bool_bop o x y with
                                | Some v => Ok v
                                | None => int_bop o (if x then 1 else 0) (if y then 1 else 0)
                                end
          | _, _ => match as_int a, as_int b with Some x, Some y => int_bop o x y | _, _ => Exn TypeError end
          end = Ok v -> vl v = true) as Harith.
  { clear H. intros H.
    assert (match as_int a, as_int b with Some x, Some y => int_bop o x y | _, _ => Exn TypeError end = Ok v ->
            vl v = true) as Hi.
    { intros Hx. destruct (as_int a); [|discriminate Hx]. destruct (as_int b); [|discriminate Hx].
      exact (int_bop_ok _ _ _ _ Hx). }
    destruct a; try exact (Hi H). destruct b; try exact (Hi H).
    destruct (bool_bop o b0 b) as [w|] eqn:B; [|exact (int_bop_ok _ _ _ _ H)].
    injection H as <-. destruct o; cbn [bool_bop] in B; try discriminate B; injection B as <-; apply vl_bool. }
  destruct o; try exact (Harith H); cbn [apply_bop] in H.
  - injection H as <-. apply vl_bool.
  - injection H as <-. apply vl_bool.
  - destruct a as [| |bs| |l|l|ks vs| | |]; try discriminate H.
    + destruct (as_int b) as [i|]; [|discriminate H]. destruct (py_index bs i); [|discriminate H].
      injection H as <-. apply vl_int.
    + rewrite vl_list in Ha. exact (Hidx l Ha H).
    + rewrite vl_tuple in Ha. exact (Hidx l Ha H).
    + rewrite vl_dict in Ha. destruct (dict_lookup ks vs b) as [w|] eqn:E; [|discriminate H].
      injection H as <-. rewrite forallb_forall in Ha. exact (Ha _ (dict_lookup_in _ _ _ _ E)).
Qed.

Lemma apply_uop_ok : forall o a v, apply_uop o a = Ok v -> vl v = true.
Proof.
  intros o a v H. destruct o; cbn [apply_uop] in H.
  - destruct (as_int a); [|discriminate H]. injection H as <-. apply vl_int.
  - destruct (as_int a); [|discriminate H]. injection H as <-. apply vl_int.
  - injection H as <-. apply vl_bool.
  - destruct a; try discriminate H; injection H as <-; apply vl_int.
Qed.

Lemma eval_ok : forall cx, slots_ok (e_slots cx) -> forall e v, el e = true -> eval cx e = Ok v -> vl v = true.
Proof.
  intros cx Hs.
  assert (forall opts, Forall (fun e => forall v, el e = true -> eval cx e = Ok v -> vl v = true) opts ->
          forallb el opts = true -> forall vs, eval_list cx opts = Ok vs -> forallb vl vs = true) as Hlist.
  { induction opts as [|a r IH]; intros HF Hall vs Hv; cbn [eval_list] in Hv.
    - injection Hv as <-. reflexivity.
    - inversion HF as [|a' r' Ha Hr]; subst. cbn [forallb] in Hall. apply andb_true_iff in Hall.
      destruct (eval cx a) as [y|] eqn:Ey; [|discriminate Hv].
      destruct (eval_list cx r) as [ys|] eqn:Eys; [|discriminate Hv]. injection Hv as <-.
      cbn [forallb]. rewrite (Ha y (proj1 Hall) eq_refl), (IH Hr (proj2 Hall) ys eq_refl). reflexivity. }
  induction e using expr_ind'; intros w He Hv.
  - cbn [eval] in Hv. injection Hv as <-. rewrite <- el_lit. exact He.
  - cbn [eval] in Hv. destruct (slot_get (e_slots cx) f) as [x|] eqn:G; [|discriminate Hv].
    injection Hv as <-. exact (slot_get_ok _ _ _ Hs G).
  - cbn [eval] in Hv. destruct (eval cx e) as [x|]; [|discriminate Hv]. exact (apply_uop_ok _ _ _ Hv).
  - rewrite el_bin in He. apply andb_true_iff in He. cbn [eval] in Hv.
    destruct (eval cx e1) as [x|]; [|discriminate Hv]. destruct (eval cx e2) as [y|]; [|discriminate Hv].
    cbn [bind] in Hv. exact (apply_bop_ok _ _ _ _ (IHe1 x (proj1 He) eq_refl) (IHe2 y (proj2 He) eq_refl) Hv).
  - rewrite el_choose in He. apply andb_true_iff in He. rewrite eval_choose in Hv.
    destruct (eval cx e) as [x|]; [|discriminate Hv]. destruct (eval_list cx opts) as [vs|] eqn:Evs; [|discriminate Hv].
    refine (apply_bop_ok _ _ _ _ _ (IHe x (proj1 He) eq_refl) Hv).
    rewrite vl_tuple. exact (Hlist _ H (proj2 He) vs Evs).
  - rewrite el_chooseD in He. apply andb_true_iff in He. rewrite eval_chooseD in Hv.
    destruct (eval cx e) as [x|]; [|discriminate Hv]. destruct (eval_list cx opts) as [vs|] eqn:Evs; [|discriminate Hv].
    refine (apply_bop_ok _ _ _ _ _ (IHe x (proj1 He) eq_refl) Hv).
    rewrite vl_dict. exact (Hlist _ H (proj2 He) vs Evs).
  - rewrite el_ite in He. apply andb_true_iff in He. destruct He as (He12 & He3). apply andb_true_iff in He12.
    cbn [eval] in Hv. destruct (eval cx e1) as [cv|]; [|discriminate Hv].
    destruct (eval cx e2) as [x|]; [|discriminate Hv]. destruct (eval cx e3) as [y|]; [|discriminate Hv].
    cbn [bind] in Hv. injection Hv as <-.
    destruct (truth cv); [exact (IHe2 x (proj2 He12) eq_refl)|exact (IHe3 y He3 eq_refl)].
  - rewrite el_attr in He. cbn [eval] in Hv. destruct (eval cx e) as [x|]; [|discriminate Hv]. cbn [bind] in Hv.
    destruct x as [| | | | | | |c s| |]; try discriminate Hv.
    destruct (slot_get s f) as [y|] eqn:G; [|discriminate Hv]. injection Hv as <-.
    specialize (IHe _ He eq_refl). rewrite vl_pkt in IHe. exact (slot_get_ok _ _ _ IHe G).
  - cbn [eval] in Hv. destruct (e_offset cx); [|discriminate Hv]. injection Hv as <-. apply vl_int.
  - cbn [eval] in Hv. destruct (e_rawlen cx); [|discriminate Hv]. injection Hv as <-. apply vl_int.
Qed.

(* -- parsed values satisfy the predicate (they contain no Field instance at all) -- *)
Lemma slot_set_ok : forall s f v, slots_ok s -> vl v = true -> slots_ok (slot_set s f v).
Proof.
  unfold slots_ok. induction s as [|[g w] r IH]; intros f v Hs Hv; cbn [slot_set forallb snd].
  - rewrite Hv. reflexivity.
  - cbn [forallb snd] in Hs. apply andb_true_iff in Hs. destruct Hs as (Hw & Hr).
    destruct (fname_eqb f g); cbn [forallb snd].
    + rewrite Hv, Hr. reflexivity.
    + rewrite Hw, (IH f v Hr Hv). reflexivity.
Qed.

Lemma elem_value_ok : forall s n, slots_ok s -> vl (elem_value s n) = true.
Proof.
  intros s n Hs. unfold elem_value. destruct (slot_get s n) as [v|] eqn:G; [exact (slot_get_ok _ _ _ Hs G)|apply vl_none].
Qed.

Lemma append_to_ok : forall s n v, slots_ok s -> vl v = true -> slots_ok (append_to s n v).
Proof.
  intros s n v Hs Hv. unfold append_to. destruct (slot_get s n) as [w|] eqn:G; [|exact Hs].
  destruct w; try exact Hs. apply slot_set_ok; [exact Hs|].
  pose proof (slot_get_ok _ _ _ Hs G) as Hl. rewrite vl_list in *.
  rewrite forallb_app, Hl. cbn [forallb]. rewrite Hv. reflexivity.
Qed.

Lemma struct_unpack_slots : forall ms chunk off s s' t, slots_ok s -> struct_unpack ms chunk off s = (s', t) -> slots_ok s'.
Proof.
  induction ms as [|m r IH]; intros chunk off s s' t Hs H; cbn [struct_unpack] in H.
  - injection H as <- <-. exact Hs.
  - match type of H with (let '(_, _) := struct_unpack r ?ch ?o ?s0 in _) = _ =>
      destruct (struct_unpack r ch o s0) as [s1 t1] eqn:R; assert (slots_ok s0) as Hs0 end.
    { apply slot_set_ok; [exact Hs|]. destruct m; [destruct (decode _ _ _ _)|]; auto. }
    injection H as <- <-. exact (IH _ _ _ _ _ Hs0 R).
Qed.

Section Pass.
Variable host : bool.
Variable raw : bytes.
Variable rec_unpack : cid -> Z -> pres.
Variable loop_fuel : nat.
Hypothesis Hrecv : forall c o v e t, rec_unpack c o = POk v e t -> vl v = true.

Lemma unpack_leaf_vl : forall cf c name l s off v o' t,
  unpack_leaf host raw cf c name l s off = Ok (v, o', t) -> vl v = true.
Proof.
  intros cf c name l s off v o' t H. destruct l; cbn [unpack_leaf] in H.
  - destruct (int_unpack _ _ _ _ _) as [[x o1]|]; [|discriminate H]. injection H as <- <- <-. apply vl_int.
  - unfold bind in H. destruct (eval_int _ _); [|discriminate H].
    destruct (data_sized _ _ _) as [[x o1]|]; [|discriminate H]. injection H as <- <- <-. apply vl_bytes.
  - destruct (data_marker _ _ _ _ _) as [[x o1]|]; [|discriminate H]. injection H as <- <- <-. apply vl_bytes.
  - destruct (data_regex _ _ _ _ _) as [[[x o1] dd]|]; [|discriminate H]. injection H as <- <- <-. apply vl_bytes.
  - destruct (data_eos raw off) as [x o1]. injection H as <- <- <-. apply vl_bytes.
Qed.

Lemma unpack_elem_slots : forall cf c name e s off s' o' t, slots_ok s ->
  unpack_elem host raw rec_unpack cf c name e s off = FOk s' o' t -> slots_ok s'.
Proof.
  intros cf c name e s off s' o' t Hs H.
  assert (forall c', match rec_unpack c' off with
                     | POk v o1 t1 => FOk (slot_set s name v) o1 t1
                     | PFail st => FFail st
                     | PFuel => FFuel
                     end = FOk s' o' t -> slots_ok s') as Hr.
  { intros c' Hx. destruct (rec_unpack c' off) as [v o1 t1| |] eqn:E; try discriminate Hx.
    injection Hx as <- <- <-. apply slot_set_ok; [exact Hs|exact (Hrecv _ _ _ _ _ E)]. }
  assert (forall cf l, match unpack_leaf host raw cf c name l s off with
                    | Ok (v, o1, t1) => FOk (slot_set s name v) o1 t1
                    | Exn x => FExn x
                    end = FOk s' o' t -> slots_ok s') as Hl.
  { intros cf0 l Hx. destruct (unpack_leaf host raw cf0 c name l s off) as [[[v o1] t1]|] eqn:E; [|discriminate Hx].
    injection Hx as <- <- <-. apply slot_set_ok; [exact Hs|exact (unpack_leaf_vl _ _ _ _ _ _ _ _ _ E)]. }
  destruct e as [l|c' proto|sel dflt]; cbn [unpack_elem] in H.
  - exact (Hl _ _ H).
  - exact (Hr _ H).
  - destruct (eval (mkctx raw s off) sel) as [v|x]; [|discriminate H].
    destruct v; try discriminate H; [exact (Hr _ H)|exact (Hr _ H)|exact (Hl _ _ H)].
Qed.

Lemma unpack_count_slots : forall cf c i e al k s off t s' o' t', slots_ok s ->
  unpack_count host raw rec_unpack cf c i e al k s off t = FOk s' o' t' -> slots_ok s'.
Proof.
  intros cf c i e al. induction k as [|k IH]; intros s off t s' o' t' Hs H; cbn [unpack_count] in H.
  - injection H as <- <- <-. exact Hs.
  - destruct (seq_align al off) as [o1|]; [|discriminate H].
    destruct (unpack_elem host raw rec_unpack cf c (FSeqElem i) e s o1) as [s1 o2 t1| | |] eqn:E; try discriminate H.
    pose proof (unpack_elem_slots _ _ _ _ _ _ _ _ _ Hs E) as Hs1.
    apply IH in H; [exact H|]. apply append_to_ok; [exact Hs1|apply elem_value_ok; exact Hs1].
Qed.

Lemma unpack_until_slots : forall cf c i e al until fuel s off t s' o' t', slots_ok s ->
  unpack_until host raw rec_unpack fuel cf c i e al until s off t = FOk s' o' t' -> slots_ok s'.
Proof.
  intros cf c i e al until. induction fuel as [|fuel IH]; intros s off t s' o' t' Hs H; cbn [unpack_until] in H.
  - destruct (eval (mkctx raw s off) until) as [v|x]; [|discriminate H].
    destruct (truth v); [|discriminate H]. injection H as <- <- <-. exact Hs.
  - destruct (eval (mkctx raw s off) until) as [v|x]; [|discriminate H].
    destruct (truth v); [injection H as <- <- <-; exact Hs|].
    destruct (seq_align al off) as [o1|]; [|discriminate H].
    destruct (unpack_elem host raw rec_unpack cf c (FSeqElem i) e s o1) as [s1 o2 t1| | |] eqn:E; try discriminate H.
    pose proof (unpack_elem_slots _ _ _ _ _ _ _ _ _ Hs E) as Hs1.
    apply IH in H; [exact H|]. apply append_to_ok; [exact Hs1|apply elem_value_ok; exact Hs1].
Qed.

Lemma unpack_field_slots : forall cf c f s off ipp s' o' t, slots_ok s ->
  unpack_field host raw rec_unpack loop_fuel cf c f s off ipp = FOk s' o' t -> slots_ok s'.
Proof.
  intros cf c f s off ipp s' o' t Hs H.
  destruct f as [i arg rf al|i e|i first last run0 shift mask nbytes dflt|i e count until when dflt al|i e when dflt|i];
    cbn [unpack_field] in H.
  - match type of H with match ?m with Ok _ => _ | Exn _ => _ end = _ => destruct m as [z|x] end; [|discriminate H].
    destruct (al && (z =? 0)); [discriminate H|].
    destruct (move_unpack al rf z off ipp) as [o1|]; [|discriminate H]. injection H as <- <- <-. exact Hs.
  - exact (unpack_elem_slots _ _ _ _ _ _ _ _ _ Hs H).
  - destruct first.
    + destruct (int_unpack nbytes false true raw off) as [[x o1]|]; [|discriminate H].
      destruct (slot_get _ (FBitsI run0)) as [[]|]; try discriminate H.
      injection H as <- <- <-. apply slot_set_ok; [apply slot_set_ok; [exact Hs|apply vl_int]|apply vl_int].
    + destruct (slot_get s (FBitsI run0)) as [[]|]; try discriminate H.
      injection H as <- <- <-. apply slot_set_ok; [exact Hs|apply vl_int].
  - assert (slots_ok (slot_set s (FN i) (VList []))) as Hs0 by (apply slot_set_ok; [exact Hs|rewrite vl_list; reflexivity]).
    match type of H with match ?m with Ok _ => _ | Exn _ => _ end = _ => destruct m as [n|x] end; [|discriminate H].
    match type of H with match ?m with Ok _ => _ | Exn _ => _ end = _ => destruct m as [[|]|x] end; [| |discriminate H].
    + injection H as <- <- <-. exact Hs0.
    + destruct (unpack_count host raw rec_unpack cf c i e al (Z.to_nat n) _ off []) as [s1 o1 t1| | |] eqn:C;
        try discriminate H.
      apply unpack_count_slots in C; [|exact Hs0].
      destruct until as [u|].
      * exact (unpack_until_slots _ _ _ _ _ _ _ _ _ _ _ _ _ C H).
      * injection H as <- <- <-. exact C.
  - destruct (eval (mkctx raw s off) when) as [v|x]; [|discriminate H].
    destruct (truth v).
    + destruct (unpack_elem host raw rec_unpack cf c (FOptElem i) e s off) as [s1 o1 t1| | |] eqn:E; try discriminate H.
      injection H as <- <- <-. pose proof (unpack_elem_slots _ _ _ _ _ _ _ _ _ Hs E) as Hs1.
      apply slot_set_ok; [exact Hs1|apply elem_value_ok; exact Hs1].
    + injection H as <- <- <-. apply slot_set_ok; [exact Hs|apply vl_none].
  - injection H as <- <- <-. exact Hs.
Qed.

Lemma unpack_fields_vl : forall cf c fs s off ipp t v e t', slots_ok s ->
  unpack_fields host raw rec_unpack loop_fuel cf c fs s off ipp t = POk v e t' -> vl v = true.
Proof.
  intros cf c. induction fs as [|f r IH]; intros s off ipp t v e t' Hs H; cbn [unpack_fields] in H.
  - injection H as <- <- <-. rewrite vl_pkt. exact Hs.
  - destruct (unpack_field host raw rec_unpack loop_fuel cf c f s off ipp) as [s1 o1 t1| | |] eqn:E; try discriminate H.
    exact (IH _ _ _ _ _ _ _ (unpack_field_slots _ _ _ _ _ _ _ _ _ Hs E) H).
Qed.

Lemma unpack_blocks_vl : forall cf c bs s off ipp t v e t', slots_ok s ->
  unpack_blocks host raw rec_unpack loop_fuel cf c bs s off ipp t = POk v e t' -> vl v = true.
Proof.
  intros cf c. induction bs as [|b r IH]; intros s off ipp t v e t' Hs H; cbn [unpack_blocks] in H.
  - injection H as <- <- <-. rewrite vl_pkt. exact Hs.
  - destruct b as [big ms|f].
    + destruct (blen _ =? run_size ms); [|discriminate H].
      destruct (struct_unpack ms _ off s) as [s1 t1] eqn:S.
      exact (IH _ _ _ _ _ _ _ (struct_unpack_slots _ _ _ _ _ _ Hs S) H).
    + destruct (unpack_field host raw rec_unpack loop_fuel cf c f s off ipp) as [s1 o1 t1| | |] eqn:E; try discriminate H.
      exact (IH _ _ _ _ _ _ _ (unpack_field_slots _ _ _ _ _ _ _ _ _ Hs E) H).
Qed.
End Pass.

Lemma slots_ok_nil : slots_ok [].
Proof. reflexivity. Qed.

Lemma unpack_any_vl : forall host ct raw fuel c off v e t, unpack_any fuel host ct raw c off = POk v e t -> vl v = true.
Proof.
  intros host ct raw. induction fuel as [|fuel IH]; intros c off v e t H; cbn [unpack_any] in H; [discriminate H|].
  destruct (ct_get ct c) as [k|]; [|discriminate H]. destruct (cc_gen_unpack k).
  - exact (unpack_blocks_vl _ _ _ _ IH _ _ _ _ _ _ _ _ _ _ slots_ok_nil H).
  - exact (unpack_fields_vl _ _ _ _ IH _ _ _ _ _ _ _ _ _ _ slots_ok_nil H).
Qed.

Lemma unpack_pkt_vl : forall host ct raw fuel c off v e t, unpack_pkt fuel host ct raw c off = POk v e t -> vl v = true.
Proof.
  intros host ct raw. induction fuel as [|fuel IH]; intros c off v e t H; cbn [unpack_pkt] in H; [discriminate H|].
  destruct (ct_get ct c) as [k|]; [|discriminate H].
  exact (unpack_fields_vl _ _ _ _ IH _ _ _ _ _ _ _ _ _ _ slots_ok_nil H).
Qed.
End Deep.
