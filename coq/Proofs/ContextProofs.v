(* Proofs/ContextProofs.v -- context independence of the parsing interpreters: for "local" declarations
   parsing  pre ++ raw  at  blen pre + off  is parsing  raw  at  off  with every position shifted; appending
   bytes after the input never changes a successful parse of a "closed" declaration.
   Stdlib only, no axioms. *)
From Coq Require Import ZArith List Bool Lia.
From Bisturi Require Import Base.Bytes Kernel.IntCodec Kernel.Align Kernel.BitsK Kernel.DataK Kernel.Frag
  Model.Value Model.Decl Model.Unpack Model.Pack Model.Init Model.Codegen Model.Wf
  Proofs.IntCodecProofs Proofs.DataProofs Proofs.AlignProofs Proofs.StrictProofs.
Import ListNotations. Open Scope Z_scope.

Definition shift_item (d : Z) (x : titem) : titem :=
  match x with TChunk p b => TChunk (p + d) b | TMove p => TMove (p + d) | TDelim c f b => TDelim c f b end.
Definition shift_stack (d : Z) (st : stack) : stack := map (fun '(o, f, c) => (o + d, f, c)) st.
Definition shift_pres (d : Z) (r : pres) : pres :=
  match r with
  | POk v e t => POk v (e + d) (map (shift_item d) t)
  | PFail st => PFail (shift_stack d st)
  | PFuel => PFuel
  end.
Definition shift_fres (d : Z) (r : fres) : fres :=
  match r with
  | FOk s o t => FOk s (o + d) (map (shift_item d) t)
  | FExn x => FExn x
  | FFail st => FFail (shift_stack d st)
  | FFuel => FFuel
  end.

(* ------------------------------------------------------------------------------------------ *)
(* expressions: an induction principle that does not look inside literal values, eval unfolded *)
(* ------------------------------------------------------------------------------------------ *)

Section ExprInd.
Variable P : expr -> Prop.
Hypothesis HLit : forall v, P (ELit v).
Hypothesis HField : forall f, P (EField f).
Hypothesis HUn : forall o a, P a -> P (EUn o a).
Hypothesis HBin : forall o l r, P l -> P r -> P (EBin o l r).
Hypothesis HChoose : forall s opts, P s -> Forall P opts -> P (EChoose s opts).
Hypothesis HChooseD : forall s keys opts, P s -> Forall P opts -> P (EChooseD s keys opts).
Hypothesis HIte : forall c a b, P c -> P a -> P b -> P (EIte c a b).
Hypothesis HAttr : forall a f, P a -> P (EAttr a f).
Hypothesis HOff : P EOffset.
Hypothesis HRaw : P ERawLen.
Fixpoint expr_ind' (e : expr) : P e :=
  match e with
  | ELit v => HLit v
  | EField f => HField f
  | EUn o a => HUn o a (expr_ind' a)
  | EBin o l r => HBin o l r (expr_ind' l) (expr_ind' r)
  | EChoose s opts =>
      HChoose s opts (expr_ind' s)
        ((fix go (l : list expr) : Forall P l :=
            match l with [] => Forall_nil P | a :: r => Forall_cons a (expr_ind' a) (go r) end) opts)
  | EChooseD s keys opts =>
      HChooseD s keys opts (expr_ind' s)
        ((fix go (l : list expr) : Forall P l :=
            match l with [] => Forall_nil P | a :: r => Forall_cons a (expr_ind' a) (go r) end) opts)
  | EIte c a b => HIte c a b (expr_ind' c) (expr_ind' a) (expr_ind' b)
  | EAttr a f => HAttr a f (expr_ind' a)
  | EOffset => HOff
  | ERawLen => HRaw
  end.
End ExprInd.

Fixpoint eval_list (cx : ectx) (es : list expr) : res (list value) :=
  match es with
  | [] => Ok []
  | a :: r => match eval cx a with
              | Ok y => match eval_list cx r with Ok ys => Ok (y :: ys) | Exn x => Exn x end
              | Exn x => Exn x
              end
  end.

Lemma eval_list_fix (cx : ectx) (es : list expr) :
  (fix go (es : list expr) : res (list value) :=
     match es with
     | [] => Ok []
     | a :: r => do y <- eval cx a; do ys <- go r; Ok (y :: ys)
     end) es = eval_list cx es.
Proof.
  induction es as [|a r IH]; [reflexivity|]. cbn [eval_list]. rewrite <- IH.
  destruct (eval cx a); reflexivity.
Qed.

Lemma eval_choose (cx : ectx) (sel : expr) (opts : list expr) :
  eval cx (EChoose sel opts) =
  match eval cx sel with
  | Ok s => match eval_list cx opts with Ok vs => apply_bop GetItem (VTuple vs) s | Exn x => Exn x end
  | Exn x => Exn x
  end.
Proof.
  cbn [eval]. destruct (eval cx sel) as [s|x]; cbn [bind]; [|reflexivity].
  rewrite eval_list_fix. destruct (eval_list cx opts); reflexivity.
Qed.

Lemma eval_chooseD (cx : ectx) (sel : expr) (keys : list value) (opts : list expr) :
  eval cx (EChooseD sel keys opts) =
  match eval cx sel with
  | Ok s => match eval_list cx opts with Ok vs => apply_bop GetItem (VDict keys vs) s | Exn x => Exn x end
  | Exn x => Exn x
  end.
Proof.
  cbn [eval]. destruct (eval cx sel) as [s|x]; cbn [bind]; [|reflexivity].
  rewrite eval_list_fix. destruct (eval_list cx opts); reflexivity.
Qed.

Lemma slot_get_in : forall s f v, slot_get s f = Some v -> exists g, In (g, v) s.
Proof.
  induction s as [|[g w] r IH]; intros f v H; cbn [slot_get] in H; [discriminate H|].
  destruct (fname_eqb f g).
  - injection H as <-. exists g. left. reflexivity.
  - destruct (IH _ _ H) as (g' & Hin). exists g'. right. exact Hin.
Qed.

Lemma py_index_in {A : Type} : forall (l : list A) i v, py_index l i = Some v -> In v l.
Proof.
  intros l i v H. unfold py_index in H.
  destruct (_ && _); [|discriminate H]. exact (nth_error_In _ _ H).
Qed.

Lemma dict_lookup_in : forall ks vs k v, dict_lookup ks vs k = Some v -> In v vs.
Proof.
  induction ks as [|k' kr IH]; intros vs k v H; cbn [dict_lookup] in H; [discriminate H|].
  destruct vs as [|w vr]; [discriminate H|].
  destruct (value_eqb k k'); [injection H as <-; left; reflexivity|right; exact (IH _ _ _ H)].
Qed.

(* ------------------------------------------------------------------------------------------ *)
(* an abstract "deep" predicate on expressions / values / leaves: what expr_local and          *)
(* expr_closed have in common                                                                  *)
(* ------------------------------------------------------------------------------------------ *)

Section Deep.
Variable el : expr -> bool.
Variable vl : value -> bool.
Variable ll : leaf -> bool.
Hypothesis el_lit : forall v, el (ELit v) = vl v.
Hypothesis el_un : forall o a, el (EUn o a) = el a.
Hypothesis el_bin : forall o l r, el (EBin o l r) = el l && el r.
Hypothesis el_choose : forall s opts, el (EChoose s opts) = el s && forallb el opts.
Hypothesis el_chooseD : forall s keys opts, el (EChooseD s keys opts) = el s && forallb el opts.
Hypothesis el_ite : forall c a b, el (EIte c a b) = el c && el a && el b.
Hypothesis el_attr : forall a f, el (EAttr a f) = el a.
Hypothesis el_rawlen : el ERawLen = false.
Hypothesis vl_int : forall z, vl (VInt z) = true.
Hypothesis vl_bool : forall b, vl (VBool b) = true.
Hypothesis vl_bytes : forall b, vl (VBytes b) = true.
Hypothesis vl_none : vl VNone = true.
Hypothesis vl_list : forall l, vl (VList l) = forallb vl l.
Hypothesis vl_tuple : forall l, vl (VTuple l) = forallb vl l.
Hypothesis vl_dict : forall ks vs, vl (VDict ks vs) = forallb vl vs.
Hypothesis vl_pkt : forall c s, vl (VPkt c s) = forallb (fun p => vl (snd p)) s.
Hypothesis vl_leaf : forall l, vl (VLeaf l) = ll l.

Definition slots_ok (s : slots) : Prop := forallb (fun p => vl (snd p)) s = true.

(* -- evaluation only depends on what the predicate lets it see -- *)
Lemma eval_indep : forall cx cx', e_slots cx = e_slots cx' ->
  (el EOffset = true -> e_offset cx = e_offset cx') ->
  forall e, el e = true -> eval cx e = eval cx' e.
Proof.
  intros cx cx' Hs Ho.
  assert (forall opts, Forall (fun e => el e = true -> eval cx e = eval cx' e) opts -> forallb el opts = true ->
          eval_list cx opts = eval_list cx' opts) as Hlist.
  { induction opts as [|a r IH]; intros HF Hall; [reflexivity|].
    inversion HF as [|a' r' Ha Hr]; subst. cbn [forallb] in Hall. apply andb_true_iff in Hall.
    cbn [eval_list]. rewrite (Ha (proj1 Hall)), (IH Hr (proj2 Hall)). reflexivity. }
  induction e using expr_ind'; intros He.
  - reflexivity.
  - cbn [eval]. rewrite Hs. reflexivity.
  - rewrite el_un in He. cbn [eval]. rewrite (IHe He). reflexivity.
  - rewrite el_bin in He. apply andb_true_iff in He. cbn [eval]. rewrite (IHe1 (proj1 He)), (IHe2 (proj2 He)). reflexivity.
  - rewrite el_choose in He. apply andb_true_iff in He. rewrite !eval_choose.
    rewrite (IHe (proj1 He)), (Hlist _ H (proj2 He)). reflexivity.
  - rewrite el_chooseD in He. apply andb_true_iff in He. rewrite !eval_chooseD.
    rewrite (IHe (proj1 He)), (Hlist _ H (proj2 He)). reflexivity.
  - rewrite el_ite in He. apply andb_true_iff in He. destruct He as (He12 & He3).
    apply andb_true_iff in He12. cbn [eval]. rewrite (IHe1 (proj1 He12)), (IHe2 (proj2 He12)), (IHe3 He3). reflexivity.
  - rewrite el_attr in He. cbn [eval]. rewrite (IHe He). reflexivity.
  - cbn [eval]. rewrite (Ho He). reflexivity.
  - rewrite el_rawlen in He. discriminate He.
Qed.

Lemma eval_int_indep : forall cx cx' e, e_slots cx = e_slots cx' ->
  (el EOffset = true -> e_offset cx = e_offset cx') -> el e = true -> eval_int cx e = eval_int cx' e.
Proof. intros cx cx' e Hs Ho He. unfold eval_int. rewrite (eval_indep cx cx' Hs Ho e He). reflexivity. Qed.

(* -- values built by evaluation satisfy the predicate -- *)
Lemma slot_get_ok : forall s f v, slots_ok s -> slot_get s f = Some v -> vl v = true.
Proof.
  intros s f v Hs H. destruct (slot_get_in _ _ _ H) as (g & Hin).
  unfold slots_ok in Hs. rewrite forallb_forall in Hs. exact (Hs _ Hin).
Qed.

Lemma int_bop_ok : forall o x y v, int_bop o x y = Ok v -> vl v = true.
Proof.
  intros o x y v H. destruct o; cbn [int_bop] in H;
    repeat match type of H with (if ?c then _ else _) = _ => destruct c end;
    try discriminate H; injection H as <-; auto.
Qed.

Lemma apply_bop_ok : forall o a b v, vl a = true -> vl b = true -> apply_bop o a b = Ok v -> vl v = true.
Proof.
  intros o a b v Ha Hb H.
  assert (forall l, forallb vl l = true -> match as_int b with
                     | Some i => match py_index l i with Some v => Ok v | None => Exn IndexError end
                     | None => Exn TypeError end = Ok v -> vl v = true) as Hidx.
  { intros l Hl Hx. destruct (as_int b) as [i|]; [|discriminate Hx].
    destruct (py_index l i) as [w|] eqn:E; [|discriminate Hx]. injection Hx as <-.
    rewrite forallb_forall in Hl. exact (Hl _ (py_index_in _ _ _ E)). }
  assert (match a, b with
          | VBool x, VBool y => match bool_bop o x y with
                                | Some v => Ok v
                                | None => int_bop o (if x then 1 else 0) (if y then 1 else 0)
                                end
          | _, _ => match as_int a, as_int b with Some x, Some y => int_bop o x y | _, _ => Exn TypeError end
          end = Ok v -> vl v = true) as Harith.
  { clear H. intros H.
    assert (match as_int a, as_int b with Some x, Some y => int_bop o x y | _, _ => Exn TypeError end = Ok v ->
            vl v = true) as Hi.
    { intros Hx. destruct (as_int a); [|discriminate Hx]. destruct (as_int b); [|discriminate Hx].
      exact (int_bop_ok _ _ _ _ Hx). }
    destruct a; try exact (Hi H). destruct b; try exact (Hi H).
    destruct (bool_bop o b0 b) as [w|] eqn:B; [|exact (int_bop_ok _ _ _ _ H)].
    injection H as <-. destruct o; cbn [bool_bop] in B; try discriminate B; injection B as <-; apply vl_bool. }
  destruct o; try exact (Harith H); cbn [apply_bop] in H.
  - injection H as <-. apply vl_bool.
  - injection H as <-. apply vl_bool.
  - destruct a as [| |bs| |l|l|ks vs| | |]; try discriminate H.
    + destruct (as_int b) as [i|]; [|discriminate H]. destruct (py_index bs i); [|discriminate H].
      injection H as <-. apply vl_int.
    + rewrite vl_list in Ha. exact (Hidx l Ha H).
    + rewrite vl_tuple in Ha. exact (Hidx l Ha H).
    + rewrite vl_dict in Ha. destruct (dict_lookup ks vs b) as [w|] eqn:E; [|discriminate H].
      injection H as <-. rewrite forallb_forall in Ha. exact (Ha _ (dict_lookup_in _ _ _ _ E)).
Qed.

Lemma apply_uop_ok : forall o a v, apply_uop o a = Ok v -> vl v = true.
Proof.
  intros o a v H. destruct o; cbn [apply_uop] in H.
  - destruct (as_int a); [|discriminate H]. injection H as <-. apply vl_int.
  - destruct (as_int a); [|discriminate H]. injection H as <-. apply vl_int.
  - injection H as <-. apply vl_bool.
  - destruct a; try discriminate H; injection H as <-; apply vl_int.
Qed.

Lemma eval_ok : forall cx, slots_ok (e_slots cx) -> forall e v, el e = true -> eval cx e = Ok v -> vl v = true.
Proof.
  intros cx Hs.
  assert (forall opts, Forall (fun e => forall v, el e = true -> eval cx e = Ok v -> vl v = true) opts ->
          forallb el opts = true -> forall vs, eval_list cx opts = Ok vs -> forallb vl vs = true) as Hlist.
  { induction opts as [|a r IH]; intros HF Hall vs Hv; cbn [eval_list] in Hv.
    - injection Hv as <-. reflexivity.
    - inversion HF as [|a' r' Ha Hr]; subst. cbn [forallb] in Hall. apply andb_true_iff in Hall.
      destruct (eval cx a) as [y|] eqn:Ey; [|discriminate Hv].
      destruct (eval_list cx r) as [ys|] eqn:Eys; [|discriminate Hv]. injection Hv as <-.
      cbn [forallb]. rewrite (Ha y (proj1 Hall) eq_refl), (IH Hr (proj2 Hall) ys eq_refl). reflexivity. }
  induction e using expr_ind'; intros w He Hv.
  - cbn [eval] in Hv. injection Hv as <-. rewrite <- el_lit. exact He.
  - cbn [eval] in Hv. destruct (slot_get (e_slots cx) f) as [x|] eqn:G; [|discriminate Hv].
    injection Hv as <-. exact (slot_get_ok _ _ _ Hs G).
  - cbn [eval] in Hv. destruct (eval cx e) as [x|]; [|discriminate Hv]. exact (apply_uop_ok _ _ _ Hv).
  - rewrite el_bin in He. apply andb_true_iff in He. cbn [eval] in Hv.
    destruct (eval cx e1) as [x|]; [|discriminate Hv]. destruct (eval cx e2) as [y|]; [|discriminate Hv].
    cbn [bind] in Hv. exact (apply_bop_ok _ _ _ _ (IHe1 x (proj1 He) eq_refl) (IHe2 y (proj2 He) eq_refl) Hv).
  - rewrite el_choose in He. apply andb_true_iff in He. rewrite eval_choose in Hv.
    destruct (eval cx e) as [x|]; [|discriminate Hv]. destruct (eval_list cx opts) as [vs|] eqn:Evs; [|discriminate Hv].
    refine (apply_bop_ok _ _ _ _ _ (IHe x (proj1 He) eq_refl) Hv).
    rewrite vl_tuple. exact (Hlist _ H (proj2 He) vs Evs).
  - rewrite el_chooseD in He. apply andb_true_iff in He. rewrite eval_chooseD in Hv.
    destruct (eval cx e) as [x|]; [|discriminate Hv]. destruct (eval_list cx opts) as [vs|] eqn:Evs; [|discriminate Hv].
    refine (apply_bop_ok _ _ _ _ _ (IHe x (proj1 He) eq_refl) Hv).
    rewrite vl_dict. exact (Hlist _ H (proj2 He) vs Evs).
  - rewrite el_ite in He. apply andb_true_iff in He. destruct He as (He12 & He3). apply andb_true_iff in He12.
    cbn [eval] in Hv. destruct (eval cx e1) as [cv|]; [|discriminate Hv].
    destruct (eval cx e2) as [x|]; [|discriminate Hv]. destruct (eval cx e3) as [y|]; [|discriminate Hv].
    cbn [bind] in Hv. injection Hv as <-.
    destruct (truth cv); [exact (IHe2 x (proj2 He12) eq_refl)|exact (IHe3 y He3 eq_refl)].
  - rewrite el_attr in He. cbn [eval] in Hv. destruct (eval cx e) as [x|]; [|discriminate Hv]. cbn [bind] in Hv.
    destruct x as [| | | | | | |c s| |]; try discriminate Hv.
    destruct (slot_get s f) as [y|] eqn:G; [|discriminate Hv]. injection Hv as <-.
    specialize (IHe _ He eq_refl). rewrite vl_pkt in IHe. exact (slot_get_ok _ _ _ IHe G).
  - cbn [eval] in Hv. destruct (e_offset cx); [|discriminate Hv]. injection Hv as <-. apply vl_int.
  - cbn [eval] in Hv. destruct (e_rawlen cx); [|discriminate Hv]. injection Hv as <-. apply vl_int.
Qed.

(* -- parsed values satisfy the predicate (they contain no Field instance at all) -- *)
Lemma slot_set_ok : forall s f v, slots_ok s -> vl v = true -> slots_ok (slot_set s f v).
Proof.
  unfold slots_ok. induction s as [|[g w] r IH]; intros f v Hs Hv; cbn [slot_set forallb snd].
  - rewrite Hv. reflexivity.
  - cbn [forallb snd] in Hs. apply andb_true_iff in Hs. destruct Hs as (Hw & Hr).
    destruct (fname_eqb f g); cbn [forallb snd].
    + rewrite Hv, Hr. reflexivity.
    + rewrite Hw, (IH f v Hr Hv). reflexivity.
Qed.

Lemma elem_value_ok : forall s n, slots_ok s -> vl (elem_value s n) = true.
Proof.
  intros s n Hs. unfold elem_value. destruct (slot_get s n) as [v|] eqn:G; [exact (slot_get_ok _ _ _ Hs G)|apply vl_none].
Qed.

Lemma append_to_ok : forall s n v, slots_ok s -> vl v = true -> slots_ok (append_to s n v).
Proof.
  intros s n v Hs Hv. unfold append_to. destruct (slot_get s n) as [w|] eqn:G; [|exact Hs].
  destruct w; try exact Hs. apply slot_set_ok; [exact Hs|].
  pose proof (slot_get_ok _ _ _ Hs G) as Hl. rewrite vl_list in *.
  rewrite forallb_app, Hl. cbn [forallb]. rewrite Hv. reflexivity.
Qed.

Lemma struct_unpack_slots : forall ms chunk off s s' t, slots_ok s -> struct_unpack ms chunk off s = (s', t) -> slots_ok s'.
Proof.
  induction ms as [|m r IH]; intros chunk off s s' t Hs H; cbn [struct_unpack] in H.
  - injection H as <- <-. exact Hs.
  - match type of H with (let '(_, _) := struct_unpack r ?ch ?o ?s0 in _) = _ =>
      destruct (struct_unpack r ch o s0) as [s1 t1] eqn:R; assert (slots_ok s0) as Hs0 end.
    { apply slot_set_ok; [exact Hs|]. destruct m; [destruct (decode _ _ _ _)|]; auto. }
    injection H as <- <-. exact (IH _ _ _ _ _ Hs0 R).
Qed.

Section Pass.
Variable host : bool.
Variable raw : bytes.
Variable rec_unpack : cid -> Z -> pres.
Variable loop_fuel : nat.
Hypothesis Hrecv : forall c o v e t, rec_unpack c o = POk v e t -> vl v = true.

Lemma unpack_leaf_vl : forall cf c name l s off v o' t,
  unpack_leaf host raw cf c name l s off = Ok (v, o', t) -> vl v = true.
Proof.
  intros cf c name l s off v o' t H. destruct l; cbn [unpack_leaf] in H.
  - destruct (int_unpack _ _ _ _ _) as [[x o1]|]; [|discriminate H]. injection H as <- <- <-. apply vl_int.
  - unfold bind in H. destruct (eval_int _ _); [|discriminate H].
    destruct (data_sized _ _ _) as [[x o1]|]; [|discriminate H]. injection H as <- <- <-. apply vl_bytes.
  - destruct (data_marker _ _ _ _ _) as [[x o1]|]; [|discriminate H]. injection H as <- <- <-. apply vl_bytes.
  - destruct (data_regex _ _ _ _ _) as [[[x o1] dd]|]; [|discriminate H]. injection H as <- <- <-. apply vl_bytes.
  - destruct (data_eos raw off) as [x o1]. injection H as <- <- <-. apply vl_bytes.
Qed.

Lemma unpack_elem_slots : forall cf c name e s off s' o' t, slots_ok s ->
  unpack_elem host raw rec_unpack cf c name e s off = FOk s' o' t -> slots_ok s'.
Proof.
  intros cf c name e s off s' o' t Hs H.
  assert (forall c', match rec_unpack c' off with
                     | POk v o1 t1 => FOk (slot_set s name v) o1 t1
                     | PFail st => FFail st
                     | PFuel => FFuel
                     end = FOk s' o' t -> slots_ok s') as Hr.
  { intros c' Hx. destruct (rec_unpack c' off) as [v o1 t1| |] eqn:E; try discriminate Hx.
    injection Hx as <- <- <-. apply slot_set_ok; [exact Hs|exact (Hrecv _ _ _ _ _ E)]. }
  assert (forall cf l, match unpack_leaf host raw cf c name l s off with
                    | Ok (v, o1, t1) => FOk (slot_set s name v) o1 t1
                    | Exn x => FExn x
                    end = FOk s' o' t -> slots_ok s') as Hl.
  { intros cf0 l Hx. destruct (unpack_leaf host raw cf0 c name l s off) as [[[v o1] t1]|] eqn:E; [|discriminate Hx].
    injection Hx as <- <- <-. apply slot_set_ok; [exact Hs|exact (unpack_leaf_vl _ _ _ _ _ _ _ _ _ E)]. }
  destruct e as [l|c' proto|sel dflt]; cbn [unpack_elem] in H.
  - exact (Hl _ _ H).
  - exact (Hr _ H).
  - destruct (eval (mkctx raw s off) sel) as [v|x]; [|discriminate H].
    destruct v; try discriminate H; [exact (Hr _ H)|exact (Hr _ H)|exact (Hl _ _ H)].
Qed.

Lemma unpack_count_slots : forall cf c i e al k s off t s' o' t', slots_ok s ->
  unpack_count host raw rec_unpack cf c i e al k s off t = FOk s' o' t' -> slots_ok s'.
Proof.
  intros cf c i e al. induction k as [|k IH]; intros s off t s' o' t' Hs H; cbn [unpack_count] in H.
  - injection H as <- <- <-. exact Hs.
  - destruct (seq_align al off) as [o1|]; [|discriminate H].
    destruct (unpack_elem host raw rec_unpack cf c (FSeqElem i) e s o1) as [s1 o2 t1| | |] eqn:E; try discriminate H.
    pose proof (unpack_elem_slots _ _ _ _ _ _ _ _ _ Hs E) as Hs1.
    apply IH in H; [exact H|]. apply append_to_ok; [exact Hs1|apply elem_value_ok; exact Hs1].
Qed.

Lemma unpack_until_slots : forall cf c i e al until fuel s off t s' o' t', slots_ok s ->
  unpack_until host raw rec_unpack fuel cf c i e al until s off t = FOk s' o' t' -> slots_ok s'.
Proof.
  intros cf c i e al until. induction fuel as [|fuel IH]; intros s off t s' o' t' Hs H; cbn [unpack_until] in H.
  - destruct (eval (mkctx raw s off) until) as [v|x]; [|discriminate H].
    destruct (truth v); [|discriminate H]. injection H as <- <- <-. exact Hs.
  - destruct (eval (mkctx raw s off) until) as [v|x]; [|discriminate H].
    destruct (truth v); [injection H as <- <- <-; exact Hs|].
    destruct (seq_align al off) as [o1|]; [|discriminate H].
    destruct (unpack_elem host raw rec_unpack cf c (FSeqElem i) e s o1) as [s1 o2 t1| | |] eqn:E; try discriminate H.
    pose proof (unpack_elem_slots _ _ _ _ _ _ _ _ _ Hs E) as Hs1.
    apply IH in H; [exact H|]. apply append_to_ok; [exact Hs1|apply elem_value_ok; exact Hs1].
Qed.

Lemma unpack_field_slots : forall cf c f s off ipp s' o' t, slots_ok s ->
  unpack_field host raw rec_unpack loop_fuel cf c f s off ipp = FOk s' o' t -> slots_ok s'.
Proof.
  intros cf c f s off ipp s' o' t Hs H.
  destruct f as [i arg rf al|i e|i first last run0 shift mask nbytes dflt|i e count until when dflt al|i e when dflt|i];
    cbn [unpack_field] in H.
  - match type of H with match ?m with Ok _ => _ | Exn _ => _ end = _ => destruct m as [z|x] end; [|discriminate H].
    destruct (al && (z =? 0)); [discriminate H|].
    destruct (move_unpack al rf z off ipp) as [o1|]; [|discriminate H]. injection H as <- <- <-. exact Hs.
  - exact (unpack_elem_slots _ _ _ _ _ _ _ _ _ Hs H).
  - destruct first.
    + destruct (int_unpack nbytes false true raw off) as [[x o1]|]; [|discriminate H].
      destruct (slot_get _ (FBitsI run0)) as [[]|]; try discriminate H.
      injection H as <- <- <-. apply slot_set_ok; [apply slot_set_ok; [exact Hs|apply vl_int]|apply vl_int].
    + destruct (slot_get s (FBitsI run0)) as [[]|]; try discriminate H.
      injection H as <- <- <-. apply slot_set_ok; [exact Hs|apply vl_int].
  - assert (slots_ok (slot_set s (FN i) (VList []))) as Hs0 by (apply slot_set_ok; [exact Hs|rewrite vl_list; reflexivity]).
    match type of H with match ?m with Ok _ => _ | Exn _ => _ end = _ => destruct m as [n|x] end; [|discriminate H].
    match type of H with match ?m with Ok _ => _ | Exn _ => _ end = _ => destruct m as [[|]|x] end; [| |discriminate H].
    + injection H as <- <- <-. exact Hs0.
    + destruct (unpack_count host raw rec_unpack cf c i e al (Z.to_nat n) _ off []) as [s1 o1 t1| | |] eqn:C;
        try discriminate H.
      apply unpack_count_slots in C; [|exact Hs0].
      destruct until as [u|].
      * exact (unpack_until_slots _ _ _ _ _ _ _ _ _ _ _ _ _ C H).
      * injection H as <- <- <-. exact C.
  - destruct (eval (mkctx raw s off) when) as [v|x]; [|discriminate H].
    destruct (truth v).
    + destruct (unpack_elem host raw rec_unpack cf c (FOptElem i) e s off) as [s1 o1 t1| | |] eqn:E; try discriminate H.
      injection H as <- <- <-. pose proof (unpack_elem_slots _ _ _ _ _ _ _ _ _ Hs E) as Hs1.
      apply slot_set_ok; [exact Hs1|apply elem_value_ok; exact Hs1].
    + injection H as <- <- <-. apply slot_set_ok; [exact Hs|apply vl_none].
  - injection H as <- <- <-. exact Hs.
Qed.

Lemma unpack_fields_vl : forall cf c fs s off ipp t v e t', slots_ok s ->
  unpack_fields host raw rec_unpack loop_fuel cf c fs s off ipp t = POk v e t' -> vl v = true.
Proof.
  intros cf c. induction fs as [|f r IH]; intros s off ipp t v e t' Hs H; cbn [unpack_fields] in H.
  - injection H as <- <- <-. rewrite vl_pkt. exact Hs.
  - destruct (unpack_field host raw rec_unpack loop_fuel cf c f s off ipp) as [s1 o1 t1| | |] eqn:E; try discriminate H.
    exact (IH _ _ _ _ _ _ _ (unpack_field_slots _ _ _ _ _ _ _ _ _ Hs E) H).
Qed.

Lemma unpack_blocks_vl : forall cf c bs s off ipp t v e t', slots_ok s ->
  unpack_blocks host raw rec_unpack loop_fuel cf c bs s off ipp t = POk v e t' -> vl v = true.
Proof.
  intros cf c. induction bs as [|b r IH]; intros s off ipp t v e t' Hs H; cbn [unpack_blocks] in H.
  - injection H as <- <- <-. rewrite vl_pkt. exact Hs.
  - destruct b as [big ms|f].
    + destruct (blen _ =? run_size ms); [|discriminate H].
      destruct (struct_unpack ms _ off s) as [s1 t1] eqn:S.
      exact (IH _ _ _ _ _ _ _ (struct_unpack_slots _ _ _ _ _ _ Hs S) H).
    + destruct (unpack_field host raw rec_unpack loop_fuel cf c f s off ipp) as [s1 o1 t1| | |] eqn:E; try discriminate H.
      exact (IH _ _ _ _ _ _ _ (unpack_field_slots _ _ _ _ _ _ _ _ _ Hs E) H).
Qed.
End Pass.

Lemma slots_ok_nil : slots_ok [].
Proof. reflexivity. Qed.

Lemma unpack_any_vl : forall host ct raw fuel c off v e t, unpack_any fuel host ct raw c off = POk v e t -> vl v = true.
Proof.
  intros host ct raw. induction fuel as [|fuel IH]; intros c off v e t H; cbn [unpack_any] in H; [discriminate H|].
  destruct (ct_get ct c) as [k|]; [|discriminate H]. destruct (cc_gen_unpack k).
  - exact (unpack_blocks_vl _ _ _ _ IH _ _ _ _ _ _ _ _ _ _ slots_ok_nil H).
  - exact (unpack_fields_vl _ _ _ _ IH _ _ _ _ _ _ _ _ _ _ slots_ok_nil H).
Qed.

Lemma unpack_pkt_vl : forall host ct raw fuel c off v e t, unpack_pkt fuel host ct raw c off = POk v e t -> vl v = true.
Proof.
  intros host ct raw. induction fuel as [|fuel IH]; intros c off v e t H; cbn [unpack_pkt] in H; [discriminate H|].
  destruct (ct_get ct c) as [k|]; [|discriminate H].
  exact (unpack_fields_vl _ _ _ _ IH _ _ _ _ _ _ _ _ _ _ slots_ok_nil H).
Qed.
End Deep.

(* ------------------------------------------------------------------------------------------ *)
(* the two instances: local, closed                                                           *)
(* ------------------------------------------------------------------------------------------ *)

Lemma vlocal_pkt : forall c s, value_local (VPkt c s) = forallb (fun p => value_local (snd p)) s.
Proof.
  intros c. induction s as [|[g a] r IH]; [reflexivity|].
  change (value_local (VPkt c ((g, a) :: r))) with (value_local a && value_local (VPkt c r)).
  rewrite IH. reflexivity.
Qed.
Lemma vclosed_pkt : forall c s, value_closed (VPkt c s) = forallb (fun p => value_closed (snd p)) s.
Proof.
  intros c. induction s as [|[g a] r IH]; [reflexivity|].
  change (value_closed (VPkt c ((g, a) :: r))) with (value_closed a && value_closed (VPkt c r)).
  rewrite IH. reflexivity.
Qed.

Notation lslots_ok := (slots_ok value_local).
Notation cslots_ok := (slots_ok value_closed).

Lemma local_eval_indep : forall cx cx' e, e_slots cx = e_slots cx' -> expr_local e = true -> eval cx e = eval cx' e.
Proof.
  intros cx cx' e Hs He.
  refine (eval_indep expr_local _ _ _ _ _ _ _ cx cx' Hs _ e He); try reflexivity. intros H. discriminate H.
Qed.
Lemma local_eval_int_indep : forall cx cx' e, e_slots cx = e_slots cx' -> expr_local e = true -> eval_int cx e = eval_int cx' e.
Proof. intros cx cx' e Hs He. unfold eval_int. rewrite (local_eval_indep cx cx' e Hs He). reflexivity. Qed.
Lemma local_eval_ok : forall cx e v, lslots_ok (e_slots cx) -> expr_local e = true -> eval cx e = Ok v -> value_local v = true.
Proof.
  intros cx e v Hs He Hv.
  refine (eval_ok expr_local value_local _ _ _ _ _ _ _ _ _ _ _ vlocal_pkt cx Hs e v He Hv); reflexivity.
Qed.

Lemma closed_eval_indep : forall cx cx' e, e_slots cx = e_slots cx' -> e_offset cx = e_offset cx' ->
  expr_closed e = true -> eval cx e = eval cx' e.
Proof.
  intros cx cx' e Hs Ho He.
  refine (eval_indep expr_closed _ _ _ _ _ _ _ cx cx' Hs (fun _ => Ho) e He); reflexivity.
Qed.
Lemma closed_eval_int_indep : forall cx cx' e, e_slots cx = e_slots cx' -> e_offset cx = e_offset cx' ->
  expr_closed e = true -> eval_int cx e = eval_int cx' e.
Proof. intros cx cx' e Hs Ho He. unfold eval_int. rewrite (closed_eval_indep cx cx' e Hs Ho He). reflexivity. Qed.
Lemma closed_eval_ok : forall cx e v, cslots_ok (e_slots cx) -> expr_closed e = true -> eval cx e = Ok v -> value_closed v = true.
Proof.
  intros cx e v Hs He Hv.
  refine (eval_ok expr_closed value_closed _ _ _ _ _ _ _ _ _ _ _ vclosed_pkt cx Hs e v He Hv); reflexivity.
Qed.

(* a local abbreviation: the hypotheses of the "parsed values" lemmas, discharged for both instances *)
Ltac vl_hyps := first [exact vlocal_pkt | exact vclosed_pkt | reflexivity | intros; reflexivity].

Lemma local_unpack_any_vl : forall host ct raw fuel c off v e t,
  unpack_any fuel host ct raw c off = POk v e t -> value_local v = true.
Proof. apply (unpack_any_vl value_local); vl_hyps. Qed.
Lemma local_unpack_pkt_vl : forall host ct raw fuel c off v e t,
  unpack_pkt fuel host ct raw c off = POk v e t -> value_local v = true.
Proof. apply (unpack_pkt_vl value_local); vl_hyps. Qed.
Lemma closed_unpack_any_vl : forall host ct raw fuel c off v e t,
  unpack_any fuel host ct raw c off = POk v e t -> value_closed v = true.
Proof. apply (unpack_any_vl value_closed); vl_hyps. Qed.

(* ------------------------------------------------------------------------------------------ *)
(* a prefix before the input: slices and kernels                                              *)
(* ------------------------------------------------------------------------------------------ *)

Lemma slice_pre (pre raw : bytes) (a b : Z) : 0 <= a ->
  slice (pre ++ raw) (a + blen pre) (b + blen pre) = slice raw a b.
Proof.
  intros Ha. unfold slice. replace (b + blen pre - (a + blen pre)) with (b - a) by lia.
  replace (Z.to_nat (a + blen pre)) with (length pre + Z.to_nat a)%nat by (unfold blen; lia).
  rewrite <- skipn_skipn', skipn_len_app. reflexivity.
Qed.

Lemma slice_from_pre (pre raw : bytes) (a : Z) : 0 <= a -> slice_from (pre ++ raw) (a + blen pre) = slice_from raw a.
Proof.
  intros Ha. unfold slice_from.
  replace (Z.to_nat (a + blen pre)) with (length pre + Z.to_nat a)%nat by (unfold blen; lia).
  rewrite <- skipn_skipn', skipn_len_app. reflexivity.
Qed.

Section PreKernels.
Variables pre raw : bytes.
Notation d := (blen pre).

Lemma int_unpack_pre : forall n s big off, 0 <= off ->
  int_unpack n s big (pre ++ raw) (off + d) =
  match int_unpack n s big raw off with Some (v, o) => Some (v, o + d) | None => None end.
Proof.
  intros n s big off Ho. unfold int_unpack. replace (off + d + n) with (off + n + d) by lia.
  rewrite slice_pre by exact Ho. destruct (decode n s big (slice raw off (off + n))); reflexivity.
Qed.

Lemma data_sized_pre : forall off bc, 0 <= off ->
  data_sized (pre ++ raw) (off + d) bc =
  match data_sized raw off bc with Some (v, o) => Some (v, o + d) | None => None end.
Proof.
  intros off bc Ho. unfold data_sized, data_next. replace (off + d + bc) with (off + bc + d) by lia.
  rewrite slice_pre by exact Ho. destruct (data_short _ bc); reflexivity.
Qed.

Lemma window_pre : forall off sbl, 0 <= off -> window (pre ++ raw) (off + d) sbl = window raw off sbl.
Proof.
  intros off sbl Ho. unfold window. destruct sbl as [l|]; [destruct (l =? 0)|].
  - apply slice_from_pre. exact Ho.
  - replace (off + d + l) with (off + l + d) by lia. apply slice_pre. exact Ho.
  - apply slice_from_pre. exact Ho.
Qed.

Lemma data_marker_pre : forall off sbl m incl, 0 <= off ->
  data_marker (pre ++ raw) (off + d) sbl m incl =
  match data_marker raw off sbl m incl with Some (v, o) => Some (v, o + d) | None => None end.
Proof.
  intros off sbl m incl Ho. unfold data_marker. rewrite window_pre by exact Ho.
  destruct (find (window raw off sbl) m) as [k|]; [|reflexivity].
  replace (off + d + marker_count k (blen m) incl) with (off + marker_count k (blen m) incl + d) by lia.
  rewrite slice_pre by exact Ho. f_equal. f_equal. lia.
Qed.

Lemma data_regex_pre : forall off sbl r incl, 0 <= off ->
  data_regex (pre ++ raw) (off + d) sbl r incl =
  match data_regex raw off sbl r incl with Some (v, o, dl) => Some (v, o + d, dl) | None => None end.
Proof.
  intros off sbl r incl Ho. unfold data_regex. rewrite window_pre by exact Ho.
  destruct (re_search r (window raw off sbl)) as [[st en]|] eqn:R; [|reflexivity].
  apply re_search_bounds in R. destruct R as (Hst & _).
  replace (off + d + en) with (off + en + d) by lia. replace (off + d + st) with (off + st + d) by lia.
  destruct incl; rewrite !slice_pre by lia; reflexivity.
Qed.

Lemma data_eos_pre : forall off, 0 <= off ->
  data_eos (pre ++ raw) (off + d) = (fst (data_eos raw off), snd (data_eos raw off) + d).
Proof.
  intros off Ho. unfold data_eos. cbn [fst snd]. rewrite blen_app.
  replace (d + blen raw - (off + d)) with (blen raw - off) by lia.
  replace (off + d + (blen raw - off)) with (off + (blen raw - off) + d) by lia.
  rewrite slice_pre by exact Ho. reflexivity.
Qed.

Lemma unpack_leaf_pre : forall host cf c name l s off, leaf_local l = true -> 0 <= off ->
  unpack_leaf host (pre ++ raw) cf c name l s (off + d) =
  match unpack_leaf host raw cf c name l s off with
  | Ok (v, o', t) => Ok (v, o' + d, map (shift_item d) t)
  | Exn x => Exn x
  end.
Proof.
  intros host cf c name l s off Hl Ho. destruct l as [n sg fe dflt|size isc dflt|m incl dflt|r incl dflt|dflt];
    cbn [unpack_leaf].
  - rewrite int_unpack_pre by exact Ho. destruct (int_unpack n sg _ raw off) as [[x o1]|]; [|reflexivity].
    cbn [map shift_item]. rewrite slice_pre by exact Ho. reflexivity.
  - cbn [leaf_local] in Hl.
    rewrite (local_eval_int_indep (mkctx (pre ++ raw) s (off + d)) (mkctx raw s off) size eq_refl Hl).
    unfold bind. destruct (eval_int (mkctx raw s off) size) as [bc|x]; [|reflexivity].
    rewrite data_sized_pre by exact Ho. destruct (data_sized raw off bc) as [[v o1]|]; reflexivity.
  - rewrite data_marker_pre by exact Ho. destruct (data_marker raw off (lc_sbl cf) m incl) as [[v o1]|]; [|reflexivity].
    cbn [map shift_item]. rewrite slice_pre by exact Ho. reflexivity.
  - rewrite data_regex_pre by exact Ho. destruct (data_regex raw off (lc_sbl cf) r incl) as [[[v o1] dl]|]; [|reflexivity].
    cbn [map shift_item]. rewrite slice_pre by exact Ho. destruct incl; reflexivity.
  - rewrite data_eos_pre by exact Ho. destruct (data_eos raw off) as [v o1]. reflexivity.
Qed.
End PreKernels.

(* moves relative to the packet or to the cursor *)
Lemma align_to_shift : forall mv c start d,
  align_to mv (c + d) (start + d) = option_map (fun o => o + d) (align_to mv c start).
Proof.
  intros mv c start d. unfold align_to. replace (c + d - (start + d)) with (c - start) by lia.
  destruct (pymod (c - start) mv) as [r1|]; [|reflexivity].
  destruct (pymod (mv - r1) mv) as [r2|]; cbn [option_map]; [f_equal; lia|reflexivity].
Qed.

Lemma move_raw_shift' : forall al r mv c ipp d, r <> RBegins ->
  move_raw al r mv (c + d) (ipp + d) = option_map (fun o => o + d) (move_raw al r mv c ipp).
Proof.
  intros al r mv c ipp d Hr. unfold move_raw. destruct al; destruct r; try contradiction; cbn [align_start jump_to option_map].
  - apply align_to_shift.
  - apply align_to_shift.
  - f_equal. lia.
  - f_equal. lia.
Qed.

Lemma move_unpack_pre_ok : forall al r mv c ipp d o, r <> RBegins -> 0 <= d ->
  move_unpack al r mv c ipp = Some o -> move_unpack al r mv (c + d) (ipp + d) = Some (o + d).
Proof.
  intros al r mv c ipp d o Hr Hd H. apply move_unpack_raw in H. destruct H as (H & Ho).
  apply move_unpack_raw. rewrite (move_raw_shift' al r mv c ipp d Hr), H. split; [reflexivity|lia].
Qed.

Lemma move_unpack_fwd_some : forall al r mv c ipp, r <> RBegins -> 0 <= c -> 0 <= ipp ->
  (if al : bool then 0 < mv else 0 <= mv) -> exists o, move_unpack al r mv c ipp = Some o.
Proof.
  intros al r mv c ipp Hr Hc Hi Hmv.
  assert (exists o, move_raw al r mv c ipp = Some o /\ 0 <= o) as (o & E & Ho).
  { unfold move_raw. destruct al.
    - destruct (align_to_min mv c (align_start r c ipp) Hmv) as (k & E & Hk & _). exists (c + k). split; [exact E|lia].
    - destruct r; try contradiction; cbn [jump_to]; eexists; (split; [reflexivity|lia]). }
  exists o. apply move_unpack_raw. split; assumption.
Qed.

Lemma seq_align_1 : forall o, seq_align 1 o = Some o.
Proof.
  intros o. unfold seq_align, pymod. cbn [Z.eqb]. rewrite Z.mod_1_r. cbn. f_equal. lia.
Qed.

(* ------------------------------------------------------------------------------------------ *)
(* a prefix before the input: the field interpreters                                          *)
(* ------------------------------------------------------------------------------------------ *)

Definition okf (r : fres) : Prop := exists s o t, r = FOk s o t.
Definition okp (r : pres) : Prop := exists v e t, r = POk v e t.
(* fwd = true: positioning only moves forwards, the two runs agree whatever happens;
   fwd = false: they agree as long as the run on the bare input succeeds *)
Definition cond (fwd : bool) (P : Prop) : Prop := fwd = true \/ P.

Lemma cond_mono (fwd : bool) (P Q : Prop) : cond fwd P -> (P -> Q) -> cond fwd Q.
Proof. intros [H|H] I; [left; exact H|right; exact (I H)]. Qed.

Ltac okf_no H := destruct H as (? & ? & ? & H); discriminate H.

Lemma struct_unpack_shift : forall ms chunk off s d,
  struct_unpack ms chunk (off + d) s =
  (fst (struct_unpack ms chunk off s), map (shift_item d) (snd (struct_unpack ms chunk off s))).
Proof.
  induction ms as [|m r IH]; intros chunk off s d; cbn [struct_unpack]; [reflexivity|].
  replace (off + d + sm_size m) with (off + sm_size m + d) by lia. rewrite IH.
  destruct (struct_unpack r (slice_from chunk (sm_size m)) (off + sm_size m) _) as [s1 t1]. reflexivity.
Qed.

Lemma gen_blocks_loops (P : cfield -> Prop) (host : bool) (cf : lconf) (vec : bool) : forall fs cur,
  Forall P fs -> Forall (fun b => match b with BLoop f => P f | BStruct _ _ => True end) (gen_blocks host cf vec fs cur).
Proof.
  assert (forall cur : option (bool * list smember),
          Forall (fun b => match b with BLoop f => P f | BStruct _ _ => True end)
                 (match cur with Some (b, ms) => [BStruct b (rev ms)] | None => [] end)) as Hflush.
  { intros [[b ms]|]; repeat constructor. }
  induction fs as [|f r IH]; intros cur HF; cbn [gen_blocks]; [apply Hflush|].
  inversion HF as [|f' r' Hf Hr]; subst.
  destruct (fixity_of host cf f) as [m| |].
  - destruct cur as [[b ms]|]; [|apply IH; exact Hr].
    destruct (vec && Bool.eqb b (sm_big m)); [apply IH; exact Hr|].
    apply Forall_app. split; [apply (Hflush (Some (b, ms)))|apply IH; exact Hr].
  - apply Forall_app. split; [apply Hflush|]. constructor; [exact Hf|apply IH; exact Hr].
  - apply Forall_app. split; [apply Hflush|]. constructor; [exact Hf|apply IH; exact Hr].
Qed.

Section Prefix.
Variable host : bool.
Variables pre raw : bytes.
Variables rec0 rec1 : cid -> Z -> pres.
Variable loop_fuel : nat.
Variable fwd : bool.
Notation d := (blen pre).
Notation sh := (map (shift_item d)).
Hypothesis Hrec : forall c o, 0 <= o -> cond fwd (okp (rec0 c o)) -> rec1 c (o + d) = shift_pres d (rec0 c o).
Hypothesis Hrec_nn : forall c o v e t, 0 <= o -> rec0 c o = POk v e t -> 0 <= e.
Hypothesis Hrec_loc : forall c o v e t, rec0 c o = POk v e t -> value_local v = true.

Lemma Hrec_strict : forall c o v e t, 0 <= o -> rec0 c o = POk v e t -> 0 <= e /\ tr_ok raw False t.
Proof. intros c o v e t Ho H. split; [exact (Hrec_nn _ _ _ _ _ Ho H)|intros []]. Qed.

Lemma rec_match_pre : forall c' s name off, 0 <= off ->
  cond fwd (okf (match rec0 c' off with
                 | POk v o1 t1 => FOk (slot_set s name v) o1 t1 | PFail st => FFail st | PFuel => FFuel end)) ->
  match rec1 c' (off + d) with
  | POk v o1 t1 => FOk (slot_set s name v) o1 t1 | PFail st => FFail st | PFuel => FFuel end =
  shift_fres d (match rec0 c' off with
                | POk v o1 t1 => FOk (slot_set s name v) o1 t1 | PFail st => FFail st | PFuel => FFuel end).
Proof.
  intros c' s name off Ho Hc. rewrite Hrec; [destruct (rec0 c' off); reflexivity|exact Ho|].
  apply (cond_mono _ _ _ Hc). intros Hk. destruct (rec0 c' off) as [v o1 t1| |]; [exists v, o1, t1; reflexivity|okf_no Hk|okf_no Hk].
Qed.

Lemma leaf_match_pre : forall cf c name l s off, leaf_local l = true -> 0 <= off ->
  match unpack_leaf host (pre ++ raw) cf c name l s (off + d) with
  | Ok (v, o', t) => FOk (slot_set s name v) o' t | Exn x => FExn x end =
  shift_fres d (match unpack_leaf host raw cf c name l s off with
                | Ok (v, o', t) => FOk (slot_set s name v) o' t | Exn x => FExn x end).
Proof.
  intros cf c name l s off Hl Ho. rewrite unpack_leaf_pre by assumption.
  destruct (unpack_leaf host raw cf c name l s off) as [[[v o1] t1]|x]; reflexivity.
Qed.

Lemma unpack_elem_pre : forall cf c name e s off, elem_local e = true -> lslots_ok s -> 0 <= off ->
  cond fwd (okf (unpack_elem host raw rec0 cf c name e s off)) ->
  unpack_elem host (pre ++ raw) rec1 cf c name e s (off + d) = shift_fres d (unpack_elem host raw rec0 cf c name e s off).
Proof.
  intros cf c name e s off He Hs Ho Hc. destruct e as [l|c' proto|sel dflt]; cbn [unpack_elem elem_local] in *.
  - apply leaf_match_pre; assumption.
  - apply rec_match_pre; assumption.
  - rewrite (local_eval_indep (mkctx (pre ++ raw) s (off + d)) (mkctx raw s off) sel eq_refl He).
    destruct (eval (mkctx raw s off) sel) as [v|x] eqn:Ev; [|reflexivity].
    pose proof (local_eval_ok (mkctx raw s off) sel v Hs He Ev) as Hv.
    destruct v; try reflexivity.
    + apply rec_match_pre; assumption.
    + apply rec_match_pre; assumption.
    + apply leaf_match_pre; assumption.
Qed.

Lemma unpack_elem_nn : forall cf c name e s off s' o' t, 0 <= off ->
  unpack_elem host raw rec0 cf c name e s off = FOk s' o' t -> 0 <= o'.
Proof.
  intros cf c name e s off s' o' t Ho H.
  exact (proj1 (unpack_elem_ok host raw rec0 False Hrec_strict _ _ _ _ _ _ _ _ _ Ho H)).
Qed.

Lemma unpack_elem_ls : forall cf c name e s off s' o' t, lslots_ok s ->
  unpack_elem host raw rec0 cf c name e s off = FOk s' o' t -> lslots_ok s'.
Proof. apply (unpack_elem_slots value_local); try vl_hyps. exact Hrec_loc. Qed.

Lemma next_slots_ok : forall s1 i, lslots_ok s1 -> lslots_ok (append_to s1 (FN i) (elem_value s1 (FSeqElem i))).
Proof.
  intros s1 i Hs1. apply (append_to_ok value_local); [vl_hyps|exact Hs1|].
  apply (elem_value_ok value_local); [vl_hyps|exact Hs1].
Qed.

Lemma unpack_count_pre : forall cf c i e, elem_local e = true -> forall k s off t, lslots_ok s -> 0 <= off ->
  cond fwd (okf (unpack_count host raw rec0 cf c i e 1 k s off t)) ->
  unpack_count host (pre ++ raw) rec1 cf c i e 1 k s (off + d) (sh t) =
  shift_fres d (unpack_count host raw rec0 cf c i e 1 k s off t).
Proof.
  intros cf c i e He. induction k as [|k IH]; intros s off t Hs Ho Hc; cbn [unpack_count]; [reflexivity|].
  cbn [unpack_count] in Hc. rewrite !seq_align_1 in *.
  assert (cond fwd (okf (unpack_elem host raw rec0 cf c (FSeqElem i) e s off))) as Hc0.
  { apply (cond_mono _ _ _ Hc). intros Hk.
    destruct (unpack_elem host raw rec0 cf c (FSeqElem i) e s off) as [s1 o2 t1| | |];
      [exists s1, o2, t1; reflexivity|okf_no Hk..]. }
  rewrite (unpack_elem_pre _ _ _ _ _ _ He Hs Ho Hc0).
  destruct (unpack_elem host raw rec0 cf c (FSeqElem i) e s off) as [s1 o2 t1| | |] eqn:E; cbn [shift_fres]; try reflexivity.
  rewrite <- map_app. apply IH; [|exact (unpack_elem_nn _ _ _ _ _ _ _ _ _ Ho E)|exact Hc].
  apply next_slots_ok. exact (unpack_elem_ls _ _ _ _ _ _ _ _ _ Hs E).
Qed.

Lemma unpack_until_pre : forall cf c i e until, elem_local e = true -> expr_local until = true ->
  forall fuel s off t, lslots_ok s -> 0 <= off ->
  cond fwd (okf (unpack_until host raw rec0 fuel cf c i e 1 until s off t)) ->
  unpack_until host (pre ++ raw) rec1 fuel cf c i e 1 until s (off + d) (sh t) =
  shift_fres d (unpack_until host raw rec0 fuel cf c i e 1 until s off t).
Proof.
  intros cf c i e until He Hu. induction fuel as [|fuel IH]; intros s off t Hs Ho Hc; cbn [unpack_until] in *;
    rewrite (local_eval_indep (mkctx (pre ++ raw) s (off + d)) (mkctx raw s off) until eq_refl Hu);
    (destruct (eval (mkctx raw s off) until) as [v|x]; [|reflexivity]);
    (destruct (truth v); [reflexivity|]); [reflexivity|].
  rewrite !seq_align_1 in *.
  assert (cond fwd (okf (unpack_elem host raw rec0 cf c (FSeqElem i) e s off))) as Hc0.
  { apply (cond_mono _ _ _ Hc). intros Hk.
    destruct (unpack_elem host raw rec0 cf c (FSeqElem i) e s off) as [s1 o2 t1| | |];
      [exists s1, o2, t1; reflexivity|okf_no Hk..]. }
  rewrite (unpack_elem_pre _ _ _ _ _ _ He Hs Ho Hc0).
  destruct (unpack_elem host raw rec0 cf c (FSeqElem i) e s off) as [s1 o2 t1| | |] eqn:E; cbn [shift_fres]; try reflexivity.
  rewrite <- map_app. apply IH; [|exact (unpack_elem_nn _ _ _ _ _ _ _ _ _ Ho E)|exact Hc].
  apply next_slots_ok. exact (unpack_elem_ls _ _ _ _ _ _ _ _ _ Hs E).
Qed.

Lemma move_tail_pre : forall (al : bool) rf z s off ipp, rf <> RBegins -> 0 <= off -> 0 <= ipp ->
  (fwd = true -> if al then 0 < z else 0 <= z) ->
  cond fwd (okf (if al && (z =? 0) then FExn ZeroDivisionError
                 else match move_unpack al rf z off ipp with
                      | Some o' => FOk s o' [TMove o'] | None => FExn GenericError end)) ->
  (if al && (z =? 0) then FExn ZeroDivisionError
   else match move_unpack al rf z (off + d) (ipp + d) with
        | Some o' => FOk s o' [TMove o'] | None => FExn GenericError end) =
  shift_fres d (if al && (z =? 0) then FExn ZeroDivisionError
                else match move_unpack al rf z off ipp with
                     | Some o' => FOk s o' [TMove o'] | None => FExn GenericError end).
Proof.
  intros al rf z s off ipp Hr Ho Hi Hz Hc. destruct (al && (z =? 0)); [reflexivity|].
  destruct (move_unpack al rf z off ipp) as [o|] eqn:M.
  - rewrite (move_unpack_pre_ok al rf z off ipp d o Hr (blen_nonneg pre) M). reflexivity.
  - exfalso. destruct Hc as [Hf|Hk]; [|okf_no Hk].
    destruct (move_unpack_fwd_some al rf z off ipp Hr Ho Hi (Hz Hf)) as (o & E). rewrite E in M. discriminate M.
Qed.

Lemma unpack_count_nn : forall cf c i e al k s off t s' o' t', 0 < al -> 0 <= off ->
  unpack_count host raw rec0 cf c i e al k s off t = FOk s' o' t' -> 0 <= o'.
Proof.
  intros cf c i e al k s off t s' o' t' Hal Ho H.
  refine (proj1 (unpack_count_ok host raw rec0 False Hrec_strict _ _ _ _ _ Hal _ _ _ _ _ _ _ Ho _ H)). intros [].
Qed.

Lemma unpack_count_ls : forall cf c i e al k s off t s' o' t', lslots_ok s ->
  unpack_count host raw rec0 cf c i e al k s off t = FOk s' o' t' -> lslots_ok s'.
Proof. apply (unpack_count_slots value_local); try vl_hyps. exact Hrec_loc. Qed.

Lemma unpack_field_pre : forall cf c f s off ipp, cfield_local_gen fwd f = true -> cfield_wf f = true ->
  lslots_ok s -> 0 <= off -> 0 <= ipp ->
  cond fwd (okf (unpack_field host raw rec0 loop_fuel cf c f s off ipp)) ->
  unpack_field host (pre ++ raw) rec1 loop_fuel cf c f s (off + d) (ipp + d) =
  shift_fres d (unpack_field host raw rec0 loop_fuel cf c f s off ipp).
Proof.
  intros cf c f s off ipp Hl Hwf Hs Ho Hi Hc.
  destruct f as [i arg rf al|i e|i first last run0 shift mask nbytes dflt|i e count until when dflt al|i e when dflt|i];
    cbn [unpack_field cfield_local_gen] in *.
  - (* CMove *)
    apply andb_true_iff in Hl. destruct Hl as (Hl & Hfw). apply andb_true_iff in Hl. destruct Hl as (Harg & Hrf).
    assert (rf <> RBegins) as Hr by (intros ->; discriminate Hrf).
    destruct arg as [z|g|e].
    + apply move_tail_pre; try assumption. intros Hf. rewrite Hf in Hfw. cbn [negb orb move_forward] in Hfw.
      destruct al; lia.
    + destruct (slot_get s g) as [v|]; [|reflexivity]. destruct (as_int v) as [z|]; [|reflexivity].
      apply move_tail_pre; try assumption. intros Hf. rewrite Hf in Hfw. discriminate Hfw.
    + cbn [marg_local] in Harg.
      rewrite (local_eval_int_indep (mkctx (pre ++ raw) s (off + d)) (mkctx raw s off) e eq_refl Harg).
      destruct (eval_int (mkctx raw s off) e) as [z|x]; [|reflexivity].
      apply move_tail_pre; try assumption. intros Hf. rewrite Hf in Hfw. discriminate Hfw.
  - (* CElem *) apply unpack_elem_pre; assumption.
  - (* CBits *)
    destruct first.
    + rewrite int_unpack_pre by exact Ho. destruct (int_unpack nbytes false true raw off) as [[x o1]|]; [|reflexivity].
      destruct (slot_get _ (FBitsI run0)) as [[]|]; try reflexivity.
      cbn [shift_fres map shift_item]. rewrite slice_pre by exact Ho. reflexivity.
    + destruct (slot_get s (FBitsI run0)) as [[]|]; reflexivity.
  - (* CSeq *)
    apply andb_true_iff in Hl. destruct Hl as (Hl & Hal). apply andb_true_iff in Hl. destruct Hl as (Hl & Hwhen).
    apply andb_true_iff in Hl. destruct Hl as (Hl & Huntil). apply andb_true_iff in Hl. destruct Hl as (He & Hcount).
    apply Z.eqb_eq in Hal. subst al.
    assert (lslots_ok (slot_set s (FN i) (VList []))) as Hs0 by (apply slot_set_ok; [exact Hs|reflexivity]).
    set (s0 := slot_set s (FN i) (VList [])) in *.
    assert (match count with Some ce => eval_int (mkctx (pre ++ raw) s0 (off + d)) ce | None => Ok 1 end =
            match count with Some ce => eval_int (mkctx raw s0 off) ce | None => Ok 1 end) as Ecount.
    { destruct count as [ce|]; [|reflexivity]. apply local_eval_int_indep; [reflexivity|exact Hcount]. }
    rewrite Ecount. clear Ecount.
    destruct (match count with Some ce => eval_int (mkctx raw s0 off) ce | None => Ok 1 end) as [n|x]; [|reflexivity].
    assert (match when with
            | Some w => if n <=? 0 then Ok true
                        else match eval (mkctx (pre ++ raw) s0 (off + d)) w with
                             | Ok v => Ok (negb (truth v)) | Exn x => Exn x end
            | None => Ok false end =
            match when with
            | Some w => if n <=? 0 then Ok true
                        else match eval (mkctx raw s0 off) w with
                             | Ok v => Ok (negb (truth v)) | Exn x => Exn x end
            | None => Ok false end) as Eskip.
    { destruct when as [w|]; [|reflexivity]. destruct (n <=? 0); [reflexivity|].
      rewrite (local_eval_indep (mkctx (pre ++ raw) s0 (off + d)) (mkctx raw s0 off) w eq_refl Hwhen). reflexivity. }
    rewrite Eskip. clear Eskip.
    match goal with |- match ?m with Ok _ => _ | Exn _ => _ end = _ => destruct m as [[|]|x] end; try reflexivity.
    assert (cond fwd (okf (unpack_count host raw rec0 cf c i e 1 (Z.to_nat n) s0 off []))) as Hc0.
    { apply (cond_mono _ _ _ Hc). intros Hk.
      destruct (unpack_count host raw rec0 cf c i e 1 (Z.to_nat n) s0 off []) as [s1 o1 t1| | |];
        [exists s1, o1, t1; reflexivity|okf_no Hk..]. }
    pose proof (unpack_count_pre cf c i e He (Z.to_nat n) s0 off [] Hs0 Ho Hc0) as Ec. cbn [map] in Ec. rewrite Ec. clear Ec.
    destruct (unpack_count host raw rec0 cf c i e 1 (Z.to_nat n) s0 off []) as [s1 o1 t1| | |] eqn:C;
      cbn [shift_fres]; try reflexivity.
    destruct until as [u|]; [|reflexivity]. cbn [oexpr_local] in Huntil.
    apply unpack_until_pre; try assumption.
    + exact (unpack_count_ls _ _ _ _ _ _ _ _ _ _ _ _ Hs0 C).
    + refine (unpack_count_nn _ _ _ _ _ _ _ _ _ _ _ _ _ Ho C). lia.
  - (* COpt *)
    apply andb_true_iff in Hl. destruct Hl as (He & Hwhen).
    rewrite (local_eval_indep (mkctx (pre ++ raw) s (off + d)) (mkctx raw s off) when eq_refl Hwhen).
    destruct (eval (mkctx raw s off) when) as [v|x]; [|reflexivity].
    destruct (truth v); [|reflexivity].
    assert (cond fwd (okf (unpack_elem host raw rec0 cf c (FOptElem i) e s off))) as Hc0.
    { apply (cond_mono _ _ _ Hc). intros Hk.
      destruct (unpack_elem host raw rec0 cf c (FOptElem i) e s off) as [s1 o2 t1| | |];
        [exists s1, o2, t1; reflexivity|okf_no Hk..]. }
    rewrite (unpack_elem_pre _ _ _ _ _ _ He Hs Ho Hc0).
    destruct (unpack_elem host raw rec0 cf c (FOptElem i) e s off) as [s1 o2 t1| | |]; reflexivity.
  - (* CEm *) reflexivity.
Qed.

Lemma unpack_field_nn : forall cf c f s off ipp s' o' t, cfield_wf f = true -> 0 <= off ->
  unpack_field host raw rec0 loop_fuel cf c f s off ipp = FOk s' o' t -> 0 <= o'.
Proof.
  intros cf c f s off ipp s' o' t Hwf Ho H.
  exact (proj1 (unpack_field_ok host raw rec0 loop_fuel False Hrec_strict _ _ _ _ _ _ _ _ _ Hwf Ho H)).
Qed.

Lemma unpack_field_ls : forall cf c f s off ipp s' o' t, lslots_ok s ->
  unpack_field host raw rec0 loop_fuel cf c f s off ipp = FOk s' o' t -> lslots_ok s'.
Proof. apply (unpack_field_slots value_local); try vl_hyps. exact Hrec_loc. Qed.

Lemma shift_stack_app : forall st st', shift_stack d (st ++ st') = shift_stack d st ++ shift_stack d st'.
Proof. intros st st'. unfold shift_stack. apply map_app. Qed.

(* one step of the field loop, common to the generic loop and to the generated code *)
Lemma field_step_pre : forall cf c f s off ipp (K0 K1 : slots -> Z -> trace -> pres),
  cfield_local_gen fwd f = true -> cfield_wf f = true -> lslots_ok s -> 0 <= off -> 0 <= ipp ->
  (forall s1 o1 t1, lslots_ok s1 -> 0 <= o1 -> cond fwd (okp (K0 s1 o1 t1)) -> K1 s1 (o1 + d) (sh t1) = shift_pres d (K0 s1 o1 t1)) ->
  cond fwd (okp (match unpack_field host raw rec0 loop_fuel cf c f s off ipp with
                 | FOk s1 o1 t1 => K0 s1 o1 t1
                 | FExn _ => PFail [(off, cf_name f, c)]
                 | FFail st => PFail (st ++ [(off, cf_name f, c)])
                 | FFuel => PFuel end)) ->
  match unpack_field host (pre ++ raw) rec1 loop_fuel cf c f s (off + d) (ipp + d) with
  | FOk s1 o1 t1 => K1 s1 o1 t1
  | FExn _ => PFail [(off + d, cf_name f, c)]
  | FFail st => PFail (st ++ [(off + d, cf_name f, c)])
  | FFuel => PFuel end =
  shift_pres d (match unpack_field host raw rec0 loop_fuel cf c f s off ipp with
                | FOk s1 o1 t1 => K0 s1 o1 t1
                | FExn _ => PFail [(off, cf_name f, c)]
                | FFail st => PFail (st ++ [(off, cf_name f, c)])
                | FFuel => PFuel end).
Proof.
  intros cf c f s off ipp K0 K1 Hl Hwf Hs Ho Hi HK Hc.
  assert (cond fwd (okf (unpack_field host raw rec0 loop_fuel cf c f s off ipp))) as Hc0.
  { apply (cond_mono _ _ _ Hc). intros Hk.
    destruct (unpack_field host raw rec0 loop_fuel cf c f s off ipp) as [s1 o1 t1| | |];
      [exists s1, o1, t1; reflexivity|okf_no Hk..]. }
  rewrite (unpack_field_pre _ _ _ _ _ _ Hl Hwf Hs Ho Hi Hc0).
  destruct (unpack_field host raw rec0 loop_fuel cf c f s off ipp) as [s1 o1 t1|x|st|] eqn:E; cbn [shift_fres shift_pres].
  - apply HK; [exact (unpack_field_ls _ _ _ _ _ _ _ _ _ Hs E)|exact (unpack_field_nn _ _ _ _ _ _ _ _ _ Hwf Ho E)|exact Hc].
  - reflexivity.
  - rewrite shift_stack_app. reflexivity.
  - reflexivity.
Qed.

Lemma unpack_fields_pre : forall cf c fs s off ipp t,
  forallb (cfield_local_gen fwd) fs = true -> forallb cfield_wf fs = true -> lslots_ok s -> 0 <= off -> 0 <= ipp ->
  cond fwd (okp (unpack_fields host raw rec0 loop_fuel cf c fs s off ipp t)) ->
  unpack_fields host (pre ++ raw) rec1 loop_fuel cf c fs s (off + d) (ipp + d) (sh t) =
  shift_pres d (unpack_fields host raw rec0 loop_fuel cf c fs s off ipp t).
Proof.
  intros cf c. induction fs as [|f r IH]; intros s off ipp t Hl Hwf Hs Ho Hi Hc; cbn [unpack_fields]; [reflexivity|].
  cbn [forallb] in Hl, Hwf. apply andb_true_iff in Hl. apply andb_true_iff in Hwf.
  destruct Hl as (Hlf & Hlr). destruct Hwf as (Hwf & Hwr).
  apply (field_step_pre cf c f s off ipp
           (fun s1 o1 t1 => unpack_fields host raw rec0 loop_fuel cf c r s1 o1 ipp (t ++ t1))
           (fun s1 o1 t1 => unpack_fields host (pre ++ raw) rec1 loop_fuel cf c r s1 o1 (ipp + d) (sh t ++ t1)));
    try assumption.
  intros s1 o1 t1 Hs1 Ho1 Hc1. rewrite <- map_app. apply IH; assumption.
Qed.

Definition block_local (b : block) : Prop :=
  match b with BLoop f => cfield_local_gen fwd f = true /\ cfield_wf f = true | BStruct _ _ => True end.

Lemma unpack_blocks_pre : forall cf c bs s off ipp t, Forall block_local bs -> lslots_ok s -> 0 <= off -> 0 <= ipp ->
  cond fwd (okp (unpack_blocks host raw rec0 loop_fuel cf c bs s off ipp t)) ->
  unpack_blocks host (pre ++ raw) rec1 loop_fuel cf c bs s (off + d) (ipp + d) (sh t) =
  shift_pres d (unpack_blocks host raw rec0 loop_fuel cf c bs s off ipp t).
Proof.
  intros cf c. induction bs as [|b r IH]; intros s off ipp t Hl Hs Ho Hi Hc; cbn [unpack_blocks]; [reflexivity|].
  inversion Hl as [|b' r' Hb Hr]; subst. destruct b as [big ms|f].
  - cbn [unpack_blocks] in Hc. replace (off + d + run_size ms) with (off + run_size ms + d) by lia.
    rewrite slice_pre by exact Ho.
    destruct (Z.eqb_spec (blen (slice raw off (off + run_size ms))) (run_size ms)) as [El|El]; [|reflexivity].
    rewrite struct_unpack_shift.
    destruct (struct_unpack ms (slice raw off (off + run_size ms)) off s) as [s1 t1] eqn:S. cbn [fst snd].
    rewrite <- map_app. pose proof (blen_nonneg (slice raw off (off + run_size ms))) as Hn.
    apply IH; [exact Hr| |lia|exact Hi|exact Hc].
    refine (struct_unpack_slots value_local _ _ _ _ _ _ _ _ _ Hs S); vl_hyps.
  - cbn [unpack_blocks] in Hc. destruct Hb as (Hlf & Hwf).
    apply (field_step_pre cf c f s off ipp
             (fun s1 o1 t1 => unpack_blocks host raw rec0 loop_fuel cf c r s1 o1 ipp (t ++ t1))
             (fun s1 o1 t1 => unpack_blocks host (pre ++ raw) rec1 loop_fuel cf c r s1 o1 (ipp + d) (sh t ++ t1)));
      try assumption.
    intros s1 o1 t1 Hs1 Ho1 Hc1. rewrite <- map_app. apply IH; assumption.
Qed.
End Prefix.

(* ------------------------------------------------------------------------------------------ *)
(* a prefix before the input: whole packets                                                   *)
(* ------------------------------------------------------------------------------------------ *)

Definition ct_local_gen (fwd : bool) (ct : ctab) : bool :=
  forallb (fun ck => forallb (cfield_local_gen fwd) (cc_fields (snd ck))) ct.

Lemma forallb_Forall_and (fwd : bool) : forall fs, forallb (cfield_local_gen fwd) fs = true -> forallb cfield_wf fs = true ->
  Forall (fun f => cfield_local_gen fwd f = true /\ cfield_wf f = true) fs.
Proof.
  induction fs as [|f r IH]; intros Hl Hw; [constructor|]. cbn [forallb] in Hl, Hw.
  apply andb_true_iff in Hl. apply andb_true_iff in Hw. constructor; [split; [apply Hl|apply Hw]|apply IH; [apply Hl|apply Hw]].
Qed.

Lemma unpack_any_prefix_gen (fwd : bool) : forall host ct pre raw, ct_wf ct = true -> ct_local_gen fwd ct = true ->
  forall fuel c off, 0 <= off -> cond fwd (okp (unpack_any fuel host ct raw c off)) ->
  unpack_any fuel host ct (pre ++ raw) c (off + blen pre) = shift_pres (blen pre) (unpack_any fuel host ct raw c off).
Proof.
  intros host ct pre raw Hwf Hloc. induction fuel as [|fuel IH]; intros c off Ho Hc; cbn [unpack_any] in *; [reflexivity|].
  destruct (ct_get ct c) as [k|] eqn:K; [|reflexivity].
  pose proof (ct_get_forallb class_wf ct c k Hwf K) as Hk. unfold class_wf in Hk.
  pose proof (ct_get_forallb (fun k => forallb (cfield_local_gen fwd) (cc_fields k)) ct c k Hloc K) as Hl. cbn beta in Hl.
  assert (forall c0 o v e t, 0 <= o -> unpack_any fuel host ct raw c0 o = POk v e t -> 0 <= e) as Hnn.
  { intros c0 o v e t Ho0 H0. exact (unpack_any_nonneg _ _ _ _ _ _ _ _ _ Hwf Ho0 H0). }
  assert (forall c0 o v e t, unpack_any fuel host ct raw c0 o = POk v e t -> value_local v = true) as Hvl.
  { intros c0 o v e t H0. exact (local_unpack_any_vl _ _ _ _ _ _ _ _ _ H0). }
  destruct (cc_gen_unpack k).
  - apply (unpack_blocks_pre host pre raw (unpack_any fuel host ct raw) (unpack_any fuel host ct (pre ++ raw)) fuel fwd
             IH Hnn Hvl (cc_conf k) c _ [] off off []); try assumption; [|reflexivity].
    eapply Forall_impl; [|apply gen_blocks_loops; exact (forallb_Forall_and fwd _ Hl Hk)].
    intros [big ms|f] Hb; [exact I|exact Hb].
  - apply (unpack_fields_pre host pre raw (unpack_any fuel host ct raw) (unpack_any fuel host ct (pre ++ raw)) fuel fwd
             IH Hnn Hvl (cc_conf k) c _ [] off off []); try assumption. reflexivity.
Qed.

Lemma unpack_pkt_nonneg : forall fuel host ct raw c off v e t, ct_wf ct = true -> 0 <= off ->
  unpack_pkt fuel host ct raw c off = POk v e t -> 0 <= e.
Proof. intros fuel host ct raw c off v e t Hwf Ho H. exact (proj1 (unpack_pkt_strict _ _ _ _ _ _ _ _ _ Hwf Ho H)). Qed.

Lemma unpack_pkt_prefix_gen (fwd : bool) : forall host ct pre raw, ct_wf ct = true -> ct_local_gen fwd ct = true ->
  forall fuel c off, 0 <= off -> cond fwd (okp (unpack_pkt fuel host ct raw c off)) ->
  unpack_pkt fuel host ct (pre ++ raw) c (off + blen pre) = shift_pres (blen pre) (unpack_pkt fuel host ct raw c off).
Proof.
  intros host ct pre raw Hwf Hloc. induction fuel as [|fuel IH]; intros c off Ho Hc; cbn [unpack_pkt] in *; [reflexivity|].
  destruct (ct_get ct c) as [k|] eqn:K; [|reflexivity].
  pose proof (ct_get_forallb class_wf ct c k Hwf K) as Hk. unfold class_wf in Hk.
  pose proof (ct_get_forallb (fun k => forallb (cfield_local_gen fwd) (cc_fields k)) ct c k Hloc K) as Hl. cbn beta in Hl.
  assert (forall c0 o v e t, 0 <= o -> unpack_pkt fuel host ct raw c0 o = POk v e t -> 0 <= e) as Hnn.
  { intros c0 o v e t Ho0 H0. exact (unpack_pkt_nonneg _ _ _ _ _ _ _ _ _ Hwf Ho0 H0). }
  assert (forall c0 o v e t, unpack_pkt fuel host ct raw c0 o = POk v e t -> value_local v = true) as Hvl.
  { intros c0 o v e t H0. exact (local_unpack_pkt_vl _ _ _ _ _ _ _ _ _ H0). }
  apply (unpack_fields_pre host pre raw (unpack_pkt fuel host ct raw) (unpack_pkt fuel host ct (pre ++ raw)) fuel fwd
           IH Hnn Hvl (cc_conf k) c _ [] off off []); try assumption. reflexivity.
Qed.

Theorem unpack_any_prefix : forall fuel host ct pre raw c off,
  ct_wf ct = true -> ct_local ct = true -> 0 <= off ->
  unpack_any fuel host ct (pre ++ raw) c (blen pre + off) = shift_pres (blen pre) (unpack_any fuel host ct raw c off).
Proof.
  intros fuel host ct pre raw c off Hwf Hloc Ho. rewrite (Z.add_comm (blen pre) off).
  apply (unpack_any_prefix_gen true); [exact Hwf|exact Hloc|exact Ho|left; reflexivity].
Qed.

Theorem unpack_pkt_prefix : forall fuel host ct pre raw c off,
  ct_wf ct = true -> ct_local ct = true -> 0 <= off ->
  unpack_pkt fuel host ct (pre ++ raw) c (blen pre + off) = shift_pres (blen pre) (unpack_pkt fuel host ct raw c off).
Proof.
  intros fuel host ct pre raw c off Hwf Hloc Ho. rewrite (Z.add_comm (blen pre) off).
  apply (unpack_pkt_prefix_gen true); [exact Hwf|exact Hloc|exact Ho|left; reflexivity].
Qed.

Theorem unpack_any_prefix_ok : forall fuel host ct pre raw c off v e t,
  ct_wf ct = true -> ct_local_weak ct = true -> 0 <= off ->
  unpack_any fuel host ct raw c off = POk v e t ->
  unpack_any fuel host ct (pre ++ raw) c (blen pre + off) = POk v (e + blen pre) (map (shift_item (blen pre)) t).
Proof.
  intros fuel host ct pre raw c off v e t Hwf Hloc Ho H. rewrite (Z.add_comm (blen pre) off).
  rewrite (unpack_any_prefix_gen false host ct pre raw Hwf Hloc fuel c off Ho); [rewrite H; reflexivity|].
  right. exists v, e, t. exact H.
Qed.

(* the same for the generic loop *)
Theorem unpack_pkt_prefix_ok : forall fuel host ct pre raw c off v e t,
  ct_wf ct = true -> ct_local_weak ct = true -> 0 <= off ->
  unpack_pkt fuel host ct raw c off = POk v e t ->
  unpack_pkt fuel host ct (pre ++ raw) c (blen pre + off) = POk v (e + blen pre) (map (shift_item (blen pre)) t).
Proof.
  intros fuel host ct pre raw c off v e t Hwf Hloc Ho H. rewrite (Z.add_comm (blen pre) off).
  rewrite (unpack_pkt_prefix_gen false host ct pre raw Hwf Hloc fuel c off Ho); [rewrite H; reflexivity|].
  right. exists v, e, t. exact H.
Qed.

(* ------------------------------------------------------------------------------------------ *)
(* bytes after the input: slices and kernels                                                  *)
(* ------------------------------------------------------------------------------------------ *)

(* a part of a slice that came out whole is not affected by what follows the input *)
Lemma slice_post_le (raw post : bytes) (a b e : Z) : 0 <= a -> b <= e -> blen (slice raw a e) = e - a ->
  slice (raw ++ post) a b = slice raw a b.
Proof.
  intros Ha Hbe Hl. destruct (Z_le_gt_dec b a) as [Hba|Hba]; [rewrite !slice_empty by exact Hba; reflexivity|].
  apply slice_app_l; [exact Ha|]. rewrite blen_slice in Hl by exact Ha. lia.
Qed.

Lemma slice_post_full (raw post : bytes) (a e : Z) : 0 <= a -> blen (slice raw a e) = e - a ->
  slice (raw ++ post) a e = slice raw a e.
Proof. intros Ha Hl. apply (slice_post_le raw post a e e Ha (Z.le_refl e) Hl). Qed.

Lemma find_post : forall hay x m c, find hay m = Some c -> find (hay ++ x) m = Some c.
Proof.
  intros hay x m c H. destruct (find_least _ _ _ H) as (Hocc & Hmin).
  destruct (find_complete (hay ++ x) m c (occurs_at_app_r m hay x c Hocc)) as (i & Hi & Hle).
  destruct (Z.eq_dec i c) as [->|Hne]; [exact Hi|exfalso].
  destruct (find_least _ _ _ Hi) as (Hocci & _). destruct Hocc as (Hc0 & Hcl & _).
  apply (Hmin i); [destruct Hocci as (A & _); lia|]. apply (occurs_at_app_l m hay x i Hocci). lia.
Qed.

Section PostKernels.
Variables raw post : bytes.

Lemma window_post : forall off sbl, exists x, window (raw ++ post) off sbl = window raw off sbl ++ x.
Proof.
  intros off sbl.
  assert (exists x, slice_from (raw ++ post) off = slice_from raw off ++ x) as Hsf.
  { unfold slice_from. rewrite skipn_app. eexists. reflexivity. }
  unfold window. destruct sbl as [l|]; [destruct (l =? 0)|]; try exact Hsf.
  unfold slice. rewrite skipn_app, firstn_app. eexists. reflexivity.
Qed.

Lemma int_unpack_post : forall n s big off v o', 0 <= off -> int_unpack n s big raw off = Some (v, o') ->
  int_unpack n s big (raw ++ post) off = Some (v, o') /\ slice (raw ++ post) off o' = slice raw off o'.
Proof.
  intros n s big off v o' Ho H. destruct (int_unpack_some _ _ _ _ _ _ _ H) as (-> & Hl & Hd).
  assert (slice (raw ++ post) off (off + n) = slice raw off (off + n)) as E by (apply slice_post_full; [exact Ho|lia]).
  split; [|exact E]. unfold int_unpack. rewrite E, Hd. reflexivity.
Qed.

Lemma data_sized_post : forall off bc v o', 0 <= off -> data_sized raw off bc = Some (v, o') ->
  data_sized (raw ++ post) off bc = Some (v, o').
Proof.
  intros off bc v o' Ho H. unfold data_sized, data_next in *.
  destruct (data_short (blen (slice raw off (off + bc))) bc) eqn:S; [discriminate H|].
  unfold data_short in S. apply negb_false_iff, Z.eqb_eq in S.
  rewrite (slice_post_full raw post off (off + bc) Ho) by lia.
  unfold data_short. rewrite S, Z.eqb_refl. exact H.
Qed.

Lemma data_marker_post : forall off sbl m incl v o', 0 <= off -> data_marker raw off sbl m incl = Some (v, o') ->
  data_marker (raw ++ post) off sbl m incl = Some (v, o') /\ slice (raw ++ post) off o' = slice raw off o'.
Proof.
  intros off sbl m incl v o' Ho H. destruct (data_marker_raw _ _ _ _ _ _ _ Ho H) as (k & Hk & Ho' & Hl & Hv & _).
  pose proof (blen_nonneg m) as Hm.
  assert (forall b, b <= o' -> slice (raw ++ post) off b = slice raw off b) as Hsl.
  { intros b Hb. apply (slice_post_le raw post off b o' Ho Hb). lia. }
  split; [|apply Hsl; lia].
  apply data_marker_ok in H; [|exact Ho]. destruct H as (c & Hf & Ho'' & Hv'). assert (c = k) as -> by lia.
  destruct (window_post off sbl) as (x & Hw). unfold data_marker. rewrite Hw, (find_post _ x _ _ Hf).
  rewrite Hsl by (destruct incl; cbn [marker_count]; lia). f_equal. f_equal.
  - rewrite Hv'. destruct incl; reflexivity.
  - destruct incl; cbn [marker_count marker_extra]; lia.
Qed.

Lemma unpack_leaf_post : forall host cf c name l s off r, leaf_closed_rec l = true -> 0 <= off ->
  unpack_leaf host raw cf c name l s off = Ok r -> unpack_leaf host (raw ++ post) cf c name l s off = Ok r.
Proof.
  intros host cf c name l s off r Hl Ho H. destruct l as [n sg fe dflt|size isc dflt|m incl dflt|rx incl dflt|dflt];
    cbn [leaf_closed_rec] in Hl; try discriminate Hl; cbn [unpack_leaf] in *.
  - destruct (int_unpack n sg _ raw off) as [[x o1]|] eqn:E; [|discriminate H].
    destruct (int_unpack_post _ _ _ _ _ _ Ho E) as (E1 & E2). rewrite E1, E2. exact H.
  - rewrite (closed_eval_int_indep (mkctx (raw ++ post) s off) (mkctx raw s off) size eq_refl eq_refl Hl).
    unfold bind in *. destruct (eval_int (mkctx raw s off) size) as [bc|x]; [|discriminate H].
    destruct (data_sized raw off bc) as [[v o1]|] eqn:E; [|discriminate H].
    rewrite (data_sized_post _ _ _ _ Ho E). exact H.
  - destruct (data_marker raw off (lc_sbl cf) m incl) as [[v o1]|] eqn:E; [|discriminate H].
    destruct (data_marker_post _ _ _ _ _ _ Ho E) as (E1 & E2). rewrite E1, E2. exact H.
Qed.
End PostKernels.

(* ------------------------------------------------------------------------------------------ *)
(* bytes after the input: the field interpreters                                              *)
(* ------------------------------------------------------------------------------------------ *)

Section Suffix.
Variable host : bool.
Variables raw post : bytes.
Variables rec0 rec1 : cid -> Z -> pres.
Variable loop_fuel : nat.
Hypothesis Hrec : forall c o v e t, 0 <= o -> rec0 c o = POk v e t -> rec1 c o = POk v e t.
Hypothesis Hrec_nn : forall c o v e t, 0 <= o -> rec0 c o = POk v e t -> 0 <= e.
Hypothesis Hrec_cl : forall c o v e t, rec0 c o = POk v e t -> value_closed v = true.

Lemma Hrec_strict' : forall c o v e t, 0 <= o -> rec0 c o = POk v e t -> 0 <= e /\ tr_ok raw False t.
Proof. intros c o v e t Ho H. split; [exact (Hrec_nn _ _ _ _ _ Ho H)|intros []]. Qed.

Lemma rec_match_post : forall c' s name off s' o' t, 0 <= off ->
  match rec0 c' off with
  | POk v o1 t1 => FOk (slot_set s name v) o1 t1 | PFail st => FFail st | PFuel => FFuel end = FOk s' o' t ->
  match rec1 c' off with
  | POk v o1 t1 => FOk (slot_set s name v) o1 t1 | PFail st => FFail st | PFuel => FFuel end = FOk s' o' t.
Proof.
  intros c' s name off s' o' t Ho H. destruct (rec0 c' off) as [v o1 t1| |] eqn:E; try discriminate H.
  rewrite (Hrec _ _ _ _ _ Ho E). exact H.
Qed.

Lemma leaf_match_post : forall cf c name l s off s' o' t, leaf_closed_rec l = true -> 0 <= off ->
  match unpack_leaf host raw cf c name l s off with
  | Ok (v, o1, t1) => FOk (slot_set s name v) o1 t1 | Exn x => FExn x end = FOk s' o' t ->
  match unpack_leaf host (raw ++ post) cf c name l s off with
  | Ok (v, o1, t1) => FOk (slot_set s name v) o1 t1 | Exn x => FExn x end = FOk s' o' t.
Proof.
  intros cf c name l s off s' o' t Hl Ho H. destruct (unpack_leaf host raw cf c name l s off) as [r|] eqn:E; [|discriminate H].
  rewrite (unpack_leaf_post raw post _ _ _ _ _ _ _ _ Hl Ho E). exact H.
Qed.

Lemma unpack_elem_post : forall cf c name e s off s' o' t, elem_closed e = true -> cslots_ok s -> 0 <= off ->
  unpack_elem host raw rec0 cf c name e s off = FOk s' o' t ->
  unpack_elem host (raw ++ post) rec1 cf c name e s off = FOk s' o' t.
Proof.
  intros cf c name e s off s' o' t He Hs Ho H. destruct e as [l|c' proto|sel dflt]; cbn [unpack_elem elem_closed] in *.
  - apply leaf_match_post; assumption.
  - apply rec_match_post; assumption.
  - rewrite (closed_eval_indep (mkctx (raw ++ post) s off) (mkctx raw s off) sel eq_refl eq_refl He).
    destruct (eval (mkctx raw s off) sel) as [v|x] eqn:Ev; [|discriminate H].
    pose proof (closed_eval_ok (mkctx raw s off) sel v Hs He Ev) as Hv.
    destruct v; try discriminate H.
    + apply rec_match_post; assumption.
    + apply rec_match_post; assumption.
    + apply leaf_match_post; assumption.
Qed.

Lemma next_slots_ok' : forall s1 i, cslots_ok s1 -> cslots_ok (append_to s1 (FN i) (elem_value s1 (FSeqElem i))).
Proof.
  intros s1 i Hs1. apply (append_to_ok value_closed); [vl_hyps|exact Hs1|].
  apply (elem_value_ok value_closed); [vl_hyps|exact Hs1].
Qed.

Lemma unpack_elem_cs : forall cf c name e s off s' o' t, cslots_ok s ->
  unpack_elem host raw rec0 cf c name e s off = FOk s' o' t -> cslots_ok s'.
Proof. apply (unpack_elem_slots value_closed); try vl_hyps. exact Hrec_cl. Qed.

Lemma unpack_count_post : forall cf c i e al, elem_closed e = true -> 0 < al -> forall k s off t s' o' t',
  cslots_ok s -> 0 <= off ->
  unpack_count host raw rec0 cf c i e al k s off t = FOk s' o' t' ->
  unpack_count host (raw ++ post) rec1 cf c i e al k s off t = FOk s' o' t'.
Proof.
  intros cf c i e al He Hal. induction k as [|k IH]; intros s off t s' o' t' Hs Ho H; cbn [unpack_count] in *; [exact H|].
  destruct (seq_align al off) as [o1|] eqn:A; [|discriminate H].
  pose proof (seq_align_nonneg _ _ _ Hal Ho A) as Ho1.
  destruct (unpack_elem host raw rec0 cf c (FSeqElem i) e s o1) as [s1 o2 t1| | |] eqn:E; try discriminate H.
  rewrite (unpack_elem_post _ _ _ _ _ _ _ _ _ He Hs Ho1 E).
  apply IH; [|exact (proj1 (unpack_elem_ok host raw rec0 False Hrec_strict' _ _ _ _ _ _ _ _ _ Ho1 E))|exact H].
  apply next_slots_ok'. exact (unpack_elem_cs _ _ _ _ _ _ _ _ _ Hs E).
Qed.

Lemma unpack_until_post : forall cf c i e al until, elem_closed e = true -> expr_closed until = true -> 0 < al ->
  forall fuel s off t s' o' t', cslots_ok s -> 0 <= off ->
  unpack_until host raw rec0 fuel cf c i e al until s off t = FOk s' o' t' ->
  unpack_until host (raw ++ post) rec1 fuel cf c i e al until s off t = FOk s' o' t'.
Proof.
  intros cf c i e al until He Hu Hal. induction fuel as [|fuel IH]; intros s off t s' o' t' Hs Ho H; cbn [unpack_until] in *;
    rewrite (closed_eval_indep (mkctx (raw ++ post) s off) (mkctx raw s off) until eq_refl eq_refl Hu);
    (destruct (eval (mkctx raw s off) until) as [v|x]; [|discriminate H]);
    (destruct (truth v); [exact H|]); [exact H|].
  destruct (seq_align al off) as [o1|] eqn:A; [|discriminate H].
  pose proof (seq_align_nonneg _ _ _ Hal Ho A) as Ho1.
  destruct (unpack_elem host raw rec0 cf c (FSeqElem i) e s o1) as [s1 o2 t1| | |] eqn:E; try discriminate H.
  rewrite (unpack_elem_post _ _ _ _ _ _ _ _ _ He Hs Ho1 E).
  apply IH; [|exact (proj1 (unpack_elem_ok host raw rec0 False Hrec_strict' _ _ _ _ _ _ _ _ _ Ho1 E))|exact H].
  apply next_slots_ok'. exact (unpack_elem_cs _ _ _ _ _ _ _ _ _ Hs E).
Qed.

Lemma unpack_field_post : forall cf c f s off ipp s' o' t, cfield_closed f = true -> cfield_wf f = true ->
  cslots_ok s -> 0 <= off ->
  unpack_field host raw rec0 loop_fuel cf c f s off ipp = FOk s' o' t ->
  unpack_field host (raw ++ post) rec1 loop_fuel cf c f s off ipp = FOk s' o' t.
Proof.
  intros cf c f s off ipp s' o' t Hl Hwf Hs Ho H.
  destruct f as [i arg rf al|i e|i first last run0 shift mask nbytes dflt|i e count until when dflt al|i e when dflt|i];
    cbn [unpack_field cfield_closed] in *.
  - (* CMove *)
    destruct arg as [z|g|e]; try exact H.
    rewrite (closed_eval_int_indep (mkctx (raw ++ post) s off) (mkctx raw s off) e eq_refl eq_refl Hl). exact H.
  - (* CElem *) apply unpack_elem_post; assumption.
  - (* CBits *)
    destruct first; [|exact H].
    destruct (int_unpack nbytes false true raw off) as [[x o1]|] eqn:E; [|discriminate H].
    destruct (int_unpack_post raw post _ _ _ _ _ _ Ho E) as (E1 & E2). rewrite E1, E2. exact H.
  - (* CSeq *)
    apply andb_true_iff in Hl. destruct Hl as (Hl & Hwhen).
    apply andb_true_iff in Hl. destruct Hl as (Hl & Huntil). apply andb_true_iff in Hl. destruct Hl as (He & Hcount).
    cbn [cfield_wf] in Hwf. apply Z.ltb_lt in Hwf.
    assert (cslots_ok (slot_set s (FN i) (VList []))) as Hs0 by (apply slot_set_ok; [exact Hs|reflexivity]).
    set (s0 := slot_set s (FN i) (VList [])) in *.
    assert (match count with Some ce => eval_int (mkctx (raw ++ post) s0 off) ce | None => Ok 1 end =
            match count with Some ce => eval_int (mkctx raw s0 off) ce | None => Ok 1 end) as Ecount.
    { destruct count as [ce|]; [|reflexivity]. apply closed_eval_int_indep; [reflexivity|reflexivity|exact Hcount]. }
    rewrite Ecount. clear Ecount.
    destruct (match count with Some ce => eval_int (mkctx raw s0 off) ce | None => Ok 1 end) as [n|x]; [|discriminate H].
    assert (match when with
            | Some w => if n <=? 0 then Ok true
                        else match eval (mkctx (raw ++ post) s0 off) w with
                             | Ok v => Ok (negb (truth v)) | Exn x => Exn x end
            | None => Ok false end =
            match when with
            | Some w => if n <=? 0 then Ok true
                        else match eval (mkctx raw s0 off) w with
                             | Ok v => Ok (negb (truth v)) | Exn x => Exn x end
            | None => Ok false end) as Eskip.
    { destruct when as [w|]; [|reflexivity]. destruct (n <=? 0); [reflexivity|].
      rewrite (closed_eval_indep (mkctx (raw ++ post) s0 off) (mkctx raw s0 off) w eq_refl eq_refl Hwhen). reflexivity. }
    rewrite Eskip. clear Eskip.
    match goal with |- match ?m with Ok _ => _ | Exn _ => _ end = _ => destruct m as [[|]|x] end; try exact H; try discriminate H.
    destruct (unpack_count host raw rec0 cf c i e al (Z.to_nat n) s0 off []) as [s1 o1 t1| | |] eqn:C; try discriminate H.
    rewrite (unpack_count_post _ _ _ _ _ He Hwf _ _ _ _ _ _ _ Hs0 Ho C).
    destruct until as [u|]; [|exact H]. cbn [oexpr_closed] in Huntil.
    apply unpack_until_post; try assumption.
    + refine (unpack_count_slots value_closed _ _ _ _ host raw rec0 Hrec_cl _ _ _ _ _ _ _ _ _ _ _ _ Hs0 C); vl_hyps.
    + refine (proj1 (unpack_count_ok host raw rec0 False Hrec_strict' _ _ _ _ _ Hwf _ _ _ _ _ _ _ Ho _ C)). intros [].
  - (* COpt *)
    apply andb_true_iff in Hl. destruct Hl as (He & Hwhen).
    rewrite (closed_eval_indep (mkctx (raw ++ post) s off) (mkctx raw s off) when eq_refl eq_refl Hwhen).
    destruct (eval (mkctx raw s off) when) as [v|x]; [|discriminate H].
    destruct (truth v); [|exact H].
    destruct (unpack_elem host raw rec0 cf c (FOptElem i) e s off) as [s1 o2 t1| | |] eqn:E; try discriminate H.
    rewrite (unpack_elem_post _ _ _ _ _ _ _ _ _ He Hs Ho E). exact H.
  - (* CEm *) exact H.
Qed.

Lemma field_step_post : forall cf c f s off ipp (K0 K1 : slots -> Z -> trace -> pres) v e t,
  cfield_closed f = true -> cfield_wf f = true -> cslots_ok s -> 0 <= off ->
  (forall s1 o1 t1, cslots_ok s1 -> 0 <= o1 -> K0 s1 o1 t1 = POk v e t -> K1 s1 o1 t1 = POk v e t) ->
  match unpack_field host raw rec0 loop_fuel cf c f s off ipp with
  | FOk s1 o1 t1 => K0 s1 o1 t1
  | FExn _ => PFail [(off, cf_name f, c)]
  | FFail st => PFail (st ++ [(off, cf_name f, c)])
  | FFuel => PFuel end = POk v e t ->
  match unpack_field host (raw ++ post) rec1 loop_fuel cf c f s off ipp with
  | FOk s1 o1 t1 => K1 s1 o1 t1
  | FExn _ => PFail [(off, cf_name f, c)]
  | FFail st => PFail (st ++ [(off, cf_name f, c)])
  | FFuel => PFuel end = POk v e t.
Proof.
  intros cf c f s off ipp K0 K1 v e t Hl Hwf Hs Ho HK H.
  destruct (unpack_field host raw rec0 loop_fuel cf c f s off ipp) as [s1 o1 t1| | |] eqn:E; try discriminate H.
  rewrite (unpack_field_post _ _ _ _ _ _ _ _ _ Hl Hwf Hs Ho E). apply HK; [| |exact H].
  - refine (unpack_field_slots value_closed _ _ _ _ host raw rec0 loop_fuel Hrec_cl _ _ _ _ _ _ _ _ _ Hs E); vl_hyps.
  - exact (proj1 (unpack_field_ok host raw rec0 loop_fuel False Hrec_strict' _ _ _ _ _ _ _ _ _ Hwf Ho E)).
Qed.

Lemma unpack_fields_post : forall cf c fs s off ipp t v e t',
  forallb cfield_closed fs = true -> forallb cfield_wf fs = true -> cslots_ok s -> 0 <= off ->
  unpack_fields host raw rec0 loop_fuel cf c fs s off ipp t = POk v e t' ->
  unpack_fields host (raw ++ post) rec1 loop_fuel cf c fs s off ipp t = POk v e t'.
Proof.
  intros cf c. induction fs as [|f r IH]; intros s off ipp t v e t' Hl Hwf Hs Ho H; cbn [unpack_fields] in *; [exact H|].
  cbn [forallb] in Hl, Hwf. apply andb_true_iff in Hl. apply andb_true_iff in Hwf.
  destruct Hl as (Hlf & Hlr). destruct Hwf as (Hwf & Hwr).
  apply (field_step_post cf c f s off ipp
           (fun s1 o1 t1 => unpack_fields host raw rec0 loop_fuel cf c r s1 o1 ipp (t ++ t1))
           (fun s1 o1 t1 => unpack_fields host (raw ++ post) rec1 loop_fuel cf c r s1 o1 ipp (t ++ t1)));
    try assumption.
  intros s1 o1 t1 Hs1 Ho1 H1. apply IH; assumption.
Qed.

Definition block_closed (b : block) : Prop :=
  match b with BLoop f => cfield_closed f = true /\ cfield_wf f = true | BStruct _ _ => True end.

Lemma unpack_blocks_post : forall cf c bs s off ipp t v e t', Forall block_closed bs -> cslots_ok s -> 0 <= off ->
  unpack_blocks host raw rec0 loop_fuel cf c bs s off ipp t = POk v e t' ->
  unpack_blocks host (raw ++ post) rec1 loop_fuel cf c bs s off ipp t = POk v e t'.
Proof.
  intros cf c. induction bs as [|b r IH]; intros s off ipp t v e t' Hl Hs Ho H; cbn [unpack_blocks] in *; [exact H|].
  inversion Hl as [|b' r' Hb Hr]; subst. destruct b as [big ms|f].
  - destruct (Z.eqb_spec (blen (slice raw off (off + run_size ms))) (run_size ms)) as [El|El]; [|discriminate H].
    rewrite (slice_post_full raw post off (off + run_size ms) Ho) by lia. rewrite El, Z.eqb_refl.
    destruct (struct_unpack ms (slice raw off (off + run_size ms)) off s) as [s1 t1] eqn:S.
    pose proof (blen_nonneg (slice raw off (off + run_size ms))) as Hn.
    apply IH; [exact Hr| |lia|exact H].
    refine (struct_unpack_slots value_closed _ _ _ _ _ _ _ _ _ Hs S); vl_hyps.
  - destruct Hb as (Hlf & Hwf).
    apply (field_step_post cf c f s off ipp
             (fun s1 o1 t1 => unpack_blocks host raw rec0 loop_fuel cf c r s1 o1 ipp (t ++ t1))
             (fun s1 o1 t1 => unpack_blocks host (raw ++ post) rec1 loop_fuel cf c r s1 o1 ipp (t ++ t1)));
      try assumption.
    intros s1 o1 t1 Hs1 Ho1 H1. apply IH; assumption.
Qed.
End Suffix.

Lemma forallb_Forall_and' : forall fs, forallb cfield_closed fs = true -> forallb cfield_wf fs = true ->
  Forall (fun f => cfield_closed f = true /\ cfield_wf f = true) fs.
Proof.
  induction fs as [|f r IH]; intros Hl Hw; [constructor|]. cbn [forallb] in Hl, Hw.
  apply andb_true_iff in Hl. apply andb_true_iff in Hw. constructor; [split; [apply Hl|apply Hw]|apply IH; [apply Hl|apply Hw]].
Qed.

Theorem unpack_any_suffix : forall fuel host ct raw post c off v e t,
  ct_wf ct = true -> ct_closed ct = true -> 0 <= off ->
  unpack_any fuel host ct raw c off = POk v e t ->
  unpack_any fuel host ct (raw ++ post) c off = POk v e t.
Proof.
  intros fuel host ct raw post c off v e t Hwf Hcl. revert c off v e t.
  induction fuel as [|fuel IH]; intros c off v e t Ho H; cbn [unpack_any] in *; [discriminate H|].
  destruct (ct_get ct c) as [k|] eqn:K; [|discriminate H].
  pose proof (ct_get_forallb class_wf ct c k Hwf K) as Hk. unfold class_wf in Hk.
  pose proof (ct_get_forallb (fun k => forallb cfield_closed (cc_fields k)) ct c k Hcl K) as Hl. cbn beta in Hl.
  assert (forall c0 o v e t, 0 <= o -> unpack_any fuel host ct raw c0 o = POk v e t -> 0 <= e) as Hnn.
  { intros c0 o v0 e0 t0 Ho0 H0. exact (unpack_any_nonneg _ _ _ _ _ _ _ _ _ Hwf Ho0 H0). }
  assert (forall c0 o v e t, unpack_any fuel host ct raw c0 o = POk v e t -> value_closed v = true) as Hvl.
  { intros c0 o v0 e0 t0 H0. exact (closed_unpack_any_vl _ _ _ _ _ _ _ _ _ H0). }
  destruct (cc_gen_unpack k).
  - apply (unpack_blocks_post host raw post (unpack_any fuel host ct raw) (unpack_any fuel host ct (raw ++ post)) fuel
             IH Hnn Hvl); try assumption; [|reflexivity].
    eapply Forall_impl; [|apply gen_blocks_loops; exact (forallb_Forall_and' _ Hl Hk)].
    intros [big ms|f] Hb; [exact I|exact Hb].
  - apply (unpack_fields_post host raw post (unpack_any fuel host ct raw) (unpack_any fuel host ct (raw ++ post)) fuel
             IH Hnn Hvl); try assumption. reflexivity.
Qed.

Print Assumptions unpack_any_prefix.
Print Assumptions unpack_pkt_prefix.
Print Assumptions unpack_any_prefix_ok.
Print Assumptions unpack_pkt_prefix_ok.
Print Assumptions unpack_any_suffix.
