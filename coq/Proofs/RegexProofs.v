(* Proofs/RegexProofs.v -- soundness of the regexp pre-filter (Model/Pattern.v) for flat declarations over Int and
   Data: the derived expression matches every raw string that parses to a packet equal to the pattern. *)
From Coq Require Import ZArith List Bool Lia.
From Bisturi Require Import Base.Bytes Kernel.IntCodec Kernel.BitsK Kernel.DataK Kernel.Regex
  Model.Value Model.Decl Model.Unpack Model.Pattern
  Proofs.IntCodecProofs Proofs.DataProofs Proofs.StrictProofs Proofs.RoundTrip.
Import ListNotations. Open Scope Z_scope.

(* flat declarations over Int and Data (the property excludes a regex delimiter that is not kept in the value) *)
Definition flat_leaf (l : leaf) : bool :=
  match l with
  | LInt n _ _ _ => 1 <=? n
  | LDataRegex _ incl _ => incl
  | _ => true
  end.
Definition flat_field_nobits (f : cfield) : bool := match f with CElem _ (ELeafE l) => flat_leaf l | _ => false end.

(* ------------------------------------------------------------------------------------------ *)
(** * One byte class                                                                           *)
(* ------------------------------------------------------------------------------------------ *)

(* every list of n fixed / don't-care bits *)
Fixpoint all_masks (n : nat) : list (list (option bool)) :=
  match n with
  | O => [[]]
  | S k => flat_map (fun t => [None :: t; Some true :: t; Some false :: t]) (all_masks k)
  end.

Lemma all_masks_complete : forall n l, length l = n -> In l (all_masks n).
Proof.
  induction n as [|n IH]; intros l Hl.
  - destruct l; [left; reflexivity|discriminate Hl].
  - destruct l as [|b t]; [discriminate Hl|]. injection Hl as Hl.
    cbn [all_masks]. apply in_flat_map. exists t. split; [apply IH; exact Hl|].
    destruct b as [[|]|]; cbn [In]; auto.
Qed.

Definition all_bytes : list Z := map Z.of_nat (seq 0 256).

Lemma all_bytes_complete : forall x, 0 <= x < 256 -> In x all_bytes.
Proof.
  intros x Hx. unfold all_bytes. apply in_map_iff. exists (Z.to_nat x). split; [lia|].
  apply in_seq. lia.
Qed.

(* the two arithmetic cases of byte_class, as a decidable check on one mask and one byte *)
Definition class_check (l : list (option bool)) (x : Z) : bool :=
  if byte_matches l x then
    if all_none l then true
    else if all_some l then x =? bit_val l false
    else if all_none (skipn (first_none l) l) then (bit_val l false <=? x) && (x <=? bit_val l true)
    else true
  else true.

(* the finite bound: all 3^8 masks of exactly 8 bits, all 256 byte values *)
Lemma class_check_all : forallb (fun l => forallb (class_check l) all_bytes) (all_masks 8) = true.
Proof. vm_compute. reflexivity. Qed.

Lemma class_check_ok : forall l x, length l = 8%nat -> 0 <= x < 256 -> class_check l x = true.
Proof.
  intros l x Hl Hx. pose proof class_check_all as H.
  rewrite forallb_forall in H. specialize (H l (all_masks_complete 8 l Hl)).
  rewrite forallb_forall in H. exact (H x (all_bytes_complete x Hx)).
Qed.

(* one byte class is sound: every byte that agrees with the fixed bits is matched *)
Theorem byte_class_sound : forall l x rest, length l = 8%nat -> 0 <= x < 256 -> byte_matches l x = true ->
  matches (byte_class l) [x] rest.
Proof.
  intros l x rest Hl Hx Hm. pose proof (class_check_ok l x Hl Hx) as Hc.
  unfold class_check in Hc. rewrite Hm in Hc. unfold byte_class.
  destruct (all_none l).
  - apply MAny. reflexivity.
  - destruct (all_some l).
    + apply Z.eqb_eq in Hc. rewrite <- Hc. apply MLit.
    + destruct (all_none (skipn (first_none l) l)).
      * apply andb_true_iff in Hc as [H1 H2]. apply MRange. lia.
      * apply MSet. apply filter_In. split; [exact (all_bytes_complete x Hx)|exact Hm].
Qed.

(* ------------------------------------------------------------------------------------------ *)
(** * Building the expression of an Any field                                                  *)
(* ------------------------------------------------------------------------------------------ *)

(* as stated in the task (no side condition) the totality claim is false: a Data sized by a length FIELD looks that
   field up in the pattern, and building raises when its literal is not an integer *)
Example leaf_regex_total_any_refuted :
  let ps := [(FN 1, PAny); (FN 0, PLit VNone)] in
  pslot_get ps (FN 1) = Some PAny /\
  leaf_regex true empty_conf (FN 1) (LDataSized (EField (FN 0)) false VNone) ps = None.
Proof. vm_compute. split; reflexivity. Qed.

(* the side condition: the literal of the length field, when the pattern fixes it, is an integer *)
Definition len_field_int (l : leaf) (ps : pslots) : Prop :=
  match l with
  | LDataSized (EField g) _ _ => forall v, pslot_get ps g = Some (PLit v) -> as_int v <> None
  | _ => True
  end.

Theorem leaf_regex_total_any : forall host cf name l ps, pslot_get ps name = Some PAny ->
  len_field_int l ps ->
  exists rs, leaf_regex host cf name l ps = Some rs.
Proof.
  intros host cf name l ps Hp Hlen. unfold leaf_regex. rewrite Hp.
  destruct l as [n sg fe d|size isc d|m incl d|r incl d|d]; try (eexists; reflexivity).
  destruct size as [v|g|o a|o a b|sel opts|sel keys opts|c a b|a f| |].
  - destruct v, isc; try (eexists; reflexivity);
      destruct (other_any ps name); try (eexists; reflexivity);
      match goal with |- context [eval_int ?cx ?e] => destruct (eval_int cx e) end; eexists; reflexivity.
  - cbn [len_field_int] in Hlen.
    destruct (pslot_get ps g) as [[v|]|] eqn:G; try (destruct isc; eexists; reflexivity).
    specialize (Hlen v eq_refl). destruct (as_int v) as [z|]; [|congruence].
    destruct isc; eexists; reflexivity.
  - destruct isc; destruct (other_any ps name); try (eexists; reflexivity);
      match goal with |- context [eval_int ?cx ?e] => destruct (eval_int cx e) end; eexists; reflexivity.
  - destruct isc; destruct (other_any ps name); try (eexists; reflexivity);
      match goal with |- context [eval_int ?cx ?e] => destruct (eval_int cx e) end; eexists; reflexivity.
  - destruct isc; destruct (other_any ps name); try (eexists; reflexivity);
      match goal with |- context [eval_int ?cx ?e] => destruct (eval_int cx e) end; eexists; reflexivity.
  - destruct isc; destruct (other_any ps name); try (eexists; reflexivity);
      match goal with |- context [eval_int ?cx ?e] => destruct (eval_int cx e) end; eexists; reflexivity.
  - destruct isc; destruct (other_any ps name); try (eexists; reflexivity);
      match goal with |- context [eval_int ?cx ?e] => destruct (eval_int cx e) end; eexists; reflexivity.
  - destruct isc; destruct (other_any ps name); try (eexists; reflexivity);
      match goal with |- context [eval_int ?cx ?e] => destruct (eval_int cx e) end; eexists; reflexivity.
  - destruct isc; destruct (other_any ps name); try (eexists; reflexivity);
      match goal with |- context [eval_int ?cx ?e] => destruct (eval_int cx e) end; eexists; reflexivity.
  - destruct isc; destruct (other_any ps name); try (eexists; reflexivity);
      match goal with |- context [eval_int ?cx ?e] => destruct (eval_int cx e) end; eexists; reflexivity.
Qed.

(* ------------------------------------------------------------------------------------------ *)
(** * Pattern slots                                                                            *)
(* ------------------------------------------------------------------------------------------ *)

Lemma pslot_get_in : forall ps g p, pslot_get ps g = Some p -> In (g, p) ps.
Proof.
  induction ps as [|[g' q] r IH]; intros g p H; cbn [pslot_get] in H; [discriminate H|].
  destruct (fname_eqb_spec g g') as [->|N].
  - injection H as <-. left. reflexivity.
  - right. apply IH. exact H.
Qed.

Lemma pslot_get_lit : forall ps g x, pslot_get ps g = Some (PLit x) -> slot_get (lit_slots ps) g = Some x.
Proof.
  induction ps as [|[g' q] r IH]; intros g x H; cbn [pslot_get] in H; [discriminate H|].
  destruct (fname_eqb_spec g g') as [->|N].
  - injection H as ->. cbn [lit_slots slot_get].
    destruct (fname_eqb_spec g' g') as [_|N]; [reflexivity|congruence].
  - destruct q as [y|]; cbn [lit_slots slot_get].
    + destruct (fname_eqb_spec g g') as [E|_]; [congruence|]. apply IH. exact H.
    + apply IH. exact H.
Qed.

Lemma other_any_false : forall ps me g, other_any ps me = false -> pslot_get ps g = Some PAny -> g = me.
Proof.
  intros ps me g Ho Hg. apply pslot_get_in in Hg. unfold other_any in Ho.
  destruct (fname_eqb_spec g me) as [E|N]; [exact E|]. exfalso.
  assert (existsb (fun p : fname * pval => match snd p with PAny => negb (fname_eqb (fst p) me) | PLit _ => false end) ps = true) as Hx.
  { apply existsb_exists. exists (g, PAny). split; [exact Hg|]. cbn [fst snd].
    destruct (fname_eqb_spec g me) as [E|_]; [congruence|reflexivity]. }
  congruence.
Qed.

(* ------------------------------------------------------------------------------------------ *)
(** * A size expression evaluated again on the pattern packet                                  *)
(* ------------------------------------------------------------------------------------------ *)

(* the context as_regular_expression evaluates in: the packet only, no offset, no raw *)
Definition nctx (s : slots) : ectx := {| e_slots := s; e_offset := None; e_rawlen := None |}.

(* if the second packet has every attribute the first has, with the same value, the second evaluation cannot
   succeed with another value (it may raise: the offset and the raw length are absent) *)
Lemma eval_weak (raw : bytes) (s : slots) (off : Z) (s' : slots) :
  (forall g v, slot_get s g = Some v -> slot_get s' g = Some v) ->
  forall e v w, eval (mkctx raw s off) e = Ok v -> eval (nctx s') e = Ok w -> w = v.
Proof.
  intros Hag. fix IH 1. intros e.
  destruct e as [u|f|o a|o l r|sel opts|sel keys opts|c a b|a f| |]; intros v w He Hw.
  - cbn [eval] in *. congruence.
  - cbn [eval mkctx nctx e_slots] in *.
    destruct (slot_get s f) as [x|] eqn:G; [|discriminate He].
    rewrite (Hag f x G) in Hw. congruence.
  - cbn [eval] in *.
    destruct (eval (mkctx raw s off) a) as [x|] eqn:E1; [|discriminate He].
    destruct (eval (nctx s') a) as [x'|] eqn:E1'; [|discriminate Hw].
    rewrite (IH a x x' E1 E1') in Hw. cbn [bind] in *. congruence.
  - cbn [eval] in *.
    destruct (eval (mkctx raw s off) l) as [x|] eqn:E1; [|discriminate He].
    destruct (eval (nctx s') l) as [x'|] eqn:E1'; [|discriminate Hw]. cbn [bind] in He, Hw.
    destruct (eval (mkctx raw s off) r) as [y|] eqn:E2; [|discriminate He].
    destruct (eval (nctx s') r) as [y'|] eqn:E2'; [|discriminate Hw]. cbn [bind] in He, Hw.
    rewrite (IH l x x' E1 E1'), (IH r y y' E2 E2') in Hw. congruence.
  - cbn [eval] in *.
    destruct (eval (mkctx raw s off) sel) as [x|] eqn:E1; [|discriminate He].
    destruct (eval (nctx s') sel) as [x'|] eqn:E1'; [|discriminate Hw]. cbn [bind] in He, Hw.
    match type of He with bind ?G _ = _ => destruct G as [vs|] eqn:E2; [|discriminate He] end.
    match type of Hw with bind ?G _ = _ => destruct G as [ws|] eqn:E2'; [|discriminate Hw] end.
    cbn [bind] in He, Hw.
    assert (ws = vs) as ->.
    { clear He Hw. revert vs ws E2 E2'. induction opts as [|a r IHr]; intros vs ws E2 E2'.
      - congruence.
      - destruct (eval (mkctx raw s off) a) as [y|] eqn:Ea; [|discriminate E2].
        destruct (eval (nctx s') a) as [y'|] eqn:Ea'; [|discriminate E2']. cbn [bind] in E2, E2'.
        match type of E2 with bind ?G _ = _ => destruct G as [ys|] eqn:Er; [|discriminate E2] end.
        match type of E2' with bind ?G _ = _ => destruct G as [ys'|] eqn:Er'; [|discriminate E2'] end.
        cbn [bind] in E2, E2'. rewrite (IH a y y' Ea Ea'), (IHr ys ys' eq_refl eq_refl) in E2'. congruence. }
    rewrite (IH sel x x' E1 E1') in Hw. congruence.
  - cbn [eval] in *.
    destruct (eval (mkctx raw s off) sel) as [x|] eqn:E1; [|discriminate He].
    destruct (eval (nctx s') sel) as [x'|] eqn:E1'; [|discriminate Hw]. cbn [bind] in He, Hw.
    match type of He with bind ?G _ = _ => destruct G as [vs|] eqn:E2; [|discriminate He] end.
    match type of Hw with bind ?G _ = _ => destruct G as [ws|] eqn:E2'; [|discriminate Hw] end.
    cbn [bind] in He, Hw.
    assert (ws = vs) as ->.
    { clear He Hw. revert vs ws E2 E2'. induction opts as [|a r IHr]; intros vs ws E2 E2'.
      - congruence.
      - destruct (eval (mkctx raw s off) a) as [y|] eqn:Ea; [|discriminate E2].
        destruct (eval (nctx s') a) as [y'|] eqn:Ea'; [|discriminate E2']. cbn [bind] in E2, E2'.
        match type of E2 with bind ?G _ = _ => destruct G as [ys|] eqn:Er; [|discriminate E2] end.
        match type of E2' with bind ?G _ = _ => destruct G as [ys'|] eqn:Er'; [|discriminate E2'] end.
        cbn [bind] in E2, E2'. rewrite (IH a y y' Ea Ea'), (IHr ys ys' eq_refl eq_refl) in E2'. congruence. }
    rewrite (IH sel x x' E1 E1') in Hw. congruence.
  - cbn [eval] in *.
    destruct (eval (mkctx raw s off) c) as [x|] eqn:E1; [|discriminate He].
    destruct (eval (nctx s') c) as [x'|] eqn:E1'; [|discriminate Hw]. cbn [bind] in He, Hw.
    destruct (eval (mkctx raw s off) a) as [y|] eqn:E2; [|discriminate He].
    destruct (eval (nctx s') a) as [y'|] eqn:E2'; [|discriminate Hw]. cbn [bind] in He, Hw.
    destruct (eval (mkctx raw s off) b) as [z|] eqn:E3; [|discriminate He].
    destruct (eval (nctx s') b) as [z'|] eqn:E3'; [|discriminate Hw]. cbn [bind] in He, Hw.
    rewrite (IH c x x' E1 E1'), (IH a y y' E2 E2'), (IH b z z' E3 E3') in Hw. congruence.
  - cbn [eval] in *.
    destruct (eval (mkctx raw s off) a) as [x|] eqn:E1; [|discriminate He].
    destruct (eval (nctx s') a) as [x'|] eqn:E1'; [|discriminate Hw]. cbn [bind] in He, Hw.
    rewrite (IH a x x' E1 E1') in Hw. congruence.
  - cbn [eval nctx e_offset] in Hw. discriminate Hw.
  - cbn [eval nctx e_rawlen] in Hw. discriminate Hw.
Qed.

Lemma eval_int_weak (raw : bytes) (s : slots) (off : Z) (s' : slots) (e : expr) (z z' : Z) :
  (forall g v, slot_get s g = Some v -> slot_get s' g = Some v) ->
  eval_int (mkctx raw s off) e = Ok z -> eval_int (nctx s') e = Ok z' -> z' = z.
Proof.
  intros Hag. unfold eval_int.
  destruct (eval (mkctx raw s off) e) as [v|] eqn:E; [|discriminate].
  destruct (eval (nctx s') e) as [v'|] eqn:E'; [|discriminate]. cbn [bind].
  rewrite (eval_weak raw s off s' Hag e v v' E E'). congruence.
Qed.

(* ------------------------------------------------------------------------------------------ *)
(** * Words of the delimiter class                                                             *)
(* ------------------------------------------------------------------------------------------ *)

Lemma count_run_firstn (c : Z) : forall hay,
  firstn (Z.to_nat (count_run c hay)) hay = repeat c (Z.to_nat (count_run c hay)).
Proof.
  induction hay as [|b h IH]; cbn [count_run]; [reflexivity|].
  destruct (Z.eqb_spec b c) as [->|N]; [|reflexivity].
  destruct (count_run_spec c h) as ((H0 & _) & _).
  replace (Z.to_nat (1 + count_run c h)) with (S (Z.to_nat (count_run c h))) by lia.
  cbn [firstn repeat]. rewrite IH. reflexivity.
Qed.

Lemma alt_matches_word (a : alt) (hay : bytes) (n : Z) :
  alt_matches a hay n -> alt_word a (firstn (Z.to_nat n) hay).
Proof.
  destruct a as [b|c]; cbn [alt_matches].
  - intros [-> Hp]. apply is_prefix_spec in Hp. destruct Hp as (t & ->).
    unfold blen. rewrite Nat2Z.id, firstn_len_app. apply AWLit.
  - intros [-> Hn]. rewrite count_run_firstn. apply AWPlus. lia.
Qed.

(* ------------------------------------------------------------------------------------------ *)
(** * Slices                                                                                   *)
(* ------------------------------------------------------------------------------------------ *)

Lemma slice_from_split (raw : bytes) (a b : Z) : 0 <= a <= b ->
  slice_from raw a = slice raw a b ++ slice_from raw b.
Proof.
  intros H. unfold slice_from, slice.
  replace (Z.to_nat b) with (Z.to_nat a + Z.to_nat (b - a))%nat by lia.
  rewrite skipn_add. symmetry. apply firstn_skipn.
Qed.

Lemma slice_from_end (raw : bytes) : slice_from raw (blen raw) = [].
Proof. unfold slice_from, blen. rewrite Nat2Z.id. apply skipn_all. Qed.

(* ------------------------------------------------------------------------------------------ *)
(** * One leaf                                                                                 *)
(* ------------------------------------------------------------------------------------------ *)

(* the parts `a` of a leaf that consumed raw[off:o'), in front of any parts that match what follows *)
Definition leaf_sound (raw : bytes) (off o' : Z) (a : list rx) : Prop :=
  forall b ws rest, slice_from raw o' = ws ++ rest -> matches_seq b ws rest ->
    matches_seq (a ++ b) (slice raw off o' ++ ws) rest.

Lemma sound_one (raw : bytes) (off o' : Z) (r : rx) :
  (forall rest, matches r (slice raw off o') rest) -> leaf_sound raw off o' [r].
Proof.
  intros H b ws rest _ Hb. cbn [app]. apply MSCons; [apply H|exact Hb].
Qed.

Lemma sound_star (raw : bytes) (off o' : Z) (r : rx) (w1 w2 : bytes) :
  slice raw off o' = w1 ++ w2 ->
  (forall rest, slice_from raw o' = rest -> matches r w2 rest) ->
  leaf_sound raw off o' [RStar; r].
Proof.
  intros Hs H b ws rest Hr Hb. cbn [app]. rewrite Hs, <- app_assoc.
  apply MSCons; [apply MStar|]. apply MSCons; [|exact Hb]. apply H. exact Hr.
Qed.

(* the three shapes of the expression of an Any Data field given by its size *)
Definition sized_generic (ps : pslots) (name : fname) (size : expr) : option (list rx) :=
  if other_any ps name then Some [RStar]
  else match eval_int (nctx (lit_slots ps)) size with
       | Ok z => Some [RAny z]
       | Exn _ => Some [RStar]
       end.

Lemma sized_any_cases (host : bool) (cf : lconf) (name : fname) (size : expr) (isc : bool) (d : value)
      (ps : pslots) (a : list rx) :
  pslot_get ps name = Some PAny ->
  leaf_regex host cf name (LDataSized size isc d) ps = Some a ->
  (exists n, size = ELit (VInt n) /\ a = [RAny n]) \/
  (exists g, size = EField g /\
             match pslot_get ps g with
             | Some (PLit v) => match as_int v with Some z => Some [RAny z] | None => None end
             | _ => Some [RStar]
             end = Some a) \/
  sized_generic ps name size = Some a.
Proof.
  intros Hp H. unfold leaf_regex in H. rewrite Hp in H. unfold sized_generic, nctx.
  destruct size as [v|g|o x|o x y|sel opts|sel keys opts|c x y|x f| |];
    try (right; right; destruct isc; exact H).
  - destruct v; try (right; right; destruct isc; exact H).
    destruct isc; [|right; right; exact H].
    left. exists z. split; [reflexivity|]. congruence.
  - right; left. exists g. split; [reflexivity|]. destruct isc; exact H.
Qed.

(* what the pattern says about the attributes the packet has so far: each is in the pattern, and when the
   pattern fixes it, fixed to this very value *)
Definition knows (ps : pslots) (s : slots) : Prop :=
  forall g w, slot_get s g = Some w -> exists q, pslot_get ps g = Some q /\ forall x, q = PLit x -> x = w.

Section Leaf.
Variables (host : bool) (raw : bytes) (cf : lconf) (c : cid) (name : fname) (ps : pslots).
Hypothesis Hraw : wf_bytes raw.

Lemma int_regex_sound (n : Z) (sg : bool) (fe : option endian) (d : value) (s : slots) (off : Z)
      (v : value) (o' : Z) (t : trace) (p : pval) (a : list rx) :
  0 <= off <= blen raw -> 1 <= n ->
  unpack_leaf host raw cf c name (LInt n sg fe d) s off = Ok (v, o', t) ->
  pslot_get ps name = Some p -> (forall x, p = PLit x -> x = v) ->
  leaf_regex host cf name (LInt n sg fe d) ps = Some a ->
  off <= o' <= blen raw /\ leaf_sound raw off o' a.
Proof.
  intros Ho Hn H Hp Hv Hr. cbn [unpack_leaf] in H.
  destruct (int_unpack n sg _ raw off) as [[x o1]|] eqn:E; [|discriminate H].
  injection H as <- <- <-. apply int_unpack_strict in E; [|lia|exact Hn].
  destruct E as (-> & Hle & Hd & Hl). split; [lia|].
  unfold leaf_regex in Hr. rewrite Hp in Hr. destruct p as [y|].
  - rewrite (Hv y eq_refl) in Hr. cbn [as_int] in Hr.
    destruct (encode n sg _ x) as [b'|] eqn:En; [|discriminate Hr]. injection Hr as <-.
    destruct (encode_decode n sg (is_bigendian (resolve_endianness fe (lc_endianness cf)) host)
                (slice raw off (off + n)) Hn Hl (wf_bytes_slice raw off (off + n) Hraw)) as (x' & Hd' & _ & He').
    assert (x' = x) as -> by congruence. assert (b' = slice raw off (off + n)) as -> by congruence.
    apply sound_one. intros rest. apply MLit.
  - injection Hr as <-. apply sound_one. intros rest. apply MAny. exact Hl.
Qed.

Lemma sized_regex_sound (size : expr) (isc : bool) (d : value) (s : slots) (off : Z)
      (v : value) (o' : Z) (t : trace) (p : pval) (a : list rx) :
  0 <= off <= blen raw ->
  unpack_leaf host raw cf c name (LDataSized size isc d) s off = Ok (v, o', t) ->
  pslot_get ps name = Some p -> (forall x, p = PLit x -> x = v) ->
  slot_get s name = None -> knows ps s ->
  leaf_regex host cf name (LDataSized size isc d) ps = Some a ->
  off <= o' <= blen raw /\ leaf_sound raw off o' a.
Proof.
  intros Ho H Hp Hv Hnone Hk Hr. cbn [unpack_leaf] in H. unfold bind in H.
  destruct (eval_int (mkctx raw s off) size) as [bc|ex] eqn:Ev; [|discriminate H].
  destruct (data_sized raw off bc) as [[b o1]|] eqn:E; [|discriminate H].
  injection H as <- <- <-. apply data_sized_ok in E; [|lia].
  destruct E as (Hbc & -> & Hl & Hb & Hin).
  assert (off + bc <= blen raw) as Hle.
  { destruct (Z.eq_dec bc 0) as [->|N]; [lia|apply Hin; lia]. }
  split; [lia|].
  destruct p as [y|].
  - unfold leaf_regex in Hr. rewrite Hp in Hr. rewrite (Hv y eq_refl) in Hr. injection Hr as <-.
    apply sound_one. intros rest. rewrite <- Hb. apply MLit.
  - clear Hv. destruct (sized_any_cases host cf name size isc d ps a Hp Hr) as [(n & -> & ->)|[(g & -> & Hg)|Hg]].
    + apply sound_one. intros rest. rewrite <- Hb. apply MAny.
      unfold eval_int in Ev. cbn [eval bind as_int] in Ev. congruence.
    + unfold eval_int in Ev. cbn [eval mkctx e_slots] in Ev.
      destruct (slot_get s g) as [w|] eqn:G; [|discriminate Ev]. cbn [bind] in Ev.
      destruct (Hk g w G) as (q & Hq & Hqv). rewrite Hq in Hg.
      destruct q as [y|].
      * rewrite (Hqv y eq_refl) in Hg. destruct (as_int w) as [z|]; [|discriminate Hg].
        injection Hg as <-. injection Ev as ->.
        apply sound_one. intros rest. rewrite <- Hb. apply MAny. exact Hl.
      * injection Hg as <-. apply sound_one. intros rest. apply MStar.
    + unfold sized_generic in Hg. destruct (other_any ps name) eqn:Oa.
      * injection Hg as <-. apply sound_one. intros rest. apply MStar.
      * destruct (eval_int (nctx (lit_slots ps)) size) as [z|ex] eqn:Ev'.
        -- injection Hg as <-.
           assert (z = bc) as ->.
           { apply (eval_int_weak raw s off (lit_slots ps) size bc z); [|exact Ev|exact Ev'].
             intros g w G. destruct (Hk g w G) as (q & Hq & Hqv). destruct q as [y|].
             - rewrite <- (Hqv y eq_refl). apply pslot_get_lit. exact Hq.
             - apply (other_any_false ps name g Oa) in Hq. congruence. }
           apply sound_one. intros rest. rewrite <- Hb. apply MAny. exact Hl.
        -- injection Hg as <-. apply sound_one. intros rest. apply MStar.
Qed.

Lemma marker_regex_sound (m : bytes) (incl : bool) (d : value) (s : slots) (off : Z)
      (v : value) (o' : Z) (t : trace) (p : pval) (a : list rx) :
  0 <= off <= blen raw ->
  unpack_leaf host raw cf c name (LDataMarker m incl d) s off = Ok (v, o', t) ->
  pslot_get ps name = Some p -> (forall x, p = PLit x -> x = v) ->
  leaf_regex host cf name (LDataMarker m incl d) ps = Some a ->
  off <= o' <= blen raw /\ leaf_sound raw off o' a.
Proof.
  intros Ho H Hp Hv Hr. cbn [unpack_leaf] in H.
  destruct (data_marker raw off (lc_sbl cf) m incl) as [[val o1]|] eqn:E; [|discriminate H].
  injection H as <- <- <-. apply data_marker_raw in E; [|lia].
  destruct E as (k & Hk & Ho1 & Hl & Hval & Hsp). pose proof (blen_nonneg m) as Hm.
  assert (o1 <= blen raw) as Hle.
  { rewrite blen_slice in Hl by lia. lia. }
  split; [lia|]. unfold leaf_regex in Hr. rewrite Hp in Hr. destruct p as [y|].
  - rewrite (Hv y eq_refl) in Hr. injection Hr as <-. apply sound_one. intros rest.
    assert (val ++ (if incl then [] else m) = slice raw off o1) as ->; [|apply MLit].
    destruct incl.
    + rewrite app_nil_r, Hval, Ho1. f_equal. lia.
    + rewrite Hval. symmetry. exact Hsp.
  - injection Hr as <-. apply (sound_star raw off o1 (RLit m) _ _ Hsp). intros rest _. apply MLit.
Qed.

Lemma regexd_regex_sound (r : regex) (d : value) (s : slots) (off : Z)
      (v : value) (o' : Z) (t : trace) (p : pval) (a : list rx) :
  0 <= off <= blen raw ->
  unpack_leaf host raw cf c name (LDataRegex r true d) s off = Ok (v, o', t) ->
  pslot_get ps name = Some p -> (forall x, p = PLit x -> x = v) ->
  leaf_regex host cf name (LDataRegex r true d) ps = Some a ->
  off <= o' <= blen raw /\ leaf_sound raw off o' a.
Proof.
  intros Ho H Hp Hv Hr. cbn [unpack_leaf] in H.
  destruct (data_regex raw off (lc_sbl cf) r true) as [[[val o1] dl]|] eqn:E; [|discriminate H].
  injection H as <- <- <-. apply data_regex_ok in E; [|lia].
  destruct E as (st & en & Hs & -> & Hval & _).
  destruct (re_search_bounds _ _ _ _ Hs) as ((Hst & Hse) & Hen).
  pose proof (window_prefix_len raw off (lc_sbl cf) en ltac:(lia) ltac:(lia) Hen) as Hl.
  assert (off + en <= blen raw) as Hle.
  { rewrite blen_slice in Hl by lia. lia. }
  split; [lia|]. unfold leaf_regex in Hr. rewrite Hp in Hr. destruct p as [y|].
  - rewrite (Hv y eq_refl) in Hr. injection Hr as <-. apply sound_one. intros rest.
    rewrite Hval. apply MLit.
  - injection Hr as <-.
    apply (sound_star raw off (off + en) (RDelim r) (slice raw off (off + st)) (slice raw (off + st) (off + en))).
    + apply RoundTrip.slice_split; lia.
    + intros rest _.
      destruct (re_search_leftmost _ _ _ _ Hs) as (_ & Hmh & _).
      apply match_here_spec in Hmh. destruct Hmh as (pre & al & post & Er & Hal & _).
      apply (MDelim r _ rest al); [rewrite Er; apply in_or_app; right; left; reflexivity|].
      apply alt_matches_word in Hal.
      change (firstn (Z.to_nat (en - st)) (slice_from (window raw off (lc_sbl cf)) st))
        with (slice (window raw off (lc_sbl cf)) st en) in Hal.
      pose proof (window_prefix raw off (lc_sbl cf) en ltac:(lia) ltac:(lia) Hen) as Hw.
      assert (slice (slice (window raw off (lc_sbl cf)) 0 en) st en = slice (slice raw off (off + en)) st en) as Hx
        by (rewrite Hw; reflexivity).
      rewrite !slice_slice in Hx by lia. rewrite Z.add_0_l, !Z.min_id in Hx.
      rewrite <- Hx. exact Hal.
Qed.

Lemma eos_regex_sound (d : value) (s : slots) (off : Z)
      (v : value) (o' : Z) (t : trace) (p : pval) (a : list rx) :
  0 <= off <= blen raw ->
  unpack_leaf host raw cf c name (LDataEos d) s off = Ok (v, o', t) ->
  pslot_get ps name = Some p -> (forall x, p = PLit x -> x = v) ->
  leaf_regex host cf name (LDataEos d) ps = Some a ->
  off <= o' <= blen raw /\ leaf_sound raw off o' a.
Proof.
  intros Ho H Hp Hv Hr. cbn [unpack_leaf] in H. rewrite (data_eos_spec raw off Ho) in H.
  injection H as <- <- <-. split; [lia|].
  assert (slice raw off (blen raw) = slice_from raw off) as Hsl by (symmetry; apply slice_from_eq; lia).
  unfold leaf_regex in Hr. rewrite Hp in Hr. destruct p as [y|].
  - rewrite (Hv y eq_refl) in Hr. injection Hr as <-. apply sound_one. intros rest.
    rewrite Hsl. apply MLit.
  - injection Hr as <-. apply (sound_star raw off (blen raw) REnd (slice raw off (blen raw)) []).
    + symmetry. apply app_nil_r.
    + intros rest Hrest. rewrite slice_from_end in Hrest. subst rest. apply MEnd.
Qed.

Lemma leaf_regex_sound (l : leaf) (s : slots) (off : Z) (v : value) (o' : Z) (t : trace) (p : pval) (a : list rx) :
  0 <= off <= blen raw -> flat_leaf l = true ->
  unpack_leaf host raw cf c name l s off = Ok (v, o', t) ->
  pslot_get ps name = Some p -> (forall x, p = PLit x -> x = v) ->
  slot_get s name = None -> knows ps s ->
  leaf_regex host cf name l ps = Some a ->
  off <= o' <= blen raw /\ leaf_sound raw off o' a.
Proof.
  intros Ho Hf H Hp Hv Hnone Hk Hr. destruct l as [n sg fe d|size isc d|m incl d|r incl d|d]; cbn [flat_leaf] in Hf.
  - apply Z.leb_le in Hf. exact (int_regex_sound n sg fe d s off v o' t p a Ho Hf H Hp Hv Hr).
  - exact (sized_regex_sound size isc d s off v o' t p a Ho H Hp Hv Hnone Hk Hr).
  - exact (marker_regex_sound m incl d s off v o' t p a Ho H Hp Hv Hr).
  - subst incl. exact (regexd_regex_sound r d s off v o' t p a Ho H Hp Hv Hr).
  - exact (eos_regex_sound d s off v o' t p a Ho H Hp Hv Hr).
Qed.
End Leaf.

(* ------------------------------------------------------------------------------------------ *)
(** * The field loop                                                                           *)
(* ------------------------------------------------------------------------------------------ *)

(* the parsed packet equals the pattern, literally: every fixed field of the pattern IS the parsed value *)
Definition pattern_is (fs : list cfield) (ps : pslots) (s : slots) : Prop :=
  forall f, In f fs -> match f with
                       | CElem i _ | CBits i _ _ _ _ _ _ _ =>
                           exists p v, pslot_get ps (FN i) = Some p /\ slot_get s (FN i) = Some v /\
                                       match p with PAny => True | PLit x => x = v end
                       | _ => False
                       end.

Section Loop.
Variables (host : bool) (raw : bytes) (rec_unpack : cid -> Z -> pres) (loop_fuel : nat) (ps : pslots)
          (cf : lconf) (c : cid).
Hypothesis Hraw : wf_bytes raw.

(* attributes are only ever added: with distinct indices, what the packet has is never overwritten *)
Lemma fields_keep : forall fs s off ipp t c' sf e t',
  forallb flat_field_nobits fs = true -> NoDup (fidxs fs) ->
  (forall j, In j (fidxs fs) -> slot_get s (FN j) = None) ->
  unpack_fields host raw rec_unpack loop_fuel cf c fs s off ipp t = POk (VPkt c' sf) e t' ->
  forall g w, slot_get s g = Some w -> slot_get sf g = Some w.
Proof.
  induction fs as [|f r IH]; intros s off ipp t c' sf e t' Hflat Hnd Hnone H g w G.
  - cbn [unpack_fields] in H. injection H as _ <- _ _. exact G.
  - cbn [forallb] in Hflat. apply andb_true_iff in Hflat as [Hf Hflat].
    destruct f as [ | i [l| |] | | | | ]; try discriminate Hf.
    cbn [unpack_fields unpack_field unpack_elem] in H.
    destruct (unpack_leaf host raw cf c (FN i) l s off) as [[[v o1] t1]|x] eqn:EL; [|discriminate H].
    change (fidxs (CElem i (ELeafE l) :: r)) with (i :: fidxs r) in Hnd, Hnone.
    inversion Hnd as [|i' r' Hni Hnd']; subst i' r'.
    apply (IH _ _ _ _ _ _ _ _ Hflat Hnd') with (g := g) (w := w) in H; [exact H| |].
    + intros j Hj. rewrite slot_get_set_other; [apply Hnone; right; exact Hj|].
      intros E. injection E as ->. contradiction.
    + rewrite slot_get_set_other; [exact G|].
      intros ->. rewrite (Hnone i (or_introl eq_refl)) in G. discriminate G.
Qed.

Lemma fields_sound : forall fs s off ipp t c' sf e t' rs,
  forallb flat_field_nobits fs = true -> NoDup (fidxs fs) ->
  (forall j, In j (fidxs fs) -> slot_get s (FN j) = None) ->
  0 <= off <= blen raw -> knows ps s -> pattern_is fs ps sf ->
  unpack_fields host raw rec_unpack loop_fuel cf c fs s off ipp t = POk (VPkt c' sf) e t' ->
  fields_regex host cf fs ps [] = Some rs ->
  off <= e <= blen raw /\ matches_seq rs (slice raw off e) (slice_from raw e).
Proof.
  induction fs as [|f r IH]; intros s off ipp t c' sf e t' rs Hflat Hnd Hnone Ho Hk Hpat H Hr.
  - cbn [unpack_fields] in H. injection H as _ _ <- _. cbn [fields_regex] in Hr. injection Hr as <-.
    split; [lia|]. rewrite slice_same. apply MSNil.
  - cbn [forallb] in Hflat. apply andb_true_iff in Hflat as [Hf Hflat].
    destruct f as [ | i [l| |] | | | | ]; try discriminate Hf. cbn [flat_field_nobits] in Hf.
    cbn [unpack_fields unpack_field unpack_elem] in H.
    destruct (unpack_leaf host raw cf c (FN i) l s off) as [[[v o1] t1]|x] eqn:EL; [|discriminate H].
    change (fidxs (CElem i (ELeafE l) :: r)) with (i :: fidxs r) in Hnd, Hnone.
    inversion Hnd as [|i' r' Hni Hnd']; subst i' r'.
    cbn [fields_regex] in Hr.
    destruct (leaf_regex host cf (FN i) l ps) as [a|] eqn:LR; [|discriminate Hr].
    destruct (fields_regex host cf r ps []) as [b|] eqn:FR; [|discriminate Hr]. injection Hr as <-.
    assert (forall j, In j (fidxs r) -> slot_get (slot_set s (FN i) v) (FN j) = None) as Hnone1.
    { intros j Hj. rewrite slot_get_set_other; [apply Hnone; right; exact Hj|].
      intros E. injection E as ->. contradiction. }
    (* the value this field stored is the one the finished packet has *)
    pose proof (fields_keep r _ _ _ _ _ _ _ _ Hflat Hnd' Hnone1 H (FN i) v (slot_get_set_same s (FN i) v)) as Hfin.
    pose proof (Hpat (CElem i (ELeafE l)) (or_introl eq_refl)) as Hp. cbn beta iota in Hp.
    destruct Hp as (p & v' & Hp & Hv' & Hpv). rewrite Hfin in Hv'. injection Hv' as <-.
    assert (forall x, p = PLit x -> x = v) as Hpv' by (intros x ->; exact Hpv).
    destruct (leaf_regex_sound host raw cf c (FN i) ps Hraw l s off v o1 t1 p a Ho Hf EL Hp Hpv'
                (Hnone i (or_introl eq_refl)) Hk LR) as (Ho1 & Hls).
    assert (knows ps (slot_set s (FN i) v)) as Hk1.
    { intros g w G. rewrite slot_get_set in G. destruct (fname_eqb_spec g (FN i)) as [->|N].
      - injection G as <-. exists p. split; [exact Hp|exact Hpv'].
      - exact (Hk g w G). }
    assert (pattern_is r ps sf) as Hpat1 by (intros f Hin; apply Hpat; right; exact Hin).
    assert (0 <= o1 <= blen raw) as Ho1' by lia.
    destruct (IH _ _ _ _ _ _ _ _ _ Hflat Hnd' Hnone1 Ho1' Hk1 Hpat1 H eq_refl) as (He & Hms).
    split; [lia|].
    rewrite (RoundTrip.slice_split raw off o1 e) by lia.
    apply Hls; [|exact Hms]. apply slice_from_split. lia.
Qed.
End Loop.

(* soundness of the pre-filter for flat declarations without bit runs: if raw parses (at offset 0, generic loop) to a
   packet equal to the pattern, the derived regular expression matches a prefix of raw *)
Theorem regex_sound_nobits : forall fuel host ct c k raw s e t ps rs,
  ct_get ct c = Some k -> forallb flat_field_nobits (cc_fields k) = true -> nodupb (fidxs (cc_fields k)) = true ->
  NoDup (map fst ps) -> wf_bytes raw ->
  unpack_pkt fuel host ct raw c 0 = POk (VPkt c s) e t ->
  pattern_is (cc_fields k) ps s ->
  regex_of host k ps = Some rs ->
  prefix_match rs raw.
Proof.
  intros fuel host ct c k raw s e t ps rs Hk Hflat Hnd _ Hraw H Hpat Hr.
  destruct fuel as [|fuel]; cbn [unpack_pkt] in H; [discriminate H|]. rewrite Hk in H.
  pose proof (blen_nonneg raw) as Hlen.
  assert (0 <= 0 <= blen raw) as H0 by lia.
  assert (knows ps []) as Hk0 by (intros g w G; discriminate G).
  destruct (fields_sound host raw (unpack_pkt fuel host ct raw) fuel ps (cc_conf k) c Hraw
              (cc_fields k) [] 0 0 [] c s e t rs Hflat (nodupb_NoDup _ Hnd)
              (fun j _ => eq_refl) H0 Hk0 Hpat H Hr) as (He & Hms).
  exists (slice raw 0 e), (slice_from raw e). split; [|exact Hms].
  rewrite <- (slice_from_split raw 0 e) by lia. symmetry. apply slice_from_0.
Qed.

(* ------------------------------------------------------------------------------------------ *)
(** * The hypotheses are satisfiable: every kind of leaf, fixed and Any                         *)
(* ------------------------------------------------------------------------------------------ *)

Definition rx_ex_k : cclass :=
  {| cc_conf := empty_conf; cc_gen_pack := false; cc_gen_unpack := false; cc_vectorize := false;
     cc_fields := [CElem 0 (ELeafE (LInt 1 false None VNone));
                   CElem 1 (ELeafE (LDataSized (EField (FN 0)) false VNone));
                   CElem 2 (ELeafE (LDataSized (EBin Add (EField (FN 0)) (ELit (VInt 1))) false VNone));
                   CElem 3 (ELeafE (LDataMarker [0] false VNone));
                   CElem 4 (ELeafE (LDataRegex [ALit [9; 9]; APlus 7] true VNone));
                   CElem 5 (ELeafE (LDataEos VNone))] |}.
Definition rx_ex_raw : bytes := [2; 65; 66; 1; 2; 3; 70; 71; 0; 5; 7; 7; 7; 8; 8].
Definition rx_ex_slots : slots :=
  [(FN 0, VInt 2); (FN 1, VBytes [65; 66]); (FN 2, VBytes [1; 2; 3]); (FN 3, VBytes [70; 71]);
   (FN 4, VBytes [5; 7; 7; 7]); (FN 5, VBytes [8; 8])].
(* the length fixed, everything else Any *)
Definition rx_ex_ps0 : pslots :=
  [(FN 0, PLit (VInt 2)); (FN 1, PAny); (FN 2, PAny); (FN 3, PAny); (FN 4, PAny); (FN 5, PAny)].
(* everything fixed but the Data sized by an expression *)
Definition rx_ex_ps1 : pslots :=
  [(FN 0, PLit (VInt 2)); (FN 1, PLit (VBytes [65; 66])); (FN 2, PAny); (FN 3, PLit (VBytes [70; 71]));
   (FN 4, PLit (VBytes [5; 7; 7; 7])); (FN 5, PLit (VBytes [8; 8]))].

Lemma rx_ex_pattern_is (ps : pslots) : ps = rx_ex_ps0 \/ ps = rx_ex_ps1 -> pattern_is (cc_fields rx_ex_k) ps rx_ex_slots.
Proof.
  intros Hps f Hin. cbn [cc_fields rx_ex_k In] in Hin.
  destruct Hps as [-> | ->];
    repeat (destruct Hin as [<-|Hin]; [eexists; eexists; vm_compute; repeat split|]); destruct Hin.
Qed.

Example regex_sound_nonvacuous :
  ct_get [(0, rx_ex_k)] 0 = Some rx_ex_k /\
  forallb flat_field_nobits (cc_fields rx_ex_k) = true /\ nodupb (fidxs (cc_fields rx_ex_k)) = true /\
  wf_bytes rx_ex_raw /\
  (exists t, unpack_pkt 1 true [(0, rx_ex_k)] rx_ex_raw 0 0 = POk (VPkt 0 rx_ex_slots) 15 t) /\
  pattern_is (cc_fields rx_ex_k) rx_ex_ps0 rx_ex_slots /\ NoDup (map fst rx_ex_ps0) /\
  regex_of true rx_ex_k rx_ex_ps0 =
    Some [RLit [2]; RAny 2; RStar; RStar; RLit [0]; RStar; RDelim [ALit [9; 9]; APlus 7]; RStar; REnd] /\
  pattern_is (cc_fields rx_ex_k) rx_ex_ps1 rx_ex_slots /\ NoDup (map fst rx_ex_ps1) /\
  regex_of true rx_ex_k rx_ex_ps1 =
    Some [RLit [2]; RLit [65; 66]; RAny 3; RLit [70; 71; 0]; RLit [5; 7; 7; 7]; RLit [8; 8]].
Proof.
  assert (forall ps : pslots, ps = rx_ex_ps0 \/ ps = rx_ex_ps1 -> NoDup (map fst ps)) as Hnd.
  { intros ps [-> | ->]; cbn [map fst rx_ex_ps0 rx_ex_ps1];
      repeat (constructor; [cbn [In]; intros H; repeat (destruct H as [H|H]; [discriminate H|]); exact H|]);
      constructor. }
  split; [reflexivity|]. split; [reflexivity|]. split; [reflexivity|].
  split; [unfold wf_bytes, rx_ex_raw, wf_byte; repeat constructor; lia|].
  split; [eexists; vm_compute; reflexivity|].
  split; [apply rx_ex_pattern_is; left; reflexivity|].
  split; [apply Hnd; left; reflexivity|].
  split; [vm_compute; reflexivity|].
  split; [apply rx_ex_pattern_is; right; reflexivity|].
  split; [apply Hnd; right; reflexivity|].
  vm_compute. reflexivity.
Qed.

(* the theorem applied to the example *)
Example regex_sound_applied :
  prefix_match [RLit [2]; RAny 2; RStar; RStar; RLit [0]; RStar; RDelim [ALit [9; 9]; APlus 7]; RStar; REnd] rx_ex_raw /\
  prefix_match [RLit [2]; RLit [65; 66]; RAny 3; RLit [70; 71; 0]; RLit [5; 7; 7; 7]; RLit [8; 8]] rx_ex_raw.
Proof.
  destruct regex_sound_nonvacuous as (Hk & Hf & Hn & Hw & (t & Hu) & Hp0 & Hd0 & Hr0 & Hp1 & Hd1 & Hr1).
  split.
  - exact (regex_sound_nobits 1 true _ 0 rx_ex_k rx_ex_raw _ _ _ rx_ex_ps0 _ Hk Hf Hn Hd0 Hw Hu Hp0 Hr0).
  - exact (regex_sound_nobits 1 true _ 0 rx_ex_k rx_ex_raw _ _ _ rx_ex_ps1 _ Hk Hf Hn Hd1 Hw Hu Hp1 Hr1).
Qed.

Print Assumptions byte_class_sound.
Print Assumptions regex_sound_nobits.
Print Assumptions leaf_regex_total_any.
Print Assumptions leaf_regex_total_any_refuted.
Print Assumptions regex_sound_nonvacuous.
Print Assumptions regex_sound_applied.
