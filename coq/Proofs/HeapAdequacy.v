(* Proofs/HeapAdequacy.v -- without user sharing the object world (Model/Heap.v) and the value world (Model/HeapSpec.v)
   coincide.  Statements: notes/stmts/S13_heap_adequacy.v. *)
From Coq Require Import ZArith List Bool Lia.
From Bisturi Require Import Base.Bytes Model.Value Model.Decl Model.Unpack Model.Pack Model.Init Model.Codegen Model.Canon Model.Heap Model.HeapSpec
                            Proofs.HeapProofs.
Import ListNotations. Open Scope Z_scope.
Local Opaque complete unpack_any pack_any_top FUEL RFUEL.

(* ------------------------------------------------------------------------------------------------------------------ *)
(* 1. depth and fuel                                                                                                   *)
(* ------------------------------------------------------------------------------------------------------------------ *)
Fixpoint ldepth (l : list value) : nat := match l with [] => O | a :: r => Nat.max (vdepth a) (ldepth r) end.
Fixpoint sdepth (s : list (fname * value)) : nat := match s with [] => O | (_, a) :: r => Nat.max (vdepth a) (sdepth r) end.
Lemma vdepth_list l : vdepth (VList l) = S (ldepth l).
Proof. reflexivity. Qed.
Lemma vdepth_pkt c s : vdepth (VPkt c s) = S (sdepth s).
Proof. reflexivity. Qed.
Lemma vdepth_leaf v : is_object v = false -> vdepth v = O.
Proof. destruct v; try reflexivity; discriminate. Qed.
Lemma ldepth_in l v : In v l -> (vdepth v <= ldepth l)%nat.
Proof. induction l as [|a r IH]; intros []; cbn [ldepth]; [subst; lia | specialize (IH H); lia]. Qed.
Lemma sdepth_in s q : In q s -> (vdepth (snd q) <= sdepth s)%nat.
Proof. induction s as [|[f a] r IH]; intros []; cbn [sdepth]; [subst; cbn; lia | specialize (IH H); lia]. Qed.

Definition rslot (k : nat) (h : heap) (p : fname * hval) : option (fname * value) :=
  match read_tree k h (snd p) with Some v => Some (fst p, v) | None => None end.
Lemma read_tree_ref k h a : read_tree (S k) h (HRef a) =
  match h_get h a with
  | Some (HList l) => match map_opt (read_tree k h) l with Some vs => Some (VList vs) | None => None end
  | Some (HPkt c s) => match map_opt (rslot k h) s with Some vs => Some (VPkt c vs) | None => None end
  | None => None
  end.
Proof. reflexivity. Qed.
Lemma read_tree_imm k h v : read_tree k h (HImm v) = Some v.
Proof. destruct k; reflexivity. Qed.

Lemma map_opt_F2 {A B} (f : A -> option B) l : forall vs, map_opt f l = Some vs <-> Forall2 (fun a b => f a = Some b) l vs.
Proof.
  induction l as [|a r IH]; intros vs; cbn [map_opt].
  - split; [intros E; inversion E; constructor | intros F; inversion F; reflexivity].
  - destruct (f a) as [b|] eqn:Ea.
    + destruct (map_opt f r) as [bs|] eqn:Er.
      * split; [intros E; inversion E; subst; constructor; [exact Ea | apply IH; reflexivity] |].
        intros F; inversion F; subst. apply IH in H3. congruence.
      * split; [discriminate|]. intros F; inversion F; subst. apply IH in H3. discriminate.
    + split; [discriminate|]. intros F; inversion F; subst. congruence.
Qed.

Definition named (R : hval -> value -> Prop) (p : fname * hval) (q : fname * value) : Prop := fst p = fst q /\ R (snd p) (snd q).

Lemma rslot_named k h p q : rslot k h p = Some q <-> named (fun x v => read_tree k h x = Some v) p q.
Proof.
  unfold rslot, named. destruct p as [f x], q as [g v]; cbn [fst snd]. destruct (read_tree k h x) as [v'|].
  - split; [intros E; inversion E; auto | intros [E1 E2]; congruence].
  - split; [discriminate | intros [_ E]; discriminate].
Qed.

Lemma F2_impl_in {A B} (R R' : A -> B -> Prop) l vs :
  Forall2 R l vs -> (forall a b, In a l -> In b vs -> R a b -> R' a b) -> Forall2 R' l vs.
Proof.
  intros F. induction F as [|a b l vs H F IH]; intros I; constructor.
  - apply I; [left; reflexivity | left; reflexivity | exact H].
  - apply IH. intros a' b' Ia Ib. apply I; right; assumption.
Qed.

(* any fuel that reaches the depth of the tree is enough *)
Lemma read_tree_enough : forall n k h x t, read_tree k h x = Some t -> (vdepth t <= n)%nat -> read_tree n h x = Some t.
Proof.
  induction n as [|n IH]; intros k h x t E L; destruct x as [v | a].
  - rewrite read_tree_imm in E. exact E.
  - destruct k as [|k]; [discriminate|]. rewrite read_tree_ref in E.
    destruct (h_get h a) as [[l | c s]|]; [| |discriminate].
    + destruct (map_opt (read_tree k h) l); [|discriminate]. inversion E; subst. rewrite vdepth_list in L. lia.
    + destruct (map_opt (rslot k h) s); [|discriminate]. inversion E; subst. rewrite vdepth_pkt in L. lia.
  - rewrite read_tree_imm in E |- *. exact E.
  - destruct k as [|k]; [discriminate|]. rewrite read_tree_ref in E |- *.
    destruct (h_get h a) as [[l | c s]|]; [| |discriminate].
    + destruct (map_opt (read_tree k h) l) as [vs|] eqn:M; [|discriminate]. inversion E; subst.
      rewrite vdepth_list in L. apply map_opt_F2 in M.
      assert (M' : map_opt (read_tree n h) l = Some vs).
      { apply map_opt_F2. eapply F2_impl_in; [exact M|]. intros x v _ Iv H. eapply IH; [exact H|].
        apply ldepth_in in Iv. lia. }
      rewrite M'. reflexivity.
    + destruct (map_opt (rslot k h) s) as [vs|] eqn:M; [|discriminate]. inversion E; subst.
      rewrite vdepth_pkt in L. apply map_opt_F2 in M.
      assert (M' : map_opt (rslot n h) s = Some vs).
      { apply map_opt_F2. eapply F2_impl_in; [exact M|]. intros p q _ Iq H. apply rslot_named in H. apply rslot_named.
        destruct H as [H1 H2]. split; [exact H1|]. eapply IH; [exact H2|]. apply sdepth_in in Iq. lia. }
      rewrite M'. reflexivity.
Qed.

(* ---- plain heaps: objects are never stored inline, and a cell holds every address at most once ---- *)
Definition imm_ok (x : hval) : Prop := match x with HImm v => is_object v = false | HRef _ => True end.
Fixpoint refs (l : list hval) : list addr :=
  match l with [] => [] | HRef a :: r => a :: refs r | HImm _ :: r => refs r end.
Definition h_flat (h : heap) : Prop := forall a o, h_get h a = Some o -> Forall imm_ok (kids o).
Definition h_nodup (h : heap) : Prop := forall a o, h_get h a = Some o -> NoDup (refs (kids o)).
Definition h_plain (h : heap) : Prop := h_flat h /\ h_nodup h.

Lemma refs_in l c : In c (refs l) <-> In (HRef c) l.
Proof.
  induction l as [|[v | a] r IH]; cbn [refs In]; [tauto | |].
  - rewrite IH. split; [auto | intros [E | I]; [discriminate | exact I]].
  - rewrite IH. split; (intros [E | I]; [left; congruence | right; exact I]).
Qed.
Lemma refs_app l1 l2 : refs (l1 ++ l2) = refs l1 ++ refs l2.
Proof. induction l1 as [|[v | a] r IH]; cbn [refs app]; [reflexivity | exact IH | rewrite IH; reflexivity]. Qed.

Lemma flat_child h a x : h_flat h -> child h a x -> imm_ok x.
Proof.
  intros F C. apply child_iff in C. destruct C as [o [E I]]. specialize (F _ _ E).
  rewrite Forall_forall in F. apply F; exact I.
Qed.

(* read_tree needs exactly the depth of the tree as fuel (on a heap that stores no object inline) *)
Theorem read_tree_depth : forall n h x t, h_flat h -> imm_ok x -> read_tree n h x = Some t -> (vdepth t <= n)%nat.
Proof.
  induction n as [|n IH]; intros h x t F X E; destruct x as [v | a].
  - rewrite read_tree_imm in E. inversion E; subst. rewrite (vdepth_leaf _ X). lia.
  - discriminate.
  - rewrite read_tree_imm in E. inversion E; subst. rewrite (vdepth_leaf _ X). lia.
  - rewrite read_tree_ref in E. destruct (h_get h a) as [[l | c s]|] eqn:G; [| |discriminate].
    + destruct (map_opt (read_tree n h) l) as [vs|] eqn:M; [|discriminate]. inversion E; subst.
      rewrite vdepth_list. apply map_opt_F2 in M. assert (Fl := F _ _ G). cbn [kids] in Fl.
      assert (ldepth vs <= n)%nat; [|lia].
      clear G E. revert Fl. induction M as [|x v l vs H M IHM]; intros Fl; cbn [ldepth]; [lia|]. inversion Fl; subst.
      assert (vdepth v <= n)%nat by (eapply IH; eauto). specialize (IHM H3). lia.
    + destruct (map_opt (rslot n h) s) as [vs|] eqn:M; [|discriminate]. inversion E; subst.
      rewrite vdepth_pkt. apply map_opt_F2 in M. assert (Fl := F _ _ G). cbn [kids] in Fl.
      assert (sdepth vs <= n)%nat; [|lia].
      clear G E. revert Fl. induction M as [|[f x] [g v] l vs H M IHM]; intros Fl; cbn [sdepth]; [lia|]. cbn [map] in Fl. inversion Fl; subst.
      apply rslot_named in H. destruct H as [_ H]. cbn [snd] in H, H2.
      assert (vdepth v <= n)%nat by (eapply IH; eauto). specialize (IHM H3). lia.
Qed.

(* ------------------------------------------------------------------------------------------------------------------ *)
(* 2. denotation without fuel                                                                                          *)
(* ------------------------------------------------------------------------------------------------------------------ *)
Definition den (h : heap) (x : hval) (t : value) : Prop := exists k, read_tree k h x = Some t.

Lemma den_all h x t : den h x t -> forall n, (vdepth t <= n)%nat -> read_tree n h x = Some t.
Proof. intros [k E] n L. eapply read_tree_enough; eauto. Qed.
Lemma den_fun h x t t' : den h x t -> den h x t' -> t = t'.
Proof.
  intros D D'. assert (E := den_all _ _ _ D (Nat.max (vdepth t) (vdepth t')) ltac:(lia)).
  assert (E' := den_all _ _ _ D' (Nat.max (vdepth t) (vdepth t')) ltac:(lia)). congruence.
Qed.
Lemma den_imm h v t : den h (HImm v) t <-> t = v.
Proof.
  split; [intros [k E]; rewrite read_tree_imm in E; congruence | intros E; subst; exists O; reflexivity].
Qed.

Lemma F2_den_list h xs vs n : Forall2 (den h) xs vs -> (ldepth vs <= n)%nat -> map_opt (read_tree n h) xs = Some vs.
Proof.
  intros F L. apply map_opt_F2. eapply F2_impl_in; [exact F|]. intros x v _ Iv D.
  apply den_all; [exact D|]. apply ldepth_in in Iv. lia.
Qed.
Lemma F2_den_slots h s vs n : Forall2 (named (den h)) s vs -> (sdepth vs <= n)%nat -> map_opt (rslot n h) s = Some vs.
Proof.
  intros F L. apply map_opt_F2. eapply F2_impl_in; [exact F|]. intros p q _ Iq [E D].
  apply rslot_named. split; [exact E|]. apply den_all; [exact D|]. apply sdepth_in in Iq. lia.
Qed.

Lemma den_ref h a t : den h (HRef a) t <->
  match h_get h a with
  | Some (HList xs) => exists vs, t = VList vs /\ Forall2 (den h) xs vs
  | Some (HPkt c s) => exists vs, t = VPkt c vs /\ Forall2 (named (den h)) s vs
  | None => False
  end.
Proof.
  split.
  - intros [k E]. destruct k as [|k]; [discriminate|]. rewrite read_tree_ref in E.
    destruct (h_get h a) as [[l | c s]|]; [| |discriminate].
    + destruct (map_opt (read_tree k h) l) as [vs|] eqn:M; [|discriminate]. inversion E; subst.
      exists vs. split; [reflexivity|]. apply map_opt_F2 in M. eapply F2_impl_in; [exact M|].
      intros x v _ _ H. exists k; exact H.
    + destruct (map_opt (rslot k h) s) as [vs|] eqn:M; [|discriminate]. inversion E; subst.
      exists vs. split; [reflexivity|]. apply map_opt_F2 in M. eapply F2_impl_in; [exact M|].
      intros p q _ _ H. apply rslot_named in H. destruct H as [H1 H2]. split; [exact H1 | exists k; exact H2].
  - destruct (h_get h a) as [[l | c s]|] eqn:G; [| |intros []]; intros [vs [E F]]; subst t.
    + exists (S (ldepth vs)). rewrite read_tree_ref, G, (F2_den_list h l vs _ F (le_n _)). reflexivity.
    + exists (S (sdepth vs)). rewrite read_tree_ref, G, (F2_den_slots h s vs _ F (le_n _)). reflexivity.
Qed.

Lemma den_ref_object h a t : den h (HRef a) t -> is_object t = true.
Proof.
  intros D. apply den_ref in D. destruct (h_get h a) as [[l | c s]|]; [| |destruct D]; destruct D as [vs [E _]]; subst; reflexivity.
Qed.

Lemma den_frame h h' x t : (forall c, reach h x c -> h_get h' c = h_get h c) -> den h x t -> den h' x t.
Proof. intros A [k E]. exists k. rewrite (read_tree_frame h h' k x A). exact E. Qed.

(* a child denotes a strictly shallower tree *)
Lemma F2_in_l {A B} (R : A -> B -> Prop) l vs a : Forall2 R l vs -> In a l -> exists b, In b vs /\ R a b.
Proof.
  intros F. induction F as [|a' b' l vs H F IH]; intros []; [subst; exists b'; split; [left; reflexivity | exact H] |].
  destruct (IH H0) as [b [Ib Rb]]. exists b; split; [right; exact Ib | exact Rb].
Qed.
Lemma den_child h a t x : den h (HRef a) t -> child h a x -> exists t', den h x t' /\ (vdepth t' < vdepth t)%nat.
Proof.
  intros D C. apply den_ref in D. apply child_iff in C. destruct C as [o [G I]]. rewrite G in D.
  destruct o as [l | c s]; destruct D as [vs [E F]]; subst t; cbn [kids] in I.
  - destruct (F2_in_l _ _ _ _ F I) as [v [Iv Dv]]. exists v. split; [exact Dv|].
    rewrite vdepth_list. apply ldepth_in in Iv. lia.
  - apply in_map_iff in I. destruct I as [p [Ep Ip]]. destruct (F2_in_l _ _ _ _ F Ip) as [q [Iq [_ Dq]]].
    exists (snd q). subst x. split; [exact Dq|]. rewrite vdepth_pkt. apply sdepth_in in Iq. lia.
Qed.
Lemma den_reach h x b : reach h x b -> forall t, den h x t -> exists t', den h (HRef b) t' /\ (vdepth t' <= vdepth t)%nat.
Proof.
  intros R. induction R as [a | a y b C R IH]; intros t D.
  - exists t; split; [exact D | lia].
  - destruct (den_child _ _ _ _ D C) as [t1 [D1 L1]]. destruct (IH _ D1) as [t' [D' L']].
    exists t'. split; [exact D' | lia].
Qed.
(* so the graph below an object that denotes a tree has no cycle *)
Lemma den_acyclic h a t x : den h (HRef a) t -> child h a x -> reach h x a -> False.
Proof.
  intros D C R. destruct (den_child _ _ _ _ D C) as [t1 [D1 L1]]. destruct (den_reach _ _ _ R _ D1) as [t' [D' L']].
  assert (t = t') by (eapply den_fun; eauto). subst t'. lia.
Qed.

(* with at most one parent per object, two different children of one object have nothing in common *)
Definition uniq_parent (h : heap) : Prop := forall p1 p2 c, child h p1 (HRef c) -> child h p2 (HRef c) -> p1 = p2.
Lemma sib_disjoint h a t c1 c2 b : uniq_parent h -> den h (HRef a) t ->
  child h a (HRef c1) -> child h a (HRef c2) -> c1 <> c2 -> reach h (HRef c1) b -> reach h (HRef c2) b -> False.
Proof.
  intros U D C1 C2 N R1 R2.
  assert (Q1 : reachR h c1 b) by (eapply reachR_of_reach; [exact R1 | reflexivity | constructor]).
  assert (Q2 : reachR h c2 b) by (eapply reachR_of_reach; [exact R2 | reflexivity | constructor]).
  assert (U' : forall p1 p2 c, child h p1 (HRef c) -> child h p2 (HRef c) -> p1 = p2 \/ In c []) by (intros; left; eapply U; eauto).
  destruct (tree_chain _ _ U' _ _ Q1 _ Q2) as [H | [H | [s [[] _]]]].
  - destruct (reach_last _ _ _ H) as [E | [p [Rp Cp]]]; [congruence|].
    assert (p = a) by (eapply U; eauto). subst p. eapply den_acyclic; [exact D | exact C1 | exact Rp].
  - destruct (reach_last _ _ _ H) as [E | [p [Rp Cp]]]; [congruence|].
    assert (p = a) by (eapply U; eauto). subst p. eapply den_acyclic; [exact D | exact C2 | exact Rp].
Qed.

(* ------------------------------------------------------------------------------------------------------------------ *)
(* 3. allocation keeps the heap plain                                                                                  *)
(* ------------------------------------------------------------------------------------------------------------------ *)
Lemma alloc_obj v h : if is_object v then exists a h1, alloc_tree v h = (HRef a, h1) else alloc_tree v h = (HImm v, h).
Proof.
  destruct v; cbn [is_object]; try reflexivity.
  - rewrite alloc_tree_list. destruct (alloc_list l h); eauto.
  - rewrite alloc_tree_pkt. destruct (alloc_slots slots h); eauto.
Qed.

Lemma alloc_list_nodup : forall l h xs h', h_valid h -> alloc_list l h = (xs, h') -> NoDup (refs xs).
Proof.
  induction l as [|a r IH]; intros h xs h' V E.
  - inversion E; subst. constructor.
  - rewrite alloc_list_cons in E. destruct (alloc_tree a h) as [x h1] eqn:E1.
    destruct (alloc_list r h1) as [xs' h2] eqn:E2. inversion E; subst.
    assert (K1 := alloc_ok _ _ _ _ V E1). assert (K2 := alloc_list_ok _ _ _ _ (ok_valid _ _ _ K1) E2).
    assert (N := IH _ _ _ (ok_valid _ _ _ K1) E2). destruct x as [v | b]; cbn [refs]; [exact N|].
    constructor; [|exact N]. intros I. apply refs_in in I. destruct (ok_top _ _ _ K2 _ I) as [L _].
    destruct (ok_top _ _ _ K1 b (or_introl eq_refl)) as [_ A]. apply (valid_lt _ _ (ok_valid _ _ _ K1)) in A. lia.
Qed.
Lemma alloc_slots_nodup : forall s h xs h', h_valid h -> alloc_slots s h = (xs, h') -> NoDup (refs (map snd xs)).
Proof.
  induction s as [|[f a] r IH]; intros h xs h' V E.
  - inversion E; subst. constructor.
  - rewrite alloc_slots_cons in E. destruct (alloc_tree a h) as [x h1] eqn:E1.
    destruct (alloc_slots r h1) as [xs' h2] eqn:E2. inversion E; subst.
    assert (K1 := alloc_ok _ _ _ _ V E1). assert (K2 := alloc_slots_ok _ _ _ _ (ok_valid _ _ _ K1) E2).
    assert (N := IH _ _ _ (ok_valid _ _ _ K1) E2). cbn [map snd]. destruct x as [v | b]; cbn [refs]; [exact N|].
    constructor; [|exact N]. intros I. apply refs_in in I. destruct (ok_top _ _ _ K2 _ I) as [L _].
    destruct (ok_top _ _ _ K1 b (or_introl eq_refl)) as [_ A]. apply (valid_lt _ _ (ok_valid _ _ _ K1)) in A. lia.
Qed.

Lemma plain_alloc_cell h o : h_plain h -> Forall imm_ok (kids o) -> NoDup (refs (kids o)) -> h_plain (snd (h_alloc h o)).
Proof.
  intros [F N] Fo No. split; intros a o' G; rewrite h_get_alloc in G; destruct (a =? next h).
  - inversion G; subst; exact Fo.
  - eapply F; eauto.
  - inversion G; subst; exact No.
  - eapply N; eauto.
Qed.

Lemma alloc_plain : forall v h x h', h_valid h -> h_plain h -> alloc_tree v h = (x, h') -> h_plain h' /\ imm_ok x.
Proof.
  induction v as [v Hv | l IH | c s IH] using value_ind_h; intros h x h' V P E.
  - rewrite (alloc_tree_leaf v h Hv) in E. inversion E; subst. split; [exact P|]. destruct v; try reflexivity; contradiction.
  - rewrite alloc_tree_list in E.
    assert (L : forall h xs h', h_valid h -> h_plain h -> alloc_list l h = (xs, h') -> h_plain h' /\ Forall imm_ok xs).
    { clear h x h' V P E. induction IH as [|a r Ha Hr IHr]; intros h xs h' V P E.
      - inversion E; subst. split; [exact P | constructor].
      - rewrite alloc_list_cons in E. destruct (alloc_tree a h) as [x h1] eqn:E1.
        destruct (alloc_list r h1) as [xs' h2] eqn:E2. inversion E; subst.
        assert (K1 := alloc_ok _ _ _ _ V E1). destruct (Ha _ _ _ V P E1) as [P1 X1].
        destruct (IHr _ _ _ (ok_valid _ _ _ K1) P1 E2) as [P2 X2]. split; [exact P2 | constructor; assumption]. }
    destruct (alloc_list l h) as [xs h1] eqn:E1. inversion E; subst. destruct (L _ _ _ V P E1) as [P1 X1].
    split; [|exact I]. apply plain_alloc_cell; [exact P1 | exact X1 | eapply alloc_list_nodup; eauto].
  - rewrite alloc_tree_pkt in E.
    assert (L : forall h xs h', h_valid h -> h_plain h -> alloc_slots s h = (xs, h') -> h_plain h' /\ Forall imm_ok (map snd xs)).
    { clear h x h' V P E. induction IH as [|[f a] r Ha Hr IHr]; intros h xs h' V P E.
      - inversion E; subst. split; [exact P | constructor].
      - rewrite alloc_slots_cons in E. destruct (alloc_tree a h) as [x h1] eqn:E1.
        destruct (alloc_slots r h1) as [xs' h2] eqn:E2. inversion E; subst.
        assert (K1 := alloc_ok _ _ _ _ V E1). destruct (Ha _ _ _ V P E1) as [P1 X1].
        destruct (IHr _ _ _ (ok_valid _ _ _ K1) P1 E2) as [P2 X2]. split; [exact P2 | constructor; assumption]. }
    destruct (alloc_slots s h) as [xs h1] eqn:E1. inversion E; subst. destruct (L _ _ _ V P E1) as [P1 X1].
    split; [|exact I]. apply plain_alloc_cell; [exact P1 | exact X1 | eapply alloc_slots_nodup; eauto].
Qed.

(* ------------------------------------------------------------------------------------------------------------------ *)
(* 4. paths: resolution and update commute with denotation                                                             *)
(* ------------------------------------------------------------------------------------------------------------------ *)
Definition vstep (t : value) (st : step) : option value :=
  match t, st with
  | VPkt c s, SField f => slot_get s f
  | VList l, SIndex i => if i <? 0 then None else nth_error l (Z.to_nat i)
  | _, _ => None
  end.
Fixpoint sub (t : value) (p : list step) : option value :=
  match p with [] => Some t | st :: r => match vstep t st with Some x => sub x r | None => None end end.

Lemma F2_nth {A B} (R : A -> B -> Prop) xs vs : Forall2 R xs vs -> forall n,
  match nth_error xs n with Some y => exists v, nth_error vs n = Some v /\ R y v | None => nth_error vs n = None end.
Proof.
  intros F. induction F as [|x v xs vs H F IH]; intros [|n]; cbn [nth_error]; try reflexivity.
  - exists v; split; [reflexivity | exact H].
  - apply IH.
Qed.
Lemma F2_slot_get R s vs f : Forall2 (named R) s vs ->
  match hslot_get s f with Some y => exists v, slot_get vs f = Some v /\ R y v | None => slot_get vs f = None end.
Proof.
  induction 1 as [|[g x] [g' v] s vs [E H] F IH]; cbn [hslot_get slot_get]; [reflexivity|].
  cbn [fst snd] in E, H; subst g'. destruct (fname_eqb f g); [eauto | exact IH].
Qed.

Lemma step_den h x t st : h_flat h -> imm_ok x -> den h x t ->
  match step_get h x st with
  | Some y => exists ty, vstep t st = Some ty /\ den h y ty /\ imm_ok y
  | None => vstep t st = None
  end.
Proof.
  intros F X D. destruct x as [v | a].
  - apply den_imm in D. subst t. cbn [step_get]. cbn [imm_ok] in X. destruct v; try discriminate; destruct st; reflexivity.
  - assert (D' := D). apply den_ref in D'. unfold step_get.
    destruct (h_get h a) as [[l | c s]|] eqn:G; [| |destruct D']; destruct D' as [vs [E F2]]; subst t.
    + destruct st as [f | i]; [reflexivity|]. cbn [vstep]. destruct (i <? 0); [reflexivity|].
      assert (N := F2_nth _ _ _ F2 (Z.to_nat i)). destruct (nth_error l (Z.to_nat i)) as [y|] eqn:Ey; [|exact N].
      destruct N as [v [Ev Dv]]. exists v. split; [exact Ev | split; [exact Dv|]].
      eapply flat_child; [exact F|]. eapply ChList; [exact G | eapply nth_error_In; eauto].
    + destruct st as [f | i]; [|reflexivity]. cbn [vstep].
      assert (N := F2_slot_get _ _ _ f F2). destruct (hslot_get s f) as [y|] eqn:Ey; [|exact N].
      destruct N as [v [Ev Dv]]. exists v. split; [exact Ev | split; [exact Dv|]].
      eapply flat_child; [exact F|]. apply child_iff. exists (HPkt c s). split; [exact G | cbn [kids]; eapply hslot_get_in; eauto].
Qed.

Lemma path_den h : forall p x t, h_flat h -> imm_ok x -> den h x t ->
  match path_get h x p with
  | Some y => exists ty, sub t p = Some ty /\ den h y ty /\ imm_ok y
  | None => sub t p = None
  end.
Proof.
  induction p as [|st r IH]; intros x t F X D; cbn [path_get sub].
  - exists t; auto.
  - assert (S := step_den h x t st F X D). destruct (step_get h x st) as [y|]; [|rewrite S; reflexivity].
    destruct S as [ty [E [Dy Xy]]]. rewrite E. apply IH; assumption.
Qed.

Lemma tree_upd_cons t st r g : tree_upd t (st :: r) g =
  match vstep t st with
  | Some x =>
      match tree_upd x r g with
      | Some x' =>
          match t, st with
          | VPkt c s, SField f => Some (VPkt c (slot_set s f x'))
          | VList l, SIndex i => match vlist_set l (Z.to_nat i) x' with Some l' => Some (VList l') | None => None end
          | _, _ => None
          end
      | None => None
      end
  | None => None
  end.
Proof. destruct t, st; cbn [tree_upd vstep]; try reflexivity. destruct (i <? 0); reflexivity. Qed.

Lemma tree_upd_none1 g : forall p t, sub t p = None -> tree_upd t p g = None.
Proof.
  induction p as [|st r IH]; intros t E; [discriminate|]. rewrite tree_upd_cons. cbn [sub] in E.
  destruct (vstep t st) as [x|]; [|reflexivity]. rewrite (IH _ E). reflexivity.
Qed.
Lemma tree_upd_none2 g tb : g tb = None -> forall p t, sub t p = Some tb -> tree_upd t p g = None.
Proof.
  intros Eg. induction p as [|st r IH]; intros t E.
  - cbn in E. inversion E; subst. exact Eg.
  - rewrite tree_upd_cons. cbn [sub] in E. destruct (vstep t st) as [x|]; [|reflexivity]. rewrite (IH _ E). reflexivity.
Qed.

(* replacing the child found by a step; the other children keep what they denote *)
Lemma F2_slot_upd (R R' : hval -> value -> Prop) s vs f cy :
  Forall2 (named R) s vs -> hslot_get s f = Some (HRef cy) -> NoDup (refs (map snd s)) ->
  exists ty, slot_get vs f = Some ty /\ R (HRef cy) ty /\
    forall ty', R' (HRef cy) ty' -> (forall x v, In x (map snd s) -> x <> HRef cy -> R x v -> R' x v) ->
      Forall2 (named R') s (slot_set vs f ty').
Proof.
  induction 1 as [|[g x] [g' v] s vs [E H] F IH]; cbn [hslot_get slot_get slot_set map snd]; [discriminate|].
  cbn [fst snd] in E, H. subst g'. intros G N. destruct (fname_eqb f g).
  - inversion G; subst x. exists v. split; [reflexivity | split; [exact H|]]. intros ty' H' K.
    constructor; [split; [reflexivity | exact H']|].
    cbn [refs] in N. inversion N; subst. eapply F2_impl_in; [exact F|].
    intros [g1 x1] [g2 v1] I1 _ [E1 H1]. split; [exact E1|]. cbn [fst snd] in *.
    apply K; [right; apply in_map_iff; exists (g1, x1); auto | | exact H1].
    intros Ex. subst x1. apply H2. apply refs_in. apply in_map_iff. exists (g1, HRef cy); auto.
  - assert (Nx : x <> HRef cy).
    { intros Ex; subst x. cbn [refs] in N. inversion N; subst. apply H2. apply refs_in. eapply hslot_get_in; eauto. }
    assert (N' : NoDup (refs (map snd s))) by (destruct x; cbn [refs] in N; [exact N | inversion N; assumption]).
    destruct (IH G N') as [ty [E1 [H1 K1]]]. exists ty. split; [exact E1 | split; [exact H1|]]. intros ty' H' K. constructor.
    + split; [reflexivity|]. cbn [snd]. apply K; [left; reflexivity | exact Nx | exact H].
    + apply K1; [exact H'|]. intros x1 v1 I1. apply K; right; exact I1.
Qed.
Lemma F2_list_upd (R R' : hval -> value -> Prop) xs vs cy :
  Forall2 R xs vs -> forall n, nth_error xs n = Some (HRef cy) -> NoDup (refs xs) ->
  exists ty, nth_error vs n = Some ty /\ R (HRef cy) ty /\
    forall ty', R' (HRef cy) ty' -> (forall x v, In x xs -> x <> HRef cy -> R x v -> R' x v) ->
      exists vs', vlist_set vs n ty' = Some vs' /\ Forall2 R' xs vs'.
Proof.
  intros F. induction F as [|x v xs vs H F IH]; intros [|n] G N; cbn [nth_error] in G; try discriminate.
  - inversion G; subst x. exists v. split; [reflexivity | split; [exact H|]]. intros ty' H' K.
    exists (ty' :: vs). split; [reflexivity|]. constructor; [exact H'|].
    cbn [refs] in N. inversion N; subst. eapply F2_impl_in; [exact F|]. intros x1 v1 I1 _ H1.
    apply K; [right; exact I1 | | exact H1]. intros Ex; subst x1. apply H2. apply refs_in. exact I1.
  - assert (Nx : x <> HRef cy).
    { intros Ex; subst x. cbn [refs] in N. inversion N; subst. apply H2. apply refs_in. eapply nth_error_In; eauto. }
    assert (N' : NoDup (refs xs)) by (destruct x; cbn [refs] in N; [exact N | inversion N; assumption]).
    destruct (IH n G N') as [ty [E1 [H1 K1]]]. exists ty. split; [exact E1 | split; [exact H1|]]. intros ty' H' K.
    destruct (K1 ty' H') as [vs' [Ev Fv]]; [intros x1 v1 I1; apply K; right; exact I1|].
    exists (v :: vs'). split; [cbn [vlist_set]; rewrite Ev; reflexivity|].
    constructor; [apply K; [left; reflexivity | exact Nx | exact H] | exact Fv].
Qed.

(* the update lemma: the cell b reached through p is rewritten; the object the path started from then denotes tree_upd *)
Lemma upd_den h h' g b tb tb' : uniq_parent h -> h_nodup h ->
  den h (HRef b) tb -> g tb = Some tb' -> den h' (HRef b) tb' ->
  forall p x t, den h x t -> path_get h x p = Some (HRef b) ->
  (forall c, reach h x c -> c <> b -> h_get h' c = h_get h c) ->
  exists t', tree_upd t p g = Some t' /\ den h' x t'.
Proof.
  intros U N Db Eg Db'. induction p as [|st r IH]; intros x t D P A.
  - cbn in P. inversion P; subst x. assert (t = tb) by (eapply den_fun; eauto). subst t.
    exists tb'. split; [exact Eg | exact Db'].
  - cbn [path_get] in P. destruct (step_get h x st) as [y|] eqn:S; [|discriminate]. destruct x as [v | a]; [discriminate|].
    assert (C : child h a y) by (eapply step_get_child; eauto).
    assert (Ry : reach h y b) by (eapply path_get_reach; eauto).
    destruct (reach_src _ _ _ Ry) as [cy Ey]. subst y.
    assert (Nab : a <> b) by (intros E; subst b; eapply den_acyclic; eauto).
    assert (Ga : h_get h' a = h_get h a) by (apply A; [constructor | exact Nab]).
    assert (SIB : forall x v, child h a x -> x <> HRef cy -> den h x v -> den h' x v).
    { intros x v Cx Nx Dx. eapply den_frame; [|exact Dx]. intros c Rc. apply A; [eapply RStep; eauto|]. intros Ec; subst c.
      destruct (reach_src _ _ _ Rc) as [cx Ex]. subst x. eapply (sib_disjoint h a t cx cy b); eauto. congruence. }
    assert (Ay : forall c, reach h (HRef cy) c -> c <> b -> h_get h' c = h_get h c) by (intros c Rc; apply A; eapply RStep; eauto).
    assert (D' := D). apply den_ref in D'. rewrite tree_upd_cons. unfold step_get in S.
    destruct (h_get h a) as [[l | c s]|] eqn:G; [| |destruct D']; destruct D' as [vs [E F]]; subst t.
    + destruct st as [f | i]; [discriminate|]. cbn [vstep]. destruct (i <? 0); [discriminate|].
      destruct (F2_list_upd (den h) (den h') l vs cy F (Z.to_nat i) S (N _ _ G)) as [ty [Ev [Dy K]]].
      rewrite Ev. destruct (IH (HRef cy) ty Dy P Ay) as [ty' [Eu Dy']].
      rewrite Eu. destruct (K ty' Dy') as [vs' [Es Fs]]; [intros x v I; apply SIB; eapply ChList; eauto|].
      rewrite Es. exists (VList vs'). split; [reflexivity|]. apply den_ref. rewrite Ga. exists vs'; auto.
    + destruct st as [f | i]; [|discriminate]. cbn [vstep].
      destruct (F2_slot_upd (den h) (den h') s vs f cy F S (N _ _ G)) as [ty [Ev [Dy K]]].
      rewrite Ev. destruct (IH (HRef cy) ty Dy P Ay) as [ty' [Eu Dy']].
      rewrite Eu. exists (VPkt c (slot_set vs f ty')). split; [reflexivity|]. apply den_ref. rewrite Ga.
      exists (slot_set vs f ty'). split; [reflexivity|]. apply K; [exact Dy'|].
      intros x v I. apply SIB. apply child_iff. exists (HPkt c s); auto.
Qed.

(* the last step of an assignment *)
Lemma F2_slot_set R s vs f y y' : Forall2 (named R) s vs -> R y y' -> Forall2 (named R) (hslot_set s f y) (slot_set vs f y').
Proof.
  induction 1 as [|[g x] [g' v] s vs [E H] F IH]; intros Hy; cbn [hslot_set slot_set].
  - constructor; [split; [reflexivity | exact Hy] | constructor].
  - cbn [fst snd] in E, H; subst g'. destruct (fname_eqb f g).
    + constructor; [split; [reflexivity | exact Hy] | exact F].
    + constructor; [split; [reflexivity | exact H] | apply IH; exact Hy].
Qed.
Lemma F2_list_set_none {R : hval -> value -> Prop} xs vs y y' : Forall2 R xs vs -> forall n, list_set xs n y = None -> vlist_set vs n y' = None.
Proof.
  intros F. induction F as [|x v xs vs H F IH]; intros n E; [destruct n; reflexivity|].
  destruct n as [|n]; cbn [list_set vlist_set] in *; [discriminate|].
  destruct (list_set xs n y) eqn:E1; [discriminate|]. rewrite (IH _ E1). reflexivity.
Qed.
Lemma F2_list_set (R : hval -> value -> Prop) xs vs y y' : Forall2 R xs vs -> R y y' -> forall n xs', list_set xs n y = Some xs' ->
  exists vs', vlist_set vs n y' = Some vs' /\ Forall2 R xs' vs'.
Proof.
  intros F Hy. induction F as [|x v xs vs H F IH]; intros n xs' E; [destruct n; discriminate|].
  destruct n as [|n]; cbn [list_set vlist_set] in *.
  - inversion E; subst. exists (y' :: vs). split; [reflexivity | constructor; assumption].
  - destruct (list_set xs n y) as [r'|] eqn:E1; [|discriminate]. inversion E; subst.
    destruct (IH _ _ E1) as [vs' [Ev Fv]]. rewrite Ev. exists (v :: vs'). split; [reflexivity | constructor; assumption].
Qed.

(* ------------------------------------------------------------------------------------------------------------------ *)
(* 5. the two worlds                                                                                                   *)
(* ------------------------------------------------------------------------------------------------------------------ *)
(* the two worlds show the same thing: the same names are live, and every live packet denotes the tree the value world holds *)
Definition agrees (w : world) (fw : fworld) : Prop :=
  (forall r, root_get (roots w) r = None <-> fw_get fw r = None) /\
  (forall r a, root_get (roots w) r = Some a ->
     exists t, fw_get fw r = Some t /\ forall n, (vdepth t <= n)%nat -> read_tree n (hp w) (HRef a) = Some t).

Lemma fw_get_filter fw r q : q <> r -> fw_get (filter (fun p => negb (fst p =? r)) fw) q = fw_get fw q.
Proof.
  intros N. induction fw as [|[q' a'] t IH]; [reflexivity|]. cbn [filter fst].
  destruct (Z.eqb_spec q' r) as [E|E]; cbn [negb fw_get].
  - subst q'. destruct (Z.eqb_spec q r); [contradiction | exact IH].
  - rewrite IH. reflexivity.
Qed.
Lemma fw_get_set fw r v q : fw_get (fw_set fw r v) q = if q =? r then Some v else fw_get fw q.
Proof.
  unfold fw_set. cbn [fw_get]. destruct (Z.eqb_spec q r) as [E|E]; [reflexivity|]. apply fw_get_filter; exact E.
Qed.
Lemma fw_get_keep fw r v q :
  fw_get (fw_set_keep fw r v) q = if q =? r then match fw_get fw r with Some _ => Some v | None => None end else fw_get fw q.
Proof.
  induction fw as [|[q' x] t IH]; cbn [fw_set_keep fw_get]; [destruct (q =? r); reflexivity|].
  destruct (Z.eqb_spec r q') as [E1|E1]; cbn [fw_get].
  - subst q'. destruct (Z.eqb_spec q r) as [E2|E2]; reflexivity.
  - rewrite IH. destruct (Z.eqb_spec q r) as [E2|E2]; [|reflexivity]. subst q.
    destruct (Z.eqb_spec r q'); [contradiction | reflexivity].
Qed.

Lemma agrees_den w fw r a : agrees w fw -> root_get (roots w) r = Some a -> exists t, fw_get fw r = Some t /\ den (hp w) (HRef a) t.
Proof. intros [_ A] G. destruct (A _ _ G) as [t [E R]]. exists t. split; [exact E|]. exists (vdepth t). apply R. lia. Qed.

Lemma tree_uniq w : tree_like w -> shared w = [] -> uniq_parent (hp w).
Proof. intros (U & _ & _) S p1 p2 c C1 C2. destruct (U _ _ _ C1 C2) as [E | I]; [exact E|]. rewrite S in I. destruct I. Qed.
Lemma root_lt w r a c : w_valid w -> root_get (roots w) r = Some a -> reach (hp w) (HRef a) c -> c < next (hp w).
Proof.
  intros (V & VR & _) G R. apply (valid_lt _ _ V). eapply reach_allocd; [exact V | exact R |].
  intros a' E; inversion E; subst a'. apply (VR _ _ G).
Qed.

(* the invariant of a history without user sharing *)
Definition inv (w : world) : Prop := w_valid w /\ tree_like w /\ shared w = [] /\ h_plain (hp w).

(* ---- binding a name to a freshly allocated tree ---- *)
Lemma bind_agrees w fw r v a h1 : w_valid w -> agrees w fw -> alloc_tree v (hp w) = (HRef a, h1) ->
  agrees {| hp := h1; roots := root_set (roots w) r a; shared := shared w |} (fw_set fw r v).
Proof.
  intros W A Ea. assert (K := alloc_ok _ _ _ _ (proj1 W) Ea). split; cbn [hp roots].
  - intros q. rewrite root_get_set, fw_get_set. destruct (q =? r); [split; discriminate | apply (proj1 A)].
  - intros q a' G. rewrite root_get_set in G. rewrite fw_get_set. destruct (Z.eqb_spec q r) as [E|E].
    + inversion G; subst a'. exists v. split; [reflexivity|]. apply den_all.
      destruct (alloc_tree_read _ _ _ _ (proj1 W) Ea) as [k R]. exists k. apply R. lia.
    + destruct (agrees_den _ _ _ _ A G) as [t [Et D]]. exists t. split; [exact Et|]. apply den_all.
      eapply den_frame; [|exact D]. intros c R. apply (ok_old _ _ _ K). eapply root_lt; eauto.
Qed.
Lemma bind_inv w r v a h1 : inv w -> alloc_tree v (hp w) = (HRef a, h1) ->
  inv {| hp := h1; roots := root_set (roots w) r a; shared := shared w |}.
Proof.
  intros (W & T & S & P) Ea. assert (K := alloc_ok _ _ _ _ (proj1 W) Ea). split; [|split; [|split]]; cbn [hp shared].
  - eapply bind_valid; eauto.
  - eapply bind_tree; eauto.
  - exact S.
  - eapply alloc_plain; [exact (proj1 W) | exact P | exact Ea].
Qed.

(* both worlds bind r to the tree v (if it is an object) *)
Lemma bind_both w fw r v : inv w -> agrees w fw ->
  match (match alloc_tree v (hp w) with
         | (HRef a, h1) => Some {| hp := h1; roots := root_set (roots w) r a; shared := shared w |}
         | _ => None
         end), (if is_object v then Some (fw_set fw r v) else None) with
  | Some w', Some fw' => agrees w' fw' /\ inv w'
  | None, None => True
  | _, _ => False
  end.
Proof.
  intros I A. assert (O := alloc_obj v (hp w)). destruct (is_object v).
  - destruct O as [a [h1 Ea]]. rewrite Ea. split; [eapply bind_agrees; [exact (proj1 I) | exact A | exact Ea] | eapply bind_inv; eauto].
  - rewrite O. exact Logic.I.
Qed.

(* reading with the fixed fuel succeeds iff the tree is shallow enough *)
Lemma rfuel_read h a t : h_flat h -> den h (HRef a) t -> read_tree RFUEL h (HRef a) = if Nat.leb (vdepth t) RFUEL then Some t else None.
Proof.
  intros F D. destruct (Nat.leb (vdepth t) RFUEL) eqn:L.
  - apply den_all; [exact D|]. apply Nat.leb_le; exact L.
  - destruct (read_tree RFUEL h (HRef a)) as [t'|] eqn:E; [|reflexivity].
    assert (L' := read_tree_depth RFUEL h (HRef a) t' F Logic.I E). assert (t = t') by (eapply den_fun; [exact D | exists RFUEL; exact E]).
    subst t'. apply Nat.leb_gt in L. lia.
Qed.

(* ---- writing into a cell ---- *)
Definition cellR (R : hval -> value -> Prop) (ob : hobj) (tb : value) : Prop :=
  match ob with
  | HList xs => exists vs, tb = VList vs /\ Forall2 R xs vs
  | HPkt c s => exists vs, tb = VPkt c vs /\ Forall2 (named R) s vs
  end.
Lemma den_cell h a t : den h (HRef a) t <-> exists ob, h_get h a = Some ob /\ cellR (den h) ob t.
Proof.
  rewrite den_ref. destruct (h_get h a) as [[l | c s]|].
  - split; [intros H; eexists; split; [reflexivity | exact H] | intros [ob [E H]]; inversion E; subst; exact H].
  - split; [intros H; eexists; split; [reflexivity | exact H] | intros [ob [E H]]; inversion E; subst; exact H].
  - split; [intros [] | intros [ob [E _]]; discriminate].
Qed.
Lemma cellR_impl (R R' : hval -> value -> Prop) ob tb : cellR R ob tb -> (forall x v, In x (kids ob) -> R x v -> R' x v) -> cellR R' ob tb.
Proof.
  destruct ob as [l | c s]; intros [vs [E F]] K; exists vs; (split; [exact E|]); (eapply F2_impl_in; [exact F|]).
  - intros x v Ix _ H. apply K; assumption.
  - intros [f x] [g v] Ix _ [E1 H]. split; [exact E1|]. apply K; [|exact H]. cbn [kids]. apply in_map_iff. exists (f, x); auto.
Qed.

Definition set_cell (last : step) (o : hobj) (y : hval) : option hobj :=
  match o, last with
  | HPkt c s, SField f => Some (HPkt c (hslot_set s f y))
  | HList l, SIndex i => if i <? 0 then None else match list_set l (Z.to_nat i) y with Some l' => Some (HList l') | None => None end
  | _, _ => None
  end.
Definition app_cell (o : hobj) (y : hval) : option hobj := match o with HList l => Some (HList (l ++ [y])) | _ => None end.
Definition set_val (last : step) (y : value) (cont : value) : option value := if is_object cont then assign_at last y cont else None.

(* what the heap side does to a cell (hf) and what the value side does to the tree it denotes (gf) correspond *)
Record cell_sim (hf : hobj -> hval -> option hobj) (gf : value -> value -> option value) : Prop := {
  cs_none : forall (R : hval -> value -> Prop) ob tb y y', cellR R ob tb -> hf ob y = None -> gf y' tb = None;
  cs_some : forall (R : hval -> value -> Prop) ob tb y y' ob', cellR R ob tb -> R y y' -> hf ob y = Some ob' ->
              exists tb', gf y' tb = Some tb' /\ cellR R ob' tb';
  cs_leaf : forall y' u, is_object u = false -> gf y' u = None;
  cs_plain : forall ob y ob', hf ob y = Some ob' -> Forall imm_ok (kids ob) -> NoDup (refs (kids ob)) -> imm_ok y ->
              (forall c, y = HRef c -> ~ In c (refs (kids ob))) -> Forall imm_ok (kids ob') /\ NoDup (refs (kids ob')) }.

Lemma hslot_set_plain s f y : Forall imm_ok (map snd s) -> NoDup (refs (map snd s)) -> imm_ok y ->
  (forall c, y = HRef c -> ~ In c (refs (map snd s))) ->
  Forall imm_ok (map snd (hslot_set s f y)) /\ NoDup (refs (map snd (hslot_set s f y))).
Proof.
  intros F N Y Fr. induction s as [|[g x] r IH]; cbn [hslot_set map snd].
  - split; [constructor; [exact Y | constructor]|]. destruct y; cbn [refs]; constructor; [intros [] | constructor].
  - cbn [map snd] in F, N, Fr. inversion F; subst.
    assert (Nr : NoDup (refs (map snd r))) by (destruct x; cbn [refs] in N; [exact N | inversion N; assumption]).
    destruct (fname_eqb f g); cbn [map snd].
    + split; [constructor; assumption|]. destruct y as [v | c]; cbn [refs]; [exact Nr|]. constructor; [|exact Nr].
      intros I. apply (Fr c eq_refl). destruct x; cbn [refs]; [exact I | right; exact I].
    + destruct IH as [F' N']; [assumption | exact Nr | |].
      { intros c E I. apply (Fr c E). destruct x; cbn [refs]; [exact I | right; exact I]. }
      split; [constructor; assumption|]. destruct x as [v | cx]; cbn [refs]; [exact N'|]. constructor; [|exact N'].
      intros I. apply refs_in in I. destruct (kids_hslot_set _ _ _ _ I) as [I' | E].
      * cbn [refs] in N. inversion N; subst. apply H3. apply refs_in. exact I'.
      * apply (Fr cx (eq_sym E)). cbn [refs]. left; reflexivity.
Qed.
Lemma list_set_plain : forall l n y l', list_set l n y = Some l' -> Forall imm_ok l -> NoDup (refs l) -> imm_ok y ->
  (forall c, y = HRef c -> ~ In c (refs l)) -> Forall imm_ok l' /\ NoDup (refs l').
Proof.
  induction l as [|x r IH]; intros n y l' E F N Y Fr; [destruct n; discriminate|]. inversion F; subst.
  assert (Nr : NoDup (refs r)) by (destruct x; cbn [refs] in N; [exact N | inversion N; assumption]).
  destruct n as [|n]; cbn [list_set] in E.
  - inversion E; subst. split; [constructor; assumption|]. destruct y as [v | c]; cbn [refs]; [exact Nr|]. constructor; [|exact Nr].
    intros I. apply (Fr c eq_refl). destruct x; cbn [refs]; [exact I | right; exact I].
  - destruct (list_set r n y) as [r'|] eqn:E1; [|discriminate]. inversion E; subst.
    destruct (IH _ _ _ E1) as [F' N']; [assumption | exact Nr | exact Y | |].
    { intros c Ec I. apply (Fr c Ec). destruct x; cbn [refs]; [exact I | right; exact I]. }
    split; [constructor; assumption|]. destruct x as [v | cx]; cbn [refs]; [exact N'|]. constructor; [|exact N'].
    intros I. apply refs_in in I. destruct (kids_list_set _ _ _ _ _ E1 I) as [I' | Ey].
    * cbn [refs] in N. inversion N; subst. apply H3. apply refs_in. exact I'.
    * apply (Fr cx (eq_sym Ey)). cbn [refs]. left; reflexivity.
Qed.

Lemma set_sim last : cell_sim (set_cell last) (set_val last).
Proof.
  split.
  - intros R ob tb y y' C E. destruct ob as [l | c s]; destruct C as [vs [Et F]]; subst tb; unfold set_val; cbn [is_object];
      destruct last as [f | i]; cbn [set_cell assign_at] in *; try reflexivity; try discriminate.
    destruct (i <? 0); [reflexivity|]. destruct (list_set l (Z.to_nat i) y) eqn:El; [discriminate|].
    rewrite (F2_list_set_none _ _ y y' F _ El). reflexivity.
  - intros R ob tb y y' ob' C Hy E. destruct ob as [l | c s]; destruct C as [vs [Et F]]; subst tb; unfold set_val; cbn [is_object];
      destruct last as [f | i]; cbn [set_cell assign_at] in *; try discriminate.
    + destruct (i <? 0); [discriminate|]. destruct (list_set l (Z.to_nat i) y) as [l'|] eqn:El; [|discriminate]. inversion E; subst.
      destruct (F2_list_set R _ _ y y' F Hy _ _ El) as [vs' [Ev Fv]]. rewrite Ev. exists (VList vs'). split; [reflexivity|]. exists vs'; auto.
    + inversion E; subst. exists (VPkt c (slot_set vs f y')). split; [reflexivity|]. exists (slot_set vs f y'). split; [reflexivity|].
      apply F2_slot_set; assumption.
  - intros y' u Hu. unfold set_val. rewrite Hu. reflexivity.
  - intros ob y ob' E F N Y Fr. destruct ob as [l | c s]; destruct last as [f | i]; cbn [set_cell] in E; try discriminate.
    + destruct (i <? 0); [discriminate|]. destruct (list_set l (Z.to_nat i) y) as [l'|] eqn:El; [|discriminate]. inversion E; subst.
      cbn [kids] in *. eapply list_set_plain; eauto.
    + inversion E; subst. cbn [kids] in *. apply hslot_set_plain; assumption.
Qed.
Lemma nodup_snoc {A} (l : list A) c : NoDup l -> ~ In c l -> NoDup (l ++ [c]).
Proof.
  induction l as [|a r IH]; intros N I; cbn [app]; [constructor; [intros [] | constructor]|].
  inversion N; subst. constructor.
  - intros J. apply in_app_or in J. destruct J as [J | [J | []]]; [contradiction | subst; apply I; left; reflexivity].
  - apply IH; [assumption | intros J; apply I; right; exact J].
Qed.
Lemma app_sim : cell_sim app_cell append_at.
Proof.
  split.
  - intros R ob tb y y' C E. destruct ob as [l | c s]; [discriminate|]. destruct C as [vs [Et _]]; subst tb. reflexivity.
  - intros R ob tb y y' ob' C Hy E. destruct ob as [l | c s]; [|discriminate]. destruct C as [vs [Et F]]; subst tb.
    inversion E; subst. exists (VList (vs ++ [y'])). split; [reflexivity|]. exists (vs ++ [y']). split; [reflexivity|].
    apply Forall2_app; [exact F | constructor; [exact Hy | constructor]].
  - intros y' u Hu. destruct u; try reflexivity; discriminate.
  - intros ob y ob' E F N Y Fr. destruct ob as [l | c s]; [|discriminate]. inversion E; subst. cbn [kids] in *. split.
    + apply Forall_app. split; [exact F | constructor; [exact Y | constructor]].
    + rewrite refs_app. destruct y as [v | c]; cbn [refs]; [rewrite app_nil_r; exact N|].
      apply nodup_snoc; [exact N | apply (Fr c eq_refl)].
Qed.

Lemma plain_put h b ob' : h_plain h -> Forall imm_ok (kids ob') -> NoDup (refs (kids ob')) -> h_plain (h_put h b ob').
Proof.
  intros [F N] Fo No. split; intros a o' G; rewrite h_get_put in G; destruct (a =? b).
  - inversion G; subst; exact Fo.
  - eapply F; eauto.
  - inversion G; subst; exact No.
  - eapply N; eauto.
Qed.

(* the shape WSet and WAppend share, on both sides (yo: the literal after `complete`) *)
Definition write_w (w : world) (r : Z) (p : list step) (yo : option value) (hf : hobj -> hval -> option hobj) : option world :=
  match root_get (roots w) r with
  | None => None
  | Some a =>
      match path_get (hp w) (HRef a) p with
      | Some (HRef b) =>
          match yo with
          | None => None
          | Some v' =>
              let '(y, h1) := alloc_tree v' (hp w) in
              match h_get h1 b with
              | Some ob =>
                  match hf ob y with
                  | Some ob' => Some {| hp := h_put h1 b ob'; roots := roots w; shared := shared w |}
                  | None => None
                  end
              | None => None
              end
          end
      | _ => None
      end
  end.
Definition write_f (fw : fworld) (r : Z) (p : list step) (yo : option value) (gf : value -> value -> option value) : option fworld :=
  match fw_get fw r, yo with
  | Some t, Some y => match tree_upd t p (gf y) with Some t' => Some (fw_set_keep fw r t') | None => None end
  | _, _ => None
  end.

Lemma write_both w fw r p yo hf gf : inv w -> agrees w fw -> cell_sim hf gf ->
  match write_w w r p yo hf, write_f fw r p yo gf with
  | Some w', Some fw' => agrees w' fw' /\ h_plain (hp w')
  | None, None => True
  | _, _ => False
  end.
Proof.
  intros (W & T & S & [Fl Nd]) A CS. unfold write_w, write_f.
  destruct (root_get (roots w) r) as [a|] eqn:Gr.
  2:{ apply (proj1 A) in Gr. rewrite Gr. exact I. }
  destruct (agrees_den _ _ _ _ A Gr) as [t [Ef Da]]. rewrite Ef.
  assert (PD := path_den (hp w) p (HRef a) t Fl I Da).
  destruct (path_get (hp w) (HRef a) p) as [[u | b]|] eqn:Ep.
  - destruct PD as [ty [Es [Dy Xy]]]. apply den_imm in Dy. subst ty. cbn [imm_ok] in Xy.
    destruct yo as [y'|]; [|exact I]. rewrite (tree_upd_none2 (gf y') u (cs_leaf _ _ CS y' u Xy) p t Es). exact I.
  - destruct PD as [tb [Es [Db _]]]. destruct yo as [y'|]; [|exact I].
    destruct (alloc_tree y' (hp w)) as [y h1] eqn:Ea.
    assert (V := proj1 W). assert (K := alloc_ok _ _ _ _ V Ea).
    assert (Rb : reach (hp w) (HRef a) b) by (eapply path_get_reach; eauto).
    assert (Lb : b < next (hp w)) by (eapply root_lt; eauto).
    assert (Gb : h_get h1 b = h_get (hp w) b) by (apply (ok_old _ _ _ K); exact Lb).
    rewrite Gb. assert (Db' := Db). apply den_cell in Db'. destruct Db' as [ob [Gb0 C]]. rewrite Gb0.
    destruct (hf ob y) as [ob'|] eqn:Eh.
    2:{ rewrite (tree_upd_none2 (gf y') tb (cs_none _ _ CS _ _ _ y y' C Eh) p t Es). exact I. }
    set (h' := h_put h1 b ob').
    assert (FR : forall c, c < next (hp w) -> c <> b -> h_get h' c = h_get (hp w) c).
    { intros c Lc Nc. unfold h'. rewrite h_get_put. destruct (Z.eqb_spec c b); [contradiction|]. apply (ok_old _ _ _ K); exact Lc. }
    assert (OLD : forall x v, In x (kids ob) -> den (hp w) x v -> den h' x v).
    { intros x v Ix Dx. assert (Cx : child (hp w) b x) by (apply child_iff; exists ob; auto).
      eapply den_frame; [|exact Dx]. intros c Rc. apply FR.
      - eapply root_lt; [exact W | exact Gr |]. eapply reach_trans; [exact Rb |]. eapply RStep; eauto.
      - intros Ec; subst c. eapply den_acyclic; eauto. }
    assert (NEW : den h' y y').
    { destruct (alloc_tree_read _ _ _ _ V Ea) as [k Rk]. eapply den_frame; [|exists k; apply Rk; lia].
      intros c Rc. unfold h'. rewrite h_get_put. destruct (Z.eqb_spec c b) as [Ec|Ec]; [|reflexivity].
      destruct (alloc_tree_fresh _ _ _ _ V Ea) as (_ & _ & _ & Fr). specialize (Fr _ Rc). lia. }
    destruct (cs_some _ _ CS (den h') ob tb y y' ob' (cellR_impl _ _ _ _ C OLD) NEW Eh) as [tb' [Eg C']].
    assert (Db' : den h' (HRef b) tb').
    { apply den_cell. exists ob'. split; [unfold h'; rewrite h_get_put, Z.eqb_refl; reflexivity | exact C']. }
    destruct (upd_den (hp w) h' (gf y') b tb tb' (tree_uniq _ T S) Nd Db Eg Db' p (HRef a) t Da Ep) as [t' [Eu Da']].
    { intros c Rc Nc. apply FR; [eapply root_lt; eauto | exact Nc]. }
    rewrite Eu. split.
    + split; cbn [hp roots].
      * intros q. rewrite fw_get_keep. destruct (Z.eqb_spec q r) as [E|E]; [|apply (proj1 A)].
        subst q. rewrite Ef, Gr. split; discriminate.
      * intros q aq Gq. rewrite fw_get_keep. destruct (Z.eqb_spec q r) as [E|E].
        -- subst q. rewrite Gr in Gq. inversion Gq; subst aq. rewrite Ef. exists t'. split; [reflexivity|]. apply den_all. exact Da'.
        -- destruct (agrees_den _ _ _ _ A Gq) as [t2 [E2 D2]]. exists t2. split; [exact E2|]. apply den_all.
           eapply den_frame; [|exact D2]. intros c Rc. apply FR; [eapply root_lt; eauto|]. intros Ec; subst c.
           destruct (tree_like_separated w T q r aq a b E Gq Gr Rc Rb) as [s [Is _]]. rewrite S in Is. destruct Is.
    + cbn [hp]. destruct (alloc_plain _ _ _ _ V (conj Fl Nd) Ea) as [P1 Y].
      destruct (cs_plain _ _ CS ob y ob' Eh (Fl _ _ Gb0) (Nd _ _ Gb0) Y) as [Fo No].
      { intros c Ey Ic. subst y. apply refs_in in Ic.
        assert (Ac : allocd (hp w) c) by (eapply valid_child; [exact V | apply child_iff; exists ob; eauto]).
        apply (valid_lt _ _ V) in Ac. destruct (ok_top _ _ _ K c (or_introl eq_refl)). lia. }
      apply plain_put; assumption.
  - destruct yo as [y'|]; [|exact I]. rewrite (tree_upd_none1 (gf y') p t PD). exact I.
Qed.

Lemma w_step_set host ct w r p last v :
  w_step host ct w (WSet r p last (SrcLit v)) = write_w w r p (complete FUEL ct v) (set_cell last).
Proof.
  unfold w_step, write_w, resolve_src. destruct (root_get (roots w) r) as [a|]; [|reflexivity].
  destruct (path_get (hp w) (HRef a) p) as [[u | b]|]; try reflexivity.
  destruct (complete FUEL ct v) as [v'|]; [|reflexivity]. destruct (alloc_tree v' (hp w)) as [y h1].
  destruct (h_get h1 b) as [[l | c s]|]; destruct last as [f | i]; try reflexivity.
  cbn [set_cell]. destruct (i <? 0); [reflexivity|]. destruct (list_set l (Z.to_nat i) y); reflexivity.
Qed.
Lemma w_step_append host ct w r p v :
  w_step host ct w (WAppend r p (SrcLit v)) = write_w w r p (complete FUEL ct v) app_cell.
Proof.
  unfold w_step, write_w, resolve_src. destruct (root_get (roots w) r) as [a|]; [|reflexivity].
  destruct (path_get (hp w) (HRef a) p) as [[u | b]|]; try reflexivity.
  destruct (complete FUEL ct v) as [v'|]; [|reflexivity]. destruct (alloc_tree v' (hp w)) as [y h1].
  destruct (h_get h1 b) as [[l | c s]|]; reflexivity.
Qed.
Lemma f_step_set host ct fw r p last v :
  f_step host ct fw (WSet r p last (SrcLit v)) = write_f fw r p (complete FUEL ct v) (set_val last).
Proof. reflexivity. Qed.
Lemma f_step_append host ct fw r p v :
  f_step host ct fw (WAppend r p (SrcLit v)) = write_f fw r p (complete FUEL ct v) append_at.
Proof. reflexivity. Qed.

(* ------------------------------------------------------------------------------------------------------------------ *)
(* 6. one operation                                                                                                    *)
(* ------------------------------------------------------------------------------------------------------------------ *)
Lemma step_both host ct w fw o : inv w -> agrees w fw -> op_no_share o = true ->
  match w_step host ct w o, f_step host ct fw o with
  | Some w', Some fw' => agrees w' fw' /\ h_plain (hp w')
  | None, None => True
  | _, _ => False
  end.
Proof.
  intros IW A N. assert (IW' := IW). destruct IW' as (W & T & S & [Fl Nd]).
  assert (BIND : forall r v,
    match (match alloc_tree v (hp w) with
           | (HRef a, h1) => Some {| hp := h1; roots := root_set (roots w) r a; shared := shared w |}
           | _ => None
           end), (if is_object v then Some (fw_set fw r v) else None) with
    | Some w', Some fw' => agrees w' fw' /\ h_plain (hp w')
    | None, None => True
    | _, _ => False
    end).
  { intros r v. assert (B := bind_both w fw r v IW A).
    destruct (alloc_tree v (hp w)) as [[u | a] h1]; destruct (is_object v); try exact B.
    destruct B as [B1 (_ & _ & _ & B2)]. split; assumption. }
  destruct o as [r v | r c raw off | r r0 | r p last x | r p x | r].
  - unfold w_step, f_step. destruct (complete FUEL ct v) as [v'|]; [|exact I].
    destruct v'; try exact I. exact (BIND r (VPkt c slots)).
  - unfold w_step, f_step. destruct (unpack_any FUEL host ct raw c off) as [v n tr | st |]; try exact I. exact (BIND r v).
  - unfold w_step, f_step. destruct (root_get (roots w) r0) as [a0|] eqn:Gr.
    2:{ apply (proj1 A) in Gr. rewrite Gr. exact I. }
    destruct (agrees_den _ _ _ _ A Gr) as [t [Ef Da]]. rewrite Ef, (rfuel_read _ _ _ Fl Da).
    destruct t; try (destruct (Nat.leb _ RFUEL); exact I).
    destruct (Nat.leb (vdepth (VPkt c slots)) RFUEL); [|exact I].
    destruct (pack_any_top FUEL host no_delims ct c slots) as [b v0 | st |]; try exact I.
    destruct (unpack_any FUEL host ct b c 0) as [v n tr | st |]; try exact I. exact (BIND r v).
  - destruct x as [v | r' p']; [|discriminate]. rewrite w_step_set, f_step_set. apply write_both; [exact IW | exact A | apply set_sim].
  - destruct x as [v | r' p']; [|discriminate]. rewrite w_step_append, f_step_append. apply write_both; [exact IW | exact A | apply app_sim].
  - unfold w_step, f_step. destruct (root_get (roots w) r) as [a|] eqn:Gr.
    2:{ apply (proj1 A) in Gr. rewrite Gr. exact I. }
    destruct (agrees_den _ _ _ _ A Gr) as [t [Ef Da]]. rewrite Ef, (rfuel_read _ _ _ Fl Da).
    destruct t; try (destruct (Nat.leb _ RFUEL); exact I).
    destruct (Nat.leb (vdepth (VPkt c slots)) RFUEL); [|exact I].
    destruct (pack_any_top FUEL host no_delims ct c slots) as [b v0 | st |]; try exact I.
    split; [exact A | split; assumption].
Qed.

(* one operation (the user hands over no object of a live packet): both worlds raise, or both go on and still agree.
   Changed with respect to notes/stmts/S13: the extra hypothesis `h_plain (hp w)` (see `step_needs_flat` and
   `step_needs_nodup` below); every history keeps it (`w_step_plain`, `history_inv_agrees`). *)
Theorem adequacy_step : forall host ct w fw o,
  w_valid w -> tree_like w -> shared w = [] -> h_plain (hp w) -> agrees w fw -> op_no_share o = true ->
  match w_step host ct w o, f_step host ct fw o with
  | Some w', Some fw' => agrees w' fw'
  | None, None => True
  | _, _ => False
  end.
Proof.
  intros host ct w fw o W T S P A N. assert (B := step_both host ct w fw o (conj W (conj T (conj S P))) A N).
  destruct (w_step host ct w o), (f_step host ct fw o); try exact B. exact (proj1 B).
Qed.

(* the extra hypothesis is kept by every operation *)
Theorem w_step_plain : forall host ct w fw o w',
  w_valid w -> tree_like w -> shared w = [] -> h_plain (hp w) -> agrees w fw -> op_no_share o = true ->
  w_step host ct w o = Some w' -> h_plain (hp w').
Proof.
  intros host ct w fw o w' W T S P A N E. assert (B := step_both host ct w fw o (conj W (conj T (conj S P))) A N).
  rewrite E in B. destruct (f_step host ct fw o); [exact (proj2 B) | destruct B].
Qed.

Lemma inv_step host ct w fw o w' : inv w -> agrees w fw -> op_no_share o = true -> w_step host ct w o = Some w' -> inv w'.
Proof.
  intros IW A N E. assert (IW' := IW). destruct IW' as (W & T & S & P). split; [|split; [|split]].
  - eapply w_step_valid; eauto.
  - eapply w_step_tree_like; eauto.
  - rewrite (w_step_shared _ _ _ _ _ N E). exact S.
  - eapply w_step_plain; eauto.
Qed.

Lemma w_empty_inv : inv w_empty.
Proof.
  split; [exact w_empty_valid | split; [exact w_empty_tree | split; [reflexivity|]]].
  split; intros a o E; discriminate.
Qed.
Lemma w_empty_agrees : agrees w_empty [].
Proof. split; [intros r; split; reflexivity | intros r a E; discriminate]. Qed.

Lemma history_inv_agrees host ct : forall ops w fw, inv w -> agrees w fw -> forallb op_no_share ops = true ->
  inv (fold_left (w_run1 host ct) ops w) /\ agrees (fold_left (w_run1 host ct) ops w) (fold_left (f_run1 host ct) ops fw).
Proof.
  induction ops as [|o r IH]; intros w fw IW A N; [auto|]. cbn [forallb] in N. apply andb_prop in N. destruct N as [No Nr].
  cbn [fold_left].
  assert (E : inv (w_run1 host ct w o) /\ agrees (w_run1 host ct w o) (f_run1 host ct fw o)).
  { assert (B := step_both host ct w fw o IW A No). unfold w_run1, f_run1.
    destruct (w_step host ct w o) as [w'|] eqn:Ew; destruct (f_step host ct fw o) as [fw'|]; try destruct B.
    - split; [eapply inv_step; eauto | assumption].
    - auto. }
  destruct E as [IW1 A1]. apply IH; assumption.
Qed.

(* every history without user sharing, from the empty worlds *)
Theorem adequacy_history : forall host ct ops,
  forallb op_no_share ops = true ->
  agrees (fold_left (w_run1 host ct) ops w_empty) (fold_left (f_run1 host ct) ops []).
Proof. intros host ct ops N. apply (history_inv_agrees host ct ops w_empty [] w_empty_inv w_empty_agrees N). Qed.

(* ... and the heap stays plain *)
Theorem history_plain : forall host ct ops,
  forallb op_no_share ops = true -> h_plain (hp (fold_left (w_run1 host ct) ops w_empty)).
Proof. intros host ct ops N. apply (history_inv_agrees host ct ops w_empty [] w_empty_inv w_empty_agrees N). Qed.

(* each operation of such a history raises in one world iff it raises in the other *)
Theorem adequacy_raises : forall host ct ops o,
  forallb op_no_share ops = true -> op_no_share o = true ->
  let w := fold_left (w_run1 host ct) ops w_empty in
  let fw := fold_left (f_run1 host ct) ops [] in
  w_step host ct w o = None <-> f_step host ct fw o = None.
Proof.
  intros host ct ops o N No. cbv zeta.
  destruct (history_inv_agrees host ct ops w_empty [] w_empty_inv w_empty_agrees N) as [IW A].
  assert (B := step_both host ct _ _ o IW A No).
  destruct (w_step host ct _ o), (f_step host ct _ o); try destruct B; split; congruence.
Qed.

(* corollary: what serializing a live packet returns is what the value model says about its tree *)
Theorem adequacy_pack : forall host ct ops r a,
  forallb op_no_share ops = true ->
  let w := fold_left (w_run1 host ct) ops w_empty in
  let fw := fold_left (f_run1 host ct) ops [] in
  root_get (roots w) r = Some a ->
  exists t, fw_get fw r = Some t /\ ((vdepth t <= RFUEL)%nat -> read_tree RFUEL (hp w) (HRef a) = Some t).
Proof.
  intros host ct ops r a N. cbv zeta. intros G. destruct (adequacy_history host ct ops N) as [_ A].
  destruct (A r a G) as [t [E R]]. exists t. split; [exact E | intros L; apply R; exact L].
Qed.

(* ------------------------------------------------------------------------------------------------------------------ *)
(* 7. examples                                                                                                         *)
(* ------------------------------------------------------------------------------------------------------------------ *)
Definition ad_ops : list wop :=
  [WNew 1 (VPkt 1 [(FN 0, VList [VInt 1; VInt 2]); (FN 1, VPkt 2 [(FN 0, VInt 5)])]);
   WNew 2 (VPkt 1 [(FN 0, VList []); (FN 1, VNone)]);
   WSet 1 [SField (FN 1)] (SField (FN 0)) (SrcLit (VInt 9));
   WAppend 1 [SField (FN 0)] (SrcLit (VList [VInt 7]));
   WSet 1 [SField (FN 0)] (SIndex 0) (SrcLit (VBytes [65]));
   WSet 2 [] (SField (FN 1)) (SrcLit (VPkt 2 [(FN 0, VInt 6)]));
   WSet 2 [SField (FN 0)] (SIndex 3) (SrcLit (VInt 0));       (* raises: index out of range *)
   WSet 1 [SField (FN 0); SIndex 2] (SIndex 0) (SrcLit (VInt 8))].
Definition ad_w := fold_left (w_run1 true []) ad_ops w_empty.
Definition ad_fw := fold_left (f_run1 true []) ad_ops [].
Fixpoint w_flags (w : world) (ops : list wop) : list Z :=
  match ops with
  | [] => []
  | o :: r => (match w_step true [] w o with Some _ => 1 | None => 0 end) :: w_flags (w_run1 true [] w o) r
  end.
Fixpoint f_flags (fw : fworld) (ops : list wop) : list Z :=
  match ops with
  | [] => []
  | o :: r => (match f_step true [] fw o with Some _ => 1 | None => 0 end) :: f_flags (f_run1 true [] fw o) r
  end.
Definition ad_trees : list (option value) :=
  [Some (VPkt 1 [(FN 0, VList [VBytes [65]; VInt 2; VList [VInt 8]]); (FN 1, VPkt 2 [(FN 0, VInt 9)])]);
   Some (VPkt 1 [(FN 0, VList []); (FN 1, VPkt 2 [(FN 0, VInt 6)])])].
(* the two worlds agree on an 8-operation history (nested paths, a raising operation): the theorems are not vacuous *)
Example ad_example :
  forallb op_no_share ad_ops = true /\
  map (fun r => match root_get (roots ad_w) r with Some a => read_tree 10 (hp ad_w) (HRef a) | None => None end) [1; 2] = ad_trees /\
  map (fw_get ad_fw) [1; 2] = ad_trees /\
  w_flags w_empty ad_ops = [1; 1; 1; 1; 1; 1; 0; 1] /\ f_flags [] ad_ops = [1; 1; 1; 1; 1; 1; 0; 1] /\
  map (fun o => match w_step true [] w_empty o with Some _ => 1 | None => 0 end) ad_ops = [1; 1; 0; 0; 0; 0; 0; 0] /\
  agrees ad_w ad_fw.
Proof.
  split; [reflexivity|]. split; [vm_compute; reflexivity|]. split; [vm_compute; reflexivity|].
  split; [vm_compute; reflexivity|]. split; [vm_compute; reflexivity|]. split; [vm_compute; reflexivity|].
  apply adequacy_history. reflexivity.
Qed.

(* why the statements of notes/stmts/S13 needed a side condition *)
(* (a) read_tree hands out an inline value without looking at the fuel *)
Example depth_needs_flat : read_tree 0 h_empty (HImm (VList [])) = Some (VList []) /\ vdepth (VList []) = 1%nat.
Proof. split; reflexivity. Qed.

Definition cx_op : wop := WAppend 1 [SField (FN 0)] (SrcLit (VInt 1)).
Lemma cx_agrees h a t : read_tree 5 h (HRef a) = Some t -> agrees {| hp := h; roots := [(1, a)]; shared := [] |} [(1, t)].
Proof.
  intros E. split; cbn [roots hp root_get fw_get].
  - intros r. destruct (r =? 1); split; congruence.
  - intros r a' G. destruct (r =? 1); [|discriminate]. inversion G; subst a'. exists t. split; [reflexivity|].
    intros n L. eapply read_tree_enough; eauto.
Qed.
Ltac cell_enum E := apply h_get_in in E; cbn [cells] in E; repeat (destruct E as [E|E]; [inversion E; clear E; subst|]); [..|destruct E].

(* (b) a list stored inline (not as a cell): the object world cannot append to it *)
Definition cx_flat : world :=
  {| hp := {| cells := [(0, HPkt 1 [(FN 0, HImm (VList []))])]; next := 1 |}; roots := [(1, 0)]; shared := [] |}.
Example step_needs_flat :
  w_valid cx_flat /\ tree_like cx_flat /\ shared cx_flat = [] /\ agrees cx_flat [(1, VPkt 1 [(FN 0, VList [])])] /\
  op_no_share cx_op = true /\
  w_step true [] cx_flat cx_op = None /\ f_step true [] [(1, VPkt 1 [(FN 0, VList [])])] cx_op <> None.
Proof.
  assert (NC : forall p c, ~ child (hp cx_flat) p (HRef c)).
  { intros p c C. apply child_iff in C. destruct C as [o [E I]]. cell_enum E. cbn in I. destruct I as [I | []]; discriminate. }
  split; [|split; [|split; [|split; [|split; [|split]]]]].
  - split; [|split].
    + split; [cbn; lia | split].
      * intros a o E. cell_enum E. cbn; lia.
      * intros a x b C Ex. subst x. destruct (NC _ _ C).
    + intros r a G. cbn in G. destruct (r =? 1); [|discriminate]. inversion G; subst. eexists; vm_compute; reflexivity.
    + intros s [].
  - split; [|split].
    + intros p1 p2 c C _. destruct (NC _ _ C).
    + intros r a p _ C. destruct (NC _ _ C).
    + intros r1 r2 a G1 G2. cbn in G1, G2. left.
      destruct (Z.eqb_spec r1 1); [|discriminate]. destruct (Z.eqb_spec r2 1); [|discriminate]. congruence.
  - reflexivity.
  - apply (cx_agrees (hp cx_flat) 0). vm_compute; reflexivity.
  - reflexivity.
  - vm_compute; reflexivity.
  - vm_compute; discriminate.
Qed.

(* (c) one list stored twice in one packet (tree_like only asks for one parent CELL): the append shows in both places *)
Definition cx_dup : world :=
  {| hp := {| cells := [(0, HPkt 1 [(FN 0, HRef 1); (FN 1, HRef 1)]); (1, HList [])]; next := 2 |}; roots := [(1, 0)]; shared := [] |}.
Definition cx_dup_fw : fworld := [(1, VPkt 1 [(FN 0, VList []); (FN 1, VList [])])].
Example step_needs_nodup :
  w_valid cx_dup /\ tree_like cx_dup /\ shared cx_dup = [] /\ h_flat (hp cx_dup) /\ agrees cx_dup cx_dup_fw /\ op_no_share cx_op = true /\
  exists w' fw', w_step true [] cx_dup cx_op = Some w' /\ f_step true [] cx_dup_fw cx_op = Some fw' /\
    read_tree 5 (hp w') (HRef 0) = Some (VPkt 1 [(FN 0, VList [VInt 1]); (FN 1, VList [VInt 1])]) /\
    fw_get fw' 1 = Some (VPkt 1 [(FN 0, VList [VInt 1]); (FN 1, VList [])]) /\ ~ agrees w' fw'.
Proof.
  assert (CH : forall p c, child (hp cx_dup) p (HRef c) -> p = 0 /\ c = 1).
  { intros p c C. apply child_iff in C. destruct C as [o [E I]]. cell_enum E; cbn in I.
    - destruct I as [I | [I | []]]; inversion I; auto.
    - destruct I. }
  split; [|split; [|split; [|split; [|split; [|split]]]]].
  - split; [|split].
    + split; [cbn; lia | split].
      * intros a o E. cell_enum E; cbn; lia.
      * intros a x b C Ex. subst x. destruct (CH _ _ C) as [_ E]. subst b. eexists; vm_compute; reflexivity.
    + intros r a G. cbn in G. destruct (r =? 1); [|discriminate]. inversion G; subst. eexists; vm_compute; reflexivity.
    + intros s [].
  - split; [|split].
    + intros p1 p2 c C1 C2. left. destruct (CH _ _ C1), (CH _ _ C2). congruence.
    + intros r a p G C. cbn in G. destruct (r =? 1); [|discriminate]. inversion G; subst a. destruct (CH _ _ C); discriminate.
    + intros r1 r2 a G1 G2. cbn in G1, G2. left.
      destruct (Z.eqb_spec r1 1); [|discriminate]. destruct (Z.eqb_spec r2 1); [|discriminate]. congruence.
  - reflexivity.
  - intros a o E. cell_enum E; cbn; repeat constructor.
  - apply (cx_agrees (hp cx_dup) 0). vm_compute; reflexivity.
  - reflexivity.
  - eexists. eexists. split; [vm_compute; reflexivity|]. split; [vm_compute; reflexivity|].
    split; [vm_compute; reflexivity|]. split; [vm_compute; reflexivity|].
    intros [_ A]. destruct (A 1 0 eq_refl) as [t [E R]]. vm_compute in E. inversion E; subst t.
    specialize (R 5%nat). vm_compute in R. specialize (R ltac:(lia)). discriminate.
Qed.

Print Assumptions read_tree_depth.
Print Assumptions adequacy_step.
Print Assumptions w_step_plain.
Print Assumptions adequacy_history.
Print Assumptions history_plain.
Print Assumptions adequacy_raises.
Print Assumptions adequacy_pack.
Print Assumptions ad_example.
Print Assumptions depth_needs_flat.
Print Assumptions step_needs_flat.
Print Assumptions step_needs_nodup.
