(* Proofs/BitsProofs.v -- properties of the Bits model (Kernel/BitsK.v): the compile step gives each
   member the shift "sum of the widths after it" and the matching mask; get/put are the arithmetic
   slice operations; packing all members then unpacking returns each value mod 2^width whatever the
   stale shared integer; unpack then pack is the identity.  Stdlib only, no axioms. *)
From Coq Require Import ZArith List Bool Lia ZifyBool.
From Bisturi Require Import Base.Bytes Kernel.BitsK.
Import ListNotations.
Open Scope Z_scope.
Ltac Zify.zify_post_hook ::= Z.to_euclidean_division_equations.

Fixpoint zsum (l : list Z) : Z :=
  match l with
  | [] => 0
  | x :: r => x + zsum r
  end.
Definition suffix_sum (ws : list Z) (i : nat) : Z := zsum (skipn (S i) ws).

Definition nonneg_all (ws : list Z) : Prop := Forall (fun w => 0 <= w) ws.

Lemma zsum_app : forall a b, zsum (a ++ b) = zsum a + zsum b.
Proof.
  induction a as [|x a IH]; intros b; cbn [zsum app]; [lia | rewrite IH; lia].
Qed.

Lemma zsum_rev : forall l, zsum (rev l) = zsum l.
Proof.
  induction l as [|x l IH]; cbn [rev zsum]; [reflexivity|].
  rewrite zsum_app, IH. cbn [zsum]. lia.
Qed.

Lemma zsum_nonneg : forall ws, nonneg_all ws -> 0 <= zsum ws.
Proof.
  induction 1 as [|w r Hw Hr IH]; cbn [zsum]; lia.
Qed.

Lemma suffix_sum_0 : forall w r, suffix_sum (w :: r) 0 = zsum r.
Proof. reflexivity. Qed.

Lemma suffix_sum_S : forall w r i, suffix_sum (w :: r) (S i) = suffix_sum r i.
Proof. reflexivity. Qed.

Lemma suffix_sum_nonneg : forall ws i, nonneg_all ws -> 0 <= suffix_sum ws i.
Proof.
  intros ws i H. unfold suffix_sum. apply zsum_nonneg.
  revert i; induction H as [|w r Hw Hr IH]; intros i.
  - cbn [skipn]. constructor.
  - destruct i as [|i].
    + cbn [skipn]. exact Hr.
    + change (skipn (S (S i)) (w :: r)) with (skipn (S i) r). apply IH.
Qed.

(* ------------------------------------------------------------------------------------------ *)
(* the compile step                                                                           *)
(* ------------------------------------------------------------------------------------------ *)

(* declaration-order layout: each member is shifted by the total width of the members after it *)
Fixpoint layout_from (c : Z) (ws : list Z) : list (Z * Z) :=
  match ws with
  | [] => []
  | w :: r => (c + zsum r, mask_of w (c + zsum r)) :: layout_from c r
  end.
Fixpoint layout (ws : list Z) : list (Z * Z) :=
  match ws with
  | [] => []
  | w :: r => (zsum r, mask_of w (zsum r)) :: layout r
  end.

Lemma layout_from_0 : forall ws, layout_from 0 ws = layout ws.
Proof.
  induction ws as [|w r IH]; cbn [layout_from layout]; [reflexivity|].
  rewrite IH, Z.add_0_l. reflexivity.
Qed.

Lemma layout_from_snoc : forall c a w,
  layout_from c (a ++ [w]) = layout_from (c + w) a ++ [(c, mask_of w c)].
Proof.
  intros c a w. induction a as [|x a IH].
  - cbn [app layout_from zsum]. rewrite Z.add_0_r. reflexivity.
  - cbn [app layout_from]. rewrite IH, zsum_app. cbn [zsum].
    replace (c + (zsum a + (w + 0))) with (c + w + zsum a) by lia. reflexivity.
Qed.

Lemma assign_rev_spec : forall wr c,
  assign_rev wr c = (layout_from c (rev wr), c + zsum wr).
Proof.
  induction wr as [|w r IH]; intros c.
  - cbn [assign_rev rev layout_from zsum]. rewrite Z.add_0_r. reflexivity.
  - cbn [assign_rev rev zsum]. rewrite IH, layout_from_snoc.
    f_equal. lia.
Qed.

Lemma bits_compile_layout : forall ws,
  bits_compile ws = if zsum ws mod 8 =? 0 then Some (layout ws, zsum ws / 8) else None.
Proof.
  intros ws. unfold bits_compile.
  rewrite assign_rev_spec, rev_involutive, zsum_rev, layout_from_0, Z.add_0_l. reflexivity.
Qed.

Lemma bits_compile_inv : forall ws sm k, bits_compile ws = Some (sm, k) ->
  sm = layout ws /\ zsum ws = 8 * k.
Proof.
  intros ws sm k H. rewrite bits_compile_layout in H.
  destruct (Z.eqb_spec (zsum ws mod 8) 0) as [E|E]; [|discriminate].
  injection H as <- <-. split; [reflexivity | lia].
Qed.

Lemma layout_length : forall ws, length (layout ws) = length ws.
Proof.
  induction ws as [|w r IH]; cbn [layout length]; [reflexivity | rewrite IH; reflexivity].
Qed.

Lemma layout_nth : forall ws i w, nth_error ws i = Some w ->
  nth_error (layout ws) i = Some (suffix_sum ws i, mask_of w (suffix_sum ws i)).
Proof.
  induction ws as [|x r IH]; intros i w H.
  - destruct i; discriminate.
  - destruct i as [|i].
    + cbn [nth_error] in H. injection H as ->. cbn [layout nth_error].
      rewrite suffix_sum_0. reflexivity.
    + cbn [nth_error] in H. cbn [layout nth_error]. rewrite suffix_sum_S. apply IH, H.
Qed.

Lemma bits_compile_ok : forall ws sm k, Forall (fun w => 0 <= w) ws ->
  bits_compile ws = Some (sm, k) ->
  zsum ws = 8 * k /\ length sm = length ws /\
  forall i w, nth_error ws i = Some w ->
    nth_error sm i = Some (suffix_sum ws i, mask_of w (suffix_sum ws i)).
Proof.
  intros ws sm k _ H. apply bits_compile_inv in H as [-> Hk].
  split; [exact Hk|]. split; [apply layout_length|]. apply layout_nth.
Qed.

Lemma bits_compile_reject : forall ws, zsum ws mod 8 <> 0 -> bits_compile ws = None.
Proof.
  intros ws H. rewrite bits_compile_layout.
  destruct (Z.eqb_spec (zsum ws mod 8) 0) as [E|E]; [contradiction | reflexivity].
Qed.

Lemma bits_compile_accept : forall ws, zsum ws mod 8 = 0 ->
  exists sm, bits_compile ws = Some (sm, zsum ws / 8).
Proof.
  intros ws H. rewrite bits_compile_layout, H. cbn [Z.eqb]. eexists; reflexivity.
Qed.

(* ------------------------------------------------------------------------------------------ *)
(* bit-level characterisation of mask / get / put                                             *)
(* ------------------------------------------------------------------------------------------ *)

Lemma ones_testbit : forall w i, 0 <= w -> 0 <= i -> Z.testbit (2 ^ w - 1) i = (i <? w).
Proof.
  intros w i Hw Hi. replace (2 ^ w - 1) with (Z.ones w) by (rewrite Z.ones_equiv; lia).
  destruct (Z.ltb_spec i w).
  - apply Z.ones_spec_low; lia.
  - apply Z.ones_spec_high; lia.
Qed.

Lemma mask_testbit : forall w s i, 0 <= w -> 0 <= s -> 0 <= i ->
  Z.testbit (mask_of w s) i = (s <=? i) && (i <? s + w).
Proof.
  intros w s i Hw Hs Hi. unfold mask_of. rewrite Z.shiftl_spec by lia.
  destruct (Z.leb_spec s i).
  - rewrite ones_testbit by lia. cbn [andb].
    destruct (Z.ltb_spec (i - s) w), (Z.ltb_spec i (s + w)); lia || reflexivity.
  - rewrite Z.testbit_neg_r by lia. reflexivity.
Qed.

Lemma put_testbit : forall I v w s i, 0 <= w -> 0 <= s -> 0 <= i ->
  Z.testbit (bits_put I v (mask_of w s) s) i =
  if (s <=? i) && (i <? s + w) then Z.testbit v (i - s) else Z.testbit I i.
Proof.
  intros I v w s i Hw Hs Hi. unfold bits_put.
  rewrite Z.lor_spec, !Z.land_spec, Z.lnot_spec, mask_testbit, Z.shiftl_spec by lia.
  destruct ((s <=? i) && (i <? s + w)); cbn [negb];
    rewrite ?andb_true_r, ?andb_false_r, ?orb_false_r, ?orb_false_l; reflexivity.
Qed.

Lemma get_testbit : forall I w s i, 0 <= w -> 0 <= s -> 0 <= i ->
  Z.testbit (bits_get I (mask_of w s) s) i = (i <? w) && Z.testbit I (i + s).
Proof.
  intros I w s i Hw Hs Hi. unfold bits_get.
  rewrite Z.shiftr_spec, Z.land_spec, mask_testbit by lia.
  destruct (Z.leb_spec s (i + s)); try lia. cbn [andb].
  destruct (Z.ltb_spec (i + s) (s + w)), (Z.ltb_spec i w); try lia; cbn [andb];
    rewrite ?andb_true_r, ?andb_false_r; reflexivity.
Qed.

Lemma bits_get_spec : forall I w s, 0 <= w -> 0 <= s ->
  bits_get I (mask_of w s) s = (I / 2 ^ s) mod 2 ^ w.
Proof.
  intros I w s Hw Hs. apply Z.bits_inj'. intros i Hi.
  rewrite get_testbit by lia.
  destruct (Z.ltb_spec i w).
  - rewrite Z.mod_pow2_bits_low by lia. rewrite Z.div_pow2_bits by lia. reflexivity.
  - rewrite Z.mod_pow2_bits_high by lia. reflexivity.
Qed.

Lemma bits_get_put_same : forall I v w s, 0 <= w -> 0 <= s ->
  bits_get (bits_put I v (mask_of w s) s) (mask_of w s) s = v mod 2 ^ w.
Proof.
  intros I v w s Hw Hs. apply Z.bits_inj'. intros i Hi.
  rewrite get_testbit, put_testbit by lia.
  destruct (Z.ltb_spec i w).
  - rewrite Z.mod_pow2_bits_low by lia.
    destruct (Z.leb_spec s (i + s)), (Z.ltb_spec (i + s) (s + w)); try lia.
    cbn [andb]. f_equal. lia.
  - rewrite Z.mod_pow2_bits_high by lia. reflexivity.
Qed.

Lemma bits_get_put_other : forall I v w s w' s', 0 <= w -> 0 <= s -> 0 <= w' -> 0 <= s' ->
  (s' + w' <= s \/ s + w <= s') ->
  bits_get (bits_put I v (mask_of w s) s) (mask_of w' s') s' = bits_get I (mask_of w' s') s'.
Proof.
  intros I v w s w' s' Hw Hs Hw' Hs' Hd. apply Z.bits_inj'. intros i Hi.
  rewrite !get_testbit, put_testbit by lia.
  destruct (Z.ltb_spec i w'); cbn [andb]; [|reflexivity].
  destruct (Z.leb_spec s (i + s')), (Z.ltb_spec (i + s') (s + w)); cbn [andb];
    try reflexivity; lia.
Qed.

Lemma range_testbit_high : forall I N i, 0 <= I < 2 ^ N -> N <= i -> Z.testbit I i = false.
Proof.
  intros I N i HI Hi.
  destruct (Z.ltb_spec N 0) as [Hneg|Hpos].
  - rewrite Z.pow_neg_r in HI by lia. lia.
  - rewrite <- (Z.mod_small I (2 ^ N)) by lia. apply Z.mod_pow2_bits_high. lia.
Qed.

Lemma bits_put_range : forall I v w s N, 0 <= w -> 0 <= s -> s + w <= N -> 0 <= I < 2 ^ N ->
  0 <= bits_put I v (mask_of w s) s < 2 ^ N.
Proof.
  intros I v w s N Hw Hs HN HI.
  assert (bits_put I v (mask_of w s) s = bits_put I v (mask_of w s) s mod 2 ^ N) as E.
  { apply Z.bits_inj'. intros i Hi.
    destruct (Z.ltb_spec i N) as [Hlt|Hge].
    - rewrite Z.mod_pow2_bits_low by lia. reflexivity.
    - rewrite Z.mod_pow2_bits_high by lia. rewrite put_testbit by lia.
      destruct (Z.leb_spec s i), (Z.ltb_spec i (s + w)); cbn [andb]; try lia;
        apply (range_testbit_high I N i HI Hge). }
  rewrite E. apply Z.mod_pos_bound. apply Z.pow_pos_nonneg; lia.
Qed.

(* ------------------------------------------------------------------------------------------ *)
(* packing a whole run                                                                        *)
(* ------------------------------------------------------------------------------------------ *)

Lemma unpack_nth : forall I sm i s m, nth_error sm i = Some (s, m) ->
  nth_error (bits_unpack_all I sm) i = Some (bits_get I m s).
Proof.
  intros I sm i s m H. unfold bits_unpack_all.
  rewrite (map_nth_error _ _ _ H). reflexivity.
Qed.

Lemma unpack_layout_nth : forall I ws i w, nth_error ws i = Some w ->
  nth_error (bits_unpack_all I (layout ws)) i =
  Some (bits_get I (mask_of w (suffix_sum ws i)) (suffix_sum ws i)).
Proof.
  intros I ws i w H. apply unpack_nth, layout_nth, H.
Qed.

(* the members of layout ws all live below bit zsum ws: a slice at or above it is untouched *)
Lemma pack_layout_get_above : forall ws vs I w' s', nonneg_all ws -> 0 <= w' -> zsum ws <= s' ->
  bits_get (bits_pack_all I (layout ws) vs) (mask_of w' s') s' = bits_get I (mask_of w' s') s'.
Proof.
  induction ws as [|w r IH]; intros vs I w' s' Hws Hw' Hs'.
  - reflexivity.
  - pose proof (Forall_inv Hws) as Hw. pose proof (Forall_inv_tail Hws) as Hr. cbn beta in Hw.
    pose proof (zsum_nonneg r Hr) as Hzr. cbn [zsum] in Hs'.
    destruct vs as [|v vr]; [reflexivity|].
    cbn [layout bits_pack_all].
    rewrite IH by (auto; lia).
    apply bits_get_put_other; lia.
Qed.

Lemma pack_layout_get : forall ws vs I, nonneg_all ws -> length vs = length ws ->
  forall i w v, nth_error ws i = Some w -> nth_error vs i = Some v ->
  bits_get (bits_pack_all I (layout ws) vs) (mask_of w (suffix_sum ws i)) (suffix_sum ws i)
  = v mod 2 ^ w.
Proof.
  induction ws as [|x r IH]; intros vs I Hws Hlen i w v Hi Hv.
  - destruct i; discriminate.
  - pose proof (Forall_inv Hws) as Hx. pose proof (Forall_inv_tail Hws) as Hr. cbn beta in Hx.
    pose proof (zsum_nonneg r Hr) as Hzr.
    destruct vs as [|v0 vr]; [discriminate|]. cbn [length] in Hlen.
    cbn [layout bits_pack_all].
    destruct i as [|i].
    + cbn [nth_error] in Hi, Hv. injection Hi as ->. injection Hv as ->.
      rewrite suffix_sum_0.
      rewrite pack_layout_get_above by (auto; lia).
      apply bits_get_put_same; lia.
    + cbn [nth_error] in Hi, Hv. rewrite suffix_sum_S.
      apply IH; auto.
Qed.

Lemma pack_layout_range : forall ws vs I N, nonneg_all ws -> zsum ws <= N -> 0 <= I < 2 ^ N ->
  0 <= bits_pack_all I (layout ws) vs < 2 ^ N.
Proof.
  induction ws as [|w r IH]; intros vs I N Hws HN HI.
  - exact HI.
  - pose proof (Forall_inv Hws) as Hw. pose proof (Forall_inv_tail Hws) as Hr. cbn beta in Hw.
    pose proof (zsum_nonneg r Hr) as Hzr. cbn [zsum] in HN.
    destruct vs as [|v vr]; [exact HI|].
    cbn [layout bits_pack_all].
    apply IH; [exact Hr | lia |].
    apply bits_put_range; lia.
Qed.

(* every bit below zsum ws belongs to exactly one member's slice: here, to at least one *)
Lemma layout_cover : forall ws j, 0 <= j < zsum ws ->
  exists i w, nth_error ws i = Some w /\ suffix_sum ws i <= j < suffix_sum ws i + w.
Proof.
  induction ws as [|w r IH]; intros j Hj.
  - cbn [zsum] in Hj. lia.
  - cbn [zsum] in Hj.
    destruct (Z.ltb_spec j (zsum r)) as [Hlt|Hge].
    + destruct (IH j ltac:(lia)) as (i & w0 & Hi & Hr).
      exists (S i), w0. rewrite suffix_sum_S. split; [exact Hi | exact Hr].
    + exists O, w. rewrite suffix_sum_0. split; [reflexivity | lia].
Qed.

(* an integer of the right size is determined by the values of the members *)
Lemma unpack_layout_inj : forall ws N I I', nonneg_all ws -> zsum ws = N ->
  0 <= I < 2 ^ N -> 0 <= I' < 2 ^ N ->
  bits_unpack_all I (layout ws) = bits_unpack_all I' (layout ws) -> I = I'.
Proof.
  intros ws N I I' Hws HN HI HI' E.
  apply Z.bits_inj'. intros j Hj.
  destruct (Z.ltb_spec j N) as [Hlt|Hge].
  - destruct (layout_cover ws j ltac:(lia)) as (i & w & Hi & Hr).
    pose proof (unpack_layout_nth I ws i w Hi) as G.
    pose proof (unpack_layout_nth I' ws i w Hi) as G'.
    rewrite E in G. rewrite G' in G. injection G as G.
    pose proof (suffix_sum_nonneg ws i Hws) as Hs.
    assert (0 <= w) as Hw.
    { pose proof (proj1 (Forall_forall _ ws) Hws w (nth_error_In _ _ Hi)) as Hw. exact Hw. }
    set (s := suffix_sum ws i) in *.
    assert (Z.testbit (bits_get I' (mask_of w s) s) (j - s)
            = Z.testbit (bits_get I (mask_of w s) s) (j - s)) as T by (rewrite G; reflexivity).
    rewrite !get_testbit in T by lia.
    replace (j - s + s) with j in T by lia.
    destruct (Z.ltb_spec (j - s) w); [|lia]. cbn [andb] in T. symmetry. exact T.
  - rewrite (range_testbit_high I N j HI Hge), (range_testbit_high I' N j HI' Hge). reflexivity.
Qed.

Lemma nth_error_ext : forall (A : Type) (l l' : list A),
  (forall i, nth_error l i = nth_error l' i) -> l = l'.
Proof.
  induction l as [|a l IH]; intros l' H.
  - destruct l' as [|b l']; [reflexivity|]. specialize (H O). discriminate.
  - destruct l' as [|b l']; [specialize (H O); discriminate|].
    pose proof (H O) as H0. cbn [nth_error] in H0. injection H0 as ->.
    f_equal. apply IH. intros i. exact (H (S i)).
Qed.

Lemma nth_error_same_length : forall (A B : Type) (l : list A) (l' : list B) i a,
  length l = length l' -> nth_error l i = Some a -> exists b, nth_error l' i = Some b.
Proof.
  intros A B l l' i a Hlen H.
  destruct (nth_error l' i) as [b|] eqn:E; [eexists; reflexivity|].
  apply nth_error_None in E.
  assert (nth_error l i <> None) as Hn by (rewrite H; discriminate).
  apply nth_error_Some in Hn. lia.
Qed.

(* ------------------------------------------------------------------------------------------ *)
(* the stated theorems                                                                        *)
(* ------------------------------------------------------------------------------------------ *)

Lemma bits_pack_all_spec : forall ws sm k vs I0, Forall (fun w => 0 <= w) ws ->
  bits_compile ws = Some (sm, k) -> length vs = length ws -> 0 <= I0 < 2 ^ (8 * k) ->
  let R := bits_pack_all I0 sm vs in
  0 <= R < 2 ^ (8 * k) /\
  forall i w v, nth_error ws i = Some w -> nth_error vs i = Some v ->
    nth_error (bits_unpack_all R sm) i = Some (v mod 2 ^ w).
Proof.
  intros ws sm k vs I0 Hws Hc Hlen HI0. cbn zeta.
  apply bits_compile_inv in Hc as [-> Hk].
  split.
  - apply pack_layout_range; [exact Hws | lia | exact HI0].
  - intros i w v Hi Hv.
    rewrite (unpack_layout_nth _ ws i w Hi). f_equal.
    apply pack_layout_get; auto.
Qed.

Lemma bits_unpack_range : forall ws sm k I i w x, Forall (fun w => 0 <= w) ws ->
  bits_compile ws = Some (sm, k) -> nth_error ws i = Some w ->
  nth_error (bits_unpack_all I sm) i = Some x -> 0 <= x < 2 ^ w.
Proof.
  intros ws sm k I i w x Hws Hc Hi Hx.
  apply bits_compile_inv in Hc as [-> Hk].
  rewrite (unpack_layout_nth _ ws i w Hi) in Hx. injection Hx as <-.
  assert (0 <= w) as Hw.
  { exact (proj1 (Forall_forall _ ws) Hws w (nth_error_In _ _ Hi)). }
  rewrite bits_get_spec by (auto using suffix_sum_nonneg).
  apply Z.mod_pos_bound. apply Z.pow_pos_nonneg; lia.
Qed.

Lemma bits_pack_all_det : forall ws sm k vs I0 I1, Forall (fun w => 0 <= w) ws ->
  bits_compile ws = Some (sm, k) -> length vs = length ws ->
  0 <= I0 < 2 ^ (8 * k) -> 0 <= I1 < 2 ^ (8 * k) ->
  bits_pack_all I0 sm vs = bits_pack_all I1 sm vs.
Proof.
  intros ws sm k vs I0 I1 Hws Hc Hlen HI0 HI1.
  destruct (bits_pack_all_spec ws sm k vs I0 Hws Hc Hlen HI0) as [HR0 HS0].
  destruct (bits_pack_all_spec ws sm k vs I1 Hws Hc Hlen HI1) as [HR1 HS1].
  apply bits_compile_inv in Hc as [-> Hk].
  apply (unpack_layout_inj ws (8 * k)); auto.
  apply nth_error_ext. intros i.
  destruct (nth_error ws i) as [w|] eqn:Hi.
  - destruct (nth_error_same_length _ _ ws vs i w (eq_sym Hlen) Hi) as [v Hv].
    rewrite (HS0 i w v Hi Hv), (HS1 i w v Hi Hv). reflexivity.
  - apply nth_error_None in Hi.
    assert (forall I, nth_error (bits_unpack_all I (layout ws)) i = None) as HN.
    { intros I. apply nth_error_None. unfold bits_unpack_all.
      rewrite map_length, layout_length. exact Hi. }
    rewrite !HN. reflexivity.
Qed.

Lemma bits_unpack_pack : forall ws sm k I I0, Forall (fun w => 0 <= w) ws ->
  bits_compile ws = Some (sm, k) -> 0 <= I < 2 ^ (8 * k) -> 0 <= I0 < 2 ^ (8 * k) ->
  bits_pack_all I0 sm (bits_unpack_all I sm) = I.
Proof.
  intros ws sm k I I0 Hws Hc HI HI0.
  assert (length (bits_unpack_all I sm) = length ws) as Hlen.
  { unfold bits_unpack_all. rewrite map_length.
    apply (bits_compile_ok ws sm k Hws Hc). }
  destruct (bits_pack_all_spec ws sm k _ I0 Hws Hc Hlen HI0) as [HR HS].
  pose proof Hc as Hc'.
  apply bits_compile_inv in Hc' as [-> Hk].
  apply (unpack_layout_inj ws (8 * k)); auto.
  apply nth_error_ext. intros i.
  destruct (nth_error ws i) as [w|] eqn:Hi.
  - pose proof (unpack_layout_nth I ws i w Hi) as Hv.
    rewrite (HS i w _ Hi Hv). rewrite Hv. f_equal.
    apply Z.mod_small.
    apply (bits_unpack_range ws (layout ws) k I i w _ Hws Hc Hi Hv).
  - apply nth_error_None in Hi.
    assert (forall J, nth_error (bits_unpack_all J (layout ws)) i = None) as HN.
    { intros J. apply nth_error_None. unfold bits_unpack_all.
      rewrite map_length, layout_length. exact Hi. }
    rewrite !HN. reflexivity.
Qed.

(* ------------------------------------------------------------------------------------------ *)
(* non-vacuity                                                                                *)
(* ------------------------------------------------------------------------------------------ *)

Example compile_4_4_12_4 :
  bits_compile [4; 4; 12; 4] =
  Some ([(20, 15728640); (16, 983040); (4, 65520); (0, 15)], 3).
Proof. vm_compute. reflexivity. Qed.

Example compile_reject_4_3 : bits_compile [4; 3] = None.
Proof. vm_compute. reflexivity. Qed.

(* a negative value (-1 in 4 bits -> 15) and an oversized one (4097 in 12 bits -> 1), packed over
   a stale integer with all bits set, then unpacked *)
Example pack_unpack_instance :
  let sm := [(20, 15728640); (16, 983040); (4, 65520); (0, 15)] in
  let R := bits_pack_all 16777215 sm [-1; 5; 4097; 3] in
  R = 16056339 /\ bits_unpack_all R sm = [15; 5; 1; 3] /\
  bits_pack_all 0 sm [-1; 5; 4097; 3] = R.
Proof. vm_compute. repeat split; reflexivity. Qed.

Print Assumptions bits_compile_ok.
Print Assumptions bits_pack_all_spec.
Print Assumptions bits_pack_all_det.
Print Assumptions bits_unpack_pack.
Print Assumptions bits_unpack_range.
Print Assumptions bits_put_range.
