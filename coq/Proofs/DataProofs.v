(* Proofs/DataProofs.v -- properties of the Data field model (Kernel/DataK.v): sized reads, bytes.find
   of a marker in the search window (least occurrence wholly inside the window), the closed regex
   class (leftmost start, first alternative, greedy run), read-to-end, and the pack/unpack round trip
   of a delimiter-free value.  Stdlib only, no axioms. *)
From Coq Require Import ZArith List Bool Lia ZifyBool.
From Bisturi Require Import Base.Bytes Kernel.DataK.
Import ListNotations.
Open Scope Z_scope.

(* ------------------------------------------------------------------------------------------ *)
(* bytes, slices                                                                              *)
(* ------------------------------------------------------------------------------------------ *)

Lemma blen_nil : blen [] = 0.
Proof. reflexivity. Qed.
Lemma blen_cons (x : Z) (b : bytes) : blen (x :: b) = 1 + blen b.
Proof. unfold blen. cbn [length]. lia. Qed.
Lemma blen_app (a b : bytes) : blen (a ++ b) = blen a + blen b.
Proof. unfold blen. rewrite app_length. lia. Qed.
Lemma blen_nonneg (b : bytes) : 0 <= blen b.
Proof. unfold blen. lia. Qed.
Lemma blen_pos (b : bytes) : b <> [] -> 0 < blen b.
Proof. destruct b as [|x b]; [congruence|]. intros _. rewrite blen_cons. pose proof (blen_nonneg b). lia. Qed.

Lemma blen_slice (raw : bytes) (a b : Z) : 0 <= a ->
  blen (slice raw a b) = Z.max 0 (Z.min (b - a) (blen raw - a)).
Proof. intros Ha. unfold blen, slice. rewrite firstn_length, skipn_length. lia. Qed.

Lemma slice_from_eq (raw : bytes) (a : Z) : 0 <= a -> slice_from raw a = slice raw a (blen raw).
Proof.
  intros Ha. unfold slice_from, slice. rewrite firstn_all2; [reflexivity|].
  rewrite skipn_length. unfold blen. lia.
Qed.

Lemma slice_from_0 (h : bytes) : slice_from h 0 = h.
Proof. reflexivity. Qed.

Lemma slice_from_cons (x : Z) (h : bytes) (j : Z) : 0 < j -> slice_from (x :: h) j = slice_from h (j - 1).
Proof. intros Hj. unfold slice_from. replace (Z.to_nat j) with (S (Z.to_nat (j - 1))) by lia. reflexivity. Qed.

Lemma slice_cons_pos (x : Z) (h : bytes) (a b : Z) : 0 < a -> slice (x :: h) a b = slice h (a - 1) (b - 1).
Proof.
  intros Ha. unfold slice. replace (Z.to_nat a) with (S (Z.to_nat (a - 1))) by lia.
  replace (b - 1 - (a - 1)) with (b - a) by lia. reflexivity.
Qed.

Lemma slice_0 (h : bytes) (c : Z) : slice h 0 c = firstn (Z.to_nat c) h.
Proof. unfold slice. rewrite Z.sub_0_r. reflexivity. Qed.

Lemma firstn_len_app {A : Type} (a b : list A) : firstn (length a) (a ++ b) = a.
Proof. induction a as [|x a IH]; cbn [length firstn app]; [reflexivity|]. rewrite IH. reflexivity. Qed.

Lemma skipn_len_app {A : Type} (a b : list A) : skipn (length a) (a ++ b) = b.
Proof. induction a as [|x a IH]; cbn [length skipn app]; [reflexivity|exact IH]. Qed.

(* a slice that ends inside the first part of a concatenation does not see the second part *)
Lemma slice_app_l (a b : bytes) (i e : Z) : 0 <= i -> e <= blen a -> slice (a ++ b) i e = slice a i e.
Proof.
  intros Hi He. unfold slice. rewrite skipn_app, firstn_app, skipn_length.
  replace (Z.to_nat (e - i) - (length a - Z.to_nat i))%nat with 0%nat by (unfold blen in He; lia).
  cbn [firstn]. apply app_nil_r.
Qed.

Lemma slice_slice_prefix (raw : bytes) (o E c : Z) : 0 <= o -> 0 <= c -> c <= blen (slice raw o E) ->
  slice (slice raw o E) 0 c = slice raw o (o + c).
Proof.
  intros Ho Hc Hle. rewrite blen_slice in Hle by exact Ho. rewrite slice_0. unfold slice.
  rewrite firstn_firstn. f_equal. lia.
Qed.

(* ------------------------------------------------------------------------------------------ *)
(* bytes.find                                                                                 *)
(* ------------------------------------------------------------------------------------------ *)

Definition occurs_at (needle hay : bytes) (i : Z) : Prop :=
  0 <= i /\ i + blen needle <= blen hay /\ slice hay i (i + blen needle) = needle.

Theorem is_prefix_spec : forall n h, is_prefix n h = true <-> exists t, h = n ++ t.
Proof.
  induction n as [|a n' IH]; intros h.
  - cbn [is_prefix]. split; [intros _; exists h; reflexivity|reflexivity].
  - destruct h as [|b h']; cbn [is_prefix].
    + split; [discriminate|]. intros [t Ht]. discriminate Ht.
    + rewrite andb_true_iff, Z.eqb_eq, IH. split.
      * intros [E [t Ht]]. subst. exists t. reflexivity.
      * intros [t Ht]. cbn [app] in Ht. injection Ht as E1 E2. split; [symmetry; exact E1|exists t; exact E2].
Qed.

Lemma occurs_at_0 (n h : bytes) : occurs_at n h 0 <-> is_prefix n h = true.
Proof.
  rewrite is_prefix_spec. unfold occurs_at. rewrite Z.add_0_l, slice_0.
  replace (Z.to_nat (blen n)) with (length n) by (unfold blen; lia). split.
  - intros (_ & _ & Hs). exists (skipn (length n) h).
    pose proof (firstn_skipn (length n) h) as F. rewrite Hs in F. symmetry. exact F.
  - intros [t Ht]. subst h. split; [lia|]. split; [|apply firstn_len_app].
    rewrite blen_app. pose proof (blen_nonneg t). lia.
Qed.

Lemma occurs_at_S (n : bytes) (x : Z) (h : bytes) (j : Z) : 0 < j ->
  (occurs_at n (x :: h) j <-> occurs_at n h (j - 1)).
Proof.
  intros Hj. unfold occurs_at. rewrite blen_cons, slice_cons_pos by exact Hj.
  replace (j + blen n - 1) with (j - 1 + blen n) by lia.
  split; intros (A & B & C); (split; [lia|split; [lia|exact C]]).
Qed.

Lemma occurs_at_mid (m pre post : bytes) : occurs_at m (pre ++ m ++ post) (blen pre).
Proof.
  unfold occurs_at. split; [apply blen_nonneg|]. split.
  - rewrite !blen_app. pose proof (blen_nonneg post). lia.
  - unfold slice. replace (Z.to_nat (blen pre + blen m - blen pre)) with (length m) by (unfold blen; lia).
    replace (Z.to_nat (blen pre)) with (length pre) by (unfold blen; lia).
    rewrite skipn_len_app. apply firstn_len_app.
Qed.

Lemma occurs_at_app_l (m a b : bytes) (i : Z) :
  occurs_at m (a ++ b) i -> i + blen m <= blen a -> occurs_at m a i.
Proof.
  intros (H0 & Hl & Hs) Hle. split; [exact H0|]. split; [exact Hle|].
  rewrite <- (slice_app_l a b) by lia. exact Hs.
Qed.

Lemma occurs_at_app_r (m a b : bytes) (i : Z) : occurs_at m a i -> occurs_at m (a ++ b) i.
Proof.
  intros (H0 & Hl & Hs). split; [exact H0|]. split.
  - rewrite blen_app. pose proof (blen_nonneg b). lia.
  - rewrite slice_app_l by lia. exact Hs.
Qed.

Lemma find_from_some (needle : bytes) : forall hay i k, find_from needle hay i = Some k ->
  i <= k /\ occurs_at needle hay (k - i) /\ forall j, 0 <= j < k - i -> ~ occurs_at needle hay j.
Proof.
  induction hay as [|x h IH]; intros i k H; cbn [find_from] in H.
  - destruct (is_prefix needle []) eqn:P; [|discriminate H]. injection H as <-. rewrite Z.sub_diag.
    split; [lia|]. split; [apply occurs_at_0; exact P|intros j Hj; lia].
  - destruct (is_prefix needle (x :: h)) eqn:P.
    + injection H as <-. rewrite Z.sub_diag.
      split; [lia|]. split; [apply occurs_at_0; exact P|intros j Hj; lia].
    + apply IH in H. destruct H as (Hle & Hocc & Hmin). split; [lia|]. split.
      * apply occurs_at_S; [lia|]. replace (k - i - 1) with (k - (i + 1)) by lia. exact Hocc.
      * intros j Hj Hc. destruct (Z.eq_dec j 0) as [->|Hz].
        -- apply occurs_at_0 in Hc. congruence.
        -- apply occurs_at_S in Hc; [|lia]. apply (Hmin (j - 1)); [lia|exact Hc].
Qed.

Lemma find_from_none (needle : bytes) : forall hay i, find_from needle hay i = None ->
  forall j, ~ occurs_at needle hay j.
Proof.
  induction hay as [|x h IH]; intros i H j Hc; cbn [find_from] in H.
  - destruct (is_prefix needle []) eqn:P; [discriminate H|].
    assert (j = 0) as ->.
    { destruct Hc as (A & B & _). rewrite blen_nil in B. pose proof (blen_nonneg needle). lia. }
    apply occurs_at_0 in Hc. congruence.
  - destruct (is_prefix needle (x :: h)) eqn:P; [discriminate H|].
    destruct (Z.eq_dec j 0) as [->|Hz].
    + apply occurs_at_0 in Hc. congruence.
    + assert (0 < j) as Hj by (destruct Hc as (A & _); lia).
      apply occurs_at_S in Hc; [|exact Hj]. exact (IH _ H _ Hc).
Qed.

(* find returns the first occurrence that lies wholly inside hay *)
Theorem find_least : forall hay needle i, find hay needle = Some i ->
  occurs_at needle hay i /\ forall j, 0 <= j < i -> ~ occurs_at needle hay j.
Proof.
  intros hay needle i H. unfold find in H. apply find_from_some in H.
  rewrite Z.sub_0_r in H. destruct H as (_ & H1 & H2). split; assumption.
Qed.

Theorem find_none : forall hay needle, find hay needle = None -> forall j, ~ occurs_at needle hay j.
Proof. intros hay needle H. unfold find in H. exact (find_from_none needle hay 0 H). Qed.

Theorem find_complete : forall hay needle j, occurs_at needle hay j ->
  exists i, find hay needle = Some i /\ i <= j.
Proof.
  intros hay needle j Hocc. destruct (find hay needle) as [i|] eqn:F.
  - exists i. split; [reflexivity|]. destruct (find_least _ _ _ F) as [_ Hmin].
    destruct (Z_le_gt_dec i j) as [Hle|Hgt]; [exact Hle|].
    exfalso. apply (Hmin j); [destruct Hocc as (A & _); lia|exact Hocc].
  - exfalso. exact (find_none _ _ F j Hocc).
Qed.

(* ------------------------------------------------------------------------------------------ *)
(* the search window                                                                          *)
(* ------------------------------------------------------------------------------------------ *)

Theorem window_spec : forall raw offset sbl, 0 <= offset ->
  window raw offset sbl =
  match sbl with
  | Some l => if l =? 0 then slice raw offset (blen raw) else slice raw offset (offset + l)
  | None => slice raw offset (blen raw)
  end.
Proof.
  intros raw offset sbl Ho. unfold window. rewrite (slice_from_eq raw offset Ho). reflexivity.
Qed.

(* any prefix of the window is the same prefix of raw[offset:] *)
Lemma window_prefix (raw : bytes) (offset : Z) (sbl : option Z) (c : Z) :
  0 <= offset -> 0 <= c -> c <= blen (window raw offset sbl) ->
  slice (window raw offset sbl) 0 c = slice raw offset (offset + c).
Proof.
  intros Ho Hc. rewrite window_spec by exact Ho.
  destruct sbl as [l|]; [destruct (l =? 0)|]; intros Hle; apply slice_slice_prefix; assumption.
Qed.

(* ------------------------------------------------------------------------------------------ *)
(* sized                                                                                      *)
(* ------------------------------------------------------------------------------------------ *)

Theorem data_sized_ok : forall raw offset bc v o', 0 <= offset ->
  data_sized raw offset bc = Some (v, o') ->
  0 <= bc /\ o' = offset + bc /\ blen v = bc /\ v = slice raw offset (offset + bc) /\
  (0 < bc -> offset + bc <= blen raw).
Proof.
  intros raw offset bc v o' Ho H. unfold data_sized, data_next, data_short in H.
  destruct (Z.eqb_spec (blen (slice raw offset (offset + bc))) bc) as [E|E]; cbn [negb] in H;
    [|discriminate H].
  injection H as <- <-. pose proof (blen_slice raw offset (offset + bc) Ho) as B.
  pose proof (blen_nonneg raw) as Hr.
  split; [lia|]. split; [reflexivity|]. split; [exact E|]. split; [reflexivity|]. lia.
Qed.

Theorem data_sized_neg : forall raw offset bc, bc < 0 -> data_sized raw offset bc = None.
Proof.
  intros raw offset bc Hbc. unfold data_sized, data_next, data_short.
  destruct (Z.eqb_spec (blen (slice raw offset (offset + bc))) bc) as [E|E]; cbn [negb]; [|reflexivity].
  pose proof (blen_nonneg (slice raw offset (offset + bc))). lia.
Qed.

Theorem data_sized_short : forall raw offset bc, 0 <= offset -> 0 < bc -> blen raw < offset + bc ->
  data_sized raw offset bc = None.
Proof.
  intros raw offset bc Ho Hbc Hs. unfold data_sized, data_next, data_short.
  destruct (Z.eqb_spec (blen (slice raw offset (offset + bc))) bc) as [E|E]; cbn [negb]; [|reflexivity].
  rewrite blen_slice in E by exact Ho. lia.
Qed.

Theorem data_sized_complete : forall raw offset bc, 0 <= offset -> 0 <= bc -> offset + bc <= blen raw ->
  data_sized raw offset bc = Some (slice raw offset (offset + bc), offset + bc).
Proof.
  intros raw offset bc Ho Hbc Hs. unfold data_sized, data_next, data_short.
  destruct (Z.eqb_spec (blen (slice raw offset (offset + bc))) bc) as [E|E]; cbn [negb]; [reflexivity|].
  rewrite blen_slice in E by exact Ho. lia.
Qed.

(* ------------------------------------------------------------------------------------------ *)
(* marker                                                                                     *)
(* ------------------------------------------------------------------------------------------ *)

(* the cursor is left just past the delimiter in both settings; the value includes it or not *)
Theorem data_marker_ok : forall raw offset sbl marker include v o', 0 <= offset ->
  data_marker raw offset sbl marker include = Some (v, o') ->
  exists c, find (window raw offset sbl) marker = Some c /\ o' = offset + c + blen marker /\
            v = slice raw offset (offset + (if include then c + blen marker else c)).
Proof.
  intros raw offset sbl marker include v o' _ H. unfold data_marker in H.
  destruct (find (window raw offset sbl) marker) as [c|]; [|discriminate H].
  exists c. split; [reflexivity|]. injection H as <- <-.
  destruct include; cbn [marker_count marker_extra]; split; try reflexivity; lia.
Qed.

Theorem data_marker_none : forall raw offset sbl marker include,
  find (window raw offset sbl) marker = None -> data_marker raw offset sbl marker include = None.
Proof. intros raw offset sbl marker include H. unfold data_marker. rewrite H. reflexivity. Qed.

(* converse of data_marker_ok: whenever the marker is found the field parses *)
Theorem data_marker_complete : forall raw offset sbl marker include c,
  find (window raw offset sbl) marker = Some c ->
  data_marker raw offset sbl marker include =
  Some (slice raw offset (offset + (if include then c + blen marker else c)), offset + c + blen marker).
Proof.
  intros raw offset sbl marker include c H. unfold data_marker. rewrite H.
  destruct include; cbn [marker_count marker_extra]; f_equal; f_equal; lia.
Qed.

(* the value (delimiter excluded) is the window's prefix before the first occurrence *)
Lemma data_marker_value_prefix (raw : bytes) (offset : Z) (sbl : option Z) (marker v : bytes) (o' : Z) :
  0 <= offset -> data_marker raw offset sbl marker false = Some (v, o') ->
  exists c, find (window raw offset sbl) marker = Some c /\
            window raw offset sbl = v ++ slice_from (window raw offset sbl) c /\ blen v = c.
Proof.
  intros Ho H. apply data_marker_ok in H; [|exact Ho]. destruct H as (c & Hf & _ & Hv).
  exists c. split; [exact Hf|]. destruct (find_least _ _ _ Hf) as ((Hc0 & Hcl & _) & _).
  pose proof (blen_nonneg marker) as Hm.
  assert (v = slice (window raw offset sbl) 0 c) as Hvw.
  { rewrite Hv. symmetry. apply window_prefix; lia. }
  split.
  - rewrite Hvw, slice_0. unfold slice_from. symmetry. apply firstn_skipn.
  - rewrite Hvw, blen_slice by lia. lia.
Qed.

(* the (excluded-delimiter) value contains no occurrence of the marker wholly inside it.
   Generic version: neither  offset <= blen raw  nor anything about sbl is needed. *)
Lemma data_marker_value_marker_free_gen (raw : bytes) (offset : Z) (sbl : option Z) (marker v : bytes) (o' : Z) :
  0 <= offset -> marker <> [] -> data_marker raw offset sbl marker false = Some (v, o') ->
  forall j, ~ occurs_at marker v j.
Proof.
  intros Ho Hne H j Hocc.
  destruct (data_marker_value_prefix _ _ _ _ _ _ Ho H) as (c & Hf & Hw & Hbv).
  destruct (find_least _ _ _ Hf) as (_ & Hmin). pose proof (blen_pos marker Hne) as Hm.
  apply (Hmin j).
  - destruct Hocc as (A & B & _). lia.
  - rewrite Hw. apply occurs_at_app_r. exact Hocc.
Qed.

Theorem data_marker_value_marker_free : forall raw offset sbl marker v o',
  0 <= offset -> offset <= blen raw -> marker <> [] ->
  data_marker raw offset sbl marker false = Some (v, o') ->
  forall j, ~ occurs_at marker v j.
Proof.
  intros raw offset sbl marker v o' Ho _ Hne H.
  exact (data_marker_value_marker_free_gen raw offset sbl marker v o' Ho Hne H).
Qed.

(* pack then unpack: a value followed by its delimiter (and anything after) parses back to itself
   provided the only occurrence of the marker in  v ++ marker  is the final one (an occurrence may
   straddle the value and the delimiter, hence the formulation over v ++ marker) *)
Lemma data_pack_unpack_marker_gen (marker v rest : bytes) :
  (forall j, ~ occurs_at marker (v ++ marker) j \/ j = blen v) ->
  data_marker (v ++ marker ++ rest) 0 None marker false = Some (v, blen v + blen marker).
Proof.
  intros Huniq.
  pose proof (occurs_at_mid marker v rest) as Hocc.
  destruct (find_complete _ _ _ Hocc) as (i & Hf & Hi).
  destruct (find_least _ _ _ Hf) as (Hoi & _).
  assert (occurs_at marker (v ++ marker) i) as Hin.
  { rewrite app_assoc in Hoi. apply (occurs_at_app_l _ _ _ _ Hoi). rewrite blen_app. lia. }
  destruct (Huniq i) as [Hno | ->]; [contradiction|].
  rewrite (data_marker_complete _ 0 None marker false (blen v)) by exact Hf.
  rewrite !Z.add_0_l. f_equal. f_equal.
  rewrite slice_0. replace (Z.to_nat (blen v)) with (length v) by (unfold blen; lia).
  apply firstn_len_app.
Qed.

(* (marker <> [] is not used: for the empty marker the second hypothesis already forces v = []) *)
Theorem data_pack_unpack_marker : forall marker v rest, marker <> [] ->
  (forall j, ~ occurs_at marker (v ++ marker) j \/ j = blen v) ->
  data_marker (v ++ marker ++ rest) 0 None marker false = Some (v, blen v + blen marker).
Proof. intros marker v rest _ Huniq. exact (data_pack_unpack_marker_gen marker v rest Huniq). Qed.

(* the same round trip through data_pack, with the hypothesis read as "no occurrence starts before
   the end of the value" *)
Corollary data_pack_unpack_marker' : forall marker v rest,
  (forall j, j < blen v -> ~ occurs_at marker (v ++ marker) j) ->
  data_marker (data_pack v marker ++ rest) 0 None marker false = Some (v, blen v + blen marker).
Proof.
  intros marker v rest H. unfold data_pack. rewrite <- app_assoc.
  apply data_pack_unpack_marker_gen.
  intros j. destruct (Z_lt_ge_dec j (blen v)) as [Hlt|Hge]; [left; apply H; exact Hlt|].
  destruct (Z.eq_dec j (blen v)) as [->|Hne]; [right; reflexivity|]. left.
  intros (A & B & _). rewrite blen_app in B. lia.
Qed.

(* ------------------------------------------------------------------------------------------ *)
(* regex                                                                                      *)
(* ------------------------------------------------------------------------------------------ *)

Definition alt_matches (a : alt) (hay : bytes) (n : Z) : Prop :=
  match a with
  | ALit b => n = blen b /\ is_prefix b hay = true
  | APlus c => n = count_run c hay /\ 0 < n
  end.

Lemma match_alt_spec (a : alt) (hay : bytes) (n : Z) : match_alt a hay = Some n <-> alt_matches a hay n.
Proof.
  destruct a as [b|c]; cbn [match_alt alt_matches].
  - destruct (is_prefix b hay); split.
    + intros H. injection H as <-. split; reflexivity.
    + intros [-> _]. reflexivity.
    + discriminate.
    + intros [_ H]. discriminate H.
  - destruct (Z.ltb_spec 0 (count_run c hay)) as [L|L]; split.
    + intros H. injection H as <-. split; [reflexivity|exact L].
    + intros [-> _]. reflexivity.
    + discriminate.
    + intros [-> H]. lia.
Qed.

(* the first alternative that matches wins *)
Theorem match_here_spec : forall r hay n, match_here r hay = Some n <->
  exists pre a post, r = pre ++ a :: post /\ alt_matches a hay n /\
                     forall a', In a' pre -> match_alt a' hay = None.
Proof.
  induction r as [|a r' IH]; intros hay n; cbn [match_here].
  - split; [discriminate|]. intros (pre & a & post & E & _). destruct pre; discriminate E.
  - destruct (match_alt a hay) as [m|] eqn:M.
    + split.
      * intros H. injection H as E. subst m. exists [], a, r'. split; [reflexivity|].
        split; [apply match_alt_spec; exact M|intros a' []].
      * intros (pre & a0 & post & E & Hm & Hn). destruct pre as [|a1 pre']; cbn [app] in E.
        -- injection E as -> ->. apply match_alt_spec in Hm. congruence.
        -- injection E as -> ->. rewrite (Hn a1 (or_introl eq_refl)) in M. discriminate M.
    + rewrite IH. split.
      * intros (pre & a0 & post & E & Hm & Hn). exists (a :: pre), a0, post.
        split; [subst r'; reflexivity|]. split; [exact Hm|].
        intros a' [<-|Hin]; [exact M|apply Hn; exact Hin].
      * intros (pre & a0 & post & E & Hm & Hn). destruct pre as [|a1 pre']; cbn [app] in E.
        -- injection E as -> ->. apply match_alt_spec in Hm. congruence.
        -- injection E as -> ->. exists pre', a0, post. split; [reflexivity|]. split; [exact Hm|].
           intros a' Hin. apply Hn. right. exact Hin.
Qed.

Lemma search_from_some (r : regex) : forall hay i st en, search_from r hay i = Some (st, en) ->
  i <= st /\ match_here r (slice_from hay (st - i)) = Some (en - st) /\
  forall j, 0 <= j < st - i -> match_here r (slice_from hay j) = None.
Proof.
  induction hay as [|x h IH]; intros i st en H; cbn [search_from] in H.
  - destruct (match_here r []) as [n|] eqn:M; [|discriminate H]. injection H as <- <-.
    rewrite Z.sub_diag, slice_from_0. split; [lia|]. split; [rewrite M; f_equal; lia|intros j Hj; lia].
  - destruct (match_here r (x :: h)) as [n|] eqn:M.
    + injection H as <- <-.
      rewrite Z.sub_diag, slice_from_0. split; [lia|]. split; [rewrite M; f_equal; lia|intros j Hj; lia].
    + apply IH in H. destruct H as (Hle & Hm & Hmin). split; [lia|]. split.
      * rewrite slice_from_cons by lia. replace (st - i - 1) with (st - (i + 1)) by lia. exact Hm.
      * intros j Hj. destruct (Z.eq_dec j 0) as [->|Hz]; [rewrite slice_from_0; exact M|].
        rewrite slice_from_cons by lia. apply Hmin. lia.
Qed.

Lemma search_from_none (r : regex) : forall hay i, search_from r hay i = None ->
  forall j, 0 <= j <= blen hay -> match_here r (slice_from hay j) = None.
Proof.
  induction hay as [|x h IH]; intros i H j Hj; cbn [search_from] in H.
  - destruct (match_here r []) as [n|] eqn:M; [discriminate H|].
    rewrite blen_nil in Hj. assert (j = 0) as -> by lia. rewrite slice_from_0. exact M.
  - destruct (match_here r (x :: h)) as [n|] eqn:M; [discriminate H|].
    destruct (Z.eq_dec j 0) as [->|Hz]; [rewrite slice_from_0; exact M|].
    rewrite blen_cons in Hj. rewrite slice_from_cons by lia. apply (IH _ H). lia.
Qed.

(* re.search: leftmost start *)
Theorem re_search_leftmost : forall r hay st en, re_search r hay = Some (st, en) ->
  0 <= st /\ match_here r (slice_from hay st) = Some (en - st) /\
  forall j, 0 <= j < st -> match_here r (slice_from hay j) = None.
Proof.
  intros r hay st en H. unfold re_search in H. apply search_from_some in H.
  rewrite Z.sub_0_r in H. exact H.
Qed.

Theorem re_search_none : forall r hay, re_search r hay = None ->
  forall j, 0 <= j <= blen hay -> match_here r (slice_from hay j) = None.
Proof. intros r hay H. unfold re_search in H. exact (search_from_none r hay 0 H). Qed.

(* greedy: the run is maximal *)
Theorem count_run_spec : forall c hay,
  0 <= count_run c hay <= blen hay /\
  (forall k, 0 <= k < count_run c hay -> nth_error hay (Z.to_nat k) = Some c) /\
  (nth_error hay (Z.to_nat (count_run c hay)) <> Some c).
Proof.
  intros c. induction hay as [|b h IH]; cbn [count_run].
  - rewrite blen_nil. split; [lia|]. split; [intros k Hk; lia|]. discriminate.
  - destruct IH as (IH1 & IH2 & IH3). rewrite blen_cons. destruct (Z.eqb_spec b c) as [->|Hne].
    + split; [lia|]. split.
      * intros k Hk. destruct (Z.eq_dec k 0) as [->|Hz]; [reflexivity|].
        replace (Z.to_nat k) with (S (Z.to_nat (k - 1))) by lia. cbn [nth_error]. apply IH2. lia.
      * replace (Z.to_nat (1 + count_run c h)) with (S (Z.to_nat (count_run c h))) by lia.
        cbn [nth_error]. exact IH3.
    + split; [lia|]. split; [intros k Hk; lia|]. change (Z.to_nat 0) with 0%nat. cbn [nth_error]. congruence.
Qed.

(* consequences for the whole search result: the match lies inside the haystack and is non-empty
   unless an alternative is the empty literal *)
Lemma match_alt_bound (a : alt) (hay : bytes) (n : Z) : match_alt a hay = Some n -> 0 <= n <= blen hay.
Proof.
  intros H. apply match_alt_spec in H. destruct a as [b|c]; cbn [alt_matches] in H.
  - destruct H as [-> H]. apply is_prefix_spec in H. destruct H as [t ->].
    rewrite blen_app. pose proof (blen_nonneg b). pose proof (blen_nonneg t). lia.
  - destruct H as [-> H]. pose proof (count_run_spec c hay) as (B & _). lia.
Qed.

Lemma match_here_bound (r : regex) (hay : bytes) (n : Z) : match_here r hay = Some n -> 0 <= n <= blen hay.
Proof.
  intros H. apply match_here_spec in H. destruct H as (pre & a & post & _ & Hm & _).
  apply match_alt_spec in Hm. exact (match_alt_bound _ _ _ Hm).
Qed.

Theorem re_search_bounds : forall r hay st en, re_search r hay = Some (st, en) ->
  0 <= st <= en /\ en <= blen hay.
Proof.
  intros r hay st en H. unfold re_search in H. revert H.
  assert (forall hay i, search_from r hay i = Some (st, en) -> i <= st <= en /\ en <= i + blen hay) as G.
  { clear hay. induction hay as [|x h IH]; intros i H; cbn [search_from] in H.
    - destruct (match_here r []) as [n|] eqn:M; [|discriminate H]. injection H as <- <-.
      apply match_here_bound in M. lia.
    - destruct (match_here r (x :: h)) as [n|] eqn:M.
      + injection H as <- <-. apply match_here_bound in M. lia.
      + apply IH in H. rewrite blen_cons. lia. }
  intros H. apply G in H. lia.
Qed.

Theorem data_regex_ok : forall raw offset sbl r include v o' d, 0 <= offset ->
  data_regex raw offset sbl r include = Some (v, o', d) ->
  exists st en, re_search r (window raw offset sbl) = Some (st, en) /\ o' = offset + en /\
                v = slice raw offset (offset + (if include then en else st)) /\
                d = (if include then [] else slice raw (offset + st) (offset + en)).
Proof.
  intros raw offset sbl r include v o' d _ H. unfold data_regex in H.
  destruct (re_search r (window raw offset sbl)) as [[st en]|]; [|discriminate H].
  exists st, en. split; [reflexivity|].
  destruct include; injection H as <- <- <-; repeat split; reflexivity.
Qed.

Theorem data_regex_none : forall raw offset sbl r include,
  re_search r (window raw offset sbl) = None -> data_regex raw offset sbl r include = None.
Proof. intros raw offset sbl r include H. unfold data_regex. rewrite H. reflexivity. Qed.

(* ------------------------------------------------------------------------------------------ *)
(* read to the end                                                                            *)
(* ------------------------------------------------------------------------------------------ *)

Theorem data_eos_spec : forall raw offset, 0 <= offset <= blen raw ->
  data_eos raw offset = (slice_from raw offset, blen raw).
Proof.
  intros raw offset [Ho _]. unfold data_eos.
  replace (offset + (blen raw - offset)) with (blen raw) by lia.
  rewrite (slice_from_eq raw offset Ho). reflexivity.
Qed.

(* ------------------------------------------------------------------------------------------ *)
(* concrete                                                                                   *)
(* ------------------------------------------------------------------------------------------ *)

(* overlapping prefixes: b"ab" in b"aab" *)
Example find_overlap : find [1;1;2] [1;2] = Some 1.
Proof. vm_compute. reflexivity. Qed.
Example find_empty_needle : find [5;6] [] = Some 0 /\ find [] [] = Some 0 /\ find [] [1] = None.
Proof. vm_compute. repeat split. Qed.
(* a marker straddling the window edge is not found; one byte more of window and it is *)
Example marker_straddles_window :
  data_marker [9;1;2;3] 0 (Some 2) [1;2] false = None /\
  data_marker [9;1;2;3] 0 (Some 3) [1;2] false = Some ([9], 3) /\
  data_marker [9;1;2;3] 0 (Some 3) [1;2] true = Some ([9;1;2], 3) /\
  data_marker [9;1;2;3] 0 (Some 0) [1;2] false = Some ([9], 3) /\
  data_marker [9;1;2;3] 0 None [1;2] false = Some ([9], 3).
Proof. vm_compute. repeat split. Qed.
(* first alternative 12 fails at index 1 (1,1), second alternative 1+ takes the whole run *)
Example regex_first_alt_leftmost :
  re_search [ALit [1;2]; APlus 1] [3;1;1;2] = Some (1, 3) /\
  re_search [APlus 1; ALit [1;2]] [3;1;2] = Some (1, 2) /\
  re_search [ALit [1;2]; APlus 1] [3;1;2] = Some (1, 3) /\
  re_search [ALit [7]] [3;1;2] = None /\
  data_regex [3;1;1;2;5] 0 None [ALit [1;2]; APlus 1] false = Some ([3], 3, [1;1]) /\
  data_regex [3;1;1;2;5] 0 None [ALit [1;2]; APlus 1] true = Some ([3;1;1], 3, []).
Proof. vm_compute. repeat split. Qed.
(* sized: zero bytes can be read at (and beyond) the end; a negative count raises *)
Example sized_edge :
  data_sized [1;2] 2 0 = Some ([], 2) /\ data_sized [1;2] 5 0 = Some ([], 5) /\
  data_sized [1;2] 1 2 = None /\ data_sized [1;2] 0 (-1) = None /\ data_sized [1;2;3] 1 2 = Some ([2;3], 3).
Proof. vm_compute. repeat split. Qed.
(* read-to-end beyond the end: the cursor moves BACK to len(raw) (why data_eos_spec asks offset <= blen raw
   only for orientation: the equation holds for every 0 <= offset) *)
Example eos_beyond : data_eos [1;2] 5 = ([], 2) /\ data_eos [1;2;3] 1 = ([2;3], 3).
Proof. vm_compute. repeat split. Qed.

Print Assumptions is_prefix_spec.
Print Assumptions find_least.
Print Assumptions find_none.
Print Assumptions find_complete.
Print Assumptions window_spec.
Print Assumptions data_sized_ok.
Print Assumptions data_sized_neg.
Print Assumptions data_sized_short.
Print Assumptions data_sized_complete.
Print Assumptions data_marker_ok.
Print Assumptions data_marker_none.
Print Assumptions data_marker_complete.
Print Assumptions data_marker_value_marker_free.
Print Assumptions data_pack_unpack_marker.
Print Assumptions data_pack_unpack_marker'.
Print Assumptions match_here_spec.
Print Assumptions re_search_leftmost.
Print Assumptions re_search_none.
Print Assumptions re_search_bounds.
Print Assumptions count_run_spec.
Print Assumptions data_regex_ok.
Print Assumptions data_regex_none.
Print Assumptions data_eos_spec.
