(* Proofs/StrictProofs.v -- strictness of the parsing interpreters: every chunk the parser logs as
   consumed lies inside the input, at a non-negative position, and is literally the bytes of the input
   at that position; leaves consume exactly the declared number of bytes; cursors never go negative.
   Stdlib only, no axioms. *)
From Coq Require Import ZArith List Bool Lia.
From Bisturi Require Import Base.Bytes Kernel.IntCodec Kernel.Align Kernel.BitsK Kernel.DataK Kernel.Frag
  Model.Value Model.Decl Model.Unpack Model.Pack Model.Init Model.Codegen Model.Wf Model.Wf2
  Proofs.IntCodecProofs Proofs.DataProofs Proofs.AlignProofs.
Import ListNotations. Open Scope Z_scope.

Definition chunk_ok (raw : bytes) (x : titem) : Prop :=
  match x with
  | TChunk p b => 0 <= p /\ b = slice raw p (p + blen b) /\ (b <> [] -> p + blen b <= blen raw)
  | TDelim _ _ _ => True
  | TMove p => 0 <= p
  end.

(* ------------------------------------------------------------------------------------------ *)
(* slices                                                                                     *)
(* ------------------------------------------------------------------------------------------ *)

Lemma skipn_skipn' {A : Type} : forall (x y : nat) (l : list A), skipn x (skipn y l) = skipn (y + x) l.
Proof.
  intros x y. revert x. induction y as [|y IH]; intros x l; cbn [skipn Nat.add]; [reflexivity|].
  destruct l as [|a l]; [destruct x; reflexivity|]. apply IH.
Qed.

Lemma firstn_length_firstn {A : Type} : forall (n : nat) (l : list A), firstn (length (firstn n l)) l = firstn n l.
Proof.
  induction n as [|n IH]; intros l; [reflexivity|].
  destruct l as [|a l]; [reflexivity|]. cbn [firstn length]. rewrite IH. reflexivity.
Qed.

Lemma slice_empty (raw : bytes) (a b : Z) : b <= a -> slice raw a b = [].
Proof. intros H. unfold slice. replace (Z.to_nat (b - a)) with 0%nat by lia. reflexivity. Qed.

Lemma slice_same (raw : bytes) (a : Z) : slice raw a a = [].
Proof. apply slice_empty. lia. Qed.

(* a slice re-cut at its own length *)
Lemma slice_self (raw : bytes) (a e : Z) : slice raw a (a + blen (slice raw a e)) = slice raw a e.
Proof.
  unfold slice at 1 3. replace (a + blen (slice raw a e) - a) with (blen (slice raw a e)) by lia.
  unfold blen. rewrite Nat2Z.id. unfold slice. apply firstn_length_firstn.
Qed.

Lemma slice_inside (raw : bytes) (a e : Z) : 0 <= a -> slice raw a e <> [] -> a + blen (slice raw a e) <= blen raw.
Proof.
  intros Ha Hne. pose proof (blen_pos _ Hne) as Hp. rewrite blen_slice in * by exact Ha. lia.
Qed.

Lemma chunk_ok_slice (raw : bytes) (a e : Z) : 0 <= a -> chunk_ok raw (TChunk a (slice raw a e)).
Proof.
  intros Ha. cbn [chunk_ok]. split; [exact Ha|]. split; [symmetry; apply slice_self|].
  apply slice_inside. exact Ha.
Qed.

(* slice of a slice *)
Lemma slice_slice (raw : bytes) (a e i j : Z) : 0 <= a -> 0 <= i ->
  slice (slice raw a e) i j = slice raw (a + i) (Z.min (a + j) e).
Proof.
  intros Ha Hi. unfold slice. rewrite skipn_firstn_comm, skipn_skipn', firstn_firstn.
  f_equal; [lia|]. f_equal. lia.
Qed.

Lemma slice_from_slice (raw : bytes) (a e i : Z) : 0 <= a -> 0 <= i ->
  slice_from (slice raw a e) i = slice raw (a + i) e.
Proof.
  intros Ha Hi. unfold slice_from, slice. rewrite skipn_firstn_comm, skipn_skipn'.
  f_equal; [lia|]. f_equal. lia.
Qed.

(* cutting a slice in two *)
Lemma slice_split (raw : bytes) (a m e : Z) : 0 <= a -> a <= m -> m <= e ->
  slice raw a e = slice raw a m ++ slice raw m e.
Proof.
  intros Ha Hm He. unfold slice.
  replace (Z.to_nat (e - a)) with (Z.to_nat (m - a) + Z.to_nat (e - m))%nat by lia.
  replace (Z.to_nat m) with (Z.to_nat a + Z.to_nat (m - a))%nat by lia.
  rewrite <- skipn_skipn'. generalize (skipn (Z.to_nat a) raw) as l. generalize (Z.to_nat (e - m)) as q.
  generalize (Z.to_nat (m - a)) as p. clear.
  induction p as [|p IH]; intros q l; [reflexivity|].
  destruct l as [|x l]; cbn [Nat.add firstn skipn app].
  - rewrite firstn_nil. reflexivity.
  - rewrite IH. reflexivity.
Qed.

Lemma blen_firstn_le (raw : bytes) (n : nat) : blen (firstn n raw) <= Z.of_nat n.
Proof. unfold blen. rewrite firstn_length. lia. Qed.

(* ------------------------------------------------------------------------------------------ *)
(* kernel facts                                                                               *)
(* ------------------------------------------------------------------------------------------ *)

Lemma int_unpack_some : forall n s big raw off v o', int_unpack n s big raw off = Some (v, o') ->
  o' = off + n /\ blen (slice raw off (off + n)) = n /\ decode n s big (slice raw off (off + n)) = Some v.
Proof.
  intros n s big raw off v o' H. unfold int_unpack in H.
  destruct (decode n s big (slice raw off (off + n))) as [x|] eqn:D; [|discriminate H].
  injection H as <- <-. split; [reflexivity|]. split; [|reflexivity].
  destruct (Z.eq_dec (blen (slice raw off (off + n))) n) as [E|E]; [exact E|].
  rewrite (decode_short _ _ _ _ E) in D. discriminate D.
Qed.

Lemma int_unpack_nonneg : forall n s big raw off v o', int_unpack n s big raw off = Some (v, o') -> 0 <= n.
Proof.
  intros n s big raw off v o' H. apply int_unpack_some in H. destruct H as (_ & H & _).
  pose proof (blen_nonneg (slice raw off (off + n))). lia.
Qed.

(* what a successful marker search says about raw *)
Lemma data_marker_raw : forall raw off sbl m incl v o', 0 <= off ->
  data_marker raw off sbl m incl = Some (v, o') ->
  exists c, 0 <= c /\ o' = off + c + blen m /\ blen (slice raw off o') = c + blen m /\
            v = slice raw off (off + (if incl then c + blen m else c)) /\
            slice raw off o' = slice raw off (off + c) ++ m.
Proof.
  intros raw off sbl m incl v o' Ho H. apply data_marker_ok in H; [|exact Ho].
  destruct H as (c & Hf & -> & Hv). exists c.
  destruct (find_least _ _ _ Hf) as ((Hc0 & Hcl & Hs) & _). pose proof (blen_nonneg m) as Hm.
  pose proof (window_prefix raw off sbl (c + blen m) Ho ltac:(lia) Hcl) as Hw.
  replace (off + (c + blen m)) with (off + c + blen m) in Hw by lia.
  split; [exact Hc0|]. split; [reflexivity|]. split; [|split; [exact Hv|]].
  - rewrite <- Hw, blen_slice by lia. lia.
  - rewrite (slice_split raw off (off + c) (off + c + blen m)) by lia. f_equal.
    assert (slice (slice (window raw off sbl) 0 (c + blen m)) c (c + blen m)
            = slice (slice raw off (off + c + blen m)) c (c + blen m)) as Hx by (rewrite Hw; reflexivity).
    rewrite !slice_slice in Hx by lia. rewrite Z.add_0_l, Z.min_id in Hx.
    replace (off + (c + blen m)) with (off + c + blen m) in Hx by lia. rewrite Z.min_id, Hs in Hx.
    symmetry. exact Hx.
Qed.

Lemma data_regex_raw : forall raw off sbl r incl v o' d, 0 <= off ->
  data_regex raw off sbl r incl = Some (v, o', d) ->
  exists en, 0 <= en /\ o' = off + en /\ blen (slice raw off o') = en.
Proof.
  intros raw off sbl r incl v o' d Ho H. apply data_regex_ok in H; [|exact Ho].
  destruct H as (st & en & Hs & -> & _). exists en. apply re_search_bounds in Hs.
  destruct Hs as (Hse & Hen). split; [lia|]. split; [reflexivity|].
  rewrite <- (window_prefix raw off sbl en Ho ltac:(lia) Hen), blen_slice by lia. lia.
Qed.

(* ------------------------------------------------------------------------------------------ *)
(* leaves                                                                                     *)
(* ------------------------------------------------------------------------------------------ *)

Theorem unpack_leaf_strict : forall host raw cf c name l s off v o' t,
  0 <= off -> unpack_leaf host raw cf c name l s off = Ok (v, o', t) ->
  0 <= o' /\ Forall (chunk_ok raw) t /\
  exists b, In (TChunk off b) t /\ b = slice raw off (off + blen b) /\
    match l with
    | LInt n signed fe _ => 1 <= n -> blen b = n /\ o' = off + n /\ off + n <= blen raw /\
        exists x, v = VInt x /\ decode n signed (is_bigendian (resolve_endianness fe (lc_endianness cf)) host) b = Some x
    | LDataSized size _ _ => exists bc, eval_int (mkctx raw s off) size = Ok bc /\ 0 <= bc /\ blen b = bc /\ o' = off + bc /\ v = VBytes b
    | LDataMarker m incl _ => exists val, v = VBytes val /\ b = (if incl then val else val ++ m) /\ o' = off + blen b
    | LDataRegex _ _ _ => o' = off + blen b
    | LDataEos _ => v = VBytes b
    end.
Proof.
  intros host raw cf c name l s off v o' t Ho H. destruct l as [n sg fe dflt|size isc dflt|m incl dflt|r incl dflt|dflt];
    cbn [unpack_leaf] in H.
  - (* LInt *)
    destruct (int_unpack n sg _ raw off) as [[x o1]|] eqn:E; [|discriminate H].
    injection H as <- <- <-. pose proof (int_unpack_nonneg _ _ _ _ _ _ _ E) as Hn.
    apply int_unpack_some in E. destruct E as (-> & Hl & Hd).
    split; [lia|]. split; [constructor; [apply chunk_ok_slice; exact Ho|constructor]|].
    exists (slice raw off (off + n)). split; [left; reflexivity|]. split; [symmetry; apply slice_self|].
    intros Hn1. split; [exact Hl|]. split; [reflexivity|]. split.
    + rewrite blen_slice in Hl by exact Ho. lia.
    + exists x. split; [reflexivity|exact Hd].
  - (* LDataSized *)
    unfold bind in H. destruct (eval_int (mkctx raw s off) size) as [bc|ex] eqn:Ev; [|discriminate H].
    destruct (data_sized raw off bc) as [[b o1]|] eqn:E; [|discriminate H].
    injection H as <- <- <-. apply data_sized_ok in E; [|exact Ho]. destruct E as (Hbc & -> & Hl & Hb & _).
    split; [lia|]. split; [constructor; [rewrite Hb; apply chunk_ok_slice; exact Ho|constructor]|].
    exists b. split; [left; reflexivity|]. split; [rewrite Hl; exact Hb|].
    exists bc. repeat split; auto.
  - (* LDataMarker *)
    destruct (data_marker raw off (lc_sbl cf) m incl) as [[val o1]|] eqn:E; [|discriminate H].
    injection H as <- <- <-. apply data_marker_raw in E; [|exact Ho].
    destruct E as (k & Hk & Ho1 & Hl & Hv & Hsp). pose proof (blen_nonneg m) as Hm.
    split; [lia|]. split; [constructor; [apply chunk_ok_slice; exact Ho|constructor]|].
    exists (slice raw off o1). split; [left; reflexivity|]. split; [symmetry; apply slice_self|].
    exists val. split; [reflexivity|]. split; [|rewrite Hl; lia].
    destruct incl.
    + rewrite Hv, Ho1. f_equal. lia.
    + rewrite Hv. exact Hsp.
  - (* LDataRegex *)
    destruct (data_regex raw off (lc_sbl cf) r incl) as [[[val o1] d]|] eqn:E; [|discriminate H].
    injection H as <- <- <-. apply data_regex_raw in E; [|exact Ho]. destruct E as (en & Hen & Ho1 & Hl).
    split; [lia|]. split.
    + constructor; [apply chunk_ok_slice; exact Ho|]. destruct incl; [constructor|].
      constructor; [exact I|constructor].
    + exists (slice raw off o1). split; [left; reflexivity|]. split; [symmetry; apply slice_self|].
      rewrite Hl. exact Ho1.
  - (* LDataEos *)
    unfold data_eos in H. injection H as <- <- <-. pose proof (blen_nonneg raw) as Hr.
    split; [lia|]. split; [constructor; [apply chunk_ok_slice; exact Ho|constructor]|].
    exists (slice raw off (off + (blen raw - off))). split; [left; reflexivity|].
    split; [symmetry; apply slice_self|reflexivity].
Qed.

(* ------------------------------------------------------------------------------------------ *)
(* the field interpreters, parametric in the nested-packet parser                             *)
(* ------------------------------------------------------------------------------------------ *)

(* struct runs: a member of non-negative size *)
Definition run_nonneg (ms : list smember) : Prop := Forall (fun m => 0 <= sm_size m) ms.

Lemma struct_unpack_ok (raw : bytes) : forall ms E off s s' t, 0 <= off -> run_nonneg ms ->
  struct_unpack ms (slice raw off E) off s = (s', t) -> Forall (chunk_ok raw) t.
Proof.
  induction ms as [|m r IH]; intros E off s s' t Ho Hn H; cbn [struct_unpack] in H.
  - injection H as <- <-. constructor.
  - inversion Hn as [|m' r' Hm Hr]; subst.
    rewrite (slice_from_slice raw off E (sm_size m) Ho Hm) in H.
    destruct (struct_unpack r (slice raw (off + sm_size m) E) (off + sm_size m) _) as [s1 t1] eqn:R.
    injection H as <- <-. constructor.
    + rewrite slice_slice by lia. rewrite Z.add_0_r. apply chunk_ok_slice. exact Ho.
    + eapply IH; [|exact Hr|exact R]. lia.
Qed.

Lemma seq_align_nonneg : forall al off o1, 0 < al -> 0 <= off -> seq_align al off = Some o1 -> 0 <= o1.
Proof.
  intros al off o1 Hal Ho H. destruct (seq_align_min al off Hal) as (d & E & Hd & _).
  rewrite E in H. injection H as <-. lia.
Qed.

Section StrictFields.
Variable host : bool.
Variable raw : bytes.
Variable rec_unpack : cid -> Z -> pres.
Variable loop_fuel : nat.
(* G: the global condition under which struct runs have non-negative members; with G := False the
   lemmas below only say that cursors stay non-negative *)
Variable G : Prop.
Definition tr_ok (t : trace) : Prop := G -> Forall (chunk_ok raw) t.
Hypothesis Hrec : forall c o v e t, 0 <= o -> rec_unpack c o = POk v e t -> 0 <= e /\ tr_ok t.

Lemma tr_ok_nil : tr_ok [].
Proof. intros _. constructor. Qed.
Lemma tr_ok_of (t : trace) : Forall (chunk_ok raw) t -> tr_ok t.
Proof. intros H _. exact H. Qed.
Lemma tr_ok_app (a b : trace) : tr_ok a -> tr_ok b -> tr_ok (a ++ b).
Proof. intros Ha Hb g. apply Forall_app. split; [exact (Ha g)|exact (Hb g)]. Qed.

Lemma unpack_leaf_ok : forall cf c name l s off v o' t, 0 <= off ->
  unpack_leaf host raw cf c name l s off = Ok (v, o', t) -> 0 <= o' /\ tr_ok t.
Proof.
  intros cf c name l s off v o' t Ho H.
  destruct (unpack_leaf_strict _ _ _ _ _ _ _ _ _ _ _ Ho H) as (A & B & _).
  split; [exact A|apply tr_ok_of; exact B].
Qed.

Lemma unpack_elem_ok : forall cf c name e s off s' o' t, 0 <= off ->
  unpack_elem host raw rec_unpack cf c name e s off = FOk s' o' t -> 0 <= o' /\ tr_ok t.
Proof.
  intros cf c name e s off s' o' t Ho H. destruct e as [l|c' proto|sel dflt]; cbn [unpack_elem] in H.
  - destruct (unpack_leaf host raw cf c name l s off) as [[[v o1] t1]|x] eqn:E; [|discriminate H].
    injection H as <- <- <-. exact (unpack_leaf_ok _ _ _ _ _ _ _ _ _ Ho E).
  - destruct (rec_unpack c' off) as [v o1 t1|st|] eqn:E; try discriminate H.
    injection H as <- <- <-. exact (Hrec _ _ _ _ _ Ho E).
  - destruct (eval (mkctx raw s off) sel) as [v|x]; [|discriminate H].
    destruct v as [z|b|b| |?|?|? ?|c' sl|c' kw|l]; try discriminate H.
    + destruct (rec_unpack c' off) as [v o1 t1|st|] eqn:E; try discriminate H.
      injection H as <- <- <-. exact (Hrec _ _ _ _ _ Ho E).
    + destruct (rec_unpack c' off) as [v o1 t1|st|] eqn:E; try discriminate H.
      injection H as <- <- <-. exact (Hrec _ _ _ _ _ Ho E).
    + destruct (unpack_leaf host raw empty_conf c name l s off) as [[[v o1] t1]|x] eqn:E; [|discriminate H].
      injection H as <- <- <-. exact (unpack_leaf_ok _ _ _ _ _ _ _ _ _ Ho E).
Qed.

Lemma unpack_count_ok : forall cf c i e al, 0 < al -> forall k s off t s' o' t', 0 <= off -> tr_ok t ->
  unpack_count host raw rec_unpack cf c i e al k s off t = FOk s' o' t' -> 0 <= o' /\ tr_ok t'.
Proof.
  intros cf c i e al Hal. induction k as [|k IH]; intros s off t s' o' t' Ho Ht H; cbn [unpack_count] in H.
  - injection H as <- <- <-. split; assumption.
  - destruct (seq_align al off) as [o1|] eqn:A; [|discriminate H].
    pose proof (seq_align_nonneg _ _ _ Hal Ho A) as Ho1.
    destruct (unpack_elem host raw rec_unpack cf c (FSeqElem i) e s o1) as [s1 o2 t1| | |] eqn:E; try discriminate H.
    destruct (unpack_elem_ok _ _ _ _ _ _ _ _ _ Ho1 E) as (Ho2 & Ht1).
    apply IH in H; [exact H|exact Ho2|apply tr_ok_app; assumption].
Qed.

Lemma unpack_until_ok : forall cf c i e al until, 0 < al -> forall fuel s off t s' o' t', 0 <= off -> tr_ok t ->
  unpack_until host raw rec_unpack fuel cf c i e al until s off t = FOk s' o' t' -> 0 <= o' /\ tr_ok t'.
Proof.
  intros cf c i e al until Hal. induction fuel as [|fuel IH]; intros s off t s' o' t' Ho Ht H; cbn [unpack_until] in H.
  - destruct (eval (mkctx raw s off) until) as [v|x]; [|discriminate H].
    destruct (truth v); [|discriminate H]. injection H as <- <- <-. split; assumption.
  - destruct (eval (mkctx raw s off) until) as [v|x]; [|discriminate H].
    destruct (truth v); [injection H as <- <- <-; split; assumption|].
    destruct (seq_align al off) as [o1|] eqn:A; [|discriminate H].
    pose proof (seq_align_nonneg _ _ _ Hal Ho A) as Ho1.
    destruct (unpack_elem host raw rec_unpack cf c (FSeqElem i) e s o1) as [s1 o2 t1| | |] eqn:E; try discriminate H.
    destruct (unpack_elem_ok _ _ _ _ _ _ _ _ _ Ho1 E) as (Ho2 & Ht1).
    apply IH in H; [exact H|exact Ho2|apply tr_ok_app; assumption].
Qed.

Lemma unpack_field_ok : forall cf c f s off ipp s' o' t, cfield_wf f = true -> 0 <= off ->
  unpack_field host raw rec_unpack loop_fuel cf c f s off ipp = FOk s' o' t -> 0 <= o' /\ tr_ok t.
Proof.
  intros cf c f s off ipp s' o' t Hwf Ho H.
  destruct f as [i arg rf al|i e|i first last run0 shift mask nbytes dflt|i e count until when dflt al|i e when dflt|i];
    cbn [unpack_field] in H.
  - (* CMove *)
    match type of H with match ?m with Ok _ => _ | Exn _ => _ end = _ => destruct m as [z|x] end; [|discriminate H].
    destruct (al && (z =? 0)); [discriminate H|].
    destruct (move_unpack al rf z off ipp) as [o1|] eqn:M; [|discriminate H].
    injection H as <- <- <-. apply move_nonneg in M. split; [exact M|].
    apply tr_ok_of. constructor; [exact M|constructor].
  - (* CElem *) exact (unpack_elem_ok _ _ _ _ _ _ _ _ _ Ho H).
  - (* CBits *)
    destruct first.
    + destruct (int_unpack nbytes false true raw off) as [[x o1]|] eqn:E; [|discriminate H].
      destruct (slot_get _ (FBitsI run0)) as [[]|]; try discriminate H.
      injection H as <- <- <-. pose proof (int_unpack_nonneg _ _ _ _ _ _ _ E) as Hn.
      apply int_unpack_some in E. destruct E as (-> & _ & _). split; [lia|].
      apply tr_ok_of. constructor; [apply chunk_ok_slice; exact Ho|constructor].
    + destruct (slot_get s (FBitsI run0)) as [[]|]; try discriminate H.
      injection H as <- <- <-. split; [exact Ho|apply tr_ok_nil].
  - (* CSeq *)
    cbn [cfield_wf] in Hwf. apply Z.ltb_lt in Hwf.
    match type of H with match ?m with Ok _ => _ | Exn _ => _ end = _ => destruct m as [n|x] end; [|discriminate H].
    match type of H with match ?m with Ok _ => _ | Exn _ => _ end = _ => destruct m as [[|]|x] end; [| |discriminate H].
    + injection H as <- <- <-. split; [exact Ho|apply tr_ok_nil].
    + destruct (unpack_count host raw rec_unpack cf c i e al (Z.to_nat n) _ off []) as [s1 o1 t1| | |] eqn:C;
        try discriminate H.
      apply unpack_count_ok in C; [|exact Hwf|exact Ho|apply tr_ok_nil]. destruct C as (Ho1 & Ht1).
      destruct until as [u|].
      * exact (unpack_until_ok _ _ _ _ _ _ Hwf _ _ _ _ _ _ _ Ho1 Ht1 H).
      * injection H as <- <- <-. split; assumption.
  - (* COpt *)
    destruct (eval (mkctx raw s off) when) as [v|x]; [|discriminate H].
    destruct (truth v).
    + destruct (unpack_elem host raw rec_unpack cf c (FOptElem i) e s off) as [s1 o1 t1| | |] eqn:E; try discriminate H.
      injection H as <- <- <-. exact (unpack_elem_ok _ _ _ _ _ _ _ _ _ Ho E).
    + injection H as <- <- <-. split; [exact Ho|apply tr_ok_nil].
  - (* CEm *)
    injection H as <- <- <-. split; [exact Ho|]. apply tr_ok_of.
    constructor; [|constructor]. rewrite <- (slice_same raw off). apply chunk_ok_slice. exact Ho.
Qed.

Lemma unpack_fields_ok : forall cf c fs s off ipp t v e t', forallb cfield_wf fs = true -> 0 <= off -> tr_ok t ->
  unpack_fields host raw rec_unpack loop_fuel cf c fs s off ipp t = POk v e t' -> 0 <= e /\ tr_ok t'.
Proof.
  intros cf c. induction fs as [|f r IH]; intros s off ipp t v e t' Hwf Ho Ht H; cbn [unpack_fields] in H.
  - injection H as <- <- <-. split; assumption.
  - cbn [forallb] in Hwf. apply andb_true_iff in Hwf. destruct Hwf as (Hf & Hr).
    destruct (unpack_field host raw rec_unpack loop_fuel cf c f s off ipp) as [s1 o1 t1| | |] eqn:E; try discriminate H.
    destruct (unpack_field_ok _ _ _ _ _ _ _ _ _ Hf Ho E) as (Ho1 & Ht1).
    apply IH in H; [exact H|exact Hr|exact Ho1|apply tr_ok_app; assumption].
Qed.

Definition block_ok (b : block) : Prop :=
  match b with BStruct _ ms => G -> run_nonneg ms | BLoop f => cfield_wf f = true end.

Lemma unpack_blocks_ok : forall cf c bs s off ipp t v e t', Forall block_ok bs -> 0 <= off -> tr_ok t ->
  unpack_blocks host raw rec_unpack loop_fuel cf c bs s off ipp t = POk v e t' -> 0 <= e /\ tr_ok t'.
Proof.
  intros cf c. induction bs as [|b r IH]; intros s off ipp t v e t' Hwf Ho Ht H; cbn [unpack_blocks] in H.
  - injection H as <- <- <-. split; assumption.
  - inversion Hwf as [|b' r' Hb Hr]; subst. destruct b as [big ms|f].
    + destruct (Z.eqb_spec (blen (slice raw off (off + run_size ms))) (run_size ms)) as [El|El]; [|discriminate H].
      destruct (struct_unpack ms (slice raw off (off + run_size ms)) off s) as [s1 t1] eqn:S.
      pose proof (blen_nonneg (slice raw off (off + run_size ms))) as Hn.
      apply IH in H; [exact H|exact Hr|lia|]. apply tr_ok_app; [exact Ht|].
      intros g. exact (struct_unpack_ok raw ms _ off s s1 t1 Ho (Hb g) S).
    + destruct (unpack_field host raw rec_unpack loop_fuel cf c f s off ipp) as [s1 o1 t1| | |] eqn:E; try discriminate H.
      destruct (unpack_field_ok _ _ _ _ _ _ _ _ _ Hb Ho E) as (Ho1 & Ht1).
      apply IH in H; [exact H|exact Hr|exact Ho1|apply tr_ok_app; assumption].
Qed.
End StrictFields.

(* ------------------------------------------------------------------------------------------ *)
(* the class table, the generated blocks                                                      *)
(* ------------------------------------------------------------------------------------------ *)

Lemma ct_get_forallb (P : cclass -> bool) : forall ct c k,
  forallb (fun ck => P (snd ck)) ct = true -> ct_get ct c = Some k -> P k = true.
Proof.
  induction ct as [|[c' k'] r IH]; intros c k Hall Hget; cbn [ct_get] in Hget; [discriminate Hget|].
  cbn [forallb snd] in Hall. apply andb_true_iff in Hall. destruct Hall as (Hk & Hr).
  destruct (c =? c'); [injection Hget as <-; exact Hk|exact (IH _ _ Hr Hget)].
Qed.

Lemma fixity_size : forall host cf f m, fixity_of host cf f = FStruct m -> cfield_sizes_ok f = true -> 0 <= sm_size m.
Proof.
  intros host cf f m H Hs. destruct f as [| i e | | | |]; try discriminate H.
  destruct e as [l| |]; try discriminate H.
  destruct l as [n sg fe d|size isc d| | |]; try discriminate H; cbn [fixity_of] in H.
  - destruct (has_struct_code n) eqn:C; [|discriminate H]. injection H as <-. cbn [sm_size].
    unfold has_struct_code in C. lia.
  - destruct size as [v| | | | | | | | |]; try discriminate H.
    destruct v as [z| | | | | | | | |]; try discriminate H.
    destruct isc; [|discriminate H]. injection H as <-. cbn [sm_size].
    cbn [cfield_sizes_ok] in Hs. lia.
Qed.

Lemma gen_blocks_ok (host : bool) (cf : lconf) (vec : bool) (G : Prop) : forall fs cur,
  forallb cfield_wf fs = true -> (G -> forallb cfield_sizes_ok fs = true) ->
  (forall b ms, cur = Some (b, ms) -> G -> run_nonneg ms) ->
  Forall (block_ok G) (gen_blocks host cf vec fs cur).
Proof.
  assert (forall cur, (forall b ms, cur = Some (b, ms) -> G -> run_nonneg ms) ->
          Forall (block_ok G) (match cur with Some (b, ms) => [BStruct b (rev ms)] | None => [] end)) as Hflush.
  { intros [[b ms]|] Hc; [|constructor]. constructor; [|constructor].
    intros g. apply Forall_rev. exact (Hc b ms eq_refl g). }
  induction fs as [|f r IH]; intros cur Hwf Hs Hc; cbn [gen_blocks].
  - apply Hflush. exact Hc.
  - cbn [forallb] in Hwf. apply andb_true_iff in Hwf. destruct Hwf as (Hf & Hr).
    assert (G -> forallb cfield_sizes_ok r = true) as Hsr.
    { intros g. specialize (Hs g). cbn [forallb] in Hs. apply andb_true_iff in Hs. apply Hs. }
    assert (forall m, fixity_of host cf f = FStruct m -> G -> 0 <= sm_size m) as Hm.
    { intros m E g. specialize (Hs g). cbn [forallb] in Hs. apply andb_true_iff in Hs.
      exact (fixity_size _ _ _ _ E (proj1 Hs)). }
    assert (forall m, fixity_of host cf f = FStruct m ->
            Forall (block_ok G) (gen_blocks host cf vec r (Some (sm_big m, [m])))) as Hnew.
    { intros m E. apply IH; [exact Hr|exact Hsr|]. intros b ms Eq g. injection Eq as <- <-.
      constructor; [exact (Hm m E g)|constructor]. }
    destruct (fixity_of host cf f) as [m| |] eqn:E.
    + destruct cur as [[b ms]|].
      * destruct (vec && Bool.eqb b (sm_big m)).
        -- apply IH; [exact Hr|exact Hsr|]. intros b' ms' Eq g. injection Eq as <- <-.
           constructor; [exact (Hm m eq_refl g)|exact (Hc b ms eq_refl g)].
        -- apply Forall_app. split; [apply (Hflush (Some (b, ms))); exact Hc|exact (Hnew m eq_refl)].
      * exact (Hnew m eq_refl).
    + apply Forall_app. split; [apply Hflush; exact Hc|]. constructor; [exact Hf|].
      apply IH; [exact Hr|exact Hsr|discriminate].
    + apply Forall_app. split; [apply Hflush; exact Hc|]. constructor; [exact Hf|].
      apply IH; [exact Hr|exact Hsr|discriminate].
Qed.

(* ------------------------------------------------------------------------------------------ *)
(* tying the knot                                                                             *)
(* ------------------------------------------------------------------------------------------ *)

Lemma unpack_any_ok_gen (G : Prop) : forall host ct raw, ct_wf ct = true -> (G -> ct_sizes_ok ct = true) ->
  forall fuel c off v e t, 0 <= off -> unpack_any fuel host ct raw c off = POk v e t -> 0 <= e /\ tr_ok raw G t.
Proof.
  intros host ct raw Hwf Hs. induction fuel as [|fuel IH]; intros c off v e t Ho H; cbn [unpack_any] in H; [discriminate H|].
  destruct (ct_get ct c) as [k|] eqn:K; [|discriminate H].
  pose proof (ct_get_forallb class_wf ct c k Hwf K) as Hk. unfold class_wf in Hk.
  destruct (cc_gen_unpack k).
  - eapply unpack_blocks_ok; [| |exact Ho|apply tr_ok_nil|exact H].
    + intros c0 o v0 e0 t0 Ho0 H0. exact (IH c0 o v0 e0 t0 Ho0 H0).
    + apply gen_blocks_ok; [exact Hk| |discriminate].
      intros g. exact (ct_get_forallb (fun k => forallb cfield_sizes_ok (cc_fields k)) ct c k (Hs g) K).
  - eapply unpack_fields_ok; [|exact Hk|exact Ho|apply tr_ok_nil|exact H].
    intros c0 o v0 e0 t0 Ho0 H0. exact (IH c0 o v0 e0 t0 Ho0 H0).
Qed.

Theorem unpack_any_strict : forall fuel host ct raw c off v e t,
  ct_wf ct = true -> ct_sizes_ok ct = true -> 0 <= off ->
  unpack_any fuel host ct raw c off = POk v e t -> 0 <= e /\ Forall (chunk_ok raw) t.
Proof.
  intros fuel host ct raw c off v e t Hwf Hs Ho H.
  destruct (unpack_any_ok_gen True host ct raw Hwf (fun _ => Hs) fuel c off v e t Ho H) as (A & B).
  split; [exact A|exact (B I)].
Qed.

(* without the condition on constant sizes: cursors stay non-negative *)
Theorem unpack_any_nonneg : forall fuel host ct raw c off v e t,
  ct_wf ct = true -> 0 <= off -> unpack_any fuel host ct raw c off = POk v e t -> 0 <= e.
Proof.
  intros fuel host ct raw c off v e t Hwf Ho H.
  exact (proj1 (unpack_any_ok_gen False host ct raw Hwf (fun f => match f with end) fuel c off v e t Ho H)).
Qed.

Theorem unpack_pkt_strict : forall fuel host ct raw c off v e t,
  ct_wf ct = true -> 0 <= off ->
  unpack_pkt fuel host ct raw c off = POk v e t -> 0 <= e /\ Forall (chunk_ok raw) t.
Proof.
  intros fuel host ct raw c off v e t Hwf. revert c off v e t.
  induction fuel as [|fuel IH]; intros c off v e t Ho H; cbn [unpack_pkt] in H; [discriminate H|].
  destruct (ct_get ct c) as [k|] eqn:K; [|discriminate H].
  pose proof (ct_get_forallb class_wf ct c k Hwf K) as Hk. unfold class_wf in Hk.
  assert (forall c0 o v0 e0 t0, 0 <= o -> unpack_pkt fuel host ct raw c0 o = POk v0 e0 t0 ->
          0 <= e0 /\ tr_ok raw True t0) as Hrec.
  { intros c0 o v0 e0 t0 Ho0 H0. destruct (IH c0 o v0 e0 t0 Ho0 H0) as (A & B). split; [exact A|intros _; exact B]. }
  destruct (unpack_fields_ok host raw _ fuel True Hrec _ _ _ _ _ _ _ _ _ _ Hk Ho (tr_ok_nil _ _) H) as (A & B).
  split; [exact A|exact (B I)].
Qed.

(* cutting the input: whatever still parses consumed only bytes that are there *)
Theorem unpack_any_truncation : forall fuel host ct raw c off cut v e t,
  ct_wf ct = true -> ct_sizes_ok ct = true -> 0 <= off -> 0 <= cut ->
  unpack_any fuel host ct (firstn (Z.to_nat cut) raw) c off = POk v e t ->
  Forall (fun x => match x with TChunk p b => b <> [] -> p + blen b <= cut | _ => True end) t.
Proof.
  intros fuel host ct raw c off cut v e t Hwf Hs Ho Hcut H.
  destruct (unpack_any_strict _ _ _ _ _ _ _ _ _ Hwf Hs Ho H) as (_ & B).
  eapply Forall_impl; [|exact B]. intros [p b| |] Hx; cbn [chunk_ok] in Hx; try exact I.
  intros Hne. destruct Hx as (_ & _ & Hb). specialize (Hb Hne).
  pose proof (blen_firstn_le raw (Z.to_nat cut)). lia.
Qed.

Print Assumptions unpack_leaf_strict.
Print Assumptions unpack_any_strict.
Print Assumptions unpack_any_nonneg.
Print Assumptions unpack_pkt_strict.
Print Assumptions unpack_any_truncation.

(* why ct_sizes_ok is needed: a constant Data(-2) vectorized with an Int(4) makes a struct run of size 2 whose
   second member is logged at position -2 (ct_wf holds, the statement without ct_sizes_ok is false) *)
Example unpack_any_strict_needs_sizes :
  let k := {| cc_conf := empty_conf; cc_gen_pack := false; cc_gen_unpack := true; cc_vectorize := true;
              cc_fields := [CElem 0 (ELeafE (LDataSized (ELit (VInt (-2))) true VNone));
                            CElem 1 (ELeafE (LInt 4 false None VNone))] |} in
  ct_wf [(0, k)] = true /\ ct_sizes_ok [(0, k)] = false /\
  unpack_any 2 true [(0, k)] [1; 2] 0 0 =
    POk (VPkt 0 [(FN 0, VBytes []); (FN 1, VNone)]) 2 [TChunk 0 []; TChunk (-2) [1; 2]].
Proof. vm_compute. repeat split. Qed.
