(* Proofs/ErrPath.v -- the error path of the interpreters: which entry a PacketError carries.
   Parsing: the innermost entry names the first field (or struct run) that could not be decoded, together
   with the cursor at which it was entered; one more entry per enclosing packet level.
   Serializing: the same decomposition, every entry carries the cursor at the moment of the failure.
   Stdlib only, no axioms. *)
From Coq Require Import ZArith List Bool Lia.
From Bisturi Require Import Base.Bytes Kernel.IntCodec Kernel.Align Kernel.BitsK Kernel.DataK Kernel.Frag
  Model.Value Model.Decl Model.Unpack Model.Pack Model.Init Model.Codegen Model.Wf.
Import ListNotations. Open Scope Z_scope.

(* destruct the scrutinee of the match at the head of the left hand side of H *)
Ltac dhead H :=
  match type of H with
  | (match ?x with _ => _ end) = _ => destruct x eqn:?
  end.
Ltac dheads H := repeat (dhead H; try discriminate H).

(* ------------------------------------------------------------------------------------------ *)
(* parsing: where a nested PacketError comes from                                             *)
(* ------------------------------------------------------------------------------------------ *)
Section UnpackFail.
Variable host : bool.
Variable raw : bytes.
Variable rec : cid -> Z -> pres.
Variable lf : nat.

Lemma unpack_leaf_elem_not_ffail : forall cf c name l s off st,
  match unpack_leaf host raw cf c name l s off with
  | Ok (v, o', t) => FOk (slot_set s name v) o' t
  | Exn x => FExn x
  end <> FFail st.
Proof.
  intros cf c name l s off st. destruct (unpack_leaf host raw cf c name l s off) as [[[v o'] t]|x]; discriminate.
Qed.

Lemma unpack_elem_ffail : forall cf c name e s off st,
  unpack_elem host raw rec cf c name e s off = FFail st -> exists c' o', rec c' o' = PFail st.
Proof.
  intros cf c name e s off st H. destruct e as [l|c' proto|sel dflt]; cbn [unpack_elem] in H.
  - exfalso. revert H. apply unpack_leaf_elem_not_ffail.
  - destruct (rec c' off) eqn:E; try discriminate H. inversion H; subst. eauto.
  - destruct (eval (mkctx raw s off) sel) as [v|x]; [|discriminate H].
    destruct v as [z|b|b| |l|l|ks vs|c0 ps0|c0 kw|l]; try discriminate H.
    + destruct (rec c0 off) eqn:E; try discriminate H. inversion H; subst. eauto.
    + destruct (rec c0 off) eqn:E; try discriminate H. inversion H; subst. eauto.
    + exfalso. revert H. apply unpack_leaf_elem_not_ffail.
Qed.

Lemma unpack_count_ffail : forall cf c i e al k s off t st,
  unpack_count host raw rec cf c i e al k s off t = FFail st -> exists c' o', rec c' o' = PFail st.
Proof.
  intros cf c i e al k. induction k as [|k IH]; intros s off t st H; cbn [unpack_count] in H; [discriminate H|].
  destruct (seq_align al off) as [o1|]; [|discriminate H].
  destruct (unpack_elem host raw rec cf c (FSeqElem i) e s o1) eqn:E; try discriminate H.
  - eapply IH; exact H.
  - inversion H; subst. eapply unpack_elem_ffail; exact E.
Qed.

Lemma unpack_until_ffail : forall fuel cf c i e al u s off t st,
  unpack_until host raw rec fuel cf c i e al u s off t = FFail st -> exists c' o', rec c' o' = PFail st.
Proof.
  induction fuel as [|fuel IH]; intros cf c i e al u s off t st H; cbn [unpack_until] in H.
  - destruct (eval (mkctx raw s off) u) as [v|x]; [|discriminate H]. destruct (truth v); discriminate H.
  - destruct (eval (mkctx raw s off) u) as [v|x]; [|discriminate H]. destruct (truth v); [discriminate H|].
    destruct (seq_align al off) as [o1|]; [|discriminate H].
    destruct (unpack_elem host raw rec cf c (FSeqElem i) e s o1) eqn:E; try discriminate H.
    + eapply IH; exact H.
    + inversion H; subst. eapply unpack_elem_ffail; exact E.
Qed.

(* a nested PacketError always comes from a nested packet parse (through Ref, a repeated or an optional Ref) *)
Theorem unpack_field_ffail : forall cf c f s off ipp st',
  unpack_field host raw rec lf cf c f s off ipp = FFail st' -> exists c' o', rec c' o' = PFail st'.
Proof.
  intros cf c f s off ipp st' H. destruct f; cbn [unpack_field] in H.
  - (* CMove *) dheads H.
  - (* CElem *) eapply unpack_elem_ffail; exact H.
  - (* CBits *) dheads H.
  - (* CSeq *)
    dhead H; [|discriminate H].
    dhead H; [|discriminate H].
    dhead H; [discriminate H|].
    destruct (unpack_count host raw rec cf c i e al (Z.to_nat a) (slot_set s (FN i) (VList [])) off []) eqn:Ec;
      try discriminate H.
    + destruct until as [u|]; [|discriminate H]. eapply unpack_until_ffail; exact H.
    + inversion H; subst. eapply unpack_count_ffail; exact Ec.
  - (* COpt *)
    destruct (eval (mkctx raw s off) when) as [v|x]; [|discriminate H].
    destruct (truth v); [|discriminate H].
    destruct (unpack_elem host raw rec cf c (FOptElem i) e s off) eqn:E; try discriminate H.
    inversion H; subst. eapply unpack_elem_ffail; exact E.
  - (* CEm *) discriminate H.
Qed.

(* the generic field loop fails at the FIRST field that cannot be decoded, entered at the cursor the previous
   fields left; a plain exception gives a one-entry stack, a nested PacketError gets this field appended *)
Theorem unpack_fields_fail : forall cf c fs s off ipp t st,
  unpack_fields host raw rec lf cf c fs s off ipp t = PFail st ->
  exists fs1 f fs2 s1 o1 t1,
    fs = fs1 ++ f :: fs2 /\
    unpack_fields host raw rec lf cf c fs1 s off ipp t = POk (VPkt c s1) o1 t1 /\
    ((exists x, unpack_field host raw rec lf cf c f s1 o1 ipp = FExn x /\ st = [(o1, cf_name f, c)]) \/
     (exists st', unpack_field host raw rec lf cf c f s1 o1 ipp = FFail st' /\ st = st' ++ [(o1, cf_name f, c)])).
Proof.
  intros cf c fs. induction fs as [|a fs IH]; intros s off ipp t st H; cbn [unpack_fields] in H; [discriminate H|].
  destruct (unpack_field host raw rec lf cf c a s off ipp) eqn:E.
  - apply IH in H. destruct H as (fs1 & f & fs2 & s1 & o1 & t1 & Hfs & Hok & Hd).
    exists (a :: fs1), f, fs2, s1, o1, t1. split; [subst fs; reflexivity|]. split; [|exact Hd].
    cbn [unpack_fields]. rewrite E. exact Hok.
  - inversion H; subst. exists [], a, fs, s, off, t. split; [reflexivity|]. split; [reflexivity|].
    left. exists e. split; [exact E|reflexivity].
  - inversion H; subst. exists [], a, fs, s, off, t. split; [reflexivity|]. split; [reflexivity|].
    right. exists st0. split; [exact E|reflexivity].
  - discriminate H.
Qed.

(* the same for the generated code: the failing block, at the cursor where the block begins *)
Theorem unpack_blocks_fail : forall cf c bs s off ipp t st,
  unpack_blocks host raw rec lf cf c bs s off ipp t = PFail st ->
  exists bs1 b bs2 s1 o1 t1,
    bs = bs1 ++ b :: bs2 /\
    unpack_blocks host raw rec lf cf c bs1 s off ipp t = POk (VPkt c s1) o1 t1 /\
    (st = [(o1, block_name b, c)] \/ exists st', st = st' ++ [(o1, block_name b, c)] /\ exists c' o', rec c' o' = PFail st').
Proof.
  intros cf c bs. induction bs as [|a bs IH]; intros s off ipp t st H; cbn [unpack_blocks] in H; [discriminate H|].
  destruct a as [big ms|f].
  - destruct (blen (slice raw off (off + run_size ms)) =? run_size ms) eqn:El.
    + destruct (struct_unpack ms (slice raw off (off + run_size ms)) off s) as [s1' t1'] eqn:Es.
      apply IH in H. destruct H as (bs1 & b & bs2 & s1 & o1 & t1 & Hbs & Hok & Hd).
      exists (BStruct big ms :: bs1), b, bs2, s1, o1, t1. split; [subst bs; reflexivity|]. split; [|exact Hd].
      cbn [unpack_blocks]. rewrite El, Es. exact Hok.
    + inversion H; subst. exists [], (BStruct big ms), bs, s, off, t.
      split; [reflexivity|]. split; [reflexivity|]. left. reflexivity.
  - destruct (unpack_field host raw rec lf cf c f s off ipp) eqn:E.
    + apply IH in H. destruct H as (bs1 & b & bs2 & s1 & o1 & t1 & Hbs & Hok & Hd).
      exists (BLoop f :: bs1), b, bs2, s1, o1, t1. split; [subst bs; reflexivity|]. split; [|exact Hd].
      cbn [unpack_blocks]. rewrite E. exact Hok.
    + inversion H; subst. exists [], (BLoop f), bs, s, off, t.
      split; [reflexivity|]. split; [reflexivity|]. left. reflexivity.
    + inversion H; subst. exists [], (BLoop f), bs, s, off, t.
      split; [reflexivity|]. split; [reflexivity|]. right. exists st0. split; [reflexivity|].
      eapply unpack_field_ffail; exact E.
    + discriminate H.
Qed.
End UnpackFail.

(* ------------------------------------------------------------------------------------------ *)
(* shape of an error stack                                                                    *)
(* ------------------------------------------------------------------------------------------ *)
(* shape of every error stack of a packet parse: non-empty, outermost entry of the class being parsed, one entry
   per nesting level *)
Inductive stack_of (c : cid) : stack -> Prop :=
| SO_leaf : forall o f, stack_of c [(o, f, c)]
| SO_nest : forall c' st o f, stack_of c' st -> stack_of c (st ++ [(o, f, c)]).

Lemma stack_of_nonempty : forall c st, stack_of c st -> st <> [].
Proof.
  intros c st H. destruct H as [o f|c' st o f _]; [discriminate|].
  intros E. apply app_eq_nil in E. destruct E as [_ E]. discriminate E.
Qed.

Section UnpackShape.
Variable host : bool.
Variable raw : bytes.
Variable rec : cid -> Z -> pres.
Variable lf : nat.
Hypothesis Hrec : forall c o st, rec c o = PFail st -> stack_of c st.

Lemma unpack_fields_shape : forall cf c fs s off ipp t st,
  unpack_fields host raw rec lf cf c fs s off ipp t = PFail st -> stack_of c st.
Proof.
  intros cf c fs s off ipp t st H. apply unpack_fields_fail in H.
  destruct H as (fs1 & f & fs2 & s1 & o1 & t1 & _ & _ & [(x & _ & Hst)|(st' & Hf & Hst)]); subst st.
  - apply SO_leaf.
  - apply unpack_field_ffail in Hf. destruct Hf as (c' & o' & Hr). eapply SO_nest. eapply Hrec. exact Hr.
Qed.

Lemma unpack_blocks_shape : forall cf c bs s off ipp t st,
  unpack_blocks host raw rec lf cf c bs s off ipp t = PFail st -> stack_of c st.
Proof.
  intros cf c bs s off ipp t st H. apply unpack_blocks_fail in H.
  destruct H as (bs1 & b & bs2 & s1 & o1 & t1 & _ & _ & [Hst|(st' & Hst & c' & o' & Hr)]); subst st.
  - apply SO_leaf.
  - eapply SO_nest. eapply Hrec. exact Hr.
Qed.
End UnpackShape.

Theorem unpack_any_fail_shape : forall fuel host ct raw c off st,
  unpack_any fuel host ct raw c off = PFail st -> stack_of c st.
Proof.
  induction fuel as [|fuel IH]; intros host ct raw c off st H; cbn [unpack_any] in H; [discriminate H|].
  destruct (ct_get ct c) as [k|]; [|discriminate H].
  destruct (cc_gen_unpack k).
  - eapply unpack_blocks_shape; [|exact H]. intros c' o' st' Hr. eapply IH; exact Hr.
  - eapply unpack_fields_shape; [|exact H]. intros c' o' st' Hr. eapply IH; exact Hr.
Qed.

Theorem unpack_pkt_fail_shape : forall fuel host ct raw c off st,
  unpack_pkt fuel host ct raw c off = PFail st -> stack_of c st.
Proof.
  induction fuel as [|fuel IH]; intros host ct raw c off st H; cbn [unpack_pkt] in H; [discriminate H|].
  destruct (ct_get ct c) as [k|]; [|discriminate H].
  eapply unpack_fields_shape; [|exact H]. intros c' o' st' Hr. eapply IH; exact Hr.
Qed.

(* ------------------------------------------------------------------------------------------ *)
(* serializing                                                                                *)
(* ------------------------------------------------------------------------------------------ *)
Section PackFail.
Variable host : bool.
Variable dl : dstate.
Variable rec : cid -> slots -> frs -> qres.

Lemma emit_not_kfail : forall s fr b st, emit s fr b <> KFail st.
Proof. intros s fr b st. unfold emit. destruct (append fr b); discriminate. Qed.

Lemma pack_leaf_not_kfail : forall cf c name l s fr st, pack_leaf host dl cf c name l s fr <> KFail st.
Proof.
  intros cf c name l s fr st H. unfold pack_leaf in H.
  destruct (slot_get s name) as [v|]; [|discriminate H].
  destruct l.
  - destruct (as_int v); [|discriminate H]. dhead H; [|discriminate H]. revert H. apply emit_not_kfail.
  - destruct v; try discriminate H. revert H. apply emit_not_kfail.
  - destruct v; try discriminate H. revert H. apply emit_not_kfail.
  - destruct v; try discriminate H. revert H. apply emit_not_kfail.
  - destruct v; try discriminate H. revert H. apply emit_not_kfail.
Qed.

Lemma pack_elem_kfail : forall cf c name e s fr st,
  pack_elem host dl rec cf c name e s fr = KFail st -> exists c' ps fr', rec c' ps fr' = QFail st.
Proof.
  intros cf c name e s fr st H. destruct e as [l|c' proto|sel dflt]; cbn [pack_elem] in H.
  - exfalso. revert H. apply pack_leaf_not_kfail.
  - destruct (slot_get s name) as [v|]; [|discriminate H]. destruct v as [z|b|b| |l|l|ks vs|c0 ps0|c0 kw|l]; try discriminate H.
    destruct (rec c0 ps0 fr) eqn:E; try discriminate H. inversion H; subst. eauto.
  - destruct (slot_get s name) as [v|]; [|discriminate H].
    assert (Hsel : match eval (pctx s) sel with
                   | Ok (VLeaf l) => pack_leaf host dl empty_conf c name l s fr
                   | Ok _ => KExn NotImplementedError (cur fr)
                   | Exn x => KExn x (cur fr)
                   end <> KFail st).
    { destruct (eval (pctx s) sel) as [w|x]; [|discriminate]. destruct w; try discriminate.
      apply pack_leaf_not_kfail. }
    destruct v as [z|b|b| |l|l|ks vs|c0 ps0|c0 kw|l]; try (exfalso; apply Hsel; exact H).
    destruct (rec c0 ps0 fr) eqn:E; try discriminate H. inversion H; subst. eauto.
Qed.

Lemma pack_seq_kfail : forall cf c i e al vs s fr st,
  pack_seq host dl rec cf c i e al vs s fr = KFail st -> exists c' ps fr', rec c' ps fr' = QFail st.
Proof.
  intros cf c i e al vs. induction vs as [|v vs IH]; intros s fr st H; cbn [pack_seq] in H; [discriminate H|].
  destruct (seq_align al (cur fr)) as [p|]; [|discriminate H].
  destruct (pack_elem host dl rec cf c (FSeqElem i) e (slot_set s (FSeqElem i) v) (set_cur fr p)) eqn:E;
    try discriminate H.
  - eapply IH; exact H.
  - inversion H; subst. eapply pack_elem_kfail; exact E.
Qed.

Lemma pack_field_kfail : forall cf c f s fr ipp st,
  pack_field host dl rec cf c f s fr ipp = KFail st -> exists c' ps fr', rec c' ps fr' = QFail st.
Proof.
  intros cf c f s fr ipp st H. destruct f; cbn [pack_field] in H.
  - dheads H.
  - eapply pack_elem_kfail; exact H.
  - dhead H; [|discriminate H]. dhead H; [|discriminate H]. dhead H; [|discriminate H].
    dhead H; [|discriminate H]. dhead H; [|discriminate H].
    dhead H; [|discriminate H]. exfalso. revert H. apply emit_not_kfail.
  - destruct (slot_get s (FN i)) as [v|]; [|discriminate H]. destruct v; try discriminate H.
    eapply pack_seq_kfail; exact H.
  - destruct (slot_get s (FN i)) as [v|]; [|discriminate H].
    destruct v; try discriminate H; eapply pack_elem_kfail; exact H.
  - exfalso. revert H. apply emit_not_kfail.
Qed.

(* serializing: same decomposition; every entry carries the cursor at the moment of the failure *)
Theorem pack_fields_fail : forall cf c fs s fr ipp st,
  pack_fields host dl rec cf c fs s fr ipp = QFail st ->
  exists fs1 f fs2 s1 fr1,
    fs = fs1 ++ f :: fs2 /\
    pack_fields host dl rec cf c fs1 s fr ipp = QOk (VPkt c s1) fr1 /\
    ((exists x at_cur, pack_field host dl rec cf c f s1 fr1 ipp = KExn x at_cur /\ st = [(at_cur, cf_name f, c)]) \/
     (exists st', pack_field host dl rec cf c f s1 fr1 ipp = KFail st' /\
                  st = st' ++ [(match st' with (o, _, _) :: _ => o | [] => cur fr1 end, cf_name f, c)])).
Proof.
  intros cf c fs. induction fs as [|a fs IH]; intros s fr ipp st H; cbn [pack_fields] in H; [discriminate H|].
  destruct (pack_field host dl rec cf c a s fr ipp) eqn:E.
  - apply IH in H. destruct H as (fs1 & f & fs2 & s1 & fr1 & Hfs & Hok & Hd).
    exists (a :: fs1), f, fs2, s1, fr1. split; [subst fs; reflexivity|]. split; [|exact Hd].
    cbn [pack_fields]. rewrite E. exact Hok.
  - inversion H; subst. exists [], a, fs, s, fr. split; [reflexivity|]. split; [reflexivity|].
    left. exists e, cur_at. split; [exact E|reflexivity].
  - inversion H; subst. exists [], a, fs, s, fr. split; [reflexivity|]. split; [reflexivity|].
    right. exists st0. split; [exact E|reflexivity].
  - discriminate H.
Qed.
End PackFail.

Definition same_offsets (st : stack) : Prop := forall e, In e st -> fst (fst e) = fst (fst (hd (0, FN 0, 0) st)).

Lemma same_offsets_one : forall x, same_offsets [x].
Proof. intros x e [He|[]]. subst e. reflexivity. Qed.

(* appending the entry of the enclosing level, which reuses the cursor of the innermost entry *)
Lemma shape_nest : forall c c' st' dflt f,
  stack_of c' st' -> same_offsets st' ->
  let st := st' ++ [(match st' with (o, _, _) :: _ => o | [] => dflt end, f, c)] in
  stack_of c st /\ same_offsets st.
Proof.
  intros c c' st' dflt f Hso Hsame. cbv zeta. split; [eapply SO_nest; exact Hso|].
  pose proof (stack_of_nonempty _ _ Hso) as Hne.
  destruct st' as [|[[o g] d] r]; [contradiction Hne; reflexivity|].
  intros e He. cbn [app hd fst]. cbn [app] in He. destruct He as [He|He].
  - subst e. reflexivity.
  - apply in_app_or in He. destruct He as [He|[He|[]]].
    + specialize (Hsame e (or_intror He)). cbn [hd fst] in Hsame. exact Hsame.
    + subst e. reflexivity.
Qed.

Section PackShape.
Variable host : bool.
Variable dl : dstate.
Variable rec : cid -> slots -> frs -> qres.
Hypothesis Hrec : forall c ps fr st, rec c ps fr = QFail st -> stack_of c st /\ same_offsets st.

Lemma pack_fields_shape : forall cf c fs s fr ipp st,
  pack_fields host dl rec cf c fs s fr ipp = QFail st -> stack_of c st /\ same_offsets st.
Proof.
  intros cf c fs s fr ipp st H. apply pack_fields_fail in H.
  destruct H as (fs1 & f & fs2 & s1 & fr1 & _ & _ & [(x & at_cur & _ & Hst)|(st' & Hf & Hst)]); subst st.
  - split; [apply SO_leaf|apply same_offsets_one].
  - apply pack_field_kfail in Hf. destruct Hf as (c' & ps & fr' & Hr). apply Hrec in Hr. destruct Hr as [H1 H2].
    exact (shape_nest c c' st' (cur fr1) (cf_name f) H1 H2).
Qed.

Lemma pack_blocks_shape : forall cf c bs s fr ipp st,
  pack_blocks host dl rec cf c bs s fr ipp = QFail st -> stack_of c st /\ same_offsets st.
Proof.
  intros cf c bs. induction bs as [|a bs IH]; intros s fr ipp st H; cbn [pack_blocks] in H; [discriminate H|].
  destruct a as [big ms|f].
  - destruct (struct_pack ms s) as [b|x].
    + destruct (append fr b) eqn:Ea.
      * eapply IH; exact H.
      * inversion H; subst. split; [apply SO_leaf|apply same_offsets_one].
      * inversion H; subst. split; [apply SO_leaf|apply same_offsets_one].
    + inversion H; subst. split; [apply SO_leaf|apply same_offsets_one].
  - destruct (pack_field host dl rec cf c f s fr ipp) eqn:E.
    + eapply IH; exact H.
    + inversion H; subst. split; [apply SO_leaf|apply same_offsets_one].
    + inversion H; subst. apply pack_field_kfail in E. destruct E as (c' & ps & fr' & Hr).
      apply Hrec in Hr. destruct Hr as [H1 H2].
      exact (shape_nest c c' st0 (cur fr) (cf_name f) H1 H2).
    + discriminate H.
Qed.
End PackShape.

Theorem pack_any_fail_shape : forall fuel host dl ct c s fr st,
  pack_any fuel host dl ct c s fr = QFail st -> stack_of c st /\ same_offsets st.
Proof.
  induction fuel as [|fuel IH]; intros host dl ct c s fr st H; cbn [pack_any] in H; [discriminate H|].
  destruct (ct_get ct c) as [k|]; [|discriminate H].
  destruct (cc_gen_pack k).
  - eapply pack_blocks_shape; [|exact H]. intros c' ps fr' st' Hr. eapply IH; exact Hr.
  - eapply pack_fields_shape; [|exact H]. intros c' ps fr' st' Hr. eapply IH; exact Hr.
Qed.

Print Assumptions unpack_fields_fail.
Print Assumptions unpack_field_ffail.
Print Assumptions unpack_blocks_fail.
Print Assumptions unpack_any_fail_shape.
Print Assumptions unpack_pkt_fail_shape.
Print Assumptions pack_fields_fail.
Print Assumptions pack_any_fail_shape.
