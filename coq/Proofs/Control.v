(* Proofs/Control.v -- the control structure of the parsing interpreter: repeated fields (count / until /
   when), optional fields and references do what the documentation says.
   Stdlib only, no axioms. *)
From Coq Require Import ZArith List Bool Lia.
From Bisturi Require Import Base.Bytes Kernel.IntCodec Kernel.Align Kernel.BitsK Kernel.DataK Kernel.Frag
  Model.Value Model.Decl Model.Unpack Model.Pack Model.Init Model.Codegen Model.Wf.
Import ListNotations. Open Scope Z_scope.

(* ------------------------------------------------------------------------------------------ *)
(* slots                                                                                      *)
(* ------------------------------------------------------------------------------------------ *)
Lemma fname_eqb_refl : forall f, fname_eqb f f = true.
Proof. intros f. destruct f; cbn [fname_eqb]; rewrite ?Z.eqb_refl; reflexivity. Qed.

Lemma fname_eqb_eq : forall a b, fname_eqb a b = true -> a = b.
Proof.
  intros a b H. destruct a, b; cbn [fname_eqb] in H; try discriminate H.
  - apply Z.eqb_eq in H. subst. reflexivity.
  - apply Z.eqb_eq in H. subst. reflexivity.
  - apply Z.eqb_eq in H. subst. reflexivity.
  - apply Z.eqb_eq in H. subst. reflexivity.
  - apply Z.eqb_eq in H. subst. reflexivity.
  - apply andb_true_iff in H. destruct H as [H1 H2]. apply Z.eqb_eq in H1. apply Z.eqb_eq in H2. subst. reflexivity.
Qed.

Lemma slot_get_set_same : forall s f v, slot_get (slot_set s f v) f = Some v.
Proof.
  induction s as [|[g w] r IH]; intros f v; cbn [slot_set slot_get].
  - rewrite fname_eqb_refl. reflexivity.
  - destruct (fname_eqb f g) eqn:E; cbn [slot_get]; rewrite E; [reflexivity|apply IH].
Qed.

Lemma slot_get_set_other : forall s f g v, fname_eqb g f = false -> slot_get (slot_set s f v) g = slot_get s g.
Proof.
  induction s as [|[h w] r IH]; intros f g v Hgf; cbn [slot_set slot_get].
  - rewrite Hgf. reflexivity.
  - destruct (fname_eqb f h) eqn:E; cbn [slot_get].
    + apply fname_eqb_eq in E. subst h. rewrite Hgf. reflexivity.
    + rewrite IH by exact Hgf. reflexivity.
Qed.

Section CtlLemmas.
Variable host : bool. Variable raw : bytes. Variable rec : cid -> Z -> pres.

(* one element only writes the slot it is told to write *)
Lemma unpack_elem_slots : forall cf c name e s off s1 o1 t1,
  unpack_elem host raw rec cf c name e s off = FOk s1 o1 t1 -> exists v, s1 = slot_set s name v.
Proof.
  intros cf c name e s off s1 o1 t1 H.
  destruct e as [l|c' proto|sel dflt]; cbn [unpack_elem] in H.
  - destruct (unpack_leaf host raw cf c name l s off) as [[[v o'] t]|x]; [|discriminate H].
    inversion H; subst. eauto.
  - destruct (rec c' off); try discriminate H. inversion H; subst. eauto.
  - destruct (eval (mkctx raw s off) sel) as [v|x]; [|discriminate H].
    destruct v as [z|b|b| |l|l|ks vs|c0 ps0|c0 kw|l]; try discriminate H.
    + destruct (rec c0 off); try discriminate H. inversion H; subst. eauto.
    + destruct (rec c0 off); try discriminate H. inversion H; subst. eauto.
    + destruct (unpack_leaf host raw empty_conf c name l s off) as [[[v o'] t]|x]; [|discriminate H].
      inversion H; subst. eauto.
Qed.

(* k successful elements append k values to the list held by the field *)
Lemma unpack_count_len : forall cf c i e al k s off t s' o' t' l0,
  slot_get s (FN i) = Some (VList l0) ->
  unpack_count host raw rec cf c i e al k s off t = FOk s' o' t' ->
  exists l', slot_get s' (FN i) = Some (VList (l0 ++ l')) /\ length l' = k.
Proof.
  intros cf c i e al k. induction k as [|k IH]; intros s off t s' o' t' l0 Hs H; cbn [unpack_count] in H.
  - inversion H; subst. exists []. rewrite app_nil_r. split; [exact Hs|reflexivity].
  - destruct (seq_align al off) as [o1|]; [|discriminate H].
    destruct (unpack_elem host raw rec cf c (FSeqElem i) e s o1) eqn:E; try discriminate H.
    apply unpack_elem_slots in E. destruct E as (v & Es).
    assert (Hs1 : slot_get s0 (FN i) = Some (VList l0)).
    { subst s0. rewrite slot_get_set_other by reflexivity. exact Hs. }
    apply IH with (l0 := l0 ++ [elem_value s0 (FSeqElem i)]) in H.
    + destruct H as (l' & Hl & Hlen). exists (elem_value s0 (FSeqElem i) :: l'). split.
      * rewrite Hl. rewrite <- app_assoc. reflexivity.
      * cbn [length]. rewrite Hlen. reflexivity.
    + unfold append_to. rewrite Hs1. apply slot_get_set_same.
Qed.
End CtlLemmas.

Section Ctl.
Variable host : bool. Variable raw : bytes. Variable rec : cid -> Z -> pres. Variable lf : nat.
Let UF := unpack_field host raw rec lf.
Let UE := unpack_elem host raw rec.

(* a false when-condition (or a non-positive count with a when-condition): empty list, nothing consumed *)
Theorem seq_skipped : forall cf c i e count until w d al s off ipp n,
  (match count with Some ce => eval_int (mkctx raw (slot_set s (FN i) (VList [])) off) ce | None => Ok 1 end) = Ok n ->
  (n <= 0 \/ exists v, eval (mkctx raw (slot_set s (FN i) (VList [])) off) w = Ok v /\ truth v = false) ->
  UF cf c (CSeq i e count until (Some w) d al) s off ipp = FOk (slot_set s (FN i) (VList [])) off [].
Proof.
  intros cf c i e count until w d al s off ipp n Hn Hc. unfold UF. cbn [unpack_field]. rewrite Hn.
  destruct Hc as [Hle|(v & Hv & Ht)].
  - apply Z.leb_le in Hle. rewrite Hle. reflexivity.
  - destruct (n <=? 0); [reflexivity|]. rewrite Hv, Ht. reflexivity.
Qed.

(* a count: exactly max(count, 0) elements *)
Theorem seq_count_length : forall cf c i e ce w d al s off ipp s' o' t n,
  UF cf c (CSeq i e (Some ce) None w d al) s off ipp = FOk s' o' t ->
  eval_int (mkctx raw (slot_set s (FN i) (VList [])) off) ce = Ok n ->
  (match w with None => True | Some we => 0 < n /\ exists v, eval (mkctx raw (slot_set s (FN i) (VList [])) off) we = Ok v /\ truth v = true end) ->
  exists l, slot_get s' (FN i) = Some (VList l) /\ length l = Z.to_nat n.
Proof.
  intros cf c i e ce w d al s off ipp s' o' t n H Hn Hw. unfold UF in H. cbn [unpack_field] in H. rewrite Hn in H.
  assert (Hskip : match w with
                  | None => Ok false
                  | Some w0 => if n <=? 0 then Ok true
                               else match eval (mkctx raw (slot_set s (FN i) (VList [])) off) w0 with
                                    | Ok v => Ok (negb (truth v)) | Exn x => Exn x end
                  end = Ok false).
  { destruct w as [we|]; [|reflexivity]. destruct Hw as (Hpos & v & Hv & Ht).
    apply Z.leb_gt in Hpos. rewrite Hpos, Hv, Ht. reflexivity. }
  rewrite Hskip in H.
  destruct (unpack_count host raw rec cf c i e al (Z.to_nat n) (slot_set s (FN i) (VList [])) off []) eqn:Ec;
    try discriminate H.
  inversion H; subst.
  eapply unpack_count_len with (l0 := []) in Ec; [|apply slot_get_set_same].
  destruct Ec as (l' & Hl & Hlen). exists l'. split; [exact Hl|exact Hlen].
Qed.

(* until: the loop stops exactly when the condition, evaluated on the list built so far, is true *)
Theorem until_final : forall fuel cf c i e al u s off t s' o' t',
  unpack_until host raw rec fuel cf c i e al u s off t = FOk s' o' t' ->
  exists v, eval (mkctx raw s' o') u = Ok v /\ truth v = true.
Proof.
  induction fuel as [|fuel IH]; intros cf c i e al u s off t s' o' t' H; cbn [unpack_until] in H.
  - destruct (eval (mkctx raw s off) u) as [v|x] eqn:Ev; [|discriminate H].
    destruct (truth v) eqn:Et; [|discriminate H]. inversion H; subst. exists v. split; [exact Ev|exact Et].
  - destruct (eval (mkctx raw s off) u) as [v|x] eqn:Ev; [|discriminate H].
    destruct (truth v) eqn:Et.
    + inversion H; subst. exists v. split; [exact Ev|exact Et].
    + destruct (seq_align al off) as [o1|]; [|discriminate H].
      destruct (unpack_elem host raw rec cf c (FSeqElem i) e s o1); try discriminate H.
      eapply IH; exact H.
Qed.

Theorem until_stops_at_once : forall fuel cf c i e al u s off t v,
  eval (mkctx raw s off) u = Ok v -> truth v = true ->
  unpack_until host raw rec fuel cf c i e al u s off t = FOk s off t.
Proof.
  intros fuel cf c i e al u s off t v Hv Ht. destruct fuel; cbn [unpack_until]; rewrite Hv, Ht; reflexivity.
Qed.

Theorem until_one_more : forall fuel cf c i e al u s off t v o1,
  eval (mkctx raw s off) u = Ok v -> truth v = false -> seq_align al off = Some o1 ->
  unpack_until host raw rec (S fuel) cf c i e al u s off t =
  match UE cf c (FSeqElem i) e s o1 with
  | FOk s1 o2 t1 => unpack_until host raw rec fuel cf c i e al u (append_to s1 (FN i) (elem_value s1 (FSeqElem i))) o2 (t ++ t1)
  | r => r
  end.
Proof.
  intros fuel cf c i e al u s off t v o1 Hv Ht Ha. unfold UE. cbn [unpack_until]. rewrite Hv, Ht, Ha. reflexivity.
Qed.

(* optional: parsed iff the condition is true; otherwise None, nothing consumed *)
Theorem opt_absent : forall cf c i e w d s off ipp v,
  eval (mkctx raw s off) w = Ok v -> truth v = false ->
  UF cf c (COpt i e w d) s off ipp = FOk (slot_set s (FN i) VNone) off [].
Proof.
  intros cf c i e w d s off ipp v Hv Ht. unfold UF. cbn [unpack_field]. rewrite Hv, Ht. reflexivity.
Qed.

Theorem opt_present : forall cf c i e w d s off ipp v,
  eval (mkctx raw s off) w = Ok v -> truth v = true ->
  UF cf c (COpt i e w d) s off ipp =
  match UE cf c (FOptElem i) e s off with
  | FOk s1 o1 t1 => FOk (slot_set s1 (FN i) (elem_value s1 (FOptElem i))) o1 t1
  | r => r
  end.
Proof.
  intros cf c i e w d s off ipp v Hv Ht. unfold UF, UE. cbn [unpack_field]. rewrite Hv, Ht. reflexivity.
Qed.

(* a reference parses the nested packet at the current cursor and continues right after it *)
Theorem ref_spec : forall cf c name c' proto s off,
  UE cf c name (ERefPkt c' proto) s off =
  match rec c' off with POk v o' t => FOk (slot_set s name v) o' t | PFail st => FFail st | PFuel => FFuel end.
Proof. intros. reflexivity. Qed.
(* a count that is not positive, no when-condition and no until-condition: the empty list, nothing consumed, nothing read *)
Theorem seq_count_nonpositive : forall cf c i e ce d al s off ipp n,
  eval_int (mkctx raw (slot_set s (FN i) (VList [])) off) ce = Ok n ->
  n <= 0 ->
  UF cf c (CSeq i e (Some ce) None None d al) s off ipp = FOk (slot_set s (FN i) (VList [])) off [].
Proof.
  intros cf c i e ce d al s off ipp n Hn Hle. unfold UF. cbn [unpack_field]. rewrite Hn.
  replace (Z.to_nat n) with O by (destruct n; [reflexivity | exfalso; apply Hle; reflexivity | reflexivity]).
  reflexivity.
Qed.

End Ctl.

(* an absent optional emits nothing when serializing *)
Theorem opt_pack_none : forall host dl rec cf c i e w d s fr ipp,
  slot_get s (FN i) = Some VNone -> pack_field host dl rec cf c (COpt i e w d) s fr ipp = KOk s fr.
Proof.
  intros host dl rec cf c i e w d s fr ipp H. cbn [pack_field]. rewrite H. reflexivity.
Qed.

Print Assumptions seq_skipped.
Print Assumptions seq_count_nonpositive.
Print Assumptions seq_count_length.
Print Assumptions until_final.
Print Assumptions until_stops_at_once.
Print Assumptions until_one_more.
Print Assumptions opt_absent.
Print Assumptions opt_present.
Print Assumptions ref_spec.
Print Assumptions opt_pack_none.
