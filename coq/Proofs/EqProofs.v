(* Proofs/EqProofs.v -- Packet.__eq__ / __ne__ / __repr__ (C20): packet comparison is a total boolean
   function, != is the negation of ==, equality is exactly "same class and every listed attribute unset on
   both sides or equal", hence reflexive on parsed / constructed values and discriminating on any changed
   field; __repr__ lists only attributes that hold a value.
   Stdlib only, no axioms. *)
From Coq Require Import ZArith List Bool Lia.
From Bisturi Require Import Base.Bytes Kernel.IntCodec Kernel.Align Kernel.BitsK Kernel.DataK
  Model.Value Model.Decl Model.Init.
Import ListNotations. Open Scope Z_scope.

(* values a parse or a constructor produces: integers, bytes, None, lists, packets of classes of the table *)
Fixpoint plain (fuel : nat) (ct : ctab) (v : value) {struct fuel} : bool :=
  match fuel with
  | O => false
  | S f =>
      match v with
      | VInt _ | VBool _ | VBytes _ | VNone => true
      | VList l => forallb (plain f ct) l
      | VPkt c s => match ct_get ct c with Some _ => forallb (fun p => plain f ct (snd p)) s | None => false end
      | _ => false
      end
  end.

Theorem pkt_neb_is_negb : forall fuel ct a b, pkt_neb fuel ct a b = negb (pkt_eqb fuel ct a b).
Proof. reflexivity. Qed.

(* ------------------------------------------------------------------------------------------ *)
(* auxiliary                                                                                  *)
(* ------------------------------------------------------------------------------------------ *)

Lemma slot_get_in : forall s f x, slot_get s f = Some x -> exists f', In (f', x) s.
Proof.
  induction s as [|[g w] r IH]; intros f x H; cbn [slot_get] in H; [discriminate|].
  destruct (fname_eqb f g).
  - inversion H. subst. exists g. left. reflexivity.
  - destruct (IH _ _ H) as [f' Hf]. exists f'. right. exact Hf.
Qed.

Lemma forallb_combine_diag {A : Type} : forall (p : A -> A -> bool) (l : list A),
  (forall a, In a l -> p a a = true) -> forallb (fun q => p (fst q) (snd q)) (combine l l) = true.
Proof.
  intros p l. induction l as [|a l IH]; intros H; cbn [combine forallb fst snd]; [reflexivity|].
  rewrite H by (left; reflexivity). apply IH. intros b Hb. apply H. right. exact Hb.
Qed.

Lemma value_eqb_bytes_refl : forall b, value_eqb (VBytes b) (VBytes b) = true.
Proof.
  intros b. cbn [value_eqb]. rewrite Z.eqb_refl. cbn [andb].
  apply (forallb_combine_diag Z.eqb). intros a _. apply Z.eqb_refl.
Qed.

(* ------------------------------------------------------------------------------------------ *)
(* the structural characterisation                                                            *)
(* ------------------------------------------------------------------------------------------ *)

(* structural: equal exactly when same class and every listed attribute is unset on both sides or equal *)
Theorem pkt_eqb_structural : forall fuel ct c1 s1 c2 s2,
  pkt_eqb (S fuel) ct (VPkt c1 s1) (VPkt c2 s2) = true <->
  c1 = c2 /\ exists k, ct_get ct c1 = Some k /\
    forall f, In f (field_names k) ->
      match slot_get s1 f, slot_get s2 f with
      | None, None => True
      | Some x, Some y => pkt_eqb fuel ct x y = true
      | _, _ => False
      end.
Proof.
  intros fuel ct c1 s1 c2 s2. cbn [pkt_eqb]. split.
  - intros H. apply andb_true_iff in H. destruct H as [Hc H]. apply Z.eqb_eq in Hc.
    split; [exact Hc|]. destruct (ct_get ct c1) as [k|]; [|discriminate].
    exists k. split; [reflexivity|]. intros f Hf.
    rewrite forallb_forall in H. specialize (H f Hf).
    destruct (slot_get s1 f), (slot_get s2 f); try exact H; try discriminate; exact I.
  - intros [Hc [k [Hk H]]]. apply andb_true_iff. split; [apply Z.eqb_eq; exact Hc|].
    rewrite Hk. apply forallb_forall. intros f Hf. specialize (H f Hf).
    destruct (slot_get s1 f), (slot_get s2 f); try exact H; try contradiction; reflexivity.
Qed.

(* reflexive on plain values: in particular two parses of the same bytes compare equal *)
Theorem pkt_eqb_refl : forall fuel ct v, plain fuel ct v = true -> pkt_eqb fuel ct v v = true.
Proof.
  induction fuel as [|fuel IH]; intros ct v H; [discriminate|].
  destruct v as [z|b|b| |l|l|ks vs|c s|c kw|lf]; cbn [plain] in H; try discriminate.
  - cbn. apply Z.eqb_refl.
  - cbn. apply Z.eqb_refl.
  - cbn [pkt_eqb]. apply value_eqb_bytes_refl.
  - reflexivity.
  - cbn [pkt_eqb]. rewrite Z.eqb_refl. cbn [andb].
    apply (forallb_combine_diag (pkt_eqb fuel ct)). intros a Ha. apply IH.
    rewrite forallb_forall in H. apply H. exact Ha.
  - apply pkt_eqb_structural. split; [reflexivity|].
    destruct (ct_get ct c) as [k|]; [|discriminate]. exists k. split; [reflexivity|].
    intros f _. destruct (slot_get s f) as [x|] eqn:Ex; [|exact I].
    apply IH. destruct (slot_get_in _ _ _ Ex) as [f' Hin].
    rewrite forallb_forall in H. exact (H _ Hin).
Qed.

Theorem pkt_eqb_other_class : forall fuel ct c1 s1 c2 s2,
  c1 <> c2 -> pkt_eqb fuel ct (VPkt c1 s1) (VPkt c2 s2) = false.
Proof.
  intros fuel ct c1 s1 c2 s2 H. destruct fuel as [|fuel]; [reflexivity|].
  cbn [pkt_eqb]. apply Z.eqb_neq in H. rewrite H. reflexivity.
Qed.

Theorem pkt_eqb_not_packet : forall fuel ct c s v,
  (forall c' s', v <> VPkt c' s') -> pkt_eqb (S fuel) ct (VPkt c s) v = false.
Proof.
  intros fuel ct c s v H. destruct v; try reflexivity. exfalso. exact (H _ _ eq_refl).
Qed.

(* changing one listed field to a different value makes the packets unequal *)
Theorem pkt_eqb_field_changed : forall fuel ct c s1 s2 k f x y,
  ct_get ct c = Some k -> In f (field_names k) -> slot_get s1 f = Some x -> slot_get s2 f = Some y ->
  pkt_eqb fuel ct x y = false -> pkt_eqb (S fuel) ct (VPkt c s1) (VPkt c s2) = false.
Proof.
  intros fuel ct c s1 s2 k f x y Hk Hf H1 H2 Hxy.
  destruct (pkt_eqb (S fuel) ct (VPkt c s1) (VPkt c s2)) eqn:E; [|reflexivity].
  apply pkt_eqb_structural in E. destruct E as [_ [k' [Hk' H]]].
  rewrite Hk in Hk'. inversion Hk'. subst k'.
  specialize (H f Hf). rewrite H1, H2, Hxy in H. discriminate.
Qed.

(* __repr__ prints exactly the listed attributes that hold a value: it never touches an unset one *)
Theorem repr_names_set : forall ct v f,
  In f (repr_names ct v) -> exists c s x, v = VPkt c s /\ slot_get s f = Some x.
Proof.
  intros ct v f H. destruct v as [z|b|b| |l|l|ks vs|c s|c kw|lf]; cbn [repr_names] in H; try destruct H.
  destruct (ct_get ct c) as [k|]; [|destruct H].
  apply filter_In in H. destruct H as [_ H].
  destruct (slot_get s f) as [x|] eqn:Ex; [|discriminate].
  exists c, s, x. split; [reflexivity|exact Ex].
Qed.

Print Assumptions pkt_neb_is_negb.
Print Assumptions pkt_eqb_refl.
Print Assumptions pkt_eqb_structural.
Print Assumptions pkt_eqb_other_class.
Print Assumptions pkt_eqb_not_packet.
Print Assumptions pkt_eqb_field_changed.
Print Assumptions repr_names_set.
