(* Proofs/DescProofs.v -- the descriptor state machine of Kernel/Desc.v (Auto / AutoLength: hidden real
   slot + enabled flag) refines its abstract specification (tracked value + optional explicit value):
   every read and every serialized integer of every history agree.  Stdlib only, no axioms. *)
From Coq Require Import ZArith List Bool Lia.
From Bisturi Require Import Kernel.Desc.
Import ListNotations.
Open Scope Z_scope.

Section DescProofs.
Variable T : Type.
Variable compute : T -> Z.

(* refinement relation: same tracked value; an explicit value exists exactly when the flag slot holds
   False, and then it is the content of the real slot.  The real slot is unconstrained otherwise
   (it holds a default, a parsed integer or the last synced reading). *)
Definition Rd (s : cstate T) (a : astate T) : Prop :=
  tracked T s = a_tracked T a /\
  a_explicit T a = (match enabled T s with Some false => Some (real T s) | _ => None end).

Lemma c_get_cases (s : cstate T) :
  c_get T compute s =
  match enabled T s with Some false => real T s | _ => compute (tracked T s) end.
Proof. unfold c_get. destruct (enabled T s) as [[|]|]; reflexivity. Qed.

Theorem rd_get : forall s a, Rd s a -> c_get T compute s = a_get T compute a.
Proof.
  intros s a [Ht He]. rewrite c_get_cases. unfold a_get. rewrite He, <- Ht.
  destruct (enabled T s) as [[|]|]; reflexivity.
Qed.

Theorem rd_construct : forall t0 d kw,
  Rd (c_construct T t0 d kw) {| a_tracked := t0; a_explicit := kw |}.
Proof. intros t0 d [v|]; split; reflexivity. Qed.

Theorem rd_unpack : forall t p, Rd (c_unpack T t p) {| a_tracked := t; a_explicit := None |}.
Proof. intros t p; split; reflexivity. Qed.

Theorem rd_step : forall s a o, Rd s a ->
  Rd (fst (c_step T compute s o)) (fst (a_step T compute a o)) /\
  snd (c_step T compute s o) = snd (a_step T compute a o).
Proof.
  intros s a o HR. pose proof (rd_get s a HR) as Hg. destruct HR as [Ht He].
  destruct o as [t|v| | |t0 d kw|t p]; cbn [c_step a_step c_pack fst snd].
  - (* DSetTracked *) split; [|reflexivity]. split; [reflexivity|exact He].
  - (* DSet *) split; [|reflexivity]. split; [exact Ht|reflexivity].
  - (* DDel *) split; [|reflexivity]. split; [exact Ht|reflexivity].
  - (* DPack *) split.
    + split; [exact Ht|]. cbn [c_sync enabled real]. rewrite He.
      destruct (enabled T s) as [[|]|] eqn:E; try reflexivity.
      rewrite c_get_cases, E. reflexivity.
    + cbn [c_sync real]. rewrite Hg. reflexivity.
  - (* DConstruct *) split; [apply rd_construct|reflexivity].
  - (* DUnpack *) split; [apply rd_unpack|reflexivity].
Qed.

Theorem desc_refines : forall ops s a, Rd s a -> c_run T compute s ops = a_run T compute a ops.
Proof.
  induction ops as [|o r IH]; intros s a HR; [reflexivity|].
  cbn [c_run a_run]. destruct (rd_step s a o HR) as [HR' Hw].
  destruct (c_step T compute s o) as [s' w]. destruct (a_step T compute a o) as [a' w'].
  cbn [fst snd] in HR', Hw. subst w'.
  rewrite (rd_get s' a' HR'), (IH s' a' HR'). reflexivity.
Qed.

Theorem pack_serializes_read : forall s,
  snd (c_pack T compute s) = c_get T compute s /\
  c_get T compute (fst (c_pack T compute s)) = c_get T compute s.
Proof.
  intros s. cbn [c_pack fst snd c_sync real]. split; [reflexivity|].
  rewrite (c_get_cases (c_sync T compute s)). cbn [c_sync enabled real tracked].
  rewrite c_get_cases. destruct (enabled T s) as [[|]|]; reflexivity.
Qed.

Theorem pack_idempotent : forall s,
  c_pack T compute (fst (c_pack T compute s)) = (fst (c_pack T compute s), snd (c_pack T compute s)).
Proof.
  intros s. destruct (pack_serializes_read s) as [_ H2].
  cbn [c_pack fst snd] in *.
  assert (c_sync T compute (c_sync T compute s) = c_sync T compute s) as E.
  { unfold c_sync at 1. rewrite H2. reflexivity. }
  unfold c_pack at 1. cbv zeta. rewrite E. reflexivity.
Qed.

Theorem a_read_after_set : forall a v, a_get T compute (fst (a_step T compute a (DSet T v))) = v.
Proof. reflexivity. Qed.

Theorem a_read_after_del : forall a,
  a_get T compute (fst (a_step T compute a (DDel T))) = compute (a_tracked T a).
Proof. reflexivity. Qed.

Theorem a_read_tracks : forall a t, a_explicit T a = None ->
  a_get T compute (fst (a_step T compute a (DSetTracked T t))) = compute t.
Proof. intros a t H. cbn [a_step fst]. unfold a_get. cbn [a_explicit a_tracked]. rewrite H. reflexivity. Qed.

End DescProofs.

Print Assumptions rd_get.
Print Assumptions rd_step.
Print Assumptions desc_refines.
Print Assumptions rd_construct.
Print Assumptions rd_unpack.
Print Assumptions pack_serializes_read.
Print Assumptions pack_idempotent.
Print Assumptions a_read_after_set.
Print Assumptions a_read_after_del.
Print Assumptions a_read_tracks.

(* AutoLength over a list: construct with a default, read, grow the tracked list, pack, set explicitly,
   pack again (the explicit value goes on the wire), delete (back to len), pack. *)
Definition len_of (l : list Z) : Z := Z.of_nat (length l).
Definition history : list (dop (list Z)) :=
  [ DSetTracked _ [7;8;9]; DPack _; DSet _ 42; DPack _; DDel _; DPack _ ].

Example history_concrete :
  c_run (list Z) len_of (c_construct (list Z) [1] 0 None) history =
  [ (3, None); (3, Some 3); (42, None); (42, Some 42); (3, None); (3, Some 3) ].
Proof. vm_compute. reflexivity. Qed.

Example history_abstract :
  a_run (list Z) len_of {| a_tracked := [1]; a_explicit := None |} history =
  c_run (list Z) len_of (c_construct (list Z) [1] 0 None) history.
Proof. vm_compute. reflexivity. Qed.

(* a parsed packet: the wire integer (5) is NOT what the attribute reads as (len = 2): the read is
   the computed value until something is assigned; pack then overwrites the parsed integer. *)
Example history_unpack :
  c_run (list Z) len_of (c_unpack (list Z) [1;2] 5) [DPack _; DSet _ 5; DPack _; DUnpack _ [4] 9; DPack _; DDel _] =
  [ (2, Some 2); (5, None); (5, Some 5); (1, None); (1, Some 1); (1, None) ].
Proof. vm_compute. reflexivity. Qed.
