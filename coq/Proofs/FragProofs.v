(* Proofs/FragProofs.v -- invariant, functional correctness and refinement theorems for the model
   of bisturi/fragments.py in Kernel/Frag.v.  Stdlib only, no axioms. *)
From Coq Require Import ZArith List Bool Lia.
From Bisturi Require Import Base.Bytes Kernel.Frag.
Import ListNotations.
Open Scope Z_scope.

(* ------------------------------------------------------------------------------------------ *)
(** * Invariant                                                                                *)
(* ------------------------------------------------------------------------------------------ *)

Definition keys (d : list (Z * bytes)) : list Z := map fst d.
Fixpoint sorted_strict (l : list Z) : Prop :=
  match l with
  | [] => True
  | a :: r => (match r with [] => True | b :: _ => a < b end) /\ sorted_strict r
  end.
Definition nonempty_keys (d : list (Z * bytes)) : list Z :=
  map fst (filter (fun kv => negb (blen (snd kv) =? 0)) d).
Definition sep (d : list (Z * bytes)) : Prop :=
  forall o1 s1 o2 s2, In (o1, s1) d -> In (o2, s2) d -> o1 < o2 -> s1 <> [] -> s2 <> [] ->
                      o1 + blen s1 <= o2.
Definition Inv (s : frs) : Prop :=
  sorted_strict (keys (frags s)) /\ sep (frags s) /\ begins s = nonempty_keys (frags s).
Definition NonNeg (s : frs) : Prop := forall k, In k (keys (frags s)) -> 0 <= k.

(* ------------------------------------------------------------------------------------------ *)
(** * Bytes                                                                                    *)
(* ------------------------------------------------------------------------------------------ *)

Lemma blen_nil : blen [] = 0.
Proof. reflexivity. Qed.
Lemma blen_cons (x : Z) (b : bytes) : blen (x :: b) = 1 + blen b.
Proof. unfold blen. cbn [length]. lia. Qed.
Lemma blen_nonneg (b : bytes) : 0 <= blen b.
Proof. unfold blen. lia. Qed.
Lemma blen_pos (b : bytes) : b <> [] -> 0 < blen b.
Proof.
  destruct b as [|x b]; [congruence|]. intros _. rewrite blen_cons.
  pose proof (blen_nonneg b). lia.
Qed.
Lemma blen_zero (b : bytes) : blen b = 0 -> b = [].
Proof.
  destruct b as [|x b]; [reflexivity|]. rewrite blen_cons.
  pose proof (blen_nonneg b). lia.
Qed.
Lemma nonempty_test (v : bytes) : negb (blen v =? 0) = true <-> v <> [].
Proof.
  destruct (Z.eqb_spec (blen v) 0) as [E|E]; cbn [negb]; split; intros H.
  - discriminate.
  - apply blen_zero in E. contradiction.
  - intros ->. apply E. reflexivity.
  - reflexivity.
Qed.

(* ------------------------------------------------------------------------------------------ *)
(** * Strictly sorted lists                                                                    *)
(* ------------------------------------------------------------------------------------------ *)

Lemma sorted_cons_iff (a : Z) (r : list Z) :
  sorted_strict (a :: r) <-> (forall y, In y r -> a < y) /\ sorted_strict r.
Proof.
  revert a. induction r as [|b r IH]; intros a.
  - split.
    + intros [_ H]. split; [intros y []|exact H].
    + intros [_ H]. split; [exact I|exact H].
  - split.
    + intros [Hab Hr]. assert (Hab' : a < b) by exact Hab.
      split; [|exact Hr]. intros y [<-|Hy]; [exact Hab'|].
      apply IH in Hr. destruct Hr as [Hb _]. specialize (Hb y Hy). lia.
    + intros [Hall Hr]. split; [apply Hall; left; reflexivity|exact Hr].
Qed.

Lemma sorted_nil : sorted_strict [].
Proof. exact I. Qed.

Lemma sorted_app (l1 l2 : list Z) :
  sorted_strict (l1 ++ l2) <->
  sorted_strict l1 /\ sorted_strict l2 /\ (forall x y, In x l1 -> In y l2 -> x < y).
Proof.
  induction l1 as [|a l1 IH].
  - cbn [app]. split.
    + intros H. split; [exact I|]. split; [exact H|]. intros x y [].
    + intros [_ [H _]]. exact H.
  - rewrite <- app_comm_cons. rewrite !sorted_cons_iff. rewrite IH. split.
    + intros [Ha [H1 [H2 H12]]]. split; [split|split].
      * intros y Hy. apply Ha. apply in_or_app. left. exact Hy.
      * exact H1.
      * exact H2.
      * intros x y [<-|Hx] Hy.
        -- apply Ha. apply in_or_app. right. exact Hy.
        -- apply H12; assumption.
    + intros [[Ha H1] [H2 H12]]. split; [|split; [|split]].
      * intros y Hy. apply in_app_or in Hy. destruct Hy as [Hy|Hy].
        -- apply Ha. exact Hy.
        -- apply H12; [left; reflexivity|exact Hy].
      * exact H1.
      * exact H2.
      * intros x y Hx Hy. apply H12; [right; exact Hx|exact Hy].
Qed.

Lemma sorted_ext (l1 : list Z) : forall l2,
  sorted_strict l1 -> sorted_strict l2 -> (forall x, In x l1 <-> In x l2) -> l1 = l2.
Proof.
  induction l1 as [|a l1 IH]; intros [|b l2] H1 H2 Hx.
  - reflexivity.
  - exfalso. destruct (proj2 (Hx b) (or_introl eq_refl)).
  - exfalso. destruct (proj1 (Hx a) (or_introl eq_refl)).
  - apply sorted_cons_iff in H1. apply sorted_cons_iff in H2.
    destruct H1 as [Ha H1]. destruct H2 as [Hb H2].
    assert (Eab : a = b).
    { destruct (proj1 (Hx a) (or_introl eq_refl)) as [E|E]; [symmetry; exact E|].
      destruct (proj2 (Hx b) (or_introl eq_refl)) as [E'|E']; [exact E'|].
      specialize (Ha _ E'). specialize (Hb _ E). lia. }
    subst b. f_equal. apply IH; [exact H1|exact H2|].
    intros x. split; intros Hin.
    + destruct (proj1 (Hx x) (or_intror Hin)) as [E|E]; [|exact E].
      subst x. specialize (Ha _ Hin). lia.
    + destruct (proj2 (Hx x) (or_intror Hin)) as [E|E]; [|exact E].
      subst x. specialize (Hb _ Hin). lia.
Qed.

Lemma rev_cases {A : Type} (l : list A) : l = [] \/ exists l' a, l = l' ++ [a].
Proof.
  induction l as [|a l _] using rev_ind; [left; reflexivity|right; eauto].
Qed.

(* ------------------------------------------------------------------------------------------ *)
(** * The dictionary                                                                           *)
(* ------------------------------------------------------------------------------------------ *)

Lemma keys_cons (k : Z) (v : bytes) (r : list (Z * bytes)) : keys ((k, v) :: r) = k :: keys r.
Proof. reflexivity. Qed.

Lemma in_keys (d : list (Z * bytes)) (k : Z) : In k (keys d) <-> exists v, In (k, v) d.
Proof.
  unfold keys. rewrite in_map_iff. split.
  - intros [[k' v] [E H]]. cbn [fst] in E. subst k'. exists v. exact H.
  - intros [v H]. exists (k, v). split; [reflexivity|exact H].
Qed.

Lemma key_lt (k' : Z) (v' : bytes) (r : list (Z * bytes)) (k : Z) (v : bytes) :
  sorted_strict (keys ((k', v') :: r)) -> In (k, v) r -> k' < k.
Proof.
  rewrite keys_cons, sorted_cons_iff. intros [H _] Hin. apply H. apply in_keys. eauto.
Qed.

Lemma sorted_keys_tail (x : Z * bytes) (r : list (Z * bytes)) :
  sorted_strict (keys (x :: r)) -> sorted_strict (keys r).
Proof. destruct x as [k v]. rewrite keys_cons, sorted_cons_iff. intros [_ H]. exact H. Qed.

Lemma dict_get_in (d : list (Z * bytes)) (k : Z) (v : bytes) :
  dict_get d k = Some v -> In (k, v) d.
Proof.
  induction d as [|[k' v'] r IH]; cbn [dict_get]; [discriminate|].
  destruct (Z.eqb_spec k k') as [E|E].
  - intros H. inversion H. subst. left. reflexivity.
  - intros H. right. apply IH. exact H.
Qed.

Lemma dict_get_sorted (d : list (Z * bytes)) (k : Z) (v : bytes) :
  sorted_strict (keys d) -> In (k, v) d -> dict_get d k = Some v.
Proof.
  induction d as [|[k' v'] r IH]; intros Hs Hin; [destruct Hin|].
  cbn [dict_get]. destruct Hin as [E|Hin].
  - inversion E. subst. rewrite Z.eqb_refl. reflexivity.
  - pose proof (key_lt _ _ _ _ _ Hs Hin) as Hlt.
    destruct (Z.eqb_spec k k') as [E|E]; [lia|].
    apply IH; [eapply sorted_keys_tail; exact Hs|exact Hin].
Qed.

Lemma dict_get_none (d : list (Z * bytes)) (k : Z) : dict_get d k = None -> ~ In k (keys d).
Proof.
  induction d as [|[k' v'] r IH]; cbn [dict_get]; intros H Hin; [destruct Hin|].
  destruct (Z.eqb_spec k k') as [E|E]; [discriminate|].
  rewrite keys_cons in Hin. destruct Hin as [E'|Hin]; [congruence|].
  apply IH; assumption.
Qed.

Lemma keys_dict_set_in (d : list (Z * bytes)) (p : Z) (b : bytes) (k : Z) :
  In k (keys (dict_set d p b)) -> k = p \/ In k (keys d).
Proof.
  induction d as [|[k' v'] r IH]; cbn [dict_set].
  - rewrite keys_cons. intros [E|[]]. left. symmetry. exact E.
  - destruct (Z.ltb_spec p k') as [Hlt|Hge].
    + rewrite keys_cons. intros [E|H]; [left; symmetry; exact E|right; exact H].
    + destruct (Z.eqb_spec p k') as [E|E].
      * rewrite !keys_cons. intros [E'|H]; [left; symmetry; exact E'|right; right; exact H].
      * rewrite !keys_cons. intros [E'|H]; [right; left; exact E'|].
        destruct (IH H) as [H'|H']; [left; exact H'|right; right; exact H'].
Qed.

Lemma sorted_dict_set (d : list (Z * bytes)) (p : Z) (b : bytes) :
  sorted_strict (keys d) -> sorted_strict (keys (dict_set d p b)).
Proof.
  induction d as [|[k' v'] r IH]; cbn [dict_set]; intros Hs.
  - rewrite keys_cons, sorted_cons_iff. split; [intros y []|exact I].
  - destruct (Z.ltb_spec p k') as [Hlt|Hge].
    + rewrite keys_cons, sorted_cons_iff. split; [|exact Hs].
      rewrite keys_cons. intros y [<-|Hy]; [exact Hlt|].
      rewrite keys_cons, sorted_cons_iff in Hs. destruct Hs as [Hall _].
      specialize (Hall y Hy). lia.
    + rewrite keys_cons, sorted_cons_iff in Hs. destruct Hs as [Hall Hs].
      destruct (Z.eqb_spec p k') as [E|E].
      * subst k'. rewrite keys_cons, sorted_cons_iff. split; assumption.
      * rewrite keys_cons, sorted_cons_iff. split; [|apply IH; exact Hs].
        intros y Hy. apply keys_dict_set_in in Hy. destruct Hy as [->|Hy]; [lia|].
        apply Hall. exact Hy.
Qed.

Lemma in_dict_set (d : list (Z * bytes)) (p : Z) (b : bytes) (k : Z) (v : bytes) :
  sorted_strict (keys d) ->
  (In (k, v) (dict_set d p b) <-> (k = p /\ v = b) \/ (k <> p /\ In (k, v) d)).
Proof.
  induction d as [|[k' v'] r IH]; cbn [dict_set]; intros Hs.
  - split.
    + intros [E|[]]. inversion E. left. split; reflexivity.
    + intros [[-> ->]|[_ []]]. left. reflexivity.
  - assert (Hr : forall v0, In (k, v0) r -> k' < k).
    { intros v0 H0. eapply key_lt; [exact Hs|exact H0]. }
    pose proof (sorted_keys_tail _ _ Hs) as Hs'.
    destruct (Z.ltb_spec p k') as [Hlt|Hge].
    + split.
      * intros [E|[E|H]].
        -- inversion E. left. split; reflexivity.
        -- inversion E. subst. right. split; [lia|left; reflexivity].
        -- right. specialize (Hr _ H). split; [lia|right; exact H].
      * intros [[-> ->]|[_ H]]; [left; reflexivity|right; exact H].
    + destruct (Z.eqb_spec p k') as [E|E].
      * subst k'. split.
        -- intros [E|H].
           ++ inversion E. left. split; reflexivity.
           ++ right. specialize (Hr _ H). split; [lia|right; exact H].
        -- intros [[-> ->]|[Hne [E|H]]].
           ++ left. reflexivity.
           ++ inversion E. congruence.
           ++ right. exact H.
      * split.
        -- intros [E'|H].
           ++ inversion E'. subst. right. split; [congruence|left; reflexivity].
           ++ apply (IH Hs') in H. destruct H as [H|[Hne H]]; [left; exact H|].
              right. split; [exact Hne|right; exact H].
        -- intros [H|[Hne [E'|H]]].
           ++ right. apply (IH Hs'). left. exact H.
           ++ left. exact E'.
           ++ right. apply (IH Hs'). right. split; assumption.
Qed.

Lemma in_nonempty_keys (d : list (Z * bytes)) (k : Z) :
  In k (nonempty_keys d) <-> exists v, In (k, v) d /\ v <> [].
Proof.
  unfold nonempty_keys. rewrite in_map_iff. split.
  - intros [[k' v] [E H]]. cbn [fst] in E. subst k'. apply filter_In in H.
    destruct H as [H1 H2]. cbn [snd] in H2. exists v. split; [exact H1|].
    apply nonempty_test. exact H2.
  - intros [v [H1 H2]]. exists (k, v). split; [reflexivity|]. apply filter_In.
    split; [exact H1|]. cbn [snd]. apply nonempty_test. exact H2.
Qed.

Lemma nonempty_keys_sub (d : list (Z * bytes)) (k : Z) : In k (nonempty_keys d) -> In k (keys d).
Proof.
  intros H. apply in_nonempty_keys in H. destruct H as [v [H _]]. apply in_keys. eauto.
Qed.

Lemma nonempty_keys_cons (k : Z) (v : bytes) (r : list (Z * bytes)) :
  nonempty_keys ((k, v) :: r) =
  if negb (blen v =? 0) then k :: nonempty_keys r else nonempty_keys r.
Proof.
  unfold nonempty_keys. cbn [filter snd]. destruct (negb (blen v =? 0)); reflexivity.
Qed.

Lemma sorted_nonempty_keys (d : list (Z * bytes)) :
  sorted_strict (keys d) -> sorted_strict (nonempty_keys d).
Proof.
  induction d as [|[k v] r IH]; intros Hs; [exact I|].
  rewrite keys_cons, sorted_cons_iff in Hs. destruct Hs as [Hall Hs].
  rewrite nonempty_keys_cons. destruct (negb (blen v =? 0)).
  - rewrite sorted_cons_iff. split; [|apply IH; exact Hs].
    intros y Hy. apply Hall. apply nonempty_keys_sub. exact Hy.
  - apply IH. exact Hs.
Qed.

Lemma sep_tail (x : Z * bytes) (r : list (Z * bytes)) : sep (x :: r) -> sep r.
Proof.
  intros H o1 s1 o2 s2 H1 H2. apply H; right; assumption.
Qed.

(* ------------------------------------------------------------------------------------------ *)
(** * cell and extent                                                                          *)
(* ------------------------------------------------------------------------------------------ *)

Lemma nth_error_in_range (v : bytes) (i : Z) :
  0 <= i < blen v -> exists x, nth_error v (Z.to_nat i) = Some x.
Proof.
  intros H. destruct (nth_error v (Z.to_nat i)) as [x|] eqn:E; [eauto|].
  apply nth_error_None in E. unfold blen in H. lia.
Qed.

Lemma cell_some_in (d : list (Z * bytes)) (q x : Z) :
  cell d q = Some x ->
  exists o v, In (o, v) d /\ o <= q < o + blen v /\ nth_error v (Z.to_nat (q - o)) = Some x.
Proof.
  induction d as [|[o v] r IH]; cbn [cell]; [discriminate|].
  destruct (Z.leb_spec o q) as [H1|H1]; cbn [andb].
  - destruct (Z.ltb_spec q (o + blen v)) as [H2|H2].
    + intros H. exists o, v. split; [left; reflexivity|]. split; [lia|exact H].
    + intros H. destruct (IH H) as (o' & v' & Hin & Hr & Hn). exists o', v'.
      split; [right; exact Hin|]. split; assumption.
  - intros H. destruct (IH H) as (o' & v' & Hin & Hr & Hn). exists o', v'.
    split; [right; exact Hin|]. split; assumption.
Qed.

Lemma cell_none (d : list (Z * bytes)) (q : Z) :
  cell d q = None <-> (forall o v, In (o, v) d -> ~ (o <= q < o + blen v)).
Proof.
  induction d as [|[o v] r IH]; cbn [cell].
  - split; [intros _ o v []|reflexivity].
  - destruct (Z.leb_spec o q) as [H1|H1]; cbn [andb];
      [destruct (Z.ltb_spec q (o + blen v)) as [H2|H2]|].
    + split.
      * intros H. exfalso. destruct (nth_error_in_range v (q - o)) as [x Hx]; [lia|]. congruence.
      * intros H. exfalso. apply (H o v); [left; reflexivity|lia].
    + rewrite IH. split.
      * intros H o' v' [E|Hin]; [inversion E; subst; lia|apply H; exact Hin].
      * intros H o' v' Hin. apply H. right. exact Hin.
    + rewrite IH. split.
      * intros H o' v' [E|Hin]; [inversion E; subst; lia|apply H; exact Hin].
      * intros H o' v' Hin. apply H. right. exact Hin.
Qed.

Lemma cell_in (d : list (Z * bytes)) (o : Z) (v : bytes) (q : Z) :
  sorted_strict (keys d) -> sep d -> In (o, v) d -> o <= q < o + blen v ->
  cell d q = nth_error v (Z.to_nat (q - o)).
Proof.
  induction d as [|[o' v'] r IH]; intros Hs Hsep Hin Hq; [destruct Hin|].
  cbn [cell].
  assert (Hv : v <> []). { intros ->. rewrite blen_nil in Hq. lia. }
  destruct Hin as [E|Hin].
  - inversion E. subst o' v'.
    destruct (Z.leb_spec o q) as [H1|H1]; [|lia].
    destruct (Z.ltb_spec q (o + blen v)) as [H2|H2]; [|lia]. reflexivity.
  - pose proof (key_lt _ _ _ _ _ Hs Hin) as Hlt.
    destruct (Z.leb_spec o' q) as [H1|H1]; cbn [andb];
      [destruct (Z.ltb_spec q (o' + blen v')) as [H2|H2]|].
    + exfalso. assert (Hv' : v' <> []). { intros ->. rewrite blen_nil in H2. lia. }
      pose proof (Hsep o' v' o v (or_introl eq_refl) (or_intror Hin) Hlt Hv' Hv). lia.
    + apply IH; [eapply sorted_keys_tail; exact Hs|eapply sep_tail; exact Hsep|exact Hin|exact Hq].
    + apply IH; [eapply sorted_keys_tail; exact Hs|eapply sep_tail; exact Hsep|exact Hin|exact Hq].
Qed.

Lemma cell_not_none_iff (d : list (Z * bytes)) (q : Z) :
  cell d q <> None <-> exists o v, In (o, v) d /\ o <= q < o + blen v.
Proof.
  split.
  - intros H. destruct (cell d q) as [x|] eqn:E; [|congruence].
    destruct (cell_some_in _ _ _ E) as (o & v & Hin & Hr & _). eauto.
  - intros (o & v & Hin & Hr) E. rewrite cell_none in E. apply (E o v Hin Hr).
Qed.

Lemma extent_nonneg (d : list (Z * bytes)) : 0 <= extent d.
Proof. induction d as [|[o v] r IH]; cbn [extent]; lia. Qed.

Lemma extent_in (d : list (Z * bytes)) (o : Z) (v : bytes) : In (o, v) d -> o + blen v <= extent d.
Proof.
  induction d as [|[o' v'] r IH]; intros Hin; [destruct Hin|]. cbn [extent].
  destruct Hin as [E|Hin]; [inversion E; subst; lia|]. specialize (IH Hin). lia.
Qed.

Lemma extent_dict_set (d : list (Z * bytes)) (p : Z) (b : bytes) :
  (forall v, dict_get d p = Some v -> blen v <= blen b) ->
  extent (dict_set d p b) = Z.max (extent d) (p + blen b).
Proof.
  induction d as [|[k' v'] r IH]; cbn [dict_set dict_get extent]; intros H.
  - lia.
  - destruct (Z.ltb_spec p k') as [Hlt|Hge]; [cbn [extent]; lia|].
    destruct (Z.eqb_spec p k') as [E|E].
    + subst k'. cbn [extent]. specialize (H v' eq_refl). lia.
    + cbn [extent]. rewrite (IH H). lia.
Qed.

(* ------------------------------------------------------------------------------------------ *)
(** * positions                                                                                *)
(* ------------------------------------------------------------------------------------------ *)

Lemma positions_0 (p : Z) : positions p 0 = [].
Proof. reflexivity. Qed.

Lemma positions_S (p : Z) (n : nat) : positions p (S n) = p :: positions (p + 1) n.
Proof.
  unfold positions. cbn [seq map]. f_equal; [lia|].
  rewrite <- seq_shift, map_map. apply map_ext. intros i. lia.
Qed.

Lemma positions_length (p : Z) (n : nat) : length (positions p n) = n.
Proof. unfold positions. rewrite map_length, seq_length. reflexivity. Qed.

Lemma positions_app (n : nat) : forall (p : Z) (m : nat),
  positions p (n + m) = positions p n ++ positions (p + Z.of_nat n) m.
Proof.
  induction n as [|n IH]; intros p m.
  - cbn [Nat.add]. rewrite positions_0. cbn [app]. f_equal. lia.
  - cbn [Nat.add]. rewrite !positions_S, IH. cbn [app]. do 3 f_equal. lia.
Qed.

Lemma in_positions (n : nat) : forall (p q : Z),
  In q (positions p n) <-> p <= q < p + Z.of_nat n.
Proof.
  induction n as [|n IH]; intros p q.
  - rewrite positions_0. cbn [In]. lia.
  - rewrite positions_S. cbn [In]. rewrite IH. lia.
Qed.

Lemma nth_error_positions (n : nat) : forall (p : Z) (i : nat),
  (i < n)%nat -> nth_error (positions p n) i = Some (p + Z.of_nat i).
Proof.
  induction n as [|n IH]; intros p i Hi; [lia|].
  rewrite positions_S. destruct i as [|i]; cbn [nth_error].
  - f_equal. lia.
  - rewrite IH by lia. f_equal. lia.
Qed.

Lemma map_const_repeat {A B : Type} (g : A -> B) (c : B) (l : list A) :
  (forall q, In q l -> g q = c) -> map g l = repeat c (length l).
Proof.
  induction l as [|a l IH]; intros H; [reflexivity|]. cbn [map length repeat].
  rewrite (H a (or_introl eq_refl)). f_equal. apply IH. intros q Hq. apply H. right. exact Hq.
Qed.

Lemma map_positions_eq (v : bytes) : forall (o : Z) (g : Z -> Z),
  (forall i x, nth_error v i = Some x -> g (o + Z.of_nat i) = x) ->
  map g (positions o (length v)) = v.
Proof.
  induction v as [|a v IH]; intros o g H; [reflexivity|].
  cbn [length]. rewrite positions_S. cbn [map]. f_equal.
  - specialize (H 0%nat a eq_refl). replace (o + Z.of_nat 0) with o in H by lia. exact H.
  - apply IH. intros i x Hi. specialize (H (S i) x Hi).
    replace (o + 1 + Z.of_nat i) with (o + Z.of_nat (S i)) by lia. exact H.
Qed.

(* ------------------------------------------------------------------------------------------ *)
(** * bisect_right, python indexing, list.insert                                               *)
(* ------------------------------------------------------------------------------------------ *)

Lemma bisect_split (l : list Z) (x : Z) :
  sorted_strict l ->
  exists l1 l2, l = l1 ++ l2 /\ bisect_right l x = Z.of_nat (length l1) /\
                (forall y, In y l1 -> y <= x) /\ (forall y, In y l2 -> x < y).
Proof.
  induction l as [|a l IH]; intros Hs.
  - exists [], []. split; [reflexivity|]. split; [reflexivity|]. split; intros y [].
  - cbn [bisect_right]. apply sorted_cons_iff in Hs. destruct Hs as [Ha Hs].
    destruct (Z.leb_spec a x) as [Hle|Hgt].
    + destruct (IH Hs) as (l1 & l2 & E & Hb & H1 & H2). exists (a :: l1), l2.
      split; [rewrite E; reflexivity|]. split; [rewrite Hb; cbn [length]; lia|].
      split; [|exact H2]. intros y [<-|Hy]; [exact Hle|apply H1; exact Hy].
    + exists [], (a :: l). split; [reflexivity|]. split; [reflexivity|].
      split; [intros y []|]. intros y [<-|Hy]; [exact Hgt|]. specialize (Ha y Hy). lia.
Qed.

Lemma py_nth_mid (l1 : list Z) (y : Z) (l2 : list Z) (i : Z) :
  i = Z.of_nat (length l1) -> py_nth (l1 ++ y :: l2) i = Some y.
Proof.
  intros ->. unfold py_nth. cbv zeta. rewrite app_length. cbn [length].
  destruct (Z.ltb_spec (Z.of_nat (length l1)) 0) as [H|H]; [lia|].
  destruct (Z.leb_spec 0 (Z.of_nat (length l1))) as [H0|H0]; [|lia].
  destruct (Z.ltb_spec (Z.of_nat (length l1)) (Z.of_nat (length l1 + S (length l2)))) as [H1|H1];
    [|lia].
  cbn [andb]. rewrite Nat2Z.id. rewrite nth_error_app2 by lia. rewrite Nat.sub_diag. reflexivity.
Qed.

Lemma py_nth_last (l1 : list Z) (y : Z) (i : Z) :
  i = -1 -> py_nth (l1 ++ [y]) i = Some y.
Proof.
  intros ->. unfold py_nth. cbv zeta. rewrite app_length. cbn [length].
  destruct (Z.ltb_spec (-1) 0) as [H|H]; [|lia].
  destruct (Z.leb_spec 0 (-1 + Z.of_nat (length l1 + 1))) as [H0|H0]; [|lia].
  destruct (Z.ltb_spec (-1 + Z.of_nat (length l1 + 1)) (Z.of_nat (length l1 + 1))) as [H1|H1];
    [|lia].
  cbn [andb]. replace (Z.to_nat (-1 + Z.of_nat (length l1 + 1))) with (length l1) by lia.
  rewrite nth_error_app2 by lia. rewrite Nat.sub_diag. reflexivity.
Qed.

Lemma list_insert_app (l1 : list Z) : forall (l2 : list Z) (x : Z) (n : nat),
  n = length l1 -> list_insert (l1 ++ l2) n x = l1 ++ x :: l2.
Proof.
  induction l1 as [|a l1 IH]; intros l2 x n ->.
  - cbn [length app]. destruct l2; reflexivity.
  - cbn [length app list_insert]. f_equal. apply IH. reflexivity.
Qed.

(* ------------------------------------------------------------------------------------------ *)
(** * insert: the collision check, restated                                                    *)
(* ------------------------------------------------------------------------------------------ *)

Definition chk_inner (B : list Z) (d : list (Z * bytes)) (p L : Z) : option bool :=
  let i := ins_index (bisect_right B p) in
  match py_nth B i with None => None | Some b1 =>
  match dict_get d b1 with None => None | Some s1 =>
    let e1 := ins_end b1 (blen s1) in
    if ins_hits_prev b1 e1 p then Some true
    else if ins_has_next i (Z.of_nat (length B)) then
      match py_nth B (i + 1) with
      | None => None
      | Some b2 =>
          if ins_hits_next b2 p L
          then match dict_get d b2 with None => None | Some _ => Some true end
          else Some false
      end
    else Some false
  end end.
Definition chk_all (B : list Z) (d : list (Z * bytes)) (p L : Z) : option bool :=
  match B with [] => Some false | _ => chk_inner B d p L end.

Lemma chk_all_nil (B : list Z) (d : list (Z * bytes)) (p L : Z) :
  B = [] -> chk_all B d p L = Some false.
Proof. intros ->. reflexivity. Qed.
Lemma chk_all_nonnil (B : list Z) (d : list (Z * bytes)) (p L : Z) :
  B <> [] -> chk_all B d p L = chk_inner B d p L.
Proof. destruct B; [congruence|reflexivity]. Qed.

Definition ins_result (s : frs) (p : Z) (b : bytes) : frs :=
  {| frags := dict_set (frags s) p b;
     begins := list_insert (begins s)
                 (Z.to_nat (ins_slot (ins_index (bisect_right (begins s) p)))) p;
     cur := p + blen b |}.

Lemma insert_nonempty_eq (s : frs) (p : Z) (b : bytes) :
  b <> [] ->
  insert s p b = match chk_all (begins s) (frags s) p (blen b) with
                 | None => Crash
                 | Some true => Collision
                 | Some false => Ok (ins_result s p b)
                 end.
Proof.
  intros Hb. unfold insert. cbv zeta.
  replace (ins_is_empty (blen b)) with false.
  - reflexivity.
  - unfold ins_is_empty. symmetry. apply Z.eqb_neq. pose proof (blen_pos b Hb). lia.
Qed.

Lemma insert_empty_eq (s : frs) (p : Z) :
  insert s p [] = Ok {| frags := dict_setdefault (frags s) p []; begins := begins s; cur := p |}.
Proof. reflexivity. Qed.

Definition free (d : list (Z * bytes)) (p L : Z) : Prop :=
  forall o v, In (o, v) d -> v <> [] -> o + blen v <= p \/ p + L <= o.

Lemma in_nonempty_keys_dict_set (d : list (Z * bytes)) (p : Z) (b : bytes) (k : Z) :
  sorted_strict (keys d) -> b <> [] ->
  (In k (nonempty_keys (dict_set d p b)) <-> k = p \/ In k (nonempty_keys d)).
Proof.
  intros Hs Hb. rewrite !in_nonempty_keys. split.
  - intros (v & Hin & Hv). apply (in_dict_set d p b k v Hs) in Hin.
    destruct Hin as [[-> _]|[_ Hin]]; [left; reflexivity|right; eauto].
  - intros [->|(v & Hin & Hv)].
    + exists b. split; [|exact Hb]. apply (in_dict_set d p b p b Hs). left. split; reflexivity.
    + destruct (Z.eq_dec k p) as [->|Hne].
      * exists b. split; [|exact Hb]. apply (in_dict_set d p b p b Hs). left. split; reflexivity.
      * exists v. split; [|exact Hv]. apply (in_dict_set d p b k v Hs). right. split; assumption.
Qed.

Lemma insert_nonempty_cases (s : frs) (p : Z) (b : bytes) :
  Inv s -> b <> [] ->
  (insert s p b = Collision /\
   exists o v, In (o, v) (frags s) /\ v <> [] /\ o < p + blen b /\ p < o + blen v)
  \/
  (free (frags s) p (blen b) /\
   insert s p b = Ok {| frags := dict_set (frags s) p b;
                        begins := nonempty_keys (dict_set (frags s) p b);
                        cur := p + blen b |}).
Proof.
  intros (Hsort & Hsep & Hbeg) Hb.
  pose proof (blen_pos b Hb) as HL.
  assert (Hbs : sorted_strict (begins s)).
  { rewrite Hbeg. apply sorted_nonempty_keys. exact Hsort. }
  destruct (bisect_split (begins s) p Hbs) as (l1 & l2 & E & Hbis & H1 & H2).
  assert (Hget : forall k, In k (begins s) ->
            exists v, dict_get (frags s) k = Some v /\ In (k, v) (frags s) /\ v <> []).
  { intros k Hk. rewrite Hbeg in Hk. apply in_nonempty_keys in Hk.
    destruct Hk as (v & Hin & Hv). exists v. split; [|split; assumption].
    apply dict_get_sorted; assumption. }
  assert (Hbeg_in : forall o v, In (o, v) (frags s) -> v <> [] -> In o (begins s)).
  { intros o v Hin Hv. rewrite Hbeg. apply in_nonempty_keys. eauto. }
  (* once the range is free, the result has the announced shape *)
  assert (Hfin : free (frags s) p (blen b) ->
                 ins_result s p b = {| frags := dict_set (frags s) p b;
                                       begins := nonempty_keys (dict_set (frags s) p b);
                                       cur := p + blen b |}).
  { intros Hfree. unfold ins_result. f_equal.
    rewrite Hbis. unfold ins_slot, ins_index. rewrite E.
    rewrite list_insert_app by lia.
    rewrite E in Hbs. apply sorted_app in Hbs. destruct Hbs as (Hs1 & Hs2 & H12).
    assert (H1' : forall y, In y l1 -> y < p).
    { intros y Hy. pose proof (H1 y Hy) as Hle.
      destruct (Hget y) as (v & _ & Hin & Hv); [rewrite E; apply in_or_app; left; exact Hy|].
      pose proof (blen_pos v Hv). destruct (Hfree y v Hin Hv); lia. }
    apply sorted_ext.
    - apply sorted_app. split; [exact Hs1|]. split.
      + apply sorted_cons_iff. split; [exact H2|exact Hs2].
      + intros x y Hx [<-|Hy]; [apply H1'; exact Hx|apply H12; assumption].
    - apply sorted_nonempty_keys. apply sorted_dict_set. exact Hsort.
    - intros x. rewrite (in_nonempty_keys_dict_set _ _ _ _ Hsort Hb).
      rewrite <- Hbeg, E. rewrite !in_app_iff. cbn [In].
      split; intros H; repeat destruct H as [H|H]; subst; auto. }
  (* free from the two neighbours *)
  assert (Hcomb : (forall o v, In (o, v) (frags s) -> v <> [] -> In o l1 -> o + blen v <= p) ->
                  (forall o, In o l2 -> p + blen b <= o) -> free (frags s) p (blen b)).
  { intros HA HB o v Hin Hv. pose proof (Hbeg_in o v Hin Hv) as Ho. rewrite E in Ho.
    apply in_app_or in Ho. destruct Ho as [Ho|Ho]; [left; eapply HA; eauto|right; apply HB; exact Ho]. }
  rewrite (insert_nonempty_eq s p b Hb).
  destruct (rev_cases l1) as [->|(l1' & b1 & ->)].
  - (* position is smaller than every begin: index -1 *)
    cbn [app length] in E, Hbis.
    destruct l2 as [|b2 l2'].
    + right. assert (Hfree : free (frags s) p (blen b)).
      { apply Hcomb; [intros o v _ _ []|intros o []]. }
      split; [exact Hfree|]. rewrite chk_all_nil by exact E. rewrite (Hfin Hfree). reflexivity.
    + assert (Hne : begins s <> []) by (rewrite E; discriminate).
      rewrite chk_all_nonnil by exact Hne. unfold chk_inner. cbv zeta. rewrite Hbis.
      destruct (rev_cases (b2 :: l2')) as [Ebad|(l' & y & Ey)]; [discriminate|].
      assert (Hy : In y (begins s)).
      { rewrite E, Ey. apply in_or_app. right. left. reflexivity. }
      assert (Hpn1 : py_nth (begins s) (ins_index (Z.of_nat 0)) = Some y).
      { rewrite E, Ey. apply py_nth_last. reflexivity. }
      rewrite Hpn1. destruct (Hget y Hy) as (sy & Hgy & _ & _). rewrite Hgy.
      assert (Hpy : p < y). { apply H2. rewrite <- E. exact Hy. }
      replace (ins_hits_prev y (ins_end y (blen sy)) p) with false.
      2:{ unfold ins_hits_prev. destruct (Z.leb_spec y p); [lia|reflexivity]. }
      replace (ins_has_next (ins_index (Z.of_nat 0)) (Z.of_nat (length (begins s)))) with true.
      2:{ unfold ins_has_next, ins_index. rewrite E. cbn [length].
          destruct (Z.ltb_spec (Z.of_nat 0 - 1 + 1) (Z.of_nat (S (length l2')))); [reflexivity|lia]. }
      assert (Hpn2 : py_nth (begins s) (ins_index (Z.of_nat 0) + 1) = Some b2).
      { rewrite E. apply (py_nth_mid [] b2 l2'). reflexivity. }
      rewrite Hpn2.
      assert (Hb2 : In b2 (begins s)) by (rewrite E; left; reflexivity).
      destruct (Hget b2 Hb2) as (s2 & Hg2 & Hin2 & Hv2).
      unfold ins_hits_next. destruct (Z.ltb_spec b2 (p + blen b)) as [Hhit|Hno].
      * left. rewrite Hg2. split; [reflexivity|]. exists b2, s2.
        split; [exact Hin2|]. split; [exact Hv2|]. split; [exact Hhit|].
        pose proof (blen_pos s2 Hv2). specialize (H2 b2 (or_introl eq_refl)). lia.
      * right. assert (Hfree : free (frags s) p (blen b)).
        { apply Hcomb; [intros o v _ _ []|]. intros o [<-|Ho]; [exact Hno|].
          rewrite E in Hbs. apply sorted_cons_iff in Hbs. destruct Hbs as [Hlt _].
          specialize (Hlt o Ho). lia. }
        split; [exact Hfree|]. rewrite (Hfin Hfree). reflexivity.
  - (* b1 is the last begin <= position *)
    rewrite <- app_assoc in E. cbn [app] in E.
    assert (Hne : begins s <> []) by (rewrite E; destruct l1'; discriminate).
    rewrite chk_all_nonnil by exact Hne. unfold chk_inner. cbv zeta. rewrite Hbis.
    assert (Hi : ins_index (Z.of_nat (length (l1' ++ [b1]))) = Z.of_nat (length l1')).
    { unfold ins_index. rewrite app_length. cbn [length]. lia. }
    rewrite Hi.
    assert (Hpn1 : py_nth (begins s) (Z.of_nat (length l1')) = Some b1).
    { rewrite E. apply py_nth_mid. reflexivity. }
    rewrite Hpn1.
    assert (Hb1 : In b1 (begins s)).
    { rewrite E. apply in_or_app. right. left. reflexivity. }
    destruct (Hget b1 Hb1) as (s1 & Hg1 & Hin1 & Hv1). rewrite Hg1.
    assert (Hb1p : b1 <= p). { apply H1. apply in_or_app. right. left. reflexivity. }
    unfold ins_hits_prev, ins_end.
    destruct (Z.leb_spec b1 p) as [_|Hbad]; [|lia]. cbn [andb].
    destruct (Z.ltb_spec p (b1 + blen s1)) as [Hhit|Hno].
    + left. split; [reflexivity|]. exists b1, s1.
      split; [exact Hin1|]. split; [exact Hv1|]. split; [lia|exact Hhit].
    + assert (HA : forall o v, In (o, v) (frags s) -> v <> [] -> In o (l1' ++ [b1]) ->
                               o + blen v <= p).
      { intros o v Hin Hv Ho. apply in_app_or in Ho. destruct Ho as [Ho|[<-|[]]].
        - rewrite E in Hbs. apply sorted_app in Hbs. destruct Hbs as (_ & _ & H12).
          assert (Hlt : o < b1) by (apply H12; [exact Ho|left; reflexivity]).
          pose proof (Hsep o v b1 s1 Hin Hin1 Hlt Hv Hv1). lia.
        - pose proof (dict_get_sorted _ _ _ Hsort Hin) as Hg. rewrite Hg1 in Hg.
          inversion Hg. subst v. exact Hno. }
      destruct l2 as [|b2 l2'].
      * replace (ins_has_next (Z.of_nat (length l1')) (Z.of_nat (length (begins s)))) with false.
        2:{ unfold ins_has_next. rewrite E, app_length. cbn [length].
            destruct (Z.ltb_spec (Z.of_nat (length l1') + 1) (Z.of_nat (length l1' + 1)));
              [lia|reflexivity]. }
        right. assert (Hfree : free (frags s) p (blen b)).
        { apply Hcomb; [exact HA|intros o []]. }
        split; [exact Hfree|]. rewrite (Hfin Hfree). reflexivity.
      * replace (ins_has_next (Z.of_nat (length l1')) (Z.of_nat (length (begins s)))) with true.
        2:{ unfold ins_has_next. rewrite E, app_length. cbn [length].
            destruct (Z.ltb_spec (Z.of_nat (length l1') + 1)
                                 (Z.of_nat (length l1' + S (S (length l2')))));
              [reflexivity|lia]. }
        assert (Hpn2 : py_nth (begins s) (Z.of_nat (length l1') + 1) = Some b2).
        { rewrite E. change (l1' ++ b1 :: b2 :: l2') with (l1' ++ [b1] ++ b2 :: l2').
          rewrite app_assoc. apply py_nth_mid. rewrite app_length. cbn [length]. lia. }
        rewrite Hpn2.
        assert (Hb2 : In b2 (begins s)).
        { rewrite E. apply in_or_app. right. right. left. reflexivity. }
        destruct (Hget b2 Hb2) as (s2 & Hg2 & Hin2 & Hv2).
        unfold ins_hits_next. destruct (Z.ltb_spec b2 (p + blen b)) as [Hhit|Hno2].
        -- left. rewrite Hg2. split; [reflexivity|]. exists b2, s2.
           split; [exact Hin2|]. split; [exact Hv2|]. split; [exact Hhit|].
           pose proof (blen_pos s2 Hv2). specialize (H2 b2 (or_introl eq_refl)). lia.
        -- right. assert (Hfree : free (frags s) p (blen b)).
           { apply Hcomb; [exact HA|]. intros o [<-|Ho]; [exact Hno2|].
             rewrite E in Hbs. apply sorted_app in Hbs. destruct Hbs as (_ & Hs2 & _).
             apply sorted_cons_iff in Hs2. destruct Hs2 as [_ Hs2].
             apply sorted_cons_iff in Hs2. destruct Hs2 as [Hlt _].
             specialize (Hlt o Ho). lia. }
           split; [exact Hfree|]. rewrite (Hfin Hfree). reflexivity.
Qed.

(* ------------------------------------------------------------------------------------------ *)
(** * What dict_set does to the abstraction                                                    *)
(* ------------------------------------------------------------------------------------------ *)

Lemma dict_set_facts (d : list (Z * bytes)) (p : Z) (b : bytes) :
  sorted_strict (keys d) -> sep d ->
  (b <> [] -> free d p (blen b)) ->
  (forall v, In (p, v) d -> v = []) ->
  sorted_strict (keys (dict_set d p b)) /\
  sep (dict_set d p b) /\
  (forall q, cell (dict_set d p b) q =
             if (p <=? q) && (q <? p + blen b) then nth_error b (Z.to_nat (q - p)) else cell d q) /\
  extent (dict_set d p b) = Z.max (extent d) (p + blen b).
Proof.
  intros Hsort Hsep Hfree Hold.
  pose proof (sorted_dict_set d p b Hsort) as Hsort'.
  assert (Hin_new : In (p, b) (dict_set d p b)).
  { apply (in_dict_set d p b p b Hsort). left. split; reflexivity. }
  assert (Hsep' : sep (dict_set d p b)).
  { intros o1 s1 o2 s2 Hi1 Hi2 Hlt Hv1 Hv2.
    apply (in_dict_set d p b o1 s1 Hsort) in Hi1. apply (in_dict_set d p b o2 s2 Hsort) in Hi2.
    destruct Hi1 as [[-> ->]|[Hn1 Hi1]]; destruct Hi2 as [[-> ->]|[Hn2 Hi2]].
    - lia.
    - pose proof (blen_pos s2 Hv2). destruct (Hfree Hv1 o2 s2 Hi2 Hv2); lia.
    - pose proof (blen_pos b Hv2). destruct (Hfree Hv2 o1 s1 Hi1 Hv1); lia.
    - eapply Hsep; eauto. }
  split; [exact Hsort'|]. split; [exact Hsep'|]. split.
  - intros q.
    assert (Hout : ~ (p <= q < p + blen b) -> cell (dict_set d p b) q = cell d q).
    { intros Hnr. destruct (cell d q) as [x|] eqn:Ec.
      - destruct (cell_some_in _ _ _ Ec) as (o & v & Hin & Hr & Hn).
        assert (Hop : o <> p).
        { intros ->. rewrite (Hold v Hin), blen_nil in Hr. lia. }
        rewrite (cell_in (dict_set d p b) o v q Hsort' Hsep'); [exact Hn| |exact Hr].
        apply (in_dict_set d p b o v Hsort). right. split; assumption.
      - apply cell_none. intros o v Hin Hr.
        apply (in_dict_set d p b o v Hsort) in Hin. destruct Hin as [[-> ->]|[_ Hin]].
        + apply Hnr. exact Hr.
        + rewrite cell_none in Ec. apply (Ec o v Hin Hr). }
    destruct (Z.leb_spec p q) as [H1|H1]; cbn [andb];
      [destruct (Z.ltb_spec q (p + blen b)) as [H2|H2]|].
    + apply (cell_in (dict_set d p b) p b q Hsort' Hsep' Hin_new). lia.
    + apply Hout. lia.
    + apply Hout. lia.
  - apply extent_dict_set. intros v Hg. apply dict_get_in in Hg.
    rewrite (Hold v Hg), blen_nil. apply blen_nonneg.
Qed.

Lemma nonempty_keys_dict_set_empty (d : list (Z * bytes)) (p : Z) :
  sorted_strict (keys d) -> ~ In p (keys d) ->
  nonempty_keys (dict_set d p []) = nonempty_keys d.
Proof.
  intros Hsort Hnot. apply sorted_ext.
  - apply sorted_nonempty_keys. apply sorted_dict_set. exact Hsort.
  - apply sorted_nonempty_keys. exact Hsort.
  - intros k. rewrite !in_nonempty_keys. split.
    + intros (v & Hin & Hv). apply (in_dict_set d p [] k v Hsort) in Hin.
      destruct Hin as [[_ ->]|[_ Hin]]; [congruence|eauto].
    + intros (v & Hin & Hv). exists v. split; [|exact Hv].
      apply (in_dict_set d p [] k v Hsort). right. split; [|exact Hin].
      intros ->. apply Hnot. apply in_keys. eauto.
Qed.

(* ------------------------------------------------------------------------------------------ *)
(** * Theorems 1-6                                                                             *)
(* ------------------------------------------------------------------------------------------ *)

Theorem inv_empty : Inv empty /\ NonNeg empty.
Proof.
  split.
  - split; [exact I|]. split; [|reflexivity]. intros o1 s1 o2 s2 [].
  - intros k [].
Qed.

Theorem insert_no_crash : forall s p b, Inv s -> insert s p b <> Crash.
Proof.
  intros s p b HI. destruct b as [|x b].
  - rewrite insert_empty_eq. discriminate.
  - destruct (insert_nonempty_cases s p (x :: b) HI) as [[E _]|[_ E]];
      [discriminate| |]; rewrite E; discriminate.
Qed.

Theorem insert_collision_iff : forall s p b, Inv s -> b <> [] ->
  (insert s p b = Collision <->
   exists q, p <= q < p + blen b /\ cell (frags s) q <> None).
Proof.
  intros s p b HI Hb. pose proof (blen_pos b Hb) as HL.
  destruct (insert_nonempty_cases s p b HI Hb) as [[E W]|[Hfree E]].
  - split; [intros _|intros _; exact E].
    destruct W as (o & v & Hin & Hv & H1 & H2). exists (Z.max o p). split; [lia|].
    pose proof (blen_pos v Hv).
    apply cell_not_none_iff. exists o, v. split; [exact Hin|lia].
  - split; [rewrite E; discriminate|]. intros (q & Hq & Hc). exfalso.
    apply cell_not_none_iff in Hc. destruct Hc as (o & v & Hin & Hr).
    assert (Hv : v <> []). { intros ->. rewrite blen_nil in Hr. lia. }
    destruct (Hfree o v Hin Hv); lia.
Qed.

Theorem insert_empty_ok : forall s p, Inv s -> exists s', insert s p [] = Ok s'.
Proof. intros s p _. rewrite insert_empty_eq. eauto. Qed.

Theorem insert_ok : forall s p b s', Inv s -> insert s p b = Ok s' ->
  Inv s' /\ cur s' = p + blen b /\
  (forall q, cell (frags s') q =
             if (p <=? q) && (q <? p + blen b) then nth_error b (Z.to_nat (q - p))
             else cell (frags s) q) /\
  extent (frags s') = Z.max (extent (frags s)) (p + blen b).
Proof.
  intros s p b s' HI Hins. pose proof HI as (Hsort & Hsep & Hbeg).
  destruct b as [|x b].
  - rewrite insert_empty_eq in Hins. inversion Hins. subst s'. clear Hins.
    cbn [frags begins cur]. rewrite blen_nil. unfold dict_setdefault.
    destruct (dict_get (frags s) p) as [v|] eqn:Hg.
    + split; [split; [exact Hsort|split; [exact Hsep|exact Hbeg]]|].
      split; [lia|]. split.
      * intros q. destruct (Z.leb_spec p q); cbn [andb]; [|reflexivity].
        destruct (Z.ltb_spec q (p + 0)); [lia|reflexivity].
      * apply dict_get_in in Hg. pose proof (extent_in _ _ _ Hg). pose proof (blen_nonneg v). lia.
    + pose proof (dict_get_none _ _ Hg) as Hnot.
      destruct (dict_set_facts (frags s) p [] Hsort Hsep) as (Hs' & Hsep' & Hcell & Hext).
      { intros Hbad. congruence. }
      { intros v Hin. exfalso. apply Hnot. apply in_keys. eauto. }
      split; [split; [exact Hs'|split; [exact Hsep'|]]|].
      { cbn [frags begins cur]. rewrite (nonempty_keys_dict_set_empty _ _ Hsort Hnot). exact Hbeg. }
      split; [lia|]. split.
      * intros q. rewrite Hcell. rewrite blen_nil. reflexivity.
      * rewrite Hext, blen_nil. reflexivity.
  - assert (Hb : x :: b <> []) by discriminate.
    destruct (insert_nonempty_cases s p (x :: b) HI Hb) as [[E _]|[Hfree E]]; [congruence|].
    rewrite E in Hins. inversion Hins. subst s'. clear Hins. cbn [frags begins cur].
    destruct (dict_set_facts (frags s) p (x :: b) Hsort Hsep) as (Hs' & Hsep' & Hcell & Hext).
    { intros _. exact Hfree. }
    { intros v Hin. destruct v as [|y v]; [reflexivity|]. exfalso.
      assert (Hv : y :: v <> []) by discriminate.
      pose proof (blen_pos _ Hv). pose proof (blen_pos _ Hb).
      destruct (Hfree p (y :: v) Hin Hv); lia. }
    split; [split; [exact Hs'|split; [exact Hsep'|reflexivity]]|].
    split; [reflexivity|]. split; [exact Hcell|exact Hext].
Qed.

Lemma insert_ok_frags (s : frs) (p : Z) (b : bytes) (s' : frs) :
  insert s p b = Ok s' ->
  frags s' = dict_setdefault (frags s) p b \/ frags s' = dict_set (frags s) p b.
Proof.
  unfold insert. cbv zeta. destruct (ins_is_empty (blen b)).
  - intros H. inversion H. left. reflexivity.
  - match goal with |- match ?c with _ => _ end = _ -> _ => destruct c as [[|]|] end;
      intros H; inversion H. right. reflexivity.
Qed.

Theorem insert_nonneg : forall s p b s', NonNeg s -> 0 <= p -> insert s p b = Ok s' -> NonNeg s'.
Proof.
  intros s p b s' HN Hp Hins k Hk.
  assert (Hcase : k = p \/ In k (keys (frags s))).
  { destruct (insert_ok_frags _ _ _ _ Hins) as [E|E]; rewrite E in Hk.
    - unfold dict_setdefault in Hk. destruct (dict_get (frags s) p); [right; exact Hk|].
      apply keys_dict_set_in in Hk. exact Hk.
    - apply keys_dict_set_in in Hk. exact Hk. }
  destruct Hcase as [->|Hin]; [exact Hp|apply HN; exact Hin].
Qed.

(* ------------------------------------------------------------------------------------------ *)
(** * tobytes                                                                                  *)
(* ------------------------------------------------------------------------------------------ *)

Definition fillcell (d : list (Z * bytes)) (fill : Z) (q : Z) : Z :=
  match cell d q with Some x => x | None => fill end.

Lemma walk_spec (fill : Z) (d : list (Z * bytes)) : forall B,
  0 <= B -> sorted_strict (keys d) -> sep d ->
  (forall o v, In (o, v) d -> v <> [] -> B <= o) ->
  walk fill B d = map (fillcell d fill) (positions B (Z.to_nat (Z.max B (extent d) - B))).
Proof.
  induction d as [|[o v] r IH]; intros B HB Hsort Hsep Hlow.
  - cbn [walk extent]. replace (Z.to_nat (Z.max B 0 - B)) with 0%nat by lia. reflexivity.
  - cbn [walk extent]. unfold tb_gap, tb_next.
    pose proof (sorted_keys_tail _ _ Hsort) as Hsort_r. pose proof (sep_tail _ _ Hsep) as Hsep_r.
    pose proof (extent_nonneg r) as Hext. pose proof (blen_nonneg v) as Hlen.
    assert (Hov : v = [] \/ (v <> [] /\ B <= o)).
    { destruct v as [|z v]; [left; reflexivity|right]. split; [discriminate|].
      apply (Hlow o (z :: v)); [left; reflexivity|discriminate]. }
    set (B' := Z.max B (o + blen v)).
    assert (HB' : 0 <= B') by (unfold B'; lia).
    assert (Hlow' : forall o2 v2, In (o2, v2) r -> v2 <> [] -> B' <= o2).
    { intros o2 v2 Hin Hv2. pose proof (Hlow o2 v2 (or_intror Hin) Hv2) as Hl.
      pose proof (key_lt _ _ _ _ _ Hsort Hin) as Hlt. unfold B'.
      destruct Hov as [->|[Hv Hbo]].
      - rewrite blen_nil. lia.
      - pose proof (Hsep o v o2 v2 (or_introl eq_refl) (or_intror Hin) Hlt Hv Hv2). lia. }
    rewrite (IH B' HB' Hsort_r Hsep_r Hlow').
    set (n1 := Z.to_nat (o - B)). set (n3 := Z.to_nat (Z.max B' (extent r) - B')).
    assert (Hstart : v <> [] -> B + Z.of_nat n1 = o).
    { intros Hv. destruct Hov as [->|[_ Hbo]]; [congruence|]. unfold n1. lia. }
    assert (Hmid : B + Z.of_nat n1 + Z.of_nat (length v) = B').
    { unfold n1, B', blen. destruct Hov as [->|[_ Hbo]]; cbn [length]; lia. }
    replace (Z.to_nat (Z.max B (Z.max (o + blen v) (extent r)) - B))
      with (n1 + (length v + n3))%nat.
    2:{ unfold n3. unfold blen in *. lia. }
    rewrite positions_app, positions_app, !map_app. rewrite Hmid.
    assert (P1 : map (fillcell ((o, v) :: r) fill) (positions B n1) = repeat fill n1).
    { rewrite (map_const_repeat (fillcell ((o, v) :: r) fill) fill).
      - rewrite positions_length. reflexivity.
      - intros q Hq. apply in_positions in Hq. unfold fillcell.
        replace (cell ((o, v) :: r) q) with (@None Z); [reflexivity|]. symmetry.
        apply cell_none. intros o2 v2 [E|Hin] Hr.
        + inversion E. subst. unfold n1 in Hq. lia.
        + pose proof (key_lt _ _ _ _ _ Hsort Hin) as Hlt. unfold n1 in Hq. lia. }
    assert (P2 : map (fillcell ((o, v) :: r) fill) (positions (B + Z.of_nat n1) (length v)) = v).
    { apply map_positions_eq. intros i x Hi. unfold fillcell. cbn [cell].
      assert (Hil : (i < length v)%nat) by (apply nth_error_Some; congruence).
      assert (Hv : v <> []) by (intros ->; cbn [length] in Hil; lia).
      rewrite (Hstart Hv).
      destruct (Z.leb_spec o (o + Z.of_nat i)) as [_|Hbad]; [|lia].
      destruct (Z.ltb_spec (o + Z.of_nat i) (o + blen v)) as [_|Hbad]; [|unfold blen in Hbad; lia].
      cbn [andb]. replace (Z.to_nat (o + Z.of_nat i - o)) with i by lia. rewrite Hi. reflexivity. }
    assert (P3 : map (fillcell ((o, v) :: r) fill) (positions B' n3) =
                 map (fillcell r fill) (positions B' n3)).
    { apply map_ext_in. intros q Hq. apply in_positions in Hq. unfold fillcell. cbn [cell].
      destruct (Z.leb_spec o q) as [H1|H1]; cbn [andb]; [|reflexivity].
      destruct (Z.ltb_spec q (o + blen v)) as [H2|H2]; [unfold B' in Hq; lia|reflexivity]. }
    rewrite P1, P2, P3. reflexivity.
Qed.

Lemma tobytes_eq (s : frs) :
  Inv s -> NonNeg s ->
  tobytes s = map (fillcell (frags s) FILL) (positions 0 (Z.to_nat (extent (frags s)))).
Proof.
  intros (Hsort & Hsep & _) HN. unfold tobytes.
  assert (Hlow : forall o v, In (o, v) (frags s) -> v <> [] -> 0 <= o).
  { intros o v Hin _. apply HN. apply in_keys. eauto. }
  rewrite (walk_spec FILL (frags s) 0 (Z.le_refl 0) Hsort Hsep Hlow).
  pose proof (extent_nonneg (frags s)) as He.
  replace (Z.max 0 (extent (frags s)) - 0) with (extent (frags s)) by lia. reflexivity.
Qed.

Theorem tobytes_spec : forall s, Inv s -> NonNeg s ->
  blen (tobytes s) = extent (frags s) /\
  forall q, 0 <= q < extent (frags s) ->
            nth_error (tobytes s) (Z.to_nat q) =
            Some (match cell (frags s) q with Some x => x | None => FILL end).
Proof.
  intros s HI HN. rewrite (tobytes_eq s HI HN).
  pose proof (extent_nonneg (frags s)) as He. split.
  - unfold blen. rewrite map_length, positions_length. lia.
  - intros q Hq.
    assert (Hlt : (Z.to_nat q < Z.to_nat (extent (frags s)))%nat) by lia.
    rewrite (map_nth_error (fillcell (frags s) FILL) (Z.to_nat q)
               (positions 0 (Z.to_nat (extent (frags s))))
               (nth_error_positions _ 0 (Z.to_nat q) Hlt)).
    unfold fillcell. replace (0 + Z.of_nat (Z.to_nat q)) with q by lia. reflexivity.
Qed.

(* ------------------------------------------------------------------------------------------ *)
(** * Refinement of the sparse-array specification                                             *)
(* ------------------------------------------------------------------------------------------ *)

Definition R (s : frs) (a : afrs) : Prop :=
  Inv s /\ NonNeg s /\ (forall q, cell (frags s) q = a_get (acells a) q) /\
  extent (frags s) = aext a /\ cur s = acur a /\ 0 <= cur s.
Definition op_nonneg (o : op) : Prop :=
  match o with OInsert p _ => 0 <= p | OSetCur p => 0 <= p | _ => True end.
Fixpoint fold_a (a : afrs) (ops : list op) : option afrs :=
  match ops with
  | [] => Some a
  | o :: r => match a_apply a o with Some a' => fold_a a' r | None => None end
  end.

Lemma a_get_combine (b : bytes) : forall (p : Z) (c : list (Z * Z)) (q : Z),
  a_get (combine (positions p (length b)) b ++ c) q =
  if (p <=? q) && (q <? p + blen b) then nth_error b (Z.to_nat (q - p)) else a_get c q.
Proof.
  induction b as [|x b IH]; intros p c q.
  - cbn [length]. rewrite positions_0, blen_nil. cbn [combine app].
    destruct (Z.leb_spec p q); cbn [andb]; [|reflexivity].
    destruct (Z.ltb_spec q (p + 0)); [lia|reflexivity].
  - cbn [length]. rewrite positions_S, blen_cons. cbn [combine app a_get].
    pose proof (blen_nonneg b) as Hlen.
    destruct (Z.eqb_spec q p) as [->|Hne].
    + destruct (Z.leb_spec p p) as [_|Hbad]; [|lia].
      destruct (Z.ltb_spec p (p + (1 + blen b))) as [_|Hbad]; [|lia].
      cbn [andb]. replace (Z.to_nat (p - p)) with 0%nat by lia. reflexivity.
    + rewrite IH.
      destruct (Z.leb_spec (p + 1) q), (Z.leb_spec p q), (Z.ltb_spec q (p + 1 + blen b)),
        (Z.ltb_spec q (p + (1 + blen b))); cbn [andb]; try lia; try reflexivity.
      replace (Z.to_nat (q - p)) with (S (Z.to_nat (q - (p + 1)))) by lia. reflexivity.
Qed.

Lemma occupied_exists (c : list (Z * Z)) (p : Z) (n : nat) :
  existsb (a_occupied c) (positions p n) = true <->
  exists q, p <= q < p + Z.of_nat n /\ a_get c q <> None.
Proof.
  rewrite existsb_exists. split.
  - intros (q & Hin & Ho). exists q. split; [apply in_positions; exact Hin|].
    unfold a_occupied in Ho. destruct (a_get c q); [discriminate|discriminate Ho].
  - intros (q & Hr & Hn). exists q. split; [apply in_positions; exact Hr|].
    unfold a_occupied. destruct (a_get c q); [reflexivity|congruence].
Qed.

Theorem R_empty : R empty aempty.
Proof.
  destruct inv_empty as [HI HN].
  split; [exact HI|]. split; [exact HN|]. split; [intros q; reflexivity|].
  split; [reflexivity|]. split; [reflexivity|]. cbn [cur empty]. lia.
Qed.

Lemma insert_refines (s : frs) (a : afrs) (p : Z) (b : bytes) :
  R s a -> 0 <= p ->
  match insert s p b, a_insert a p b with
  | Ok s', Some a' => R s' a'
  | Collision, None => True
  | _, _ => False
  end.
Proof.
  intros (HI & HN & Hcell & Hext & Hcur & Hc0) Hp. unfold a_insert.
  destruct (existsb (a_occupied (acells a)) (positions p (length b))) eqn:Eex.
  - apply occupied_exists in Eex. destruct Eex as (q & Hq & Hn).
    assert (Hb : b <> []). { intros ->. cbn [length] in Hq. lia. }
    assert (Hcol : insert s p b = Collision).
    { apply (insert_collision_iff s p b HI Hb). exists q. split; [exact Hq|].
      rewrite Hcell. exact Hn. }
    rewrite Hcol. exact I.
  - destruct (insert s p b) as [s'| |] eqn:Eins; cbv beta iota.
    + destruct (insert_ok s p b s' HI Eins) as (HI' & Hcur' & Hcell' & Hext').
      split; [exact HI'|]. split; [exact (insert_nonneg s p b s' HN Hp Eins)|].
      cbn [acells aext acur]. split; [|split; [|split]].
      * intros q. rewrite Hcell', a_get_combine, Hcell. reflexivity.
      * rewrite Hext', Hext. reflexivity.
      * exact Hcur'.
      * rewrite Hcur'. pose proof (blen_nonneg b). lia.
    + assert (Hb : b <> []). { intros ->. rewrite insert_empty_eq in Eins. discriminate. }
      apply (insert_collision_iff s p b HI Hb) in Eins. destruct Eins as (q & Hq & Hn).
      assert (Hex : existsb (a_occupied (acells a)) (positions p (length b)) = true).
      { apply occupied_exists. exists q. split; [exact Hq|]. rewrite <- Hcell. exact Hn. }
      congruence.
    + exact (insert_no_crash s p b HI Eins).
Qed.

Lemma extend_refines (bs : list bytes) : forall (s : frs) (a : afrs),
  R s a ->
  match extend s bs, a_extend a bs with
  | Ok s', Some a' => R s' a'
  | Collision, None => True
  | _, _ => False
  end.
Proof.
  induction bs as [|x r IH]; intros s a HR.
  - cbn [extend a_extend]. exact HR.
  - cbn [extend a_extend]. pose proof HR as (_ & _ & _ & _ & Hcur & Hc0).
    pose proof (insert_refines s a (cur s) x HR Hc0) as Hstep. rewrite <- Hcur.
    revert Hstep.
    destruct (insert s (cur s) x) as [s1| |]; destruct (a_insert a (cur s) x) as [a1|];
      intros Hstep; try contradiction.
    + apply IH. exact Hstep.
    + exact I.
Qed.

Theorem apply_op_refines : forall s a o, R s a -> op_nonneg o ->
  match apply_op s o, a_apply a o with
  | Ok s', Some a' => R s' a'
  | Collision, None => True
  | _, _ => False
  end.
Proof.
  intros s a o HR Ho. destruct o as [p b|b|bs|p]; cbn [apply_op a_apply op_nonneg] in *.
  - apply insert_refines; assumption.
  - pose proof HR as (_ & _ & _ & _ & Hcur & Hc0). unfold append. rewrite <- Hcur.
    apply insert_refines; assumption.
  - apply extend_refines. exact HR.
  - destruct HR as (HI & HN & Hcell & Hext & Hcur & Hc0).
    split; [exact HI|]. split; [exact HN|]. split; [exact Hcell|]. split; [exact Hext|].
    split; [reflexivity|exact Ho].
Qed.

Theorem tobytes_refines : forall s a, R s a -> tobytes s = a_tobytes a.
Proof.
  intros s a (HI & HN & Hcell & Hext & _ & _). rewrite (tobytes_eq s HI HN).
  unfold a_tobytes. rewrite <- Hext. apply map_ext. intros q. unfold fillcell.
  rewrite Hcell. reflexivity.
Qed.

Theorem history_refines : forall ops s a, R s a -> Forall op_nonneg ops -> forall k,
  match fst (run_ops s ops k) with
  | Ok s' => exists a', fold_a a ops = Some a' /\ R s' a'
  | Collision => fold_a a ops = None
  | Crash => False
  end.
Proof.
  induction ops as [|o r IH]; intros s a HR Hall k.
  - cbn [run_ops fold_a fst]. exists a. split; [reflexivity|exact HR].
  - cbn [run_ops fold_a]. inversion Hall as [|o' r' Ho Hr]. subst o' r'.
    pose proof (apply_op_refines s a o HR Ho) as Hstep. revert Hstep.
    destruct (apply_op s o) as [s1| |]; destruct (a_apply a o) as [a1|];
      intros Hstep; try contradiction.
    + apply IH; assumption.
    + reflexivity.
Qed.

(* ------------------------------------------------------------------------------------------ *)
(** * Non-vacuity: a reachable state with a hole, an out-of-order insert and an empty chunk    *)
(* ------------------------------------------------------------------------------------------ *)

Definition ex1 : frs := {| frags := [(5, [1; 2])]; begins := [5]; cur := 7 |}.
Definition ex2 : frs := {| frags := [(0, [7]); (5, [1; 2])]; begins := [0; 5]; cur := 1 |}.
Definition ex3 : frs := {| frags := [(0, [7]); (3, []); (5, [1; 2])]; begins := [0; 5]; cur := 3 |}.

Example frag_example :
  insert empty 5 [1; 2] = Ok ex1 /\ insert ex1 0 [7] = Ok ex2 /\ insert ex2 3 [] = Ok ex3 /\
  Inv ex3 /\ NonNeg ex3 /\
  tobytes ex3 = [7; 46; 46; 46; 46; 1; 2] /\
  insert ex3 4 [9; 9] = Collision /\
  insert ex3 3 [9] = Ok {| frags := [(0, [7]); (3, [9]); (5, [1; 2])]; begins := [0; 3; 5]; cur := 4 |} /\
  fst (run_ops empty [OInsert 5 [1; 2]; OInsert 0 [7]; OInsert 3 []] 0) = Ok ex3.
Proof.
  assert (E1 : insert empty 5 [1; 2] = Ok ex1) by (vm_compute; reflexivity).
  assert (E2 : insert ex1 0 [7] = Ok ex2) by (vm_compute; reflexivity).
  assert (E3 : insert ex2 3 [] = Ok ex3) by (vm_compute; reflexivity).
  destruct inv_empty as [I0 N0].
  pose proof (proj1 (insert_ok _ _ _ _ I0 E1)) as I1.
  pose proof (proj1 (insert_ok _ _ _ _ I1 E2)) as I2.
  pose proof (proj1 (insert_ok _ _ _ _ I2 E3)) as I3.
  assert (N1 : NonNeg ex1) by (eapply insert_nonneg; [exact N0| |exact E1]; lia).
  assert (N2 : NonNeg ex2) by (eapply insert_nonneg; [exact N1| |exact E2]; lia).
  assert (N3 : NonNeg ex3) by (eapply insert_nonneg; [exact N2| |exact E3]; lia).
  split; [exact E1|]. split; [exact E2|]. split; [exact E3|].
  split; [exact I3|]. split; [exact N3|].
  split; [vm_compute; reflexivity|]. split; [vm_compute; reflexivity|].
  split; vm_compute; reflexivity.
Qed.

Print Assumptions inv_empty.
Print Assumptions insert_no_crash.
Print Assumptions insert_collision_iff.
Print Assumptions insert_empty_ok.
Print Assumptions insert_ok.
Print Assumptions insert_nonneg.
Print Assumptions tobytes_spec.
Print Assumptions R_empty.
Print Assumptions apply_op_refines.
Print Assumptions tobytes_refines.
Print Assumptions history_refines.
Print Assumptions frag_example.
